From Verif Require Import Base.Sx Model.Batcher Gen.BatcherGen.
From Coq Require Import Lia ZifyBool Bool List ZArith FinFun.
Import ListNotations.
Local Open Scope Z_scope.

(* generic: an invariant preserved by every enabled step holds in every reachable state *)
Lemma run_invariant (c : cfg) (P : st -> Prop) :
  (forall s l s', P s -> step c s l = Some s' -> P s') ->
  forall ls s s', P s -> run c s ls = Some s' -> P s'.
Proof.
  intros Hstep ls. induction ls as [|l r IH]; intros s s' Hs Hr; cbn [run] in Hr.
  - inversion Hr; subst; exact Hs.
  - destruct (step c s l) as [s1|] eqn:E; [|discriminate]. eapply IH; [eapply Hstep; eauto|exact Hr].
Qed.

(* ------------------------------------------------------------------------------------------- *)
(* inversion of [step]: split every test of the big match, normalise the boolean guards         *)

Ltac bnorm :=
  repeat match goal with
  | H : _ && _ = true |- _ => apply andb_true_iff in H; destruct H
  | H : negb _ = true |- _ => apply negb_true_iff in H
  | H : negb _ = false |- _ => apply negb_false_iff in H
  | H : (_ =? _) = true |- _ => apply Z.eqb_eq in H
  | H : (_ =? _) = false |- _ => apply Z.eqb_neq in H
  | H : (_ <? _) = true |- _ => apply Z.ltb_lt in H
  | H : (_ <? _) = false |- _ => apply Z.ltb_ge in H
  | H : (_ <=? _) = true |- _ => apply Z.leb_le in H
  | H : (_ <=? _) = false |- _ => apply Z.leb_gt in H
  | H : Bool.eqb _ _ = true |- _ => apply Bool.eqb_prop in H
  end.

Ltac step_split H :=
  repeat match type of H with
  | match ?x with _ => _ end = Some _ => destruct x eqn:?; try discriminate H
  end.

Ltac proj_simpl :=
  cbn [cur deciding free flight queue outSeq commitSeq stopped crashed added sealed_hist sent_hist
       committed commit_batches failed_hist result_hist upd with_flight] in *.

(* after [step_inv H] the post-state is an explicit record, every guard is a hypothesis *)
Ltac step_inv H :=
  unfold step in H; step_split H; injection H as H; subst; bnorm; proj_simpl.

(* ------------------------------------------------------------------------------------------- *)
(* list helpers                                                                                  *)

Lemma find_bat_In fl q b : find_bat fl q = Some b -> In b fl /\ bseq b = q.
Proof.
  induction fl as [|x r IH]; cbn [find_bat]; [discriminate|].
  destruct (bseq x =? q) eqn:E; intros H.
  - inversion H; subst. split; [left; reflexivity|lia].
  - destruct (IH H); split; [right|]; assumption.
Qed.

Lemma In_upd_bat fl q f b :
  In b (upd_bat fl q f) -> In b fl \/ exists b0, find_bat fl q = Some b0 /\ b = f b0.
Proof.
  induction fl as [|x r IH]; cbn [upd_bat find_bat]; [tauto|].
  destruct (bseq x =? q) eqn:E; cbn [In]; intros [H|H].
  - right; exists x; split; [reflexivity|symmetry; exact H].
  - left; right; exact H.
  - left; left; exact H.
  - destruct (IH H) as [H1|H1]; [left; right; exact H1|right; exact H1].
Qed.

Lemma In_del_bat fl q b : In b (del_bat fl q) -> In b fl.
Proof.
  induction fl as [|x r IH]; cbn [del_bat]; [tauto|].
  destruct (bseq x =? q); cbn [In]; [tauto|]. intros [H|H]; [left; exact H|right; exact (IH H)].
Qed.

Lemma bseq_set_stage g b : bseq (set_stage g b) = bseq b. Proof. reflexivity. Qed.
Lemma bevs_set_stage g b : bevs (set_stage g b) = bevs b. Proof. reflexivity. Qed.
Lemma bstage_set_stage g b : bstage (set_stage g b) = g. Proof. reflexivity. Qed.
Lemma bemptied_set_stage g b : bemptied (set_stage g b) = bemptied b. Proof. reflexivity. Qed.

(* ------------------------------------------------------------------------------------------- *)
(* 2. commit sections start in sequence order                                                    *)

Fixpoint countdown (n : nat) : list Z := match n with O => [] | S k => Z.of_nat k :: countdown k end.

Definition inv_commit_order (s : st) : Prop :=
  0 <= commitSeq s /\ commit_batches s = countdown (Z.to_nat (commitSeq s)).

Lemma countdown_S z : 0 <= z -> countdown (Z.to_nat (z + 1)) = z :: countdown (Z.to_nat z).
Proof. intros Hz. replace (Z.to_nat (z + 1)) with (S (Z.to_nat z)) by lia. cbn [countdown]. f_equal. lia. Qed.

Lemma inv_commit_order_step c s l s' : inv_commit_order s -> step c s l = Some s' -> inv_commit_order s'.
Proof.
  intros [H0 H1] H. unfold inv_commit_order. destruct l; step_inv H; try (split; assumption).
  split; [lia|]. rewrite countdown_S by lia. rewrite H1. subst seq. reflexivity.
Qed.

Lemma inv_commit_order_init c : inv_commit_order (init c).
Proof. split; cbn; [lia|reflexivity]. Qed.

Lemma countdown_rev n : rev (countdown n) = map Z.of_nat (seq 0 n).
Proof.
  induction n as [|n IH]; [reflexivity|]. cbn [countdown rev]. rewrite IH.
  rewrite seq_S, map_app. reflexivity.
Qed.

Lemma commit_in_seq_order c ls s :
  run c (init c) ls = Some s ->
  0 <= commitSeq s /\ rev (commit_batches s) = map Z.of_nat (seq 0 (Z.to_nat (commitSeq s))).
Proof.
  intros Hr.
  destruct (run_invariant c inv_commit_order (inv_commit_order_step c) ls _ _ (inv_commit_order_init c) Hr) as [H0 H1].
  split; [exact H0|]. rewrite H1. apply countdown_rev.
Qed.

Lemma commit_each_once c ls s : run c (init c) ls = Some s -> NoDup (commit_batches s).
Proof.
  intros Hr. destruct (commit_in_seq_order c ls s Hr) as [_ H].
  assert (Hn : NoDup (rev (commit_batches s))).
  { rewrite H. apply FinFun.Injective_map_NoDup; [intros x y Hxy; apply Nat2Z.inj; exact Hxy|apply seq_NoDup]. }
  rewrite <- (rev_involutive (commit_batches s)). apply NoDup_rev. exact Hn.
Qed.

(* ------------------------------------------------------------------------------------------- *)
(* 7. Stop never panics when the channel send is inside the critical section                     *)

Definition inv_nopanic (s : st) : Prop :=
  crashed s = false /\ (deciding s = true -> stopped s = false) /\
  (stopped s = true -> forall b, In b (flight s) -> bstage b <> Pending).

Ltac in_upd Hb :=
  let b0 := fresh "b0" in let Hf := fresh "Hf" in
  apply In_upd_bat in Hb; destruct Hb as [Hb|[b0 [Hf ->]]].

Lemma inv_nopanic_step c s l s' :
  atomic_push c = true -> inv_nopanic s -> step c s l = Some s' -> inv_nopanic s'.
Proof.
  intros Ha (H0 & H1 & H2) H. unfold inv_nopanic.
  destruct l; step_inv H;
    try (split; [assumption|split; [solve [auto|intros; congruence]|]]);
    try solve [assumption | intros; congruence
              | intros Hs x Hx; in_upd Hx; [eauto|cbn [bstage set_stage]; discriminate]
              | intros Hs x Hx; apply In_del_bat in Hx; eauto ].
  - (* Seal *) intros Hs. rewrite (H1 H) in Hs. discriminate.
  - (* Push on a closed channel: excluded *)
    exfalso. match goal with Hf : find_bat _ _ = Some ?b, Hp : bstage ?b = Pending |- _ =>
      destruct (find_bat_In _ _ _ Hf) as [Hin _]; exact (H2 eq_refl _ Hin Hp) end.
  - (* Stop *) intros _ x Hx Hp. rewrite Ha in H3. cbn [negb orb] in H3. apply negb_true_iff in H3.
    assert (Hex : existsb (fun b => match bstage b with Pending => true | _ => false end) (flight s) = true).
    { apply existsb_exists. exists x. split; [exact Hx|rewrite Hp; reflexivity]. }
    congruence.
Qed.

Lemma inv_nopanic_init c : inv_nopanic (init c).
Proof. repeat split; cbn; intros; try congruence; contradiction. Qed.

Lemma stop_never_panics c ls s :
  atomic_push c = batcher_atomic_push -> run c (init c) ls = Some s -> crashed s = false.
Proof.
  intros Ha Hr. unfold batcher_atomic_push in Ha.
  exact (proj1 (run_invariant c inv_nopanic (fun s0 l s1 => inv_nopanic_step c s0 l s1 Ha) ls _ _ (inv_nopanic_init c) Hr)).
Qed.

Definition ev1 : ev := {| eid := 1; esrc := 0; esize := 1; ekind := 0 |}.
Definition cfg_noatomic : cfg :=
  {| workers := 1; maxCount := 1; maxBytes := 0; retriable := false; retry := 0; deadq := false; atomic_push := false |}.

Lemma stop_panics_without_atomic_push :
  exists c ls s, atomic_push c = false /\ run c (init c) ls = Some s /\ crashed s = true.
Proof.
  exists cfg_noatomic, [LFree; LAdd ev1; LSeal 0 1 1 1; LStop; LPush 0].
  eexists. split; [reflexivity|]. split; [vm_compute; reflexivity|reflexivity].
Qed.

(* ------------------------------------------------------------------------------------------- *)
(* 8. the NotReady decision is impossible for a non-empty batch older than the flush timeout     *)

Lemma idle_flush_decision c s n b el tmo s' :
  step c s (LNotReady n b el tmo) = Some s' -> n <> 0 -> el <= tmo.
Proof.
  intros H Hn. step_inv H. apply orb_true_iff in H0. destruct H0 as [H0|H0]; bnorm; [contradiction|assumption].
Qed.

(* ------------------------------------------------------------------------------------------- *)
(* 1. size bounds of sealed batches                                                              *)

Definition not_size_ready (c : cfg) (l : list ev) : Prop :=
  (maxCount c = 0 \/ Z.of_nat (length l) < maxCount c) /\ (maxBytes c = 0 \/ bytes_of l < maxBytes c).

Definition batch_ok (c : cfg) (b : list ev) : Prop :=
  b <> [] /\ (not_size_ready c b \/ exists b0 e, b = b0 ++ [e] /\ not_size_ready c b0).

Lemma size_ready_false c l :
  size_ready c (Z.of_nat (length l)) (bytes_of l) = false <-> not_size_ready c l.
Proof. unfold size_ready, not_size_ready. lia. Qed.

Lemma bytes_of_app a b : bytes_of (a ++ b) = bytes_of a + bytes_of b.
Proof. induction a as [|x a IH]; cbn [bytes_of app]; lia. Qed.

Lemma bytes_of_rev l : bytes_of (rev l) = bytes_of l.
Proof. induction l as [|x l IH]; cbn [bytes_of rev]; [reflexivity|]. rewrite bytes_of_app, IH. cbn [bytes_of]. lia. Qed.

Lemma nsr_rev c l : not_size_ready c l -> not_size_ready c (rev l).
Proof. unfold not_size_ready. rewrite rev_length, bytes_of_rev. tauto. Qed.

Lemma nsr_nil c : 0 <= maxCount c -> 0 <= maxBytes c -> not_size_ready c [].
Proof. unfold not_size_ready. cbn [length bytes_of]. lia. Qed.

Definition inv_bounds (c : cfg) (s : st) : Prop :=
  (forall b, In b (sealed_hist s) -> batch_ok c b) /\
  match cur s with
  | None => True
  | Some l0 => (deciding s = false -> not_size_ready c l0) /\
               (deciding s = true -> not_size_ready c l0 \/ exists e t, l0 = e :: t /\ not_size_ready c t)
  end.

Lemma inv_bounds_step c s l s' :
  0 <= maxCount c -> 0 <= maxBytes c -> inv_bounds c s -> step c s l = Some s' -> inv_bounds c s'.
Proof.
  intros Hc Hb [Hsl Hcu] H. unfold inv_bounds.
  destruct l; step_inv H; try (split; [exact Hsl|]); try exact Hcu;
    try match type of Hcu with _ /\ _ => destruct Hcu as [Hd0 Hd1] end.
  - (* Free *) split; intros _; [|left]; apply nsr_nil; assumption.
  - (* Add *) split; [intros; discriminate|]. intros _. right. eexists _, _. split; [reflexivity|auto].
  - (* Tick *) destruct (cur s) as [l0|]; [|exact I]. destruct Hcu as [Hd0 Hd1].
    split; [intros; discriminate|]. intros _. left. auto.
  - (* NotReady *) split; [|intros; discriminate]. intros _.
    apply orb_true_iff in H0. destruct H0 as [H0|H0]; bnorm.
    + destruct l; [apply nsr_nil; assumption|cbn [length] in *; lia].
    + subst. apply size_ready_false. assumption.
  - (* Seal *) split; [|exact I]. intros b [Hb0|Hb0]; [|auto]. subst b. rewrite rev_append_rev, app_nil_r.
    split; [destruct l; [cbn [length] in *; lia|cbn [rev]; intros E; apply app_eq_nil in E; destruct E; discriminate]|].
    destruct (Hd1 H) as [Hn|(e & t & -> & Hn)]; [left; apply nsr_rev; exact Hn|].
    right. exists (rev t), e. split; [reflexivity|apply nsr_rev; exact Hn].
Qed.

Lemma inv_bounds_init c : inv_bounds c (init c).
Proof. split; cbn; [contradiction|exact I]. Qed.

Lemma batch_bounds c ls s :
  0 <= maxCount c -> 0 <= maxBytes c -> run c (init c) ls = Some s ->
  forall b, In b (sealed_hist s) -> batch_ok c b.
Proof.
  intros Hc Hb Hr.
  exact (proj1 (run_invariant c (inv_bounds c) (fun s0 l s1 => inv_bounds_step c s0 l s1 Hc Hb) ls _ _ (inv_bounds_init c) Hr)).
Qed.

Lemma batch_ok_count c b : batch_ok c b -> 0 < maxCount c -> Z.of_nat (length b) <= maxCount c.
Proof.
  intros [_ [[H _]|(b0 & e & -> & [H _])]] Hm; [lia|]. rewrite app_length. cbn [length]. lia.
Qed.

(* bytes: the limit is exceeded by at most the last event *)
Lemma batch_ok_bytes c b :
  batch_ok c b -> 0 < maxBytes c ->
  bytes_of b < maxBytes c \/ exists b0 e, b = b0 ++ [e] /\ bytes_of b0 < maxBytes c.
Proof.
  intros [_ [[_ H]|(b0 & e & -> & [_ H])]] Hm; [left; lia|]. right. exists b0, e. split; [reflexivity|lia].
Qed.

(* ------------------------------------------------------------------------------------------- *)
(* 4. added = sealed batches ++ current batch                                                    *)

Definition cur_list (s : st) : list ev := match cur s with Some l => l | None => [] end.

Definition inv_added (s : st) : Prop :=
  rev (added s) = concat (rev (sealed_hist s)) ++ rev (cur_list s).

Lemma inv_added_step c s l s' : inv_added s -> step c s l = Some s' -> inv_added s'.
Proof.
  intros H1 H. unfold inv_added, cur_list in *.
  destruct l; step_inv H; try exact H1;
    try match goal with Hcur : cur s = _ |- _ => rewrite Hcur in H1 end; cbn [rev] in *.
  - (* Add *) rewrite H1, app_assoc. reflexivity.
  - (* Seal *) rewrite H1, concat_app, rev_append_rev, app_nil_r. cbn [concat]. rewrite !app_nil_r. reflexivity.
Qed.

Lemma added_is_sealed_plus_current c ls s :
  run c (init c) ls = Some s -> rev (added s) = concat (rev (sealed_hist s)) ++ rev (cur_list s).
Proof.
  intros Hr. assert (Hi : inv_added (init c)) by reflexivity.
  exact (run_invariant c inv_added (inv_added_step c) ls _ _ Hi Hr).
Qed.

(* ------------------------------------------------------------------------------------------- *)
(* structural invariant of the in-flight list                                                    *)

Definition committing (b : bat) : bool := match bstage b with Committing _ => true | _ => false end.

Fixpoint consec (lo : Z) (l : list Z) (hi : Z) : Prop :=
  match l with [] => lo = hi | x :: r => x = lo /\ consec (lo + 1) r hi end.

Lemma consec_app lo l hi : consec lo l hi -> consec lo (l ++ [hi]) (hi + 1).
Proof.
  revert lo. induction l as [|x r IH]; cbn [consec app]; intros lo H.
  - subst. split; reflexivity.
  - destruct H as [-> H]. split; [reflexivity|apply IH; exact H].
Qed.

Lemma consec_bounds lo l hi : consec lo l hi -> lo <= hi /\ forall x, In x l -> lo <= x < hi.
Proof.
  revert lo. induction l as [|x r IH]; cbn [consec]; intros lo H.
  - split; [lia|intros ? []].
  - destruct H as [-> H]. destruct (IH _ H) as [H1 H2]. split; [lia|].
    intros y [<-|Hy]; [lia|]. specialize (H2 _ Hy). lia.
Qed.

Fixpoint zrange (lo : Z) (n : nat) : list Z := match n with O => [] | S k => lo :: zrange (lo + 1) k end.

Lemma consec_zrange lo l hi : consec lo l hi -> l = zrange lo (Z.to_nat (hi - lo)).
Proof.
  revert lo. induction l as [|x r IH]; cbn [consec]; intros lo H.
  - subst. replace (hi - hi) with 0 by lia. reflexivity.
  - destruct H as [-> H]. pose proof (proj1 (consec_bounds _ _ _ H)) as Hb.
    replace (Z.to_nat (hi - lo)) with (S (Z.to_nat (hi - (lo + 1)))) by lia.
    cbn [zrange]. f_equal. apply IH. exact H.
Qed.

Lemma zrange_NoDup lo n : NoDup (zrange lo n).
Proof.
  assert (Hb : forall n lo x, In x (zrange lo n) -> lo <= x).
  { clear. induction n as [|n IH]; cbn [zrange]; intros lo x; [intros []|].
    intros [<-|H]; [lia|]. specialize (IH _ _ H). lia. }
  revert lo. induction n as [|n IH]; intros lo; cbn [zrange]; constructor; [|apply IH].
  intros H. specialize (Hb _ _ _ H). lia.
Qed.

Lemma In_find_bat fl b : In b fl -> exists b1, find_bat fl (bseq b) = Some b1.
Proof.
  induction fl as [|x r IH]; [intros []|]. cbn [find_bat]. intros [->|H].
  - rewrite Z.eqb_refl. eexists; reflexivity.
  - destruct (bseq x =? bseq b); [eexists; reflexivity|exact (IH H)].
Qed.

(* sequence numbers in flight are pairwise different: find_bat finds THE batch *)
Lemma find_bat_unique lo fl hi q b b' :
  consec lo (map bseq fl) hi -> find_bat fl q = Some b -> In b' fl -> bseq b' = q -> b' = b.
Proof.
  revert lo. induction fl as [|x r IH]; [intros ? ? ? []|]. cbn [map consec find_bat]. intros lo [Hx Hc] Hf Hin Hq.
  destruct (bseq x =? q) eqn:E; bnorm.
  - inversion Hf; subst b. destruct Hin as [->|Hin]; [reflexivity|].
    pose proof (proj2 (consec_bounds _ _ _ Hc) (bseq b') (in_map bseq _ _ Hin)). lia.
  - destruct Hin as [->|Hin]; [contradiction|]. exact (IH _ Hc Hf Hin Hq).
Qed.

Lemma find_bat_of_In lo fl hi b :
  consec lo (map bseq fl) hi -> In b fl -> find_bat fl (bseq b) = Some b.
Proof.
  intros Hc Hin. destruct (In_find_bat _ _ Hin) as [b1 Hb1]. rewrite Hb1. f_equal. symmetry.
  exact (find_bat_unique _ _ _ _ _ _ Hc Hb1 Hin eq_refl).
Qed.

Lemma map_bseq_upd fl q f b0 :
  find_bat fl q = Some b0 -> bseq (f b0) = q -> map bseq (upd_bat fl q f) = map bseq fl.
Proof.
  induction fl as [|x r IH]; [discriminate|]. cbn [find_bat upd_bat]. intros Hf Hq.
  destruct (bseq x =? q) eqn:E; bnorm; cbn [map].
  - inversion Hf; subst. congruence.
  - f_equal. exact (IH Hf Hq).
Qed.

Lemma length_upd_bat fl q f : length (upd_bat fl q f) = length fl.
Proof. induction fl as [|x r IH]; [reflexivity|]. cbn [upd_bat]. destruct (bseq x =? q); cbn [length]; congruence. Qed.

Lemma find_bat_upd_other fl q f b0 q' :
  q' <> q -> find_bat fl q = Some b0 -> bseq (f b0) = q -> find_bat (upd_bat fl q f) q' = find_bat fl q'.
Proof.
  intros Hne. induction fl as [|x r IH]; [discriminate|]. cbn [find_bat upd_bat]. intros Hf Hq.
  destruct (bseq x =? q) eqn:E; bnorm; cbn [find_bat].
  - inversion Hf; subst x. rewrite Hq. destruct (q =? q') eqn:E1; bnorm; [congruence|].
    destruct (bseq b0 =? q') eqn:E2; bnorm; [congruence|reflexivity].
  - destruct (bseq x =? q'); [reflexivity|exact (IH Hf Hq)].
Qed.

Lemma find_bat_upd_same fl q f b0 :
  find_bat fl q = Some b0 -> bseq (f b0) = q -> find_bat (upd_bat fl q f) q = Some (f b0).
Proof.
  induction fl as [|x r IH]; [discriminate|]. cbn [find_bat upd_bat]. intros Hf Hq.
  destruct (bseq x =? q) eqn:E; bnorm; cbn [find_bat].
  - inversion Hf; subst x. rewrite Hq, Z.eqb_refl. reflexivity.
  - rewrite (proj2 (Z.eqb_neq _ _) E). exact (IH Hf Hq).
Qed.

Lemma find_bat_app fl q b x : find_bat fl q = Some b -> find_bat (fl ++ [x]) q = Some b.
Proof.
  induction fl as [|y r IH]; [discriminate|]. cbn [find_bat app]. destruct (bseq y =? q); [auto|exact IH].
Qed.

Lemma existsb_committing_upd fl q f b0 :
  find_bat fl q = Some b0 -> committing (f b0) = committing b0 ->
  existsb committing (upd_bat fl q f) = existsb committing fl.
Proof.
  induction fl as [|x r IH]; [discriminate|]. cbn [find_bat upd_bat]. intros Hf Hc.
  destruct (bseq x =? q) eqn:E; cbn [existsb].
  - inversion Hf; subst x. rewrite Hc. reflexivity.
  - f_equal. exact (IH Hf Hc).
Qed.

Lemma existsb_committing_upd_true fl q f b0 :
  find_bat fl q = Some b0 -> committing (f b0) = true -> existsb committing (upd_bat fl q f) = true.
Proof.
  induction fl as [|x r IH]; [discriminate|]. cbn [find_bat upd_bat]. intros Hf Hc.
  destruct (bseq x =? q) eqn:E; cbn [existsb].
  - inversion Hf; subst x. rewrite Hc. reflexivity.
  - rewrite (IH Hf Hc). apply orb_true_r.
Qed.

Lemma committing_bat_None fl : committing_bat fl = None -> existsb committing fl = false.
Proof.
  unfold committing_bat. induction fl as [|x r IH]; [reflexivity|]. cbn [find existsb].
  change (match bstage x with Committing _ => true | _ => false end) with (committing x).
  destruct (committing x); [discriminate|exact IH].
Qed.

Lemma committing_bat_Some fl b : committing_bat fl = Some b -> In b fl /\ committing b = true.
Proof. unfold committing_bat. intros H. apply find_some in H. exact H. Qed.

Lemma existsb_committing_true fl b : In b fl -> committing b = true -> existsb committing fl = true.
Proof. intros Hin Hc. apply existsb_exists. exists b. split; assumption. Qed.

Definition lo_seq (s : st) : Z := commitSeq s - (if existsb committing (flight s) then 1 else 0).
Definition cur_count (s : st) : Z := match cur s with Some _ => 1 | None => 0 end.

Record WF (c : cfg) (s : st) : Prop := {
  wf_lo : 0 <= lo_seq s;
  wf_len : Z.of_nat (length (sealed_hist s)) = outSeq s;
  wf_consec : consec (lo_seq s) (map bseq (flight s)) (outSeq s);
  wf_cmt : forall b, In b (flight s) -> committing b = true -> bseq b = lo_seq s;
  wf_evs : forall b, In b (flight s) -> nth_error (rev (sealed_hist s)) (Z.to_nat (bseq b)) = Some (bevs b);
  wf_queue : forall q, In q (queue s) -> exists b, find_bat (flight s) q = Some b /\ bstage b = Queued;
  wf_count : free s + Z.of_nat (length (flight s)) + cur_count s = workers c
}.

Lemma wf_init c : WF c (init c).
Proof. constructor; cbn; try lia; try reflexivity; intros; contradiction. Qed.

(* a step that leaves the in-flight list, the channel and the counters alone *)
Lemma wf_same c s s' :
  WF c s -> flight s' = flight s -> queue s' = queue s -> sealed_hist s' = sealed_hist s ->
  outSeq s' = outSeq s -> commitSeq s' = commitSeq s -> free s' + cur_count s' = free s + cur_count s ->
  WF c s'.
Proof.
  intros [] Hf Hq Hs Ho Hc Hn. unfold lo_seq in *.
  constructor; unfold lo_seq; rewrite ?Hf, ?Hq, ?Hs, ?Ho, ?Hc; try assumption. lia.
Qed.

(* a step that rewrites one in-flight batch in place *)
Lemma wf_upd c s s' q f b0 :
  WF c s -> find_bat (flight s) q = Some b0 ->
  flight s' = upd_bat (flight s) q f -> sealed_hist s' = sealed_hist s -> outSeq s' = outSeq s ->
  free s' = free s -> cur s' = cur s ->
  bseq (f b0) = q -> bevs (f b0) = bevs b0 ->
  lo_seq s' = lo_seq s -> (committing (f b0) = true -> q = lo_seq s) ->
  (forall q', In q' (queue s') -> (q' <> q /\ In q' (queue s)) \/ (q' = q /\ bstage (f b0) = Queued)) ->
  WF c s'.
Proof.
  intros [] Hfind Hf Hs Ho Hfr Hcu Hseq Hevs Hlo Hcm Hq.
  constructor; rewrite ?Hlo, ?Hf, ?Hs, ?Ho; try assumption.
  - rewrite (map_bseq_upd _ _ _ _ Hfind Hseq). assumption.
  - intros b Hb Hc. in_upd Hb; [auto|]. rewrite Hfind in Hf0. inversion Hf0; subst b1. rewrite Hseq. auto.
  - intros b Hb. in_upd Hb; [auto|]. rewrite Hfind in Hf0. inversion Hf0; subst b1. rewrite Hseq, Hevs.
    destruct (find_bat_In _ _ _ Hfind) as [Hin <-]. auto.
  - intros q' Hq'. destruct (Hq _ Hq') as [[Hne Hin]|[-> Hst]].
    + rewrite (find_bat_upd_other _ _ _ _ _ Hne Hfind Hseq). auto.
    + exists (f b0). split; [exact (find_bat_upd_same _ _ _ _ Hfind Hseq)|exact Hst].
  - rewrite length_upd_bat. unfold cur_count in *. rewrite Hfr, Hcu. assumption.
Qed.

Lemma wf_upd_plain c s s' q f b0 :
  WF c s -> find_bat (flight s) q = Some b0 -> bstage b0 <> Queued ->
  flight s' = upd_bat (flight s) q f -> queue s' = queue s -> sealed_hist s' = sealed_hist s ->
  outSeq s' = outSeq s -> commitSeq s' = commitSeq s -> free s' = free s -> cur s' = cur s ->
  bseq (f b0) = q -> bevs (f b0) = bevs b0 -> committing (f b0) = committing b0 ->
  WF c s'.
Proof.
  intros Hwf Hfind Hst Hf Hq Hs Ho Hc Hfr Hcu Hseq Hevs Hcm.
  apply (wf_upd c s s' q f b0 Hwf Hfind Hf Hs Ho Hfr Hcu Hseq Hevs).
  - unfold lo_seq. rewrite Hf, Hc, (existsb_committing_upd _ _ _ _ Hfind Hcm). reflexivity.
  - rewrite Hcm. intros Hc1. destruct (find_bat_In _ _ _ Hfind) as [Hin <-]. exact (wf_cmt _ _ Hwf _ Hin Hc1).
  - rewrite Hq. intros q' Hq'. left. split; [|exact Hq'].
    intros ->. destruct (wf_queue _ _ Hwf _ Hq') as (b & Hb & Hbs). congruence.
Qed.

Ltac wf_plain Hwf :=
  match goal with
  | Hf : find_bat (flight ?s) ?q = Some ?b0, Hst : bstage ?b0 = _ |- WF _ ?s' =>
      match s' with context [upd_bat (flight s) q ?f] =>
        let Hseq := fresh in
        destruct (find_bat_In _ _ _ Hf) as [_ Hseq];
        apply (wf_upd_plain _ s s' q f b0 Hwf Hf);
        [ rewrite Hst; discriminate | reflexivity .. | exact Hseq | reflexivity
        | unfold committing; cbn [bstage set_stage]; rewrite Hst; reflexivity ]
      end
  end.

Ltac cur_count_tac :=
  unfold cur_count; proj_simpl; repeat match goal with H : cur _ = _ |- _ => rewrite H end; lia.

Lemma existsb_app_committing fl x : committing x = false -> existsb committing (fl ++ [x]) = existsb committing fl.
Proof. intros H. rewrite existsb_app. cbn [existsb]. rewrite H. rewrite !orb_false_r. reflexivity. Qed.

Lemma wf_step c s l s' : WF c s -> step c s l = Some s' -> WF c s'.
Proof.
  intros Hwf H.
  destruct l; step_inv H;
    try solve [ exact Hwf
              | apply (wf_same c s); [exact Hwf|reflexivity..|cur_count_tac]
              | wf_plain Hwf ].
  - (* Seal *)
    destruct Hwf as [L1 L2 L3 L4 L5 L6 L7]. unfold lo_seq in *.
    constructor; unfold lo_seq; proj_simpl; rewrite ?existsb_app_committing by reflexivity.
    + exact L1.
    + cbn [length]. lia.
    + rewrite map_app. cbn [map bseq]. subst seq. apply consec_app. exact L3.
    + intros b Hb Hc. apply in_app_or in Hb. destruct Hb as [Hb|[<-|[]]]; [auto|discriminate Hc].
    + intros b Hb. cbn [rev]. apply in_app_or in Hb. destruct Hb as [Hb|[<-|[]]].
      * rewrite nth_error_app1; [auto|]. apply nth_error_Some. rewrite (L5 _ Hb). discriminate.
      * cbn [bseq bevs]. rewrite nth_error_app2 by (rewrite rev_length; lia). rewrite rev_length.
        replace (Z.to_nat seq - length (sealed_hist s))%nat with O by lia. reflexivity.
    + intros q Hq. destruct (L6 _ Hq) as (b & Hb & Hs). exists b. split; [apply find_bat_app; exact Hb|exact Hs].
    + rewrite app_length. cbn [length]. unfold cur_count in *. rewrite Heqo in L7. cbn [cur]. lia.
  - (* Push *)
    match goal with Hf : find_bat _ _ = Some ?b0, Hst : bstage ?b0 = Pending |- _ =>
      destruct (find_bat_In _ _ _ Hf) as [Hin Hseq];
      apply (wf_upd c s _ seq (set_stage Queued) b0 Hwf Hf); try reflexivity; try exact Hseq;
      [ unfold lo_seq; proj_simpl; rewrite (existsb_committing_upd _ _ _ _ Hf); [reflexivity|];
        unfold committing; cbn [bstage set_stage]; rewrite Hst; reflexivity
      | discriminate
      | proj_simpl; intros q' Hq'; apply in_app_or in Hq'; destruct Hq' as [Hq'|[<-|[]]]; [left|right; split; reflexivity];
        split; [|exact Hq']; intros ->; destruct (wf_queue _ _ Hwf _ Hq') as (b1 & Hb1 & Hbs); congruence ]
    end.
  - (* Take *)
    match goal with Hx : existsb (Z.eqb seq) (queue s) = true |- _ =>
      apply existsb_exists in Hx; destruct Hx as (q0 & Hq0 & Heq0); apply Z.eqb_eq in Heq0; subst q0;
      destruct (wf_queue _ _ Hwf _ Hq0) as (b0 & Hf & Hst) end.
    destruct (find_bat_In _ _ _ Hf) as [Hin Hseq].
    apply (wf_upd c s _ seq (set_stage Taken) b0 Hwf Hf); try reflexivity; try exact Hseq.
    + unfold lo_seq; proj_simpl. rewrite (existsb_committing_upd _ _ _ _ Hf); [reflexivity|].
      unfold committing; cbn [bstage set_stage]; rewrite Hst; reflexivity.
    + discriminate.
    + proj_simpl. intros q' Hq'. apply filter_In in Hq'. destruct Hq' as [Hq' Hne]. left. split; [lia|exact Hq'].
  - (* CommitBegin *)
    match goal with Hf : find_bat _ _ = Some ?b0, Hn : committing_bat _ = None |- _ =>
      destruct (find_bat_In _ _ _ Hf) as [Hin Hseq]; pose proof (committing_bat_None _ Hn) as Hex;
      apply (wf_upd c s _ seq (set_stage (Committing 0)) b0 Hwf Hf); try reflexivity; try exact Hseq;
      [ unfold lo_seq; proj_simpl; rewrite (existsb_committing_upd_true _ _ _ _ Hf) by reflexivity; rewrite Hex; lia
      | intros _; unfold lo_seq; rewrite Hex; lia
      | proj_simpl; intros q' Hq'; left; split; [|exact Hq']; intros ->;
        destruct (wf_queue _ _ Hwf _ Hq') as (b1 & Hb1 & Hbs); rewrite Hf in Hb1; inversion Hb1; subst b1;
        rewrite Hbs in *; discriminate ]
    end.
  - (* CommitEv *)
    destruct (committing_bat_Some _ _ Heqo) as [Hin Hcm].
    pose proof (find_bat_of_In _ _ _ _ (wf_consec _ _ Hwf) Hin) as Hf.
    apply (wf_upd_plain c s _ (bseq b) (set_stage (Committing (S done))) b Hwf Hf); try reflexivity;
      match goal with Hst : bstage b = Committing _ |- _ =>
        first [ rewrite Hst; discriminate | unfold committing; cbn [bstage set_stage]; rewrite Hst; reflexivity ] end.
  - (* CommitEnd *)
    match goal with Hf : find_bat _ _ = Some ?b0, Hst : bstage ?b0 = Committing _ |- _ =>
      destruct (find_bat_In _ _ _ Hf) as [Hin Hseq];
      assert (Hcm : committing b0 = true) by (unfold committing; rewrite Hst; reflexivity);
      pose proof (wf_cmt _ _ Hwf _ Hin Hcm) as Hlo;
      pose proof (existsb_committing_true _ _ Hin Hcm) as Hex
    end.
    assert (Hlo2 : lo_seq s = commitSeq s - 1) by (unfold lo_seq; rewrite Hex; reflexivity).
    destruct Hwf as [L1 L2 L3 L4 L5 L6 L7].
    destruct (flight s) as [|x r] eqn:Efl; [destruct Hin|].
    cbn [map consec] in L3. destruct L3 as [Hx L3].
    assert (Hxb : x = b).
    { cbn [find_bat] in Heqo. rewrite Hx, <- Hlo, Hseq, Z.eqb_refl in Heqo. congruence. }
    subst x.
    assert (Hr : forall b', In b' r -> committing b' = false).
    { intros b' Hb'. destruct (committing b') eqn:E; [|reflexivity].
      pose proof (L4 _ (or_intror Hb') E) as E1.
      pose proof (proj2 (consec_bounds _ _ _ L3) _ (in_map bseq _ _ Hb')). lia. }
    assert (Hexr : existsb committing r = false).
    { destruct (existsb committing r) eqn:E; [|reflexivity]. apply existsb_exists in E.
      destruct E as (b' & Hb' & E). rewrite (Hr _ Hb') in E. discriminate. }
    assert (Hdel : del_bat (b :: r) seq = r) by (cbn [del_bat]; rewrite Hseq, Z.eqb_refl; reflexivity).
    constructor; unfold lo_seq; proj_simpl; rewrite ?Hdel, ?Hexr.
    + lia.
    + exact L2.
    + replace (commitSeq s - 0) with (lo_seq s + 1) by lia. exact L3.
    + intros b' Hb' E. rewrite (Hr _ Hb') in E. discriminate.
    + intros b' Hb'. apply L5. right. exact Hb'.
    + intros q Hq. destruct (L6 _ Hq) as (b1 & Hb1 & Hs1). exists b1. split; [|exact Hs1].
      cbn [find_bat] in Hb1. destruct (bseq b =? q); [|exact Hb1]. inversion Hb1; subst b1. congruence.
    + cbn [length] in L7. unfold cur_count in *. proj_simpl. lia.
Qed.

Lemma wf_reach c ls s : run c (init c) ls = Some s -> WF c s.
Proof. intros Hr. exact (run_invariant c (WF c) (wf_step c) ls _ _ (wf_init c) Hr). Qed.

(* invariants proved on top of the structural one *)
Lemma run_invariant_wf (c : cfg) (P : st -> Prop) :
  (forall s l s', WF c s -> P s -> step c s l = Some s' -> P s') -> P (init c) ->
  forall ls s, run c (init c) ls = Some s -> P s.
Proof.
  intros Hstep Hi ls s Hr.
  refine (proj2 (run_invariant c (fun s => WF c s /\ P s) _ ls _ _ (conj (wf_init c) Hi) Hr)).
  intros s0 l s1 [Hw Hp] Hs. split; [exact (wf_step _ _ _ _ Hw Hs)|exact (Hstep _ _ _ Hw Hp Hs)].
Qed.

(* ------------------------------------------------------------------------------------------- *)
(* 6. the batches in flight are the interval [lo_seq, outSeq)                                    *)

Lemma In_zrange n : forall lo x, lo <= x < lo + Z.of_nat n -> In x (zrange lo n).
Proof.
  induction n as [|n IH]; intros lo x Hx; [lia|]. cbn [zrange].
  destruct (Z.eq_dec x lo) as [->|Hne]; [left; reflexivity|right; apply IH; lia].
Qed.

Lemma lo_seq_cases s :
  (committing_bat (flight s) = None /\ lo_seq s = commitSeq s) \/
  (exists b, committing_bat (flight s) = Some b /\ lo_seq s = commitSeq s - 1).
Proof.
  unfold lo_seq. destruct (committing_bat (flight s)) as [b|] eqn:E.
  - right. exists b. split; [reflexivity|]. destruct (committing_bat_Some _ _ E) as [Hin Hc].
    rewrite (existsb_committing_true _ _ Hin Hc). reflexivity.
  - left. rewrite (committing_bat_None _ E). split; [reflexivity|lia].
Qed.

Lemma in_flight_is_interval c ls s :
  run c (init c) ls = Some s ->
  0 <= lo_seq s <= outSeq s /\
  map bseq (flight s) = zrange (lo_seq s) (Z.to_nat (outSeq s - lo_seq s)) /\
  NoDup (map bseq (flight s)) /\
  free s + Z.of_nat (length (flight s)) + cur_count s = workers c.
Proof.
  intros Hr. pose proof (wf_reach _ _ _ Hr) as Hwf. destruct Hwf as [L1 L2 L3 L4 L5 L6 L7].
  pose proof (consec_zrange _ _ _ L3) as Hz.
  split; [split; [exact L1|exact (proj1 (consec_bounds _ _ _ L3))]|].
  split; [exact Hz|]. split; [rewrite Hz; apply zrange_NoDup|exact L7].
Qed.

Lemma no_commit_deadlock c ls s :
  run c (init c) ls = Some s -> commitSeq s < outSeq s ->
  exists b, find_bat (flight s) (commitSeq s) = Some b /\ In b (flight s) /\ committing b = false.
Proof.
  intros Hr Hlt. pose proof (wf_reach _ _ _ Hr) as Hwf.
  pose proof (consec_zrange _ _ _ (wf_consec _ _ Hwf)) as Hz.
  pose proof (consec_bounds _ _ _ (wf_consec _ _ Hwf)) as [Hb _].
  assert (Hlo : lo_seq s = commitSeq s \/ lo_seq s = commitSeq s - 1).
  { destruct (lo_seq_cases s) as [[_ H]|(b & _ & H)]; [left|right]; exact H. }
  assert (Hin : In (commitSeq s) (map bseq (flight s))).
  { rewrite Hz. apply In_zrange. lia. }
  apply in_map_iff in Hin. destruct Hin as (b & Hseq & Hin). exists b.
  pose proof (find_bat_of_In _ _ _ _ (wf_consec _ _ Hwf) Hin) as Hf. rewrite Hseq in Hf.
  split; [exact Hf|split; [exact Hin|]].
  destruct (committing b) eqn:E; [|reflexivity]. pose proof (wf_cmt _ _ Hwf _ Hin E) as E1.
  unfold lo_seq in *. rewrite (existsb_committing_true _ _ Hin E) in *. lia.
Qed.

(* ------------------------------------------------------------------------------------------- *)
(* 3. a batch enters its commit section only after its own OutFn returned                        *)

Definition inv_sent (s : st) : Prop :=
  (forall b, In b (flight s) -> bstage b = Sent \/ (committing b = true /\ has_iter (bevs b) = true) ->
             In (bseq b) (sent_hist s)) /\
  (forall q, In q (commit_batches s) ->
             exists evs, nth_error (rev (sealed_hist s)) (Z.to_nat q) = Some evs /\
                         (has_iter evs = true -> In q (sent_hist s))).

Lemma nth_error_snoc_Some {A} (l : list A) x n y : nth_error l n = Some y -> nth_error (l ++ [x]) n = Some y.
Proof. intros H. rewrite nth_error_app1; [exact H|]. apply nth_error_Some. rewrite H. discriminate. Qed.

Ltac stage_contra Hp :=
  exfalso; unfold committing in Hp; cbn [bstage set_stage] in Hp; destruct Hp as [Hp|[Hp _]]; discriminate Hp.

Lemma inv_sent_step c s l s' : WF c s -> inv_sent s -> step c s l = Some s' -> inv_sent s'.
Proof.
  intros Hwf [I1 I2] H. unfold inv_sent.
  destruct l; step_inv H; try (split; assumption);
    try solve [split; [intros x Hx Hp; in_upd Hx; [exact (I1 _ Hx Hp)|stage_contra Hp] | exact I2]].
  - (* Seal *) split.
    + intros x Hx Hp. apply in_app_or in Hx. destruct Hx as [Hx|[<-|[]]]; [exact (I1 _ Hx Hp)|stage_contra Hp].
    + intros q Hq. destruct (I2 _ Hq) as (evs & He & Hs). exists evs. split; [|exact Hs].
      cbn [rev]. apply nth_error_snoc_Some. exact He.
  - (* OutEnd *) split.
    + intros x Hx Hp. in_upd Hx; [right; exact (I1 _ Hx Hp)|].
      left. rewrite bseq_set_stage. symmetry; exact (proj2 (find_bat_In _ _ _ Hf)).
    + intros q Hq. destruct (I2 _ Hq) as (evs & He & Hs). exists evs. split; [exact He|]. intros Hi. right. auto.
  - (* CommitBegin *)
    destruct (find_bat_In _ _ _ Heqo) as [Hin Hseq]. split.
    + intros x Hx Hp. in_upd Hx; [exact (I1 _ Hx Hp)|]. rewrite Heqo in Hf. inversion Hf; subst b0.
      rewrite bseq_set_stage. destruct (bstage b) eqn:Est; try discriminate H.
      * (* Taken without iterable events *) exfalso. destruct Hp as [Hp|[_ Hp]]; [discriminate Hp|].
        rewrite bevs_set_stage in Hp. rewrite Hp in H. discriminate H.
      * apply I1; [exact Hin|left; exact Est].
    + intros q [<-|Hq]; [|exact (I2 _ Hq)]. exists (bevs b). rewrite <- Hseq. split; [exact (wf_evs _ _ Hwf _ Hin)|].
      intros Hi. destruct (bstage b) eqn:Est; try discriminate H.
      * rewrite Hi in H. discriminate H.
      * apply I1; [exact Hin|left; exact Est].
  - (* CommitEv *)
    destruct (committing_bat_Some _ _ Heqo) as [Hin Hcm]. split; [|exact I2].
    intros x Hx Hp. in_upd Hx; [exact (I1 _ Hx Hp)|].
    pose proof (find_bat_of_In _ _ _ _ (wf_consec _ _ Hwf) Hin) as Hf1. rewrite Hf1 in Hf. inversion Hf; subst b0.
    rewrite bseq_set_stage. apply I1; [exact Hin|]. right. split; [exact Hcm|].
    destruct Hp as [Hp|[_ Hp]]; [discriminate Hp|exact Hp].
  - (* CommitEnd *) split; [|exact I2]. intros x Hx Hp. apply In_del_bat in Hx. exact (I1 _ Hx Hp).
Qed.

Lemma inv_sent_init c : inv_sent (init c).
Proof. split; cbn; intros; contradiction. Qed.

Lemma commit_after_own_send c ls s :
  run c (init c) ls = Some s ->
  forall q evs, In q (commit_batches s) -> nth_error (rev (sealed_hist s)) (Z.to_nat q) = Some evs ->
                has_iter evs = true -> In q (sent_hist s).
Proof.
  intros Hr q evs Hq He Hi.
  destruct (run_invariant_wf c inv_sent (inv_sent_step c) (inv_sent_init c) ls s Hr) as [_ I2].
  destruct (I2 _ Hq) as (evs' & He' & Hs). rewrite He in He'. inversion He'; subst evs'. exact (Hs Hi).
Qed.

(* every batch that entered its commit section is a sealed one *)
Lemma commit_batches_sealed c ls s :
  run c (init c) ls = Some s ->
  forall q, In q (commit_batches s) -> exists evs, nth_error (rev (sealed_hist s)) (Z.to_nat q) = Some evs.
Proof.
  intros Hr q Hq.
  destruct (run_invariant_wf c inv_sent (inv_sent_step c) (inv_sent_init c) ls s Hr) as [_ I2].
  destruct (I2 _ Hq) as (evs' & He' & _). exists evs'. exact He'.
Qed.

(* ------------------------------------------------------------------------------------------- *)
(* C09 A. give-up only after retry+2 failed calls                                                *)

Definition fseq (f : Z * Z * bool * list ev) : Z := fst (fst (fst f)).

Definition res_upto (s : st) (q t : Z) : Prop := forall k, 0 <= k < t -> In (q, k, false) (result_hist s).

Definition retry_stage_ok (s : st) (b : bat) : Prop :=
  match bstage b with
  | Sending t PIdle => t = 0
  | Sending t PCalling => 0 <= t /\ res_upto s (bseq b) t
  | Sending t PFailed => 0 <= t /\ res_upto s (bseq b) (t + 1)
  | _ => True
  end.

Definition inv_retry (c : cfg) (s : st) : Prop :=
  (forall b, In b (flight s) -> retry_stage_ok s b) /\
  (forall q t evs, In (q, t, false, evs) (failed_hist s) -> 0 <= retry c /\ retry c < t /\ res_upto s q (t + 1)).

Lemma inv_retry_step c s l s' : inv_retry c s -> step c s l = Some s' -> inv_retry c s'.
Proof.
  intros [J1 J2] H. unfold inv_retry.
  destruct l; step_inv H; try (split; assumption);
    try solve [split; [intros x Hx; in_upd Hx; [exact (J1 _ Hx)|exact I] | exact J2]].
  - (* Seal *) split; [|exact J2]. intros x Hx. apply in_app_or in Hx. destruct Hx as [Hx|[<-|[]]]; [exact (J1 _ Hx)|exact I].
  - (* OutBegin *) split; [|exact J2]. intros x Hx. in_upd Hx; [exact (J1 _ Hx)|reflexivity].
  - (* CommitEnd *) split; [|exact J2]. intros x Hx. apply In_del_bat in Hx. exact (J1 _ Hx).
  - (* RetryCall from PIdle *) split; [|exact J2]. intros x Hx. in_upd Hx; [exact (J1 _ Hx)|].
    destruct (find_bat_In _ _ _ Heqo) as [Hin _]. pose proof (J1 _ Hin) as Hb. unfold retry_stage_ok in Hb. rewrite Heqs0 in Hb.
    unfold retry_stage_ok. cbn [bstage set_stage]. subst. split; [lia|intros k Hk; lia].
  - (* RetryCall from PFailed *) split; [|exact J2]. intros x Hx. in_upd Hx; [exact (J1 _ Hx)|].
    destruct (find_bat_In _ _ _ Heqo) as [Hin _]. pose proof (J1 _ Hin) as Hb. unfold retry_stage_ok in Hb. rewrite Heqs0 in Hb.
    rewrite Hf in Heqo. inversion Heqo; subst b0.
    unfold retry_stage_ok. cbn [bstage set_stage bseq]. subst. destruct Hb as [Hb1 Hb2]. split; [lia|exact Hb2].
  - (* RetryResult *)
    assert (Hmono : forall q t, res_upto s q t ->
              forall k, 0 <= k < t -> In (q, k, false) ((seq, tries0, ok) :: result_hist s)).
    { intros q t Hr k Hk. right. exact (Hr _ Hk). }
    split.
    + intros x Hx. in_upd Hx.
      * pose proof (J1 _ Hx) as Hb. unfold retry_stage_ok, res_upto in *. cbn [result_hist].
        destruct (bstage x) as [| | |t ph| |]; try exact I. destruct ph; try exact Hb.
        -- destruct Hb as [Hb1 Hb2]. split; [exact Hb1|exact (Hmono _ _ Hb2)].
        -- destruct Hb as [Hb1 Hb2]. split; [exact Hb1|exact (Hmono _ _ Hb2)].
      * rewrite Hf in Heqo. inversion Heqo; subst b0.
        destruct (find_bat_In _ _ _ Hf) as [Hin Hseq]. pose proof (J1 _ Hin) as Hb. unfold retry_stage_ok in Hb. rewrite Heqs0 in Hb.
        unfold retry_stage_ok, res_upto. cbn [bstage set_stage bseq result_hist]. destruct ok; [exact I|].
        destruct Hb as [Hb1 Hb2]. split; [exact Hb1|]. intros k Hk.
        destruct (Z.eq_dec k tries0) as [->|Hne]; [left; rewrite Hseq; reflexivity|right; apply Hb2; lia].
    + intros q t evs Hq. destruct (J2 _ _ _ Hq) as (R1 & R2 & R3). split; [exact R1|split; [exact R2|exact (Hmono _ _ R3)]].
  - (* RetryGiveUp *)
    destruct (find_bat_In _ _ _ Heqo) as [Hin Hseq]. pose proof (J1 _ Hin) as Hb. unfold retry_stage_ok in Hb. rewrite Heqs0 in Hb.
    split.
    + intros x Hx. in_upd Hx; [exact (J1 _ Hx)|exact I].
    + intros q t evs [Hq|Hq]; [|exact (J2 _ _ _ Hq)]. inversion Hq; subst.
      match goal with Hg : false || _ = true |- _ => rewrite orb_false_l in Hg end. bnorm.
      split; [assumption|split; [assumption|exact (proj2 Hb)]].
Qed.

Lemma inv_retry_init c : inv_retry c (init c).
Proof. split; cbn; intros; contradiction. Qed.

Lemma retries_at_least c ls s :
  run c (init c) ls = Some s ->
  forall q t evs, In (q, t, false, evs) (failed_hist s) ->
    0 <= retry c /\ retry c < t /\ forall k, 0 <= k <= t -> In (q, k, false) (result_hist s).
Proof.
  intros Hr q t evs Hq.
  destruct (run_invariant c (inv_retry c) (inv_retry_step c) ls _ _ (inv_retry_init c) Hr) as [_ J2].
  destruct (J2 _ _ _ Hq) as (R1 & R2 & R3). split; [exact R1|split; [exact R2|]]. intros k Hk. apply R3. lia.
Qed.

(* ------------------------------------------------------------------------------------------- *)
(* C09 C. a batch is given up at most once                                                       *)

Lemma In_upd_bat_strong lo fl hi q f b0 x :
  consec lo (map bseq fl) hi -> find_bat fl q = Some b0 -> In x (upd_bat fl q f) ->
  (In x fl /\ bseq x <> q) \/ x = f b0.
Proof.
  revert lo. induction fl as [|y r IH]; [discriminate|]. cbn [map consec find_bat upd_bat]. intros lo [Hy Hc] Hf.
  destruct (bseq y =? q) eqn:E; bnorm; cbn [In].
  - inversion Hf; subst y. intros [<-|Hx]; [right; reflexivity|left].
    split; [right; exact Hx|]. pose proof (proj2 (consec_bounds _ _ _ Hc) _ (in_map bseq _ _ Hx)). lia.
  - intros [<-|Hx]; [left; split; [left; reflexivity|exact E]|].
    destruct (IH _ Hc Hf Hx) as [[H1 H2]|H1]; [left; split; [right; exact H1|exact H2]|right; exact H1].
Qed.

Definition done_stage (b : bat) : Prop :=
  match bstage b with Sending _ PDone | Sent | Committing _ => True | _ => False end.

Definition inv_once (s : st) : Prop :=
  NoDup (map fseq (failed_hist s)) /\
  (forall q, In q (map fseq (failed_hist s)) -> q < outSeq s) /\
  (forall b, In b (flight s) -> In (bseq b) (map fseq (failed_hist s)) -> done_stage b).

Lemma inv_once_step c s l s' : WF c s -> inv_once s -> step c s l = Some s' -> inv_once s'.
Proof.
  intros Hwf (K1 & K2 & K3) H. unfold inv_once.
  destruct l; step_inv H; try (split; [assumption|split; assumption]);
    try solve [ split; [exact K1|split; [exact K2|]]; intros x Hx Hq; in_upd Hx; [exact (K3 _ Hx Hq)|];
                match goal with Hf1 : find_bat _ _ = Some ?b1, Hf2 : find_bat _ _ = Some ?b2 |- _ =>
                  rewrite Hf1 in Hf2; inversion Hf2; subst end;
                rewrite ?bseq_set_stage in Hq;
                match goal with Hf1 : find_bat _ _ = Some ?b1, Hst : bstage ?b1 = _ |- _ =>
                  pose proof (K3 _ (proj1 (find_bat_In _ _ _ Hf1)) Hq) as Hd; unfold done_stage in *;
                  cbn [bstage set_stage]; rewrite Hst in Hd; first [exact I|contradiction] end ].
  - (* Seal *) split; [exact K1|split].
    + intros q Hq. specialize (K2 _ Hq). lia.
    + intros x Hx Hq. apply in_app_or in Hx. destruct Hx as [Hx|[<-|[]]]; [exact (K3 _ Hx Hq)|].
      cbn [bseq] in Hq. specialize (K2 _ Hq). lia.
  - (* Take *) split; [exact K1|split; [exact K2|]]. intros x Hx Hq. in_upd Hx; [exact (K3 _ Hx Hq)|].
    exfalso. rewrite bseq_set_stage in Hq.
    match goal with Hx : existsb (Z.eqb seq) (queue s) = true |- _ =>
      apply existsb_exists in Hx; destruct Hx as (q0 & Hq0 & Heq0) end. apply Z.eqb_eq in Heq0. subst q0.
    destruct (wf_queue _ _ Hwf _ Hq0) as (b1 & Hf1 & Hst). rewrite Hf in Hf1. inversion Hf1; subst b1.
    pose proof (K3 _ (proj1 (find_bat_In _ _ _ Hf)) Hq) as Hd. unfold done_stage in Hd. rewrite Hst in Hd. exact Hd.
  - (* CommitBegin *) split; [exact K1|split; [exact K2|]]. intros x Hx Hq. in_upd Hx; [exact (K3 _ Hx Hq)|exact I].
  - (* CommitEv *) split; [exact K1|split; [exact K2|]]. intros x Hx Hq. in_upd Hx; [exact (K3 _ Hx Hq)|exact I].
  - (* CommitEnd *) split; [exact K1|split; [exact K2|]]. intros x Hx Hq. apply In_del_bat in Hx. exact (K3 _ Hx Hq).
  - (* RetryGiveUp *)
    destruct (find_bat_In _ _ _ Heqo) as [Hin Hseq]. cbn [map fseq fst].
    assert (Hnew : ~ In seq (map fseq (failed_hist s))).
    { intros Hq. rewrite <- Hseq in Hq. pose proof (K3 _ Hin Hq) as Hd. unfold done_stage in Hd. rewrite Heqs0 in Hd. exact Hd. }
    split; [constructor; assumption|split].
    + intros q [<-|Hq]; [|exact (K2 _ Hq)].
      pose proof (proj2 (consec_bounds _ _ _ (wf_consec _ _ Hwf)) _ (in_map bseq _ _ Hin)). lia.
    + intros x Hx Hq. destruct (In_upd_bat_strong _ _ _ _ _ _ _ (wf_consec _ _ Hwf) Heqo Hx) as [[Hx1 Hne]| ->]; [|exact I].
      destruct Hq as [Hq|Hq]; [congruence|exact (K3 _ Hx1 Hq)].
Qed.

Lemma inv_once_init c : inv_once (init c).
Proof. split; [constructor|split]; cbn; intros; contradiction. Qed.

Lemma giveup_once c ls s : run c (init c) ls = Some s -> NoDup (map fseq (failed_hist s)).
Proof. intros Hr. exact (proj1 (run_invariant_wf c inv_once (inv_once_step c) (inv_once_init c) ls s Hr)). Qed.

(* ------------------------------------------------------------------------------------------- *)
(* C09 B. no commit section while a retry is pending                                             *)

Definition settled (s : st) (q : Z) : Prop :=
  (exists t, In (q, t, true) (result_hist s)) \/ In q (map fseq (failed_hist s)).

Definition done_prem (b : bat) : Prop :=
  match bstage b with
  | Sending _ PDone | Sent => True
  | Committing _ => has_iter (bevs b) = true
  | _ => False
  end.

Definition inv_settled (s : st) : Prop :=
  (forall b, In b (flight s) -> done_prem b -> settled s (bseq b)) /\
  (forall q, In q (commit_batches s) ->
             exists evs, nth_error (rev (sealed_hist s)) (Z.to_nat q) = Some evs /\
                         (has_iter evs = true -> settled s q)).

Lemma inv_settled_step c s l s' :
  retriable c = true -> WF c s -> inv_settled s -> step c s l = Some s' -> inv_settled s'.
Proof.
  intros Hret Hwf [I1 I2] H. unfold inv_settled, settled in *.
  destruct l; step_inv H; try (split; assumption);
    try solve [split; [intros x Hx Hp; in_upd Hx; [exact (I1 _ Hx Hp)|exfalso; exact Hp] | exact I2]].
  - (* Seal *) split.
    + intros x Hx Hp. apply in_app_or in Hx. destruct Hx as [Hx|[<-|[]]]; [exact (I1 _ Hx Hp)|exfalso; exact Hp].
    + intros q Hq. destruct (I2 _ Hq) as (evs & He & Hs). exists evs. split; [|exact Hs].
      cbn [rev]. apply nth_error_snoc_Some. exact He.
  - (* OutEnd *) split; [|exact I2]. intros x Hx Hp. in_upd Hx; [exact (I1 _ Hx Hp)|].
    rewrite Hf in Heqo. inversion Heqo; subst b0. rewrite bseq_set_stage.
    apply I1; [exact (proj1 (find_bat_In _ _ _ Hf))|]. unfold done_prem. rewrite Heqs0.
    rewrite Hret in H. destruct ph; try discriminate H. exact I.
  - (* CommitBegin *)
    destruct (find_bat_In _ _ _ Heqo) as [Hin Hseq]. split.
    + intros x Hx Hp. in_upd Hx; [exact (I1 _ Hx Hp)|]. rewrite Heqo in Hf. inversion Hf; subst b0.
      rewrite bseq_set_stage. unfold done_prem in Hp. cbn [bstage set_stage bevs] in Hp.
      apply I1; [exact Hin|]. unfold done_prem. destruct (bstage b) eqn:Est; try discriminate H.
      * rewrite Hp in H. discriminate H.
      * exact I.
    + intros q [<-|Hq]; [|exact (I2 _ Hq)]. exists (bevs b). rewrite <- Hseq. split; [exact (wf_evs _ _ Hwf _ Hin)|].
      intros Hi. apply I1; [exact Hin|]. unfold done_prem. destruct (bstage b) eqn:Est; try discriminate H.
      * rewrite Hi in H. discriminate H.
      * exact I.
  - (* CommitEv *)
    destruct (committing_bat_Some _ _ Heqo) as [Hin Hcm]. split; [|exact I2].
    intros x Hx Hp. in_upd Hx; [exact (I1 _ Hx Hp)|].
    pose proof (find_bat_of_In _ _ _ _ (wf_consec _ _ Hwf) Hin) as Hf1. rewrite Hf1 in Hf. inversion Hf; subst b0.
    rewrite bseq_set_stage. apply I1; [exact Hin|]. unfold done_prem in *. rewrite Heqs0. exact Hp.
  - (* CommitEnd *) split; [|exact I2]. intros x Hx Hp. apply In_del_bat in Hx. exact (I1 _ Hx Hp).
  - (* RetryResult *)
    assert (Hmono : forall q, (exists t, In (q, t, true) (result_hist s)) \/ In q (map fseq (failed_hist s)) ->
                              (exists t, In (q, t, true) ((seq, tries0, ok) :: result_hist s)) \/ In q (map fseq (failed_hist s))).
    { intros q [[t Ht]|Hq]; [left; exists t; right; exact Ht|right; exact Hq]. }
    split.
    + intros x Hx Hp. in_upd Hx; [exact (Hmono _ (I1 _ Hx Hp))|].
      unfold done_prem in Hp. cbn [bstage set_stage] in Hp. destruct ok; [|exfalso; exact Hp].
      rewrite bseq_set_stage. left. exists tries0. left. rewrite (proj2 (find_bat_In _ _ _ Hf)). reflexivity.
    + intros q Hq. destruct (I2 _ Hq) as (evs & He & Hs). exists evs. split; [exact He|]. intros Hi. exact (Hmono _ (Hs Hi)).
  - (* RetryGiveUp *)
    cbn [map fseq fst].
    assert (Hmono : forall q, (exists t, In (q, t, true) (result_hist s)) \/ In q (map fseq (failed_hist s)) ->
                              (exists t, In (q, t, true) (result_hist s)) \/ (seq = q \/ In q (map fseq (failed_hist s)))).
    { intros q [Ht|Hq]; [left; exact Ht|right; right; exact Hq]. }
    split.
    + intros x Hx Hp. in_upd Hx; [exact (Hmono _ (I1 _ Hx Hp))|].
      right. left. symmetry. exact (proj2 (find_bat_In _ _ _ Heqo)).
    + intros q Hq. destruct (I2 _ Hq) as (evs & He & Hs). exists evs. split; [exact He|]. intros Hi. exact (Hmono _ (Hs Hi)).
Qed.

Lemma inv_settled_init c : inv_settled (init c).
Proof. split; cbn; intros; contradiction. Qed.

Lemma no_commit_while_retrying c ls s :
  retriable c = true -> run c (init c) ls = Some s ->
  forall q evs, In q (commit_batches s) -> nth_error (rev (sealed_hist s)) (Z.to_nat q) = Some evs ->
                has_iter evs = true ->
                (exists t, In (q, t, true) (result_hist s)) \/ In q (map fseq (failed_hist s)).
Proof.
  intros Hret Hr q evs Hq He Hi.
  destruct (run_invariant_wf c inv_settled (fun s0 l s1 Hw Hp => inv_settled_step c s0 l s1 Hret Hw Hp)
              (inv_settled_init c) ls s Hr) as [_ I2].
  destruct (I2 _ Hq) as (evs' & He' & Hs). rewrite He in He'. inversion He'; subst evs'. exact (Hs Hi).
Qed.

(* ------------------------------------------------------------------------------------------- *)
(* 5 / C09 D. what has been committed: whole batches in sequence order, a given-up batch with a  *)
(* dead queue contributing nothing, plus a prefix of the batch inside its commit section          *)

Definition emptied (c : cfg) (s : st) (q : Z) : bool :=
  deadq c && existsb (fun f => fseq f =? q) (failed_hist s).

Fixpoint eff_concat (em : Z -> bool) (i : Z) (l : list (list ev)) : list ev :=
  match l with [] => [] | b :: r => (if em i then [] else b) ++ eff_concat em (i + 1) r end.

Definition part_of (b : bat) : list ev :=
  match bstage b with Committing k => if bemptied b then [] else firstn k (bevs b) | _ => [] end.
Definition partial_of (fl : list bat) : list ev := match fl with b :: _ => part_of b | [] => [] end.

Lemma eff_concat_app em l1 : forall i l2,
  eff_concat em i (l1 ++ l2) = eff_concat em i l1 ++ eff_concat em (i + Z.of_nat (length l1)) l2.
Proof.
  induction l1 as [|b r IH]; intros i l2; cbn [eff_concat app length].
  - replace (i + Z.of_nat 0) with i by lia. reflexivity.
  - rewrite IH, <- app_assoc. do 3 f_equal. lia.
Qed.

Lemma eff_concat_ext em em' l : forall i,
  (forall j, i <= j < i + Z.of_nat (length l) -> em j = em' j) -> eff_concat em i l = eff_concat em' i l.
Proof.
  induction l as [|b r IH]; intros i H; cbn [eff_concat]; [reflexivity|].
  rewrite (H i) by (cbn [length]; lia). f_equal. apply IH. intros j Hj. apply H. cbn [length]. lia.
Qed.

Lemma eff_concat_false l : forall i, eff_concat (fun _ => false) i l = concat l.
Proof. induction l as [|b r IH]; intros i; cbn [eff_concat concat]; [reflexivity|]. rewrite IH. reflexivity. Qed.

Lemma firstn_snoc_nth {A} (l : list A) : forall n x, nth_error l n = Some x -> firstn (S n) l = firstn n l ++ [x].
Proof.
  induction l as [|y r IH]; intros [|n] x H; cbn [nth_error] in H; try discriminate.
  - inversion H; subst. reflexivity.
  - cbn [firstn app]. f_equal. rewrite <- IH by exact H. reflexivity.
Qed.

Lemma partial_upd fl q f b0 :
  find_bat fl q = Some b0 -> part_of (f b0) = part_of b0 -> partial_of (upd_bat fl q f) = partial_of fl.
Proof.
  destruct fl as [|x r]; [discriminate|]. cbn [find_bat upd_bat]. intros Hf Hp.
  destruct (bseq x =? q); [|reflexivity]. inversion Hf; subst x. exact Hp.
Qed.

Lemma partial_app fl x : part_of x = [] -> partial_of (fl ++ [x]) = partial_of fl.
Proof. intros Hp. destruct fl as [|y r]; [exact Hp|reflexivity]. Qed.

Lemma wf_committing_head c s b : WF c s -> In b (flight s) -> committing b = true -> exists r, flight s = b :: r.
Proof.
  intros Hwf Hin Hc. pose proof (wf_cmt _ _ Hwf _ Hin Hc) as Hlo. pose proof (wf_consec _ _ Hwf) as Hcs.
  destruct (flight s) as [|x r]; [destruct Hin|]. exists r. f_equal.
  cbn [map consec] in Hcs. destruct Hcs as [Hx Hcs]. destruct Hin as [->|Hin]; [reflexivity|].
  pose proof (proj2 (consec_bounds _ _ _ Hcs) _ (in_map bseq _ _ Hin)). lia.
Qed.

Lemma part_of_noncommitting b : committing b = false -> part_of b = [].
Proof. unfold committing, part_of. destruct (bstage b); [reflexivity..|discriminate]. Qed.

Definition inv_shape (c : cfg) (s : st) : Prop :=
  (forall b, In b (flight s) -> bemptied b = emptied c s (bseq b)) /\
  (forall f, In f (failed_hist s) -> fseq f < outSeq s) /\
  rev (committed s) =
    eff_concat (emptied c s) 0 (firstn (Z.to_nat (lo_seq s)) (rev (sealed_hist s))) ++ partial_of (flight s).

(* a step that only moves a batch between two stages outside the commit section *)
Lemma shape_upd_plain c s s' q g b0 :
  inv_shape c s -> find_bat (flight s) q = Some b0 -> committing b0 = false ->
  match g with Committing _ => False | _ => True end ->
  flight s' = upd_bat (flight s) q (set_stage g) -> commitSeq s' = commitSeq s ->
  sealed_hist s' = sealed_hist s -> outSeq s' = outSeq s -> committed s' = committed s ->
  failed_hist s' = failed_hist s -> inv_shape c s'.
Proof.
  intros (J1 & J2 & J3) Hf Hc Hg Hfl Hcs Hsh Hos Hcm Hfh.
  assert (Hc' : committing (set_stage g b0) = false) by (unfold committing; cbn [bstage set_stage]; destruct g; tauto).
  unfold inv_shape, emptied, lo_seq in *. rewrite Hfl, Hcs, Hsh, Hos, Hcm, Hfh.
  rewrite (existsb_committing_upd _ _ _ _ Hf) by congruence.
  rewrite (partial_upd _ _ _ _ Hf) by (rewrite !part_of_noncommitting by assumption; reflexivity).
  split; [|split; assumption].
  intros x Hx. in_upd Hx; [exact (J1 _ Hx)|]. rewrite Hf in Hf0. inversion Hf0; subst b1.
  rewrite bemptied_set_stage, bseq_set_stage. exact (J1 _ (proj1 (find_bat_In _ _ _ Hf))).
Qed.

Ltac shape_plain Hinv :=
  match goal with
  | Hf : find_bat (flight ?s) ?q = Some ?b0, Hst : bstage ?b0 = _ |- inv_shape _ ?s' =>
      match s' with context [upd_bat (flight s) q (set_stage ?g)] =>
        apply (shape_upd_plain _ s s' q g b0 Hinv Hf);
        [ unfold committing; rewrite Hst; reflexivity | exact I | reflexivity .. ]
      end
  end.

Lemma ev_eqb_eq a b : ev_eqb a b = true -> a = b.
Proof. destruct a, b. unfold ev_eqb. cbn. intros H. bnorm. subst. reflexivity. Qed.

Lemma wf_tail_noncommitting c s b r : WF c s -> flight s = b :: r -> existsb committing r = false.
Proof.
  intros Hwf Hfl. destruct (existsb committing r) eqn:E; [|reflexivity]. exfalso.
  apply existsb_exists in E. destruct E as (b' & Hb' & E).
  pose proof (wf_consec _ _ Hwf) as Hcs. pose proof (wf_cmt _ _ Hwf b') as Hcm. rewrite Hfl in *.
  cbn [map consec] in Hcs. destruct Hcs as [Hx Hcs]. specialize (Hcm (or_intror Hb') E).
  pose proof (proj2 (consec_bounds _ _ _ Hcs) _ (in_map bseq _ _ Hb')). lia.
Qed.

Lemma partial_noncommitting fl : existsb committing fl = false -> partial_of fl = [].
Proof.
  destruct fl as [|x r]; [reflexivity|]. cbn [existsb partial_of]. intros H. apply orb_false_iff in H.
  apply part_of_noncommitting. exact (proj1 H).
Qed.

Lemma inv_shape_step c s l s' : WF c s -> inv_shape c s -> step c s l = Some s' -> inv_shape c s'.
Proof.
  intros Hwf Hinv H.
  destruct l; step_inv H; try exact Hinv; try solve [shape_plain Hinv].
  - (* Seal *)
    destruct Hinv as (J1 & J2 & J3). unfold inv_shape, emptied, lo_seq in *. proj_simpl.
    rewrite existsb_app_committing by reflexivity. rewrite partial_app by reflexivity.
    pose proof (proj1 (consec_bounds _ _ _ (wf_consec _ _ Hwf))) as Hle. pose proof (wf_lo _ _ Hwf) as Hlo.
    pose proof (wf_len _ _ Hwf) as Hlen. unfold lo_seq in *.
    split; [|split].
    + intros x Hx. apply in_app_or in Hx. destruct Hx as [Hx|[<-|[]]]; [exact (J1 _ Hx)|]. cbn [bemptied bseq].
      destruct (existsb (fun f => fseq f =? seq) (failed_hist s)) eqn:E; [|rewrite andb_false_r; reflexivity].
      apply existsb_exists in E. destruct E as (f & Hf & E). apply Z.eqb_eq in E. specialize (J2 _ Hf). lia.
    + intros f Hf. specialize (J2 _ Hf). lia.
    + cbn [rev]. rewrite firstn_app.
      replace (Z.to_nat _ - length (rev (sealed_hist s)))%nat with O by (rewrite rev_length; lia).
      cbn [firstn]. rewrite app_nil_r. exact J3.
  - (* Take *)
    match goal with Hx : existsb (Z.eqb seq) (queue s) = true |- _ =>
      apply existsb_exists in Hx; destruct Hx as (q0 & Hq0 & Heq0) end. apply Z.eqb_eq in Heq0. subst q0.
    destruct (wf_queue _ _ Hwf _ Hq0) as (b0 & Hf & Hst).
    apply (shape_upd_plain c s _ seq Taken b0 Hinv Hf); [unfold committing; rewrite Hst; reflexivity|exact I|reflexivity..].
  - (* CommitBegin *)
    destruct Hinv as (J1 & J2 & J3). pose proof (committing_bat_None _ Heqo0) as Hex.
    assert (Hnc : committing b = false).
    { destruct (committing b) eqn:E; [|reflexivity]. rewrite (existsb_committing_true _ _ (proj1 (find_bat_In _ _ _ Heqo)) E) in Hex. discriminate. }
    unfold inv_shape, emptied, lo_seq in *. proj_simpl.
    rewrite (existsb_committing_upd_true _ _ _ _ Heqo) by reflexivity. rewrite Hex in J3.
    rewrite (partial_upd _ _ _ _ Heqo).
    2:{ rewrite (part_of_noncommitting _ Hnc). unfold part_of. cbn [bstage set_stage bemptied]. destruct (bemptied b); reflexivity. }
    replace (commitSeq s + 1 - 1) with (commitSeq s - 0) by lia.
    split; [|split; assumption].
    intros x Hx. in_upd Hx; [exact (J1 _ Hx)|]. rewrite Heqo in Hf. inversion Hf; subst b0.
    rewrite bemptied_set_stage, bseq_set_stage. exact (J1 _ (proj1 (find_bat_In _ _ _ Heqo))).
  - (* CommitEv *)
    destruct Hinv as (J1 & J2 & J3). destruct (committing_bat_Some _ _ Heqo) as [Hin Hcm].
    destruct (wf_committing_head _ _ _ Hwf Hin Hcm) as [r Hfl].
    apply ev_eqb_eq in Heqb0. subst e0.
    destruct (bemptied b) eqn:Eem; [discriminate|].
    unfold inv_shape, emptied, lo_seq in *. proj_simpl. rewrite Hfl in *.
    cbn [upd_bat]. rewrite Z.eqb_refl. cbn [existsb partial_of] in *.
    assert (Hcm' : committing (set_stage (Committing (S done)) b) = true) by reflexivity.
    rewrite Hcm' , Hcm in *. cbn [orb] in *.
    split; [|split; [exact J2|]].
    + intros x [<-|Hx]; [|exact (J1 _ (or_intror Hx))]. rewrite bemptied_set_stage, bseq_set_stage. exact (J1 _ (or_introl eq_refl)).
    + cbn [rev]. rewrite J3, <- app_assoc. f_equal. unfold part_of. cbn [bstage set_stage bemptied bevs].
      rewrite Heqs0, Eem. symmetry. apply firstn_snoc_nth. exact Heqo0.
  - (* CommitEnd *)
    destruct Hinv as (J1 & J2 & J3). destruct (find_bat_In _ _ _ Heqo) as [Hin Hseq].
    assert (Hcm : committing b = true) by (unfold committing; rewrite Heqs0; reflexivity).
    destruct (wf_committing_head _ _ _ Hwf Hin Hcm) as [r Hfl].
    pose proof (wf_tail_noncommitting _ _ _ _ Hwf Hfl) as Hexr.
    pose proof (wf_cmt _ _ Hwf _ Hin Hcm) as Hlo. pose proof (wf_lo _ _ Hwf) as Hlo0.
    pose proof (wf_evs _ _ Hwf _ Hin) as Hevs. pose proof (J1 _ Hin) as Hem.
    unfold inv_shape, emptied, lo_seq in *. proj_simpl. rewrite Hfl in *.
    cbn [del_bat]. rewrite Hseq, Z.eqb_refl. cbn [existsb partial_of] in *. rewrite Hcm in *. cbn [orb] in *.
    rewrite Hexr. rewrite (partial_noncommitting _ Hexr), app_nil_r.
    split; [|split; [exact J2|]].
    + intros x Hx. exact (J1 _ (or_intror Hx)).
    + replace (Z.to_nat (commitSeq s - 0)) with (S (Z.to_nat (commitSeq s - 1))) by lia.
      rewrite Hlo in Hevs. rewrite (firstn_snoc_nth _ _ _ Hevs), eff_concat_app. cbn [eff_concat].
      rewrite firstn_length_le by (apply Nat.lt_le_incl, nth_error_Some; rewrite Hevs; discriminate).
      replace (0 + Z.of_nat (Z.to_nat (commitSeq s - 1))) with seq by lia.
      subst seq. rewrite <- Hem, app_nil_r, J3. f_equal.
      unfold part_of. rewrite Heqs0. destruct (bemptied b); [reflexivity|].
      replace done with (length (bevs b)) by lia. apply firstn_all.
  - (* RetryGiveUp *)
    destruct Hinv as (J1 & J2 & J3). destruct (find_bat_In _ _ _ Heqo) as [Hin Hseq].
    pose proof (consec_bounds _ _ _ (wf_consec _ _ Hwf)) as [Hle Hbd]. specialize (Hbd _ (in_map bseq _ _ Hin)).
    pose proof (wf_lo _ _ Hwf) as Hlo0.
    assert (Hnc : committing b = false) by (unfold committing; rewrite Heqs0; reflexivity).
    unfold inv_shape, emptied, lo_seq in *. proj_simpl.
    rewrite (existsb_committing_upd _ _ _ _ Heqo) by (rewrite Hnc; reflexivity).
    rewrite (partial_upd _ _ _ _ Heqo) by (rewrite (part_of_noncommitting _ Hnc); reflexivity).
    cbn [existsb fseq fst].
    split; [|split].
    + intros x Hx. destruct (In_upd_bat_strong _ _ _ _ _ _ _ (wf_consec _ _ Hwf) Heqo Hx) as [[Hx1 Hne]| ->].
      * rewrite (proj2 (Z.eqb_neq seq (bseq x))) by congruence. cbn [orb]. exact (J1 _ Hx1).
      * cbn [bemptied bseq]. rewrite Hseq, Z.eqb_refl. cbn [orb]. rewrite andb_true_r. reflexivity.
    + intros f [<-|Hf]; [cbn [fseq fst]; lia|exact (J2 _ Hf)].
    + rewrite J3. f_equal. apply eff_concat_ext. intros j Hj.
      pose proof (firstn_le_length (Z.to_nat (commitSeq s - (if existsb committing (flight s) then 1 else 0))) (rev (sealed_hist s))) as Hl.
      rewrite (proj2 (Z.eqb_neq seq j)) by lia. reflexivity.
Qed.

Lemma inv_shape_init c : inv_shape c (init c).
Proof. split; [|split]; cbn; intros; try contradiction. reflexivity. Qed.

Lemma shape_reach c ls s : run c (init c) ls = Some s -> inv_shape c s.
Proof. exact (run_invariant_wf c (inv_shape c) (inv_shape_step c) (inv_shape_init c) ls s). Qed.

(* the general form: k whole batches (k = lo_seq s), given-up ones skipped when there is a dead queue,
   then the first j events of batch k (the one inside its commit section, if any) *)
Lemma committed_shape c ls s :
  run c (init c) ls = Some s ->
  exists j,
    rev (committed s) =
      eff_concat (emptied c s) 0 (firstn (Z.to_nat (lo_seq s)) (rev (sealed_hist s))) ++
      firstn j (if emptied c s (lo_seq s) then [] else nth (Z.to_nat (lo_seq s)) (rev (sealed_hist s)) []).
Proof.
  intros Hr. pose proof (wf_reach _ _ _ Hr) as Hwf. destruct (shape_reach _ _ _ Hr) as (J1 & J2 & J3).
  rewrite J3. destruct (flight s) as [|b r] eqn:Hfl; cbn [partial_of]; [exists O; reflexivity|].
  assert (Hin : In b (flight s)) by (rewrite Hfl; left; reflexivity). rewrite <- Hfl in J1.
  unfold part_of. destruct (bstage b) as [| | | | |k] eqn:Est; try (exists O; reflexivity).
  assert (Hcm : committing b = true) by (unfold committing; rewrite Est; reflexivity).
  rewrite <- (wf_cmt _ _ Hwf _ Hin Hcm), <- (J1 _ Hin). exists k. f_equal.
  destruct (bemptied b); [rewrite firstn_nil; reflexivity|].
  rewrite (nth_error_nth _ _ _ (wf_evs _ _ Hwf _ Hin)). reflexivity.
Qed.

(* non-retriable frame: nothing is ever given up *)
Definition inv_plain (s : st) : Prop :=
  failed_hist s = [] /\ forall b t ph, In b (flight s) -> bstage b = Sending t ph -> ph = PIdle.

Lemma inv_plain_step c s l s' : retriable c = false -> inv_plain s -> step c s l = Some s' -> inv_plain s'.
Proof.
  intros Hret [P1 P2] H. unfold inv_plain.
  destruct l; step_inv H; try (split; assumption); try congruence;
    try solve [split; [exact P1|]; intros x tx phx Hx Hst; in_upd Hx; [exact (P2 _ _ _ Hx Hst)|];
               cbn [bstage set_stage] in Hst; congruence].
  - (* Seal *) split; [exact P1|]. intros x tx phx Hx Hst. apply in_app_or in Hx.
    destruct Hx as [Hx|[<-|[]]]; [exact (P2 _ _ _ Hx Hst)|discriminate Hst].
  - (* CommitEnd *) split; [exact P1|]. intros x tx phx Hx Hst. apply In_del_bat in Hx. exact (P2 _ _ _ Hx Hst).
  - (* RetryResult *) pose proof (P2 _ _ _ (proj1 (find_bat_In _ _ _ Heqo)) Heqs0). discriminate.
  - (* RetryGiveUp *) pose proof (P2 _ _ _ (proj1 (find_bat_In _ _ _ Heqo)) Heqs0). discriminate.
Qed.

Lemma plain_reach c ls s : retriable c = false -> run c (init c) ls = Some s -> failed_hist s = [].
Proof.
  intros Hret Hr. assert (Hi : inv_plain (init c)) by (split; cbn; [reflexivity|intros; contradiction]).
  exact (proj1 (run_invariant c inv_plain (fun s0 l s1 Hp => inv_plain_step c s0 l s1 Hret Hp) ls _ _ Hi Hr)).
Qed.

Lemma committed_shape_plain c ls s :
  (retriable c = false \/ deadq c = false) -> run c (init c) ls = Some s ->
  exists j,
    rev (committed s) =
      concat (firstn (Z.to_nat (lo_seq s)) (rev (sealed_hist s))) ++
      firstn j (nth (Z.to_nat (lo_seq s)) (rev (sealed_hist s)) []).
Proof.
  intros Hc Hr. destruct (committed_shape _ _ _ Hr) as [j Hj]. exists j.
  assert (Hem : forall q, emptied c s q = false).
  { intros q. unfold emptied. destruct Hc as [Hc|Hc]; [rewrite (plain_reach _ _ _ Hc Hr), andb_false_r|rewrite Hc]; reflexivity. }
  rewrite Hem in Hj. rewrite Hj. f_equal.
  rewrite <- (eff_concat_false _ 0). apply eff_concat_ext. intros; apply Hem.
Qed.

Lemma concat_split_prefix (L : list (list ev)) : forall k j,
  exists rest, concat L = concat (firstn k L) ++ firstn j (nth k L []) ++ rest.
Proof.
  induction L as [|B L' IH]; intros k j.
  - exists []. destruct k; cbn; rewrite firstn_nil; reflexivity.
  - destruct k as [|k]; cbn [firstn nth concat app].
    + exists (skipn j B ++ concat L'). rewrite app_assoc, firstn_skipn. reflexivity.
    + destruct (IH k j) as [rest Hrest]. exists rest. rewrite Hrest, <- app_assoc. reflexivity.
Qed.

Lemma committed_prefix_of_added c ls s :
  (retriable c = false \/ deadq c = false) -> run c (init c) ls = Some s ->
  exists rest, rev (added s) = rev (committed s) ++ rest.
Proof.
  intros Hc Hr. destruct (committed_shape_plain _ _ _ Hc Hr) as [j Hj].
  rewrite (added_is_sealed_plus_current _ _ _ Hr), Hj.
  destruct (concat_split_prefix (rev (sealed_hist s)) (Z.to_nat (lo_seq s)) j) as [rest Hrest].
  exists (rest ++ rev (cur_list s)). rewrite Hrest, <- !app_assoc. reflexivity.
Qed.

Lemma exactly_once_at_quiescence c ls s :
  (retriable c = false \/ deadq c = false) -> run c (init c) ls = Some s ->
  flight s = [] -> cur_list s = [] -> rev (committed s) = rev (added s).
Proof.
  intros Hc Hr Hfl Hcu. pose proof (wf_reach _ _ _ Hr) as Hwf.
  destruct (committed_shape_plain _ _ _ Hc Hr) as [j Hj].
  pose proof (wf_consec _ _ Hwf) as Hcs. pose proof (wf_len _ _ Hwf) as Hlen. rewrite Hfl in Hcs. cbn [map consec] in Hcs.
  rewrite (added_is_sealed_plus_current _ _ _ Hr), Hcu, Hj. cbn [rev]. rewrite app_nil_r.
  replace (Z.to_nat (lo_seq s)) with (length (rev (sealed_hist s))) by (rewrite rev_length; lia).
  rewrite firstn_all, nth_overflow by lia. rewrite firstn_nil, app_nil_r. reflexivity.
Qed.

(* dead queue: while a given-up batch is inside its commit section no event is committed *)
Lemma deadqueue_no_commit_event c ls s e s' :
  deadq c = true -> run c (init c) ls = Some s -> step c s (LCommitEv e) = Some s' ->
  exists b, committing_bat (flight s) = Some b /\ ~ In (bseq b) (map fseq (failed_hist s)).
Proof.
  intros Hdq Hr H. destruct (shape_reach _ _ _ Hr) as (J1 & _ & _). step_inv H.
  exists b. split; [reflexivity|]. destruct (committing_bat_Some _ _ Heqo) as [Hin _].
  destruct (bemptied b) eqn:Eem; [discriminate|]. rewrite (J1 _ Hin) in Eem. unfold emptied in Eem. rewrite Hdq in Eem.
  cbn [andb] in Eem. intros Hq. apply in_map_iff in Hq. destruct Hq as (f & Hf1 & Hf2).
  assert (Hex : existsb (fun f0 => fseq f0 =? bseq b) (failed_hist s) = true).
  { apply existsb_exists. exists f. split; [exact Hf2|lia]. }
  congruence.
Qed.

(* ... and the length announced by its CommitBegin is 0 *)
Lemma deadqueue_commit_begin_zero c ls s q n s' :
  deadq c = true -> run c (init c) ls = Some s -> step c s (LCommitBegin q n) = Some s' ->
  In q (map fseq (failed_hist s)) -> n = 0.
Proof.
  intros Hdq Hr H Hq. destruct (shape_reach _ _ _ Hr) as (J1 & _ & _). step_inv H.
  destruct (find_bat_In _ _ _ Heqo) as [Hin Hseq]. rewrite H0, (J1 _ Hin). unfold emptied. rewrite Hdq. cbn [andb].
  apply in_map_iff in Hq. destruct Hq as (f & Hf1 & Hf2).
  assert (Hex : existsb (fun f0 => fseq f0 =? bseq b) (failed_hist s) = true).
  { apply existsb_exists. exists f. split; [exact Hf2|lia]. }
  rewrite Hex. reflexivity.
Qed.

(* ------------------------------------------------------------------------------------------- *)
(* corollaries in the form Properties/C08.v and C09.v quote them                                 *)

Lemma batch_bounds_count c ls s :
  0 < maxCount c -> 0 <= maxBytes c -> run c (init c) ls = Some s ->
  forall b, In b (sealed_hist s) -> 0 < Z.of_nat (length b) <= maxCount c.
Proof.
  intros Hc Hb Hr b Hin. pose proof (batch_bounds c ls s (Z.lt_le_incl _ _ Hc) Hb Hr b Hin) as Hok.
  split; [|exact (batch_ok_count _ _ Hok Hc)]. destruct Hok as [Hne _]. destruct b; [contradiction|cbn [length]; lia].
Qed.

Lemma batch_bounds_bytes c ls s :
  0 <= maxCount c -> 0 < maxBytes c -> run c (init c) ls = Some s ->
  forall b, In b (sealed_hist s) ->
    bytes_of b < maxBytes c \/ exists b0 e, b = b0 ++ [e] /\ bytes_of b0 < maxBytes c.
Proof.
  intros Hc Hb Hr b Hin. exact (batch_ok_bytes _ _ (batch_bounds c ls s Hc (Z.lt_le_incl _ _ Hb) Hr b Hin) Hb).
Qed.

Lemma stop_no_unsent_commit c ls s :
  run c (init c) ls = Some s -> stopped s = true ->
  forall q evs, In q (commit_batches s) -> nth_error (rev (sealed_hist s)) (Z.to_nat q) = Some evs ->
                has_iter evs = true -> In q (sent_hist s).
Proof. intros Hr _. exact (commit_after_own_send c ls s Hr). Qed.

Lemma never_given_up_when_retry_negative c ls s :
  retry c < 0 -> run c (init c) ls = Some s ->
  forall q t stopbo evs, In (q, t, stopbo, evs) (failed_hist s) -> stopbo = true.
Proof.
  intros Hneg Hr q t stopbo evs Hin. destruct stopbo; [reflexivity|].
  destruct (retries_at_least c ls s Hr _ _ _ Hin) as [H0 _]. lia.
Qed.

Lemma giveup_once_entries c ls s :
  run c (init c) ls = Some s ->
  forall f1 f2, In f1 (failed_hist s) -> In f2 (failed_hist s) -> fseq f1 = fseq f2 -> f1 = f2.
Proof.
  intros Hr. pose proof (giveup_once c ls s Hr) as Hnd. induction (failed_hist s) as [|f r IH]; [intros ? ? []|].
  cbn [map] in Hnd. inversion Hnd as [|? ? Hnin Hnd']; subst. intros f1 f2 [<-|H1] [<-|H2] Heq.
  - reflexivity.
  - exfalso. apply Hnin. rewrite Heq. exact (in_map fseq _ _ H2).
  - exfalso. apply Hnin. rewrite <- Heq. exact (in_map fseq _ _ H1).
  - exact (IH Hnd' _ _ H1 H2 Heq).
Qed.

(* ------------------------------------------------------------------------------------------- *)
(* C01: a commit of an event implies that the output acknowledged it                             *)
(* the send of batch q was acknowledged - plain batcher: its OutFn returned (it cannot fail); retry frame: a call of outFn
   returned success.  A give-up is NOT an acknowledgement, whatever its cause (attempts used up or backoff.Stop with attempts
   remaining / unlimited): with a dead queue the events belong to the dead queue from then on and this batcher commits none of
   them; without one the batch is the output's reported loss (onRetryError ran), and is committed as such. *)
Lemma commit_event_acknowledged c ls s e s' :
  run c (init c) ls = Some s -> step c s (LCommitEv e) = Some s' ->
  exists b k, committing_bat (flight s) = Some b /\ bstage b = Committing k /\ nth_error (bevs b) k = Some e /\
              (has_iter (bevs b) = true ->
                 (if retriable c then exists t, In (bseq b, t, true) (result_hist s) else In (bseq b) (sent_hist s)) \/
                 (retriable c = true /\ deadq c = false /\ In (bseq b) (map fseq (failed_hist s)))).
Proof.
  intros Hr H. pose proof (wf_reach _ _ _ Hr) as Hwf.
  destruct (run_invariant_wf c inv_sent (inv_sent_step c) (inv_sent_init c) ls s Hr) as [S1 _].
  pose proof H as H0. step_inv H.
  destruct (committing_bat_Some _ _ Heqo) as [Hin Hcm].
  match goal with He : ev_eqb e ?x = true |- _ => apply ev_eqb_eq in He; subst x end.
  exists b, done. split; [reflexivity|]. split; [assumption|].
  split; [destruct (bemptied b); [discriminate|assumption]|].
  intros Hi. destruct (retriable c) eqn:Hret.
  - destruct (run_invariant_wf c inv_settled (fun s0 l s1 Hw Hp => inv_settled_step c s0 l s1 Hret Hw Hp)
                (inv_settled_init c) ls s Hr) as [I1 _].
    assert (Hp : done_prem b) by (unfold done_prem; rewrite Heqs0; exact Hi).
    destruct (I1 _ Hin Hp) as [Hok|Hf]; [left; exact Hok|].
    destruct (deadq c) eqn:Hdq.
    + exfalso. destruct (deadqueue_no_commit_event c ls s e _ Hdq Hr H0) as (b1 & Hb1 & Hn).
      rewrite Heqo in Hb1. inversion Hb1; subst b1. exact (Hn Hf).
    + right. repeat split; assumption.
  - left. apply S1; [exact Hin|]. right. split; [exact Hcm|exact Hi].
Qed.

(* hence: with a dead queue, a batch the retry loop gave up - for EITHER cause - commits nothing, and whatever is committed
   was acknowledged by this output *)
Lemma deadqueue_commit_event_acknowledged c ls s e s' :
  retriable c = true -> deadq c = true -> run c (init c) ls = Some s -> step c s (LCommitEv e) = Some s' ->
  exists b, committing_bat (flight s) = Some b /\ In e (bevs b) /\ ~ In (bseq b) (map fseq (failed_hist s)) /\
            (has_iter (bevs b) = true -> exists t, In (bseq b, t, true) (result_hist s)).
Proof.
  intros Hret Hdq Hr H. destruct (commit_event_acknowledged c ls s e s' Hr H) as (b & k & Hb & _ & Hn & Ha).
  destruct (deadqueue_no_commit_event c ls s e s' Hdq Hr H) as (b1 & Hb1 & Hnf).
  rewrite Hb in Hb1. inversion Hb1; subst b1. exists b. split; [exact Hb|]. split; [exact (nth_error_In _ _ Hn)|].
  split; [exact Hnf|]. intros Hi. destruct (Ha Hi) as [Hk|(_ & Hd & _)].
  - rewrite Hret in Hk. exact Hk.
  - congruence.
Qed.

(* a give-up by backoff.Stop on the FIRST failure with attempts remaining (retry 3) and a dead queue: accepted by the LTS, the
   batch comes back from Out empty (OutEnd 0 / status 3; the kept batch - OutEnd 1 / status 1 - is rejected), its commit section
   commits nothing (CommitEv rejected) *)
Definition cfg_stop_dq : cfg :=
  {| workers := 1; maxCount := 1; maxBytes := 0; retriable := true; retry := 3; deadq := true; atomic_push := true |}.
Definition stop_giveup_run : list label :=
  [LFree; LAdd ev1; LSeal 0 1 1 1; LPush 0; LTake 0; LOutBegin 0 1; LRetryCall 0 0; LRetryResult 0 0 false;
   LRetryGiveUp 0 0 1 true true].
Lemma giveup_by_stop_nonvacuous :
  (exists s, run cfg_stop_dq (init cfg_stop_dq) (stop_giveup_run ++ [LOutEnd 0 0 3; LCommitBegin 0 0]) = Some s /\
             failed_hist s = [(0, 0, true, [ev1])] /\ step cfg_stop_dq s (LCommitEv ev1) = None /\
             exists s', step cfg_stop_dq s (LCommitEnd 0 3) = Some s' /\ committed s' = [] /\ flight s' = []) /\
  run cfg_stop_dq (init cfg_stop_dq) (stop_giveup_run ++ [LOutEnd 0 1 1]) = None /\
  run cfg_stop_dq (init cfg_stop_dq) (stop_giveup_run ++ [LOutEnd 0 0 3; LCommitBegin 0 1]) = None.
Proof.
  split; [|split; vm_compute; reflexivity].
  eexists. split; [vm_compute; reflexivity|]. split; [reflexivity|]. split; [vm_compute; reflexivity|].
  eexists. split; [vm_compute; reflexivity|]. split; reflexivity.
Qed.
