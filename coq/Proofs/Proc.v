(* Proofs about Model/Proc.v: one processor working on one stream (processEvent / doActions /
   Propagate / Spawn as a stack machine, actions arbitrary up to the protocol P1-P5).
   Main result: ordered events (regular, child-parent) leave towards the output in the order they
   were read, whatever the actions do.  Final named statements: Proofs/ProcTheorems.v. *)
From Verif Require Import Base.Sx Model.Proc.
From Coq Require Import Lia ZifyBool Bool List ZArith Sorted Permutation.
Import ListNotations.
Local Open Scope Z_scope.

Definition ordered (e : pev) : bool := (pkind e =? 0) || (pkind e =? 2).
Definition increasing (l : list Z) : Prop := StronglySorted Z.lt l.

(* ------------------------------------------------------------------------------------------- *)
(* generic                                                                                       *)

Lemma prun_invariant (P : pst -> Prop) :
  (forall s l s', P s -> pstep s l = Some s' -> P s') ->
  forall ls s s', P s -> prun s ls = Some s' -> P s'.
Proof.
  intros Hstep ls. induction ls as [|l r IH]; intros s s' Hs Hr; cbn [prun] in Hr.
  - inversion Hr; subst; exact Hs.
  - destruct (pstep s l) as [s1|] eqn:E; [|discriminate]. eapply IH; [eapply Hstep; eauto|exact Hr].
Qed.

Lemma prun_app s a b : prun s (a ++ b) = match prun s a with Some s' => prun s' b | None => None end.
Proof.
  revert s; induction a as [|l r IH]; intros s; cbn [prun app]; [reflexivity|].
  destruct (pstep s l); [apply IH|reflexivity].
Qed.

Ltac bnorm :=
  repeat match goal with
  | H : _ && _ = true |- _ => apply andb_true_iff in H; destruct H
  | H : _ || _ = false |- _ => apply orb_false_iff in H; destruct H
  | H : negb _ = true |- _ => apply negb_true_iff in H
  | H : negb _ = false |- _ => apply negb_false_iff in H
  | H : (_ =? _) = true |- _ => apply Z.eqb_eq in H
  | H : (_ =? _) = false |- _ => apply Z.eqb_neq in H
  | H : (_ <? _) = true |- _ => apply Z.ltb_lt in H
  | H : (_ <? _) = false |- _ => apply Z.ltb_ge in H
  | H : Bool.eqb _ _ = true |- _ => apply Bool.eqb_prop in H
  end.

Ltac step_split H :=
  repeat match type of H with
  | match ?x with _ => _ end = Some _ => destruct x eqn:?; try discriminate H
  end.

Ltac proj_simpl :=
  unfold set_stack, set_held in *; cbn [nact stack held lasttaken outs dropped pcrashed fev fidx fph] in *.

(* after [pstep_inv H] (the pre-state must be an explicit record) the post-state is explicit and
   every guard is a hypothesis; the boolean guards are left as they are ([bnorm] splits them) *)
Ltac pstep_inv H :=
  unfold pstep in H; proj_simpl; step_split H; try discriminate H; injection H as H; subst; proj_simpl.

Lemma pev_eqb_eq x y : pev_eqb x y = true -> x = y.
Proof.
  unfold pev_eqb; destruct x as [a b], y as [c d]; cbn [pseq pkind]; intros H; bnorm. subst; reflexivity.
Qed.

Definition pev_eq_dec (x y : pev) : {x = y} + {x <> y}.
Proof. decide equality; apply Z.eq_dec. Defined.

(* ------------------------------------------------------------------------------------------- *)
(* held lists                                                                                    *)

Lemma held_at_In h a e : held_at h a = Some e -> In (a, e) h.
Proof.
  induction h as [|[i x] r IH]; cbn [held_at]; [discriminate|].
  destruct (i =? a) eqn:E; intros H.
  - inversion H; subst. bnorm; subst. left; reflexivity.
  - right; auto.
Qed.

Lemma held_at_None h a : held_at h a = None -> forall e, ~ In (a, e) h.
Proof.
  induction h as [|[i x] r IH]; cbn [held_at]; intros H e; [intros []|].
  destruct (i =? a) eqn:E; [discriminate|]. intros [Heq|Hin].
  - inversion Heq; subst. bnorm; lia.
  - exact (IH H e Hin).
Qed.

Lemma unhold_In h a p : In p (unhold h a) -> In p h.
Proof.
  induction h as [|[i x] r IH]; cbn [unhold]; [tauto|].
  destruct (i =? a); cbn [In]; tauto.
Qed.

Lemma unhold_nodup h a : NoDup (map fst h) -> NoDup (map fst (unhold h a)).
Proof.
  induction h as [|[i x] r IH]; cbn [unhold map fst]; intros H; [constructor|].
  inversion H as [|? ? Hni Hnd]; subst. destruct (i =? a); [exact Hnd|].
  cbn [map fst]. constructor; [|auto].
  intros Hin. apply Hni. apply in_map_iff in Hin as [p [Hp Hin]]. apply in_map_iff. exists p; split; [exact Hp|].
  eapply unhold_In; eauto.
Qed.

Lemma unhold_neq h a j y : NoDup (map fst h) -> In (j, y) (unhold h a) -> j <> a.
Proof.
  induction h as [|[i x] r IH]; cbn [unhold map fst]; intros Hnd Hin; [destruct Hin|].
  inversion Hnd as [|? ? Hni Hnd']; subst. destruct (i =? a) eqn:E; bnorm.
  - subst. intros ->. apply Hni. apply in_map_iff. exists (a, y); split; [reflexivity|exact Hin].
  - destruct Hin as [Heq|Hin]; [inversion Heq; subst; exact E|auto].
Qed.

Lemma none_left h idx :
  existsb (fun p : Z * pev => fst p <? idx) h = false -> forall j y, In (j, y) h -> idx <= j.
Proof.
  intros H j y Hin. destruct (Z_lt_le_dec j idx) as [Hlt|]; [|assumption].
  assert (Hex : existsb (fun p : Z * pev => fst p <? idx) h = true).
  { apply existsb_exists. exists (j, y); split; [exact Hin|]. cbn [fst]. lia. }
  congruence.
Qed.

Lemma none_after h a : holds_after h a = false -> forall j y, In (j, y) h -> j <= a.
Proof.
  unfold holds_after. intros H j y Hin. destruct (Z_lt_le_dec a j) as [Hlt|]; [|assumption].
  assert (Hex : existsb (fun p : Z * pev => a <? fst p) h = true).
  { apply existsb_exists. exists (j, y); split; [exact Hin|]. cbn [fst]. lia. }
  congruence.
Qed.

Lemma none_between h lo idx :
  existsb (fun p : Z * pev => (lo <=? fst p) && (fst p <? idx)) h = false ->
  forall j y, In (j, y) h -> lo <= j -> idx <= j.
Proof.
  intros H j y Hin Hlo. destruct (Z_lt_le_dec j idx) as [Hlt|]; [|assumption].
  assert (Hex : existsb (fun p : Z * pev => (lo <=? fst p) && (fst p <? idx)) h = true).
  { apply existsb_exists. exists (j, y); split; [exact Hin|]. cbn [fst]. lia. }
  congruence.
Qed.

(* ------------------------------------------------------------------------------------------- *)
(* structural invariant: where frames and holders can be                                         *)

(* a frame that still has actions to run sits at or left of every holder; an event that is about
   to leave (MustOut) exists only when nothing is held at all *)
Definition frame_ok (n : Z) (h : list (Z * pev)) (f : frame) : Prop :=
  (fph f <> MustOut -> 0 <= fidx f < n /\ forall j y, In (j, y) h -> fidx f <= j) /\
  (fph f = MustOut -> h = []).

(* every frame below the head is inside a Do, at or left of the frame above it *)
Fixpoint stack_ok (st : list frame) : Prop :=
  match st with
  | [] => True
  | f :: r => Forall (fun g => fph g = InDo /\ (fph f <> MustOut -> fidx g <= fidx f)) r /\ stack_ok r
  end.

Record struct_ok (s : pst) : Prop := {
  so_range : forall j y, In (j, y) (held s) -> 0 <= j < nact s;
  so_nodup : NoDup (map fst (held s));
  so_frames : Forall (frame_ok (nact s) (held s)) (stack s);
  so_stack : stack_ok (stack s)
}.

Lemma frame_ok_sub n h h' f :
  (forall p, In p h' -> In p h) -> (h = [] -> h' = []) -> frame_ok n h f -> frame_ok n h' f.
Proof.
  intros Hsub Hnil [H1 H2]. split.
  - intros Hp. destruct (H1 Hp) as [Hr Hj]. split; [exact Hr|]. intros j y Hin. eapply Hj, Hsub, Hin.
  - intros Hp. auto.
Qed.

Lemma unhold_nil_in h a : (forall p, In p (unhold h a) -> In p h) /\ (h = [] -> unhold h a = []).
Proof. split; [intros p; apply unhold_In|intros ->; reflexivity]. Qed.

Lemma stack_ok_below f r : stack_ok (f :: r) -> fph f <> MustOut ->
  Forall (fun g => fph g = InDo /\ fidx g <= fidx f) r.
Proof.
  cbn [stack_ok]. intros [H _] Hp. eapply Forall_impl; [|exact H]. cbn beta. intros g [Hg Hi]. auto.
Qed.

(* replace the head by a frame that is further right (or leaving) *)
Lemma stack_ok_head f f' r : stack_ok (f :: r) -> fph f <> MustOut -> fidx f <= fidx f' -> stack_ok (f' :: r).
Proof.
  cbn [stack_ok]. intros [H Hr] Hp Hle. split; [|exact Hr].
  eapply Forall_impl; [|exact H]. cbn beta. intros g [Hg Hi]. split; [exact Hg|]. intros _. specialize (Hi Hp). lia.
Qed.

(* push a frame on top of a head that is inside its Do *)
Lemma stack_ok_push f' f r : stack_ok (f :: r) -> fph f = InDo -> (fph f' <> MustOut -> fidx f <= fidx f') ->
  stack_ok (f' :: f :: r).
Proof.
  intros Hok Hp Hle. cbn [stack_ok]. split; [|exact Hok].
  constructor; [split; assumption|].
  assert (Hne : fph f <> MustOut) by congruence.
  pose proof (stack_ok_below _ _ Hok Hne) as Hb.
  eapply Forall_impl; [|exact Hb]. cbn beta. intros g [Hg Hi]. split; [exact Hg|]. intros Hm. specialize (Hle Hm). lia.
Qed.

Lemma stack_ok_tail f r : stack_ok (f :: r) -> stack_ok r.
Proof. cbn [stack_ok]. tauto. Qed.

Lemma struct_init n : struct_ok (pinit n).
Proof. split; cbn; [intros ? ? []|constructor|constructor|exact I]. Qed.

Lemma struct_step s l s' : struct_ok s -> pstep s l = Some s' -> struct_ok s'.
Proof.
  intros [Hrange Hnd Hfr Hst] Hstep.
  destruct s as [n st h lt o d c]. proj_simpl.
  destruct l as [e start|e a busy|e next|parent k|e idx|e idx|e a r|e]; pstep_inv Hstep; bnorm.
  - (* PTake time-out *)
    split; proj_simpl; auto.
    + constructor; [|constructor]. split; cbn [fph fidx]; [intros _|discriminate].
      match goal with H : held_at _ _ = Some _ |- _ => apply held_at_In in H; pose proof (Hrange _ _ H) end.
      split; [lia|]. apply none_left; assumption.
    + cbn. auto.
  - (* PTake, some action *)
    split; proj_simpl; auto.
    + constructor; [|constructor]. split; cbn [fph fidx]; [intros _|discriminate].
      split; [lia|]. intros j y Hin. apply Hrange in Hin. lia.
    + cbn. auto.
  - (* PTake, no action *)
    split; proj_simpl; auto.
    + constructor; [|constructor]. split; cbn [fph fidx]; [intros Hc; congruence|intros _].
      destruct h as [|[j y] h']; [reflexivity|]. specialize (Hrange j y (or_introl eq_refl)). lia.
    + cbn. auto.
  - (* PDo *)
    inversion Hfr as [|? ? Hf Hfr']; subst.
    split; proj_simpl; auto.
    + constructor; [|exact Hfr']. destruct Hf as [Hf1 Hf2]. split; cbn [fph fidx]; [intros _|discriminate].
      apply Hf1. congruence.
    + eapply stack_ok_head; [exact Hst|congruence|cbn [fidx]; lia].
  - (* PPropagate *)
    inversion Hfr as [|? ? Hf Hfr']; subst.
    match goal with H : held_at _ _ = Some _ |- _ => pose proof (held_at_In _ _ _ H) as Hheld end.
    assert (Hne : fph f <> MustOut) by congruence.
    destruct Hf as [Hf1 _]. destruct (Hf1 Hne) as [Hfr0 Hfj].
    assert (Hnew : forall j y, In (j, y) (unhold h (next - 1)) -> next <= j).
    { intros j y Hin. pose proof (unhold_neq _ _ _ _ Hnd Hin). apply unhold_In in Hin. apply Hfj in Hin. lia. }
    split; proj_simpl.
    + intros j y Hin. apply unhold_In in Hin. eauto.
    + apply unhold_nodup; assumption.
    + constructor.
      * destruct (next <? n) eqn:En; bnorm; split; cbn [fph fidx]; try discriminate; try congruence.
        -- intros _. split; [lia|exact Hnew].
        -- intros _. destruct (unhold h (next - 1)) as [|[j y] h'] eqn:Eu; [reflexivity|].
           specialize (Hnew j y (or_introl eq_refl)). apply Hrange in Hheld.
           assert (In (j, y) h) by (eapply unhold_In; rewrite Eu; left; reflexivity).
           match goal with H : In (j, y) h |- _ => apply Hrange in H end. lia.
      * destruct (unhold_nil_in h (next - 1)) as [Hs1 Hs2].
        eapply Forall_impl; [|exact Hfr]. intros g. apply frame_ok_sub; assumption.
    + apply stack_ok_push; [exact Hst|assumption|].
      destruct (next <? n); cbn [fph fidx]; [intros _; lia|congruence].
  - (* PSpawn *)
    split; proj_simpl; auto.
  - (* PSkipTo *)
    inversion Hfr as [|? ? Hf Hfr']; subst.
    assert (Hne : fph f <> MustOut) by congruence.
    destruct Hf as [Hf1 _]. destruct (Hf1 Hne) as [Hfr0 Hfj].
    match goal with H : existsb _ _ = false |- _ => pose proof (none_between _ _ _ H) as Hbet end.
    assert (Hnew : forall j y, In (j, y) h -> idx <= j) by (intros j y Hin; eapply Hbet; eauto).
    split; proj_simpl; auto.
    + constructor; [|exact Hfr'].
      destruct (idx <? n) eqn:En; bnorm; split; cbn [fph fidx]; try discriminate; try congruence.
      * intros _. split; [lia|exact Hnew].
      * intros _. destruct h as [|[j y] h']; [reflexivity|].
        pose proof (Hnew j y (or_introl eq_refl)). specialize (Hrange j y (or_introl eq_refl)). lia.
    + eapply stack_ok_head; [exact Hst|congruence|]. destruct (idx <? n); cbn [fidx]; lia.
  - (* PPush *)
    inversion Hfr as [|? ? Hf Hfr']; subst.
    assert (Hne : fph f <> MustOut) by congruence.
    destruct Hf as [Hf1 _]. destruct (Hf1 Hne) as [Hfr0 Hfj].
    match goal with H : existsb _ _ = false |- _ => pose proof (none_left _ _ H) as Hleft end.
    assert (Hidx : fidx f <= idx /\ (idx < n -> 0 <= idx)).
    { match goal with H : _ || _ = true |- _ => apply orb_true_iff in H; destruct H as [H|H] end; bnorm.
      - lia.
      - destruct (held_at h idx) as [y|] eqn:Eh; [|discriminate]. apply held_at_In in Eh.
        pose proof (Hfj _ _ Eh). lia. }
    split; proj_simpl; auto.
    + constructor; [|exact Hfr].
      destruct (idx <? n) eqn:En; bnorm; split; cbn [fph fidx]; try discriminate; try congruence.
      * intros _. split; [lia|exact Hleft].
      * intros _. destruct h as [|[j y] h']; [reflexivity|].
        pose proof (Hleft j y (or_introl eq_refl)). specialize (Hrange j y (or_introl eq_refl)). lia.
    + apply stack_ok_push; [exact Hst|assumption|].
      destruct (idx <? n); cbn [fph fidx]; [intros _; lia|congruence].
  - (* PResult RPass *)
    inversion Hfr as [|? ? Hf Hfr']; subst.
    assert (Hne : fph f <> MustOut) by congruence.
    destruct Hf as [Hf1 _]. destruct (Hf1 Hne) as [Hfr0 Hfj].
    assert (Hnone : forall y, ~ In (fidx f, y) h).
    { destruct (held_at h (fidx f)) eqn:Eh; [discriminate|]. apply held_at_None; assumption. }
    assert (Hnew : forall j y, In (j, y) h -> fidx f + 1 <= j).
    { intros j y Hin. pose proof (Hfj _ _ Hin). assert (j <> fidx f) by (intros ->; eapply Hnone; eauto). lia. }
    split; proj_simpl; auto.
    + constructor; [|exact Hfr']. unfold after_pass.
      destruct (fidx f + 1 <? n) eqn:En; bnorm; split; cbn [fph fidx]; try discriminate; try congruence.
      * intros _. split; [lia|exact Hnew].
      * intros _. destruct h as [|[j y] h']; [reflexivity|].
        pose proof (Hnew j y (or_introl eq_refl)). specialize (Hrange j y (or_introl eq_refl)). lia.
    + eapply stack_ok_head; [exact Hst|congruence|]. unfold after_pass. destruct (fidx f + 1 <? n); cbn [fidx]; lia.
  - (* PResult RCollapse *)
    inversion Hfr as [|? ? Hf Hfr']; subst.
    split; proj_simpl; auto. eapply stack_ok_tail; eauto.
  - (* PResult RDiscard *)
    inversion Hfr as [|? ? Hf Hfr']; subst.
    split; proj_simpl; auto. eapply stack_ok_tail; eauto.
  - (* PResult RHold *)
    inversion Hfr as [|? ? Hf Hfr']; subst.
    assert (Hne : fph f <> MustOut) by congruence.
    destruct Hf as [Hf1 _]. destruct (Hf1 Hne) as [Hfr0 Hfj].
    assert (Hnone : forall y, ~ In (fidx f, y) h).
    { destruct (held_at h (fidx f)) eqn:Eh; [discriminate|]. apply held_at_None; assumption. }
    pose proof (stack_ok_below _ _ Hst Hne) as Hb.
    split; proj_simpl.
    + intros j y [Heq|Hin]; [inversion Heq; subst; lia|eauto].
    + cbn [map fst]. constructor; [|exact Hnd]. intros Hin. apply in_map_iff in Hin as [[j y] [Hj Hin]].
      cbn [fst] in Hj; subst j. eapply Hnone; eauto.
    + rewrite Forall_forall in Hfr', Hb |- *. intros g Hg. destruct (Hb g Hg) as [Hgp Hgi].
      destruct (Hfr' g Hg) as [Hg1 _]. split; [|congruence].
      intros Hgn. destruct (Hg1 Hgn) as [Hgr Hgj]. split; [exact Hgr|].
      intros j y [Heq|Hin]; [inversion Heq; subst; lia|eauto].
    + eapply stack_ok_tail; eauto.
  - (* PResult RBreak *)
    inversion Hfr as [|? ? Hf Hfr']; subst.
    assert (Hne : fph f <> MustOut) by congruence.
    destruct Hf as [Hf1 _]. destruct (Hf1 Hne) as [Hfr0 Hfj].
    assert (Hnone : forall y, ~ In (fidx f, y) h).
    { destruct (held_at h (fidx f)) eqn:Eh; [discriminate|]. apply held_at_None; assumption. }
    match goal with H : holds_after _ _ = false |- _ => pose proof (none_after _ _ H) as Haft end.
    split; proj_simpl; auto.
    + constructor; [|exact Hfr']. split; cbn [fph fidx]; [congruence|intros _].
      destruct h as [|[j y] h']; [reflexivity|].
      pose proof (Haft j y (or_introl eq_refl)). pose proof (Hfj j y (or_introl eq_refl)).
      assert (j = fidx f) by lia. subst j. exfalso. eapply Hnone. left; reflexivity.
    + eapply stack_ok_head; [exact Hst|congruence|cbn [fidx]; lia].
  - (* POut *)
    inversion Hfr as [|? ? Hf Hfr']; subst.
    split; proj_simpl; auto. eapply stack_ok_tail; eauto.
Qed.

Lemma struct_reachable n ls s : prun (pinit n) ls = Some s -> struct_ok s.
Proof. apply (prun_invariant struct_ok); [intros; eapply struct_step; eauto|apply struct_init]. Qed.

(* ------------------------------------------------------------------------------------------- *)
(* ordering invariant                                                                            *)

Definition oseqs (l : list pev) : list Z := map pseq (filter ordered l).

Lemma oseqs_cons x l : oseqs (x :: l) = if ordered x then pseq x :: oseqs l else oseqs l.
Proof. unfold oseqs; cbn [filter]. destruct (ordered x); reflexivity. Qed.

Lemma Forall_oseqs (P : Z -> Prop) l :
  Forall P (oseqs l) <-> forall x, In x l -> ordered x = true -> P (pseq x).
Proof.
  unfold oseqs. rewrite Forall_forall. split.
  - intros H x Hin Ho. apply H. apply in_map. apply filter_In. auto.
  - intros H z Hz. apply in_map_iff in Hz as [x [<- Hx]]. apply filter_In in Hx as [Hin Ho]. auto.
Qed.

(* es = events of the stack frames, head first; h = held pairs; o = outs (newest first);
   lt = seq of the last event taken.
   All ordered events held are older than all ordered events on the stack; among the held ones the
   older is further right; on the stack the older is nearer the head; whatever is already out is
   older than everything still inside. *)
Record ord_ok (es : list pev) (h : list (Z * pev)) (o : list pev) (lt : Z) : Prop := {
  oo_held : forall i x j y, In (i, x) h -> In (j, y) h -> ordered x = true -> ordered y = true ->
                            i < j -> pseq y < pseq x;
  oo_stack : StronglySorted Z.lt (oseqs es);
  oo_held_stack : forall j y x, In (j, y) h -> In x es -> ordered y = true -> ordered x = true ->
                                pseq y < pseq x;
  oo_outs_held : forall z j y, In z o -> In (j, y) h -> ordered z = true -> ordered y = true ->
                               pseq z < pseq y;
  oo_outs_stack : forall z x, In z o -> In x es -> ordered z = true -> ordered x = true -> pseq z < pseq x;
  oo_outs : StronglySorted Z.gt (oseqs o);
  oo_lt_outs : forall x, In x o -> ordered x = true -> pseq x <= lt;
  oo_lt_stack : forall x, In x es -> ordered x = true -> pseq x <= lt;
  oo_lt_held : forall j y, In (j, y) h -> ordered y = true -> pseq y <= lt
}.

Lemma ord_push_unordered e es h o lt : ordered e = false -> ord_ok es h o lt -> ord_ok (e :: es) h o lt.
Proof.
  intros He [H1 H2 H3 H4 H5 H6 H7 H8 H9]. split; auto.
  - rewrite oseqs_cons, He. exact H2.
  - intros j y x Hy [<-|Hx] Hoy Hox; [congruence|eauto].
  - intros z x Hz [<-|Hx] Hoz Hox; [congruence|eauto].
  - intros x [<-|Hx] Hox; [congruence|eauto].
Qed.

Lemma ord_pop x es h o lt : ord_ok (x :: es) h o lt -> ord_ok es h o lt.
Proof.
  intros [H1 H2 H3 H4 H5 H6 H7 H8 H9]. split; auto.
  - rewrite oseqs_cons in H2. destruct (ordered x); [inversion H2; assumption|exact H2].
  - intros j y x' Hy Hx. apply (H3 j y x' Hy). right; exact Hx.
  - intros z x' Hz Hx. apply (H5 z x' Hz). right; exact Hx.
  - intros x' Hx. apply H8. right; exact Hx.
Qed.

Lemma ord_head_lt x es h o lt : ord_ok (x :: es) h o lt -> ordered x = true ->
  forall x', In x' es -> ordered x' = true -> pseq x < pseq x'.
Proof.
  intros [_ H2 _ _ _ _ _ _ _] Hox. rewrite oseqs_cons, Hox in H2. inversion H2 as [|? ? _ Hall]; subst.
  apply (proj1 (Forall_oseqs _ _) Hall).
Qed.

Lemma ord_take e h o lt : lt < pseq e -> ord_ok [] h o lt -> ord_ok [e] h o (pseq e).
Proof.
  intros Hlt [H1 H2 H3 H4 H5 H6 H7 H8 H9]. split; auto.
  - rewrite oseqs_cons. destruct (ordered e); cbn; repeat constructor.
  - intros j y x Hy [<-|[]] Hoy Hox. specialize (H9 j y Hy Hoy). lia.
  - intros z x Hz [<-|[]] Hoz Hox. specialize (H7 z Hz Hoz). lia.
  - intros x Hx Hox. specialize (H7 x Hx Hox). lia.
  - intros x [<-|[]] Hox. lia.
  - intros j y Hy Hoy. specialize (H9 j y Hy Hoy). lia.
Qed.

Lemma ord_propagate a e es h o lt :
  NoDup (map fst h) -> (forall j y, In (j, y) h -> a <= j) -> held_at h a = Some e ->
  ord_ok es h o lt -> ord_ok (e :: es) (unhold h a) o lt.
Proof.
  intros Hnd Hge Hat [H1 H2 H3 H4 H5 H6 H7 H8 H9]. apply held_at_In in Hat.
  assert (Hgt : forall j y, In (j, y) (unhold h a) -> a < j).
  { intros j y Hin. pose proof (unhold_neq _ _ _ _ Hnd Hin). apply unhold_In in Hin. apply Hge in Hin. lia. }
  split; auto.
  - intros i x j y Hx Hy. apply unhold_In in Hx, Hy. eauto.
  - rewrite oseqs_cons. destruct (ordered e) eqn:Hoe; [|exact H2]. constructor; [exact H2|].
    apply Forall_oseqs. intros x Hx Hox. eapply H3; eauto.
  - intros j y x Hy [<-|Hx] Hoy Hox.
    + pose proof (Hgt _ _ Hy). apply unhold_In in Hy. eapply H1; eauto.
    + apply unhold_In in Hy. eauto.
  - intros z j y Hz Hy. apply unhold_In in Hy. eauto.
  - intros z x Hz [<-|Hx] Hoz Hox; eauto.
  - intros x [<-|Hx] Hox; eauto.
  - intros j y Hy. apply unhold_In in Hy. eauto.
Qed.

Lemma ord_hold a x es h o lt :
  (forall j y, In (j, y) h -> a < j) -> ord_ok (x :: es) h o lt -> ord_ok es ((a, x) :: h) o lt.
Proof.
  intros Hgt Hok. pose proof (ord_head_lt _ _ _ _ _ Hok) as Hhead. pose proof (ord_pop _ _ _ _ _ Hok) as Hpop.
  destruct Hok as [H1 H2 H3 H4 H5 H6 H7 H8 H9]. destruct Hpop as [_ P2 P3 _ P5 _ _ P8 _].
  split; auto.
  - intros i x1 j y [Hx|Hx] [Hy|Hy] Hox Hoy Hij.
    + inversion Hx; inversion Hy; subst. lia.
    + inversion Hx; subst. eapply H3; eauto. left; reflexivity.
    + inversion Hy; subst. apply Hgt in Hx. lia.
    + eauto.
  - intros j y x' [Hy|Hy] Hx Hoy Hox; [inversion Hy; subst; auto|eauto].
  - intros z j y Hz [Hy|Hy] Hoz Hoy; [inversion Hy; subst|eauto]. eapply H5; eauto. left; reflexivity.
  - intros j y [Hy|Hy] Hoy; [inversion Hy; subst|eauto]. apply H8; [left; reflexivity|assumption].
Qed.

Lemma ord_out x es o lt : ord_ok (x :: es) [] o lt -> ord_ok es [] (x :: o) lt.
Proof.
  intros Hok. pose proof (ord_head_lt _ _ _ _ _ Hok) as Hhead. pose proof (ord_pop _ _ _ _ _ Hok) as Hpop.
  destruct Hok as [H1 H2 H3 H4 H5 H6 H7 H8 H9]. destruct Hpop as [_ P2 P3 _ P5 _ _ P8 _].
  split; auto.
  - intros z j y _ [].
  - intros z x' [<-|Hz] Hx Hoz Hox; eauto.
  - rewrite oseqs_cons. destruct (ordered x) eqn:Hox; [|exact H6]. constructor; [exact H6|].
    apply Forall_oseqs. intros z Hz Hoz. assert (pseq z < pseq x); [|lia]. eapply H5; eauto. left; reflexivity.
  - intros z [<-|Hz] Hoz; [|eauto]. apply H8; [left; reflexivity|assumption].
Qed.

Definition ord_st (s : pst) : Prop := ord_ok (map fev (stack s)) (held s) (outs s) (lasttaken s).

Lemma ord_init n : ord_st (pinit n).
Proof. split; cbn; try constructor; try (intros; contradiction). Qed.

Lemma unordered_kind e : pkind e = 1 \/ pkind e = 3 -> ordered e = false.
Proof. unfold ordered. intros [H|H]; rewrite H; reflexivity. Qed.

Lemma ord_step s l s' : struct_ok s -> ord_st s -> pstep s l = Some s' -> ord_st s'.
Proof.
  intros [Hrange Hnd Hfr Hst] Hord Hstep. unfold ord_st in *.
  destruct s as [n st h lt o d c]. proj_simpl.
  destruct l as [e start|e a busy|e next|parent k|e idx|e idx|e a r|e]; pstep_inv Hstep; bnorm.
  - (* PTake time-out *) cbn [map fev]. apply ord_push_unordered; [apply unordered_kind; right; lia|exact Hord].
  - (* PTake *) cbn [map fev]. apply (ord_take e h o lt); [lia|exact Hord].
  - (* PTake, no action *) cbn [map fev]. apply (ord_take e h o lt); [lia|exact Hord].
  - (* PDo *) exact Hord.
  - (* PPropagate *)
    inversion Hfr as [|? ? Hf Hfr']; subst.
    assert (Hne : fph f <> MustOut) by congruence.
    destruct Hf as [Hf1 _]. destruct (Hf1 Hne) as [Hfr0 Hfj].
    match goal with H : pev_eqb _ _ = true |- _ => apply pev_eqb_eq in H; subst end.
    replace (map fev ((if next <? n then {| fev := p; fidx := next; fph := BeforeDo |}
                       else {| fev := p; fidx := next - 1; fph := MustOut |}) :: f :: l))
      with (p :: fev f :: map fev l) by (destruct (next <? n); reflexivity).
    apply ord_propagate; auto. intros j y Hin. apply Hfj in Hin. lia.
  - (* PSpawn *) exact Hord.
  - (* PSkipTo *)
    replace (map fev ((if idx <? n then {| fev := fev f; fidx := idx; fph := BeforeDo |}
                       else {| fev := fev f; fidx := idx - 1; fph := MustOut |}) :: l))
      with (fev f :: map fev l) by (destruct (idx <? n); reflexivity).
    exact Hord.
  - (* PPush *)
    replace (map fev ((if idx <? n then {| fev := e; fidx := idx; fph := BeforeDo |}
                       else {| fev := e; fidx := idx - 1; fph := MustOut |}) :: f :: l))
      with (e :: fev f :: map fev l) by (destruct (idx <? n); reflexivity).
    apply ord_push_unordered; [|exact Hord]. apply unordered_kind.
    match goal with H : _ || _ = true |- _ => apply orb_true_iff in H; destruct H as [H|H] end; bnorm; [left|right]; lia.
  - (* RPass *)
    replace (map fev (after_pass (fev f) a n :: l)) with (fev f :: map fev l)
      by (unfold after_pass; destruct (a + 1 <? n); reflexivity).
    exact Hord.
  - (* RCollapse *) eapply ord_pop; eauto.
  - (* RDiscard *) eapply ord_pop; eauto.
  - (* RHold *)
    inversion Hfr as [|? ? Hf Hfr']; subst.
    assert (Hne : fph f <> MustOut) by congruence.
    destruct Hf as [Hf1 _]. destruct (Hf1 Hne) as [Hfr0 Hfj].
    apply ord_hold; [|exact Hord].
    intros j y Hin. pose proof (Hfj _ _ Hin).
    assert (j <> fidx f); [|lia]. intros ->.
    destruct (held_at h (fidx f)) eqn:Eh; [discriminate|]. eapply held_at_None; eauto.
  - (* RBreak *) exact Hord.
  - (* POut *)
    inversion Hfr as [|? ? Hf Hfr']; subst. destruct Hf as [_ Hf2]. rewrite (Hf2 Heqp) in *.
    apply ord_out; exact Hord.
Qed.

Record pinv (s : pst) : Prop := { pi_struct : struct_ok s; pi_ord : ord_st s }.

Lemma pinv_reachable n ls s : prun (pinit n) ls = Some s -> pinv s.
Proof.
  apply (prun_invariant pinv).
  - intros s0 l s1 [Hs Ho] Hstep. split; [eapply struct_step|eapply ord_step]; eauto.
  - split; [apply struct_init|apply ord_init].
Qed.

(* from newest-first and decreasing to oldest-first and increasing *)
Lemma sorted_gt_rev l : StronglySorted Z.gt l -> StronglySorted Z.lt (rev l).
Proof.
  induction 1 as [|x l Hs IH Hall]; cbn [rev]; [constructor|].
  assert (Hsnoc : forall l', StronglySorted Z.lt l' -> Forall (fun y => y < x) l' -> StronglySorted Z.lt (l' ++ [x])).
  { induction 1 as [|y l' Hs' IH' Hall']; cbn [app]; intros Hf; [repeat constructor|].
    inversion Hf; subst. constructor; [auto|]. apply Forall_app; split; [exact Hall'|]. constructor; [lia|constructor]. }
  apply Hsnoc; [exact IH|]. apply Forall_rev. eapply Forall_impl; [|exact Hall]. cbn beta. intros; lia.
Qed.

Lemma filter_rev' {A} (p : A -> bool) l : filter p (rev l) = rev (filter p l).
Proof.
  induction l as [|x r IH]; cbn [rev filter]; [reflexivity|].
  rewrite filter_app, IH. cbn [filter]. destruct (p x); cbn [rev]; [reflexivity|apply app_nil_r].
Qed.

Lemma outs_increasing n ls s : prun (pinit n) ls = Some s ->
  increasing (map pseq (filter ordered (rev (outs s)))).
Proof.
  intros Hrun. destruct (pinv_reachable _ _ _ Hrun) as [_ Hord].
  unfold increasing. rewrite filter_rev', map_rev. apply sorted_gt_rev. exact (oo_outs _ _ _ _ Hord).
Qed.

(* ------------------------------------------------------------------------------------------- *)
(* conservation: every ordered event taken is in exactly one place                               *)

Definition places (s : pst) : list pev := outs s ++ dropped s ++ map snd (held s) ++ map fev (stack s).
Definition taken1 (l : plabel) : list pev :=
  match l with PTake e _ => if ordered e then [e] else [] | _ => [] end.
Definition taken (ls : list plabel) : list pev := flat_map taken1 ls.
Notation cnt := (count_occ pev_eq_dec).

Lemma In_taken e ls : In e (taken ls) <-> ordered e = true /\ exists start, In (PTake e start) ls.
Proof.
  unfold taken. rewrite in_flat_map. split.
  - intros [l [Hl He]]. destruct l; cbn [taken1] in He; try contradiction.
    destruct (ordered e0) eqn:Ho; [|contradiction]. destruct He as [<-|[]]. split; [exact Ho|eauto].
  - intros [Ho [start Hin]]. exists (PTake e start). split; [exact Hin|]. cbn [taken1]. rewrite Ho. left; reflexivity.
Qed.

Lemma cnt_unhold h a p x : held_at h a = Some p ->
  cnt (map snd h) x = (cnt [p] x + cnt (map snd (unhold h a)) x)%nat.
Proof.
  induction h as [|[i y] r IH]; cbn [held_at unhold]; [discriminate|].
  destruct (i =? a); intros H.
  - inversion H; subst. cbn [map snd count_occ]. destruct (pev_eq_dec p x); lia.
  - cbn [map snd count_occ]. rewrite (IH H). cbn [count_occ]. destruct (pev_eq_dec y x), (pev_eq_dec p x); lia.
Qed.

Lemma cnt_unordered x e : ordered x = false -> ordered e = true -> cnt [x] e = 0%nat.
Proof. intros Hx He. cbn [count_occ]. destruct (pev_eq_dec x e); [congruence|reflexivity]. Qed.

Lemma cnt_cons x l e : cnt (x :: l) e = (cnt [x] e + cnt l e)%nat.
Proof. cbn [count_occ]. destruct (pev_eq_dec x e); reflexivity. Qed.

Lemma places_step s l s' e : pstep s l = Some s' -> ordered e = true ->
  cnt (places s') e = (cnt (taken1 l) e + cnt (places s) e)%nat.
Proof.
  intros Hstep He. destruct s as [n st h lt o d c]. unfold places.
  destruct l as [e0 start|e0 a busy|e0 next|parent k|e0 idx|e0 idx|e0 a r|e0]; pstep_inv Hstep; bnorm;
    cbn [taken1]; rewrite ?count_occ_app; cbn [map fev].
  - (* PTake time-out *)
    assert (Hu : ordered e0 = false) by (apply unordered_kind; right; assumption).
    rewrite Hu, (cnt_unordered _ _ Hu He). cbn [count_occ]. lia.
  - destruct (ordered e0) eqn:Ho; [cbn [count_occ]; lia|]. rewrite (cnt_unordered _ _ Ho He). cbn [count_occ]. lia.
  - destruct (ordered e0) eqn:Ho; [cbn [count_occ]; lia|]. rewrite (cnt_unordered _ _ Ho He). cbn [count_occ]. lia.
  - (* PDo *) cbn [count_occ]. lia.
  - (* PPropagate *)
    match goal with H : pev_eqb _ _ = true |- _ => apply pev_eqb_eq in H; subst end.
    match goal with H : held_at _ _ = Some _ |- _ => rewrite (cnt_unhold _ _ _ e H) end.
    assert (Hf : fev (if next <? n then {| fev := p; fidx := next; fph := BeforeDo |}
                      else {| fev := p; fidx := next - 1; fph := MustOut |}) = p) by (destruct (next <? n); reflexivity).
    rewrite Hf. rewrite (cnt_cons p (fev f :: map fev l)). cbn [count_occ]. lia.
  - (* PSpawn *) cbn [count_occ]. lia.
  - (* PSkipTo *)
    assert (Hf : fev (if idx <? n then {| fev := fev f; fidx := idx; fph := BeforeDo |}
                      else {| fev := fev f; fidx := idx - 1; fph := MustOut |}) = fev f) by (destruct (idx <? n); reflexivity).
    rewrite Hf. cbn [count_occ]. lia.
  - (* PPush *)
    assert (Hf : fev (if idx <? n then {| fev := e0; fidx := idx; fph := BeforeDo |}
                      else {| fev := e0; fidx := idx - 1; fph := MustOut |}) = e0) by (destruct (idx <? n); reflexivity).
    rewrite Hf. rewrite (cnt_cons e0 (fev f :: map fev l)).
    assert (Hu : ordered e0 = false).
    { apply unordered_kind.
      match goal with H : _ || _ = true |- _ => apply orb_true_iff in H; destruct H as [H|H] end; bnorm; [left|right]; lia. }
    rewrite (cnt_unordered _ _ Hu He). cbn [count_occ]. lia.
  - (* RPass *)
    assert (Hf : fev (after_pass (fev f) a n) = fev f) by (unfold after_pass; destruct (a + 1 <? n); reflexivity).
    rewrite Hf. cbn [count_occ]. lia.
  - (* RCollapse *)
    rewrite (cnt_cons (fev f) (map fev l)).
    destruct (pkind (fev f) =? 3) eqn:Ek; bnorm.
    + rewrite (cnt_unordered (fev f) e); [cbn [count_occ]; lia| apply unordered_kind; right; assumption|assumption].
    + rewrite (cnt_cons (fev f) d). cbn [count_occ]. lia.
  - (* RDiscard *)
    rewrite (cnt_cons (fev f) (map fev l)).
    destruct (pkind (fev f) =? 3) eqn:Ek; bnorm.
    + rewrite (cnt_unordered (fev f) e); [cbn [count_occ]; lia| apply unordered_kind; right; assumption|assumption].
    + rewrite (cnt_cons (fev f) d). cbn [count_occ]. lia.
  - (* RHold *)
    cbn [map snd]. rewrite (cnt_cons (fev f) (map fev l)), (cnt_cons (fev f) (map snd h)). cbn [count_occ]. lia.
  - (* RBreak *) cbn [count_occ]. lia.
  - (* POut *)
    rewrite (cnt_cons (fev f) (map fev l)), (cnt_cons (fev f) o). cbn [count_occ]. lia.
Qed.

Lemma places_run ls : forall s s' e, prun s ls = Some s' -> ordered e = true ->
  cnt (places s') e = (cnt (taken ls) e + cnt (places s) e)%nat.
Proof.
  induction ls as [|l r IH]; intros s s' e Hrun He; cbn [prun] in Hrun.
  - inversion Hrun; subst. reflexivity.
  - destruct (pstep s l) as [s1|] eqn:E; [|discriminate].
    unfold taken; cbn [flat_map]; fold (taken r). rewrite count_occ_app.
    rewrite (IH _ _ _ Hrun He), (places_step _ _ _ _ E He). lia.
Qed.

(* events are taken in increasing seq *)
Lemma taken_step s l s' : pstep s l = Some s' ->
  lasttaken s <= lasttaken s' /\ Forall (fun e => lasttaken s < pseq e <= lasttaken s') (taken1 l).
Proof.
  intros Hstep. destruct s as [n st h lt o d c].
  destruct l as [e0 start|e0 a busy|e0 next|parent k|e0 idx|e0 idx|e0 a r|e0]; pstep_inv Hstep; bnorm;
    cbn [taken1]; try (split; [lia|constructor]).
  - rewrite (unordered_kind e0) by (right; assumption). split; [lia|constructor].
  - split; [lia|]. destruct (ordered e0); repeat constructor; lia.
  - split; [lia|]. destruct (ordered e0); repeat constructor; lia.
Qed.

Lemma taken_run ls : forall s s', prun s ls = Some s' ->
  lasttaken s <= lasttaken s' /\ Forall (fun e => lasttaken s < pseq e <= lasttaken s') (taken ls) /\ NoDup (taken ls).
Proof.
  induction ls as [|l r IH]; intros s s' Hrun; cbn [prun] in Hrun.
  - inversion Hrun; subst. split; [lia|]. split; constructor.
  - destruct (pstep s l) as [s1|] eqn:E; [|discriminate].
    destruct (taken_step _ _ _ E) as [Hle1 Hf1]. destruct (IH _ _ Hrun) as [Hle2 [Hf2 Hnd2]].
    unfold taken; cbn [flat_map]; fold (taken r). split; [lia|]. split.
    + apply Forall_app. split; (eapply Forall_impl; [|eassumption]); intros x Hx; cbn beta in *; lia.
    + destruct l; cbn [taken1 app] in Hf1 |- *; try exact Hnd2.
      destruct (ordered e); cbn [app]; [|exact Hnd2]. constructor; [|exact Hnd2].
      intros Hin. rewrite Forall_forall in Hf2. specialize (Hf2 _ Hin).
      inversion Hf1 as [|? ? Hb _]; subst. lia.
Qed.

Lemma conservation_cnt n ls s : prun (pinit n) ls = Some s ->
  NoDup (taken ls) /\ forall e, ordered e = true -> cnt (places s) e = cnt (taken ls) e.
Proof.
  intros Hrun. split; [apply (taken_run _ _ _ Hrun)|].
  intros e He. rewrite (places_run _ _ _ _ Hrun He). cbn. lia.
Qed.

Lemma conservation n ls s : prun (pinit n) ls = Some s ->
  forall e, ordered e = true ->
    ((exists start, In (PTake e start) ls) -> cnt (places s) e = 1%nat) /\
    (~ (exists start, In (PTake e start) ls) -> ~ In e (places s)).
Proof.
  intros Hrun e He. destruct (conservation_cnt _ _ _ Hrun) as [Hnd Hc]. rewrite (Hc e He). split.
  - intros Hex. assert (Hin : In e (taken ls)) by (apply In_taken; auto).
    pose proof (proj1 (NoDup_count_occ pev_eq_dec _) Hnd e). apply (count_occ_In pev_eq_dec) in Hin. lia.
  - intros Hno Hin. apply (count_occ_In pev_eq_dec) in Hin. rewrite (Hc e He) in Hin.
    apply (count_occ_In pev_eq_dec) in Hin. apply In_taken in Hin. tauto.
Qed.

Lemma conservation_perm n ls s : prun (pinit n) ls = Some s ->
  Permutation (filter ordered (places s)) (taken ls).
Proof.
  intros Hrun. destruct (conservation_cnt _ _ _ Hrun) as [_ Hc].
  apply (Permutation_count_occ pev_eq_dec). intros x. destruct (ordered x) eqn:Hx.
  - rewrite <- (Hc x Hx). clear Hc. induction (places s) as [|y r IH]; [reflexivity|].
    cbn [filter]. destruct (ordered y) eqn:Hy; cbn [count_occ].
    + destruct (pev_eq_dec y x); lia.
    + destruct (pev_eq_dec y x); [congruence|exact IH].
  - transitivity 0%nat; [|symmetry]; apply count_occ_not_In.
    + intros Hin. apply filter_In in Hin. destruct Hin; congruence.
    + intros Hin. apply In_taken in Hin. destruct Hin; congruence.
Qed.

(* ------------------------------------------------------------------------------------------- *)
(* an event leaves only when nothing is held                                                     *)

Lemma held_nil_after_out n ls e s : prun (pinit n) (ls ++ [POut e]) = Some s -> held s = [].
Proof.
  rewrite prun_app. destruct (prun (pinit n) ls) as [s1|] eqn:E1; [|discriminate].
  cbn [prun]. destruct (pstep s1 (POut e)) as [s2|] eqn:E2; [|discriminate]. intros H; inversion H; subst s2.
  destruct (struct_reachable _ _ _ E1) as [_ _ Hfr _].
  destruct s1 as [n1 st h lt o d c]. proj_simpl. pstep_inv E2.
  inversion Hfr as [|? ? [_ Hf] _]; subst. auto.
Qed.

(* ------------------------------------------------------------------------------------------- *)
(* time-outs enter the chain at a holder                                                         *)

Lemma timeout_take s e start s' : pstep s (PTake e start) = Some s' -> pkind e = 3 ->
  held_at (held s) start <> None /\ (forall j y, In (j, y) (held s) -> start <= j) /\
  stack s' = [{| fev := e; fidx := start; fph := BeforeDo |}] /\ held s' = held s.
Proof.
  intros Hstep Hk. destruct s as [n st h lt o d c]. pstep_inv Hstep; bnorm; try lia.
  repeat split; [congruence|]. apply none_left; assumption.
Qed.

Lemma timeout_push s e idx s' : pstep s (PPush e idx) = Some s' -> pkind e = 3 ->
  held_at (held s) idx <> None /\ (forall j y, In (j, y) (held s) -> idx <= j) /\ held s' = held s.
Proof.
  intros Hstep Hk. destruct s as [n st h lt o d c]. pstep_inv Hstep; bnorm.
  match goal with H : _ || _ = true |- _ => apply orb_true_iff in H; destruct H as [H|H] end; bnorm; [lia|].
  repeat split; [|apply none_left; assumption]. destruct (held_at h idx); [discriminate|discriminate].
Qed.

Lemma timeout_take_do s e start s1 e' a busy s2 :
  pstep s (PTake e start) = Some s1 -> pkind e = 3 -> pstep s1 (PDo e' a busy) = Some s2 ->
  e' = e /\ a = start /\ busy = true.
Proof.
  intros H1 Hk H2. destruct (timeout_take _ _ _ _ H1 Hk) as [Hh [_ [Hs Hheld]]].
  destruct s1 as [n st h lt o d c]. proj_simpl. subst st. pstep_inv H2; bnorm.
  match goal with H : pev_eqb _ _ = true |- _ => apply pev_eqb_eq in H end. subst.
  repeat split; auto. destruct (held_at (held s) start); [reflexivity|congruence].
Qed.

Lemma timeout_push_do s e idx s1 e' a busy s2 :
  pstep s (PPush e idx) = Some s1 -> pkind e = 3 -> pstep s1 (PDo e' a busy) = Some s2 ->
  e' = e /\ a = idx /\ busy = true.
Proof.
  intros H1 Hk H2. destruct (timeout_push _ _ _ _ H1 Hk) as [Hh [_ Hheld]].
  destruct s as [n st h lt o d c]. pstep_inv H1. proj_simpl. subst.
  destruct (idx <? n); pstep_inv H2; bnorm.
  match goal with H : pev_eqb _ _ = true |- _ => apply pev_eqb_eq in H end. subst.
  repeat split; auto. destruct (held_at h idx); [reflexivity|congruence].
Qed.

(* ------------------------------------------------------------------------------------------- *)
(* the model without P5 (the PPush guard as it was before this development): ordering fails       *)

Definition pstep_noP5 (s : pst) (l : plabel) : option pst :=
  match l with
  | PPush e idx =>
      if pcrashed s then None else
      match stack s with
      | f :: r =>
          match fph f with
          | InDo =>
              if (pkind e =? 1) || ((pkind e =? 3) && match held_at (held s) idx with Some _ => true | None => false end)
              then Some (set_stack s ((if idx <? nact s then {| fev := e; fidx := idx; fph := BeforeDo |}
                                       else {| fev := e; fidx := idx - 1; fph := MustOut |}) :: f :: r))
              else None
          | _ => None
          end
      | [] => None
      end
  | _ => pstep s l
  end.

Fixpoint prun_noP5 (s : pst) (ls : list plabel) : option pst :=
  match ls with
  | [] => Some s
  | l :: r => match pstep_noP5 s l with Some s' => prun_noP5 s' r | None => None end
  end.

(* P5 only strengthens the guard *)
Lemma pstep_noP5_weaker s l s' : pstep s l = Some s' -> pstep_noP5 s l = Some s'.
Proof.
  destruct l; cbn [pstep_noP5]; auto. intros H. destruct s as [n st h lt o d c]. pstep_inv H; bnorm.
  match goal with H : _ || _ = true |- _ => apply orb_true_iff in H; destruct H as [H|H] end; bnorm.
  - match goal with H : pkind _ = 1 |- _ => rewrite H end. reflexivity.
  - match goal with H : pkind _ = 3 |- _ => rewrite H end.
    match goal with H : match ?x with _ => _ end = true |- _ => rewrite H end. reflexivity.
Qed.

Definition ev (q k : Z) : pev := {| pseq := q; pkind := k |}.

(* a child entered LEFT of the spawning action flushes a newer event past an older one that is
   inside a Do (3 actions; e1 held at 1, e2 held at 0; e3's child flushes e1, e1's child flushes e2) *)
Definition w_child_left : list plabel :=
  [PTake (ev 1 0) 0; PDo (ev 1 0) 0 false; PResult (ev 1 0) 0 RPass; PDo (ev 1 0) 1 false; PResult (ev 1 0) 1 RHold;
   PTake (ev 2 0) 0; PDo (ev 2 0) 0 false; PResult (ev 2 0) 0 RHold;
   PTake (ev 3 0) 0; PDo (ev 3 0) 0 true; PPush (ev 0 1) 1; PDo (ev 0 1) 1 true; PPropagate (ev 1 0) 2;
   PDo (ev 1 0) 2 false; PPush (ev 0 1) 0; PDo (ev 0 1) 0 true; PPropagate (ev 2 0) 1;
   PDo (ev 2 0) 1 false; PResult (ev 2 0) 1 RPass; PDo (ev 2 0) 2 false; PResult (ev 2 0) 2 RPass; POut (ev 2 0);
   PResult (ev 0 1) 0 RDiscard; PResult (ev 1 0) 2 RPass; POut (ev 1 0)].

(* a Spawn time-out delivered PAST a holder (to action 1 while action 0 holds the newer e2) *)
Definition w_timeout_past : list plabel :=
  [PTake (ev 1 0) 0; PDo (ev 1 0) 0 false; PResult (ev 1 0) 0 RPass; PDo (ev 1 0) 1 false; PResult (ev 1 0) 1 RHold;
   PTake (ev 2 0) 0; PDo (ev 2 0) 0 false; PResult (ev 2 0) 0 RHold;
   PTake (ev 3 0) 0; PDo (ev 3 0) 0 true; PPush (ev 0 3) 1; PDo (ev 0 3) 1 true; PPropagate (ev 1 0) 2;
   PDo (ev 1 0) 2 false; PPush (ev 0 3) 0; PDo (ev 0 3) 0 true; PPropagate (ev 2 0) 1;
   PDo (ev 2 0) 1 false; PResult (ev 2 0) 1 RPass; PDo (ev 2 0) 2 false; PResult (ev 2 0) 2 RPass; POut (ev 2 0);
   PResult (ev 0 3) 0 RDiscard; PResult (ev 1 0) 2 RPass; POut (ev 1 0)].

Lemma not_increasing_21 : ~ increasing [2; 1].
Proof. intros H. inversion H as [|? ? _ Hf]; subst. inversion Hf; subst. lia. Qed.

Lemma outs_increasing_noP5_refuted :
  exists n ls s, prun_noP5 (pinit n) ls = Some s /\ ~ increasing (map pseq (filter ordered (rev (outs s)))).
Proof.
  exists 3, w_child_left.
  destruct (prun_noP5 (pinit 3) w_child_left) as [s|] eqn:E; [|vm_compute in E; discriminate].
  exists s. split; [reflexivity|]. vm_compute in E. inversion E; subst s. cbn. exact not_increasing_21.
Qed.

Lemma outs_increasing_noP5_timeout_refuted :
  exists n ls s, prun_noP5 (pinit n) ls = Some s /\ ~ increasing (map pseq (filter ordered (rev (outs s)))).
Proof.
  exists 3, w_timeout_past.
  destruct (prun_noP5 (pinit 3) w_timeout_past) as [s|] eqn:E; [|vm_compute in E; discriminate].
  exists s. split; [reflexivity|]. vm_compute in E. inversion E; subst s. cbn. exact not_increasing_21.
Qed.

(* without P5 an event can also leave the processor while an action still holds one *)
Definition w_held_after_out : list plabel :=
  [PTake (ev 1 0) 0; PDo (ev 1 0) 0 false; PResult (ev 1 0) 0 RPass; PDo (ev 1 0) 1 false;
   PPush (ev 0 1) 0; PDo (ev 0 1) 0 false; PResult (ev 0 1) 0 RHold; PResult (ev 1 0) 1 RPass; POut (ev 1 0)].

Lemma held_nil_after_out_noP5_refuted :
  exists n ls e s, prun_noP5 (pinit n) (ls ++ [POut e]) = Some s /\ stack s = [] /\ held s <> [].
Proof.
  exists 2, (removelast w_held_after_out), (ev 1 0).
  destruct (prun_noP5 (pinit 2) (removelast w_held_after_out ++ [POut (ev 1 0)])) as [s|] eqn:E; [|vm_compute in E; discriminate].
  exists s. split; [reflexivity|]. vm_compute in E. inversion E; subst s. cbn. split; [reflexivity|discriminate].
Qed.

(* the general reading "every Do of a time-out is at a busy action" is false of the model: after
   flushing, the time-out may itself pass on to the next action *)
Definition w_timeout_passes : list plabel :=
  [PTake (ev 1 0) 0; PDo (ev 1 0) 0 false; PResult (ev 1 0) 0 RHold;
   PTake (ev 0 3) 0; PDo (ev 0 3) 0 true; PPropagate (ev 1 0) 1; PDo (ev 1 0) 1 false; PResult (ev 1 0) 1 RPass;
   POut (ev 1 0); PResult (ev 0 3) 0 RPass].

Lemma timeout_do_busy_refuted :
  exists n ls s e a s', prun (pinit n) ls = Some s /\ pkind e = 3 /\ pstep s (PDo e a false) = Some s'.
Proof.
  exists 2, w_timeout_passes.
  destruct (prun (pinit 2) w_timeout_passes) as [s|] eqn:E; [|vm_compute in E; discriminate].
  exists s, (ev 0 3), 1.
  destruct (pstep s (PDo (ev 0 3) 1 false)) as [s'|] eqn:E2.
  - exists s'. auto.
  - exfalso. vm_compute in E. inversion E; subst s. vm_compute in E2. discriminate.
Qed.

(* ------------------------------------------------------------------------------------------- *)
(* the model without P6 (PSkipTo without the no-holder guard: a busy action's match conditions     *)
(* would be consulted and a non-matching event would bypass the holder): ordering fails           *)

Definition pstep_noP6 (s : pst) (l : plabel) : option pst :=
  match l with
  | PSkipTo e idx =>
      if pcrashed s then None else
      match stack s with
      | f :: r =>
          match fph f with
          | BeforeDo =>
              if pev_eqb e (fev f) && (fidx f <? idx) && (idx <=? nact s) && negb (pkind e =? 3)
              then Some (set_stack s ((if idx <? nact s then {| fev := fev f; fidx := idx; fph := BeforeDo |}
                                       else {| fev := fev f; fidx := idx - 1; fph := MustOut |}) :: r))
              else None
          | _ => None
          end
      | [] => None
      end
  | _ => pstep s l
  end.

Fixpoint prun_noP6 (s : pst) (ls : list plabel) : option pst :=
  match ls with
  | [] => Some s
  | l :: r => match pstep_noP6 s l with Some s' => prun_noP6 s' r | None => None end
  end.

Lemma pstep_noP6_weaker s l s' : pstep s l = Some s' -> pstep_noP6 s l = Some s'.
Proof.
  destruct l; cbn [pstep_noP6]; auto. intros H. destruct s as [n st h lt o d c]. pstep_inv H.
  match goal with H : _ && negb (existsb _ _) = true |- _ => apply andb_true_iff in H; destruct H as [H _]; rewrite H end.
  reflexivity.
Qed.

(* 2 actions; action 1 holds e1; e2 matches neither action and skips both, the holder included:
   it is out before e1, which the next event e3 flushes *)
Definition w_skip_holder : list plabel :=
  [PTake (ev 1 0) 0; PDo (ev 1 0) 0 false; PResult (ev 1 0) 0 RPass; PDo (ev 1 0) 1 false; PResult (ev 1 0) 1 RHold;
   PTake (ev 2 0) 0; PSkipTo (ev 2 0) 2; POut (ev 2 0);
   PTake (ev 3 0) 0; PDo (ev 3 0) 0 false; PResult (ev 3 0) 0 RPass; PDo (ev 3 0) 1 true; PPropagate (ev 1 0) 2; POut (ev 1 0)].

Lemma outs_increasing_noP6_refuted :
  exists n ls s, prun_noP6 (pinit n) ls = Some s /\ ~ increasing (map pseq (filter ordered (rev (outs s)))).
Proof.
  exists 2, w_skip_holder.
  destruct (prun_noP6 (pinit 2) w_skip_holder) as [s|] eqn:E; [|vm_compute in E; discriminate].
  exists s. split; [reflexivity|]. vm_compute in E. inversion E; subst s. cbn. exact not_increasing_21.
Qed.

(* ... and an event leaves the processor while an action holds one *)
Lemma held_nil_after_out_noP6_refuted :
  exists n ls e s, prun_noP6 (pinit n) (ls ++ [POut e]) = Some s /\ stack s = [] /\ held s <> [].
Proof.
  exists 2, (firstn 7 w_skip_holder), (ev 2 0).
  destruct (prun_noP6 (pinit 2) (firstn 7 w_skip_holder ++ [POut (ev 2 0)])) as [s|] eqn:E; [|vm_compute in E; discriminate].
  exists s. split; [reflexivity|]. vm_compute in E. inversion E; subst s. cbn. split; [reflexivity|discriminate].
Qed.
