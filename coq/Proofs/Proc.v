(* Proofs about Model/Proc.v: one processor working on one stream (processEvent / doActions /
   Propagate / Spawn as a stack machine, actions arbitrary up to the protocol P1-P5).
   Main result: ordered events (regular, child-parent) leave towards the output in the order they
   were read, whatever the actions do.  Final named statements: Proofs/ProcTheorems.v. *)
From Verif Require Import Base.Sx Model.Proc.
From Coq Require Import Lia ZifyBool Bool List ZArith Sorted Permutation.
Import ListNotations.
Local Open Scope Z_scope.

Definition ordered (e : pev) : bool := (pkind e =? 0) || (pkind e =? 2).
Definition increasing (l : list Z) : Prop := StronglySorted Z.lt l.

(* ------------------------------------------------------------------------------------------- *)
(* generic                                                                                       *)

Lemma prun_invariant (P : pst -> Prop) :
  (forall s l s', P s -> pstep s l = Some s' -> P s') ->
  forall ls s s', P s -> prun s ls = Some s' -> P s'.
Proof.
  intros Hstep ls. induction ls as [|l r IH]; intros s s' Hs Hr; cbn [prun] in Hr.
  - inversion Hr; subst; exact Hs.
  - destruct (pstep s l) as [s1|] eqn:E; [|discriminate]. eapply IH; [eapply Hstep; eauto|exact Hr].
Qed.

Lemma prun_app s a b : prun s (a ++ b) = match prun s a with Some s' => prun s' b | None => None end.
Proof.
  revert s; induction a as [|l r IH]; intros s; cbn [prun app]; [reflexivity|].
  destruct (pstep s l); [apply IH|reflexivity].
Qed.

Ltac bnorm :=
  repeat match goal with
  | H : _ && _ = true |- _ => apply andb_true_iff in H; destruct H
  | H : _ || _ = false |- _ => apply orb_false_iff in H; destruct H
  | H : negb _ = true |- _ => apply negb_true_iff in H
  | H : negb _ = false |- _ => apply negb_false_iff in H
  | H : (_ =? _) = true |- _ => apply Z.eqb_eq in H
  | H : (_ =? _) = false |- _ => apply Z.eqb_neq in H
  | H : (_ <? _) = true |- _ => apply Z.ltb_lt in H
  | H : (_ <? _) = false |- _ => apply Z.ltb_ge in H
  | H : Bool.eqb _ _ = true |- _ => apply Bool.eqb_prop in H
  end.

Ltac step_split H :=
  repeat match type of H with
  | match ?x with _ => _ end = Some _ => destruct x eqn:?; try discriminate H
  end.

Ltac proj_simpl :=
  unfold set_stack, set_held in *; cbn [nact stack held lasttaken outs dropped pcrashed fev fidx fph] in *.

(* after [pstep_inv H] (the pre-state must be an explicit record) the post-state is explicit and
   every guard is a hypothesis; the boolean guards are left as they are ([bnorm] splits them) *)
Ltac pstep_inv H :=
  unfold pstep in H; proj_simpl; step_split H; injection H as H; subst; proj_simpl.

Lemma pev_eqb_eq x y : pev_eqb x y = true -> x = y.
Proof.
  unfold pev_eqb; destruct x as [a b], y as [c d]; cbn [pseq pkind]; intros H; bnorm. subst; reflexivity.
Qed.

Definition pev_eq_dec (x y : pev) : {x = y} + {x <> y}.
Proof. decide equality; apply Z.eq_dec. Defined.

(* ------------------------------------------------------------------------------------------- *)
(* held lists                                                                                    *)

Lemma held_at_In h a e : held_at h a = Some e -> In (a, e) h.
Proof.
  induction h as [|[i x] r IH]; cbn [held_at]; [discriminate|].
  destruct (i =? a) eqn:E; intros H.
  - inversion H; subst. bnorm; subst. left; reflexivity.
  - right; auto.
Qed.

Lemma held_at_None h a : held_at h a = None -> forall e, ~ In (a, e) h.
Proof.
  induction h as [|[i x] r IH]; cbn [held_at]; intros H e; [intros []|].
  destruct (i =? a) eqn:E; [discriminate|]. intros [Heq|Hin].
  - inversion Heq; subst. bnorm; lia.
  - exact (IH H e Hin).
Qed.

Lemma unhold_In h a p : In p (unhold h a) -> In p h.
Proof.
  induction h as [|[i x] r IH]; cbn [unhold]; [tauto|].
  destruct (i =? a); cbn [In]; tauto.
Qed.

Lemma unhold_nodup h a : NoDup (map fst h) -> NoDup (map fst (unhold h a)).
Proof.
  induction h as [|[i x] r IH]; cbn [unhold map fst]; intros H; [constructor|].
  inversion H as [|? ? Hni Hnd]; subst. destruct (i =? a); [exact Hnd|].
  cbn [map fst]. constructor; [|auto].
  intros Hin. apply Hni. apply in_map_iff in Hin as [p [Hp Hin]]. apply in_map_iff. exists p; split; [exact Hp|].
  eapply unhold_In; eauto.
Qed.

Lemma unhold_neq h a j y : NoDup (map fst h) -> In (j, y) (unhold h a) -> j <> a.
Proof.
  induction h as [|[i x] r IH]; cbn [unhold map fst]; intros Hnd Hin; [destruct Hin|].
  inversion Hnd as [|? ? Hni Hnd']; subst. destruct (i =? a) eqn:E; bnorm.
  - subst. intros ->. apply Hni. apply in_map_iff. exists (a, y); split; [reflexivity|exact Hin].
  - destruct Hin as [Heq|Hin]; [inversion Heq; subst; exact E|auto].
Qed.

Lemma none_left h idx :
  existsb (fun p : Z * pev => fst p <? idx) h = false -> forall j y, In (j, y) h -> idx <= j.
Proof.
  intros H j y Hin. destruct (Z_lt_le_dec j idx) as [Hlt|]; [|assumption].
  assert (Hex : existsb (fun p : Z * pev => fst p <? idx) h = true).
  { apply existsb_exists. exists (j, y); split; [exact Hin|]. cbn [fst]. lia. }
  congruence.
Qed.

Lemma none_after h a : holds_after h a = false -> forall j y, In (j, y) h -> j <= a.
Proof.
  unfold holds_after. intros H j y Hin. destruct (Z_lt_le_dec a j) as [Hlt|]; [|assumption].
  assert (Hex : existsb (fun p : Z * pev => a <? fst p) h = true).
  { apply existsb_exists. exists (j, y); split; [exact Hin|]. cbn [fst]. lia. }
  congruence.
Qed.

(* ------------------------------------------------------------------------------------------- *)
(* structural invariant: where frames and holders can be                                         *)

(* a frame that still has actions to run sits at or left of every holder; an event that is about
   to leave (MustOut) exists only when nothing is held at all *)
Definition frame_ok (n : Z) (h : list (Z * pev)) (f : frame) : Prop :=
  (fph f <> MustOut -> 0 <= fidx f < n /\ forall j y, In (j, y) h -> fidx f <= j) /\
  (fph f = MustOut -> h = []).

(* every frame below the head is inside a Do, at or left of the frame above it *)
Fixpoint stack_ok (st : list frame) : Prop :=
  match st with
  | [] => True
  | f :: r => Forall (fun g => fph g = InDo /\ (fph f <> MustOut -> fidx g <= fidx f)) r /\ stack_ok r
  end.

Record struct_ok (s : pst) : Prop := {
  so_range : forall j y, In (j, y) (held s) -> 0 <= j < nact s;
  so_nodup : NoDup (map fst (held s));
  so_frames : Forall (frame_ok (nact s) (held s)) (stack s);
  so_stack : stack_ok (stack s)
}.

Lemma frame_ok_sub n h h' f :
  (forall p, In p h' -> In p h) -> (h = [] -> h' = []) -> frame_ok n h f -> frame_ok n h' f.
Proof.
  intros Hsub Hnil [H1 H2]. split.
  - intros Hp. destruct (H1 Hp) as [Hr Hj]. split; [exact Hr|]. intros j y Hin. eapply Hj, Hsub, Hin.
  - intros Hp. auto.
Qed.

Lemma unhold_nil_in h a : (forall p, In p (unhold h a) -> In p h) /\ (h = [] -> unhold h a = []).
Proof. split; [intros p; apply unhold_In|intros ->; reflexivity]. Qed.

Lemma stack_ok_below f r : stack_ok (f :: r) -> fph f <> MustOut ->
  Forall (fun g => fph g = InDo /\ fidx g <= fidx f) r.
Proof.
  cbn [stack_ok]. intros [H _] Hp. eapply Forall_impl; [|exact H]. cbn beta. intros g [Hg Hi]. auto.
Qed.

(* replace the head by a frame that is further right (or leaving) *)
Lemma stack_ok_head f f' r : stack_ok (f :: r) -> fph f <> MustOut -> fidx f <= fidx f' -> stack_ok (f' :: r).
Proof.
  cbn [stack_ok]. intros [H Hr] Hp Hle. split; [|exact Hr].
  eapply Forall_impl; [|exact H]. cbn beta. intros g [Hg Hi]. split; [exact Hg|]. intros _. specialize (Hi Hp). lia.
Qed.

(* push a frame on top of a head that is inside its Do *)
Lemma stack_ok_push f' f r : stack_ok (f :: r) -> fph f = InDo -> (fph f' <> MustOut -> fidx f <= fidx f') ->
  stack_ok (f' :: f :: r).
Proof.
  intros Hok Hp Hle. cbn [stack_ok]. split; [|exact Hok].
  constructor; [split; assumption|].
  assert (Hne : fph f <> MustOut) by congruence.
  pose proof (stack_ok_below _ _ Hok Hne) as Hb.
  eapply Forall_impl; [|exact Hb]. cbn beta. intros g [Hg Hi]. split; [exact Hg|]. intros Hm. specialize (Hle Hm). lia.
Qed.

Lemma stack_ok_tail f r : stack_ok (f :: r) -> stack_ok r.
Proof. cbn [stack_ok]. tauto. Qed.

Lemma struct_init n : struct_ok (pinit n).
Proof. split; cbn; [intros ? ? []|constructor|constructor|exact I]. Qed.

Lemma struct_step s l s' : struct_ok s -> pstep s l = Some s' -> struct_ok s'.
Proof.
  intros [Hrange Hnd Hfr Hst] Hstep.
  destruct s as [n st h lt o d c]. proj_simpl.
  destruct l as [e start|e a busy|e next|parent k|e idx|e a r|e]; pstep_inv Hstep; bnorm.
  - (* PTake time-out *)
    split; proj_simpl; auto.
    + constructor; [|constructor]. split; cbn [fph fidx]; [intros _|discriminate].
      match goal with H : held_at _ _ = Some _ |- _ => apply held_at_In in H; pose proof (Hrange _ _ H) end.
      split; [lia|]. apply none_left; assumption.
    + cbn. auto.
  - (* PTake, some action *)
    split; proj_simpl; auto.
    + constructor; [|constructor]. split; cbn [fph fidx]; [intros _|discriminate].
      split; [lia|]. intros j y Hin. apply Hrange in Hin. lia.
    + cbn. auto.
  - (* PTake, no action *)
    split; proj_simpl; auto.
    + constructor; [|constructor]. split; cbn [fph fidx]; [intros Hc; congruence|intros _].
      destruct h as [|[j y] h']; [reflexivity|]. specialize (Hrange j y (or_introl eq_refl)). lia.
    + cbn. auto.
  - (* PDo *)
    inversion Hfr as [|? ? Hf Hfr']; subst.
    split; proj_simpl; auto.
    + constructor; [|exact Hfr']. destruct Hf as [Hf1 Hf2]. split; cbn [fph fidx]; [intros _|discriminate].
      apply Hf1. congruence.
    + eapply stack_ok_head; [exact Hst|congruence|cbn [fidx]; lia].
  - (* PPropagate *)
    inversion Hfr as [|? ? Hf Hfr']; subst.
    match goal with H : held_at _ _ = Some _ |- _ => pose proof (held_at_In _ _ _ H) as Hheld end.
    assert (Hne : fph f <> MustOut) by congruence.
    destruct Hf as [Hf1 _]. destruct (Hf1 Hne) as [Hfr0 Hfj].
    assert (Hnew : forall j y, In (j, y) (unhold h (next - 1)) -> next <= j).
    { intros j y Hin. pose proof (unhold_neq _ _ _ _ Hnd Hin). apply unhold_In in Hin. apply Hfj in Hin. lia. }
    split; proj_simpl.
    + intros j y Hin. apply unhold_In in Hin. eauto.
    + apply unhold_nodup; assumption.
    + constructor.
      * destruct (next <? n) eqn:En; bnorm; split; cbn [fph fidx]; try discriminate; try congruence.
        -- intros _. split; [lia|exact Hnew].
        -- intros _. destruct (unhold h (next - 1)) as [|[j y] h'] eqn:Eu; [reflexivity|].
           specialize (Hnew j y (or_introl eq_refl)). apply Hrange in Hheld.
           assert (In (j, y) h) by (eapply unhold_In; rewrite Eu; left; reflexivity).
           match goal with H : In (j, y) h |- _ => apply Hrange in H end. lia.
      * destruct (unhold_nil_in h (next - 1)) as [Hs1 Hs2].
        eapply Forall_impl; [|exact Hfr]. intros g. apply frame_ok_sub; assumption.
    + apply stack_ok_push; [exact Hst|assumption|].
      destruct (next <? n); cbn [fph fidx]; [intros _; lia|congruence].
  - (* PSpawn *)
    split; proj_simpl; auto.
  - (* PPush *)
    inversion Hfr as [|? ? Hf Hfr']; subst.
    assert (Hne : fph f <> MustOut) by congruence.
    destruct Hf as [Hf1 _]. destruct (Hf1 Hne) as [Hfr0 Hfj].
    match goal with H : existsb _ _ = false |- _ => pose proof (none_left _ _ H) as Hleft end.
    assert (Hidx : fidx f <= idx /\ (idx < n -> 0 <= idx)).
    { match goal with H : _ || _ = true |- _ => apply orb_true_iff in H; destruct H as [H|H] end; bnorm.
      - lia.
      - destruct (held_at h idx) as [y|] eqn:Eh; [|discriminate]. apply held_at_In in Eh.
        pose proof (Hfj _ _ Eh). lia. }
    split; proj_simpl; auto.
    + constructor; [|exact Hfr].
      destruct (idx <? n) eqn:En; bnorm; split; cbn [fph fidx]; try discriminate; try congruence.
      * intros _. split; [lia|exact Hleft].
      * intros _. destruct h as [|[j y] h']; [reflexivity|].
        pose proof (Hleft j y (or_introl eq_refl)). specialize (Hrange j y (or_introl eq_refl)). lia.
    + apply stack_ok_push; [exact Hst|assumption|].
      destruct (idx <? n); cbn [fph fidx]; [intros _; lia|congruence].
  - (* PResult RPass *)
    inversion Hfr as [|? ? Hf Hfr']; subst.
    assert (Hne : fph f <> MustOut) by congruence.
    destruct Hf as [Hf1 _]. destruct (Hf1 Hne) as [Hfr0 Hfj].
    assert (Hnone : forall y, ~ In (fidx f, y) h).
    { destruct (held_at h (fidx f)) eqn:Eh; [discriminate|]. apply held_at_None; assumption. }
    assert (Hnew : forall j y, In (j, y) h -> fidx f + 1 <= j).
    { intros j y Hin. pose proof (Hfj _ _ Hin). assert (j <> fidx f) by (intros ->; eapply Hnone; eauto). lia. }
    split; proj_simpl; auto.
    + constructor; [|exact Hfr']. unfold after_pass.
      destruct (fidx f + 1 <? n) eqn:En; bnorm; split; cbn [fph fidx]; try discriminate; try congruence.
      * intros _. split; [lia|exact Hnew].
      * intros _. destruct h as [|[j y] h']; [reflexivity|].
        pose proof (Hnew j y (or_introl eq_refl)). specialize (Hrange j y (or_introl eq_refl)). lia.
    + eapply stack_ok_head; [exact Hst|congruence|]. unfold after_pass. destruct (fidx f + 1 <? n); cbn [fidx]; lia.
  - (* PResult RCollapse *)
    inversion Hfr as [|? ? Hf Hfr']; subst.
    split; proj_simpl; auto. eapply stack_ok_tail; eauto.
  - (* PResult RDiscard *)
    inversion Hfr as [|? ? Hf Hfr']; subst.
    split; proj_simpl; auto. eapply stack_ok_tail; eauto.
  - (* PResult RHold *)
    inversion Hfr as [|? ? Hf Hfr']; subst.
    assert (Hne : fph f <> MustOut) by congruence.
    destruct Hf as [Hf1 _]. destruct (Hf1 Hne) as [Hfr0 Hfj].
    assert (Hnone : forall y, ~ In (fidx f, y) h).
    { destruct (held_at h (fidx f)) eqn:Eh; [discriminate|]. apply held_at_None; assumption. }
    pose proof (stack_ok_below _ _ Hst Hne) as Hb.
    split; proj_simpl.
    + intros j y [Heq|Hin]; [inversion Heq; subst; lia|eauto].
    + cbn [map fst]. constructor; [|exact Hnd]. intros Hin. apply in_map_iff in Hin as [[j y] [Hj Hin]].
      cbn [fst] in Hj; subst j. eapply Hnone; eauto.
    + rewrite Forall_forall in Hfr', Hb |- *. intros g Hg. destruct (Hb g Hg) as [Hgp Hgi].
      destruct (Hfr' g Hg) as [Hg1 _]. split; [|congruence].
      intros Hgn. destruct (Hg1 Hgn) as [Hgr Hgj]. split; [exact Hgr|].
      intros j y [Heq|Hin]; [inversion Heq; subst; lia|eauto].
    + eapply stack_ok_tail; eauto.
  - (* PResult RBreak *)
    inversion Hfr as [|? ? Hf Hfr']; subst.
    assert (Hne : fph f <> MustOut) by congruence.
    destruct Hf as [Hf1 _]. destruct (Hf1 Hne) as [Hfr0 Hfj].
    assert (Hnone : forall y, ~ In (fidx f, y) h).
    { destruct (held_at h (fidx f)) eqn:Eh; [discriminate|]. apply held_at_None; assumption. }
    match goal with H : holds_after _ _ = false |- _ => pose proof (none_after _ _ H) as Haft end.
    split; proj_simpl; auto.
    + constructor; [|exact Hfr']. split; cbn [fph fidx]; [congruence|intros _].
      destruct h as [|[j y] h']; [reflexivity|].
      pose proof (Haft j y (or_introl eq_refl)). pose proof (Hfj j y (or_introl eq_refl)).
      assert (j = fidx f) by lia. subst j. exfalso. eapply Hnone. left; reflexivity.
    + eapply stack_ok_head; [exact Hst|congruence|cbn [fidx]; lia].
  - (* POut *)
    inversion Hfr as [|? ? Hf Hfr']; subst.
    split; proj_simpl; auto. eapply stack_ok_tail; eauto.
Qed.

Lemma struct_reachable n ls s : prun (pinit n) ls = Some s -> struct_ok s.
Proof. apply (prun_invariant struct_ok); [intros; eapply struct_step; eauto|apply struct_init]. Qed.

(* ------------------------------------------------------------------------------------------- *)
(* ordering invariant                                                                            *)

Definition oseqs (l : list pev) : list Z := map pseq (filter ordered l).

Lemma oseqs_cons x l : oseqs (x :: l) = if ordered x then pseq x :: oseqs l else oseqs l.
Proof. unfold oseqs; cbn [filter]. destruct (ordered x); reflexivity. Qed.

Lemma Forall_oseqs (P : Z -> Prop) l :
  Forall P (oseqs l) <-> forall x, In x l -> ordered x = true -> P (pseq x).
Proof.
  unfold oseqs. rewrite Forall_forall. split.
  - intros H x Hin Ho. apply H. apply in_map. apply filter_In. auto.
  - intros H z Hz. apply in_map_iff in Hz as [x [<- Hx]]. apply filter_In in Hx as [Hin Ho]. auto.
Qed.

(* es = events of the stack frames, head first; h = held pairs; o = outs (newest first);
   lt = seq of the last event taken.
   All ordered events held are older than all ordered events on the stack; among the held ones the
   older is further right; on the stack the older is nearer the head; whatever is already out is
   older than everything still inside. *)
Record ord_ok (es : list pev) (h : list (Z * pev)) (o : list pev) (lt : Z) : Prop := {
  oo_held : forall i x j y, In (i, x) h -> In (j, y) h -> ordered x = true -> ordered y = true ->
                            i < j -> pseq y < pseq x;
  oo_stack : StronglySorted Z.lt (oseqs es);
  oo_held_stack : forall j y x, In (j, y) h -> In x es -> ordered y = true -> ordered x = true ->
                                pseq y < pseq x;
  oo_outs_held : forall z j y, In z o -> In (j, y) h -> ordered z = true -> ordered y = true ->
                               pseq z < pseq y;
  oo_outs_stack : forall z x, In z o -> In x es -> ordered z = true -> ordered x = true -> pseq z < pseq x;
  oo_outs : StronglySorted Z.gt (oseqs o);
  oo_lt_outs : forall x, In x o -> ordered x = true -> pseq x <= lt;
  oo_lt_stack : forall x, In x es -> ordered x = true -> pseq x <= lt;
  oo_lt_held : forall j y, In (j, y) h -> ordered y = true -> pseq y <= lt
}.

Lemma ord_push_unordered e es h o lt : ordered e = false -> ord_ok es h o lt -> ord_ok (e :: es) h o lt.
Proof.
  intros He [H1 H2 H3 H4 H5 H6 H7 H8 H9]. split; auto.
  - rewrite oseqs_cons, He. exact H2.
  - intros j y x Hy [<-|Hx] Hoy Hox; [congruence|eauto].
  - intros z x Hz [<-|Hx] Hoz Hox; [congruence|eauto].
  - intros x [<-|Hx] Hox; [congruence|eauto].
Qed.

Lemma ord_pop x es h o lt : ord_ok (x :: es) h o lt -> ord_ok es h o lt.
Proof.
  intros [H1 H2 H3 H4 H5 H6 H7 H8 H9]. split; auto.
  - rewrite oseqs_cons in H2. destruct (ordered x); [inversion H2; assumption|exact H2].
  - intros j y x' Hy Hx. apply (H3 j y x' Hy). right; exact Hx.
  - intros z x' Hz Hx. apply (H5 z x' Hz). right; exact Hx.
  - intros x' Hx. apply H8. right; exact Hx.
Qed.

Lemma ord_head_lt x es h o lt : ord_ok (x :: es) h o lt -> ordered x = true ->
  forall x', In x' es -> ordered x' = true -> pseq x < pseq x'.
Proof.
  intros [_ H2 _ _ _ _ _ _ _] Hox. rewrite oseqs_cons, Hox in H2. inversion H2 as [|? ? _ Hall]; subst.
  apply (proj1 (Forall_oseqs _ _) Hall).
Qed.

Lemma ord_take e h o lt : lt < pseq e -> ord_ok [] h o lt -> ord_ok [e] h o (pseq e).
Proof.
  intros Hlt [H1 H2 H3 H4 H5 H6 H7 H8 H9]. split; auto.
  - rewrite oseqs_cons. destruct (ordered e); cbn; repeat constructor.
  - intros j y x Hy [<-|[]] Hoy Hox. specialize (H9 j y Hy Hoy). lia.
  - intros z x Hz [<-|[]] Hoz Hox. specialize (H7 z Hz Hoz). lia.
  - intros x Hx Hox. specialize (H7 x Hx Hox). lia.
  - intros x [<-|[]] Hox. lia.
  - intros j y Hy Hoy. specialize (H9 j y Hy Hoy). lia.
Qed.

Lemma ord_propagate a e es h o lt :
  NoDup (map fst h) -> (forall j y, In (j, y) h -> a <= j) -> held_at h a = Some e ->
  ord_ok es h o lt -> ord_ok (e :: es) (unhold h a) o lt.
Proof.
  intros Hnd Hge Hat [H1 H2 H3 H4 H5 H6 H7 H8 H9]. apply held_at_In in Hat.
  assert (Hgt : forall j y, In (j, y) (unhold h a) -> a < j).
  { intros j y Hin. pose proof (unhold_neq _ _ _ _ Hnd Hin). apply unhold_In in Hin. apply Hge in Hin. lia. }
  split; auto.
  - intros i x j y Hx Hy. apply unhold_In in Hx, Hy. eauto.
  - rewrite oseqs_cons. destruct (ordered e) eqn:Hoe; [|exact H2]. constructor; [exact H2|].
    apply Forall_oseqs. intros x Hx Hox. eapply H3; eauto.
  - intros j y x Hy [<-|Hx] Hoy Hox.
    + pose proof (Hgt _ _ Hy). apply unhold_In in Hy. eapply H1; eauto.
    + apply unhold_In in Hy. eauto.
  - intros z j y Hz Hy. apply unhold_In in Hy. eauto.
  - intros z x Hz [<-|Hx] Hoz Hox; eauto.
  - intros x [<-|Hx] Hox; eauto.
  - intros j y Hy. apply unhold_In in Hy. eauto.
Qed.

Lemma ord_hold a x es h o lt :
  (forall j y, In (j, y) h -> a < j) -> ord_ok (x :: es) h o lt -> ord_ok es ((a, x) :: h) o lt.
Proof.
  intros Hgt Hok. pose proof (ord_head_lt _ _ _ _ _ Hok) as Hhead. pose proof (ord_pop _ _ _ _ _ Hok) as Hpop.
  destruct Hok as [H1 H2 H3 H4 H5 H6 H7 H8 H9]. destruct Hpop as [_ P2 P3 _ P5 _ _ P8 _].
  split; auto.
  - intros i x1 j y [Hx|Hx] [Hy|Hy] Hox Hoy Hij.
    + inversion Hx; inversion Hy; subst. lia.
    + inversion Hx; subst. eapply H3; eauto. left; reflexivity.
    + inversion Hy; subst. apply Hgt in Hx. lia.
    + eauto.
  - intros j y x' [Hy|Hy] Hx Hoy Hox; [inversion Hy; subst; auto|eauto].
  - intros z j y Hz [Hy|Hy] Hoz Hoy; [inversion Hy; subst|eauto]. eapply H5; eauto. left; reflexivity.
  - intros j y [Hy|Hy] Hoy; [inversion Hy; subst|eauto]. apply H8; [left; reflexivity|assumption].
Qed.

Lemma ord_out x es o lt : ord_ok (x :: es) [] o lt -> ord_ok es [] (x :: o) lt.
Proof.
  intros Hok. pose proof (ord_head_lt _ _ _ _ _ Hok) as Hhead. pose proof (ord_pop _ _ _ _ _ Hok) as Hpop.
  destruct Hok as [H1 H2 H3 H4 H5 H6 H7 H8 H9]. destruct Hpop as [_ P2 P3 _ P5 _ _ P8 _].
  split; auto.
  - intros z j y _ [].
  - intros z x' [<-|Hz] Hx Hoz Hox; eauto.
  - rewrite oseqs_cons. destruct (ordered x) eqn:Hox; [|exact H6]. constructor; [exact H6|].
    apply Forall_oseqs. intros z Hz Hoz. assert (pseq z < pseq x); [|lia]. eapply H5; eauto. left; reflexivity.
  - intros z [<-|Hz] Hoz; [|eauto]. apply H8; [left; reflexivity|assumption].
Qed.

Definition ord_st (s : pst) : Prop := ord_ok (map fev (stack s)) (held s) (outs s) (lasttaken s).

Lemma ord_init n : ord_st (pinit n).
Proof. split; cbn; try constructor; try (intros; contradiction). Qed.

Lemma unordered_kind e : pkind e = 1 \/ pkind e = 3 -> ordered e = false.
Proof. unfold ordered. intros [H|H]; rewrite H; reflexivity. Qed.

Lemma ord_step s l s' : struct_ok s -> ord_st s -> pstep s l = Some s' -> ord_st s'.
Proof.
  intros [Hrange Hnd Hfr Hst] Hord Hstep. unfold ord_st in *.
  destruct s as [n st h lt o d c]. proj_simpl.
  destruct l as [e start|e a busy|e next|parent k|e idx|e a r|e]; pstep_inv Hstep; bnorm.
  - (* PTake time-out *) apply ord_push_unordered; [apply unordered_kind; right; lia|exact Hord].
  - (* PTake *) apply (ord_take e h o lt); [lia|exact Hord].
  - (* PTake, no action *) apply (ord_take e h o lt); [lia|exact Hord].
  - (* PDo *) exact Hord.
  - (* PPropagate *)
    inversion Hfr as [|? ? Hf Hfr']; subst.
    assert (Hne : fph f <> MustOut) by congruence.
    destruct Hf as [Hf1 _]. destruct (Hf1 Hne) as [Hfr0 Hfj].
    match goal with H : pev_eqb _ _ = true |- _ => apply pev_eqb_eq in H; subst end.
    replace (map fev ((if next <? n then {| fev := p; fidx := next; fph := BeforeDo |}
                       else {| fev := p; fidx := next - 1; fph := MustOut |}) :: f :: l))
      with (p :: fev f :: map fev l) by (destruct (next <? n); reflexivity).
    apply ord_propagate; auto. intros j y Hin. apply Hfj in Hin. lia.
  - (* PSpawn *) exact Hord.
  - (* PPush *)
    replace (map fev ((if idx <? n then {| fev := e; fidx := idx; fph := BeforeDo |}
                       else {| fev := e; fidx := idx - 1; fph := MustOut |}) :: f :: l))
      with (e :: fev f :: map fev l) by (destruct (idx <? n); reflexivity).
    apply ord_push_unordered; [|exact Hord]. apply unordered_kind.
    match goal with H : _ || _ = true |- _ => apply orb_true_iff in H; destruct H as [H|H] end; bnorm; [left|right]; lia.
  - (* RPass *)
    replace (map fev (after_pass (fev f) a n :: l)) with (fev f :: map fev l)
      by (unfold after_pass; destruct (a + 1 <? n); reflexivity).
    exact Hord.
  - (* RCollapse *) eapply ord_pop; eauto.
  - (* RDiscard *) eapply ord_pop; eauto.
  - (* RHold *)
    inversion Hfr as [|? ? Hf Hfr']; subst.
    assert (Hne : fph f <> MustOut) by congruence.
    destruct Hf as [Hf1 _]. destruct (Hf1 Hne) as [Hfr0 Hfj].
    apply ord_hold; [|exact Hord].
    intros j y Hin. pose proof (Hfj _ _ Hin).
    assert (j <> fidx f); [|lia]. intros ->.
    destruct (held_at h (fidx f)) eqn:Eh; [discriminate|]. eapply held_at_None; eauto.
  - (* RBreak *) exact Hord.
  - (* POut *)
    inversion Hfr as [|? ? Hf Hfr']; subst. destruct Hf as [_ Hf2]. rewrite (Hf2 Heqp) in *.
    apply ord_out; exact Hord.
Qed.

Record pinv (s : pst) : Prop := { pi_struct : struct_ok s; pi_ord : ord_st s }.

Lemma pinv_reachable n ls s : prun (pinit n) ls = Some s -> pinv s.
Proof.
  apply (prun_invariant pinv).
  - intros s0 l s1 [Hs Ho] Hstep. split; [eapply struct_step|eapply ord_step]; eauto.
  - split; [apply struct_init|apply ord_init].
Qed.

(* from newest-first and decreasing to oldest-first and increasing *)
Lemma sorted_gt_rev l : StronglySorted Z.gt l -> StronglySorted Z.lt (rev l).
Proof.
  induction 1 as [|x l Hs IH Hall]; cbn [rev]; [constructor|].
  assert (Hsnoc : forall l', StronglySorted Z.lt l' -> Forall (fun y => y < x) l' -> StronglySorted Z.lt (l' ++ [x])).
  { induction 1 as [|y l' Hs' IH' Hall']; cbn [app]; intros Hf; [repeat constructor|].
    inversion Hf; subst. constructor; [auto|]. apply Forall_app; split; [exact Hall'|]. constructor; [lia|constructor]. }
  apply Hsnoc; [exact IH|]. apply Forall_rev. eapply Forall_impl; [|exact Hall]. cbn beta. intros; lia.
Qed.

Lemma filter_rev' {A} (p : A -> bool) l : filter p (rev l) = rev (filter p l).
Proof.
  induction l as [|x r IH]; cbn [rev filter]; [reflexivity|].
  rewrite filter_app, IH. cbn [filter]. destruct (p x); cbn [rev]; [reflexivity|apply app_nil_r].
Qed.

Lemma outs_increasing n ls s : prun (pinit n) ls = Some s ->
  increasing (map pseq (filter ordered (rev (outs s)))).
Proof.
  intros Hrun. destruct (pinv_reachable _ _ _ Hrun) as [_ Hord].
  unfold increasing. rewrite filter_rev', map_rev. apply sorted_gt_rev. exact (oo_outs _ _ _ _ Hord).
Qed.
