(* Final statements about the per-stream end-to-end flow model Model/StreamFlow.v (proofs:
   Proofs/StreamFlow.v).  Formal core of C02 (per-stream commits arrive in read order, once per event;
   every accepted event ends in exactly one commit or one silent drop) and C01 (when an event is
   committed every earlier event of its stream has been committed or deliberately dropped).

   All statements quantify over every number of actions n, both kinds of output (sync) and every label
   sequence ls accepted by [fstep] from the initial state; every real pipeline trace is replayed
   through [fstep] on every check (Model/PipeGlue.v, flow_step).

   [ordered] (kind 0 regular or 2 child-parent) is Proofs/Proc.v's; it is the same function as
   Model/StreamFlow.v's ([flow_ordered_same]).  [ftaken ls] lists the ordered events e of every
   [FProc (PTake e _)] in ls, in order ([flow_taken_spec]).

   The model carries guard F0 (a synchronous output has no batcher, so FAdd of an ordered event is
   rejected when sync_out), added for these theorems: without it F1 and F4 are false
   ([flow_out_history_split_noF0_refuted], [flow_frontier_noF0_refuted]). *)
From Verif Require Import Base.Sx Model.Proc Model.StreamFlow Proofs.Proc Proofs.StreamFlow.
From Coq Require Import Lia Bool List ZArith Sorted Permutation.
Import ListNotations.
Local Open Scope Z_scope.

Lemma flow_ordered_same : Model.StreamFlow.ordered = ordered.
Proof. exact ordered_same. Qed.

Lemma flow_taken_spec : forall e ls,
  In e (ftaken ls) <-> ordered e = true /\ exists start, In (FProc (PTake e start)) ls.
Proof. exact In_ftaken. Qed.

(* the invariant behind everything, and the generic induction principle *)
Lemma flow_run_invariant : forall (P : fst_ -> Prop),
  (forall s l s', P s -> fstep s l = Some s' -> P s') ->
  forall ls s s', P s -> frun s ls = Some s' -> P s'.
Proof. exact frun_invariant. Qed.

Lemma flow_invariant : forall n sync ls s, frun (finit n sync) ls = Some s -> finv s.
Proof. exact finv_reachable. Qed.

(* the processor component of a flow run is a processor run: all of Proofs/ProcTheorems.v applies *)
Lemma flow_proc_run : forall n sync ls s, frun (finit n sync) ls = Some s ->
  prun (pinit n) (fproj ls) = Some (proc s).
Proof. intros n sync ls s H. exact (frun_proc _ _ _ H). Qed.

(* ---- F1: everything ever handed to the output, in hand-over order, is exactly ------------------ *)
(*          committed ++ added-not-committed ++ waiting-to-be-added                                 *)
Theorem flow_out_history_split : forall n sync ls s, frun (finit n sync) ls = Some s ->
  map pseq (filter ordered (rev (outs (proc s)))) =
  map pseq (rev (commits s)) ++ map pseq (addq s) ++ map pseq (outq s).
Proof. exact out_history_split. Qed.

(* the same for the events themselves, not only their sequence numbers *)
Theorem flow_out_history_split_events : forall n sync ls s, frun (finit n sync) ls = Some s ->
  filter ordered (rev (outs (proc s))) = rev (commits s) ++ addq s ++ outq s.
Proof. intros n sync ls s H. exact (fi_split _ (finv_reachable _ _ _ _ H)). Qed.

(* with a synchronous output nothing is ever in the batcher *)
Lemma flow_sync_addq_empty : forall n ls s, frun (finit n true) ls = Some s -> addq s = [].
Proof. exact sync_addq_nil. Qed.

(* ---- F2 (C02): commit notifications of a stream carry strictly increasing sequence numbers ------ *)
Theorem flow_commits_increasing : forall n sync ls s, frun (finit n sync) ls = Some s ->
  StronglySorted Z.lt (map pseq (rev (commits s))).
Proof. exact commits_increasing. Qed.

(* hence no event is committed twice *)
Corollary flow_commits_nodup : forall n sync ls s, frun (finit n sync) ls = Some s ->
  NoDup (map pseq (commits s)).
Proof. exact commits_nodup. Qed.

(* the two queues are in read order as well, and everything committed is older than everything queued *)
Lemma flow_queues_increasing : forall n sync ls s, frun (finit n sync) ls = Some s ->
  StronglySorted Z.lt (map pseq (addq s ++ outq s)) /\
  (forall c q, In c (commits s) -> In q (addq s ++ outq s) -> pseq c < pseq q).
Proof. exact queues_increasing. Qed.

(* ---- F3 (C02): conservation ---------------------------------------------------------------------- *)
(* the ordered events in all places are exactly the ordered events taken, each once *)
Theorem flow_conservation : forall n sync ls s, frun (finit n sync) ls = Some s ->
  Permutation
    (filter ordered (commits s ++ addq s ++ outq s ++ dropped (proc s) ++
                     map snd (held (proc s)) ++ map fev (stack (proc s))))
    (ftaken ls) /\
  NoDup (ftaken ls).
Proof. exact fconservation_perm. Qed.

(* the same by counting: a taken ordered event occurs exactly once, nothing foreign occurs *)
Theorem flow_conservation_once : forall n sync ls s, frun (finit n sync) ls = Some s ->
  forall e, ordered e = true ->
    ((exists start, In (FProc (PTake e start)) ls) ->
       count_occ pev_eq_dec (commits s ++ addq s ++ outq s ++ dropped (proc s) ++
                             map snd (held (proc s)) ++ map fev (stack (proc s))) e = 1%nat) /\
    (~ (exists start, In (FProc (PTake e start)) ls) ->
       ~ In e (commits s ++ addq s ++ outq s ++ dropped (proc s) ++
               map snd (held (proc s)) ++ map fev (stack (proc s)))).
Proof. exact fconservation_once. Qed.

(* at quiescence each accepted event ended in exactly one commit or one silent drop *)
Corollary flow_quiescent_all_accounted : forall n sync ls s, frun (finit n sync) ls = Some s ->
  stack (proc s) = [] -> held (proc s) = [] -> outq s = [] -> addq s = [] ->
  Permutation (commits s ++ filter ordered (dropped (proc s))) (ftaken ls).
Proof. exact quiescent_all_accounted. Qed.

(* ---- F4 (C01): the commit frontier ---------------------------------------------------------------- *)
(* when the commit of e is accepted, the event e' actually committed (the queue head, same sequence
   number) has every earlier accepted event of the stream committed or silently dropped *)
Theorem flow_frontier : forall n sync ls s e s', frun (finit n sync) ls = Some s ->
  fstep s (FCommit e) = Some s' ->
  exists e', commits s' = e' :: commits s /\ pseq e' = pseq e /\
    forall x, In x (ftaken ls) -> pseq x < pseq e' -> In x (commits s') \/ In x (dropped (proc s')).
Proof. exact frontier. Qed.

(* ... that is: not held by an action, not on the processor's stack, not waiting in either queue *)
Theorem flow_frontier_not_pending : forall n sync ls s e s', frun (finit n sync) ls = Some s ->
  fstep s (FCommit e) = Some s' ->
  exists e', commits s' = e' :: commits s /\ pseq e' = pseq e /\
    forall x, In x (ftaken ls) -> pseq x < pseq e' ->
      ~ In x (addq s' ++ outq s' ++ map snd (held (proc s')) ++ map fev (stack (proc s'))).
Proof. exact frontier_not_pending. Qed.

(* ---- F5: a committed event was handed to the output before -------------------------------------- *)
Theorem flow_commit_was_handed_to_output : forall n sync ls s e s', frun (finit n sync) ls = Some s ->
  fstep s (FCommit e) = Some s' ->
  exists e', commits s' = e' :: commits s /\ pseq e' = pseq e /\ ordered e' = true /\ In e' (outs (proc s)).
Proof. exact commit_was_handed_to_output. Qed.

Corollary flow_committed_were_handed_to_output : forall n sync ls s, frun (finit n sync) ls = Some s ->
  forall x, In x (commits s) -> ordered x = true /\ In x (outs (proc s)).
Proof. exact committed_were_handed_to_output. Qed.

(* ---- necessity of guard F0 ------------------------------------------------------------------------ *)
(* [fstep_noF0] = [fstep] with FAdd as it was before (accepted also for a synchronous output) *)
Lemma flow_fstep_noF0_weaker : forall s l s', fstep s l = Some s' -> fstep_noF0 s l = Some s'.
Proof. exact fstep_noF0_weaker. Qed.

Lemma flow_out_history_split_noF0_refuted :
  exists n sync ls s, frun_noF0 (finit n sync) ls = Some s /\
    map pseq (filter ordered (rev (outs (proc s)))) <>
    map pseq (rev (commits s)) ++ map pseq (addq s) ++ map pseq (outq s).
Proof. exact out_history_split_noF0_refuted. Qed.

Lemma flow_frontier_noF0_refuted :
  exists n sync ls s e s' x, frun_noF0 (finit n sync) ls = Some s /\ fstep_noF0 s (FCommit e) = Some s' /\
    In x (ftaken ls) /\ pseq x < pseq e /\ ~ (In x (commits s') \/ In x (dropped (proc s'))).
Proof. exact frontier_noF0_refuted. Qed.

Example flow_F0_rejects_sync_add : frun (finit 0 true) w_sync_add = None /\
  (forall s, frun (finit 0 true) (firstn 4 w_sync_add) = Some s -> fstep s (FAdd (ev 1 0)) = None).
Proof. exact F0_rejects_sync_add. Qed.

(* ---- examples -------------------------------------------------------------------------------------- *)
(* one action (a join).  It holds e1.  e2 arrives: the action flushes e1 (out), then lets e2 pass (out).
   Both are added to the batcher and committed, in read order. *)
Definition hold_flush : list flabel :=
  [FProc (PTake (ev 1 0) 0); FProc (PDo (ev 1 0) 0 false); FProc (PResult (ev 1 0) 0 RHold);
   FProc (PTake (ev 2 0) 0); FProc (PDo (ev 2 0) 0 true); FProc (PPropagate (ev 1 0) 1); FProc (POut (ev 1 0));
   FProc (PResult (ev 2 0) 0 RPass); FProc (POut (ev 2 0));
   FAdd (ev 1 0); FAdd (ev 2 0); FCommit (ev 1 0); FCommit (ev 2 0)].

Example flow_nonvacuous :
  (* e1 is held after the third label *)
  option_map (fun s => (held (proc s), stack (proc s), outq s))
    (frun (finit 1 false) (firstn 3 hold_flush)) = Some ([(0, ev 1 0)], [], []) /\
  (* both out, waiting to be added *)
  option_map (fun s => (rev (outs (proc s)), outq s, addq s, held (proc s)))
    (frun (finit 1 false) (firstn 9 hold_flush)) = Some ([ev 1 0; ev 2 0], [ev 1 0; ev 2 0], [], []) /\
  (* both added *)
  option_map (fun s => (outq s, addq s, commits s))
    (frun (finit 1 false) (firstn 11 hold_flush)) = Some ([], [ev 1 0; ev 2 0], []) /\
  (* the whole run: committed in read order, nothing left anywhere *)
  option_map (fun s => (rev (commits s), addq s, outq s, held (proc s), stack (proc s), dropped (proc s)))
    (frun (finit 1 false) hold_flush) = Some ([ev 1 0; ev 2 0], [], [], [], [], []) /\
  ftaken hold_flush = [ev 1 0; ev 2 0] /\
  (* F2: a commit label for the wrong event (e2 while e1 is the oldest added) is rejected *)
  frun (finit 1 false) (firstn 11 hold_flush ++ [FCommit (ev 2 0)]) = None /\
  (* F1: so is an Add out of hand-over order *)
  frun (finit 1 false) (firstn 9 hold_flush ++ [FAdd (ev 2 0)]) = None.
Proof. vm_compute. repeat split; reflexivity. Qed.

(* the hypotheses of the frontier theorem are satisfiable with something to say: two actions, e1 is
   discarded by action 0, e2 is held by action 1 and flushed by e3; when e2's commit is accepted the
   older e1 is a silent drop, and when e3's commit is accepted e2 is committed and e1 dropped *)
Definition drop_hold_flush : list flabel :=
  [FProc (PTake (ev 1 0) 0); FProc (PDo (ev 1 0) 0 false); FProc (PResult (ev 1 0) 0 RDiscard);
   FProc (PTake (ev 2 0) 0); FProc (PDo (ev 2 0) 0 false); FProc (PResult (ev 2 0) 0 RPass);
   FProc (PDo (ev 2 0) 1 false); FProc (PResult (ev 2 0) 1 RHold);
   FProc (PTake (ev 3 0) 0); FProc (PDo (ev 3 0) 0 false); FProc (PResult (ev 3 0) 0 RPass);
   FProc (PDo (ev 3 0) 1 true); FProc (PPropagate (ev 2 0) 2); FProc (POut (ev 2 0));
   FProc (PResult (ev 3 0) 1 RPass); FProc (POut (ev 3 0));
   FAdd (ev 2 0); FAdd (ev 3 0); FCommit (ev 2 0)].

Example flow_frontier_nonvacuous :
  exists s s', frun (finit 2 false) drop_hold_flush = Some s /\ fstep s (FCommit (ev 3 0)) = Some s' /\
    ftaken drop_hold_flush = [ev 1 0; ev 2 0; ev 3 0] /\
    commits s' = [ev 3 0; ev 2 0] /\ dropped (proc s') = [ev 1 0] /\
    addq s' = [] /\ outq s' = [] /\ held (proc s') = [] /\ stack (proc s') = [].
Proof.
  destruct (frun (finit 2 false) drop_hold_flush) as [s|] eqn:E; [|vm_compute in E; discriminate].
  destruct (fstep s (FCommit (ev 3 0))) as [s'|] eqn:E2;
    [|exfalso; vm_compute in E; inversion E; subst s; vm_compute in E2; discriminate].
  exists s, s'. split; [reflexivity|]. split; [exact E2|].
  vm_compute in E. inversion E; subst s. vm_compute in E2. inversion E2; subst s'.
  vm_compute. repeat split; reflexivity.
Qed.

(* while e2 is still held, a commit of the newer e3 cannot be accepted: e3 is not out yet *)
Example flow_frontier_blocks_newer :
  forall s, frun (finit 2 false) (firstn 12 drop_hold_flush) = Some s ->
    held (proc s) = [(1, ev 2 0)] /\ fstep s (FCommit (ev 3 0)) = None /\ fstep s (FAdd (ev 3 0)) = None.
Proof. intros s H. vm_compute in H. inversion H; subst s. vm_compute. repeat split; reflexivity. Qed.

(* synchronous output, no action: Out commits at once, the batcher queue stays empty *)
Example flow_sync_nonvacuous :
  option_map (fun s => (rev (commits s), addq s, outq s))
    (frun (finit 0 true) [FProc (PTake (ev 1 0) 0); FProc (POut (ev 1 0)); FCommit (ev 1 0);
                          FProc (PTake (ev 2 0) 0); FProc (POut (ev 2 0)); FCommit (ev 2 0)])
    = Some ([ev 1 0; ev 2 0], [], []).
Proof. vm_compute. reflexivity. Qed.

Print Assumptions flow_out_history_split.
Print Assumptions flow_commits_increasing.
Print Assumptions flow_conservation.
Print Assumptions flow_conservation_once.
Print Assumptions flow_quiescent_all_accounted.
Print Assumptions flow_frontier.
Print Assumptions flow_frontier_not_pending.
Print Assumptions flow_commit_was_handed_to_output.
Print Assumptions flow_out_history_split_noF0_refuted.
Print Assumptions flow_frontier_noF0_refuted.
