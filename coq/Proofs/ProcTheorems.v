(* Final statements about the processor model Model/Proc.v (proofs: Proofs/Proc.v).
   Referenced from Properties/C01.v, C02.v, C13.v, C15.v.

   The model carries the protocol P1-P6 as guards of [pstep]; P5 (Spawn enters its events to the
   right of the spawning action and never past a holder) was added for these theorems: without it the
   ordering theorem is false ([proc_outs_increasing_noP5_refuted] below).  P6 (PSkipTo: an event skips
   only idle actions) is needed likewise ([proc_outs_increasing_noP6_refuted]). *)
From Verif Require Import Base.Sx Model.Proc Proofs.Proc.
From Coq Require Import Lia Bool List ZArith Sorted Permutation.
Import ListNotations.
Local Open Scope Z_scope.

(* ---- C01 / C02: ordered events leave the processor in the order they were read ---------------- *)
Lemma proc_outs_increasing : forall n ls s, prun (pinit n) ls = Some s ->
  increasing (map pseq (filter ordered (rev (outs s)))).
Proof. exact outs_increasing. Qed.

(* the invariant behind it, for reuse: see [struct_ok] and [ord_ok] in Proofs/Proc.v *)
Lemma proc_invariant : forall n ls s, prun (pinit n) ls = Some s -> pinv s.
Proof. exact pinv_reachable. Qed.

(* ---- conservation: none lost, none duplicated, nothing foreign --------------------------------- *)
(* [places s] = outs s ++ dropped s ++ map snd (held s) ++ map fev (stack s) *)
Lemma proc_conservation : forall n ls s, prun (pinit n) ls = Some s ->
  forall e, ordered e = true ->
    ((exists start, In (PTake e start) ls) ->
       count_occ pev_eq_dec (outs s ++ dropped s ++ map snd (held s) ++ map fev (stack s)) e = 1%nat) /\
    (~ (exists start, In (PTake e start) ls) ->
       ~ In e (outs s ++ dropped s ++ map snd (held s) ++ map fev (stack s))).
Proof. exact conservation. Qed.

(* the same as a permutation: the ordered events in all places are exactly the ordered events taken,
   each once ([taken ls] lists the ordered e of every [PTake e _] in ls, in order) *)
Lemma proc_conservation_perm : forall n ls s, prun (pinit n) ls = Some s ->
  Permutation (filter ordered (outs s ++ dropped s ++ map snd (held s) ++ map fev (stack s))) (taken ls) /\
  NoDup (taken ls).
Proof.
  intros n ls s H. split; [exact (conservation_perm _ _ _ H)|exact (proj1 (conservation_cnt _ _ _ H))].
Qed.

Lemma proc_taken_spec : forall e ls, In e (taken ls) <-> ordered e = true /\ exists start, In (PTake e start) ls.
Proof. exact In_taken. Qed.

(* ---- the processor leaves a stream only with no action holding an event ------------------------ *)
(* after ANY hand-over to the output nothing is held (so busyActionsTotal = 0) *)
Lemma proc_nothing_held_after_out : forall n ls e s, prun (pinit n) (ls ++ [POut e]) = Some s -> held s = [].
Proof. exact held_nil_after_out. Qed.

Lemma proc_nothing_held_after_pass : forall n ls s, prun (pinit n) ls = Some s ->
  (exists ls' e, ls = ls' ++ [POut e]) -> stack s = [] -> held s = [].
Proof. intros n ls s H [ls' [e ->]] _. eapply held_nil_after_out; eauto. Qed.

(* ---- C13: a time-out enters the chain only at an action that holds an event -------------------- *)
(* taken from the stream: at a holder with nothing held left of it; its first Do is at that action, busy *)
Lemma proc_timeout_only_to_holder : forall s e start s', pstep s (PTake e start) = Some s' -> pkind e = 3 ->
  held_at (held s) start <> None /\ (forall j y, In (j, y) (held s) -> start <= j).
Proof. intros s e start s' H Hk. destruct (timeout_take _ _ _ _ H Hk) as [H1 [H2 _]]. auto. Qed.

Lemma proc_timeout_first_do_busy : forall s e start s1 e' a busy s2,
  pstep s (PTake e start) = Some s1 -> pkind e = 3 -> pstep s1 (PDo e' a busy) = Some s2 ->
  e' = e /\ a = start /\ busy = true.
Proof. exact timeout_take_do. Qed.

(* sent by Spawn: likewise *)
Lemma proc_spawn_timeout_only_to_holder : forall s e idx s', pstep s (PPush e idx) = Some s' -> pkind e = 3 ->
  held_at (held s) idx <> None /\ (forall j y, In (j, y) (held s) -> idx <= j).
Proof. intros s e idx s' H Hk. destruct (timeout_push _ _ _ _ H Hk) as [H1 [H2 _]]. auto. Qed.

Lemma proc_spawn_timeout_first_do_busy : forall s e idx s1 e' a busy s2,
  pstep s (PPush e idx) = Some s1 -> pkind e = 3 -> pstep s1 (PDo e' a busy) = Some s2 ->
  e' = e /\ a = idx /\ busy = true.
Proof. exact timeout_push_do. Qed.

(* "EVERY Do of a time-out is at a busy action" is false of the model: having flushed the held event
   the time-out may itself be passed on to the next, idle, action *)
Lemma proc_timeout_every_do_busy_refuted :
  exists n ls s e a s', prun (pinit n) ls = Some s /\ pkind e = 3 /\ pstep s (PDo e a false) = Some s'.
Proof. exact timeout_do_busy_refuted. Qed.

(* ---- necessity of P5 ---------------------------------------------------------------------------- *)
(* [pstep_noP5] = [pstep] with the PPush guard as it was before (child anywhere, time-out at any holder) *)
Lemma proc_pstep_noP5_weaker : forall s l s', pstep s l = Some s' -> pstep_noP5 s l = Some s'.
Proof. exact pstep_noP5_weaker. Qed.

Lemma proc_outs_increasing_noP5_refuted :
  exists n ls s, prun_noP5 (pinit n) ls = Some s /\ ~ increasing (map pseq (filter ordered (rev (outs s)))).
Proof. exact outs_increasing_noP5_refuted. Qed.

Lemma proc_nothing_held_after_pass_noP5_refuted :
  exists n ls e s, prun_noP5 (pinit n) (ls ++ [POut e]) = Some s /\ stack s = [] /\ held s <> [].
Proof. exact held_nil_after_out_noP5_refuted. Qed.

(* both offending traces are rejected by the model with P5, at the PPush *)
Example proc_P5_rejects_child_left : prun (pinit 3) w_child_left = None.
Proof. vm_compute. reflexivity. Qed.
Example proc_P5_rejects_timeout_past_holder : prun (pinit 3) w_timeout_past = None.
Proof. vm_compute. reflexivity. Qed.
Example proc_P5_rejects_at_push :
  option_map (fun s => (held s, map fidx (stack s))) (prun (pinit 3) (firstn 10 w_child_left))
    = Some ([(0, ev 2 0); (1, ev 1 0)], [0]) /\
  nth_error w_child_left 10 = Some (PPush (ev 0 1) 1) /\
  (forall s, prun (pinit 3) (firstn 10 w_child_left) = Some s -> pstep s (PPush (ev 0 1) 1) = None).
Proof.
  split; [vm_compute; reflexivity|]. split; [reflexivity|].
  intros s H. vm_compute in H. inversion H; subst s. vm_compute. reflexivity.
Qed.

(* ---- necessity of P6 ---------------------------------------------------------------------------- *)
(* [pstep_noP6] = [pstep] with PSkipTo allowed to skip a busy action *)
Lemma proc_pstep_noP6_weaker : forall s l s', pstep s l = Some s' -> pstep_noP6 s l = Some s'.
Proof. exact pstep_noP6_weaker. Qed.

(* an event skipping a holder overtakes the held one *)
Lemma proc_outs_increasing_noP6_refuted :
  exists n ls s, prun_noP6 (pinit n) ls = Some s /\ ~ increasing (map pseq (filter ordered (rev (outs s)))).
Proof. exact outs_increasing_noP6_refuted. Qed.

Lemma proc_nothing_held_after_pass_noP6_refuted :
  exists n ls e s, prun_noP6 (pinit n) (ls ++ [POut e]) = Some s /\ stack s = [] /\ held s <> [].
Proof. exact held_nil_after_out_noP6_refuted. Qed.

Example proc_P6_rejects_offending_trace : prun (pinit 2) w_skip_holder = None.
Proof. vm_compute. reflexivity. Qed.

(* 3 actions, action 1 holds e1.  The next event e2 cannot skip to action 2, neither from index 0 nor
   (after passing action 0) from index 1; skipping the idle action 0 only is accepted *)
Definition holder_at_1 : list plabel :=
  [PTake (ev 1 0) 0; PDo (ev 1 0) 0 false; PResult (ev 1 0) 0 RPass; PDo (ev 1 0) 1 false; PResult (ev 1 0) 1 RHold;
   PTake (ev 2 0) 0].

Example proc_P6_rejects_skip_past_holder :
  (forall s, prun (pinit 3) holder_at_1 = Some s ->
     held s = [(1, ev 1 0)] /\ map fidx (stack s) = [0] /\
     pstep s (PSkipTo (ev 2 0) 2) = None /\ pstep s (PSkipTo (ev 2 0) 3) = None /\
     pstep s (PSkipTo (ev 2 0) 1) <> None) /\
  (forall s, prun (pinit 3) (holder_at_1 ++ [PDo (ev 2 0) 0 false; PResult (ev 2 0) 0 RPass]) = Some s ->
     held s = [(1, ev 1 0)] /\ map fidx (stack s) = [1] /\
     pstep s (PSkipTo (ev 2 0) 2) = None /\ pstep s (PSkipTo (ev 2 0) 3) = None) /\
  (forall s, prun (pinit 3) (holder_at_1 ++ [PSkipTo (ev 2 0) 1]) = Some s ->
     map fidx (stack s) = [1] /\ pstep s (PSkipTo (ev 2 0) 2) = None).
Proof.
  split; [|split]; intros s H; vm_compute in H; inversion H; subst s; vm_compute; repeat split; discriminate.
Qed.

(* ---- examples ------------------------------------------------------------------------------------ *)
(* 3 actions.  Action 0 holds e1.  e2 arrives: action 0 flushes e1, which passes action 1 and is held
   by action 2; action 0 then holds e2.  e3 arrives: action 0 flushes e2, which passes action 1 and
   makes action 2 flush e1 (out), then passes (out); finally e3 passes all three actions (out). *)
Definition chain3 : list plabel :=
  [PTake (ev 1 0) 0; PDo (ev 1 0) 0 false; PResult (ev 1 0) 0 RHold;
   PTake (ev 2 0) 0; PDo (ev 2 0) 0 true; PPropagate (ev 1 0) 1;
     PDo (ev 1 0) 1 false; PResult (ev 1 0) 1 RPass; PDo (ev 1 0) 2 false; PResult (ev 1 0) 2 RHold;
   PResult (ev 2 0) 0 RHold;
   PTake (ev 3 0) 0; PDo (ev 3 0) 0 true; PPropagate (ev 2 0) 1;
     PDo (ev 2 0) 1 false; PResult (ev 2 0) 1 RPass; PDo (ev 2 0) 2 true; PPropagate (ev 1 0) 3; POut (ev 1 0);
     PResult (ev 2 0) 2 RPass; POut (ev 2 0);
   PResult (ev 3 0) 0 RPass; PDo (ev 3 0) 1 false; PResult (ev 3 0) 1 RPass; PDo (ev 3 0) 2 false;
   PResult (ev 3 0) 2 RPass; POut (ev 3 0)].

Example proc_chain3_in_order :
  option_map (fun s => (rev (outs s), held s, stack s, dropped s)) (prun (pinit 3) chain3)
    = Some ([ev 1 0; ev 2 0; ev 3 0], [], [], []).
Proof. vm_compute. reflexivity. Qed.

(* the intermediate state: two holders, the older event further right *)
Example proc_chain3_two_holders :
  option_map (fun s => (held s, stack s)) (prun (pinit 3) (firstn 11 chain3))
    = Some ([(0, ev 2 0); (2, ev 1 0)], []).
Proof. vm_compute. reflexivity. Qed.

(* P3 is what keeps the order: while action 0 holds e1, the newer e2 is not let through (nor broken,
   nor held on top of it); flushing e1 first is accepted, and then e2 may pass *)
Definition holding_prefix : list plabel :=
  [PTake (ev 1 0) 0; PDo (ev 1 0) 0 false; PResult (ev 1 0) 0 RHold; PTake (ev 2 0) 0; PDo (ev 2 0) 0 true].

Example proc_P3_rejects_pass_while_holding :
  forall s, prun (pinit 2) holding_prefix = Some s ->
    held s = [(0, ev 1 0)] /\
    pstep s (PResult (ev 2 0) 0 RPass) = None /\
    pstep s (PResult (ev 2 0) 0 RBreak) = None /\
    pstep s (PResult (ev 2 0) 0 RHold) = None /\
    pstep s (PPropagate (ev 1 0) 1) <> None.
Proof.
  intros s H. vm_compute in H. inversion H; subst s. vm_compute. repeat split; discriminate.
Qed.

Example proc_P3_flush_then_pass_in_order :
  option_map (fun s => rev (outs s))
    (prun (pinit 2) (holding_prefix ++ [PPropagate (ev 1 0) 1; PDo (ev 1 0) 1 false; PResult (ev 1 0) 1 RPass; POut (ev 1 0);
                                        PResult (ev 2 0) 0 RPass; PDo (ev 2 0) 1 false; PResult (ev 2 0) 1 RPass; POut (ev 2 0)]))
    = Some [ev 1 0; ev 2 0].
Proof. vm_compute. reflexivity. Qed.

Print Assumptions proc_outs_increasing.
Print Assumptions proc_conservation.
Print Assumptions proc_conservation_perm.
Print Assumptions proc_nothing_held_after_pass.
Print Assumptions proc_timeout_first_do_busy.
Print Assumptions proc_outs_increasing_noP5_refuted.
Print Assumptions proc_outs_increasing_noP6_refuted.
