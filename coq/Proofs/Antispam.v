From Verif Require Import Base.Sx Base.GoSem Model.Admission Model.Antispam.
From Coq Require Import Lia ZifyBool.

(* ---- disabled antispam, exceptions, unlimited rules ------------------------------------------ *)
Theorem antispam_disabled_never MI U s exc isNew t :
  astep MI U s (Ev (resolve (-1) None exc) isNew t) = (s, false).
Proof. reflexivity. Qed.

Theorem antispam_exception_never T MI U s exc isNew t :
  existsb (fun m => m) exc = true ->
  astep MI U s (Ev (resolve T None exc) isNew t) = (s, false).
Proof.
  intros He. unfold resolve. rewrite He. destruct (T =? -1); reflexivity.
Qed.

Theorem antispam_rule_unlimited_never T MI U s rs exc isNew t :
  first_rule rs = Some (-1) ->
  astep MI U s (Ev (resolve T (Some rs) exc) isNew t) = (s, false).
Proof. intros Hr. unfold resolve. rewrite Hr. reflexivity. Qed.

(* ---- invariant of a source that is always counted against the same threshold T -------------- *)
Definition wf (T : Z) (s : option src) : Prop :=
  match s with Some x => sthr x = T /\ 0 <= counter x | None => True end.

Lemma wf_thr_is T s : wf T s -> thr_is T s.
Proof. destruct s; cbn; tauto. Qed.

Lemma count_step_wf MI U T s isNew t :
  0 < T -> 0 <= U -> wf T s -> wf T (fst (count_step MI U T s isNew t)).
Proof.
  intros HT HU Hwf. unfold count_step.
  destruct s as [x|]; cbn [wf] in Hwf.
  - destruct Hwf as [H1 H2]. destruct isNew; cbn [fst wf counter sthr].
    + split; [exact H1 | lia].
    + split; [exact H1|].
      destruct ((t - ts x) <? MI); destruct (_ =? T); nia.
  - destruct isNew; cbn [fst wf counter sthr ts].
    + split; [reflexivity | lia].
    + split; [reflexivity|].
      destruct ((t - t) <? MI); destruct (_ =? T); nia.
Qed.

Lemma maint_step_wf U T s : 0 < T -> 0 <= U -> wf T s -> wf T (maint_step U s).
Proof.
  intros HT HU Hwf. unfold maint_step. destruct s as [x|]; [|exact I].
  cbn [wf] in Hwf. destruct Hwf as [H1 H2].
  destruct (counter x =? 0); [exact I|]. cbn [wf counter sthr]. rewrite H1.
  split; [reflexivity|]. destruct (U * T <? Z.max (counter x - T) 0); nia.
Qed.

Lemma astep_wf MI U T s o :
  0 < T -> 0 <= U -> uniform_op T o = true -> wf T s -> wf T (fst (astep MI U s o)).
Proof.
  intros HT HU Hu Hwf. destruct o as [d isNew t|].
  - destruct d as [| |thr]; cbn [uniform_op] in Hu; try discriminate.
    apply Z.eqb_eq in Hu. subst thr. cbn [astep]. apply count_step_wf; assumption.
  - cbn [astep fst]. apply maint_step_wf; assumption.
Qed.

Lemma arun_cons MI U s o r :
  arun MI U s (o :: r) =
  (fst (arun MI U (fst (astep MI U s o)) r), snd (astep MI U s o) :: snd (arun MI U (fst (astep MI U s o)) r)).
Proof.
  cbn [arun]. destruct (astep MI U s o) as [s1 v]. cbn [fst snd].
  destruct (arun MI U s1 r) as [s2 vs]. reflexivity.
Qed.

Lemma arun_wf MI U T ops : forall s,
  0 < T -> 0 <= U -> forallb (uniform_op T) ops = true -> wf T s -> wf T (fst (arun MI U s ops)).
Proof.
  induction ops as [|o r IH]; intros s HT HU Hu Hwf.
  - exact Hwf.
  - cbn [forallb] in Hu. apply andb_true_iff in Hu. destruct Hu as [Ho Hr].
    rewrite arun_cons. cbn [fst]. apply IH; try assumption. apply astep_wf; assumption.
Qed.

Lemma arun_app MI U a : forall s b,
  arun MI U s (a ++ b) =
  (fst (arun MI U (fst (arun MI U s a)) b), snd (arun MI U s a) ++ snd (arun MI U (fst (arun MI U s a)) b)).
Proof.
  induction a as [|o r IH]; intros s b.
  - cbn [app arun fst snd]. destruct (arun MI U s b); reflexivity.
  - cbn [app]. rewrite !arun_cons. rewrite IH. cbn [fst snd app]. reflexivity.
Qed.

Lemma is_count_uniform T o : is_count_ev T o = true -> uniform_op T o = true.
Proof. destruct o as [[| |thr] isNew t|]; cbn; congruence. Qed.

Lemma forallb_count_uniform T ops :
  forallb (is_count_ev T) ops = true -> forallb (uniform_op T) ops = true.
Proof.
  induction ops as [|o r IH]; [reflexivity|]. cbn [forallb]. rewrite !andb_true_iff.
  intros [H1 H2]. split; [apply is_count_uniform; exact H1 | apply IH; exact H2].
Qed.

(* ---- ban onset ---------------------------------------------------------------------------- *)
Lemma quick_count_nonneg MI ops : forall p, 0 <= quick_count MI p ops.
Proof.
  induction ops as [|o r IH]; intros p; cbn [quick_count]; [lia|].
  destruct o as [[| |thr] [|] t|]; try apply IH.
  specialize (IH (Some t)). destruct (_ <? MI); lia.
Qed.

Lemma onset_aux MI U T ops : forall s,
  0 < T -> 0 <= U ->
  forallb (is_count_ev T) ops = true -> wf T s -> counter_of s < T ->
  existsb (fun v => v) (snd (arun MI U s ops)) = true ->
  T <= counter_of s + quick_count MI (ts_of s) ops.
Proof.
  induction ops as [|o r IH]; intros s HT HU Hall Hwf Hlt Hex.
  - cbn in Hex. discriminate.
  - cbn [forallb] in Hall. apply andb_true_iff in Hall. destruct Hall as [Ho Hr].
    destruct o as [[| |thr] isNew t|]; cbn [is_count_ev] in Ho; try discriminate.
    apply Z.eqb_eq in Ho. subst thr.
    rewrite arun_cons in Hex. cbn [snd existsb] in Hex.
    pose proof (count_step_wf MI U T s isNew t HT HU Hwf) as Hwf1.
    cbn [astep] in Hex. cbn [quick_count].
    assert (Hc0 : counter_of s = counter (match s with Some x => x | None => {| counter := 0; ts := t; sthr := T |} end)).
    { destruct s; reflexivity. }
    assert (Hnn : 0 <= counter_of s).
    { destruct s as [x|]; cbn in *; lia. }
    assert (Hprev : match ts_of s with Some q => q | None => t end =
                    ts (match s with Some x => x | None => {| counter := 0; ts := t; sthr := T |} end)).
    { destruct s; reflexivity. }
    rewrite Hprev. clear Hprev.
    unfold count_step in Hex, Hwf1.
    set (x0 := match s with Some x => x | None => {| counter := 0; ts := t; sthr := T |} end) in *.
    destruct isNew.
    + (* a new source: counter reset, verdict false *)
      cbn [fst snd orb] in Hex, Hwf1.
      specialize (IH _ HT HU Hr Hwf1).
      cbn [counter_of ts_of counter ts] in IH.
      specialize (IH ltac:(lia) Hex). lia.
    + cbn [fst snd] in Hex, Hwf1.
      pose proof (quick_count_nonneg MI r (Some t)) as Hq.
      destruct ((t - ts x0) <? MI) eqn:Hquick.
      * destruct (T <=? counter x0 + 1) eqn:Hv.
        -- lia.
        -- cbn [orb] in Hex.
           assert (Hne : (counter x0 + 1 =? T) = false) by lia.
           rewrite Hne in Hex, Hwf1.
           specialize (IH _ HT HU Hr Hwf1). cbn [counter_of ts_of counter ts] in IH.
           specialize (IH ltac:(lia) Hex). lia.
      * destruct (T <=? counter x0) eqn:Hv.
        -- lia.
        -- cbn [orb] in Hex.
           assert (Hne : (counter x0 =? T) = false) by lia.
           rewrite Hne in Hex, Hwf1.
           specialize (IH _ HT HU Hr Hwf1). cbn [counter_of ts_of counter ts] in IH.
           specialize (IH ltac:(lia) Hex). lia.
Qed.

Lemma arun_firstn MI U ops : forall n s,
  snd (arun MI U s (firstn n ops)) = firstn n (snd (arun MI U s ops)).
Proof.
  induction ops as [|o r IH]; intros n s.
  - rewrite firstn_nil. cbn. rewrite firstn_nil. reflexivity.
  - destruct n; [reflexivity|]. cbn [firstn]. rewrite !arun_cons. cbn [snd firstn]. rewrite IH. reflexivity.
Qed.

Lemma nth_true_existsb (l : list bool) : forall i,
  nth_error l i = Some true -> existsb (fun v => v) (firstn (S i) l) = true.
Proof.
  induction l as [|v l IH]; intros i H; [destruct i; discriminate|].
  destruct i; cbn [nth_error] in H.
  - injection H as ->. reflexivity.
  - change (firstn (S (S i)) (v :: l)) with (v :: firstn (S i) l).
    cbn [existsb]. rewrite (IH i H). apply orb_true_r.
Qed.

Lemma forallb_firstn {A} (f : A -> bool) (l : list A) : forall n,
  forallb f l = true -> forallb f (firstn n l) = true.
Proof.
  induction l as [|x l IH]; intros n H; [rewrite firstn_nil; reflexivity|].
  destruct n; [reflexivity|]. cbn [firstn forallb] in *. apply andb_true_iff in H. destruct H as [H1 H2].
  rewrite H1, (IH n H2). reflexivity.
Qed.

(* From a state with counter r < T (in particular: what a Maintenance round left behind), a call of a
   run of IsSpam calls without a round in between is flagged only if r plus the number of quick calls
   up to and including it reaches T. *)
Theorem ban_onset MI U T s seg i :
  0 < T -> 0 <= U ->
  forallb (is_count_ev T) seg = true -> wf T s -> counter_of s < T ->
  nth_error (snd (arun MI U s seg)) i = Some true ->
  T <= counter_of s + quick_count MI (ts_of s) (firstn (S i) seg).
Proof.
  intros HT HU Hall Hwf Hlt Hi.
  apply (onset_aux MI U T (firstn (S i) seg) s HT HU); try assumption.
  - apply forallb_firstn. exact Hall.
  - rewrite arun_firstn. apply nth_true_existsb. exact Hi.
Qed.

(* the same for the state reached by any history that ends with a Maintenance round *)
Theorem ban_onset_reachable MI U T ops0 seg i :
  0 < T -> 0 <= U ->
  forallb (uniform_op T) ops0 = true -> forallb (is_count_ev T) seg = true ->
  let s := fst (arun MI U None (ops0 ++ [Maint])) in
  banned T s = false ->
  nth_error (snd (arun MI U s seg)) i = Some true ->
  T <= counter_of s + quick_count MI (ts_of s) (firstn (S i) seg).
Proof.
  intros HT HU Hu Hall s Hb Hi.
  apply (ban_onset MI U T s seg i HT HU Hall); try assumption.
  - apply arun_wf; try assumption; [|exact I].
    rewrite forallb_app, Hu. reflexivity.
  - unfold banned in Hb. lia.
Qed.

Theorem ban_onset_needs_T MI U T ops0 seg i :
  0 < T -> 0 <= U ->
  forallb (uniform_op T) ops0 = true -> forallb (is_count_ev T) seg = true ->
  let s := fst (arun MI U None (ops0 ++ [Maint])) in
  counter_of s = 0 ->
  nth_error (snd (arun MI U s seg)) i = Some true ->
  T <= quick_count MI (ts_of s) (firstn (S i) seg).
Proof.
  intros HT HU Hu Hall s H0 Hi.
  pose proof (ban_onset_reachable MI U T ops0 seg i HT HU Hu Hall) as H. cbv zeta in H.
  fold s in H. rewrite H0 in H. apply H; [|exact Hi]. unfold banned. rewrite H0. lia.
Qed.

(* what a round leaves behind: 0 for a source that was not banned before it ... *)
Theorem maint_unbanned_leaves_zero U T s :
  0 < T -> 0 <= U -> wf T s -> banned T s = false -> counter_of (maint_step U s) = 0.
Proof.
  intros HT HU Hwf Hb. unfold banned in Hb. unfold maint_step.
  destruct s as [x|]; [|reflexivity]. cbn [wf counter_of] in *. destruct Hwf as [H1 H2].
  destruct (counter x =? 0); [reflexivity|]. cbn [counter_of counter]. rewrite H1.
  destruct (U * T <? Z.max (counter x - T) 0) eqn:E; nia.
Qed.

(* ... and x - T for a banned source whose ban ends with this round (the residual) *)
Theorem maint_residual U T x :
  0 < T -> 1 <= U -> sthr x = T -> T <= counter x < 2 * T ->
  maint_step U (Some x) = Some {| counter := counter x - T; ts := ts x; sthr := T |}.
Proof.
  intros HT HU H1 H2. unfold maint_step.
  assert (E0 : (counter x =? 0) = false) by lia. rewrite E0, H1.
  assert (E1 : (U * T <? Z.max (counter x - T) 0) = false) by nia. rewrite E1.
  f_equal. f_equal. lia.
Qed.

(* a flagged call leaves the source banned (U >= 1), a banned source is flagged *)
Theorem flagged_iff_banned_after MI U T s t :
  0 < T -> 1 <= U ->
  snd (count_step MI U T s false t) = banned T (fst (count_step MI U T s false t)).
Proof.
  intros HT HU. unfold count_step, banned. cbn [fst snd counter_of counter].
  set (x := if _ <? MI then _ else _).
  destruct (x =? T) eqn:E; nia.
Qed.

Theorem banned_is_flagged MI U T s t :
  banned T s = true -> snd (count_step MI U T s false t) = true.
Proof.
  unfold banned, count_step. intros Hb. destruct s as [x|]; cbn [counter_of snd] in *.
  - destruct (_ <? MI); lia.
  - cbn [counter ts]. destruct (_ <? MI); lia.
Qed.

(* Maintenance never bans *)
Theorem maint_never_bans U T s :
  0 < T -> 0 <= U -> wf T s -> banned T s = false -> banned T (maint_step U s) = false.
Proof.
  intros HT HU Hwf Hb. unfold banned.
  rewrite (maint_unbanned_leaves_zero U T s HT HU Hwf Hb). lia.
Qed.

(* ---- unban ---------------------------------------------------------------------------------- *)
Lemma maint_step_bound U T s :
  0 < T -> 0 <= U -> wf T s -> counter_of (maint_step U s) <= U * T.
Proof.
  intros HT HU Hwf. unfold maint_step. destruct s as [x|]; cbn [counter_of]; [|nia].
  cbn [wf] in Hwf. destruct Hwf as [H1 H2].
  destruct (counter x =? 0); cbn [counter_of counter]; [nia|]. rewrite H1.
  destruct (U * T <? Z.max (counter x - T) 0) eqn:E; nia.
Qed.

Lemma maint_step_decay U T s k :
  0 < T -> 0 <= U -> 0 <= k -> wf T s -> counter_of s <= (k + 1) * T -> counter_of (maint_step U s) <= k * T.
Proof.
  intros HT HU Hk Hwf Hc. unfold maint_step. destruct s as [x|]; cbn [counter_of] in *; [|nia].
  cbn [wf] in Hwf. destruct Hwf as [H1 H2].
  destruct (counter x =? 0); cbn [counter_of counter]; [nia|]. rewrite H1.
  destruct (U * T <? Z.max (counter x - T) 0) eqn:E; nia.
Qed.

Lemma counter_of_nonneg T s : wf T s -> 0 <= counter_of s.
Proof. destruct s; cbn; lia. Qed.

Lemma decay U T n : forall s,
  0 < T -> 0 <= U -> wf T s -> counter_of s <= Z.of_nat n * T -> counter_of (maint_n U n s) = 0.
Proof.
  induction n as [|n IH]; intros s HT HU Hwf Hc.
  - cbn [maint_n]. pose proof (counter_of_nonneg T s Hwf). lia.
  - cbn [maint_n]. apply IH; try assumption.
    + apply maint_step_wf; assumption.
    + apply maint_step_decay; try assumption; lia.
Qed.

Lemma maint_n_succ_r U n : forall s, maint_n U (S n) s = maint_step U (maint_n U n s).
Proof.
  induction n as [|n IH]; intros s; [reflexivity|].
  change (maint_n U (S (S n)) s) with (maint_n U (S n) (maint_step U s)). rewrite IH. reflexivity.
Qed.

Lemma maint_n_wf U T n : forall s, 0 < T -> 0 <= U -> wf T s -> wf T (maint_n U n s).
Proof.
  induction n as [|n IH]; intros s HT HU Hwf; [exact Hwf|].
  cbn [maint_n]. apply IH; try assumption. apply maint_step_wf; assumption.
Qed.

Lemma arun_repeat_maint MI U n : forall s, fst (arun MI U s (repeat Maint n)) = maint_n U n s.
Proof.
  induction n as [|n IH]; intros s; [reflexivity|].
  cbn [repeat]. rewrite arun_cons. cbn [fst astep maint_n]. apply IH.
Qed.

Lemma maint_zero_deletes U s : counter_of s = 0 -> maint_step U s = None.
Proof.
  unfold maint_step. destruct s as [x|]; [|reflexivity]. cbn [counter_of]. intros ->. reflexivity.
Qed.

(* whatever the source did before: U+1 rounds without an IsSpam call leave it unbanned with counter 0,
   and the round after that removes its entry *)
Theorem unban_wf U T s :
  0 < T -> 0 <= U -> wf T s ->
  let s' := maint_n U (S (Z.to_nat U)) s in
  banned T s' = false /\ counter_of s' = 0 /\ maint_step U s' = None.
Proof.
  intros HT HU Hwf s'.
  assert (H0 : counter_of s' = 0).
  { unfold s'. cbn [maint_n]. apply (decay U T); try assumption.
    - apply maint_step_wf; assumption.
    - rewrite Z2Nat.id by lia. apply maint_step_bound; assumption. }
  split; [unfold banned; lia|]. split; [exact H0|]. apply maint_zero_deletes. exact H0.
Qed.

Theorem unban_within_U_plus_1 MI U T ops :
  0 < T -> 0 <= U -> forallb (uniform_op T) ops = true ->
  let s := fst (arun MI U None ops) in
  let s' := fst (arun MI U s (repeat Maint (Z.to_nat (U + 1)))) in
  banned T s' = false /\ counter_of s' = 0 /\ fst (arun MI U s' [Maint]) = None.
Proof.
  intros HT HU Hu s s'.
  assert (Hwf : wf T s) by (apply arun_wf; try assumption; exact I).
  unfold s'. rewrite arun_repeat_maint.
  replace (Z.to_nat (U + 1)) with (S (Z.to_nat U)) by lia.
  exact (unban_wf U T s HT HU Hwf).
Qed.

(* ---- the defect: the residual lowers the next ban's threshold --------------------------------- *)
Definition ev10 : aop := Ev (Count 10) false 0.

Theorem ban_onset_residual_refuted :
  exists T MI U ops0 seg i,
    0 < T /\ 0 <= U /\
    forallb (uniform_op T) ops0 = true /\ forallb (is_count_ev T) seg = true /\
    let s := fst (arun MI U None (ops0 ++ [Maint])) in
    banned T s = false /\
    nth_error (snd (arun MI U s seg)) i = Some true /\
    quick_count MI (ts_of s) (firstn (S i) seg) < T.
Proof.
  exists 10, 1, 4, (repeat ev10 15 ++ repeat Maint 3), (repeat ev10 5), 4%nat.
  vm_compute. repeat split; congruence.
Qed.

(* ---- several sources: each one sees only its own calls and the rounds --------------------------- *)
Lemma nth_error_set_nth_eq {A} (l : list A) : forall k v x,
  nth_error l k = Some x -> nth_error (set_nth k v l) k = Some v.
Proof.
  induction l as [|y l IH]; intros k v x H; destruct k; cbn in *; try discriminate; [reflexivity|].
  eapply IH. exact H.
Qed.

Lemma nth_error_set_nth_neq {A} (l : list A) : forall k j v,
  k <> j -> nth_error (set_nth k v l) j = nth_error l j.
Proof.
  induction l as [|y l IH]; intros k j v H; destruct k, j; cbn; try reflexivity; try congruence.
  apply IH. congruence.
Qed.

Lemma mstep_proj MI U ms o id s :
  nth_error ms id = Some s ->
  nth_error (fst (mstep MI U ms o)) id = Some (fst (arun MI U s (proj id o))).
Proof.
  intros Hs. destruct o as [id' d isNew t| |]; cbn [mstep proj].
  - destruct (Nat.eqb id' id) eqn:E.
    + apply Nat.eqb_eq in E. subst id'. rewrite Hs.
      rewrite arun_cons. cbn [arun fst].
      destruct (astep MI U s (Ev d isNew t)) as [s' v]. cbn [fst].
      eapply nth_error_set_nth_eq. exact Hs.
    + apply Nat.eqb_neq in E. cbn [arun fst].
      destruct (nth_error ms id') as [s0|]; [|exact Hs].
      destruct (astep MI U s0 (Ev d isNew t)) as [s' v]. cbn [fst].
      rewrite nth_error_set_nth_neq by exact E. exact Hs.
  - cbn [fst]. rewrite arun_cons. cbn [arun fst astep].
    apply map_nth_error. exact Hs.
  - cbn [fst arun]. exact Hs.
Qed.

Lemma mrun_cons MI U ms o r :
  fst (mrun MI U ms (o :: r)) = fst (mrun MI U (fst (mstep MI U ms o)) r).
Proof.
  cbn [mrun]. destruct (mstep MI U ms o) as [ms1 v]. cbn [fst].
  destruct (mrun MI U ms1 r) as [ms2 vs]. reflexivity.
Qed.

Theorem sources_independent MI U ops : forall ms id s,
  nth_error ms id = Some s ->
  nth_error (fst (mrun MI U ms ops)) id = Some (fst (arun MI U s (flat_map (proj id) ops))).
Proof.
  induction ops as [|o r IH]; intros ms id s Hs.
  - exact Hs.
  - rewrite mrun_cons. cbn [flat_map]. rewrite arun_app. cbn [fst].
    apply IH. apply mstep_proj. exact Hs.
Qed.
