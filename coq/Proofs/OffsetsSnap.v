(* Proofs about Model/OffsetsSnap.v: a snapshot never runs ahead of the commits. *)
From Verif Require Import Base.Sx Base.GoSem Model.OffsetsSnap Proofs.OffsetsFmt.
From Coq Require Import Lia.

Lemma beqb_refl a : bytes_eqb a a = true.
Proof. apply bytes_eqb_eq. reflexivity. Qed.

Lemma sget_sset_same m : forall k v, sget (sset m k v) k = v.
Proof.
  induction m as [|[k' v'] m IH]; intros k v; cbn [sset sget].
  - rewrite beqb_refl. reflexivity.
  - destruct (bytes_eqb k' k) eqn:E; cbn [sget]; rewrite E; [reflexivity | apply IH].
Qed.

Lemma sget_sset_other m : forall k v k', k' <> k -> sget (sset m k v) k' = sget m k'.
Proof.
  induction m as [|[k0 v0] m IH]; intros k v k' Hne; cbn [sset sget].
  - destruct (bytes_eqb k k') eqn:E; [apply bytes_eqb_eq in E; congruence | reflexivity].
  - destruct (bytes_eqb k0 k) eqn:E; cbn [sget].
    + apply bytes_eqb_eq in E. subst k0.
      destruct (bytes_eqb k k') eqn:E'; [apply bytes_eqb_eq in E'; congruence | reflexivity].
    + destruct (bytes_eqb k0 k'); [reflexivity | apply IH; exact Hne].
Qed.

Lemma sset_mono m k v : sget m k < v -> forall s, sget m s <= sget (sset m k v) s.
Proof.
  intros H s. destruct (bytes_eqb k s) eqn:E.
  - apply bytes_eqb_eq in E. subst s. rewrite sget_sset_same. lia.
  - rewrite sget_sset_other; [lia|]. intros ->. rewrite beqb_refl in E. discriminate.
Qed.

Lemma tget_tset_same t : forall j m m0, tget t j = Some m0 -> tget (tset t j m) j = Some m.
Proof.
  induction t as [|[j' m'] t IH]; intros j m m0 H; cbn [tget tset] in *; [discriminate|].
  destruct (N.eqb j' j) eqn:E; cbn [tget]; rewrite E; [reflexivity | eapply IH; exact H].
Qed.

Lemma tget_tset_other t : forall j m j', j' <> j -> tget (tset t j m) j' = tget t j'.
Proof.
  induction t as [|[j0 m0] t IH]; intros j m j' Hne; cbn [tget tset]; [reflexivity|].
  destruct (N.eqb j0 j) eqn:E; cbn [tget].
  - apply N.eqb_eq in E. subst j0. destruct (N.eqb j j') eqn:E'; [apply N.eqb_eq in E'; congruence | reflexivity].
  - destruct (N.eqb j0 j'); [reflexivity | apply IH; exact Hne].
Qed.

Lemma tget_app_fresh t : forall j j' m, tget t j = None -> j' <> j -> tget (t ++ [(j, m)]) j' = tget t j'.
Proof.
  induction t as [|[j0 m0] t IH]; intros j j' m Hn Hne; cbn [app tget] in *.
  - destruct (N.eqb j j') eqn:E; [apply N.eqb_eq in E; congruence | reflexivity].
  - destruct (N.eqb j0 j) eqn:E0; [discriminate|]. destruct (N.eqb j0 j'); [reflexivity | apply IH; assumption].
Qed.

(* every job of t exists in t' with offsets at least as large *)
Definition tle (t t' : table) : Prop :=
  forall j m, tget t j = Some m -> exists m', tget t' j = Some m' /\ forall s, sget m s <= sget m' s.

Lemma tle_refl t : tle t t.
Proof. intros j m H. exists m. split; [exact H | intros; lia]. Qed.

Lemma tle_trans a b c : tle a b -> tle b c -> tle a c.
Proof.
  intros H1 H2 j m H. destruct (H1 j m H) as (m1 & G1 & L1). destruct (H2 j m1 G1) as (m2 & G2 & L2).
  exists m2. split; [exact G2|]. intros s. specialize (L1 s). specialize (L2 s). lia.
Qed.

Definition in_snapshot (c : cst) (j : N) (m : smap) : Prop :=
  In (j, m) (file c) \/ exists rest buf, pending c = Some (rest, buf) /\ In (j, m) buf.

Record inv (c : cst) : Prop := {
  inv_hist : forall t, In t (hist c) -> tle t (live c);
  inv_snap : forall j m, in_snapshot c j m -> exists t, In t (live c :: hist c) /\ tget t j = Some m
}.

Lemma inv0 : inv cst0.
Proof.
  constructor; cbn.
  - intros t [].
  - intros j m [[]|(rest & buf & E & _)]. discriminate E.
Qed.

Lemma inv_live_grows c t' :
  inv c -> tle (live c) t' ->
  forall pend fl, pend = pending c -> fl = file c ->
  inv {| live := t'; pending := pend; file := fl; hist := live c :: hist c |}.
Proof.
  intros [IH IS] Hle pend fl -> ->. constructor; cbn [live hist pending file].
  - intros t [<-|Ht]; [exact Hle | eapply tle_trans; [apply IH; exact Ht | exact Hle]].
  - intros j m Hs. destruct (IS j m) as (t & Ht & G).
    + destruct Hs as [Hf|(rest & buf & E & Hb)]; [left; exact Hf | right; exists rest, buf; split; assumption].
    + exists t. split; [right; exact Ht | exact G].
Qed.

Lemma inv_step c l c' : inv c -> step c l = Some c' -> inv c'.
Proof.
  intros I H. destruct l as [j|j s v| | |]; cbn [step] in H.
  - (* add job *)
    destruct (tget (live c) j) eqn:G; [discriminate|]. inversion H; subst c'; clear H.
    apply (inv_live_grows c); [exact I | | reflexivity | reflexivity].
    intros j' m Hj'. exists m. split; [|intros; lia].
    rewrite tget_app_fresh; [exact Hj' | exact G | intros ->; congruence].
  - (* commit *)
    destruct (tget (live c) j) as [m0|] eqn:G; [|inversion H; subst; exact I].
    destruct (Z.ltb_spec (sget m0 s) v) as [Hlt|]; [|discriminate]. inversion H; subst c'; clear H.
    apply (inv_live_grows c); [exact I | | reflexivity | reflexivity].
    intros j' m Hj'. destruct (N.eq_dec j' j) as [->|Hne].
    + exists (sset m0 s v). split; [eapply tget_tset_same; exact G|].
      rewrite G in Hj'. inversion Hj'; subst m. apply sset_mono. exact Hlt.
    + exists m. split; [rewrite tget_tset_other by exact Hne; exact Hj' | intros; lia].
  - (* save begins *)
    destruct (pending c) eqn:P; [discriminate|]. inversion H; subst c'; clear H.
    destruct I as [IH IS]. constructor; cbn [live hist pending file]; [exact IH|].
    intros j m [Hf|(rest & buf & E & Hb)]; [apply IS; left; exact Hf|].
    inversion E; subst. destruct Hb.
  - (* save visits a job *)
    destruct (pending c) as [[[|j rest] buf]|] eqn:P; try discriminate. inversion H; subst c'; clear H.
    destruct I as [IH IS]. constructor; cbn [live hist pending file]; [exact IH|].
    intros j' m [Hf|(rest' & buf' & E & Hb)]; [apply IS; left; exact Hf|].
    inversion E; subst rest' buf'; clear E.
    assert (Hold : In (j', m) buf -> exists t, In t (live c :: hist c) /\ tget t j' = Some m).
    { intros Hin. apply IS. right. exists (j :: rest), buf. split; [exact P | exact Hin]. }
    destruct (tget (live c) j) as [[|kv m0]|] eqn:G; try (apply Hold; exact Hb).
    apply in_app_or in Hb. destruct Hb as [Hb|[Hb|[]]]; [apply Hold; exact Hb|].
    inversion Hb; subst j' m. exists (live c). split; [left; reflexivity | exact G].
  - (* save ends *)
    destruct (pending c) as [[[|j rest] buf]|] eqn:P; try discriminate. inversion H; subst c'; clear H.
    destruct I as [IH IS]. constructor; cbn [live hist pending file]; [exact IH|].
    intros j m [Hf|(rest' & buf' & E & _)]; [|discriminate E].
    apply IS. right. exists [], buf. split; [exact P | exact Hf].
Qed.

Lemma inv_run : forall ls c c', inv c -> run_lts c ls = Some c' -> inv c'.
Proof.
  induction ls as [|l ls IH]; intros c c' I H; cbn [run_lts] in H.
  - inversion H; subst. exact I.
  - destruct (step c l) as [c1|] eqn:S; [|discriminate]. eapply IH; [eapply inv_step; eassumption | exact H].
Qed.

(* every block of the offsets file (and of a snapshot being taken) is the offsets map one job had at
   an earlier instant — the instant save held that job's lock — and no offset in it exceeds what is
   committed now *)
Theorem snapshot_not_ahead : forall ls c,
  run_lts cst0 ls = Some c ->
  forall j m, in_snapshot c j m ->
    (exists t, In t (live c :: hist c) /\ tget t j = Some m) /\
    (exists m', tget (live c) j = Some m' /\ forall s, sget m s <= sget m' s).
Proof.
  intros ls c H j m Hs. pose proof (inv_run ls cst0 c inv0 H) as [IH IS].
  destruct (IS j m Hs) as (t & Ht & G). split; [exists t; split; assumption|].
  destruct Ht as [<-|Ht]; [apply (tle_refl (live c)); exact G | apply (IH t Ht); exact G].
Qed.
