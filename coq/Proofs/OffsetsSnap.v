(* Proofs about Model/OffsetsSnap.v: a snapshot never runs ahead of the commits. *)
From Verif Require Import Base.Sx Base.GoSem Model.OffsetsSnap Proofs.OffsetsFmt.
From Coq Require Import Lia.

Lemma beqb_refl a : bytes_eqb a a = true.
Proof. apply bytes_eqb_eq. reflexivity. Qed.

Lemma sget_sset_same m : forall k v, sget (sset m k v) k = v.
Proof.
  induction m as [|[k' v'] m IH]; intros k v; cbn [sset sget].
  - rewrite beqb_refl. reflexivity.
  - destruct (bytes_eqb k' k) eqn:E; cbn [sget]; rewrite E; [reflexivity | apply IH].
Qed.

Lemma sget_sset_other m : forall k v k', k' <> k -> sget (sset m k v) k' = sget m k'.
Proof.
  induction m as [|[k0 v0] m IH]; intros k v k' Hne; cbn [sset sget].
  - destruct (bytes_eqb k k') eqn:E; [apply bytes_eqb_eq in E; congruence | reflexivity].
  - destruct (bytes_eqb k0 k) eqn:E; cbn [sget].
    + apply bytes_eqb_eq in E. subst k0.
      destruct (bytes_eqb k k') eqn:E'; [apply bytes_eqb_eq in E'; congruence | reflexivity].
    + destruct (bytes_eqb k0 k'); [reflexivity | apply IH; exact Hne].
Qed.

Lemma sset_mono m k v : sget m k < v -> forall s, sget m s <= sget (sset m k v) s.
Proof.
  intros H s. destruct (bytes_eqb k s) eqn:E.
  - apply bytes_eqb_eq in E. subst s. rewrite sget_sset_same. lia.
  - rewrite sget_sset_other; [lia|]. intros ->. rewrite beqb_refl in E. discriminate.
Qed.

Lemma tget_tset_same t : forall j m m0, tget t j = Some m0 -> tget (tset t j m) j = Some m.
Proof.
  induction t as [|[j' m'] t IH]; intros j m m0 H; cbn [tget tset] in *; [discriminate|].
  destruct (N.eqb j' j) eqn:E; cbn [tget]; rewrite E; [reflexivity | eapply IH; exact H].
Qed.

Lemma tget_tset_other t : forall j m j', j' <> j -> tget (tset t j m) j' = tget t j'.
Proof.
  induction t as [|[j0 m0] t IH]; intros j m j' Hne; cbn [tget tset]; [reflexivity|].
  destruct (N.eqb j0 j) eqn:E; cbn [tget].
  - apply N.eqb_eq in E. subst j0. destruct (N.eqb j j') eqn:E'; [apply N.eqb_eq in E'; congruence | reflexivity].
  - destruct (N.eqb j0 j'); [reflexivity | apply IH; exact Hne].
Qed.

Lemma tget_app_fresh t : forall j j' m, tget t j = None -> j' <> j -> tget (t ++ [(j, m)]) j' = tget t j'.
Proof.
  induction t as [|[j0 m0] t IH]; intros j j' m Hn Hne; cbn [app tget] in *.
  - destruct (N.eqb j j') eqn:E; [apply N.eqb_eq in E; congruence | reflexivity].
  - destruct (N.eqb j0 j) eqn:E0; [discriminate|]. destruct (N.eqb j0 j'); [reflexivity | apply IH; assumption].
Qed.

(* every job of t exists in t' with offsets at least as large *)
Definition tle (t t' : table) : Prop :=
  forall j m, tget t j = Some m -> exists m', tget t' j = Some m' /\ forall s, sget m s <= sget m' s.

Lemma tle_refl t : tle t t.
Proof. intros j m H. exists m. split; [exact H | intros; lia]. Qed.

Lemma tle_trans a b c : tle a b -> tle b c -> tle a c.
Proof.
  intros H1 H2 j m H. destruct (H1 j m H) as (m1 & G1 & L1). destruct (H2 j m1 G1) as (m2 & G2 & L2).
  exists m2. split; [exact G2|]. intros s. specialize (L1 s). specialize (L2 s). lia.
Qed.

(* ---- saves in flight: list lemmas ------------------------------------------------------------------- *)
Lemma sv_get_in l : forall i p, sv_get l i = Some p -> In (i, p) l.
Proof.
  induction l as [|[k q] l IH]; intros i p H; cbn [sv_get] in H; [discriminate|].
  destruct (Nat.eqb_spec k i) as [->|Hne]; [inversion H; left; reflexivity | right; apply IH; exact H].
Qed.

Lemma sv_del_in l i : forall k p, In (k, p) (sv_del l i) -> k <> i /\ In (k, p) l.
Proof.
  induction l as [|[k0 q] l IH]; intros k p H; cbn [sv_del] in H; [destruct H|].
  destruct (Nat.eqb_spec k0 i) as [->|Hne].
  - destruct (IH _ _ H) as [A B]. split; [exact A | right; exact B].
  - destruct H as [E|H]; [inversion E; subst; split; [exact Hne | left; reflexivity]|].
    destruct (IH _ _ H) as [A B]. split; [exact A | right; exact B].
Qed.

Lemma sv_set_in l i q k p : In (k, p) (sv_set l i q) -> (k = i /\ p = q) \/ (k <> i /\ In (k, p) l).
Proof.
  unfold sv_set. intros [E|H]; [inversion E; left; split; reflexivity | right; apply sv_del_in; exact H].
Qed.

(* ---- every block anywhere (file, shared buffer, temp files, finished serialisations) is a past job state *)
Definition block_of (c : cst) (j : N) (m : smap) : Prop :=
  In (j, m) (file c) \/ In (j, m) (buf c) \/
  (exists i tmp, In (i, Written tmp) (saves c) /\ In (j, m) tmp) \/
  (exists i b, In (i, b) (built c) /\ In (j, m) b).

Record inv (c : cst) : Prop := {
  inv_hist : forall t, In t (hist c) -> tle t (live c);
  inv_blk : forall j m, block_of c j m -> exists t, In t (live c :: hist c) /\ tget t j = Some m
}.

Lemma inv0 : inv cst0.
Proof.
  constructor; cbn.
  - intros t [].
  - intros j m [[]|[[]|[(i & tmp & [] & _)|(i & b & [] & _)]]].
Qed.

Lemma inv_live_grows c t' c' :
  inv c -> tle (live c) t' ->
  live c' = t' -> hist c' = live c :: hist c ->
  file c' = file c -> buf c' = buf c -> saves c' = saves c -> built c' = built c ->
  inv c'.
Proof.
  intros [IH IS] Hle El Eh Ef Eb Es Ebt. constructor.
  - rewrite El, Eh. intros t [<-|Ht]; [exact Hle | eapply tle_trans; [apply IH; exact Ht | exact Hle]].
  - intros j m Hs. destruct (IS j m) as (t & Ht & G).
    + unfold block_of in *. rewrite Ef, Eb, Es, Ebt in Hs. exact Hs.
    + exists t. rewrite Eh. split; [right; exact Ht | exact G].
Qed.

(* a step that leaves live/hist alone and only moves existing blocks around (or adds current job states) *)
Lemma inv_same_live c c' :
  inv c -> live c' = live c -> hist c' = hist c ->
  (forall j m, block_of c' j m -> block_of c j m \/ tget (live c) j = Some m) ->
  inv c'.
Proof.
  intros [IH IS] El Eh Hb. constructor.
  - rewrite El, Eh. exact IH.
  - rewrite El, Eh. intros j m H. destruct (Hb j m H) as [H'|G]; [apply IS; exact H'|].
    exists (live c). split; [left; reflexivity | exact G].
Qed.

Lemma inv_step hold c l c' : inv c -> step hold c l = Some c' -> inv c'.
Proof.
  intros I H. destruct l as [j|j s v|i|i|i|i|i]; cbn [step] in H.
  - (* add job *)
    destruct (tget (live c) j) eqn:G; [discriminate|]. inversion H; subst c'; clear H.
    eapply (inv_live_grows c); try reflexivity; [exact I|].
    intros j' m Hj'. exists m. split; [|intros; lia].
    cbn [live]. rewrite tget_app_fresh; [exact Hj' | exact G | intros ->; congruence].
  - (* commit *)
    destruct (tget (live c) j) as [m0|] eqn:G; [|inversion H; subst; exact I].
    destruct (Z.ltb_spec (sget m0 s) v) as [Hlt|]; [|discriminate]. inversion H; subst c'; clear H.
    eapply (inv_live_grows c); try reflexivity; [exact I|].
    intros j' m Hj'. cbn [live]. destruct (N.eq_dec j' j) as [->|Hne].
    + exists (sset m0 s v). split; [eapply tget_tset_same; exact G|].
      rewrite G in Hj'. inversion Hj'; subst m. apply sset_mono. exact Hlt.
    + exists m. split; [rewrite tget_tset_other by exact Hne; exact Hj' | intros; lia].
  - (* save begins *)
    destruct (mu c); [discriminate|]. destruct (sv_get (saves c) i); [discriminate|].
    inversion H; subst c'; clear H. apply (inv_same_live c); try reflexivity; [exact I|].
    intros j m [Hf|[[]|[(k & tmp & Hk & Hin)|Hb]]]; left.
    + left; exact Hf.
    + cbn [saves] in Hk. apply sv_set_in in Hk. destruct Hk as [[_ E]|[_ Hk]]; [discriminate E|].
      right; right; left. exists k, tmp. split; assumption.
    + right; right; right. exact Hb.
  - (* save visits a job *)
    destruct (sv_get (saves c) i) as [[[|j rest]| |]|] eqn:P; try discriminate.
    destruct (holds_mu c i); [|discriminate]. inversion H; subst c'; clear H.
    apply (inv_same_live c); try reflexivity; [exact I|].
    intros j' m [Hf|[Hb|[(k & tmp & Hk & Hin)|Hb]]].
    + left; left; exact Hf.
    + cbn [buf] in Hb.
      destruct (tget (live c) j) as [[|kv m0]|] eqn:G; try (left; right; left; exact Hb).
      apply in_app_or in Hb. destruct Hb as [Hb|[Hb|[]]]; [left; right; left; exact Hb|].
      inversion Hb; subst j' m. right. exact G.
    + cbn [saves] in Hk. apply sv_set_in in Hk. destruct Hk as [[_ E]|[_ Hk]]; [discriminate E|].
      left; right; right; left. exists k, tmp. split; assumption.
    + left; right; right; right. exact Hb.
  - (* buffer built *)
    destruct (sv_get (saves c) i) as [[[|j rest]| |]|] eqn:P; try discriminate.
    destruct (holds_mu c i); [|discriminate]. inversion H; subst c'; clear H.
    apply (inv_same_live c); try reflexivity; [exact I|].
    intros j' m [Hf|[Hb|[(k & tmp & Hk & Hin)|(k & b & Hk & Hin)]]]; left.
    + left; exact Hf.
    + right; left; exact Hb.
    + cbn [saves] in Hk. apply sv_set_in in Hk. destruct Hk as [[_ E]|[_ Hk]]; [discriminate E|].
      right; right; left. exists k, tmp. split; assumption.
    + cbn [built] in Hk. destruct Hk as [E|Hk]; [inversion E; subst; right; left; exact Hin|].
      right; right; right. exists k, b. split; assumption.
  - (* write *)
    destruct (sv_get (saves c) i) as [[| |]|] eqn:P; try discriminate.
    inversion H; subst c'; clear H. apply (inv_same_live c); try reflexivity; [exact I|].
    intros j' m [Hf|[Hb|[(k & tmp & Hk & Hin)|Hb]]]; left.
    + left; exact Hf.
    + right; left; exact Hb.
    + cbn [saves] in Hk. apply sv_set_in in Hk. destruct Hk as [[_ E]|[_ Hk]].
      * inversion E; subst tmp. right; left; exact Hin.
      * right; right; left. exists k, tmp. split; assumption.
    + right; right; right. exact Hb.
  - (* rename *)
    destruct (sv_get (saves c) i) as [[| |tmp]|] eqn:P; try discriminate.
    inversion H; subst c'; clear H. apply (inv_same_live c); try reflexivity; [exact I|].
    intros j' m [Hf|[Hb|[(k & tmp' & Hk & Hin)|Hb]]]; left.
    + cbn [file] in Hf. right; right; left. exists i, tmp. split; [apply sv_get_in; exact P | exact Hf].
    + right; left; exact Hb.
    + cbn [saves] in Hk. apply sv_del_in in Hk. destruct Hk as [_ Hk].
      right; right; left. exists k, tmp'. split; assumption.
    + right; right; right. exact Hb.
Qed.

Lemma inv_run hold : forall ls c c', inv c -> run_lts hold c ls = Some c' -> inv c'.
Proof.
  induction ls as [|l ls IH]; intros c c' I H; cbn [run_lts] in H.
  - inversion H; subst. exact I.
  - destruct (step hold c l) as [c1|] eqn:S; [|discriminate]. eapply IH; [eapply inv_step; eassumption | exact H].
Qed.

(* every block of the offsets file (and of the shared buffer, of every temp file) is the offsets map one job
   had at an earlier instant — the instant a save held that job's lock — and no offset in it exceeds what is
   committed now; whether or not save keeps o.mu until the rename *)
Theorem snapshot_not_ahead : forall hold ls c,
  run_lts hold cst0 ls = Some c ->
  forall j m, block_of c j m ->
    (exists t, In t (live c :: hist c) /\ tget t j = Some m) /\
    (exists m', tget (live c) j = Some m' /\ forall s, sget m s <= sget m' s).
Proof.
  intros hold ls c H j m Hs. pose proof (inv_run hold ls cst0 c inv0 H) as [IH IS].
  destruct (IS j m Hs) as (t & Ht & G). split; [exists t; split; assumption|].
  destruct Ht as [<-|Ht]; [apply (tle_refl (live c)); exact G | apply (IH t Ht); exact G].
Qed.

(* ---- with o.mu held until after the rename the file is always ONE complete snapshot --------------------- *)
Record hinv (c : cst) : Prop := {
  h_mu : forall i p, In (i, p) (saves c) -> mu c = Some i;
  h_ready : forall i, In (i, Ready) (saves c) -> In (i, buf c) (built c);
  h_written : forall i tmp, In (i, Written tmp) (saves c) -> In (i, tmp) (built c);
  h_file : file_complete c
}.

Lemma hinv0 : hinv cst0.
Proof. constructor; cbn; try (intros; contradiction). reflexivity. Qed.

Lemma holds_mu_eq c i : holds_mu c i = true -> mu c = Some i.
Proof. unfold holds_mu. destruct (mu c) as [k|]; [|discriminate]. intros H. apply Nat.eqb_eq in H. congruence. Qed.

(* under h_mu, once save i holds the lock no entry with another key exists *)
Lemma only_owner c i k p : hinv c -> mu c = Some i -> In (k, p) (saves c) -> k = i.
Proof. intros Hh Hm Hin. pose proof (h_mu c Hh k p Hin) as E. congruence. Qed.

Lemma hinv_step c l c' : hinv c -> step true c l = Some c' -> hinv c'.
Proof.
  intros Hh H. destruct l as [j|j s v|i|i|i|i|i]; cbn [step] in H.
  - destruct (tget (live c) j); [discriminate|]. inversion H; subst c'; clear H.
    destruct Hh as [A B C D]. constructor; assumption.
  - destruct (tget (live c) j) as [m0|]; [|inversion H; subst; exact Hh].
    destruct (sget m0 s <? v); [|discriminate]. inversion H; subst c'; clear H.
    destruct Hh as [A B C D]. constructor; assumption.
  - (* begin: no other save is in flight *)
    destruct (mu c) eqn:M; [discriminate|]. destruct (sv_get (saves c) i); [discriminate|].
    inversion H; subst c'; clear H.
    assert (Hnone : forall k p, In (k, p) (saves c) -> False).
    { intros k p Hin. pose proof (h_mu c Hh k p Hin). congruence. }
    constructor; cbn [saves mu buf built file renamed].
    + intros k p Hk. apply sv_set_in in Hk. destruct Hk as [[-> _]|[_ Hk]]; [reflexivity | destruct (Hnone _ _ Hk)].
    + intros k Hk. apply sv_set_in in Hk. destruct Hk as [[_ E]|[_ Hk]]; [discriminate E | destruct (Hnone _ _ Hk)].
    + intros k tmp Hk. apply sv_set_in in Hk. destruct Hk as [[_ E]|[_ Hk]]; [discriminate E | destruct (Hnone _ _ Hk)].
    + exact (h_file c Hh).
  - (* visit a job *)
    destruct (sv_get (saves c) i) as [[[|j rest]| |]|] eqn:P; try discriminate.
    destruct (holds_mu c i) eqn:HM; [|discriminate]. inversion H; subst c'; clear H.
    apply holds_mu_eq in HM.
    constructor; cbn [saves mu buf built file renamed].
    + intros k p Hk. apply sv_set_in in Hk. destruct Hk as [[-> _]|[_ Hk]]; [exact HM | apply (h_mu c Hh k p Hk)].
    + intros k Hk. apply sv_set_in in Hk. destruct Hk as [[_ E]|[Hne Hk]]; [discriminate E|].
      exfalso. apply Hne. eapply only_owner; eassumption.
    + intros k tmp Hk. apply sv_set_in in Hk. destruct Hk as [[_ E]|[Hne Hk]]; [discriminate E|].
      exfalso. apply Hne. eapply only_owner; eassumption.
    + exact (h_file c Hh).
  - (* built: the lock is kept *)
    destruct (sv_get (saves c) i) as [[[|j rest]| |]|] eqn:P; try discriminate.
    destruct (holds_mu c i) eqn:HM; [|discriminate]. inversion H; subst c'; clear H.
    apply holds_mu_eq in HM.
    constructor; cbn [saves mu buf built file renamed].
    + intros k p Hk. apply sv_set_in in Hk. destruct Hk as [[-> _]|[_ Hk]]; [exact HM | apply (h_mu c Hh k p Hk)].
    + intros k Hk. apply sv_set_in in Hk. destruct Hk as [[-> _]|[Hne Hk]]; [left; reflexivity|].
      exfalso. apply Hne. eapply only_owner; eassumption.
    + intros k tmp Hk. apply sv_set_in in Hk. destruct Hk as [[_ E]|[Hne Hk]]; [discriminate E|].
      exfalso. apply Hne. eapply only_owner; eassumption.
    + pose proof (h_file c Hh) as F. unfold file_complete in *. cbn [renamed file built].
      destruct (renamed c); [destruct F as (k & F); exists k; right; exact F | exact F].
  - (* write: the shared buffer is still what this save built *)
    destruct (sv_get (saves c) i) as [[| |]|] eqn:P; try discriminate.
    inversion H; subst c'; clear H.
    pose proof (sv_get_in _ _ _ P) as Pin. pose proof (h_mu c Hh _ _ Pin) as HM.
    constructor; cbn [saves mu buf built file renamed].
    + intros k p Hk. apply sv_set_in in Hk. destruct Hk as [[-> _]|[_ Hk]]; [exact HM | apply (h_mu c Hh k p Hk)].
    + intros k Hk. apply sv_set_in in Hk. destruct Hk as [[_ E]|[Hne Hk]]; [discriminate E|].
      exfalso. apply Hne. eapply only_owner; eassumption.
    + intros k tmp Hk. apply sv_set_in in Hk. destruct Hk as [[-> E]|[Hne Hk]].
      * inversion E; subst tmp. apply (h_ready c Hh i Pin).
      * exfalso. apply Hne. eapply only_owner; eassumption.
    + exact (h_file c Hh).
  - (* rename *)
    destruct (sv_get (saves c) i) as [[| |tmp]|] eqn:P; try discriminate.
    inversion H; subst c'; clear H.
    pose proof (sv_get_in _ _ _ P) as Pin. pose proof (h_mu c Hh _ _ Pin) as HM.
    constructor; cbn [saves mu buf built file renamed].
    + intros k p Hk. apply sv_del_in in Hk. destruct Hk as [Hne Hk]. exfalso. apply Hne. eapply only_owner; eassumption.
    + intros k Hk. apply sv_del_in in Hk. destruct Hk as [Hne Hk]. exfalso. apply Hne. eapply only_owner; eassumption.
    + intros k tmp' Hk. apply sv_del_in in Hk. destruct Hk as [Hne Hk]. exfalso. apply Hne. eapply only_owner; eassumption.
    + unfold file_complete. cbn [renamed file built]. exists i. apply (h_written c Hh i tmp Pin).
Qed.

Theorem file_complete_when_mu_held : forall ls c, run_lts true cst0 ls = Some c -> file_complete c.
Proof.
  intros ls. assert (G : forall c c', hinv c -> run_lts true c ls = Some c' -> hinv c').
  { induction ls as [|l ls IH]; intros c c' Hh H; cbn [run_lts] in H.
    - inversion H; subst. exact Hh.
    - destruct (step true c l) as [c1|] eqn:S; [|discriminate]. eapply IH; [eapply hinv_step; eassumption | exact H]. }
  intros c H. exact (h_file c (G cst0 c hinv0 H)).
Qed.

(* ... and with the lock released before the write it is not: save 1 serialises jobs 1 and 2 and unlocks;
   save 2 starts, resets the shared buffer and visits job 1; save 1 now writes the buffer — only job 1 — and
   renames: the file has lost job 2 *)
Definition overlap_trace : list label :=
  [LAddJob 1; LAddJob 2; LCommit 1 [97%N] 5; LCommit 2 [97%N] 6;
   LSaveBegin 1; LSaveJob 1; LSaveJob 1; LSaveBuilt 1;
   LSaveBegin 2; LSaveJob 2; LSaveWrite 1; LSaveRename 1].

Lemma file_complete_refuted_when_mu_released :
  exists c, run_lts false cst0 overlap_trace = Some c /\
            file c = [(1%N, [([97%N], 5)])] /\
            built c = [(1%nat, [(1%N, [([97%N], 5)]); (2%N, [([97%N], 6)])])] /\
            ~ file_complete c.
Proof.
  eexists. split; [vm_compute; reflexivity|]. split; [reflexivity|]. split; [reflexivity|].
  unfold file_complete. cbn. intros (i & [E|[]]). inversion E.
Qed.
