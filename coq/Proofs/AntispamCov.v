(* C20, the sub-models added for the behaviour the coverage report showed unreached:
   - the last stage of Pipeline.In (streamEvent: the input's PassEvent, DisableStreams) and the re-keying of a source by
     source_name_meta_field (Model/Antispam.v: in_stage3, pipeline_in3, source_key, pstep6);
   - the int32 counter (count_step32 / maint_step32 / arun32): exact agreement with the unbounded model on every run that
     is too short to leave the int32 range. *)
From Verif Require Import Base.Sx Base.GoSem Model.Admission Model.Antispam Proofs.Antispam.
From Coq Require Import Lia ZifyBool.

(* ---- PassEvent ------------------------------------------------------------------------------- *)
(* the input refuses an event exactly when everything before it let the event through, streams are on and
   PassEvent answered false *)
Theorem in3_refused_by_input_iff c cri decode_ok spam cur soff b streams_on pass :
  pipeline_in3 c cri decode_ok spam cur soff b streams_on pass = RefusedByInput <->
  ((exists d mark, pipeline_in c cri decode_ok spam cur soff b = Delivered d mark) /\ streams_on = true /\ pass = false).
Proof.
  unfold pipeline_in3, in_stage3.
  destruct (pipeline_in c cri decode_ok spam cur soff b) as [w|d mark|]; split.
  - discriminate.
  - intros [[d [mark H]] _]. discriminate.
  - destruct streams_on, pass; cbn; try discriminate. intros _. split; [eauto | split; reflexivity].
  - intros [_ [-> ->]]. reflexivity.
  - discriminate.
  - intros [[d [mark H]] _]. discriminate.
Qed.

(* otherwise In behaves as the chain of Model/Admission.v says: an input that passes everything, or disabled streams,
   add no refusal (so c20_in_refuse_iff / c20_in_delivered_spec describe the whole of In in that case) *)
Theorem in3_pass_is_in c cri decode_ok spam cur soff b streams_on pass :
  streams_on = false \/ pass = true ->
  pipeline_in3 c cri decode_ok spam cur soff b streams_on pass = R3 (pipeline_in c cri decode_ok spam cur soff b).
Proof.
  unfold pipeline_in3, in_stage3. intros H.
  destruct (pipeline_in c cri decode_ok spam cur soff b); try reflexivity.
  destruct H as [-> | ->]; [reflexivity | rewrite andb_false_r; reflexivity].
Qed.

(* what In refuses for any other reason it refuses whatever the input would have said *)
Theorem in3_refusal_independent_of_input c cri decode_ok spam cur soff b streams_on pass w :
  pipeline_in c cri decode_ok spam cur soff b = Refused w ->
  pipeline_in3 c cri decode_ok spam cur soff b streams_on pass = R3 (Refused w).
Proof. unfold pipeline_in3. intros ->. reflexivity. Qed.

(* the antispam has already counted the event when the input is asked: the state after a call does not depend on the answer *)
Theorem pstep6_state_independent_of_pass pc streams_on meta_on nsrc ms id isNew cur soff hdr b valid pass1 pass2 meta :
  fst (pstep6 pc streams_on meta_on nsrc ms (P6In id isNew cur soff hdr b valid pass1 meta)) =
  fst (pstep6 pc streams_on meta_on nsrc ms (P6In id isNew cur soff hdr b valid pass2 meta)).
Proof.
  unfold pstep6. destruct (source_key meta_on nsrc id isNew meta) as [key isNew'].
  destruct (in_stage1 _ _ cur soff b) as [w| |b' cut consult]; try reflexivity.
  destruct consult.
  - destruct (nth_error ms key) as [s|].
    + destruct (astep 1 (p_U pc) s _) as [s' v].
      repeat match goal with |- context [match ?x with _ => _ end] => destruct x end; reflexivity.
    + repeat match goal with |- context [match ?x with _ => _ end] => destruct x end; reflexivity.
  - repeat match goal with |- context [match ?x with _ => _ end] => destruct x end; reflexivity.
Qed.

(* source_name_meta_field: an event that carries the field is counted under the meta value whatever its source id and
   is never treated as the first event of a new source; one that lacks it (or no field configured) keeps its own id *)
Theorem source_key_meta nsrc id1 id2 isNew1 isNew2 meta :
  0 <= meta -> source_key true nsrc id1 isNew1 meta = source_key true nsrc id2 isNew2 meta /\
               snd (source_key true nsrc id1 isNew1 meta) = false /\
               (nsrc <= fst (source_key true nsrc id1 isNew1 meta))%nat.
Proof.
  intros H. unfold source_key. assert (E : (0 <=? meta) = true) by lia. rewrite E. cbn. repeat split. lia.
Qed.

Theorem source_key_plain meta_on nsrc id isNew meta :
  meta_on = false \/ meta < 0 -> source_key meta_on nsrc id isNew meta = (id, isNew).
Proof.
  unfold source_key. intros [-> | H]; [reflexivity|].
  assert (E : (0 <=? meta) = false) by lia. rewrite E, andb_false_r. reflexivity.
Qed.

(* ---- the int32 counter ------------------------------------------------------------------------- *)
Lemma wrap32_id z : -2147483648 <= z <= MAX32 -> wrap32 z = z.
Proof.
  unfold wrap32, MAX32. intros H.
  rewrite Z.mod_small by lia. lia.
Qed.

Lemma clamp32_id z : -2147483648 <= z <= MAX32 -> clamp32 z = z.
Proof.
  unfold clamp32. intros H. assert (E : (MAX32 <? z) = false) by lia. rewrite E. apply wrap32_id. exact H.
Qed.

(* one IsSpam call: no difference while the counter is below MaxInt32 and the ban value fits *)
Theorem count_step32_exact MI U T s isNew t :
  0 < T -> 0 <= U -> U * T <= MAX32 -> wf T s -> counter_of s < MAX32 ->
  count_step32 MI U T s isNew t = count_step MI U T s isNew t.
Proof.
  intros HT HU HUT Hwf Hc. unfold count_step32, count_step.
  set (x0 := match s with Some x => x | None => {| counter := 0; ts := t; sthr := T |} end).
  assert (H0 : 0 <= counter x0 < MAX32).
  { unfold x0. destruct s as [x|]; cbn in *; [lia | unfold MAX32; lia]. }
  destruct isNew; [reflexivity|].
  rewrite (wrap32_id (counter x0 + 1)) by (unfold MAX32 in *; lia).
  rewrite (clamp32_id (U * T)) by (unfold MAX32 in *; nia).
  reflexivity.
Qed.

(* one Maintenance round *)
Theorem maint_step32_exact U T s :
  0 < T -> 0 <= U -> wf T s -> counter_of s <= MAX32 -> maint_step32 U s = maint_step U s.
Proof.
  intros HT HU Hwf Hc. unfold maint_step32, maint_step. destruct s as [x|]; [|reflexivity].
  cbn [wf counter_of] in *. destruct Hwf as [H1 H2]. rewrite H1.
  destruct (counter x =? 0); [reflexivity|].
  rewrite clamp32_id; [reflexivity|].
  unfold MAX32 in *. destruct (U * T <? Z.max (counter x - T) 0) eqn:E; nia.
Qed.

(* how far the counter can have risen: one per call, never above the ban value by more than the calls made *)
Definition bound32 (U T : Z) (s : option src) : Z := Z.max (counter_of s) (U * T).

Lemma count_step_bound MI U T s isNew t :
  0 < T -> 0 <= U -> wf T s -> bound32 U T (fst (count_step MI U T s isNew t)) <= bound32 U T s + 1.
Proof.
  intros HT HU Hwf. unfold bound32, count_step.
  set (x0 := match s with Some x => x | None => {| counter := 0; ts := t; sthr := T |} end).
  assert (H0 : counter x0 = counter_of s) by (unfold x0; destruct s; reflexivity).
  assert (Hn : 0 <= counter_of s) by (destruct s as [x|]; cbn in *; lia).
  destruct isNew; cbn [fst counter_of counter].
  - nia.
  - destruct ((t - ts x0) <? MI); destruct (_ =? T); nia.
Qed.

Lemma maint_step_bound32 U T s :
  0 < T -> 0 <= U -> wf T s -> bound32 U T (maint_step U s) <= bound32 U T s.
Proof.
  intros HT HU Hwf. unfold bound32, maint_step. destruct s as [x|]; cbn [counter_of]; [|lia].
  cbn [wf] in Hwf. destruct Hwf as [H1 H2]. rewrite H1.
  destruct (counter x =? 0); cbn [counter_of counter]; [nia|].
  destruct (U * T <? Z.max (counter x - T) 0) eqn:E; nia.
Qed.

Lemma astep_bound32 MI U T s o :
  0 < T -> 0 <= U -> uniform_op T o = true -> wf T s ->
  bound32 U T (fst (astep MI U s o)) <= bound32 U T s + 1.
Proof.
  intros HT HU Hu Hwf. destruct o as [d isNew t|].
  - destruct d as [| |thr]; cbn [uniform_op] in Hu; try discriminate.
    apply Z.eqb_eq in Hu. subst thr. cbn [astep]. apply count_step_bound; assumption.
  - cbn [astep fst]. pose proof (maint_step_bound32 U T s HT HU Hwf). lia.
Qed.

Lemma astep32_exact MI U T s o :
  0 < T -> 0 <= U -> uniform_op T o = true -> wf T s -> bound32 U T s < MAX32 ->
  astep32 MI U s o = astep MI U s o.
Proof.
  intros HT HU Hu Hwf Hb. unfold bound32 in Hb. destruct o as [d isNew t|].
  - destruct d as [| |thr]; cbn [uniform_op] in Hu; try discriminate.
    apply Z.eqb_eq in Hu. subst thr. cbn [astep32 astep]. apply count_step32_exact; try assumption; lia.
  - cbn [astep32 astep]. rewrite (maint_step32_exact U T) by (try assumption; lia). reflexivity.
Qed.

(* a run of n IsSpam calls (all counted against T) and Maintenance rounds from a state whose counter and ban value
   leave room for n increments below MaxInt32: the int32 code and the unbounded model of the theorems are THE SAME
   function - verdicts and state. In particular from the empty state every run shorter than 2^31 - 1 - U*T ops. *)
Theorem arun32_exact MI U T ops : forall s,
  0 < T -> 0 <= U -> forallb (uniform_op T) ops = true -> wf T s ->
  bound32 U T s + Z.of_nat (length ops) <= MAX32 ->
  arun32 MI U s ops = arun MI U s ops.
Proof.
  induction ops as [|o r IH]; intros s HT HU Hu Hwf Hb; [reflexivity|].
  cbn [forallb] in Hu. apply andb_true_iff in Hu. destruct Hu as [Ho Hr].
  cbn [length] in Hb. cbn [arun32 arun].
  rewrite (astep32_exact MI U T s o HT HU Ho Hwf) by lia.
  pose proof (astep_bound32 MI U T s o HT HU Ho Hwf) as Hb1.
  pose proof (astep_wf MI U T s o HT HU Ho Hwf) as Hwf1.
  destruct (astep MI U s o) as [s1 v]. cbn [fst] in Hb1, Hwf1.
  rewrite (IH s1 HT HU Hr Hwf1) by lia. reflexivity.
Qed.

Corollary arun32_exact_fresh MI U T ops :
  0 < T -> 0 <= U -> forallb (uniform_op T) ops = true ->
  U * T + Z.of_nat (length ops) <= MAX32 ->
  arun32 MI U None ops = arun MI U None ops.
Proof.
  intros HT HU Hu Hb. apply (arun32_exact MI U T); try assumption; [exact I|].
  unfold bound32. cbn [counter_of]. nia.
Qed.

(* outside that range the two differ, and the code does what the int32 model says (stream antispam-int32-clamp):
   T = 3, U = 2^30: the ban value 3 * 2^30 is clamped to MaxInt32; a slow event and a round keep the ban; the next
   QUICK event wraps the counter to MinInt32, is not flagged, and the round after it stores 0 *)
Example int32_clamp_wrap :
  let U := 1073741824 in
  let ban := repeat (Ev (Count 3) false 0) 3 in
  counter_of (fst (arun32 2 U None ban)) = MAX32 /\
  snd (arun32 2 U None (ban ++ [Ev (Count 3) false 2])) = [false; false; true; true] /\
  counter_of (fst (arun32 2 U None (ban ++ [Maint]))) = MAX32 - 3 /\
  snd (arun32 2 U None (ban ++ [Ev (Count 3) false 0])) = [false; false; true; false] /\
  counter_of (fst (arun32 2 U None (ban ++ [Ev (Count 3) false 0]))) = -2147483648 /\
  counter_of (fst (arun32 2 U None (ban ++ [Ev (Count 3) false 0; Maint]))) = 0 /\
  snd (arun 2 U None (ban ++ [Ev (Count 3) false 0])) = [false; false; true; true].
Proof. vm_compute. repeat split. Qed.
