(* Proofs about Model/Mask.v (C17). *)
From Verif Require Import Base.Sx Base.GoSem Base.Json Model.Mask.
From Coq Require Import Lia ZifyBool Permutation Sorted.

Local Open Scope Z_scope.

(* ------------------------------------------------------------------------------------------------ *)
(* slices                                                                                            *)
(* ------------------------------------------------------------------------------------------------ *)
Definition sub (l : bytes) (lo hi : Z) : bytes := firstn (Z.to_nat (hi - lo)) (skipn (Z.to_nat lo) l).

Lemma len_nonneg {A} (l : list A) : 0 <= len l.
Proof. unfold len. lia. Qed.

Lemma len_app {A} (a b : list A) : len (a ++ b) = len a + len b.
Proof. unfold len. rewrite app_length. lia. Qed.

Lemma len_cons {A} (x : A) (l : list A) : len (x :: l) = 1 + len l.
Proof. unfold len. cbn [length]. lia. Qed.

Lemma slice_ok {A} (l : list A) lo hi :
  0 <= lo -> lo <= hi -> hi <= len l ->
  slice l lo hi = Ok (firstn (Z.to_nat (hi - lo)) (skipn (Z.to_nat lo) l)).
Proof.
  intros H1 H2 H3. unfold slice.
  replace ((0 <=? lo) && (lo <=? hi) && (hi <=? len l)) with true by lia. reflexivity.
Qed.

Lemma slice_not_panic_inv {A} (l : list A) lo hi :
  is_panic (slice l lo hi) = false -> 0 <= lo /\ lo <= hi /\ hi <= len l.
Proof.
  unfold slice. destruct ((0 <=? lo) && (lo <=? hi) && (hi <=? len l)) eqn:E; cbn; intros H; [lia | discriminate].
Qed.

Lemma sub_len l lo hi : 0 <= lo -> lo <= hi -> hi <= len l -> len (sub l lo hi) = hi - lo.
Proof.
  intros. unfold sub, len in *. rewrite firstn_length, skipn_length. lia.
Qed.

Lemma firstn_plus {A} (a b : nat) (l : list A) : firstn (a + b) l = firstn a l ++ firstn b (skipn a l).
Proof.
  revert l. induction a as [|a IH]; intros l; [reflexivity|].
  destruct l as [|x l]; cbn [Nat.add firstn skipn app]; [now rewrite firstn_nil | now rewrite IH].
Qed.

Lemma skipn_plus {A} (a b : nat) (l : list A) : skipn a (skipn b l) = skipn (b + a) l.
Proof.
  revert l. induction b as [|b IH]; intros l; [reflexivity|].
  destruct l as [|x l]; cbn [Nat.add skipn]; [now rewrite skipn_nil | apply IH].
Qed.

Lemma sub_app l lo mid hi :
  0 <= lo -> lo <= mid -> mid <= hi -> hi <= len l -> sub l lo mid ++ sub l mid hi = sub l lo hi.
Proof.
  intros H0 H1 H2 H3. unfold sub.
  replace (Z.to_nat (hi - lo)) with (Z.to_nat (mid - lo) + Z.to_nat (hi - mid))%nat by lia.
  rewrite firstn_plus. f_equal.
  rewrite skipn_plus. f_equal. f_equal. lia.
Qed.

Lemma sub_full l : sub l 0 (len l) = l.
Proof.
  unfold sub, len. cbn [Z.to_nat skipn]. rewrite Z.sub_0_r, Nat2Z.id. apply firstn_all.
Qed.

Lemma sub_nil l lo : sub l lo lo = [].
Proof. unfold sub. rewrite Z.sub_diag. reflexivity. Qed.

(* ------------------------------------------------------------------------------------------------ *)
(* utf8.RuneCount                                                                                    *)
(* ------------------------------------------------------------------------------------------------ *)
Lemma rune_count_skip_bounds : forall l skip, 0 <= rune_count_skip skip l <= len l.
Proof.
  induction l as [|c r IH]; intros skip; cbn [rune_count_skip].
  - unfold len; cbn; lia.
  - rewrite len_cons. destruct skip.
    + specialize (IH (rune_size c r - 1)%nat). lia.
    + specialize (IH skip). lia.
Qed.

Lemma rune_count_bounds l : 0 <= rune_count l <= len l.
Proof. apply rune_count_skip_bounds. Qed.

Lemma rune_count_pos l : l <> [] -> 1 <= rune_count l.
Proof.
  destruct l as [|c r]; [congruence|]. intros _. unfold rune_count. cbn [rune_count_skip].
  pose proof (rune_count_skip_bounds r (rune_size c r - 1)). lia.
Qed.

Lemma lead_info_ascii c : (c < 128)%N -> lead_info c = (1%nat, 0%N, 0%N).
Proof.
  intros H. unfold lead_info, in_rng.
  repeat match goal with
         | |- context [(?a <=? ?b)%N] => destruct (N.leb_spec a b); try lia
         | |- context [N.eqb ?a ?b] => destruct (N.eqb_spec a b); try lia
         end; reflexivity.
Qed.

Lemma rune_count_ascii l : Forall (fun c => (c < 128)%N) l -> rune_count l = len l.
Proof.
  unfold rune_count. induction 1 as [|c r Hc Hr IH]; [reflexivity|].
  cbn [rune_count_skip]. unfold rune_size. rewrite (lead_info_ascii c Hc). cbn [Nat.sub].
  rewrite IH, len_cons. reflexivity.
Qed.

(* what a hidden section is replaced by: only asterisks, at least one and at most one per byte for a
   non-empty secret (asterisk mode) *)
Lemma repl_mask_stars mc secret :
  exists n, repl (MMask mc) secret = repeat STAR n /\
            (secret <> [] -> (1 <= n)%nat) /\ Z.of_nat n <= rune_count secret /\
            (mc <= 0 -> Z.of_nat n = rune_count secret) /\ (0 < mc -> Z.of_nat n = Z.min (rune_count secret) mc).
Proof.
  cbn [repl]. unfold stars. pose proof (rune_count_bounds secret) as Hb.
  eexists; split; [reflexivity|]. repeat split.
  - intros Hne. pose proof (rune_count_pos secret Hne). destruct (0 <? mc) eqn:E; lia.
  - destruct (0 <? mc) eqn:E; lia.
  - intros. destruct (0 <? mc) eqn:E; lia.
  - intros. destruct (0 <? mc) eqn:E; lia.
Qed.

(* ------------------------------------------------------------------------------------------------ *)
(* cfg.VerifyGroupNumbers                                                                            *)
(* ------------------------------------------------------------------------------------------------ *)
Lemma vg_scan_ok : forall gs total all out,
  vg_scan gs total all = Ok out ->
  (forall g, In g all -> In g gs -> 0 <= g <= total) ->
  0 <= total -> (out = [0] \/ (out = all /\ forall g, In g gs -> 0 < g <= total)).
Proof.
  induction gs as [|g r IH]; intros total all out H Hall Ht; cbn [vg_scan] in H.
  - inversion H; subst. right. split; [reflexivity|]. intros g [].
  - destruct ((total <? g) || (g <? 0)) eqn:E; [discriminate|].
    destruct (g =? 0) eqn:E0.
    + inversion H; subst. now left.
    + destruct (IH total all out H) as [-> | [-> Hr]]; [| assumption | now left |].
      * intros x Hx Hi. apply Hall; [assumption | now right].
      * right. split; [reflexivity|]. intros x [<- | Hx]; [lia | now apply Hr].
Qed.

Lemma vg_scan_range : forall gs total all out,
  vg_scan gs total all = Ok out -> 0 <= total ->
  (forall g, In g all -> In g gs) ->
  forall g, In g out -> 0 <= g <= total.
Proof.
  induction gs as [|g r IH]; intros total all out H Ht Hsub x Hx; cbn [vg_scan] in H.
  - inversion H; subst. destruct (Hsub x Hx).
  - destruct ((total <? g) || (g <? 0)) eqn:E; [discriminate|].
    destruct (g =? 0) eqn:E0.
    + inversion H; subst. destruct Hx as [<- | []]. lia.
    + (* out = all or [0]; every element of all is g or in r *)
      assert (Hcase : forall y, In y all -> y = g \/ In y r).
      { intros y Hy. destruct (Hsub y Hy); auto. }
      clear Hsub.
      revert H Hx. revert out.
      assert (Hgen : forall r' out, vg_scan r' total all = Ok out ->
                                    (forall y, In y all -> (0 <= y <= total) \/ In y r') ->
                                    In x out -> 0 <= x <= total).
      { induction r' as [|g' r' IH']; intros out H Hc Hx; cbn [vg_scan] in H.
        - inversion H; subst. destruct (Hc x Hx) as [?|[]]; assumption.
        - destruct ((total <? g') || (g' <? 0)) eqn:E'; [discriminate|].
          destruct (g' =? 0) eqn:E0'.
          + inversion H; subst. destruct Hx as [<- | []]. lia.
          + apply (IH' out H); [|assumption].
            intros y Hy. destruct (Hc y Hy) as [?|[<- | ?]]; [now left | left; lia | now right]. }
      intros out H Hx. apply (Hgen r out H); [|assumption].
      intros y Hy. destruct (Hcase y Hy) as [-> | ?]; [left; lia | now right].
Qed.

Lemma verify_groups_range gs total out :
  verify_groups gs total = Ok out -> groups_ok total out.
Proof.
  intros H. unfold verify_groups in H.
  destruct (has_dup gs); [discriminate|]. destruct (total <? len gs) eqn:E; [discriminate|].
  pose proof (len_nonneg gs).
  intros g Hg. eapply vg_scan_range; eauto. lia.
Qed.

(* ------------------------------------------------------------------------------------------------ *)
(* sorting the sections                                                                              *)
(* ------------------------------------------------------------------------------------------------ *)
Definition sec_le (a b : sec) : Prop := sec_before a b = true.

Lemma sec_before_total a b : sec_before a b = false -> sec_before b a = true.
Proof. unfold sec_before. destruct a, b; cbn [fst snd]. lia. Qed.

Lemma sec_le_trans a b c : sec_le a b -> sec_le b c -> sec_le a c.
Proof. unfold sec_le, sec_before. destruct a, b, c; cbn [fst snd]. lia. Qed.

Lemma insert_sec_perm a l : Permutation (insert_sec a l) (a :: l).
Proof.
  induction l as [|b r IH]; cbn [insert_sec]; [reflexivity|].
  destruct (sec_before a b); [reflexivity|].
  rewrite IH. apply perm_swap.
Qed.

Lemma sort_secs_perm l : Permutation (sort_secs l) l.
Proof.
  induction l as [|a r IH]; cbn [sort_secs]; [reflexivity|].
  rewrite insert_sec_perm. now constructor.
Qed.

Lemma insert_sec_sorted a l : StronglySorted sec_le l -> StronglySorted sec_le (insert_sec a l).
Proof.
  induction 1 as [|b r Hs IH Hb]; cbn [insert_sec].
  - constructor; constructor.
  - destruct (sec_before a b) eqn:E.
    + constructor; [now constructor|]. constructor; [exact E|].
      eapply Forall_impl; [|exact Hb]. intros x Hx. eapply sec_le_trans; eauto.
    + constructor; [assumption|].
      eapply Permutation_Forall; [symmetry; apply insert_sec_perm|].
      constructor; [now apply sec_before_total | assumption].
Qed.

Lemma sort_secs_sorted l : StronglySorted sec_le (sort_secs l).
Proof.
  induction l as [|a r IH]; cbn [sort_secs]; [constructor | now apply insert_sec_sorted].
Qed.

Lemma sort_secs_in l x : In x (sort_secs l) <-> In x l.
Proof.
  split; apply Permutation_in; [apply sort_secs_perm | symmetry; apply sort_secs_perm].
Qed.

(* ------------------------------------------------------------------------------------------------ *)
(* maskValue: the sweep over the sorted sections of one match                                        *)
(* ------------------------------------------------------------------------------------------------ *)
(* the sections the sweep masks, and the final prevFinish *)
Fixpoint chosen (secs : list sec) (prev : Z) : list sec * Z :=
  match secs with
  | [] => ([], prev)
  | (s, f) :: r => if s <? prev then chosen r prev
                   else let '(c, p) := chosen r f in ((s, f) :: c, p)
  end.

Definition sec_in (vlen : Z) (r : sec) : Prop := 0 <= fst r /\ fst r <= snd r /\ snd r <= vlen.

Lemma chosen_skip s f r prev : s <? prev = true -> chosen ((s, f) :: r) prev = chosen r prev.
Proof. intros E. cbn [chosen]. now rewrite E. Qed.

Lemma chosen_take s f r prev :
  s <? prev = false -> chosen ((s, f) :: r) prev = ((s, f) :: fst (chosen r f), snd (chosen r f)).
Proof. intros E. cbn [chosen]. rewrite E. now destruct (chosen r f). Qed.

Lemma masked_app mode a b : masked mode (a ++ b) = masked mode a ++ masked mode b.
Proof. unfold masked. now rewrite map_app, concat_app. Qed.

Lemma orig_app a b : orig (a ++ b) = orig a ++ orig b.
Proof. unfold orig. now rewrite map_app, concat_app. Qed.

Lemma hidden_ranges_app : forall a b pos,
  hidden_ranges pos (a ++ b) = hidden_ranges pos a ++ hidden_ranges (pos + len (orig a)) b.
Proof.
  induction a as [|[x|x] a IH]; intros b pos; cbn [app hidden_ranges].
  - unfold orig; cbn. unfold len; cbn. now rewrite Z.add_0_r.
  - rewrite IH. unfold orig; cbn [map concat seg_bytes]. rewrite len_app. f_equal. f_equal. lia.
  - rewrite IH. unfold orig; cbn [map concat seg_bytes]. rewrite len_app. f_equal. f_equal. f_equal. lia.
Qed.

Lemma repl_ignores_secret mode a b :
  match mode with MMask _ => False | _ => True end -> repl mode a = repl mode b.
Proof. destruct mode; cbn; [intros [] | reflexivity | reflexivity]. Qed.

Lemma mask_section_ok value mode s f :
  0 <= s -> s <= f -> f <= len value -> mask_section value mode s f = Ok (repl mode (sub value s f)).
Proof.
  intros. unfold mask_section. destruct mode; [|reflexivity|reflexivity].
  rewrite slice_ok by assumption. reflexivity.
Qed.

Lemma sweep_spec value mode : forall secs prev,
  0 <= prev <= len value -> Forall (sec_in (len value)) secs ->
  exists segs,
    sweep value mode secs prev = Ok (masked mode segs, snd (chosen secs prev)) /\
    orig segs = sub value prev (snd (chosen secs prev)) /\
    prev <= snd (chosen secs prev) <= len value /\
    hidden_ranges prev segs = fst (chosen secs prev).
Proof.
  induction secs as [|[s f] r IH]; intros prev Hp Hall.
  - exists []. cbn [sweep chosen fst snd]. rewrite sub_nil. repeat split; try reflexivity; lia.
  - inversion Hall as [|x l Hsf Hr]; subst. destruct Hsf as (H0 & H1 & H2). cbn [fst snd] in *.
    destruct (s <? prev) eqn:E.
    + rewrite chosen_skip by assumption. cbn [sweep]. rewrite E. now apply IH.
    + rewrite chosen_take by assumption. cbn [fst snd].
      destruct (IH f) as (segs & Hs & Ho & Hb & Hh); [lia | assumption |].
      exists (Keep (sub value prev s) :: Hide (sub value s f) :: segs).
      cbn [sweep]. rewrite E.
      rewrite slice_ok by lia. cbn [bind].
      rewrite mask_section_ok by lia. cbn [bind].
      rewrite Hs. cbn [bind].
      repeat split.
      * unfold orig in *. cbn [map concat seg_bytes]. rewrite Ho.
        rewrite sub_app by lia. rewrite sub_app by lia. reflexivity.
      * lia.
      * lia.
      * cbn [hidden_ranges]. rewrite !sub_len by lia.
        replace (prev + (s - prev)) with s by lia. replace (s + (f - s)) with f by lia.
        now rewrite Hh.
Qed.

Lemma chosen_bound : forall secs prev B,
  prev <= B -> (forall r, In r secs -> snd r <= B) -> snd (chosen secs prev) <= B.
Proof.
  induction secs as [|[s f] r IH]; intros prev B Hp Hall; cbn [chosen snd]; [assumption|].
  destruct (s <? prev).
  - apply IH; [assumption|]. intros x Hx. apply Hall. now right.
  - destruct (chosen r f) as [c p] eqn:E. cbn [snd].
    change p with (snd (c, p)). rewrite <- E. apply IH.
    + apply (Hall (s, f)). now left.
    + intros x Hx. apply Hall. now right.
Qed.

Lemma chosen_subset : forall secs prev c, In c (fst (chosen secs prev)) -> In c secs.
Proof.
  induction secs as [|[s f] r IH]; intros prev c; cbn [chosen fst]; [intros []|].
  destruct (s <? prev).
  - intros H. right. eapply IH; eauto.
  - destruct (chosen r f) as [c' p] eqn:E. cbn [fst]. intros [<- | H]; [now left|].
    right. apply (IH f). now rewrite E.
Qed.

(* every section of a sorted, pairwise nested-or-disjoint list is inside a chosen one (or inside the
   section [last] whose end is prev) *)
Lemma chosen_cover : forall secs prev (last : option sec),
  StronglySorted sec_le secs ->
  (forall a b, In a secs -> In b secs -> laminar a b = true) ->
  (forall r, In r secs -> fst r <= snd r) ->
  match last with
  | None => forall r, In r secs -> prev <= fst r
  | Some c => snd c = prev /\ fst c <= snd c /\ forall r, In r secs -> sec_le c r /\ laminar c r = true
  end ->
  forall r, In r secs ->
    (exists c, In c (fst (chosen secs prev)) /\ covers c r) \/
    match last with Some c => covers c r | None => False end.
Proof.
  induction secs as [|[s f] rest IH]; intros prev last Hs Hlam Hw Hlast r Hr; [destruct Hr|].
  inversion Hs as [|x l Hs' Hfa]; subst.
  assert (Hlam' : forall a b, In a rest -> In b rest -> laminar a b = true)
    by (intros; apply Hlam; now right).
  assert (Hw' : forall r, In r rest -> fst r <= snd r) by (intros; apply Hw; now right).
  destruct (s <? prev) eqn:E.
  - rewrite chosen_skip by assumption.
    destruct last as [[cs ce]|].
    + destruct Hlast as (He & Hcw & Hall). cbn [fst snd] in *.
      destruct Hr as [<- | Hr].
      * right. destruct (Hall (s, f)) as [Hle Hl]; [now left|].
        pose proof (Hw (s, f) (or_introl eq_refl)) as Hsf.
        unfold covers, sec_le, sec_before, laminar in *. cbn [fst snd] in *. lia.
      * apply (IH prev (Some (cs, ce))); try assumption.
        cbn [fst snd]. repeat split; try assumption; apply Hall; now right.
    + exfalso. specialize (Hlast (s, f) (or_introl eq_refl)). cbn [fst] in Hlast. lia.
  - rewrite chosen_take by assumption. cbn [fst].
    pose proof (Hw (s, f) (or_introl eq_refl)) as Hsf. cbn [fst snd] in Hsf.
    destruct Hr as [<- | Hr].
    + left. exists (s, f). split; [now left|]. unfold covers. lia.
    + destruct (IH f (Some (s, f)) Hs' Hlam' Hw') with (r := r) as [(c & Hc & Hcov) | Hcov]; try assumption.
      * cbn [fst snd]. repeat split; try assumption.
        -- rewrite Forall_forall in Hfa. now apply Hfa.
        -- apply Hlam; [now left | now right].
      * left. exists c. split; [now right | assumption].
      * left. exists (s, f). split; [now left | assumption].
Qed.

(* ------------------------------------------------------------------------------------------------ *)
(* index arrays                                                                                      *)
(* ------------------------------------------------------------------------------------------------ *)
Lemma idx_cons {A} (x : A) l i : 0 < i -> idx (x :: l) i = idx l (i - 1).
Proof.
  intros Hi. unfold idx. rewrite len_cons.
  replace (Z.to_nat i) with (S (Z.to_nat (i - 1))) by lia. cbn [nth_error].
  replace ((0 <=? i) && (i <? 1 + len l)) with ((0 <=? i - 1) && (i - 1 <? len l)) by lia.
  reflexivity.
Qed.

Lemma idx_zero {A} (x : A) l : idx (x :: l) 0 = Ok x.
Proof. unfold idx. rewrite len_cons. pose proof (len_nonneg l). replace ((0 <=? 0) && (0 <? 1 + len l)) with true by lia. reflexivity. Qed.

Lemma idx_in_range {A} (l : list A) i : 0 <= i < len l -> exists x, idx l i = Ok x.
Proof.
  intros Hi. unfold idx. replace ((0 <=? i) && (i <? len l)) with true by lia.
  destruct (nth_error l (Z.to_nat i)) eqn:E; [eauto|].
  apply nth_error_None in E. unfold len in Hi. lia.
Qed.

Lemma idx_ok_inv {A} (l : list A) i x : idx l i = Ok x -> 0 <= i < len l.
Proof.
  unfold idx. destruct ((0 <=? i) && (i <? len l)) eqn:E; [lia | discriminate].
Qed.

Lemma pairs_of_idx : forall n l g a b,
  Z.to_nat g = n -> 0 <= g -> idx l (g * 2) = Ok a -> idx l (g * 2 + 1) = Ok b -> In (a, b) (pairs_of l).
Proof.
  induction n as [|n IH]; intros l g a b Hn Hg Ha Hb.
  - assert (g = 0) by lia. subst g. cbn in Ha, Hb.
    destruct l as [|x [|y r]].
    + discriminate.
    + unfold idx in Hb. cbn in Hb. discriminate.
    + rewrite idx_zero in Ha. rewrite idx_cons, idx_zero in Hb by lia. inversion Ha; inversion Hb; subst. now left.
  - destruct l as [|x [|y r]].
    + apply idx_ok_inv in Ha. unfold len in Ha; cbn in Ha. lia.
    + apply idx_ok_inv in Ha. rewrite len_cons in Ha. unfold len in Ha; cbn in Ha. lia.
    + cbn [pairs_of]. right. apply (IH r (g - 1)); try lia.
      * rewrite !idx_cons in Ha by lia. replace ((g - 1) * 2) with (g * 2 - 1 - 1) by lia. exact Ha.
      * rewrite !idx_cons in Hb by lia. replace ((g - 1) * 2 + 1) with (g * 2 + 1 - 1 - 1) by lia. exact Hb.
Qed.

Lemma index_wf_facts vlen nsub prev index :
  index_wf vlen nsub prev index = true ->
  len index = 2 * (nsub + 1) /\
  exists m rest, pairs_of index = m :: rest /\ prev <= fst m /\ fst m <= snd m /\ snd m <= vlen /\
    (forall p, In p (pairs_of index) -> 0 <= fst p -> inside m p = true) /\
    (forall a b, In a (pairs_of index) -> In b (pairs_of index) -> 0 <= fst a -> 0 <= fst b -> laminar a b = true).
Proof.
  unfold index_wf. intros H. apply andb_prop in H as [Hl H].
  split; [lia|]. destruct (pairs_of index) as [|m rest] eqn:E; [discriminate|].
  exists m, rest. split; [reflexivity|].
  repeat (apply andb_prop in H as [H ?]).
  repeat split; try lia.
  - intros p Hp Hpos. rewrite forallb_forall in H1. specialize (H1 p Hp).
    unfold unmatched in H1. destruct p; cbn [fst snd] in *. lia.
  - intros a b Ha Hb Ha0 Hb0. rewrite forallb_forall in H0. specialize (H0 a Ha).
    apply orb_prop in H0 as [H0|H0].
    + unfold unmatched in H0. destruct a; cbn [fst snd] in *. lia.
    + rewrite forallb_forall in H0. specialize (H0 b Hb).
      unfold unmatched in H0. destruct b; cbn [fst snd] in *.
      apply orb_prop in H0 as [H0|H0]; [lia | assumption].
Qed.

(* collect: never out of range for verified groups; its result = the selected ranges of this match *)
Lemma collect_spec index nsub : forall groups,
  len index = 2 * (nsub + 1) -> groups_ok nsub groups ->
  exists secs, collect index groups = Ok secs /\
    forall r, In r secs <->
      exists g, In g groups /\ idx index (g * 2) = Ok (fst r) /\ idx index (g * 2 + 1) = Ok (snd r) /\
                0 <= fst r /\ 0 <= snd r.
Proof.
  induction groups as [|g gs IH]; intros Hl Hg.
  - exists []. split; [reflexivity|]. intros r; split; [intros [] | intros (g & [] & _)].
  - destruct IH as (secs & Hc & Hin); [assumption | intros x Hx; apply Hg; now right |].
    assert (Hg0 : 0 <= g <= nsub) by (apply Hg; now left).
    destruct (idx_in_range index (g * 2)) as (s & Hs); [lia|].
    destruct (idx_in_range index (g * 2 + 1)) as (f & Hf); [lia|].
    cbn [collect]. rewrite Hs, Hf, Hc. cbn [bind].
    eexists; split; [reflexivity|].
    intros r. destruct ((s <? 0) || (f <? 0)) eqn:E.
    + rewrite Hin. split; intros (g' & Hg' & H1 & H2 & H3 & H4).
      * exists g'. repeat split; try assumption. now right.
      * destruct Hg' as [<- | Hg'].
        -- rewrite Hs in H1. rewrite Hf in H2. inversion H1; inversion H2; subst. lia.
        -- exists g'. repeat split; assumption.
    + split.
      * intros [<- | Hr].
        -- exists g. cbn [fst snd]. repeat split; try assumption; try lia. now left.
        -- apply Hin in Hr as (g' & Hg' & H'). exists g'. split; [now right | assumption].
      * intros (g' & [<- | Hg'] & H1 & H2 & H3 & H4).
        -- rewrite Hs in H1. rewrite Hf in H2. inversion H1; inversion H2. left. now destruct r; cbn in *; subst.
        -- right. apply Hin. exists g'. repeat split; assumption.
Qed.

(* ------------------------------------------------------------------------------------------------ *)
(* maskValue: all matches                                                                            *)
(* ------------------------------------------------------------------------------------------------ *)
Fixpoint chosen_all (groups : list Z) (idxs : list (list Z)) (prev : Z) : list sec * Z :=
  match idxs with
  | [] => ([], prev)
  | index :: r =>
      match collect index groups with
      | Ok secs => let '(c1, p1) := chosen (sort_secs secs) prev in
                   let '(c2, p2) := chosen_all groups r p1 in (c1 ++ c2, p2)
      | _ => ([], prev)
      end
  end.

Lemma match_facts vlen nsub lo index groups :
  index_wf vlen nsub lo index = true -> groups_ok nsub groups ->
  exists secs m rest,
    collect index groups = Ok secs /\
    (forall r, In r secs <->
       exists g, In g groups /\ idx index (g * 2) = Ok (fst r) /\ idx index (g * 2 + 1) = Ok (snd r) /\
                 0 <= fst r /\ 0 <= snd r) /\
    pairs_of index = m :: rest /\ lo <= fst m /\ fst m <= snd m /\ snd m <= vlen /\
    (forall r, In r secs -> fst m <= fst r /\ fst r <= snd r /\ snd r <= snd m) /\
    (forall a b, In a secs -> In b secs -> laminar a b = true).
Proof.
  intros Hwf Hg. destruct (index_wf_facts _ _ _ _ Hwf) as (Hl & m & rest & Hp & H1 & H2 & H3 & Hin & Hlam).
  destruct (collect_spec index nsub groups Hl Hg) as (secs & Hc & Hchar).
  assert (Hpair : forall r, In r secs -> In r (pairs_of index) /\ 0 <= fst r).
  { intros r Hr. apply Hchar in Hr as (g & Hgi & Ha & Hb & H0 & H0'). split; [|assumption].
    destruct r as [a b]. cbn [fst snd] in *.
    apply (pairs_of_idx (Z.to_nat g) index g a b eq_refl); [apply Hg in Hgi; lia | exact Ha | exact Hb]. }
  exists secs, m, rest.
  split; [exact Hc|]. split; [exact Hchar|]. split; [exact Hp|].
  split; [exact H1|]. split; [exact H2|]. split; [exact H3|]. split.
  - intros r Hr. destruct (Hpair r Hr) as [Hpi H0]. specialize (Hin r Hpi H0). unfold inside in Hin. lia.
  - intros a b Ha Hb. destruct (Hpair a Ha), (Hpair b Hb). now apply Hlam.
Qed.

Lemma matches_loop_spec value mode groups nsub : forall idxs lo prev,
  groups_ok nsub groups -> re_wf_from (len value) nsub lo idxs = true ->
  0 <= prev <= lo -> lo <= len value ->
  exists segs,
    matches_loop value mode groups idxs prev = Ok (masked mode segs, snd (chosen_all groups idxs prev)) /\
    orig segs = sub value prev (snd (chosen_all groups idxs prev)) /\
    prev <= snd (chosen_all groups idxs prev) <= len value /\
    hidden_ranges prev segs = fst (chosen_all groups idxs prev).
Proof.
  induction idxs as [|index r IH]; intros lo prev Hg Hwf Hp Hlo.
  - exists []. cbn [matches_loop chosen_all fst snd]. rewrite sub_nil. repeat split; try reflexivity; lia.
  - cbn [re_wf_from] in Hwf. apply andb_prop in Hwf as [Hwi Hwr].
    destruct (match_facts _ _ _ _ _ Hwi Hg) as (secs & m & rest & Hc & Hchar & Hpairs & H1 & H2 & H3 & Hin & Hlam).
    rewrite Hpairs in Hwr.
    assert (Hall : Forall (sec_in (len value)) (sort_secs secs)).
    { apply Forall_forall. intros x Hx. apply (proj1 (sort_secs_in _ _)) in Hx. specialize (Hin x Hx). unfold sec_in. lia. }
    destruct (sweep_spec value mode (sort_secs secs) prev) as (segs1 & Hs1 & Ho1 & Hb1 & Hh1); [lia | assumption |].
    assert (Hp1 : snd (chosen (sort_secs secs) prev) <= snd m).
    { apply chosen_bound; [lia|]. intros x Hx. apply (proj1 (sort_secs_in _ _)) in Hx. specialize (Hin x Hx). lia. }
    destruct (IH (snd m) (snd (chosen (sort_secs secs) prev))) as (segs2 & Hs2 & Ho2 & Hb2 & Hh2); try assumption; try lia.
    exists (segs1 ++ segs2).
    cbn [matches_loop chosen_all]. rewrite Hc. cbn [bind]. rewrite Hs1. cbn [bind]. rewrite Hs2. cbn [bind].
    destruct (chosen (sort_secs secs) prev) as [c1 p1] eqn:E1. cbn [fst snd] in *.
    destruct (chosen_all groups r p1) as [c2 p2] eqn:E2. cbn [fst snd] in *.
    repeat split.
    + now rewrite masked_app.
    + rewrite orig_app, Ho1, Ho2. apply sub_app; lia.
    + lia.
    + lia.
    + rewrite hidden_ranges_app, Hh1, Ho1, sub_len by lia.
      replace (prev + (p1 - prev)) with p1 by lia. now rewrite Hh2.
Qed.

Lemma chosen_all_selected groups nsub vlen : forall idxs lo prev c,
  groups_ok nsub groups -> re_wf_from vlen nsub lo idxs = true ->
  In c (fst (chosen_all groups idxs prev)) -> selected idxs groups c.
Proof.
  induction idxs as [|index r IH]; intros lo prev c Hg Hwf Hc; [destruct Hc|].
  cbn [re_wf_from] in Hwf. apply andb_prop in Hwf as [Hwi Hwr].
  destruct (match_facts _ _ _ _ _ Hwi Hg) as (secs & m & rest & Hcol & Hchar & Hpairs & _).
  rewrite Hpairs in Hwr. cbn [chosen_all] in Hc. rewrite Hcol in Hc.
  destruct (chosen (sort_secs secs) prev) as [c1 p1] eqn:E1.
  destruct (chosen_all groups r p1) as [c2 p2] eqn:E2. cbn [fst] in Hc.
  apply in_app_or in Hc as [Hc | Hc].
  - assert (Hin : In c secs).
    { apply (proj1 (sort_secs_in _ _)). apply (chosen_subset _ prev). now rewrite E1. }
    apply Hchar in Hin as (g & Hgi & H). exists index, g. split; [now left|]. tauto.
  - destruct (IH (snd m) p1 c Hg Hwr) as (ix & g & Hix & H); [now rewrite E2|].
    exists ix, g. split; [now right | assumption].
Qed.

Lemma chosen_all_cover groups nsub vlen : forall idxs lo prev r,
  groups_ok nsub groups -> re_wf_from vlen nsub lo idxs = true -> prev <= lo ->
  selected idxs groups r -> exists c, In c (fst (chosen_all groups idxs prev)) /\ covers c r.
Proof.
  induction idxs as [|index rest IH]; intros lo prev r Hg Hwf Hp (ix & g & Hix & Hgi & Ha & Hb & H0 & H0'); [destruct Hix|].
  cbn [re_wf_from] in Hwf. apply andb_prop in Hwf as [Hwi Hwr].
  destruct (match_facts _ _ _ _ _ Hwi Hg) as (secs & m & rest' & Hcol & Hchar & Hpairs & H1 & H2 & H3 & Hin & Hlam).
  rewrite Hpairs in Hwr. cbn [chosen_all]. rewrite Hcol.
  destruct (chosen (sort_secs secs) prev) as [c1 p1] eqn:E1.
  destruct (chosen_all groups rest p1) as [c2 p2] eqn:E2. cbn [fst].
  destruct Hix as [<- | Hix].
  - assert (Hr : In r (sort_secs secs)).
    { apply (proj2 (sort_secs_in _ _)). apply Hchar. exists g. tauto. }
    destruct (chosen_cover (sort_secs secs) prev None) with (r := r) as [(c & Hc & Hcov) | []].
    + apply sort_secs_sorted.
    + intros a b Ha' Hb'. apply Hlam; now apply (proj1 (sort_secs_in _ _)).
    + intros x Hx. apply (proj1 (sort_secs_in _ _)) in Hx. specialize (Hin x Hx). lia.
    + intros x Hx. apply (proj1 (sort_secs_in _ _)) in Hx. specialize (Hin x Hx). lia.
    + assumption.
    + exists c. split; [|assumption]. apply in_or_app. left. now rewrite E1 in Hc.
  - assert (Hp1 : p1 <= snd m).
    { change p1 with (snd (c1, p1)). rewrite <- E1. apply chosen_bound; [lia|].
      intros x Hx. apply (proj1 (sort_secs_in _ _)) in Hx. specialize (Hin x Hx). lia. }
    destruct (IH (snd m) p1 r Hg Hwr Hp1) as (c & Hc & Hcov).
    + exists ix, g. tauto.
    + exists c. split; [|assumption]. apply in_or_app. right. now rewrite E2 in Hc.
Qed.

Lemma masked_keep mode b : masked mode [Keep b] = b.
Proof. unfold masked. cbn [map concat]. apply app_nil_r. Qed.
Lemma orig_keep b : orig [Keep b] = b.
Proof. unfold orig. cbn [map concat seg_bytes]. apply app_nil_r. Qed.

(* ---- the theorems about maskValue ----------------------------------------------------------------- *)
Definition re_wf (vlen nsub : Z) (idxs : list (list Z)) : Prop := re_wf_b vlen nsub idxs = true.

Lemma mask_value_nomatch value groups mode : mask_value value [] groups mode = Ok None.
Proof. reflexivity. Qed.

Theorem mask_value_spec : forall value nsub idxs groups mode,
  re_wf (len value) nsub idxs -> groups_ok nsub groups -> idxs <> [] ->
  exists segs,
    mask_value value idxs groups mode = Ok (Some (masked mode segs)) /\
    orig segs = value /\
    (forall r, In r (hidden_ranges 0 segs) -> selected idxs groups r) /\
    (forall r, selected idxs groups r -> exists c, In c (hidden_ranges 0 segs) /\ covers c r).
Proof.
  intros value nsub idxs groups mode Hwf Hg Hne.
  unfold re_wf, re_wf_b in Hwf. apply andb_prop in Hwf as [Hn Hwf].
  pose proof (len_nonneg value) as Hlen.
  destruct (matches_loop_spec value mode groups nsub idxs 0 0 Hg Hwf) as (segs & Hs & Ho & Hb & Hh); [lia | lia |].
  set (p := snd (chosen_all groups idxs 0)) in *.
  exists (segs ++ [Keep (sub value p (len value))]).
  repeat split.
  - unfold mask_value. destruct idxs as [|i0 ir]; [congruence|].
    rewrite Hs. cbn [bind]. unfold slice_from. rewrite slice_ok by lia. cbn [bind].
    now rewrite masked_app, masked_keep.
  - rewrite orig_app, Ho, orig_keep.
    rewrite sub_app by lia. apply sub_full.
  - intros r Hr. rewrite hidden_ranges_app in Hr. cbn [hidden_ranges] in Hr. rewrite app_nil_r in Hr.
    rewrite Hh in Hr. eapply chosen_all_selected; eauto.
  - intros r Hr. destruct (chosen_all_cover groups nsub (len value) idxs 0 0 r Hg Hwf) as (c & Hc & Hcov); [lia | assumption |].
    exists c. split; [|assumption]. rewrite hidden_ranges_app. apply in_or_app. left. now rewrite Hh.
Qed.

Theorem mask_value_total : forall value nsub idxs groups mode,
  re_wf (len value) nsub idxs -> groups_ok nsub groups ->
  is_panic (mask_value value idxs groups mode) = false.
Proof.
  intros value nsub idxs groups mode Hwf Hg. destruct idxs as [|i0 ir] eqn:E; [reflexivity|].
  destruct (mask_value_spec value nsub idxs groups mode) as (segs & H & _); subst; try assumption; [congruence|].
  now rewrite H.
Qed.

(* locApplied iff the regexp matched *)
Lemma mask_value_applied_iff value nsub idxs groups mode r :
  re_wf (len value) nsub idxs -> groups_ok nsub groups ->
  mask_value value idxs groups mode = Ok r -> (r <> None <-> idxs <> []).
Proof.
  intros Hwf Hg H. destruct idxs as [|i0 ir] eqn:E.
  - cbn in H. inversion H. split; congruence.
  - destruct (mask_value_spec value nsub idxs groups mode) as (segs & H' & _); subst; try assumption; [congruence|].
    rewrite H' in H. inversion H. split; congruence.
Qed.

(* ------------------------------------------------------------------------------------------------ *)
(* the res monad                                                                                     *)
(* ------------------------------------------------------------------------------------------------ *)
Lemma bind_not_panic {A B} (r : res A) (f : A -> res B) :
  is_panic r = false -> (forall a, r = Ok a -> is_panic (f a) = false) -> is_panic (bind r f) = false.
Proof. destruct r; cbn; intros H Hf; [now apply Hf | reflexivity | discriminate]. Qed.

Lemma bind_ok_inv {A B} (r : res A) (f : A -> res B) b :
  bind r f = Ok b -> exists a, r = Ok a /\ f a = Ok b.
Proof. destruct r; cbn; intros H; [eauto | discriminate | discriminate]. Qed.

(* ------------------------------------------------------------------------------------------------ *)
(* induction on JSON trees                                                                           *)
(* ------------------------------------------------------------------------------------------------ *)
Section JsonInd.
  Variable P : json -> Prop.
  Hypothesis Hnull : P JNull.
  Hypothesis Hbool : forall b, P (JBool b).
  Hypothesis Hnum : forall r, P (JNum r).
  Hypothesis Hstr : forall s, P (JStr s).
  Hypothesis Harr : forall l, Forall P l -> P (JArr l).
  Hypothesis Hobj : forall fs, Forall (fun kv => P (snd kv)) fs -> P (JObj fs).
  Fixpoint json_ind' (j : json) : P j :=
    match j with
    | JNull => Hnull
    | JBool b => Hbool b
    | JNum r => Hnum r
    | JStr s => Hstr s
    | JArr l => Harr l ((fix go (l : list json) : Forall P l :=
                           match l with
                           | [] => Forall_nil _
                           | x :: r => Forall_cons x (json_ind' x) (go r)
                           end) l)
    | JObj fs => Hobj fs ((fix go (fs : list (bytes * json)) : Forall (fun kv => P (snd kv)) fs :=
                             match fs with
                             | [] => Forall_nil _
                             | (k, v) :: r => Forall_cons (k, v) (json_ind' v) (go r)
                             end) fs)
    end.
End JsonInd.

(* the inner loops of traverse, named *)
Section Loops.
  Variable inh : bool.
  Variable fl : fields.
  Variable trav : option fmnode -> json -> res tres.
  Variable fm : option fmnode.

  Fixpoint arr_go (i : nat) (l : list json) : res (list json * list nat) :=
    match l with
    | [] => Ok ([], [])
    | x :: r =>
        '(x', _, f1) <- trav (next_fm inh fm (itoa i)) x ;;
        '(r', f2) <- arr_go (S i) r ;;
        Ok (x' :: r', f1 ++ f2)
    end.

  Fixpoint obj_go (fs : list (bytes * json)) : res (list (bytes * json) * list nat) :=
    match fs with
    | [] => Ok ([], [])
    | (k, x) :: r =>
        '(x', f1) <- (match field_next inh fl fm k with
                      | None => Ok (x, [])
                      | Some nx => '(x', _, f1) <- trav nx x ;; Ok (x', f1)
                      end) ;;
        '(r', f2) <- obj_go r ;;
        Ok ((k, x') :: r', f1 ++ f2)
    end.
End Loops.

Section Tree.
  Variable inh : bool.
  Variable masks : list cmask.
  Variable fl : fields.
  Variable oracle : nat -> bytes -> res (list (list Z)).

  Notation trav := (traverse inh masks fl oracle).

  Lemma traverse_arr fm l :
    trav fm (JArr l) = ('(l', fired) <- arr_go inh trav fm 0 l ;; Ok (JArr l', false, fired)).
  Proof. reflexivity. Qed.

  Lemma traverse_obj fm fs :
    trav fm (JObj fs) = ('(fs', fired) <- obj_go inh fl trav fm fs ;; Ok (JObj fs', false, fired)).
  Proof. reflexivity. Qed.
End Tree.

(* ------------------------------------------------------------------------------------------------ *)
(* cfg/matchrule: Match never panics                                                                 *)
(* ------------------------------------------------------------------------------------------------ *)
Lemma affix_loop_ok md cut : forall vs, exists b, affix_loop md cut vs = Ok b.
Proof.
  induction vs as [|v r [b IH]]; cbn [affix_loop]; [eauto|].
  pose proof (len_nonneg v). pose proof (len_nonneg cut).
  destruct (len cut <? len v) eqn:E; [eauto|].
  assert (Hs : exists d, (match md with
                          | RSuffix => slice_from cut (len cut - len v)
                          | _ => slice_to cut (len v)
                          end) = Ok d).
  { destruct md; unfold slice_from, slice_to; rewrite slice_ok by lia; eauto. }
  destruct Hs as [d ->]. cbn [bind]. destruct (bytes_eqb d v); eauto.
Qed.

Lemma rule_match_ok p raw : 0 <= p_max p -> exists b, rule_match p raw = Ok b.
Proof.
  intros Hm. unfold rule_match, rule_match_raw.
  destruct (len raw <? p_min p) eqn:E1; [cbn [bind]; eauto|].
  pose proof (len_nonneg raw).
  destruct (p_mode p) eqn:Emd.
  - destruct (len raw <? p_max p) eqn:E2; cbn [bind].
    + destruct (affix_loop_ok RPrefix (if p_ci p then to_lower raw else raw) (p_values p)) as [b ->]. cbn [bind]. eauto.
    + unfold slice_to. rewrite slice_ok by lia. cbn [bind].
      match goal with |- context [affix_loop ?m ?c ?v] => destruct (affix_loop_ok m c v) as [b ->] end. cbn [bind]. eauto.
  - cbn [bind]. eauto.
  - destruct (len raw <? p_max p) eqn:E2; cbn [bind].
    + destruct (affix_loop_ok RSuffix (if p_ci p then to_lower raw else raw) (p_values p)) as [b ->]. cbn [bind]. eauto.
    + unfold slice_from. rewrite slice_ok by lia. cbn [bind].
      match goal with |- context [affix_loop ?m ?c ?v] => destruct (affix_loop_ok m c v) as [b ->] end. cbn [bind]. eauto.
Qed.

Definition rules_ok (rss : list pruleset) : Prop :=
  forall rs p, In rs rss -> In p (snd rs) -> 0 <= p_max p.

Lemma rs_loop_ok is_or data : forall rules,
  (forall p, In p rules -> 0 <= p_max p) -> exists b, rs_loop is_or rules data = Ok b.
Proof.
  induction rules as [|r rest IH]; intros H; cbn [rs_loop]; [eauto|].
  destruct (rule_match_ok r data) as [m ->]; [apply H; now left|]. cbn [bind].
  destruct (m && is_or); [eauto|]. destruct (negb m && negb is_or); [eauto|].
  apply IH. intros p Hp. apply H. now right.
Qed.

Lemma check_match_rules_ok rss data : rules_ok rss -> exists b, check_match_rules rss data = Ok b.
Proof.
  intros H. unfold check_match_rules. destruct rss as [|rs0 rest0]; [eauto|].
  remember (rs0 :: rest0) as rss eqn:E. clear E.
  induction rss as [|rs rest IH]; cbn [any_ruleset]; [eauto|].
  assert (Hrs : exists b, ruleset_match rs data = Ok b).
  { unfold ruleset_match. destruct (snd rs) as [|r0 rr] eqn:E; [eauto|].
    rewrite <- E. apply rs_loop_ok. intros p Hp. apply (H rs p); [now left | assumption]. }
  destruct Hrs as [m ->]. cbn [bind]. destruct m; [eauto|].
  apply IH. intros rs' p Hrs' Hp. apply (H rs' p); [now right | assumption].
Qed.

Lemma fold_max_ge : forall (vs : list bytes) a, a <= fold_left (fun a v => Z.max a (len v)) vs a.
Proof.
  induction vs as [|v r IH]; intros a; cbn [fold_left]; [lia|].
  specialize (IH (Z.max a (len v))). lia.
Qed.

Lemma prepare_max_nonneg r : 0 <= p_max (prepare r).
Proof.
  unfold prepare. cbn [p_max].
  match goal with |- 0 <= fold_left _ ?vs ?a => pose proof (fold_max_ge vs a) as H; assert (0 <= a) end.
  { destruct (if r_ci r then map to_lower (r_values r) else r_values r); [lia | apply len_nonneg]. }
  lia.
Qed.

(* ------------------------------------------------------------------------------------------------ *)
(* compiled masks                                                                                    *)
(* ------------------------------------------------------------------------------------------------ *)
Definition cmask_ok (k : cmask) : Prop :=
  (k_apply k = true -> groups_ok (k_nsub k) (k_groups k)) /\ rules_ok (k_rules k).

Lemma compile_mask_ok m k : compile_mask m = Ok k -> cmask_ok k.
Proof.
  unfold compile_mask. destruct (negb (m_re m) && is_nil (m_rules m)); [discriminate|].
  intros H. apply bind_ok_inv in H as (gs & Hgs & H).
  destruct (existsb _ (m_rules m)); [discriminate|].
  destruct (negb (is_nil (m_ign m)) && negb (is_nil (m_proc m))); [discriminate|].
  destruct (existsb is_nil (m_ign m) || existsb is_nil (m_proc m)); [discriminate|].
  inversion H; subst; clear H. split; cbn [k_apply k_nsub k_groups k_rules].
  - intros Ha. destruct (m_re m); [|discriminate]. now apply verify_groups_range in Hgs.
  - intros rs p Hrs Hp. apply in_map_iff in Hrs as (rs0 & <- & _). cbn [snd] in Hp.
    apply in_map_iff in Hp as (r & <- & _). apply prepare_max_nonneg.
Qed.

Lemma compile_masks_ok : forall ms ks, compile_masks ms = Ok ks -> Forall cmask_ok ks.
Proof.
  induction ms as [|m r IH]; intros ks H; cbn [compile_masks] in H.
  - inversion H. constructor.
  - apply bind_ok_inv in H as (k & Hk & H). apply bind_ok_inv in H as (ks' & Hks & H).
    inversion H; subst. constructor; [now apply compile_mask_ok in Hk | now apply IH].
Qed.

(* ------------------------------------------------------------------------------------------------ *)
(* processMask and traverseTree                                                                      *)
(* ------------------------------------------------------------------------------------------------ *)
Lemma same_shape_leaf_inv v s : same_shape (JStr s) v -> exists s', v = JStr s'.
Proof. intros H. inversion H; subst; eauto. Qed.

Section Tree2.
  Variable inh : bool.
  Variable masks : list cmask.
  Variable fl : fields.
  Variable oracle : nat -> bytes -> res (list (list Z)).
  Hypothesis masks_ok : Forall cmask_ok masks.
  Hypothesis oracle_no_panic : forall i b, is_panic (oracle i b) = false.

  Notation trav := (traverse inh masks fl oracle).
  Notation pml := (pm_loop fl oracle).

  Lemma pm_loop_not_panic : forall ms i fm orig src upd fired,
    Forall cmask_ok ms -> is_panic (pml i ms fm orig src upd fired) = false.
  Proof.
    induction ms as [|k r IH]; intros i fm orig src upd fired Hok; [reflexivity|].
    inversion Hok as [|x l [Hg Hr] Hok']; subst. cbn [pm_loop].
    destruct (negb (applicable fl k i fm)); [now apply IH|].
    destruct (check_match_rules_ok (k_rules k) orig Hr) as [rm ->]. cbn [bind].
    destruct (negb rm); [now apply IH|].
    destruct (k_apply k) eqn:Ea; [|now apply IH].
    apply bind_not_panic; [apply oracle_no_panic|]. intros idxs _.
    destruct (re_wf_b (len src) (k_nsub k) idxs) eqn:Ewf; cbn [negb]; [|reflexivity].
    apply bind_not_panic.
    - eapply mask_value_total; [exact Ewf | now apply Hg].
    - intros [out|] _; now apply IH.
  Qed.

  Lemma pm_loop_facts : forall ms i fm orig src upd fired out upd' fired',
    pml i ms fm orig src upd fired = Ok (out, upd', fired') ->
    exists new, fired' = new ++ fired /\
                (forall j, In j new -> (i <= j < i + length ms)%nat) /\
                (new = [] -> out = src /\ upd' = upd).
  Proof.
    induction ms as [|k r IH]; intros i fm orig src upd fired out upd' fired' H; cbn [pm_loop] in H.
    - inversion H; subst. exists []. split; [reflexivity|]. split; [intros j [] | auto].
    - assert (Hskip : forall src0 upd0, pml (S i) r fm orig src0 upd0 fired = Ok (out, upd', fired') ->
                exists new, fired' = new ++ fired /\
                  (forall j, In j new -> (i <= j < i + length (k :: r))%nat) /\
                  (new = [] -> out = src0 /\ upd' = upd0)).
      { intros src0 upd0 H0. destruct (IH _ _ _ _ _ _ _ _ _ H0) as (new & E & Hj & He).
        exists new. split; [assumption|]. split; [|assumption].
        intros j Hjn; specialize (Hj j Hjn); cbn [length]; lia. }
      assert (Hfire : forall src0 upd0, pml (S i) r fm orig src0 upd0 (i :: fired) = Ok (out, upd', fired') ->
                exists new, fired' = new ++ fired /\
                  (forall j, In j new -> (i <= j < i + length (k :: r))%nat) /\
                  (new = [] -> out = src /\ upd' = upd)).
      { intros src0 upd0 H0. destruct (IH _ _ _ _ _ _ _ _ _ H0) as (new & E & Hj & He).
        exists (new ++ [i]). rewrite <- app_assoc. cbn [app]. split; [assumption|]. split.
        - intros j Hjn. apply in_app_or in Hjn as [Hjn | [<- | []]]; cbn [length]; [specialize (Hj j Hjn)|]; lia.
        - intros Hnil. destruct new; discriminate. }
      destruct (negb (applicable fl k i fm)); [now apply Hskip|].
      apply bind_ok_inv in H as (rm & _ & H).
      destruct (negb rm); [now apply Hskip|].
      destruct (k_apply k); [|now apply (Hfire src upd)].
      apply bind_ok_inv in H as (idxs & _ & H).
      destruct (negb (re_wf_b (len src) (k_nsub k) idxs)); [discriminate|].
      apply bind_ok_inv in H as (mv & _ & H).
      destruct mv as [o|]; [now apply (Hfire o true) | now apply Hskip].
  Qed.

  Lemma process_mask_not_panic fm s : is_panic (process_mask masks fl oracle fm s) = false.
  Proof.
    unfold process_mask. destruct s as [|c s]; [reflexivity|].
    apply bind_not_panic; [now apply pm_loop_not_panic|]. now intros [[out upd] fired] _.
  Qed.

  Lemma process_mask_facts fm s out upd fired :
    process_mask masks fl oracle fm s = Ok (out, upd, fired) ->
    (forall j, In j fired -> (j < length masks)%nat) /\ (fired = [] -> out = s /\ upd = false).
  Proof.
    unfold process_mask. destruct s as [|c s].
    - intros H; inversion H; subst. split; [intros j []| auto].
    - intros H. apply bind_ok_inv in H as ([[o u] f] & Hl & H). inversion H; subst; clear H.
      destruct (pm_loop_facts _ _ _ _ _ _ _ _ _ _ Hl) as (new & E & Hj & He). rewrite app_nil_r in E. subst f.
      split.
      + intros j Hjn. apply in_rev in Hjn. specialize (Hj j Hjn). lia.
      + intros Hnil. apply He. destruct new as [|a new]; [reflexivity|].
        cbn [rev] in Hnil. destruct (rev new); discriminate.
  Qed.

  Lemma leaf_not_panic fm v s : is_panic (leaf masks fl oracle fm v s) = false.
  Proof.
    unfold leaf. apply bind_not_panic; [apply process_mask_not_panic|]. now intros [[out upd] fired] _.
  Qed.

  Lemma traverse_not_panic : forall v fm, is_panic (trav fm v) = false.
  Proof.
    induction v using json_ind'; intros fm; try reflexivity; try apply leaf_not_panic.
    - rewrite traverse_arr. apply bind_not_panic; [|now intros [l' f] _].
      generalize 0%nat. induction H as [|x r Hx Hr IH]; intros i; [reflexivity|].
      cbn [arr_go]. apply bind_not_panic; [apply Hx|]. intros [[x' u] f1] _.
      apply bind_not_panic; [apply IH|]. now intros [r' f2] _.
    - rewrite traverse_obj. apply bind_not_panic; [|now intros [l' f] _].
      induction H as [|[k x] r Hx Hr IH]; [reflexivity|].
      cbn [obj_go]. apply bind_not_panic.
      + destruct (field_next inh fl fm k); [|reflexivity].
        apply bind_not_panic; [apply Hx|]. now intros [[x' u] f1] _.
      + intros [x' f1] _. apply bind_not_panic; [apply IH|]. now intros [r' f2] _.
  Qed.

  Definition trav_facts (v : json) (r : tres) : Prop :=
    let '(v', upd, fired) := r in
    same_shape v v' /\ (upd = true -> leaf_like v /\ exists s, v' = JStr s) /\
    (forall j, In j fired -> (j < length masks)%nat) /\ (fired = [] -> v' = v).

  Lemma leaf_facts fm v s r :
    leaf_like v -> leaf masks fl oracle fm v s = Ok r -> trav_facts v r.
  Proof.
    intros Hl H. unfold leaf in H. apply bind_ok_inv in H as ([[out upd] fired] & Hp & H).
    inversion H; subst; clear H. destruct (process_mask_facts _ _ _ _ _ Hp) as [Hj He].
    unfold trav_facts. split; [|split; [|split]].
    - destruct upd; [now apply SS_leaf | apply SS_refl].
    - intros ->. split; [exact Hl | eauto].
    - exact Hj.
    - intros Hnil. destruct (He Hnil) as [_ ->]. reflexivity.
  Qed.

  Lemma trav_facts_id v : trav_facts v (v, false, []).
  Proof. cbn. split; [apply SS_refl|]. split; [discriminate|]. split; [intros j [] | reflexivity]. Qed.

  Lemma traverse_facts : forall v fm tr, trav fm v = Ok tr -> trav_facts v tr.
  Proof.
    induction v using json_ind'; intros fm tr Hr.
    - inversion Hr; subst. apply trav_facts_id.
    - inversion Hr; subst. apply trav_facts_id.
    - eapply leaf_facts; [|exact Hr]. exact I.
    - eapply leaf_facts; [|exact Hr]. exact I.
    - rewrite traverse_arr in Hr. apply bind_ok_inv in Hr as ([l' fired] & Hgo & Hr). inversion Hr; subst; clear Hr.
      assert (Hall : Forall2 same_shape l l' /\ (forall j, In j fired -> (j < length masks)%nat) /\ (fired = [] -> l' = l)).
      { revert l' fired Hgo. generalize 0%nat. induction H as [|x r Hx Hr IH]; intros i l' fired Hgo; cbn [arr_go] in Hgo.
        - inversion Hgo; subst. split; [constructor|]. split; [intros j [] | reflexivity].
        - apply bind_ok_inv in Hgo as ([[x' u] f1] & Hx1 & Hgo).
          apply bind_ok_inv in Hgo as ([r' f2] & Hr1 & Hgo). inversion Hgo; subst; clear Hgo.
          destruct (Hx _ _ Hx1) as (Hs & _ & Hj & He). destruct (IH _ _ _ Hr1) as (Hs2 & Hj2 & He2).
          split; [|split].
          + now constructor.
          + intros j Hjn. apply in_app_or in Hjn as [?|?]; auto.
          + intros Hnil. apply app_eq_nil in Hnil as [-> ->]. now rewrite He, He2. }
      destruct Hall as (Hs & Hj & He). cbn. split; [|split; [|split]].
      + now apply SS_arr.
      + discriminate.
      + assumption.
      + intros Hnil. now rewrite He.
    - rewrite traverse_obj in Hr. apply bind_ok_inv in Hr as ([fs' fired] & Hgo & Hr). inversion Hr; subst; clear Hr.
      assert (Hall : Forall2 (fun a b => fst a = fst b /\ same_shape (snd a) (snd b)) fs fs' /\
                     (forall j, In j fired -> (j < length masks)%nat) /\ (fired = [] -> fs' = fs)).
      { revert fs' fired Hgo. induction H as [|[k x] r Hx Hr IH]; intros fs' fired Hgo; cbn [obj_go] in Hgo.
        - inversion Hgo; subst. split; [constructor|]. split; [intros j [] | reflexivity].
        - apply bind_ok_inv in Hgo as ([x' f1] & Hx1 & Hgo).
          apply bind_ok_inv in Hgo as ([r' f2] & Hr1 & Hgo). inversion Hgo; subst; clear Hgo.
          destruct (IH _ _ Hr1) as (Hs2 & Hj2 & He2).
          assert (Hx' : same_shape x x' /\ (forall j, In j f1 -> (j < length masks)%nat) /\ (f1 = [] -> x' = x)).
          { destruct (field_next inh fl fm k).
            - apply bind_ok_inv in Hx1 as ([[x2 u] f] & Hx1 & E). inversion E; subst; clear E.
              cbn [snd] in Hx. destruct (Hx _ _ Hx1) as (Hs & _ & Hj & He). auto.
            - inversion Hx1; subst. split; [apply SS_refl|]. split; [intros j [] | reflexivity]. }
          destruct Hx' as (Hs & Hj & He).
          split; [|split].
          + constructor; [cbn; auto | assumption].
          + intros j Hjn. apply in_app_or in Hjn as [?|?]; auto.
          + intros Hnil. apply app_eq_nil in Hnil as [-> ->]. now rewrite He, He2. }
      destruct Hall as (Hs & Hj & He). cbn. split; [|split; [|split]].
      + now apply SS_obj.
      + discriminate.
      + assumption.
      + intros Hnil. now rewrite He.
  Qed.
End Tree2.

(* ------------------------------------------------------------------------------------------------ *)
(* same_shape is transitive; lists of fields                                                          *)
(* ------------------------------------------------------------------------------------------------ *)
Lemma Forall2_trans_in {A} (R : A -> A -> Prop) : forall l,
  Forall (fun x => forall y z, R x y -> R y z -> R x z) l ->
  forall l' l'', Forall2 R l l' -> Forall2 R l' l'' -> Forall2 R l l''.
Proof.
  induction 1 as [|x l Hx Hl IH]; intros l' l'' H1 H2.
  - inversion H1; subst. inversion H2; subst. constructor.
  - inversion H1; subst. inversion H2; subst. constructor; [eapply Hx; eauto | eapply IH; eauto].
Qed.

Lemma same_shape_trans : forall a y z, same_shape a y -> same_shape y z -> same_shape a z.
Proof.
  induction a using json_ind'; intros y z Hab Hbc.
  - inversion Hab; subst; [assumption|]. destruct (same_shape_leaf_inv _ _ Hbc) as [s' ->]. now apply SS_leaf.
  - inversion Hab; subst; [assumption|]. destruct (same_shape_leaf_inv _ _ Hbc) as [s' ->]. now apply SS_leaf.
  - inversion Hab; subst; [assumption|]. destruct (same_shape_leaf_inv _ _ Hbc) as [s' ->]. now apply SS_leaf.
  - inversion Hab; subst; [assumption|]. destruct (same_shape_leaf_inv _ _ Hbc) as [s' ->]. now apply SS_leaf.
  - inversion Hab; subst; try assumption;
      try (match goal with Hl : leaf_like _ |- _ => cbn in Hl; contradiction end).
    inversion Hbc; subst; try assumption;
      try (match goal with Hl : leaf_like _ |- _ => cbn in Hl; contradiction end).
    apply SS_arr. eapply Forall2_trans_in; eauto.
  - inversion Hab; subst; try assumption;
      try (match goal with Hl : leaf_like _ |- _ => cbn in Hl; contradiction end).
    inversion Hbc; subst; try assumption;
      try (match goal with Hl : leaf_like _ |- _ => cbn in Hl; contradiction end).
    apply SS_obj. eapply (Forall2_trans_in (fun a b => fst a = fst b /\ same_shape (snd a) (snd b))); eauto.
    eapply Forall_impl; [|exact H]. intros [k v] Hv y z [E1 S1] [E2 S2]. cbn [fst snd] in *.
    split; [congruence | eapply Hv; eauto].
Qed.

Lemma key_eqb_eq : forall a b, key_eqb a b = true <-> a = b.
Proof.
  unfold key_eqb. induction a as [|x a IH]; intros [|y b]; cbn [N_eqb_list]; split; intros H; try discriminate; try reflexivity.
  - apply andb_prop in H as [H1 H2]. apply N.eqb_eq in H1. apply IH in H2. congruence.
  - inversion H; subst. rewrite N.eqb_refl. cbn. now apply IH.
Qed.

Lemma key_eqb_refl a : key_eqb a a = true.
Proof. now apply key_eqb_eq. Qed.

(* position of the first key equal to k *)
Fixpoint key_index (ks : list bytes) (k : bytes) (i : nat) : option nat :=
  match ks with
  | [] => None
  | k' :: r => if key_eqb k' k then Some i else key_index r k (S i)
  end.

Lemma field_index_keys : forall fs k i, field_index fs k i = key_index (map fst fs) k i.
Proof.
  induction fs as [|[k' v] r IH]; intros k i; cbn [field_index map fst key_index]; [reflexivity|].
  destruct (key_eqb k' k); [reflexivity | apply IH].
Qed.

Lemma key_index_app : forall ks ex k i j, key_index ks k i = Some j -> key_index (ks ++ ex) k i = Some j.
Proof.
  induction ks as [|k' r IH]; intros ex k i j H; cbn [key_index app] in *; [discriminate|].
  destruct (key_eqb k' k); [assumption | now apply IH].
Qed.

Lemma key_index_spec : forall ks k i j,
  key_index ks k i = Some j -> (i <= j)%nat /\ nth_error ks (j - i) = Some k.
Proof.
  induction ks as [|k' r IH]; intros k i j H; cbn [key_index] in H; [discriminate|].
  destruct (key_eqb k' k) eqn:E.
  - inversion H; subst. apply key_eqb_eq in E. subst. split; [lia|]. now rewrite Nat.sub_diag.
  - destruct (IH _ _ _ H) as [Hle Hn]. split; [lia|].
    replace (j - i)%nat with (S (j - S i)) by lia. exact Hn.
Qed.

Lemma key_index_none : forall ks k i, key_index ks k i = None -> ~ In k ks.
Proof.
  induction ks as [|k' r IH]; intros k i H; cbn [key_index] in H; [intros []|].
  destruct (key_eqb k' k) eqn:E; [discriminate|].
  intros [-> | Hin]; [rewrite key_eqb_refl in E; discriminate | eapply IH; eauto].
Qed.

Lemma field_get_index : forall fs k i j,
  field_index fs k i = Some j -> exists v, field_get fs k = Some v /\ nth_error fs (j - i) = Some (k, v).
Proof.
  induction fs as [|[k' v] r IH]; intros k i j H; cbn [field_index field_get] in *; [discriminate|].
  destruct (key_eqb k' k) eqn:E.
  - inversion H; subst. apply key_eqb_eq in E. subst. exists v. split; [reflexivity|]. now rewrite Nat.sub_diag.
  - destruct (IH _ _ _ H) as (v' & Hg & Hn). exists v'. split; [assumption|].
    assert (S i <= j)%nat by (rewrite field_index_keys in H; apply key_index_spec in H; lia).
    replace (j - i)%nat with (S (j - S i)) by lia. exact Hn.
Qed.

Lemma field_get_none : forall fs k i, field_index fs k i = None -> field_get fs k = None.
Proof.
  induction fs as [|[k' v] r IH]; intros k i H; cbn [field_index field_get] in *; [reflexivity|].
  destruct (key_eqb k' k); [discriminate | eapply IH; eauto].
Qed.

Lemma set_val_keys : forall fs i v, map fst (set_val fs i v) = map fst fs.
Proof.
  induction fs as [|[k x] r IH]; intros [|i] v; cbn [set_val map fst]; try reflexivity. now rewrite IH.
Qed.

Lemma set_val_length fs i v : length (set_val fs i v) = length fs.
Proof. rewrite <- (map_length fst), set_val_keys. apply map_length. Qed.

Lemma set_val_nth_same : forall fs i k x v, nth_error fs i = Some (k, x) -> nth_error (set_val fs i v) i = Some (k, v).
Proof.
  induction fs as [|[k' x'] r IH]; intros [|i] k x v H; cbn [set_val nth_error] in *; try discriminate.
  - inversion H; subst. reflexivity.
  - eapply IH; eauto.
Qed.

Lemma set_val_nth_other : forall fs i j v, i <> j -> nth_error (set_val fs i v) j = nth_error fs j.
Proof.
  induction fs as [|[k' x'] r IH]; intros [|i] [|j] v H; cbn [set_val nth_error]; try reflexivity; try congruence.
  apply IH. congruence.
Qed.

Lemma set_val_oob : forall fs i v, nth_error fs i = None -> set_val fs i v = fs.
Proof.
  induction fs as [|[k' x'] r IH]; intros [|i] v H; cbn [set_val nth_error] in *; try reflexivity; try discriminate.
  now rewrite IH.
Qed.

Definition fields_shape (fs fs' : list (bytes * json)) : Prop :=
  Forall2 (fun a b => fst a = fst b /\ same_shape (snd a) (snd b)) fs fs'.

Lemma fields_shape_refl fs : fields_shape fs fs.
Proof. induction fs; constructor; [split; [reflexivity | apply SS_refl] | assumption]. Qed.

Lemma set_val_shape : forall fs n k v v',
  nth_error fs n = Some (k, v) -> same_shape v v' -> fields_shape fs (set_val fs n v').
Proof.
  induction fs as [|[k' x'] r IH]; intros [|n] k v v' H Hs; cbn [set_val nth_error] in *; try discriminate.
  - inversion H; subst. constructor; [cbn; auto | apply fields_shape_refl].
  - constructor; [split; [reflexivity | apply SS_refl] | eapply IH; eauto].
Qed.

Lemma set_at_shape : forall (l : list json) n v v',
  nth_error l n = Some v -> same_shape v v' -> Forall2 same_shape l (set_at l n v').
Proof.
  induction l as [|x r IH]; intros [|n] v v' H Hs; cbn [set_at nth_error] in *; try discriminate.
  - inversion H; subst. constructor; [assumption|]. clear. induction r; constructor; [apply SS_refl | assumption].
  - constructor; [apply SS_refl | eapply IH; eauto].
Qed.

(* Dig followed by the write-back keeps the skeleton when the new sub-tree keeps the skeleton of the old *)
Lemma put_path_shape : forall p j x',
  (forall x, dig_path j p = Some x -> same_shape x x') -> same_shape j (put_path j p x').
Proof.
  induction p as [|k rest IH]; intros j x' H; cbn [put_path dig_path] in *.
  - now apply H.
  - destruct j as [| | | |l|fs]; try apply SS_refl.
    + destruct (atoi_pos k) as [n|]; [|apply SS_refl].
      destruct (nth_error l n) as [v|] eqn:E; [|apply SS_refl].
      apply SS_arr. eapply set_at_shape; [exact E|]. now apply IH.
    + destruct (field_index fs k 0) as [n|] eqn:E.
      * destruct (field_get_index _ _ _ _ E) as (v & Hg & Hn). rewrite Hg in *. rewrite Nat.sub_0_r in Hn.
        apply SS_obj. eapply set_val_shape; [exact Hn|]. now apply IH.
      * apply SS_refl.
Qed.

(* ------------------------------------------------------------------------------------------------ *)
(* the frame of the root object                                                                      *)
(* ------------------------------------------------------------------------------------------------ *)
Definition val_ok (names : list bytes) (k : bytes) (v0 v : json) : Prop :=
  same_shape v0 v \/ (In k names /\ exists s, v = JStr s).

Lemma root_frame_refl names fs : root_frame names fs fs.
Proof.
  exists []. rewrite app_nil_r. split; [reflexivity|]. split; [intros k []|].
  intros i k v v' H1 H2. rewrite H1 in H2. inversion H2; subst. left. apply SS_refl.
Qed.

Lemma root_frame_nth names fs0 fs i k v0 :
  root_frame names fs0 fs -> nth_error fs0 i = Some (k, v0) ->
  exists v, nth_error fs i = Some (k, v) /\ val_ok names k v0 v.
Proof.
  intros (extra & Hk & Hex & Hv) H0.
  assert (Hki : nth_error (map fst fs) i = Some k).
  { rewrite Hk. rewrite nth_error_app1; [|rewrite map_length; apply nth_error_Some; congruence].
    now rewrite nth_error_map, H0. }
  rewrite nth_error_map in Hki. destruct (nth_error fs i) as [[k' v]|] eqn:E; [|discriminate].
  cbn in Hki. inversion Hki; subst. exists v. split; [reflexivity|]. eapply Hv; eauto.
Qed.

Lemma root_frame_length names fs0 fs : root_frame names fs0 fs -> (length fs0 <= length fs)%nat.
Proof.
  intros (extra & Hk & _). apply (f_equal (@length _)) in Hk. rewrite app_length, !map_length in Hk. lia.
Qed.

Lemma root_frame_set names fs0 fs i x' :
  root_frame names fs0 fs ->
  (forall k v0, nth_error fs0 i = Some (k, v0) -> val_ok names k v0 x') ->
  root_frame names fs0 (set_val fs i x').
Proof.
  intros (extra & Hk & Hex & Hv) Hx. exists extra. rewrite set_val_keys. split; [assumption|]. split; [assumption|].
  intros j k v v' H0 H1. destruct (Nat.eq_dec i j) as [<- | Hne].
  - destruct (nth_error fs i) as [[k' x]|] eqn:E.
    + rewrite (set_val_nth_same _ _ _ _ _ E) in H1. inversion H1; subst. eapply Hx; eauto.
    + rewrite set_val_oob in H1 by assumption. congruence.
  - rewrite set_val_nth_other in H1 by assumption. eapply Hv; eauto.
Qed.

Lemma root_frame_write names fs0 fs name value :
  root_frame names fs0 fs -> In name names ->
  root_frame names fs0 (fst (write_field fs name value)).
Proof.
  intros Hf Hn. unfold write_field. destruct (field_index fs name 0) as [j|] eqn:E; cbn [fst].
  - apply root_frame_set; [assumption|]. intros k v0 H0. right.
    destruct (root_frame_nth _ _ _ _ _ _ Hf H0) as (v & Hv & _).
    destruct (field_get_index _ _ _ _ E) as (v1 & _ & Hn1). rewrite Nat.sub_0_r in Hn1.
    rewrite Hn1 in Hv. inversion Hv; subst. split; [assumption | eauto].
  - destruct Hf as (extra & Hk & Hex & Hv). exists (extra ++ [name]).
    rewrite map_app, Hk, <- app_assoc. split; [reflexivity|]. split.
    + intros k Hin. apply in_app_or in Hin as [?|[<-|[]]]; auto.
    + intros i k v v' H0 H1. eapply Hv; [exact H0|].
      rewrite nth_error_app1 in H1; [assumption|].
      assert (i < length fs0)%nat by (apply nth_error_Some; congruence).
      apply (f_equal (@length _)) in Hk. rewrite app_length, !map_length in Hk. lia.
Qed.

Definition str_at (fs : list (bytes * json)) (i : nat) (names : list bytes) : Prop :=
  exists k s, nth_error fs i = Some (k, JStr s) /\ In k names.

Lemma write_field_spec fs name value :
  let '(fs', j) := write_field fs name value in
  nth_error fs' j = Some (name, JStr value) /\
  (forall i, i <> j -> (i < length fs)%nat -> nth_error fs' i = nth_error fs i).
Proof.
  unfold write_field. destruct (field_index fs name 0) as [j|] eqn:E.
  - destruct (field_get_index _ _ _ _ E) as (v1 & _ & Hn1). rewrite Nat.sub_0_r in Hn1. split.
    + eapply set_val_nth_same; eauto.
    + intros i Hne _. apply set_val_nth_other. congruence.
  - split.
    + rewrite nth_error_app2 by lia. now rewrite Nat.sub_diag.
    + intros i _ Hlt. now apply nth_error_app1.
Qed.

Section Marks.
  Variable masks : list cmask.
  Variable names : list bytes.
  Hypothesis names_ok : forall i k, nth_error masks i = Some k -> is_nil (k_afield k) = false -> In (k_afield k) names.

  Lemma apply_marks_spec : forall fired fs0 fs cur fs' hit,
    apply_marks masks fired fs cur = (fs', hit) -> root_frame names fs0 fs -> (cur < length fs)%nat ->
    root_frame names fs0 fs' /\ (length fs <= length fs')%nat /\
    (str_at fs cur names -> str_at fs' cur names) /\
    (hit = true -> str_at fs' cur names) /\
    (hit = false -> nth_error fs' cur = nth_error fs cur).
  Proof.
    induction fired as [|i r IH]; intros fs0 fs cur fs' hit H Hf Hc; cbn [apply_marks] in H.
    - inversion H; subst. repeat split; auto. discriminate.
    - destruct (nth_error masks i) as [k|] eqn:Ek; [|now apply IH].
      destruct (is_nil (k_afield k)) eqn:En; [now apply IH|].
      pose proof (write_field_spec fs (k_afield k) (k_avalue k)) as Hw.
      pose proof (root_frame_write names fs0 fs (k_afield k) (k_avalue k) Hf (names_ok _ _ Ek En)) as Hf1.
      destruct (write_field fs (k_afield k) (k_avalue k)) as [fs1 j] eqn:Ew. cbn [fst] in Hf1.
      destruct Hw as [Hj Hoth].
      destruct (apply_marks masks r fs1 cur) as [fs2 hit2] eqn:Er. inversion H; subst; clear H.
      assert (Hlen1 : (length fs <= length fs1)%nat).
      { unfold write_field in Ew. destruct (field_index fs (k_afield k) 0); inversion Ew; subst.
        - rewrite set_val_length. lia.
        - rewrite app_length. cbn. lia. }
      destruct (IH fs0 fs1 cur fs' hit2 Er Hf1) as (Hf2 & Hlen2 & Hstr & Hhit & Hno); [lia|].
      assert (Hstep : str_at fs cur names -> str_at fs1 cur names).
      { intros (k0 & s0 & Hn0 & Hin0). destruct (Nat.eq_dec cur j) as [-> | Hne].
        - exists (k_afield k), (k_avalue k). split; [assumption | eauto].
        - exists k0, s0. split; [rewrite Hoth by assumption; assumption | assumption]. }
      split; [assumption|]. split; [lia|]. split; [auto|]. split.
      + intros Hh. apply orb_prop in Hh as [Hh | Hh].
        * apply Nat.eqb_eq in Hh. subst j. apply Hstr. exists (k_afield k), (k_avalue k). split; [assumption | eauto].
        * now apply Hhit.
      + intros Hh. apply orb_false_elim in Hh as [Hh1 Hh2]. apply Nat.eqb_neq in Hh1.
        rewrite (Hno Hh2). apply Hoth; [congruence | assumption].
  Qed.
End Marks.

(* ------------------------------------------------------------------------------------------------ *)
(* Plugin.Do: never panics, and the frame of the event                                                *)
(* ------------------------------------------------------------------------------------------------ *)
Lemma field_index_of_get : forall fs k v, field_get fs k = Some v -> exists j, field_index fs k 0 = Some j.
Proof.
  intros fs k v H. destruct (field_index fs k 0) as [j|] eqn:E; [eauto|].
  rewrite (field_get_none _ _ _ E) in H. discriminate.
Qed.

Lemma same_shape_obj_inv a fs : same_shape a (JObj fs) -> exists fs0, a = JObj fs0.
Proof. intros H. inversion H; subst; eauto. Qed.

Lemma val_ok_step names k v0 x x' : val_ok names k v0 x -> same_shape x x' -> val_ok names k v0 x'.
Proof.
  intros [Hs | (Hin & s & ->)] Hx.
  - left. eapply same_shape_trans; eauto.
  - right. split; [assumption|]. now apply same_shape_leaf_inv in Hx.
Qed.

Section Root.
  Variable inh : bool.
  Variable masks : list cmask.
  Variable fl : fields.
  Variable oracle : nat -> bytes -> res (list (list Z)).
  Variable cfg : config.
  Hypothesis masks_ok : Forall cmask_ok masks.
  Hypothesis oracle_no_panic : forall i b, is_panic (oracle i b) = false.

  Notation trav := (traverse inh masks fl oracle).
  Notation names := (mark_names masks cfg).

  Lemma names_ok : forall i k, nth_error masks i = Some k -> is_nil (k_afield k) = false -> In (k_afield k) names.
  Proof.
    intros i k Hk Hn. unfold mark_names. apply filter_In. split; [|now rewrite Hn].
    right. apply in_map. eapply nth_error_In; eauto.
  Qed.

  Lemma root_loop_not_panic : forall todo i fm fs, is_panic (root_loop inh masks fl oracle todo i fm fs) = false.
  Proof.
    induction todo as [|t IH]; intros i fm fs; cbn [root_loop]; [reflexivity|].
    destruct (nth_error fs i) as [[k x]|]; [|reflexivity].
    destruct (field_next inh fl fm k); [|apply IH].
    apply bind_not_panic; [now apply traverse_not_panic|]. intros [[x' upd] fired] _.
    destruct (apply_marks masks fired fs i) as [fs1 hit].
    apply bind_not_panic; [apply IH|]. now intros [fs3 f2] _.
  Qed.

  Lemma root_loop_frame : forall todo i fm fs0 fs fs' fired,
    root_frame names fs0 fs -> root_loop inh masks fl oracle todo i fm fs = Ok (fs', fired) ->
    root_frame names fs0 fs' /\ forall j, In j fired -> (j < length masks)%nat.
  Proof.
    induction todo as [|t IH]; intros i fm fs0 fs fs' fired Hf H; cbn [root_loop] in H.
    - inversion H; subst. split; [assumption | intros j []].
    - destruct (nth_error fs i) as [[k x]|] eqn:En; [|inversion H; subst; split; [assumption | intros j []]].
      destruct (field_next inh fl fm k); [|eapply IH; eauto].
      apply bind_ok_inv in H as ([[x' upd] f1] & Ht & H).
      destruct (traverse_facts inh masks fl oracle _ _ _ Ht) as (Hs & _ & Hj1 & _).
      destruct (apply_marks masks f1 fs i) as [fs1 hit] eqn:Em.
      apply bind_ok_inv in H as ([fs3 f2] & Hl & H). inversion H; subst; clear H.
      assert (Hi : (i < length fs)%nat) by (apply nth_error_Some; congruence).
      destruct (apply_marks_spec masks names names_ok _ _ _ _ _ _ Em Hf Hi) as (Hf1 & _).
      assert (Hf2 : root_frame names fs0 (if negb hit || upd then set_val fs1 i x' else fs1)).
      { destruct (negb hit || upd); [|assumption]. apply root_frame_set; [assumption|].
        intros k0 v0 H0. destruct (root_frame_nth _ _ _ _ _ _ Hf H0) as (v & Hv & Hok).
        rewrite En in Hv. inversion Hv; subst. eapply val_ok_step; eauto. }
      destruct (IH _ _ _ _ _ _ Hf2 Hl) as (Hf3 & Hj2). split; [assumption|].
      intros j Hjn. apply in_app_or in Hjn as [?|?]; auto.
  Qed.

  Definition ev_inv (root0 root : json) : Prop := event_frame names root0 root.

  Lemma fast_loop_not_panic : forall paths root, is_panic (fast_loop inh masks fl oracle paths root) = false.
  Proof.
    induction paths as [|p rest IH]; intros root; cbn [fast_loop]; [reflexivity|].
    destruct (dig_path root p); [|apply IH].
    apply bind_not_panic; [now apply traverse_not_panic|]. intros [[x' upd] fired] _.
    match goal with |- context [let '(r1, h) := ?e in _] => destruct e as [root1 hit] end.
    apply bind_not_panic; [apply IH|]. now intros [r3 f2] _.
  Qed.

  Lemma fast_step_frame root0 root p x x' upd fired :
    p <> [] -> ev_inv root0 root -> dig_path root p = Some x -> same_shape x x' ->
    (upd = true -> exists s, x' = JStr s) ->
    ev_inv root0
      (let '(root1, hit) :=
         match root, p with
         | JObj fs, k :: _ =>
             match field_index fs k 0 with
             | Some cur => let '(fs1, hit) := apply_marks masks fired fs cur in (JObj fs1, hit)
             | None => (root, false)
             end
         | _, _ => (root, false)
         end in
       if negb hit || (upd && Nat.eqb (length p) 1) then put_path root1 p x' else root1).
  Proof.
    intros Hp Hinv Hdig Hs Hupd. destruct p as [|k rest]; [congruence|]. clear Hp.
    assert (Hplain : ev_inv root0 (put_path root (k :: rest) x')).
    { unfold ev_inv, event_frame in *.
      assert (Hsh : same_shape root (put_path root (k :: rest) x')).
      { apply put_path_shape. intros y Hy. rewrite Hdig in Hy. now inversion Hy; subst. }
      destruct root0 as [| | | |l0|fs0]; try (eapply same_shape_trans; eauto).
      destruct Hinv as (fs & -> & Hf). cbn [put_path].
      destruct (field_index fs k 0) as [n|] eqn:E; [|eauto].
      destruct (field_get_index _ _ _ _ E) as (v & Hg & Hn). rewrite Hg. rewrite Nat.sub_0_r in Hn.
      eexists; split; [reflexivity|]. apply root_frame_set; [assumption|].
      intros k0 v0 H0. destruct (root_frame_nth _ _ _ _ _ _ Hf H0) as (v1 & Hv1 & Hok).
      rewrite Hn in Hv1. inversion Hv1; subst. eapply val_ok_step; [exact Hok|].
      apply put_path_shape. intros y Hy. cbn [dig_path] in Hdig. rewrite Hg in Hdig. rewrite Hdig in Hy.
      now inversion Hy; subst. }
    destruct root as [| | | |l|fs]; cbn [negb orb]; try exact Hplain.
    cbn [dig_path] in Hdig. destruct (field_get fs k) as [v|] eqn:Hg; [|discriminate].
    destruct (field_index_of_get _ _ _ Hg) as (cur & Ecur). rewrite Ecur.
    destruct (field_get_index _ _ _ _ Ecur) as (v' & Hg' & Hn). rewrite Hg in Hg'. inversion Hg'; subst v'.
    rewrite Nat.sub_0_r in Hn.
    destruct (apply_marks masks fired fs cur) as [fs1 hit] eqn:Em.
    assert (Hcur : (cur < length fs)%nat) by (apply nth_error_Some; congruence).
    unfold ev_inv, event_frame in Hinv.
    destruct root0 as [| | | |l0|fs0];
      try (apply same_shape_obj_inv in Hinv as (? & ?); discriminate).
    destruct Hinv as (fs_ & Efs & Hf). inversion Efs; subst fs_. clear Efs.
    destruct (apply_marks_spec masks names names_ok _ _ _ _ _ _ Em Hf Hcur) as (Hf1 & _ & _ & Hhit & Hno).
    destruct (apply_marks_spec masks names names_ok _ fs _ _ _ _ Em (root_frame_refl names fs) Hcur) as ((ex & Hkeys & _) & _).
    unfold ev_inv, event_frame.
    destruct (negb hit || (upd && Nat.eqb (length (k :: rest)) 1)) eqn:Eset; [|eauto].
    cbn [put_path].
    assert (Ecur1 : field_index fs1 k 0 = Some cur).
    { rewrite field_index_keys, Hkeys. apply key_index_app. now rewrite <- field_index_keys. }
    rewrite Ecur1. destruct (field_get_index _ _ _ _ Ecur1) as (v1 & Hg1 & Hn1). rewrite Hg1. rewrite Nat.sub_0_r in Hn1.
    eexists; split; [reflexivity|]. apply root_frame_set; [assumption|].
    intros k0 v0 H0. destruct (root_frame_nth _ _ _ _ _ _ Hf H0) as (v2 & Hv2 & Hok).
    rewrite Hn in Hv2. inversion Hv2; subst k0 v2. clear Hv2.
    destruct hit.
    - (* the field was rewritten by a mark: only a leaf that processMask rewrote is put back *)
      cbn [negb orb] in Eset. apply andb_prop in Eset as [Eu El]. subst upd.
      destruct rest as [|? ?]; [|discriminate]. cbn [put_path].
      destruct (Hupd eq_refl) as (s & ->). right.
      destruct (Hhit eq_refl) as (k1 & s1 & Hn2 & Hin). rewrite Hn1 in Hn2. inversion Hn2; subst. eauto.
    - rewrite (Hno eq_refl), Hn in Hn1. inversion Hn1; subst v1.
      eapply val_ok_step; [exact Hok|]. apply put_path_shape. intros y Hy. rewrite Hdig in Hy. now inversion Hy; subst.
  Qed.

  Lemma fast_loop_frame : forall paths root0 root root' fired,
    ~ In [] paths -> ev_inv root0 root -> fast_loop inh masks fl oracle paths root = Ok (root', fired) ->
    ev_inv root0 root' /\ forall j, In j fired -> (j < length masks)%nat.
  Proof.
    induction paths as [|p rest IH]; intros root0 root root' fired Hne Hinv H; cbn [fast_loop] in H.
    - inversion H; subst. split; [assumption | intros j []].
    - assert (Hne' : ~ In [] rest) by (intros Hc; apply Hne; now right).
      destruct (dig_path root p) as [x|] eqn:Hdig; [|eapply IH; eauto].
      apply bind_ok_inv in H as ([[x' upd] f1] & Ht & H).
      destruct (traverse_facts inh masks fl oracle _ _ _ Ht) as (Hs & Hupd & Hj1 & _).
      assert (Hp : p <> []) by (intros ->; apply Hne; now left).
      pose proof (fast_step_frame root0 root p x x' upd f1 Hp Hinv Hdig Hs (fun e => proj2 (Hupd e))) as Hstep.
      match type of H with context [let '(r1, h) := ?e in _] => destruct e as [root1 hit] end.
      apply bind_ok_inv in H as ([root3 f2] & Hl & H). inversion H; subst; clear H.
      destruct (IH _ _ _ _ Hne' Hstep Hl) as (Hf3 & Hj2). split; [assumption|].
      intros j Hjn. apply in_app_or in Hjn as [?|?]; auto.
  Qed.

  Lemma do_event_not_panic root : is_panic (do_event inh masks fl oracle cfg root) = false.
  Proof.
    unfold do_event. apply bind_not_panic; [|now intros [r f] _].
    destruct (f_gproc fl && negb (f_specific fl)); [apply fast_loop_not_panic|].
    destruct root; try (apply bind_not_panic; [now apply traverse_not_panic | now intros [[v u] f] _]).
    apply bind_not_panic; [apply root_loop_not_panic | now intros [fs' f] _].
  Qed.

  Definition stage1 (root : json) : res (json * list nat) :=
    if f_gproc fl && negb (f_specific fl) then fast_loop inh masks fl oracle (c_proc cfg) root
    else match root with
         | JObj fs => '(fs', fired) <- root_loop inh masks fl oracle (length fs) 0 (f_root fl) fs ;; Ok (JObj fs', fired)
         | _ => '(v, _, fired) <- traverse inh masks fl oracle (f_root fl) root ;; Ok (v, fired)
         end.

  Lemma do_event_stages root :
    do_event inh masks fl oracle cfg root =
    ('(root1, fired) <- stage1 root ;;
     Ok (match root1 with
         | JObj fs => if negb (is_nil fired) && negb (is_nil (c_afield cfg))
                      then JObj (fst (write_field fs (c_afield cfg) (c_avalue cfg))) else root1
         | _ => root1
         end, fired)).
  Proof. reflexivity. Qed.

  Lemma stage1_frame root root1 fired :
    ~ In [] (c_proc cfg) -> stage1 root = Ok (root1, fired) ->
    ev_inv root root1 /\ forall j, In j fired -> (j < length masks)%nat.
  Proof.
    intros Hne H1. unfold stage1 in H1.
    assert (Hinv0 : ev_inv root root).
    { unfold ev_inv, event_frame. destruct root; try apply SS_refl. eexists; split; [reflexivity | apply root_frame_refl]. }
    destruct (f_gproc fl && negb (f_specific fl)); [eapply fast_loop_frame; eauto|].
    destruct root as [| | | |l|fs].
    1-5: apply bind_ok_inv in H1 as ([[v u] f] & Ht & H1); inversion H1; subst;
         destruct (traverse_facts inh masks fl oracle _ _ _ Ht) as (Hs & _ & Hj & _); split; [exact Hs | exact Hj].
    apply bind_ok_inv in H1 as ([fs' f] & Hl & H1). inversion H1; subst.
    destruct (root_loop_frame _ _ _ _ _ _ _ (root_frame_refl names fs) Hl) as (Hf & Hj).
    split; [|assumption]. unfold ev_inv, event_frame. eauto.
  Qed.

  Lemma do_event_frame root root' fired :
    ~ In [] (c_proc cfg) ->
    do_event inh masks fl oracle cfg root = Ok (root', fired) ->
    event_frame names root root' /\ forall j, In j fired -> (j < length masks)%nat.
  Proof.
    intros Hne H. rewrite do_event_stages in H. apply bind_ok_inv in H as ([root1 f1] & H1 & H). inversion H; subst; clear H.
    destruct (stage1_frame _ _ _ Hne H1) as (Hinv & Hj). split; [|assumption].
    unfold ev_inv, event_frame in *. destruct root as [| | | |l|fs].
    1-5: destruct root1; try exact Hinv; apply same_shape_obj_inv in Hinv as (? & ?); discriminate.
    destruct Hinv as (fs1 & -> & Hf).
    destruct (negb (is_nil fired) && negb (is_nil (c_afield cfg))) eqn:E; [|eauto].
    eexists; split; [reflexivity|]. apply root_frame_write; [assumption|].
    unfold mark_names. apply filter_In. split; [now left|]. apply andb_prop in E as [_ E]. exact E.
  Qed.
End Root.

(* ------------------------------------------------------------------------------------------------ *)
(* the whole plugin: Start + Do on every event                                                        *)
(* ------------------------------------------------------------------------------------------------ *)
Lemma gather_fields_paths cfg fl : gather_fields cfg = Ok fl -> ~ In [] (c_proc cfg).
Proof.
  unfold gather_fields. destruct (negb (is_nil (c_ign cfg)) && negb (is_nil (c_proc cfg))); [discriminate|].
  destruct (existsb is_nil (c_ign cfg) || existsb is_nil (c_proc cfg)) eqn:E; [discriminate|]. intros _ Hin.
  apply orb_false_elim in E as [_ E]. rewrite <- not_true_iff_false in E. apply E.
  apply existsb_exists. exists []. split; [assumption | reflexivity].
Qed.

Lemma do_events_not_panic inh ks fl oracle cfg :
  Forall cmask_ok ks -> (forall i b, is_panic (oracle i b) = false) ->
  forall evs, is_panic (do_events inh ks fl oracle cfg evs) = false.
Proof.
  intros Hk Ho. induction evs as [|e r IH]; cbn [do_events]; [reflexivity|].
  apply bind_not_panic; [now apply do_event_not_panic|]. intros [e' fired] _.
  apply bind_not_panic; [exact IH|]. now intros [[r' n] cs] _.
Qed.

Lemma compile_mask_no_panic m p : compile_mask m <> Panic p.
Proof.
  unfold compile_mask. destruct (negb (m_re m) && is_nil (m_rules m)); [discriminate|].
  assert (Hv : forall q, (if m_re m then verify_groups (m_groups m) (m_nsub m) else Ok (m_groups m)) <> Panic q).
  { intros q. destruct (m_re m); [|discriminate]. unfold verify_groups.
    destruct (has_dup (m_groups m)); [discriminate|]. destruct (m_nsub m <? len (m_groups m)); [discriminate|].
    generalize (m_groups m) at 2. generalize (m_groups m). induction l as [|g r IH]; intros all; cbn [vg_scan]; [discriminate|].
    destruct ((m_nsub m <? g) || (g <? 0)); [discriminate|]. destruct (g =? 0); [discriminate | apply IH]. }
  destruct (if m_re m then verify_groups (m_groups m) (m_nsub m) else Ok (m_groups m)) eqn:E; cbn [bind]; try discriminate.
  - destruct (existsb _ (m_rules m)); [discriminate|].
    destruct (negb (is_nil (m_ign m)) && negb (is_nil (m_proc m))); [discriminate|].
    destruct (existsb is_nil (m_ign m) || existsb is_nil (m_proc m)); discriminate.
  - exfalso. eapply Hv; eauto.
Qed.

Lemma compile_masks_no_panic : forall ms p, compile_masks ms <> Panic p.
Proof.
  induction ms as [|m r IH]; intros p H; cbn [compile_masks] in H; [discriminate|].
  destruct (compile_mask m) eqn:E; cbn [bind] in H; try discriminate.
  - destruct (compile_masks r) eqn:E2; cbn [bind] in H; try discriminate. eapply IH; eauto.
  - eapply compile_mask_no_panic; eauto.
Qed.

Theorem run_plugin_total inh cfg oracle evs :
  (forall i b, is_panic (oracle i b) = false) -> is_panic (run_plugin inh cfg oracle evs) = false.
Proof.
  intros Ho. unfold run_plugin.
  destruct (compile_masks (c_masks cfg)) as [ks|e|p] eqn:Ek; cbn [bind]; try reflexivity.
  - destruct (gather_fields cfg) as [fl|e|p] eqn:Ef; cbn [bind]; try reflexivity.
    + apply do_events_not_panic; [eapply compile_masks_ok; eauto | assumption].
    + unfold gather_fields in Ef.
      destruct (negb (is_nil (c_ign cfg)) && negb (is_nil (c_proc cfg))); [discriminate|].
      destruct (existsb is_nil (c_ign cfg) || existsb is_nil (c_proc cfg)); discriminate.
  - exfalso. eapply compile_masks_no_panic; eauto.
Qed.

Lemma do_events_frame inh ks fl oracle cfg :
  Forall cmask_ok ks -> ~ In [] (c_proc cfg) ->
  forall evs evs' n cs, do_events inh ks fl oracle cfg evs = Ok (evs', n, cs) ->
    Forall2 (event_frame (mark_names ks cfg)) evs evs'.
Proof.
  intros Hk Hp. induction evs as [|e r IH]; intros evs' n cs H; cbn [do_events] in H.
  - inversion H; subst. constructor.
  - apply bind_ok_inv in H as ([e' fired] & He & H). apply bind_ok_inv in H as ([[r' n'] cs'] & Hr & H).
    inversion H; subst; clear H. constructor; [|eapply IH; eauto].
    eapply do_event_frame; eauto.
Qed.

Theorem run_plugin_frame inh cfg oracle evs evs' n cs :
  run_plugin inh cfg oracle evs = Ok (evs', n, cs) ->
  exists ks, compile_masks (c_masks cfg) = Ok ks /\ Forall2 (event_frame (mark_names ks cfg)) evs evs'.
Proof.
  unfold run_plugin. intros H. apply bind_ok_inv in H as (ks & Hk & H). apply bind_ok_inv in H as (fl & Hf & H).
  exists ks. split; [assumption|]. eapply do_events_frame; eauto.
  - eapply compile_masks_ok; eauto.
  - eapply gather_fields_paths; eauto.
Qed.

(* no mark configured: the whole event keeps its skeleton *)
Lemma event_frame_no_marks root root' : event_frame [] root root' -> same_shape root root'.
Proof.
  unfold event_frame. destruct root as [| | | |l|fs]; try (intros H; exact H).
  intros (fs' & -> & extra & Hk & Hex & Hv). apply SS_obj.
  assert (extra = []) by (destruct extra as [|k ?]; [reflexivity | destruct (Hex k); now left]). subst extra.
  rewrite app_nil_r in Hk.
  revert fs' Hk Hv. induction fs as [|[k v] r IH]; intros [|[k' v'] r'] Hk Hv; cbn [map fst] in Hk; try discriminate; constructor.
  - inversion Hk; subst. cbn [fst snd]. split; [reflexivity|].
    destruct (Hv 0%nat _ v v' eq_refl eq_refl) as [?|([] & _)]. assumption.
  - inversion Hk. apply IH; [assumption|]. intros i k0 v0 v0' Ha Hb. apply (Hv (S i) k0 v0 v0'); assumption.
Qed.

(* ------------------------------------------------------------------------------------------------ *)
(* a sub-tree no mask is in force for is left alone                                                   *)
(* ------------------------------------------------------------------------------------------------ *)
Section Dead.
  Variable inh : bool.
  Variable masks : list cmask.
  Variable fl : fields.
  Variable oracle : nat -> bytes -> res (list (list Z)).

  Definition fm_dead (fm : option fmnode) : Prop :=
    should_check fm = false /\ forall i k, nth_error masks i = Some k -> applicable fl k i fm = false.

  Lemma pm_loop_dead fm orig : forall ms i src upd fired,
    (forall j k, nth_error ms j = Some k -> applicable fl k (i + j) fm = false) ->
    pm_loop fl oracle i ms fm orig src upd fired = Ok (src, upd, fired).
  Proof.
    induction ms as [|k r IH]; intros i src upd fired H; cbn [pm_loop]; [reflexivity|].
    assert (E : applicable fl k i fm = false) by (specialize (H 0%nat k eq_refl); now rewrite Nat.add_0_r in H).
    rewrite E. cbn [negb]. apply IH. intros j k' Hj. replace (S i + j)%nat with (i + S j)%nat by lia. now apply H.
  Qed.

  Lemma process_mask_dead fm s : fm_dead fm -> process_mask masks fl oracle fm s = Ok (s, false, []).
  Proof.
    intros [_ Hd]. unfold process_mask. destruct s as [|c s]; [reflexivity|].
    rewrite pm_loop_dead; [reflexivity|]. intros j k Hj. now apply Hd.
  Qed.

  Lemma next_fm_dead fm k : should_check fm = false -> next_fm inh fm k = fm.
  Proof. destruct fm as [n|]; cbn; [intros -> |]; reflexivity. Qed.

  Lemma field_next_dead fm k : should_check fm = false -> field_next inh fl fm k = Some fm.
  Proof. intros H. unfold field_next. rewrite H. cbn [andb]. now rewrite next_fm_dead. Qed.

  Theorem traverse_dead : forall v fm, fm_dead fm -> traverse inh masks fl oracle fm v = Ok (v, false, []).
  Proof.
    induction v using json_ind'; intros fm Hd; try reflexivity.
    - cbn [traverse]. unfold leaf. now rewrite process_mask_dead.
    - cbn [traverse]. unfold leaf. now rewrite process_mask_dead.
    - rewrite traverse_arr.
      assert (Hgo : forall i, arr_go inh (traverse inh masks fl oracle) fm i l = Ok (l, [])).
      { induction H as [|x r Hx Hr IH]; intros i; cbn [arr_go]; [reflexivity|].
        rewrite next_fm_dead by apply Hd. rewrite (Hx fm Hd). cbn [bind]. rewrite IH. reflexivity. }
      rewrite Hgo. reflexivity.
    - rewrite traverse_obj.
      assert (Hgo : obj_go inh fl (traverse inh masks fl oracle) fm fs = Ok (fs, [])).
      { induction H as [|[k x] r Hx Hr IH]; cbn [obj_go]; [reflexivity|].
        rewrite field_next_dead by apply Hd. cbn [snd] in Hx. rewrite (Hx fm Hd). cbn [bind]. rewrite IH. reflexivity. }
      rewrite Hgo. reflexivity.
  Qed.
End Dead.

(* ------------------------------------------------------------------------------------------------ *)
(* what the field lists mean                                                                          *)
(* ------------------------------------------------------------------------------------------------ *)
Lemma is_prefix_nil_r q : is_prefix q [] -> q = [].
Proof. destruct q; [reflexivity | intros []]. Qed.

Lemma fm_has_tag_iff n t : fm_has_tag n t = true <-> In ([], t) n.
Proof.
  unfold fm_has_tag. rewrite existsb_exists. split.
  - intros ([q t'] & Hin & H). cbn [fst snd] in H. apply andb_prop in H as [Hq Ht].
    destruct q; [|discriminate]. assert (t' = t); [|subst; assumption].
    destruct t', t; cbn in Ht; try discriminate; try reflexivity; apply Nat.eqb_eq in Ht; now subst.
  - intros Hin. exists ([], t). split; [assumption|]. cbn. destruct t; cbn; try reflexivity; apply Nat.eqb_refl.
Qed.

Lemma fm_has_children_iff n : fm_has_children n = true <-> exists e, In e n /\ fst e <> [].
Proof.
  unfold fm_has_children. rewrite existsb_exists. split; intros (e & Hin & H); exists e; (split; [assumption|]).
  - destruct e as [q t]; cbn [fst] in *. destruct q; [cbn in H; discriminate H | intros E; discriminate E].
  - destruct e as [q t]; cbn [fst] in *. destruct q; [congruence | reflexivity].
Qed.

Lemma fm_child_in inh n k q t :
  In (q, t) (fm_child inh n k) <-> In (k :: q, t) n \/ (inh = true /\ q = [] /\ In ([], t) n).
Proof.
  unfold fm_child. rewrite in_flat_map. split.
  - intros ([q0 t0] & Hin & H). cbn [fst snd] in H. destruct q0 as [|k' rest].
    + destruct inh; [|destruct H]. destruct H as [E|[]]. inversion E; subst. right. auto.
    + destruct (key_eqb k' k) eqn:E; [|destruct H]. destruct H as [E'|[]]. inversion E'; subst.
      apply key_eqb_eq in E. subst. now left.
  - intros [Hin | (-> & -> & Hin)].
    + exists (k :: q, t). split; [assumption|]. cbn [fst snd]. rewrite key_eqb_refl. now left.
    + exists ([], t). split; [assumption|]. cbn. now left.
Qed.

(* README semantics (inh = true): a mark is in force at p iff some listed path is a prefix of p *)
Theorem fm_at_inherit : forall p n t,
  In ([], t) (fm_at true n p) <-> exists q, In (q, t) n /\ is_prefix q p.
Proof.
  induction p as [|k r IH]; intros n t; cbn [fm_at].
  - split.
    + intros H. exists []. split; [assumption | exact I].
    + intros (q & Hin & Hp). apply is_prefix_nil_r in Hp. now subst.
  - destruct (fm_has_children n) eqn:Ec.
    + rewrite IH. split.
      * intros (q & Hin & Hp). apply fm_child_in in Hin as [Hin | (_ & -> & Hin)].
        -- exists (k :: q). split; [assumption | cbn; auto].
        -- exists []. split; [assumption | exact I].
      * intros (q & Hin & Hp). destruct q as [|k' q'].
        -- exists []. split; [|exact I]. apply fm_child_in. right. auto.
        -- destruct Hp as [-> Hp]. exists q'. split; [|assumption]. apply fm_child_in. now left.
    + split.
      * intros H. exists []. split; [assumption | exact I].
      * intros (q & Hin & Hp). destruct q as [|k' q']; [assumption|]. exfalso.
        assert (fm_has_children n = true) by (apply fm_has_children_iff; exists (k' :: q', t); split; [assumption | discriminate]).
        congruence.
Qed.

(* the code (inh = false): the listed path must be the field itself, or have no longer entry of any
   list below it *)
Theorem fm_at_code : forall p n t,
  In ([], t) (fm_at false n p) <->
  exists q, In (q, t) n /\ is_prefix q p /\ (q = p \/ ~ exists e, In e n /\ strict_prefix q (fst e)).
Proof.
  induction p as [|k r IH]; intros n t; cbn [fm_at].
  - split.
    + intros H. exists []. split; [assumption|]. split; [exact I | now left].
    + intros (q & Hin & Hp & _). apply is_prefix_nil_r in Hp. now subst.
  - destruct (fm_has_children n) eqn:Ec.
    + rewrite IH. split.
      * intros (q & Hin & Hp & Hx). apply fm_child_in in Hin as [Hin | (? & _)]; [|discriminate].
        exists (k :: q). split; [assumption|]. split; [cbn; auto|].
        destruct Hx as [-> | Hx]; [now left | right].
        intros ([q1 t1] & Hin1 & Hsp). apply Hx. destruct Hsp as [Hpre Hlen]. cbn [fst] in *.
        destruct q1 as [|k1 q1']; [destruct Hpre|]. destruct Hpre as [<- Hpre].
        exists (q1', t1). split; [apply fm_child_in; now left|]. split; [assumption | cbn [length fst] in *; lia].
      * intros (q & Hin & Hp & Hx). destruct q as [|k' q'].
        -- exfalso. destruct Hx as [Hx | Hx]; [discriminate|]. apply Hx.
           apply fm_has_children_iff in Ec as (e & Hine & Hne). exists e. split; [assumption|].
           split; [exact I|]. destruct (fst e); [congruence | cbn; lia].
        -- destruct Hp as [-> Hp]. exists q'. split; [apply fm_child_in; now left|]. split; [assumption|].
           destruct Hx as [Hx | Hx]; [left; congruence | right].
           intros ([q1 t1] & Hin1 & Hsp). apply Hx. apply fm_child_in in Hin1 as [Hin1 | (? & _)]; [|discriminate].
           exists (k :: q1, t1). split; [assumption|]. destruct Hsp as [Hpre Hlen]. cbn [fst] in *.
           split; [cbn; auto | cbn [length]; lia].
    + split.
      * intros H. exists []. split; [assumption|]. split; [exact I|]. right.
        intros (e & Hine & Hsp). destruct Hsp as [_ Hlen]. cbn [length] in Hlen.
        assert (fm_has_children n = true); [|congruence].
        apply fm_has_children_iff. exists e. split; [assumption|]. destruct (fst e); [cbn in Hlen; lia | discriminate].
      * intros (q & Hin & Hp & _). destruct q as [|k' q']; [assumption|]. exfalso.
        assert (fm_has_children n = true) by (apply fm_has_children_iff; exists (k' :: q', t); split; [assumption | discriminate]).
        congruence.
Qed.

(* when no entry lies strictly above another, the code implements the README semantics *)
Lemma fm_child_no_ended b k : forall n, (forall t, ~ In ([], t) n) -> fm_child b n k = fm_child false n k.
Proof.
  unfold fm_child. induction n as [|[q t] n' IH]; intros Hno; [reflexivity|]. cbn [flat_map fst snd].
  destruct q as [|k' q'].
  - exfalso. apply (Hno t). now left.
  - f_equal. apply IH. intros t' Hin. apply (Hno t'). now right.
Qed.

Lemma prefix_free_child inh n k : prefix_free n -> fm_has_children n = true ->
  prefix_free (fm_child inh n k) /\ fm_child inh n k = fm_child (negb inh) n k.
Proof.
  intros Hpf Hc.
  assert (Hno : forall t, ~ In ([], t) n).
  { intros t Hin. apply fm_has_children_iff in Hc as (e & Hine & Hne).
    apply (Hpf ([], t) e Hin Hine). split; [exact I|]. destruct e as [qe te]; cbn [fst length] in *.
    destruct qe; [congruence | cbn; lia]. }
  assert (Heq : forall b, fm_child b n k = fm_child false n k).
  { intros b. now apply fm_child_no_ended. }
  split; [|now rewrite (Heq inh), (Heq (negb inh))].
  intros [q1 t1] [q2 t2] H1 H2 Hsp. cbn [fst] in Hsp.
  apply fm_child_in in H1 as [H1 | (_ & _ & H1)]; [|exact (Hno _ H1)].
  apply fm_child_in in H2 as [H2 | (_ & _ & H2)]; [|exact (Hno _ H2)].
  apply (Hpf _ _ H1 H2). destruct Hsp as [Hp Hl]. cbn [fst]. split; [cbn; auto | cbn [length]; lia].
Qed.

Theorem fm_at_partial : forall p n, prefix_free n -> fm_at false n p = fm_at true n p.
Proof.
  induction p as [|k r IH]; intros n Hpf; cbn [fm_at]; [reflexivity|].
  destruct (fm_has_children n) eqn:Ec; [|reflexivity].
  destruct (prefix_free_child false n k Hpf Ec) as [Hpf' Heq]. cbn [negb] in Heq.
  rewrite <- Heq. now apply IH.
Qed.

(* ---- lifted to the whole plugin: with non-overlapping lists the code = the README semantics -------- *)
Definition fm_pf (fm : option fmnode) : Prop := match fm with Some n => prefix_free n | None => True end.

Lemma next_fm_pf fm k : fm_pf fm -> next_fm false fm k = next_fm true fm k /\ fm_pf (next_fm true fm k).
Proof.
  destruct fm as [n|]; cbn [next_fm fm_pf]; [|intros _; split; [reflexivity | exact I]]. intros Hpf.
  destruct (fm_has_children n) eqn:Ec; [|split; [reflexivity | exact Hpf]].
  destruct (prefix_free_child true n k Hpf Ec) as [Hpf' Heq]. cbn [negb] in Heq. rewrite <- Heq.
  split; [reflexivity | exact Hpf'].
Qed.

Lemma field_next_pf fl fm k : fm_pf fm ->
  field_next false fl fm k = field_next true fl fm k /\
  match field_next true fl fm k with Some nx => fm_pf nx | None => True end.
Proof.
  intros Hpf. unfold field_next. destruct (next_fm_pf fm k Hpf) as [-> Hpf']. split; [reflexivity|].
  destruct (should_check fm && negb (f_specific fl) && _); [exact I | exact Hpf'].
Qed.

Section Partial.
  Variable masks : list cmask.
  Variable fl : fields.
  Variable oracle : nat -> bytes -> res (list (list Z)).

  Lemma traverse_pf : forall v fm, fm_pf fm ->
    traverse false masks fl oracle fm v = traverse true masks fl oracle fm v.
  Proof.
    induction v using json_ind'; intros fm Hpf; try reflexivity.
    - rewrite !traverse_arr. f_equal. generalize 0%nat.
      induction H as [|x r Hx Hr IH]; intros i; cbn [arr_go]; [reflexivity|].
      destruct (next_fm_pf fm (itoa i) Hpf) as [-> Hpf']. rewrite (Hx _ Hpf'). now rewrite IH.
    - rewrite !traverse_obj. f_equal.
      induction H as [|[k x] r Hx Hr IH]; cbn [obj_go]; [reflexivity|].
      destruct (field_next_pf fl fm k Hpf) as [-> Hpf']. rewrite IH.
      destruct (field_next true fl fm k) as [nx|]; [|reflexivity]. cbn [snd] in Hx. now rewrite (Hx _ Hpf').
  Qed.

  Lemma root_loop_pf : forall todo i fm fs, fm_pf fm ->
    root_loop false masks fl oracle todo i fm fs = root_loop true masks fl oracle todo i fm fs.
  Proof.
    induction todo as [|t IH]; intros i fm fs Hpf; cbn [root_loop]; [reflexivity|].
    destruct (nth_error fs i) as [[k x]|]; [|reflexivity].
    destruct (field_next_pf fl fm k Hpf) as [-> Hpf'].
    destruct (field_next true fl fm k) as [nx|]; [|now apply IH].
    rewrite (traverse_pf _ _ Hpf'). destruct (traverse true masks fl oracle nx x) as [[[x' upd] fired]| |]; cbn [bind]; try reflexivity.
    destruct (apply_marks masks fired fs i) as [fs1 hit]. now rewrite IH.
  Qed.

  Lemma fast_loop_pf : forall paths root,
    fast_loop false masks fl oracle paths root = fast_loop true masks fl oracle paths root.
  Proof.
    induction paths as [|p rest IH]; intros root; cbn [fast_loop]; [reflexivity|].
    destruct (dig_path root p); [|apply IH].
    rewrite (traverse_pf _ None I). destruct (traverse true masks fl oracle None j) as [[[x' upd] fired]| |]; cbn [bind]; try reflexivity.
    match goal with |- context [let '(r1, h) := ?e in _] => destruct e as [root1 hit] end. now rewrite IH.
  Qed.

  Lemma do_event_pf cfg root : fm_pf (f_root fl) ->
    do_event false masks fl oracle cfg root = do_event true masks fl oracle cfg root.
  Proof.
    intros Hpf. unfold do_event. f_equal.
    destruct (f_gproc fl && negb (f_specific fl)); [apply fast_loop_pf|].
    destruct root; try now rewrite (traverse_pf _ _ Hpf). now rewrite root_loop_pf.
  Qed.

  Lemma do_events_pf cfg : fm_pf (f_root fl) -> forall evs,
    do_events false masks fl oracle cfg evs = do_events true masks fl oracle cfg evs.
  Proof.
    intros Hpf. induction evs as [|e r IH]; cbn [do_events]; [reflexivity|].
    rewrite (do_event_pf cfg e Hpf). now rewrite IH.
  Qed.
End Partial.

Lemma gather_fields_root_sub cfg fl : gather_fields cfg = Ok fl ->
  match f_root fl with Some n => forall e, In e n -> In e (all_entries cfg) | None => True end.
Proof.
  unfold gather_fields. destruct (negb (is_nil (c_ign cfg)) && negb (is_nil (c_proc cfg))); [discriminate|].
  destruct (existsb is_nil (c_ign cfg) || existsb is_nil (c_proc cfg)); [discriminate|].
  intros H. inversion H; subst; clear H. cbn [f_root].
  match goal with |- match (if ?c then _ else _) with _ => _ end => destruct c end; [|exact I].
  intros e He. unfold all_entries. apply in_app_or in He as [He | He]; [apply in_or_app; now left|].
  apply in_or_app. right. apply in_app_or in He as [He | He]; apply in_or_app.
  - left. match type of He with In _ (if ?c then _ else _) => destruct c end; [assumption | destruct He].
  - right. match type of He with In _ (if ?c then _ else _) => destruct c end; [assumption | destruct He].
Qed.

Theorem run_plugin_partial cfg oracle evs :
  prefix_free (all_entries cfg) -> run_plugin false cfg oracle evs = run_plugin true cfg oracle evs.
Proof.
  intros Hpf. unfold run_plugin.
  destruct (compile_masks (c_masks cfg)) as [ks| |]; cbn [bind]; try reflexivity.
  destruct (gather_fields cfg) as [fl| |] eqn:Ef; cbn [bind]; try reflexivity.
  apply do_events_pf. pose proof (gather_fields_root_sub cfg fl Ef) as Hsub.
  unfold fm_pf. destruct (f_root fl) as [n|]; [|exact I].
  intros e1 e2 H1 H2. apply Hpf; auto.
Qed.

(* ------------------------------------------------------------------------------------------------ *)
(* applied marks and counters: exactly when some mask fired                                           *)
(* ------------------------------------------------------------------------------------------------ *)
Section Fired.
  Variable masks : list cmask.
  Variable fl : fields.
  Variable oracle : nat -> bytes -> res (list (list Z)).

  (* mask j fires on a value: it is in force at the node, its match rules accept the node's value, and -
     when it has a regexp with groups - that regexp matched the value as left by the masks before it *)
  Definition fire_cond (fm : option fmnode) (orig : bytes) (j : nat) : Prop :=
    exists k, nth_error masks j = Some k /\ applicable fl k j fm = true /\
              check_match_rules (k_rules k) orig = Ok true /\
              (k_apply k = true -> exists src idxs, oracle j src = Ok idxs /\ idxs <> []).

  Lemma pm_loop_fired_sound : forall ms i fm orig src upd fired out upd' fired',
    (forall n k, nth_error ms n = Some k -> nth_error masks (i + n) = Some k) ->
    pm_loop fl oracle i ms fm orig src upd fired = Ok (out, upd', fired') ->
    exists new, fired' = new ++ fired /\ (forall j, In j new -> fire_cond fm orig j) /\
                (upd' = true <-> upd = true \/ exists j k, In j new /\ nth_error masks j = Some k /\ k_apply k = true).
  Proof.
    induction ms as [|k r IH]; intros i fm orig src upd fired out upd' fired' Hm H; cbn [pm_loop] in H.
    - inversion H; subst. exists []. split; [reflexivity|]. split; [intros j []|].
      split; [auto | intros [?|(j & k & [] & _)]; assumption].
    - assert (Hm' : forall n k0, nth_error r n = Some k0 -> nth_error masks (S i + n) = Some k0).
      { intros n k0 Hn. replace (S i + n)%nat with (i + S n)%nat by lia. now apply Hm. }
      assert (Hk : nth_error masks i = Some k) by (rewrite <- (Nat.add_0_r i); now apply Hm).
      destruct (applicable fl k i fm) eqn:Ea; cbn [negb] in H; [|eapply IH; eauto].
      apply bind_ok_inv in H as (rm & Hrm & H).
      destruct rm; cbn [negb] in H; [|eapply IH; eauto].
      destruct (k_apply k) eqn:Eap.
      + apply bind_ok_inv in H as (idxs & Ho & H).
        destruct (re_wf_b (len src) (k_nsub k) idxs) eqn:Ewf; cbn [negb] in H; [|discriminate].
        apply bind_ok_inv in H as (mv & Hmv & H).
        destruct mv as [o|]; [|eapply IH; eauto].
        destruct (IH _ _ _ _ _ _ _ _ _ Hm' H) as (new & E & Hs & Hu).
        exists (new ++ [i]). rewrite <- app_assoc. split; [assumption|]. split.
        * intros j Hj. apply in_app_or in Hj as [Hj | [<- | []]]; [now apply Hs|].
          exists k. repeat split; try assumption. intros _. exists src, idxs. split; [assumption|].
          intros ->. cbn in Hmv. discriminate.
        * split.
          -- intros _. right. exists i, k. split; [apply in_or_app; right; now left | auto].
          -- intros _. apply Hu. now left.
      + destruct (IH _ _ _ _ _ _ _ _ _ Hm' H) as (new & E & Hs & Hu).
        exists (new ++ [i]). rewrite <- app_assoc. split; [assumption|]. split.
        * intros j Hj. apply in_app_or in Hj as [Hj | [<- | []]]; [now apply Hs|].
          exists k. repeat split; try assumption. intros Hc. congruence.
        * rewrite Hu. split.
          -- intros [?|(j & k' & Hj & Hk' & Ha)]; [now left | right].
             exists j, k'. split; [apply in_or_app; now left | auto].
          -- intros [?|(j & k' & Hj & Hk' & Ha)]; [now left|].
             apply in_app_or in Hj as [Hj | [<- | []]]; [right; eauto | congruence].
  Qed.

  Theorem process_mask_fired fm s out upd fired :
    process_mask masks fl oracle fm s = Ok (out, upd, fired) ->
    (forall j, In j fired -> fire_cond fm s j) /\
    (upd = true <-> exists j k, In j fired /\ nth_error masks j = Some k /\ k_apply k = true) /\
    (fired = [] -> out = s /\ upd = false).
  Proof.
    intros H. pose proof H as H'. unfold process_mask in H. destruct s as [|c s].
    - inversion H; subst. split; [intros j []|]. split; [|auto]. split; [discriminate | intros (j & k & [] & _)].
    - apply bind_ok_inv in H as ([[o u] f] & Hl & H). inversion H; subst; clear H.
      destruct (pm_loop_fired_sound masks 0 _ _ _ _ _ _ _ _ (fun n k H => H) Hl) as (new & E & Hs & Hu).
      rewrite app_nil_r in E. subst f. split; [|split].
      + intros j Hj. apply Hs. now apply in_rev.
      + rewrite Hu. split.
        * intros [?|(j & k & Hj & Hk)]; [discriminate|]. exists j, k. split; [now apply in_rev in Hj | assumption].
        * intros (j & k & Hj & Hk). right. exists j, k. split; [now apply in_rev | assumption].
      + intros Hnil. assert (new = []) by (destruct new as [|a l]; [reflexivity | cbn in Hnil; destruct (rev l); discriminate]).
        subst new. destruct (pm_loop_facts fl oracle _ _ _ _ _ _ _ _ _ _ Hl) as (new & E & _ & He).
        rewrite app_nil_r in E. subst new. now apply He.
  Qed.
End Fired.

Lemma set_val_same : forall fs i k x, nth_error fs i = Some (k, x) -> set_val fs i x = fs.
Proof.
  induction fs as [|[k' x'] r IH]; intros [|i] k x H; cbn [set_val nth_error] in *; try discriminate.
  - now inversion H.
  - f_equal. eapply IH; eauto.
Qed.

Lemma set_at_same : forall (l : list json) n v, nth_error l n = Some v -> set_at l n v = l.
Proof.
  induction l as [|x r IH]; intros [|n] v H; cbn [set_at nth_error] in *; try discriminate.
  - now inversion H.
  - f_equal. now apply IH.
Qed.

Lemma put_path_same : forall p j x, dig_path j p = Some x -> put_path j p x = j.
Proof.
  induction p as [|k rest IH]; intros j x H; cbn [put_path dig_path] in *; [now inversion H|].
  destruct j as [| | | |l|fs]; try reflexivity.
  - destruct (atoi_pos k) as [n|]; [|reflexivity]. destruct (nth_error l n) as [v|] eqn:E; [|reflexivity].
    rewrite (IH _ _ H). now rewrite (set_at_same _ _ _ E).
  - destruct (field_index fs k 0) as [n|] eqn:E; [|reflexivity].
    destruct (field_get_index _ _ _ _ E) as (v & Hg & Hn). rewrite Hg in *. rewrite Nat.sub_0_r in Hn.
    rewrite (IH _ _ H). now rewrite (set_val_same _ _ _ _ Hn).
Qed.

Lemma field_get_set_val : forall fs k i j v,
  field_index fs k i = Some j -> field_get (set_val fs (j - i) v) k = Some v.
Proof.
  induction fs as [|[k' x] r IH]; intros k i j v H; cbn [field_index] in H; [discriminate|].
  destruct (key_eqb k' k) eqn:E.
  - inversion H; subst. rewrite Nat.sub_diag. cbn [set_val field_get]. now rewrite E.
  - assert (S i <= j)%nat by (rewrite field_index_keys in H; apply key_index_spec in H; lia).
    replace (j - i)%nat with (S (j - S i)) by lia. cbn [set_val field_get]. rewrite E. now apply IH.
Qed.

Lemma field_get_app_new : forall fs k i v,
  field_index fs k i = None -> field_get (fs ++ [(k, v)]) k = Some v.
Proof.
  induction fs as [|[k' x] r IH]; intros k i v H; cbn [field_index app field_get] in *.
  - now rewrite key_eqb_refl.
  - destruct (key_eqb k' k); [discriminate | eapply IH; eauto].
Qed.

Lemma write_field_get fs name value :
  field_get (fst (write_field fs name value)) name = Some (JStr value).
Proof.
  unfold write_field. destruct (field_index fs name 0) as [j|] eqn:E; cbn [fst].
  - rewrite <- (Nat.sub_0_r j) at 1. now apply field_get_set_val.
  - eapply field_get_app_new; eauto.
Qed.

Section Marked.
  Variable inh : bool.
  Variable masks : list cmask.
  Variable fl : fields.
  Variable oracle : nat -> bytes -> res (list (list Z)).
  Variable cfg : config.

  Lemma root_loop_quiet : forall todo i fm fs fs' fired,
    root_loop inh masks fl oracle todo i fm fs = Ok (fs', fired) -> fired = [] -> fs' = fs.
  Proof.
    induction todo as [|t IH]; intros i fm fs fs' fired H Hnil; cbn [root_loop] in H.
    - now inversion H.
    - destruct (nth_error fs i) as [[k x]|] eqn:En; [|now inversion H].
      destruct (field_next inh fl fm k); [|eapply IH; eauto].
      apply bind_ok_inv in H as ([[x' upd] f1] & Ht & H).
      destruct (traverse_facts inh masks fl oracle _ _ _ Ht) as (_ & _ & _ & Hq).
      destruct (apply_marks masks f1 fs i) as [fs1 hit] eqn:Em.
      apply bind_ok_inv in H as ([fs3 f2] & Hl & H). revert Hnil. inversion H; subst; clear H. intros Hnil.
      apply app_eq_nil in Hnil as [-> ->]. rewrite (Hq eq_refl) in *. cbn [apply_marks] in Em. inversion Em; subst.
      cbn [negb orb] in Hl. rewrite (set_val_same _ _ _ _ En) in Hl. eapply IH; eauto.
  Qed.

  Lemma fast_loop_quiet : forall paths root root' fired,
    fast_loop inh masks fl oracle paths root = Ok (root', fired) -> fired = [] -> root' = root.
  Proof.
    induction paths as [|p rest IH]; intros root root' fired H Hnil; cbn [fast_loop] in H.
    - now inversion H.
    - destruct (dig_path root p) as [x|] eqn:Hd; [|eapply IH; eauto].
      apply bind_ok_inv in H as ([[x' upd] f1] & Ht & H).
      destruct (traverse_facts inh masks fl oracle _ _ _ Ht) as (_ & _ & _ & Hq).
      assert (Hsplit : exists f2, fired = f1 ++ f2).
      { match type of H with context [let '(r1, h) := ?e in _] => destruct e as [root1 hit] end.
        apply bind_ok_inv in H as ([root3 f2] & _ & H). inversion H. eauto. }
      destruct Hsplit as (f2 & E). rewrite E in Hnil. apply app_eq_nil in Hnil as [-> ->]. cbn [app] in E. subst fired.
      rewrite (Hq eq_refl) in *.
      assert (Hm : (match root, p with
                    | JObj fs, k :: _ =>
                        match field_index fs k 0 with
                        | Some cur => let '(fs1, hit) := apply_marks masks [] fs cur in (JObj fs1, hit)
                        | None => (root, false)
                        end
                    | _, _ => (root, false)
                    end) = (root, false)).
      { destruct root; try reflexivity. destruct p; [reflexivity|]. now destruct (field_index fs b 0). }
      rewrite Hm in H. cbn [negb orb] in H. rewrite (put_path_same _ _ _ Hd) in H.
      apply bind_ok_inv in H as ([root3 f2] & Hl & H). inversion H; subst. eapply IH; eauto.
  Qed.

  Lemma stage1_quiet root root1 :
    stage1 inh masks fl oracle cfg root = Ok (root1, []) -> root1 = root.
  Proof.
    unfold stage1. intros H1.
    destruct (f_gproc fl && negb (f_specific fl)); [eapply fast_loop_quiet; eauto|].
    destruct root as [| | | |l|fs].
    1-5: apply bind_ok_inv in H1 as ([[v u] f] & Ht & H1); inversion H1; subst;
         destruct (traverse_facts inh masks fl oracle _ _ _ Ht) as (_ & _ & _ & Hq); now apply Hq.
    apply bind_ok_inv in H1 as ([fs' f] & Hl & H1). inversion H1; subst. f_equal. eapply root_loop_quiet; eauto.
  Qed.

  (* nothing fired: the event is untouched. something fired: the event carries the plugin's mark *)
  Theorem do_event_mark root root' fired :
    ~ In [] (c_proc cfg) ->
    do_event inh masks fl oracle cfg root = Ok (root', fired) ->
    (fired = [] -> root' = root) /\
    (fired <> [] -> c_afield cfg <> [] -> forall fs, root = JObj fs ->
       exists fs', root' = JObj fs' /\ field_get fs' (c_afield cfg) = Some (JStr (c_avalue cfg))).
  Proof.
    intros Hne H. rewrite do_event_stages in H. apply bind_ok_inv in H as ([root1 f1] & H1 & H). inversion H; subst; clear H.
    split.
    - intros ->. rewrite (stage1_quiet _ _ H1). cbn [is_nil negb andb]. now destruct root.
    - intros Hf Haf fs ->.
      destruct (stage1_frame inh masks fl oracle cfg _ _ _ Hne H1) as ((fs1 & -> & _) & _).
      assert (E : negb (is_nil fired) && negb (is_nil (c_afield cfg)) = true).
      { destruct fired; [congruence|]. destruct (c_afield cfg); [congruence | reflexivity]. }
      rewrite E. eexists; split; [reflexivity|]. apply write_field_get.
  Qed.
End Marked.

(* iterating next_fm along a path is fm_at *)
Lemma next_fm_is_fm_at inh n k : next_fm inh (Some n) k = Some (fm_at inh n [k]).
Proof. cbn [next_fm fm_at]. now destruct (fm_has_children n). Qed.

Lemma fm_at_app inh : forall p q n, fm_at inh n (p ++ q) = fm_at inh (fm_at inh n p) q.
Proof.
  induction p as [|k r IH]; intros q n; cbn [app fm_at]; [reflexivity|].
  destruct (fm_has_children n) eqn:E; [apply IH|].
  (* a node without children is carried unchanged to every descendant *)
  destruct q as [|k' q']; cbn [fm_at]; [reflexivity | now rewrite E].
Qed.

(* ------------------------------------------------------------------------------------------------ *)
(* cfg/matchrule: what Match computes                                                                 *)
(* ------------------------------------------------------------------------------------------------ *)
Lemma to_lower_len b : len (to_lower b) = len b.
Proof. unfold to_lower, len. now rewrite map_length. Qed.

Lemma fold_min_le : forall (vs : list bytes) a v, In v vs -> fold_left (fun a v => Z.min a (len v)) vs a <= len v.
Proof.
  assert (Hmono : forall (vs : list bytes) a, fold_left (fun a v => Z.min a (len v)) vs a <= a).
  { induction vs as [|x r IH]; intros a; cbn [fold_left]; [lia|]. specialize (IH (Z.min a (len x))). lia. }
  induction vs as [|x r IH]; intros a v Hin; [destruct Hin|]. destruct Hin as [<- | Hin]; cbn [fold_left].
  - specialize (Hmono r (Z.min a (len x))). lia.
  - now apply IH.
Qed.

Lemma fold_max_ge_in : forall (vs : list bytes) a v, In v vs -> len v <= fold_left (fun a v => Z.max a (len v)) vs a.
Proof.
  induction vs as [|x r IH]; intros a v Hin; [destruct Hin|]. destruct Hin as [<- | Hin]; cbn [fold_left].
  - pose proof (fold_max_ge r (Z.max a (len x))). lia.
  - now apply IH.
Qed.

Lemma firstn_firstn_le {A} (l : list A) a b : (a <= b)%nat -> firstn a (firstn b l) = firstn a l.
Proof. intros H. rewrite firstn_firstn. f_equal. lia. Qed.

Lemma slice_to_ok {A} (l : list A) n : 0 <= n <= len l -> slice_to l n = Ok (firstn (Z.to_nat n) l).
Proof. intros H. unfold slice_to. rewrite slice_ok by lia. cbn [Z.to_nat skipn]. now rewrite Z.sub_0_r. Qed.

Lemma slice_from_ok {A} (l : list A) n : 0 <= n <= len l -> slice_from l n = Ok (skipn (Z.to_nat n) l).
Proof.
  intros H. unfold slice_from. rewrite slice_ok by lia. f_equal.
  apply firstn_all2. rewrite skipn_length. unfold len in *. lia.
Qed.

Lemma affix_loop_prefix cut data : forall vs,
  (forall v, In v vs -> len v <= len cut -> firstn (length v) cut = firstn (length v) data) ->
  (forall v, In v vs -> (len v <=? len cut) = (len v <=? len data)) ->
  affix_loop RPrefix cut vs = Ok (existsb (affix_test RPrefix data) vs).
Proof.
  induction vs as [|v r IH]; intros H1 H2; cbn [affix_loop existsb]; [reflexivity|].
  pose proof (len_nonneg v). unfold affix_test at 1. rewrite <- (H2 v) by now left.
  destruct (len cut <? len v) eqn:E.
  - replace (len v <=? len cut) with false by lia. cbn [andb orb]. apply IH; intros; [apply H1 | apply H2]; auto; now right.
  - replace (len v <=? len cut) with true by lia. cbn [andb].
    rewrite slice_to_ok by lia. cbn [bind]. replace (Z.to_nat (len v)) with (length v) by (unfold len; lia).
    rewrite (H1 v) by (first [now left | lia]).
    destruct (bytes_eqb (firstn (length v) data) v); cbn [orb]; [reflexivity|].
    apply IH; intros; [apply H1 | apply H2]; auto; now right.
Qed.

Lemma affix_loop_suffix cut data : forall vs,
  (forall v, In v vs -> len v <= len cut -> skipn (length cut - length v) cut = skipn (length data - length v) data) ->
  (forall v, In v vs -> (len v <=? len cut) = (len v <=? len data)) ->
  affix_loop RSuffix cut vs = Ok (existsb (affix_test RSuffix data) vs).
Proof.
  induction vs as [|v r IH]; intros H1 H2; cbn [affix_loop existsb]; [reflexivity|].
  pose proof (len_nonneg v). unfold affix_test at 1. rewrite <- (H2 v) by now left.
  destruct (len cut <? len v) eqn:E.
  - replace (len v <=? len cut) with false by lia. cbn [andb orb]. apply IH; intros; [apply H1 | apply H2]; auto; now right.
  - replace (len v <=? len cut) with true by lia. cbn [andb].
    rewrite slice_from_ok by lia. cbn [bind].
    replace (Z.to_nat (len cut - len v)) with (length cut - length v)%nat by (unfold len in *; lia).
    rewrite (H1 v) by (first [now left | lia]).
    destruct (bytes_eqb (skipn (length data - length v) data) v); cbn [orb]; [reflexivity|].
    apply IH; intros; [apply H1 | apply H2]; auto; now right.
Qed.

Lemma to_lower_firstn n b : to_lower (firstn n b) = firstn n (to_lower b).
Proof. unfold to_lower. now rewrite firstn_map. Qed.
Lemma to_lower_skipn n b : to_lower (skipn n b) = skipn n (to_lower b).
Proof. unfold to_lower. now rewrite skipn_map. Qed.

Lemma existsb_ext_in' {A} (f g : A -> bool) : forall l, (forall x, In x l -> f x = g x) -> existsb f l = existsb g l.
Proof.
  induction l as [|x r IH]; intros H; cbn [existsb]; [reflexivity|].
  rewrite (H x) by now left. f_equal. apply IH. intros y Hy. apply H. now right.
Qed.

Theorem rule_match_spec r raw : r_values r <> [] -> rule_match (prepare r) raw = Ok (rule_spec r raw).
Proof.
  intros Hne. unfold rule_match, rule_spec.
  set (vs := if r_ci r then map to_lower (r_values r) else r_values r).
  set (data := if r_ci r then to_lower raw else raw).
  assert (Hdl : len data = len raw) by (unfold data; destruct (r_ci r); [apply to_lower_len | reflexivity]).
  assert (Hvs : vs <> []) by (unfold vs; destruct (r_ci r); [destruct (r_values r); [congruence | discriminate] | assumption]).
  assert (Hmin : forall v, In v vs -> p_min (prepare r) <= len v) by (intros v Hv; cbn [prepare p_min]; now apply fold_min_le).
  assert (Hmax : forall v, In v vs -> len v <= p_max (prepare r)) by (intros v Hv; cbn [prepare p_max]; now apply fold_max_ge_in).
  assert (Hraw : rule_match_raw (prepare r) raw = Ok (existsb (affix_test (r_mode r) data) vs)).
  { unfold rule_match_raw. pose proof (len_nonneg raw) as Hr0. pose proof (prepare_max_nonneg r) as Hm0.
    destruct (len raw <? p_min (prepare r)) eqn:Emin.
    - f_equal. symmetry. apply not_true_iff_false. intros Hex. apply existsb_exists in Hex as (v & Hv & Ht).
      unfold affix_test in Ht. apply andb_prop in Ht as [Ht _]. specialize (Hmin v Hv). lia.
    - change (p_mode (prepare r)) with (r_mode r). change (p_ci (prepare r)) with (r_ci r). change (p_values (prepare r)) with vs.
      destruct (r_mode r) eqn:Emd.
      + (* prefix *)
        destruct (len raw <? p_max (prepare r)) eqn:Emax; cbn [bind].
        * fold data. apply affix_loop_prefix; intros; reflexivity.
        * rewrite slice_to_ok by lia. cbn [bind].
          set (cut := if r_ci r then to_lower (firstn (Z.to_nat (p_max (prepare r))) raw) else firstn (Z.to_nat (p_max (prepare r))) raw).
          assert (Hcut : cut = firstn (Z.to_nat (p_max (prepare r))) data).
          { unfold cut, data. destruct (r_ci r); [apply to_lower_firstn | reflexivity]. }
          assert (Hcl : len cut = p_max (prepare r)).
          { rewrite Hcut. unfold len in *. rewrite firstn_length. lia. }
          apply affix_loop_prefix.
          -- intros v Hv Hlv. rewrite Hcut. apply firstn_firstn_le. unfold len in *. lia.
          -- intros v Hv. specialize (Hmax v Hv). lia.
      + (* contains *)
        fold data. f_equal. apply existsb_ext_in'. intros v Hv. unfold affix_test.
        f_equal. lia.
      + (* suffix *)
        destruct (len raw <? p_max (prepare r)) eqn:Emax; cbn [bind].
        * fold data. apply affix_loop_suffix; intros; reflexivity.
        * rewrite slice_from_ok by lia. cbn [bind].
          set (n := Z.to_nat (len raw - p_max (prepare r))).
          set (cut := if r_ci r then to_lower (skipn n raw) else skipn n raw).
          assert (Hcut : cut = skipn n data).
          { unfold cut, data. destruct (r_ci r); [apply to_lower_skipn | reflexivity]. }
          assert (Hcl : len cut = p_max (prepare r)).
          { rewrite Hcut. unfold len in *. rewrite skipn_length. unfold n. lia. }
          apply affix_loop_suffix.
          -- intros v Hv Hlv. rewrite Hcut. rewrite skipn_plus. f_equal.
             unfold len in *. rewrite skipn_length. unfold n. lia.
          -- intros v Hv. specialize (Hmax v Hv). lia. }
  rewrite Hraw. cbn [bind]. change (p_invert (prepare r)) with (r_invert r).
  f_equal. destruct (r_invert r); cbn [xorb]; [now destruct (existsb _ vs) | now destruct (existsb _ vs)].
Qed.

(* one mask in force on one non-empty value: processMask is one maskValue on the regexp's answer *)
Lemma process_mask_single k fl oracle fm s idxs :
  s <> [] -> applicable fl k 0 fm = true -> check_match_rules (k_rules k) s = Ok true ->
  k_apply k = true -> oracle 0%nat s = Ok idxs -> re_wf (len s) (k_nsub k) idxs ->
  process_mask [k] fl oracle fm s =
    (mv <- mask_value s idxs (k_groups k) (k_mode k) ;;
     Ok (match mv with Some out => (out, true, [0%nat]) | None => (s, false, []) end)).
Proof.
  intros Hs Ha Hr Hk Ho Hwf. unfold process_mask. destruct s as [|c s']; [congruence|].
  cbn [pm_loop]. rewrite Ha, Hr, Hk, Ho. cbn [negb bind]. unfold re_wf in Hwf. rewrite Hwf. cbn [negb].
  destruct (mask_value (c :: s') idxs (k_groups k) (k_mode k)) as [[out|]| |]; reflexivity.
Qed.

(* ------------------------------------------------------------------------------------------------ *)
(* per-mask do_if (gate) and metric labels                                                            *)
(* ------------------------------------------------------------------------------------------------ *)
Lemma gate_ok b k : cmask_ok k -> cmask_ok (gate b k).
Proof.
  destruct b; cbn [gate]; [auto|]. intros [Hg _]. split; cbn [k_apply k_nsub k_groups k_rules]; [assumption|].
  intros rs p [<-|[]] [].
Qed.

Lemma gate_all_ok : forall ks bits, Forall cmask_ok ks -> Forall cmask_ok (gate_all ks bits).
Proof.
  induction ks as [|k r IH]; intros bits H; [destruct bits; constructor|].
  destruct bits as [|b br]; cbn [gate_all]; [assumption|].
  inversion H; subst. constructor; [now apply gate_ok | now apply IH].
Qed.

Lemma gate_afield b k : k_afield (gate b k) = k_afield k.
Proof. now destruct b. Qed.

Lemma gate_all_nil : forall ks, gate_all ks [] = ks.
Proof. now destruct ks. Qed.

Lemma gate_all_afields : forall ks bits, map k_afield (gate_all ks bits) = map k_afield ks.
Proof.
  induction ks as [|k r IH]; intros bits; [now destruct bits|].
  destruct bits as [|b br]; cbn [gate_all map]; [reflexivity|]. now rewrite gate_afield, IH.
Qed.

Lemma mark_names_gate ks bits cfg : mark_names (gate_all ks bits) cfg = mark_names ks cfg.
Proof. unfold mark_names. now rewrite gate_all_afields. Qed.

(* every answer "use" = the masks as compiled *)
Lemma gate_all_used : forall ks bits, (forall b, In b bits -> b = true) -> gate_all ks bits = ks.
Proof.
  induction ks as [|k r IH]; intros bits H; [now destruct bits|].
  destruct bits as [|b br]; cbn [gate_all]; [reflexivity|].
  rewrite (H b (or_introl eq_refl)). cbn [gate]. f_equal. apply IH. intros b' Hb. apply H. now right.
Qed.

Lemma gate_all_nth : forall ks bits j k',
  nth_error (gate_all ks bits) j = Some k' -> nth_error bits j = Some false -> k_rules k' = [(false, [])].
Proof.
  induction ks as [|k r IH]; intros bits j k' Hk Hb.
  - destruct bits; destruct j; discriminate.
  - destruct bits as [|b br]; [destruct j; discriminate|]. cbn [gate_all] in Hk.
    destruct j as [|j]; cbn [nth_error] in *.
    + inversion Hb; subst. inversion Hk; subst. reflexivity.
    + eapply IH; eauto.
Qed.

(* a mask whose do_if said "no" for this event is not applied to any value of it: no rewrite by it, no
   applied_field, no count *)
Theorem gated_off_never_fires masks bits fl oracle fm s out upd fired j :
  nth_error bits j = Some false ->
  process_mask (gate_all masks bits) fl oracle fm s = Ok (out, upd, fired) -> ~ In j fired.
Proof.
  intros Hb H Hin. apply process_mask_fired in H as (Hf & _ & _).
  destruct (Hf j Hin) as (k & Hk & _ & Hr & _).
  rewrite (gate_all_nth _ _ _ _ Hk Hb) in Hr. cbn in Hr. discriminate.
Qed.

(* a mask whose do_if said "yes" (or that has none) is the compiled mask itself *)
Lemma gate_all_nth_used : forall ks bits j k,
  nth_error ks j = Some k -> nth_error bits j <> Some false -> nth_error (gate_all ks bits) j = Some k.
Proof.
  induction ks as [|k0 r IH]; intros bits j k Hk Hb; [destruct j; discriminate|].
  destruct bits as [|b br]; cbn [gate_all]; [assumption|].
  destruct j as [|j]; cbn [nth_error] in *.
  - inversion Hk; subst. destruct b; [reflexivity | congruence].
  - now apply IH.
Qed.

Definition res_map {A B} (f : A -> B) (r : res A) : res B :=
  match r with Ok a => Ok (f a) | Err e => Err e | Panic p => Panic p end.

(* without do_if answers the extended run produces the events of the plain run *)
Lemma do_events_ext_plain inh ks fl oracle cfg pl xs : forall evs,
  res_map fst (do_events_ext inh ks fl oracle cfg pl xs (map (fun e => (e, [])) evs)) =
  res_map (fun x => fst (fst x)) (do_events inh ks fl oracle cfg evs).
Proof.
  induction evs as [|e r IH]; cbn [map do_events_ext do_events]; [reflexivity|].
  rewrite gate_all_nil. destruct (do_event inh ks fl oracle cfg e) as [[e' fired]| |]; cbn [bind]; try reflexivity.
  destruct (do_events_ext inh ks fl oracle cfg pl xs (map (fun e0 => (e0, [])) r)) as [[r1 m1]| |];
    destruct (do_events inh ks fl oracle cfg r) as [[[r2 n2] c2]| |]; cbn [bind res_map fst] in *;
    try discriminate; try reflexivity; try congruence.
Qed.

Theorem run_plugin_ext_plain inh cfg oracle evs :
  res_map fst (run_plugin_ext inh cfg oracle [] (map (fun _ => mext0) (c_masks cfg)) (map (fun e => (e, [])) evs)) =
  res_map (fun x => fst (fst x)) (run_plugin inh cfg oracle evs).
Proof.
  unfold run_plugin_ext, run_plugin.
  destruct (compile_masks (c_masks cfg)) as [ks| |] eqn:Ek; cbn [bind]; try reflexivity.
  destruct (gather_fields cfg) as [fl| |]; cbn [bind]; try reflexivity.
  assert (Hl : forall (ks : list cmask) (ms : list mask), labels_refused ks (map (fun _ => mext0) ms) = false).
  { induction ks0 as [|k r IH]; intros ms; [reflexivity|]. cbn [labels_refused].
    destruct ms as [|m mr]; cbn [map]; cbn [x_clash x_labels mext0 bad_labels existsb has_dup_b orb andb negb].
    - rewrite andb_false_r. apply (IH []).
    - rewrite andb_false_r. apply IH. }
  rewrite Hl. unfold bad_labels. cbn [existsb has_dup_b orb]. rewrite andb_false_r. cbn [orb].
  apply do_events_ext_plain.
Qed.

Lemma do_events_ext_not_panic inh ks fl oracle cfg pl xs :
  Forall cmask_ok ks -> (forall i b, is_panic (oracle i b) = false) ->
  forall evs, is_panic (do_events_ext inh ks fl oracle cfg pl xs evs) = false.
Proof.
  intros Hk Ho. induction evs as [|[e bits] r IH]; cbn [do_events_ext]; [reflexivity|].
  apply bind_not_panic; [apply do_event_not_panic; [now apply gate_all_ok | assumption]|]. intros [e' fired] _.
  apply bind_not_panic; [exact IH|]. now intros [r' ms] _.
Qed.

Theorem run_plugin_ext_total inh cfg oracle pl xs evs :
  (forall i b, is_panic (oracle i b) = false) -> is_panic (run_plugin_ext inh cfg oracle pl xs evs) = false.
Proof.
  intros Ho. unfold run_plugin_ext.
  destruct (compile_masks (c_masks cfg)) as [ks|e|p] eqn:Ek; cbn [bind]; try reflexivity.
  - destruct (gather_fields cfg) as [fl|e|p] eqn:Ef; cbn [bind]; try reflexivity.
    + destruct ((c_metric cfg && bad_labels pl) || labels_refused ks xs); [reflexivity|].
      apply do_events_ext_not_panic; [eapply compile_masks_ok; eauto | assumption].
    + unfold gather_fields in Ef.
      destruct (negb (is_nil (c_ign cfg)) && negb (is_nil (c_proc cfg))); [discriminate|].
      destruct (existsb is_nil (c_ign cfg) || existsb is_nil (c_proc cfg)); discriminate.
  - exfalso. eapply compile_masks_no_panic; eauto.
Qed.

Lemma do_events_ext_frame inh ks fl oracle cfg pl xs :
  Forall cmask_ok ks -> ~ In [] (c_proc cfg) ->
  forall evs evs' ms, do_events_ext inh ks fl oracle cfg pl xs evs = Ok (evs', ms) ->
    Forall2 (event_frame (mark_names ks cfg)) (map fst evs) evs'.
Proof.
  intros Hk Hp. induction evs as [|[e bits] r IH]; intros evs' ms H; cbn [do_events_ext] in H.
  - inversion H; subst. constructor.
  - apply bind_ok_inv in H as ([e' fired] & He & H). apply bind_ok_inv in H as ([r' ms'] & Hr & H).
    inversion H; subst; clear H. cbn [map fst]. constructor; [|eapply IH; eauto].
    rewrite <- (mark_names_gate ks bits cfg).
    eapply do_event_frame; eauto using gate_all_ok.
Qed.

(* the frame theorem holds with do_if and labels: labels are only read *)
Theorem run_plugin_ext_frame inh cfg oracle pl xs evs evs' ms :
  run_plugin_ext inh cfg oracle pl xs evs = Ok (evs', ms) ->
  exists ks, compile_masks (c_masks cfg) = Ok ks /\ Forall2 (event_frame (mark_names ks cfg)) (map fst evs) evs'.
Proof.
  unfold run_plugin_ext. intros H. apply bind_ok_inv in H as (ks & Hk & H). apply bind_ok_inv in H as (fl & Hf & H).
  destruct ((c_metric cfg && bad_labels pl) || labels_refused ks xs); [discriminate|].
  exists ks. split; [assumption|]. eapply do_events_ext_frame; eauto.
  - eapply compile_masks_ok; eauto.
  - eapply gather_fields_paths; eauto.
Qed.

(* the counters of one event: the plugin's is touched iff some mask fired; mask i's iff it fired, has a metric
   name and that name is not the plugin's - by the number of values it fired on; the label values are read
   from the event as Do leaves it *)
Lemma count_fired_pos fired i : 0 <? count_fired fired i = true <-> In i fired.
Proof.
  unfold count_fired. rewrite (count_occ_In Nat.eq_dec fired i). split; intros H; [apply Z.ltb_lt in H|apply Z.ltb_lt]; lia.
Qed.

Lemma mask_mobs_spec root fired : forall ks xs i0 n m,
  nth_error (mask_mobs i0 ks xs fired root) n = Some m ->
  exists k, nth_error ks n = Some k /\
    (m = None <-> ~ (k_metric k = true /\ x_clash (nth n xs mext0) = false /\ In (i0 + n)%nat fired)) /\
    (m <> None -> m = Some (count_fired fired (i0 + n), map (label_val root) (x_labels (nth n xs mext0)))).
Proof.
  induction ks as [|k r IH]; intros xs i0 n m H; cbn [mask_mobs] in H; [destruct n; discriminate|].
  destruct n as [|n].
  - destruct xs as [|x xr]; cbn [nth_error nth] in *; inversion H; subst; clear H; exists k; (split; [reflexivity|]);
      rewrite Nat.add_0_r.
    + cbn [x_clash mext0 negb]. rewrite andb_true_r.
      destruct (k_metric k) eqn:Em; cbn [andb].
      * destruct (0 <? count_fired fired i0) eqn:Ec.
        -- apply count_fired_pos in Ec. split; [split; [discriminate | intros Hn; exfalso; apply Hn; auto] | reflexivity].
        -- split; [split; [intros _ (_ & _ & Hin); apply count_fired_pos in Hin; congruence | reflexivity] | congruence].
      * split; [split; [intros _ (Hc & _); discriminate | reflexivity] | congruence].
    + destruct (k_metric k) eqn:Em; cbn [andb].
      * destruct (x_clash x) eqn:Ex; cbn [negb andb].
        -- split; [split; [intros _ (_ & Hc & _); discriminate | reflexivity] | congruence].
        -- destruct (0 <? count_fired fired i0) eqn:Ec.
           ++ apply count_fired_pos in Ec. split; [split; [discriminate | intros Hn; exfalso; apply Hn; auto] | reflexivity].
           ++ split; [split; [intros _ (_ & _ & Hin); apply count_fired_pos in Hin; congruence | reflexivity] | congruence].
      * split; [split; [intros _ (Hc & _); discriminate | reflexivity] | congruence].
  - cbn [nth_error] in H. destruct xs as [|x xr].
    + destruct (IH [] (S i0) n m H) as (k' & Hk' & Hs). exists k'. split; [assumption|].
      replace (i0 + S n)%nat with (S i0 + n)%nat by lia.
      replace (nth (S n) [] mext0) with (nth n (@nil mext) mext0) by (destruct n; reflexivity). exact Hs.
    + destruct (IH xr (S i0) n m H) as (k' & Hk' & Hs). exists k'. split; [assumption|].
      replace (i0 + S n)%nat with (S i0 + n)%nat by lia. exact Hs.
Qed.

Theorem event_metrics_spec ks cfg pl xs root fired :
  exists pm rest, event_metrics ks cfg pl xs root fired = pm :: rest /\
    (pm = None <-> fired = [] \/ c_metric cfg = false) /\
    (pm <> None -> pm = Some (1, map (label_val root) pl)) /\
    forall n m, nth_error rest n = Some m ->
      exists k, nth_error ks n = Some k /\
        (m = None <-> ~ (k_metric k = true /\ x_clash (nth n xs mext0) = false /\ In n fired)) /\
        (m <> None -> m = Some (count_fired fired n, map (label_val root) (x_labels (nth n xs mext0)))).
Proof.
  unfold event_metrics. eexists. eexists. split; [reflexivity|]. split; [|split].
  - destruct fired; cbn [is_nil negb andb]; [split; auto|].
    destruct (c_metric cfg); split; auto; try discriminate. intros [?|?]; discriminate.
  - destruct (negb (is_nil fired) && c_metric cfg); congruence.
  - intros n m H. apply (mask_mobs_spec root fired ks xs 0 n m H).
Qed.
