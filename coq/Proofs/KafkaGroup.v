(* Proofs about Model/KafkaGroup.v: what a restart of the consumer group from the committed offsets redelivers. *)
From Verif Require Import Base.Sx Base.GoSem Model.KafkaInt Gen.KafkaGen Model.Kafka Model.KafkaGroup Proofs.Kafka.
From Coq Require Import Lia ZifyBool.

Lemma rkey_key_of r : rkey r = key_of r.
Proof. reflexivity. Qed.

(* ---- the rule itself ---------------------------------------------------------------------- *)
Theorem redelivered_spec b oldest log r :
  In r (redelivered b oldest log) <->
  In r log /\ match lookup b (key_of r) with Some h => fst h <= k_off r | None => oldest = true end.
Proof.
  unfold redelivered. rewrite filter_In. unfold from_commit. rewrite rkey_key_of.
  destruct (lookup b (key_of r)) as [h|].
  - rewrite Z.leb_le. tauto.
  - tauto.
Qed.

(* the filter the executable model applies to the records-with-kinds of a fetch is that rule *)
Lemma begin_filter_is_redelivered b oldest (rs : list grec) :
  map fst (filter (fun x : grec => from_commit b oldest (fst x)) rs) = redelivered b oldest (map fst rs).
Proof.
  unfold redelivered. induction rs as [|x rs IH]; cbn [filter map]; [reflexivity|].
  destruct (from_commit b oldest (fst x)); cbn [map]; now rewrite IH.
Qed.

(* ---- restart after any run of Commit calls -------------------------------------------------- *)
(* rs = the records Commit was called for during the lifetimes so far (any completion order, repetitions);
   m = the heads kgo then holds = what CommitMarkedOffsets sends to Kafka (tick_commits_only_marks below).
   A record of a partition's log that lies ABOVE every committed record of its partition is handed over again. *)
Theorem restart_redelivers_above_commits topics rs log oldest m r :
  len topics <= 2 ^ 48 -> Forall (rec_in_range topics) rs ->
  commit_records topics [] rs = Ok m ->
  In r log ->
  (forall r', In r' rs -> key_of r' = key_of r -> k_off r' < k_off r) ->
  (oldest = true \/ lookup m (key_of r) <> None) ->
  In r (redelivered m oldest log).
Proof.
  intros Hlen HF Hc Hin Habove Hstart.
  destruct (mark_at_most_one_past_consumed topics rs Hlen HF) as (m' & Hc' & Hm).
  rewrite Hc in Hc'. inversion Hc'; subst m'. clear Hc'.
  apply redelivered_spec. split; [assumption|].
  destruct (lookup m (key_of r)) as [[o e]|] eqn:L.
  - unfold key_of in L. destruct (Hm _ _ _ _ L) as ((r' & Hr' & Ht & Hp & Ho & _) & _).
    cbn [fst]. assert (k_off r' < k_off r).
    { apply Habove; [assumption|]. unfold key_of. now rewrite Ht, Hp. }
    lia.
  - destruct Hstart as [H|H]; [assumption | now elim H].
Qed.

(* conversely: a record of the log that is NOT handed over again lies at or below a committed record of its own
   partition (or nothing was ever committed for the partition and the group starts at the end: offset newest).
   This is the frontier hazard seen from Kafka: the only records a restart can skip are those that a Commit of a
   record at or above them has passed. *)
Theorem restart_skips_only_passed topics rs log oldest m r :
  len topics <= 2 ^ 48 -> Forall (rec_in_range topics) rs ->
  commit_records topics [] rs = Ok m ->
  In r log -> ~ In r (redelivered m oldest log) ->
  (lookup m (key_of r) = None /\ oldest = false) \/
  (exists r', In r' rs /\ key_of r' = key_of r /\ k_off r <= k_off r').
Proof.
  intros Hlen HF Hc Hin Hnot.
  destruct (mark_at_most_one_past_consumed topics rs Hlen HF) as (m' & Hc' & Hm).
  rewrite Hc in Hc'. inversion Hc'; subst m'. clear Hc'.
  rewrite redelivered_spec in Hnot.
  destruct (lookup m (key_of r)) as [[o e]|] eqn:L.
  - right. unfold key_of in L. destruct (Hm _ _ _ _ L) as ((r' & Hr' & Ht & Hp & Ho & _) & _).
    exists r'. split; [assumption|]. split; [unfold key_of; now rewrite Ht, Hp|].
    cbn [fst] in Hnot. destruct (Z_le_gt_dec o (k_off r)) as [Hle|Hgt]; [elim Hnot; tauto | lia].
  - left. split; [reflexivity|]. destruct oldest; [elim Hnot; tauto | reflexivity].
Qed.

(* The property's last sentence, under its frontier clause. If nothing at or below a committed record is
   unfinished (every record of the log at or below a committed record of its partition has itself been
   committed — what the frontier clause demands and spread routing does not give, known finding), then a
   restart hands over EVERY unfinished record of every partition that has a commit (and of the others too when
   the group starts at the oldest offset). *)
Theorem restart_redelivers_everything_unfinished topics rs log oldest m :
  len topics <= 2 ^ 48 -> Forall (rec_in_range topics) rs ->
  commit_records topics [] rs = Ok m ->
  (forall r r', In r log -> In r' rs -> key_of r' = key_of r -> k_off r <= k_off r' -> In r rs) ->
  forall r, In r log -> ~ In r rs ->
            (oldest = true \/ lookup m (key_of r) <> None) ->
            In r (redelivered m oldest log).
Proof.
  intros Hlen HF Hc Hfront r Hin Hunf Hstart.
  eapply restart_redelivers_above_commits; eauto.
  intros r' Hr' Hk. destruct (Z_lt_ge_dec (k_off r') (k_off r)) as [Hlt|Hge]; [assumption|].
  elim Hunf. apply (Hfront r r'); auto. lia.
Qed.

(* a partition a record of which was committed has a head (with the Kafka log invariant on epochs) *)
Lemma committed_partition_has_head topics rs m r0 :
  len topics <= 2 ^ 48 -> Forall (rec_in_range topics) rs -> epochs_follow_offsets rs ->
  commit_records topics [] rs = Ok m -> In r0 rs -> lookup m (key_of r0) <> None.
Proof.
  intros Hlen HF HE Hc Hin.
  destruct (mark_is_one_past_max topics rs Hlen HF HE) as (m' & Hc' & Hm).
  rewrite Hc in Hc'. inversion Hc'; subst m'.
  destruct (Hm r0 Hin) as (o & e & L & _). now rewrite L.
Qed.

(* ---- what reaches Kafka ------------------------------------------------------------------- *)
Lemma lookup_mark_set m k h k' :
  lookup (mark_set m k h) k' = if key_eqb k k' then Some h else lookup m k'.
Proof.
  induction m as [|[k0 c] m IH]; cbn [mark_set lookup].
  - reflexivity.
  - destruct (key_eqb k0 k) eqn:E0.
    + apply key_eqb_eq in E0. subst k0. cbn [lookup]. destruct (key_eqb k k'); reflexivity.
    + cbn [lookup]. rewrite IH. destruct (key_eqb k0 k') eqn:E1; [|reflexivity].
      apply key_eqb_eq in E1. subst k0. apply key_eqb_neq in E0.
      destruct (key_eqb k k') eqn:E2; [|reflexivity]. apply key_eqb_eq in E2. now elim E0.
Qed.

(* CommitMarkedOffsets (the commit tick, Plugin.Stop): every offset the group has committed afterwards was
   committed before or is a head kgo holds — by c10_mark_at_most_one_past_consumed offset + 1 and the epoch of a
   record Commit was called for. Nothing else ever reaches Kafka. *)
Theorem tick_commits_only_marks m : forall b c k h,
  lookup (fst (tick_marks m (b, c))) k = Some h ->
  lookup b k = Some h \/ In (k, h) m.
Proof.
  unfold tick_marks. induction m as [|[k0 h0] m IH]; intros b c k h L; cbn [fold_left] in L.
  - now left.
  - cbn [fst snd] in L.
    destruct (live c (k0, h0)).
    + apply IH in L. destruct L as [L|L]; [|right; now right].
      rewrite lookup_mark_set in L. destruct (key_eqb k0 k) eqn:E.
      * apply key_eqb_eq in E. subst k0. inversion L; subst. right. now left.
      * now left.
    + apply IH in L. destruct L as [L|L]; [now left | right; now right].
Qed.

(* ======================= a mark / a committed offset exists only for an ACKNOWLEDGED record =======================
   The three maps of the group model — B (Kafka), M (kgo's heads), C (what the member knows to be committed) — under
   the operations the model applies to them: a member joins (M = C = the fetched B), Commit of the event of an
   acknowledged record, the commit tick / Stop. [ginv acked B M C] is kept by all of them and says what the
   observations of which = 5 show (MarkedOffsets = the heads of M that differ from C; the broker's offsets = B):
   every one of them is (offset + 1, epoch) of a record in [acked], under that record's own topic and partition. *)
Definition keys_unique (m : marks) : Prop := NoDup (map fst m).

Definition ginv (acked : list krec) (B M C : marks) : Prop :=
  from_records acked B /\ keys_unique B /\ keys_unique M /\
  (forall k h, In (k, h) M -> live C (k, h) = true -> exists r, In r acked /\ key_of r = k /\ h = head_of r).

Lemma eo_eqb_refl h : eo_eqb h h = true.
Proof. unfold eo_eqb. rewrite !Z.eqb_refl. reflexivity. Qed.

Lemma in_mark_set m k h k1 h1 : In (k1, h1) (mark_set m k h) -> In (k1, h1) m \/ (k1 = k /\ h1 = h).
Proof.
  induction m as [|[k0 c] m IH]; cbn [mark_set].
  - intros [E|[]]. inversion E. now right.
  - destruct (key_eqb k0 k) eqn:E0.
    + apply key_eqb_eq in E0; subst k0. intros [E|H]; [inversion E; now right | left; now right].
    + intros [E|H]; [left; now left|]. destruct (IH H) as [H1|H1]; [left; now right | now right].
Qed.

Lemma keys_mark_set m k h k' : In k' (map fst (mark_set m k h)) -> k' = k \/ In k' (map fst m).
Proof.
  induction m as [|[k0 c] m IH]; cbn [mark_set map fst].
  - intros [E|[]]. now left.
  - destruct (key_eqb k0 k) eqn:E0; cbn [map fst].
    + intros H. now right.
    + intros [E|H]; [right; now left|]. destruct (IH H) as [H1|H1]; [now left | right; now right].
Qed.

Lemma keys_unique_mark_set m k h : keys_unique m -> keys_unique (mark_set m k h).
Proof.
  unfold keys_unique. induction m as [|[k0 c] m IH]; cbn [mark_set map fst]; intros ND.
  - constructor; [intros [] | constructor].
  - inversion ND as [|? ? Hn ND']; subst. destruct (key_eqb k0 k) eqn:E0; cbn [map fst].
    + constructor; assumption.
    + constructor; [|now apply IH]. intros Hin. destruct (keys_mark_set _ _ _ _ Hin) as [->|H]; [|now apply Hn].
      rewrite key_eqb_refl in E0. discriminate.
Qed.

Lemma keys_mark_update m k h k' : In k' (map fst (mark_update m k h)) -> k' = k \/ In k' (map fst m).
Proof.
  induction m as [|[k0 c] m IH]; cbn [mark_update map fst].
  - intros [E|[]]. now left.
  - destruct (key_eqb k0 k) eqn:E0; cbn [map fst].
    + intros H. now right.
    + intros [E|H]; [right; now left|]. destruct (IH H) as [H1|H1]; [now left | right; now right].
Qed.

Lemma keys_unique_mark_update m k h : keys_unique m -> keys_unique (mark_update m k h).
Proof.
  unfold keys_unique. induction m as [|[k0 c] m IH]; cbn [mark_update map fst]; intros ND.
  - constructor; [intros [] | constructor].
  - inversion ND as [|? ? Hn ND']; subst. destruct (key_eqb k0 k) eqn:E0; cbn [map fst].
    + constructor; assumption.
    + constructor; [|now apply IH]. intros Hin. destruct (keys_mark_update _ _ _ _ Hin) as [->|H]; [|now apply Hn].
      rewrite key_eqb_refl in E0. discriminate.
Qed.

Lemma lookup_none_not_key m k : ~ In k (map fst m) -> lookup m k = None.
Proof.
  induction m as [|[k0 c] m IH]; cbn [lookup map fst]; intros Hn; [reflexivity|].
  destruct (key_eqb k0 k) eqn:E.
  - apply key_eqb_eq in E. subst. elim Hn. now left.
  - apply IH. intros H. apply Hn. now right.
Qed.

Lemma unique_in_lookup m k h : keys_unique m -> In (k, h) m -> lookup m k = Some h.
Proof.
  unfold keys_unique. induction m as [|[k0 c] m IH]; cbn [lookup map fst]; intros ND Hin; [contradiction|].
  inversion ND as [|? ? Hn ND']; subst. destruct Hin as [E|Hin].
  - inversion E; subst. now rewrite key_eqb_refl.
  - destruct (key_eqb k0 k) eqn:E0; [|now apply IH].
    apply key_eqb_eq in E0. subst k0. elim Hn. apply in_map_iff. exists (k, h). split; [reflexivity | assumption].
Qed.

(* CommitMarkedOffsets over heads with unique keys: what is new in Kafka is a head that differed from `committed`,
   afterwards no head differs from `committed`, and the partitions without a head keep their `committed` *)
Lemma tick_spec : forall m b c, keys_unique m ->
  (forall k h, In (k, h) (fst (tick_marks m (b, c))) -> In (k, h) b \/ (In (k, h) m /\ live c (k, h) = true)) /\
  (forall k h, In (k, h) m -> live (snd (tick_marks m (b, c))) (k, h) = false) /\
  (forall k, ~ In k (map fst m) -> lookup (snd (tick_marks m (b, c))) k = lookup c k) /\
  (keys_unique b -> keys_unique (fst (tick_marks m (b, c)))).
Proof.
  unfold tick_marks, keys_unique. induction m as [|[k0 h0] m IH]; intros b c ND; cbn [fold_left fst snd map].
  - repeat split; auto. intros k h [].
  - inversion ND as [|? ? Hn ND']; subst. cbn [fst snd].
    set (bc1 := if live c (k0, h0) then (mark_set b k0 h0, mark_set c k0 h0) else (b, c)).
    assert (Hbc : bc1 = (fst bc1, snd bc1)) by (destruct bc1; reflexivity).
    rewrite Hbc. destruct (IH (fst bc1) (snd bc1) ND') as (I1 & I2 & I3 & I4).
    assert (Hc1 : forall k, k <> k0 -> lookup (snd bc1) k = lookup c k).
    { intros k Hk. unfold bc1. destruct (live c (k0, h0)); cbn [snd]; [|reflexivity].
      rewrite lookup_mark_set. destruct (key_eqb k0 k) eqn:E; [|reflexivity].
      apply key_eqb_eq in E. congruence. }
    split; [|split; [|split]].
    + intros k h Hin. destruct (I1 k h Hin) as [Hb|(Hm & Hl)].
      * unfold bc1 in Hb. destruct (live c (k0, h0)) eqn:L0; cbn [fst] in Hb; [|now left].
        destruct (in_mark_set _ _ _ _ _ Hb) as [H|(-> & ->)]; [now left|]. right. split; [now left | assumption].
      * right. split; [now right|]. unfold live in *. cbn [fst snd] in *.
        rewrite Hc1 in Hl; [assumption|]. intros ->. apply Hn. apply in_map_iff. exists (k0, h). split; [reflexivity|assumption].
    + intros k h [E|Hin]; [|now apply I2]. inversion E; subst k h.
      unfold live at 1. cbn [fst snd]. rewrite (I3 k0 Hn). unfold bc1.
      destruct (live c (k0, h0)) eqn:L0; cbn [snd].
      * rewrite lookup_mark_set, key_eqb_refl, eo_eqb_refl. reflexivity.
      * exact L0.
    + intros k Hk. rewrite I3 by (intros H; apply Hk; now right). apply Hc1. intros ->. apply Hk. now left.
    + intros NDb. apply I4. unfold bc1. destruct (live c (k0, h0)); cbn [fst]; [|assumption].
      now apply keys_unique_mark_set.
Qed.

(* nothing acknowledged, nothing marked, nothing committed *)
Lemma ginv_start : ginv [] [] [] [].
Proof. repeat split; try constructor; intros k h []. Qed.

(* a member joins (Start, or Lost + Assigned of an eager rebalance): kgo takes the group's offsets as its heads *)
Lemma ginv_join c acked B M C :
  ginv acked B M C -> ginv acked B (map (fetched_head c) B) (map (fetched_head c) B).
Proof.
  intros (FB & UB & _ & _).
  assert (UM : keys_unique (map (fetched_head c) B)).
  { unfold keys_unique in *. rewrite map_map. cbn [fetched_head fst]. exact UB. }
  repeat split; try assumption.
  intros k h Hin Hl. unfold live in Hl. cbn [fst snd] in Hl.
  rewrite (unique_in_lookup _ _ _ UM Hin), eo_eqb_refl in Hl. discriminate.
Qed.

(* Commit of the event the consumer built for an in-range record: the record is acknowledged now *)
Lemma ginv_commit topics acked B M C r :
  len topics <= 2 ^ 48 -> rec_in_range topics r -> ginv acked B M C ->
  exists M', commit topics M (event_of topics r) = Ok M' /\ ginv (r :: acked) B M' C.
Proof.
  intros Hlen Hr (FB & UB & UM & HM).
  exists (mark_update M (key_of r) (head_of r)). split; [now apply commit_of_record|].
  split; [eapply from_records_incl; [|exact FB]; intros x Hx; now right|].
  split; [assumption|]. split; [now apply keys_unique_mark_update|].
  intros k h Hin Hl. destruct (in_mark_update _ _ _ _ _ Hin) as [H|(-> & ->)].
  - destruct (HM k h H Hl) as (r' & Hr' & Hk). exists r'. split; [now right | exact Hk].
  - exists r. split; [now left | split; reflexivity].
Qed.

(* CommitMarkedOffsets (the auto-commit tick, Plugin.Stop) *)
Lemma ginv_tick acked B M C :
  ginv acked B M C -> ginv acked (fst (tick_marks M (B, C))) M (snd (tick_marks M (B, C))).
Proof.
  intros (FB & UB & UM & HM).
  destruct (tick_spec M B C UM) as (T1 & T2 & _ & T4).
  split; [|split; [now apply T4 | split; [assumption|]]].
  - intros k h Hin. destruct (T1 k h Hin) as [Hb|(Hm & Hl)]; [now apply FB | now apply HM].
  - intros k h Hin Hl. rewrite (T2 k h Hin) in Hl. discriminate.
Qed.

(* what the observations show under the invariant: every head MarkedOffsets shows and every offset Kafka holds
   passes the executable test of the harness against the acknowledged records *)
Lemma ginv_observed acked B M C :
  ginv acked B M C ->
  forallb (head_of_some_record acked) (filter (live C) M) = true /\ forallb (head_of_some_record acked) B = true.
Proof.
  intros (FB & _ & _ & HM). split.
  - apply forallb_forall. intros [k h] Hin. apply filter_In in Hin. destruct Hin as (Hin & Hl).
    apply head_of_some_record_true. now apply HM.
  - now apply from_records_forallb.
Qed.

Theorem group_marks_only_acked :
  ginv [] [] [] [] /\
  (forall c acked B M C, ginv acked B M C -> ginv acked B (map (fetched_head c) B) (map (fetched_head c) B)) /\
  (forall topics acked B M C r,
     len topics <= 2 ^ 48 -> rec_in_range topics r -> ginv acked B M C ->
     exists M', commit topics M (event_of topics r) = Ok M' /\ ginv (r :: acked) B M' C) /\
  (forall acked B M C, ginv acked B M C -> ginv acked (fst (tick_marks M (B, C))) M (snd (tick_marks M (B, C)))) /\
  (forall acked B M C, ginv acked B M C ->
     forallb (head_of_some_record acked) (filter (live C) M) = true /\
     forallb (head_of_some_record acked) B = true /\
     (forall k h, In (k, h) B -> exists r, In r acked /\ key_of r = k /\ h = head_of r)).
Proof.
  split; [exact ginv_start|]. split; [exact ginv_join|]. split; [exact ginv_commit|]. split; [exact ginv_tick|].
  intros acked B M C H. destruct (ginv_observed _ _ _ _ H) as (H1 & H2). split; [assumption|]. split; [assumption|].
  destruct H as (FB & _). exact FB.
Qed.
