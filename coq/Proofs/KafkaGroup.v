(* Proofs about Model/KafkaGroup.v: what a restart of the consumer group from the committed offsets redelivers. *)
From Verif Require Import Base.Sx Base.GoSem Model.KafkaInt Gen.KafkaGen Model.Kafka Model.KafkaGroup Proofs.Kafka.
From Coq Require Import Lia ZifyBool.

Lemma rkey_key_of r : rkey r = key_of r.
Proof. reflexivity. Qed.

(* ---- the rule itself ---------------------------------------------------------------------- *)
Theorem redelivered_spec b oldest log r :
  In r (redelivered b oldest log) <->
  In r log /\ match lookup b (key_of r) with Some h => fst h <= k_off r | None => oldest = true end.
Proof.
  unfold redelivered. rewrite filter_In. unfold from_commit. rewrite rkey_key_of.
  destruct (lookup b (key_of r)) as [h|].
  - rewrite Z.leb_le. tauto.
  - tauto.
Qed.

(* the filter the executable model applies to the records-with-kinds of a fetch is that rule *)
Lemma begin_filter_is_redelivered b oldest (rs : list grec) :
  map fst (filter (fun x : grec => from_commit b oldest (fst x)) rs) = redelivered b oldest (map fst rs).
Proof.
  unfold redelivered. induction rs as [|x rs IH]; cbn [filter map]; [reflexivity|].
  destruct (from_commit b oldest (fst x)); cbn [map]; now rewrite IH.
Qed.

(* ---- restart after any run of Commit calls -------------------------------------------------- *)
(* rs = the records Commit was called for during the lifetimes so far (any completion order, repetitions);
   m = the heads kgo then holds = what CommitMarkedOffsets sends to Kafka (tick_commits_only_marks below).
   A record of a partition's log that lies ABOVE every committed record of its partition is handed over again. *)
Theorem restart_redelivers_above_commits topics rs log oldest m r :
  len topics <= 2 ^ 48 -> Forall (rec_in_range topics) rs ->
  commit_records topics [] rs = Ok m ->
  In r log ->
  (forall r', In r' rs -> key_of r' = key_of r -> k_off r' < k_off r) ->
  (oldest = true \/ lookup m (key_of r) <> None) ->
  In r (redelivered m oldest log).
Proof.
  intros Hlen HF Hc Hin Habove Hstart.
  destruct (mark_at_most_one_past_consumed topics rs Hlen HF) as (m' & Hc' & Hm).
  rewrite Hc in Hc'. inversion Hc'; subst m'. clear Hc'.
  apply redelivered_spec. split; [assumption|].
  destruct (lookup m (key_of r)) as [[o e]|] eqn:L.
  - unfold key_of in L. destruct (Hm _ _ _ _ L) as ((r' & Hr' & Ht & Hp & Ho & _) & _).
    cbn [fst]. assert (k_off r' < k_off r).
    { apply Habove; [assumption|]. unfold key_of. now rewrite Ht, Hp. }
    lia.
  - destruct Hstart as [H|H]; [assumption | now elim H].
Qed.

(* conversely: a record of the log that is NOT handed over again lies at or below a committed record of its own
   partition (or nothing was ever committed for the partition and the group starts at the end: offset newest).
   This is the frontier hazard seen from Kafka: the only records a restart can skip are those that a Commit of a
   record at or above them has passed. *)
Theorem restart_skips_only_passed topics rs log oldest m r :
  len topics <= 2 ^ 48 -> Forall (rec_in_range topics) rs ->
  commit_records topics [] rs = Ok m ->
  In r log -> ~ In r (redelivered m oldest log) ->
  (lookup m (key_of r) = None /\ oldest = false) \/
  (exists r', In r' rs /\ key_of r' = key_of r /\ k_off r <= k_off r').
Proof.
  intros Hlen HF Hc Hin Hnot.
  destruct (mark_at_most_one_past_consumed topics rs Hlen HF) as (m' & Hc' & Hm).
  rewrite Hc in Hc'. inversion Hc'; subst m'. clear Hc'.
  rewrite redelivered_spec in Hnot.
  destruct (lookup m (key_of r)) as [[o e]|] eqn:L.
  - right. unfold key_of in L. destruct (Hm _ _ _ _ L) as ((r' & Hr' & Ht & Hp & Ho & _) & _).
    exists r'. split; [assumption|]. split; [unfold key_of; now rewrite Ht, Hp|].
    cbn [fst] in Hnot. destruct (Z_le_gt_dec o (k_off r)) as [Hle|Hgt]; [elim Hnot; tauto | lia].
  - left. split; [reflexivity|]. destruct oldest; [elim Hnot; tauto | reflexivity].
Qed.

(* The property's last sentence, under its frontier clause. If nothing at or below a committed record is
   unfinished (every record of the log at or below a committed record of its partition has itself been
   committed — what the frontier clause demands and spread routing does not give, known finding), then a
   restart hands over EVERY unfinished record of every partition that has a commit (and of the others too when
   the group starts at the oldest offset). *)
Theorem restart_redelivers_everything_unfinished topics rs log oldest m :
  len topics <= 2 ^ 48 -> Forall (rec_in_range topics) rs ->
  commit_records topics [] rs = Ok m ->
  (forall r r', In r log -> In r' rs -> key_of r' = key_of r -> k_off r <= k_off r' -> In r rs) ->
  forall r, In r log -> ~ In r rs ->
            (oldest = true \/ lookup m (key_of r) <> None) ->
            In r (redelivered m oldest log).
Proof.
  intros Hlen HF Hc Hfront r Hin Hunf Hstart.
  eapply restart_redelivers_above_commits; eauto.
  intros r' Hr' Hk. destruct (Z_lt_ge_dec (k_off r') (k_off r)) as [Hlt|Hge]; [assumption|].
  elim Hunf. apply (Hfront r r'); auto. lia.
Qed.

(* a partition a record of which was committed has a head (with the Kafka log invariant on epochs) *)
Lemma committed_partition_has_head topics rs m r0 :
  len topics <= 2 ^ 48 -> Forall (rec_in_range topics) rs -> epochs_follow_offsets rs ->
  commit_records topics [] rs = Ok m -> In r0 rs -> lookup m (key_of r0) <> None.
Proof.
  intros Hlen HF HE Hc Hin.
  destruct (mark_is_one_past_max topics rs Hlen HF HE) as (m' & Hc' & Hm).
  rewrite Hc in Hc'. inversion Hc'; subst m'.
  destruct (Hm r0 Hin) as (o & e & L & _). now rewrite L.
Qed.

(* ---- what reaches Kafka ------------------------------------------------------------------- *)
Lemma lookup_mark_set m k h k' :
  lookup (mark_set m k h) k' = if key_eqb k k' then Some h else lookup m k'.
Proof.
  induction m as [|[k0 c] m IH]; cbn [mark_set lookup].
  - reflexivity.
  - destruct (key_eqb k0 k) eqn:E0.
    + apply key_eqb_eq in E0. subst k0. cbn [lookup]. destruct (key_eqb k k'); reflexivity.
    + cbn [lookup]. rewrite IH. destruct (key_eqb k0 k') eqn:E1; [|reflexivity].
      apply key_eqb_eq in E1. subst k0. apply key_eqb_neq in E0.
      destruct (key_eqb k k') eqn:E2; [|reflexivity]. apply key_eqb_eq in E2. now elim E0.
Qed.

(* CommitMarkedOffsets (the commit tick, Plugin.Stop): every offset the group has committed afterwards was
   committed before or is a head kgo holds — by c10_mark_at_most_one_past_consumed offset + 1 and the epoch of a
   record Commit was called for. Nothing else ever reaches Kafka. *)
Theorem tick_commits_only_marks m : forall b c k h,
  lookup (fst (tick_marks m (b, c))) k = Some h ->
  lookup b k = Some h \/ In (k, h) m.
Proof.
  unfold tick_marks. induction m as [|[k0 h0] m IH]; intros b c k h L; cbn [fold_left] in L.
  - now left.
  - cbn [fst snd] in L.
    destruct (live c (k0, h0)).
    + apply IH in L. destruct L as [L|L]; [|right; now right].
      rewrite lookup_mark_set in L. destruct (key_eqb k0 k) eqn:E.
      * apply key_eqb_eq in E. subst k0. inversion L; subst. right. now left.
      * now left.
    + apply IH in L. destruct L as [L|L]; [now left | right; now right].
Qed.
