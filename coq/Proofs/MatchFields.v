(* Proofs about Model/MatchFields.v: the loops of isMatchOr / isMatchAnd (as repaired) compute the
   documented combination of the conditions. *)
From Verif Require Import Base.Sx Base.GoSem Base.Json Model.DoIf Model.MatchFields Proofs.DoIf.
From Coq Require Import Lia Permutation.

Section Legacy.
  Variable re_match : bytes -> bytes -> bool.

  Lemma value_exists_existsb vals s byp :
    value_exists vals s byp = existsb (fun v => if byp then has_prefix s v else bytes_eqb v s) vals.
  Proof. unfold value_exists. apply any_of_existsb. Qed.

  Lemma match_or_spec conds e byp :
    match_or re_match conds e byp = existsb (cond_holds re_match byp e) conds.
  Proof.
    induction conds as [|c r IH]; [reflexivity|]. cbn [match_or existsb]. unfold cond_holds at 1.
    destruct (jdig e (c_field c)) as [nd|]; [|exact IH].
    rewrite value_exists_existsb.
    destruct (regexp_hit re_match c (as_string nd)); [reflexivity|]. cbn [orb].
    destruct (existsb _ (c_values c)); [reflexivity|exact IH].
  Qed.

  Lemma match_and_spec conds e byp :
    match_and re_match conds e byp = forallb (cond_holds re_match byp e) conds.
  Proof.
    induction conds as [|c r IH]; [reflexivity|]. cbn [match_and forallb]. unfold cond_holds at 1.
    destruct (jdig e (c_field c)) as [nd|]; [|reflexivity].
    rewrite value_exists_existsb.
    destruct (regexp_hit re_match c (as_string nd)); [exact IH|]. cbn [orb].
    destruct (existsb _ (c_values c)); [exact IH|reflexivity].
  Qed.

  Theorem match_fields_spec mode invert conds e :
    is_match re_match mode invert conds e = match_spec re_match mode invert conds e.
  Proof.
    unfold is_match, match_spec. rewrite match_or_spec, match_and_spec.
    destruct invert, (is_or mode), (existsb (cond_holds re_match (by_prefix mode) e) conds),
      (forallb (cond_holds re_match (by_prefix mode) e) conds); reflexivity.
  Qed.

  (* Go iterates the match_fields map in random order: the decision does not depend on it *)
  Theorem match_fields_perm mode invert conds conds' e :
    Permutation conds conds' ->
    is_match re_match mode invert conds e = is_match re_match mode invert conds' e.
  Proof.
    intros HP. rewrite !match_fields_spec. unfold match_spec.
    rewrite (existsb_perm _ _ _ HP), (forallb_perm _ _ _ HP). reflexivity.
  Qed.

  (* the order of the values of one condition does not matter either *)
  Theorem cond_values_perm byp e f vs vs' re :
    Permutation vs vs' ->
    cond_holds re_match byp e {| c_field := f; c_values := vs; c_regexp := re |}
    = cond_holds re_match byp e {| c_field := f; c_values := vs'; c_regexp := re |}.
  Proof.
    intros HP. unfold cond_holds, regexp_hit. cbn [c_field c_values c_regexp].
    destruct (jdig e f); [|reflexivity]. rewrite (existsb_perm _ _ _ HP). reflexivity.
  Qed.
End Legacy.
