(* Proofs about Model/MatchFields.v: the loops of isMatchOr / isMatchAnd (as repaired) compute the
   documented combination of the conditions. *)
From Verif Require Import Base.Sx Base.GoSem Base.Json Model.DoIf Model.MatchFields Proofs.DoIf.
From Coq Require Import Lia Permutation.

Section Legacy.
  Variable re_match : bytes -> bytes -> bool.

  Lemma value_exists_existsb vals s byp :
    value_exists vals s byp = existsb (fun v => if byp then has_prefix s v else bytes_eqb v s) vals.
  Proof. unfold value_exists. apply any_of_existsb. Qed.

  Lemma match_or_spec conds e byp :
    match_or re_match conds e byp = existsb (cond_holds re_match byp e) conds.
  Proof.
    induction conds as [|c r IH]; [reflexivity|]. cbn [match_or existsb]. unfold cond_holds at 1.
    destruct (jdig e (c_field c)) as [nd|]; [|exact IH].
    rewrite value_exists_existsb.
    destruct (regexp_hit re_match c (as_string nd)); [reflexivity|]. cbn [orb].
    destruct (existsb _ (c_values c)); [reflexivity|exact IH].
  Qed.

  Lemma match_and_spec conds e byp :
    match_and re_match conds e byp = forallb (cond_holds re_match byp e) conds.
  Proof.
    induction conds as [|c r IH]; [reflexivity|]. cbn [match_and forallb]. unfold cond_holds at 1.
    destruct (jdig e (c_field c)) as [nd|]; [|reflexivity].
    rewrite value_exists_existsb.
    destruct (regexp_hit re_match c (as_string nd)); [exact IH|]. cbn [orb].
    destruct (existsb _ (c_values c)); [exact IH|reflexivity].
  Qed.

  Theorem match_fields_spec mode invert conds e :
    is_match re_match mode invert conds e = match_spec re_match mode invert conds e.
  Proof.
    unfold is_match, match_spec. rewrite match_or_spec, match_and_spec.
    destruct invert, (is_or mode), (existsb (cond_holds re_match (by_prefix mode) e) conds),
      (forallb (cond_holds re_match (by_prefix mode) e) conds); reflexivity.
  Qed.

  (* Go iterates the match_fields map in random order: the decision does not depend on it *)
  Theorem match_fields_perm mode invert conds conds' e :
    Permutation conds conds' ->
    is_match re_match mode invert conds e = is_match re_match mode invert conds' e.
  Proof.
    intros HP. rewrite !match_fields_spec. unfold match_spec.
    rewrite (existsb_perm _ _ _ HP), (forallb_perm _ _ _ HP). reflexivity.
  Qed.

  (* the order of the values of one condition does not matter either *)
  Theorem cond_values_perm byp e f vs vs' re :
    Permutation vs vs' ->
    cond_holds re_match byp e {| c_field := f; c_values := vs; c_regexp := re |}
    = cond_holds re_match byp e {| c_field := f; c_values := vs'; c_regexp := re |}.
  Proof.
    intros HP. unfold cond_holds, regexp_hit. cbn [c_field c_values c_regexp].
    destruct (jdig e f); [|reflexivity]. rewrite (existsb_perm _ _ _ HP). reflexivity.
  Qed.
End Legacy.

(* ---- fd/util.go extractConditions: the translation of a configured value is the documented one ------------ *)

Lemma json_strings_all_strings l vs :
  json_strings l = Some vs -> l = map JStr vs.
Proof.
  revert vs. induction l as [|x r IH]; intros vs H.
  - cbn in H. injection H as <-. reflexivity.
  - unfold json_strings in H. cbn [opt_map] in H.
    destruct x as [| | |s| |]; cbn [json_string] in H; try discriminate.
    fold (json_strings r) in H. destruct (json_strings r) as [ws|] eqn:E; [|discriminate].
    injection H as <-. cbn [map]. f_equal. apply IH. reflexivity.
Qed.

Lemma json_strings_map_JStr vs : json_strings (map JStr vs) = Some vs.
Proof.
  induction vs as [|v r IH]; [reflexivity|].
  unfold json_strings in *. cbn [map opt_map json_string]. rewrite IH. reflexivity.
Qed.

Lemma json_strings_some_iff l :
  forallb (fun x => isSome (json_string x)) l = isSome (json_strings l).
Proof.
  induction l as [|x r IH]; [reflexivity|].
  unfold json_strings in *. cbn [forallb opt_map].
  destruct (json_string x); cbn [isSome andb]; [|reflexivity].
  rewrite IH. destruct (opt_map json_string r); reflexivity.
Qed.

(* cfg.CompileRegex accepts exactly the strings  "/" ++ inner ++ "/"  whose inner part compiles *)
Lemma compile_regex_some re_ok s p :
  compile_regex re_ok s = Some p <-> s = 47%N :: p ++ [47%N] /\ re_ok p = true.
Proof.
  unfold compile_regex. split.
  - destruct s as [|c r]; [discriminate|].
    unfold is_slash. destruct (N.eqb_spec c 47) as [->|]; cbn [negb]; [|discriminate].
    destruct (rev r) as [|l ri] eqn:E; [discriminate|].
    destruct (N.eqb_spec l 47) as [->|]; [|discriminate].
    destruct (re_ok (rev ri)) eqn:Hok; [|discriminate].
    intros H. injection H as <-. split; [|exact Hok].
    f_equal. rewrite <- (rev_involutive r), E. reflexivity.
  - intros [-> Hok]. unfold is_slash. cbn [N.eqb Pos.eqb negb].
    rewrite rev_app_distr. cbn [rev app]. cbn [N.eqb Pos.eqb].
    rewrite rev_involutive, Hok. reflexivity.
Qed.

Lemma delimited_some s p : delimited s = Some p <-> s = 47%N :: p ++ [47%N].
Proof.
  unfold delimited. rewrite compile_regex_some. split; [intros [H _]; exact H|intros H; split; [exact H|reflexivity]].
Qed.

Lemma compile_regex_delimited re_ok s :
  compile_regex re_ok s = match delimited s with Some p => if re_ok p then Some p else None | None => None end.
Proof.
  unfold delimited, compile_regex. destruct s as [|c r]; [reflexivity|].
  destruct (negb (is_slash c)); [reflexivity|].
  destruct (rev r) as [|l ri]; [reflexivity|]. destruct (is_slash l); reflexivity.
Qed.

Lemma delimited_starts_with_slash s p : delimited s = Some p -> starts_with_slash s = true.
Proof. intros H. apply delimited_some in H. subst s. reflexivity. Qed.

(* the translation as coded is the documented kind of test, for every value *)
Theorem extract_value_documented re_ok v : extract_value re_ok v = doc_kind re_ok v.
Proof.
  destruct v as [| | |s|l|]; try reflexivity.
  unfold extract_value, doc_kind. destruct s as [|c r]; [reflexivity|].
  rewrite compile_regex_delimited. cbn [starts_with_slash].
  destruct (is_slash c) eqn:Hc.
  - destruct (delimited (c :: r)) as [p|]; [|reflexivity]. destruct (re_ok p); reflexivity.
  - destruct (delimited (c :: r)) as [p|] eqn:Hd; [|reflexivity].
    apply delimited_starts_with_slash in Hd. cbn [starts_with_slash] in Hd. congruence.
Qed.

(* a list is ALWAYS a list of exact values (prefixes), whatever its length and whatever its strings look like *)
Theorem extract_list_exact re_ok vs : extract_value re_ok (JArr (map JStr vs)) = CExact vs.
Proof. cbn [extract_value]. rewrite json_strings_map_JStr. reflexivity. Qed.

Theorem extract_list_never_regexp re_ok l p : extract_value re_ok (JArr l) <> CRegexp p.
Proof. cbn [extract_value]. destruct (json_strings l); discriminate. Qed.

(* only a scalar string delimited by slashes (whose inner part compiles) is a regular expression *)
Theorem extract_regexp_iff re_ok v p :
  extract_value re_ok v = CRegexp p <-> v = JStr (47%N :: p ++ [47%N]) /\ re_ok p = true.
Proof.
  split.
  - destruct v as [| | |s|l|]; try discriminate.
    + cbn [extract_value]. destruct s as [|c r]; [discriminate|].
      destruct (is_slash c); [|discriminate].
      destruct (compile_regex re_ok (c :: r)) as [q|] eqn:E; [|discriminate].
      intros H. injection H as ->. apply compile_regex_some in E. destruct E as [-> Hok]. split; [reflexivity|exact Hok].
    + intros H. exfalso. exact (extract_list_never_regexp _ _ _ H).
  - intros [-> Hok]. cbn [extract_value]. unfold is_slash at 1. cbn [N.eqb Pos.eqb].
    destruct (compile_regex re_ok (47%N :: p ++ [47%N])) as [q|] eqn:E.
    + apply compile_regex_some in E. destruct E as [E _]. injection E as E. apply app_inv_tail in E. subst q. reflexivity.
    + assert (H : compile_regex re_ok (47%N :: p ++ [47%N]) = Some p) by (apply compile_regex_some; split; [reflexivity|exact Hok]).
      congruence.
Qed.

(* every other scalar string is one exact value *)
Theorem extract_scalar_plain re_ok s :
  starts_with_slash s = false -> extract_value re_ok (JStr s) = CExact [s].
Proof.
  intros H. cbn [extract_value]. destruct s as [|c r]; [reflexivity|].
  cbn [starts_with_slash] in H. rewrite H. reflexivity.
Qed.

(* refusal: exactly the values that are neither a list of strings, nor a plain string, nor a /regexp/ that compiles *)
Theorem extract_refused_iff re_ok v :
  extract_value re_ok v = CRefused <-> cfg_accepted re_ok v = false.
Proof.
  rewrite extract_value_documented. destruct v as [| |r|s|l|fs]; cbn [doc_kind cfg_accepted]; try (split; reflexivity).
  - destruct (delimited s) as [p|].
    + destruct (re_ok p); split; (reflexivity || discriminate).
    + destruct (starts_with_slash s); cbn [negb]; split; (reflexivity || discriminate).
  - rewrite json_strings_some_iff. destruct (json_strings l); cbn [isSome]; split; (reflexivity || discriminate).
Qed.

Lemma extract_conds_accepts re_ok cfg :
  isSome (extract_conds re_ok cfg) = forallb (fun pv => cfg_accepted re_ok (snd pv)) cfg.
Proof.
  induction cfg as [|pv r IH]; [reflexivity|].
  unfold extract_conds in *. cbn [opt_map forallb].
  destruct (cfg_accepted re_ok (snd pv)) eqn:Ha.
  - destruct (extract_value re_ok (snd pv)) eqn:Ev.
    + cbn [cond_of_kind andb]. rewrite <- IH. destruct (opt_map _ r); reflexivity.
    + cbn [cond_of_kind andb]. rewrite <- IH. destruct (opt_map _ r); reflexivity.
    + apply extract_refused_iff in Ev. congruence.
  - apply extract_refused_iff in Ha. rewrite Ha. reflexivity.
Qed.

Section ConfigSpec.
  Variable re_match : bytes -> bytes -> bool.
  Variable re_ok : bytes -> bool.

  Lemma existsb_map_JStr byp s vs :
    existsb (fun x => match x with JStr w => lit_test byp s w | _ => false end) (map JStr vs)
    = existsb (fun v => if byp then has_prefix s v else bytes_eqb v s) vs.
  Proof. induction vs as [|v r IH]; [reflexivity|]. cbn [map existsb]. rewrite IH. reflexivity. Qed.

  (* one entry: the condition extractConditions builds holds exactly when the configured value does *)
  Lemma cond_holds_cfg byp e path v c :
    cond_of_kind path (extract_value re_ok v) = Some c ->
    cond_holds re_match byp e c = cfg_cond_holds re_match byp e (path, v).
  Proof.
    intros H. unfold cond_holds, cfg_cond_holds. cbn [fst snd].
    rewrite extract_value_documented in H.
    destruct v as [| |r|s|l|fs]; cbn [doc_kind cond_of_kind] in H; try discriminate.
    - (* scalar string *)
      unfold cfg_value_holds.
      destruct (delimited s) as [p|] eqn:Hd.
      + destruct (re_ok p); [|discriminate]. cbn [cond_of_kind] in H. injection H as <-.
        cbn [c_field c_values]. unfold regexp_hit. cbn [c_regexp existsb].
        destruct (jdig e path); [|reflexivity]. apply Bool.orb_false_r.
      + destruct (starts_with_slash s); [discriminate|]. cbn [cond_of_kind] in H. injection H as <-.
        cbn [c_field c_values]. unfold regexp_hit. cbn [c_regexp existsb orb].
        destruct (jdig e path); [|reflexivity]. unfold lit_test. apply Bool.orb_false_r.
    - (* list *)
      destruct (json_strings l) as [vs|] eqn:Hl; [|discriminate]. cbn [cond_of_kind] in H. injection H as <-.
      cbn [c_field c_values]. unfold regexp_hit. cbn [c_regexp orb].
      destruct (jdig e path); [|reflexivity].
      apply json_strings_all_strings in Hl. subst l. unfold cfg_value_holds. rewrite existsb_map_JStr. reflexivity.
  Qed.

  Lemma conds_hold_cfg byp e cfg conds :
    extract_conds re_ok cfg = Some conds ->
    existsb (cond_holds re_match byp e) conds = existsb (cfg_cond_holds re_match byp e) cfg
    /\ forallb (cond_holds re_match byp e) conds = forallb (cfg_cond_holds re_match byp e) cfg.
  Proof.
    revert conds. induction cfg as [|[path v] r IH]; intros conds H.
    - cbn in H. injection H as <-. split; reflexivity.
    - unfold extract_conds in H. cbn [opt_map fst snd] in H.
      destruct (cond_of_kind path (extract_value re_ok v)) as [c|] eqn:Ec; [|discriminate].
      fold (extract_conds re_ok r) in H. destruct (extract_conds re_ok r) as [cs|] eqn:Er; [|discriminate].
      injection H as <-. destruct (IH cs eq_refl) as [IHe IHf].
      cbn [existsb forallb]. rewrite (cond_holds_cfg byp e path v c Ec), IHe, IHf. split; reflexivity.
  Qed.

  (* END TO END: whenever the reader accepts a match_fields map, the decision isMatch takes with the conditions it built
     is the documented meaning of the map as written: a list = its strings as exact values / prefixes (whatever its
     length and content), a string between slashes = a regexp, any other string = itself; all / at least one of the
     fields; optional inversion *)
  Theorem config_match_spec mode invert cfg conds e :
    extract_conds re_ok cfg = Some conds ->
    is_match re_match mode invert conds e = cfg_spec re_match mode invert cfg e.
  Proof.
    intros H. rewrite match_fields_spec. unfold match_spec, cfg_spec.
    destruct (conds_hold_cfg (by_prefix mode) e cfg conds H) as [He Hf]. rewrite He, Hf. reflexivity.
  Qed.
End ConfigSpec.

(* a map whose values are all lists is decided without ever consulting the regexp engine: no string inside a list is
   read as a pattern, in any mode *)
Theorem config_lists_ignore_regexp re1 re2 re_ok mode invert cfg conds e :
  (forall pv, In pv cfg -> exists l, snd pv = JArr l) ->
  extract_conds re_ok cfg = Some conds ->
  is_match re1 mode invert conds e = is_match re2 mode invert conds e.
Proof.
  intros Hl H. rewrite (config_match_spec re1 re_ok _ _ _ _ _ H), (config_match_spec re2 re_ok _ _ _ _ _ H).
  unfold cfg_spec.
  assert (E : forall byp pv, In pv cfg -> cfg_cond_holds re1 byp e pv = cfg_cond_holds re2 byp e pv).
  { intros byp pv Hin. destruct (Hl pv Hin) as [l Hv]. unfold cfg_cond_holds. rewrite Hv.
    destruct (jdig e (fst pv)); reflexivity. }
  clear H Hl. f_equal.
  induction cfg as [|pv r IH]; [reflexivity|]. cbn [existsb forallb].
  rewrite (E (by_prefix mode) pv (or_introl eq_refl)).
  assert (IH' := IH (fun byp q Hq => E byp q (or_intror Hq))).
  destruct (is_or mode); rewrite IH'; reflexivity.
Qed.

(* ---- one rule shared by all processors: the rule is never written, every decision is history independent ---- *)
Lemma list_eqb_refl {A : Type} (eq : A -> A -> bool) :
  (forall x, eq x x = true) -> forall l, list_eqb eq l l = true.
Proof.
  intros Hr l. induction l as [|x r IH]; [reflexivity|]. cbn [list_eqb]. rewrite Hr, IH. reflexivity.
Qed.

Lemma list_eqb_eq {A : Type} (eq : A -> A -> bool) :
  (forall x y, eq x y = true -> x = y) -> forall a b, list_eqb eq a b = true -> a = b.
Proof.
  intros He a. induction a as [|x r IH]; intros [|y q] H; cbn [list_eqb] in H; try discriminate; [reflexivity|].
  apply andb_prop in H. destruct H as [H1 H2]. rewrite (He _ _ H1), (IH _ H2). reflexivity.
Qed.

Lemma cond_eqb_refl c : cond_eqb c c = true.
Proof.
  unfold cond_eqb. rewrite !(list_eqb_refl bytes_eqb bytes_eqb_refl). cbn [andb].
  destruct (c_regexp c); [apply bytes_eqb_refl|reflexivity].
Qed.

Lemma cond_eqb_eq a b : cond_eqb a b = true -> a = b.
Proof.
  destruct a as [fa va ra], b as [fb vb rb]. unfold cond_eqb. cbn [c_field c_values c_regexp]. intros H.
  apply andb_prop in H. destruct H as [H Hr]. apply andb_prop in H. destruct H as [Hf Hv].
  apply (list_eqb_eq bytes_eqb (fun x y Hxy => proj1 (bytes_eqb_eq x y) Hxy)) in Hf.
  apply (list_eqb_eq bytes_eqb (fun x y Hxy => proj1 (bytes_eqb_eq x y) Hxy)) in Hv.
  subst. destruct ra as [x|], rb as [y|]; try discriminate; [|reflexivity].
  apply bytes_eqb_eq in Hr. subst. reflexivity.
Qed.

Lemma bool_eqb_refl b : Bool.eqb b b = true.
Proof. destruct b; reflexivity. Qed.

Section Shared.
  Variable re_match : bytes -> bytes -> bool.

  (* evaluating a rule any number of times, on any events, leaves the configured rule behind *)
  Theorem shared_rule_unchanged mode invert rule es :
    snd (shared_run re_match mode invert rule es) = rule.
  Proof.
    induction es as [|e r IH]; [reflexivity|]. cbn [shared_run eval_step].
    destruct (shared_run re_match mode invert rule r) as [bs rule2]. exact IH.
  Qed.

  Lemma shared_decisions mode invert rule es :
    fst (shared_run re_match mode invert rule es) = map (match_spec re_match mode invert rule) es.
  Proof.
    induction es as [|e r IH]; [reflexivity|]. cbn [shared_run eval_step map].
    destruct (shared_run re_match mode invert rule r) as [bs rule2]. cbn [fst] in *.
    rewrite IH, match_fields_spec. reflexivity.
  Qed.

  (* history independence: in every sequence of evaluations of one shared rule (any interleaving of any number of
     processors is such a sequence), the decision for an event is the documented one for (configured rule, event),
     whatever was evaluated before or after it *)
  Theorem shared_history_independent mode invert rule pre e post :
    nth_error (fst (shared_run re_match mode invert rule (pre ++ e :: post))) (length pre)
    = Some (match_spec re_match mode invert rule e).
  Proof.
    rewrite shared_decisions, map_app. cbn [map].
    rewrite nth_error_app2; rewrite map_length; [|lia]. rewrite Nat.sub_diag. reflexivity.
  Qed.

  (* the model's run satisfies the predicate the harness' observation is judged by ... *)
  Theorem shared_run_ok mode invert rule es :
    shared_ok re_match mode invert rule es (fst (shared_run re_match mode invert rule es))
              (snd (shared_run re_match mode invert rule es)) = true.
  Proof.
    unfold shared_ok. rewrite shared_rule_unchanged, shared_decisions.
    rewrite (list_eqb_refl cond_eqb cond_eqb_refl), (list_eqb_refl Bool.eqb bool_eqb_refl). reflexivity.
  Qed.

  (* ... and the predicate means what it says: rule unchanged, every decision the documented one *)
  Theorem shared_ok_sound mode invert rule es decisions rule_after :
    shared_ok re_match mode invert rule es decisions rule_after = true ->
    rule_after = rule /\ decisions = map (match_spec re_match mode invert rule) es.
  Proof.
    unfold shared_ok. intros H. apply andb_prop in H. destruct H as [H1 H2]. split.
    - symmetry. exact (list_eqb_eq cond_eqb cond_eqb_eq _ _ H1).
    - exact (list_eqb_eq Bool.eqb (fun x y Hxy => proj1 (Bool.eqb_true_iff x y) Hxy) _ _ H2).
  Qed.
End Shared.
