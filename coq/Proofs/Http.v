From Verif Require Import Base.Sx Model.Http.
From Coq Require Import Lia Permutation.

(* proof-internal accumulator form of the line split (never executed) *)
Fixpoint split_acc (b acc : bytes) : list bytes * bytes :=
  match b with
  | [] => ([], acc)
  | c :: b' =>
      if N.eqb c NL then let '(ls, t) := split_acc b' [] in (acc :: ls, t)
      else split_acc b' (acc ++ [c])
  end.

Lemma split_acc_lines_tail b : forall acc,
  split_acc b acc = let '(ls, t) := lines_tail b in
                    match ls with [] => ([], acc ++ t) | l :: ls' => ((acc ++ l) :: ls', t) end.
Proof.
  induction b as [|c b IH]; intros acc; cbn [split_acc lines_tail].
  - rewrite app_nil_r. reflexivity.
  - destruct (N.eqb c NL).
    + rewrite IH. destruct (lines_tail b) as [ls t]. rewrite app_nil_r.
      destruct ls; reflexivity.
    + rewrite IH. destruct (lines_tail b) as [ls t].
      destruct ls; rewrite <- app_assoc; reflexivity.
Qed.

Lemma split_acc_nil b : split_acc b [] = lines_tail b.
Proof. rewrite split_acc_lines_tail. destruct (lines_tail b) as [ls t]. destruct ls; reflexivity. Qed.

Lemma scan_split rb : forall rcur eb,
  let '(evs, cur', eb') := scan rb rcur eb in
  evs = fst (split_acc rb (eb ++ rev rcur)) /\ eb' ++ cur' = snd (split_acc rb (eb ++ rev rcur)).
Proof.
  induction rb as [|c rb IH]; intros rcur eb; cbn [scan split_acc]; unfold rev_fast; rewrite <- ?rev_alt.
  - cbn. split; reflexivity.
  - destruct (N.eqb c NL) eqn:Hc.
    + specialize (IH [] []). destruct (scan rb [] []) as [[evs cur'] eb'].
      cbn [app rev] in IH. destruct IH as [IH1 IH2].
      destruct (split_acc rb []) as [ls t] eqn:Hs. cbn [fst snd] in *.
      split.
      * f_equal; [|exact IH1]. destruct eb; [reflexivity|reflexivity].
      * exact IH2.
    + specialize (IH (c :: rcur) eb). destruct (scan rb (c :: rcur) eb) as [[evs cur'] eb'].
      cbn [rev] in IH. rewrite app_assoc in IH. exact IH.
Qed.

Lemma process_chunk_false rb eb :
  process_chunk rb eb false = split_acc rb eb.
Proof.
  unfold process_chunk. pose proof (scan_split rb [] eb) as H.
  destruct (scan rb [] eb) as [[evs cur] eb']. cbn [rev] in H. rewrite app_nil_r in H.
  destruct H as [H1 H2]. destruct (split_acc rb eb) as [ls t]. cbn [fst snd] in *. subst. reflexivity.
Qed.

Lemma split_acc_app x : forall y acc,
  split_acc (x ++ y) acc =
  let '(l1, t) := split_acc x acc in let '(l2, t') := split_acc y t in (l1 ++ l2, t').
Proof.
  induction x as [|c x IH]; intros y acc; cbn [app split_acc].
  - destruct (split_acc y acc); reflexivity.
  - destruct (N.eqb c NL).
    + rewrite IH. destruct (split_acc x []) as [l1 t]. destruct (split_acc y t). reflexivity.
    + apply IH.
Qed.

Lemma bulk_loop_chunks chunks : forall eb,
  bulk_loop (map Chunk chunks) eb =
  (fst (split_acc (concat chunks) eb), snd (split_acc (concat chunks) eb), true).
Proof.
  induction chunks as [|c cs IH]; intros eb; cbn [map bulk_loop concat].
  - reflexivity.
  - rewrite process_chunk_false, split_acc_app.
    destruct (split_acc c eb) as [e1 eb1]. rewrite IH.
    destruct (split_acc (concat cs) eb1) as [e2 eb2]. reflexivity.
Qed.

Lemma process_chunk_last eb : process_chunk [] eb true = ([eb], []).
Proof. unfold process_chunk; cbn. rewrite app_nil_r. reflexivity. Qed.

Lemma process_bulk_rd_chunks chunks :
  process_bulk_rd (map Chunk chunks) = (split_body (concat chunks), true).
Proof.
  unfold process_bulk_rd, split_body. rewrite bulk_loop_chunks, split_acc_nil.
  destruct (lines_tail (concat chunks)) as [ls t]. cbn [fst snd].
  destruct t; [reflexivity|]. rewrite process_chunk_last. reflexivity.
Qed.

Lemma http_chunking chunks : process_bulk chunks = split_body (concat chunks).
Proof. unfold process_bulk. rewrite process_bulk_rd_chunks. reflexivity. Qed.

(* reads with no error are exactly a chunk list *)
Lemma no_err_chunks reads : no_err reads = true -> reads = map Chunk (chunks_of reads).
Proof.
  induction reads as [|r rs IH]; cbn; [reflexivity|].
  destruct r; cbn; [|discriminate]. intros H. f_equal. apply IH, H.
Qed.

Lemma bulk_loop_ok reads : forall eb evs eb', bulk_loop reads eb = (evs, eb', true) -> no_err reads = true.
Proof.
  induction reads as [|r rs IH]; intros eb evs eb' H; [reflexivity|].
  destruct r as [c|]; cbn [bulk_loop] in H; [|discriminate].
  destruct (process_chunk c eb false) as [e1 eb1].
  destruct (bulk_loop rs eb1) as [[e2 eb2] ok] eqn:Hl. inversion H; subst.
  cbn. eapply IH; eauto.
Qed.

Lemma http_ok_after_all_in reads evs :
  serve_bulk reads = (evs, 200) ->
  no_err reads = true /\ evs = split_body (concat (chunks_of reads)).
Proof.
  unfold serve_bulk. destruct (process_bulk_rd reads) as [e ok] eqn:Hp. intros H.
  assert (ok = true) by (destruct ok; [reflexivity|inversion H]). subst ok.
  inversion H; subst e; clear H.
  assert (Hn : no_err reads = true).
  { unfold process_bulk_rd in Hp. destruct (bulk_loop reads []) as [[e eb] ok] eqn:Hl.
    destruct ok; [eapply bulk_loop_ok; eauto|inversion Hp]. }
  split; [exact Hn|].
  rewrite (no_err_chunks _ Hn) in Hp. rewrite process_bulk_rd_chunks in Hp. congruence.
Qed.

(* an error: 400, and what was handed over are the complete lines of the bytes read before it *)
Fixpoint before_err (reads : list rd) : list bytes :=
  match reads with Chunk c :: r => c :: before_err r | _ => [] end.

Lemma bulk_loop_err reads : forall eb, no_err reads = false ->
  bulk_loop reads eb = (fst (split_acc (concat (before_err reads)) eb),
                        snd (split_acc (concat (before_err reads)) eb), false).
Proof.
  induction reads as [|r rs IH]; intros eb H; [discriminate|].
  destruct r as [c|]; cbn [bulk_loop before_err concat].
  - cbn in H. rewrite process_chunk_false, split_acc_app.
    destruct (split_acc c eb) as [e1 eb1]. rewrite (IH eb1 H).
    destruct (split_acc (concat (before_err rs)) eb1); reflexivity.
  - reflexivity.
Qed.

Lemma http_err_prefix reads :
  no_err reads = false ->
  serve_bulk reads = (fst (lines_tail (concat (before_err reads))), 400).
Proof.
  intros H. unfold serve_bulk, process_bulk_rd. rewrite (bulk_loop_err _ _ H), split_acc_nil. reflexivity.
Qed.

(* ---- the specification itself is the unique newline split -------------------------------- *)
Definition noNL (l : bytes) : Prop := ~ In NL l.

Lemma split_acc_spec b : forall acc, noNL acc ->
  let '(ls, t) := split_acc b acc in
  acc ++ b = concat (map (fun l => l ++ [NL]) ls) ++ t /\ Forall noNL ls /\ noNL t.
Proof.
  induction b as [|c b IH]; intros acc Hacc; cbn [split_acc].
  - cbn. rewrite app_nil_r. auto.
  - destruct (N.eqb c NL) eqn:Hc.
    + apply N.eqb_eq in Hc. subst c.
      specialize (IH [] (fun H => H)). destruct (split_acc b []) as [ls t].
      destruct IH as (E & F & T). cbn [map concat app] in *. split; [|split; auto].
      rewrite <- !app_assoc. cbn [app]. rewrite <- E. reflexivity.
    + apply N.eqb_neq in Hc.
      assert (Hacc' : noNL (acc ++ [c])).
      { unfold noNL. rewrite in_app_iff. cbn. intros [H|[H|[]]]; [apply Hacc, H|congruence]. }
      specialize (IH _ Hacc'). destruct (split_acc b (acc ++ [c])) as [ls t].
      rewrite <- app_assoc in IH. exact IH.
Qed.

Lemma split_body_spec b :
  exists ls t, b = concat (map (fun l => l ++ [NL]) ls) ++ t /\ Forall noNL ls /\ noNL t /\
               split_body b = ls ++ (match t with [] => [] | _ => [t] end).
Proof.
  unfold split_body. pose proof (split_acc_spec b [] (fun H => H)) as H. rewrite split_acc_nil in H.
  destruct (lines_tail b) as [ls t]. destruct H as (E & F & T).
  exists ls, t. repeat split; auto. destruct t; [rewrite app_nil_r|]; reflexivity.
Qed.

(* such a decomposition is unique, so split_body is THE newline split *)
Lemma nl_split_unique : forall ls1 t1 ls2 t2,
  Forall noNL ls1 -> noNL t1 -> Forall noNL ls2 -> noNL t2 ->
  concat (map (fun l => l ++ [NL]) ls1) ++ t1 = concat (map (fun l => l ++ [NL]) ls2) ++ t2 ->
  ls1 = ls2 /\ t1 = t2.
Proof.
  assert (Hline : forall (l1 l2 r1 r2 : bytes), noNL l1 -> noNL l2 ->
            l1 ++ NL :: r1 = l2 ++ NL :: r2 -> l1 = l2 /\ r1 = r2).
  { induction l1 as [|a l1 IH]; intros l2 r1 r2 H1 H2 E.
    - destruct l2 as [|b l2]; cbn in E; [inversion E; auto|].
      inversion E; subst. exfalso. apply H2. left; reflexivity.
    - destruct l2 as [|b l2]; cbn in E.
      + inversion E; subst. exfalso. apply H1. left; reflexivity.
      + inversion E; subst.
        destruct (IH l2 r1 r2) as [A B]; auto.
        * intros H; apply H1; right; exact H.
        * intros H; apply H2; right; exact H.
        * subst; auto. }
  assert (Htail : forall (t l r : bytes), noNL t -> t = l ++ NL :: r -> False).
  { intros t l r Ht E. apply Ht. rewrite E, in_app_iff. right; left; reflexivity. }
  induction ls1 as [|l1 ls1 IH]; intros t1 ls2 t2 F1 T1 F2 T2 E.
  - destruct ls2 as [|l2 ls2]; cbn in E; [auto|].
    exfalso. rewrite <- !app_assoc in E. cbn in E. exact (Htail _ _ _ T1 E).
  - destruct ls2 as [|l2 ls2]; cbn [map concat] in E.
    + exfalso. cbn in E. rewrite <- !app_assoc in E. cbn in E. symmetry in E. exact (Htail _ _ _ T2 E).
    + rewrite <- !app_assoc in E. cbn [app] in E.
      inversion F1; subst. inversion F2; subst.
      destruct (Hline _ _ _ _ H1 H3 E) as [A B]. subst.
      destruct (IH t1 ls2 t2) as [C D]; auto. subst; auto.
Qed.

(* ---- source ids ------------------------------------------------------------------------- *)
Definition id_inv (p : idpool) : Prop :=
  NoDup (free p ++ held p) /\ Forall (fun x => x < seq p) (free p ++ held p).

Lemma remove_nth_incl {A} k (l : list A) x : In x (remove_nth k l) -> In x l.
Proof.
  revert k; induction l as [|a l IH]; intros k H; [destruct k; exact H|].
  destruct k; cbn in *; [right; exact H|]. destruct H; [left; exact H|right; eapply IH; eauto].
Qed.

Lemma remove_nth_split {A} k (l : list A) x :
  nth_error l k = Some x -> exists a b, l = a ++ x :: b /\ remove_nth k l = a ++ b.
Proof.
  revert k; induction l as [|y l IH]; intros k H; [destruct k; discriminate|].
  destruct k; cbn in *.
  - inversion H; subst. exists [], l. auto.
  - destruct (IH _ H) as (a & b & E1 & E2). exists (y :: a), b. cbn. rewrite E1 at 1. rewrite E2. auto.
Qed.

Lemma perm_last (l h : list Z) : l <> [] ->
  Permutation (removelast l ++ h ++ [last l 0]) (l ++ h).
Proof.
  intros Hne. rewrite (app_removelast_last 0 Hne) at 3.
  rewrite <- !app_assoc. apply Permutation_app_head. cbn [app].
  apply Permutation_sym, Permutation_cons_append.
Qed.

Lemma id_step_perm p o :
  let p' := fst (id_step p o) in
  (exists extra, Permutation (free p' ++ held p') (extra ++ free p ++ held p) /\
                 ((extra = [] /\ seq p' = seq p) \/ (extra = [seq p] /\ seq p' = seq p + 1 /\ free p = []))).
Proof.
  destruct o as [|k]; cbn [id_step].
  - destruct (free p) as [|f fr] eqn:Hf; cbn [fst free held seq].
    + exists [seq p]. split; [|right; auto].
      cbn [last removelast app]. apply Permutation_sym, Permutation_cons_append.
    + exists []. split; [|left; auto]. cbn [app].
      apply (perm_last (f :: fr) (held p)). discriminate.
  - destruct (nth_error (held p) k) as [x|] eqn:Hk; cbn [fst free held seq].
    + exists []. split; [|left; auto]. cbn [app].
      destruct (remove_nth_split _ _ _ Hk) as (a & b & E1 & E2). rewrite E2, E1.
      rewrite <- app_assoc. apply Permutation_app_head. cbn [app].
      apply Permutation_middle.
    + exists []. split; [reflexivity|left; auto].
Qed.

Lemma id_step_inv p o : id_inv p -> id_inv (fst (id_step p o)).
Proof.
  intros [ND LT]. destruct (id_step_perm p o) as (extra & P & [[E S]|(E & S & F)]); subst extra.
  - split.
    + eapply Permutation_NoDup; [apply Permutation_sym, P|exact ND].
    + rewrite S. eapply Permutation_Forall; [apply Permutation_sym, P|exact LT].
  - split.
    + eapply Permutation_NoDup; [apply Permutation_sym, P|]. cbn [app]. constructor; [|exact ND].
      intros H. rewrite Forall_forall in LT. specialize (LT _ H). lia.
    + rewrite S. eapply Permutation_Forall; [apply Permutation_sym, P|]. cbn [app].
      constructor; [lia|]. eapply Forall_impl; [|exact LT]. cbn; intros; lia.
Qed.

Lemma id_run_inv ops : forall p, id_inv p -> id_inv (fst (id_run p ops)).
Proof.
  induction ops as [|o r IH]; intros p H; cbn [id_run]; [exact H|].
  pose proof (id_step_inv p o H) as H1. destruct (id_step p o) as [p1 x]. cbn [fst] in H1.
  specialize (IH p1 H1). destruct (id_run p1 r) as [p2 xs]. exact IH.
Qed.

Lemma id_inv0 : id_inv idpool0.
Proof. split; cbn; constructor. Qed.

Lemma NoDup_app_inv {A} (a b : list A) :
  NoDup (a ++ b) -> NoDup a /\ NoDup b /\ (forall x, In x a -> ~ In x b).
Proof.
  induction a as [|y a IH]; cbn; intros H.
  - repeat split; [constructor|exact H|intros x []].
  - inversion H as [|? ? Hn Hd]; subst. destruct (IH Hd) as (Ha & Hb & Hx).
    repeat split; auto.
    + constructor; auto. intros Hi. apply Hn. apply in_or_app; auto.
    + intros x [E|Hi]; [subst; intros Hi; apply Hn, in_or_app; auto|apply Hx, Hi].
Qed.

(* no two requests in progress ever hold the same source id, and no held id is in the free list *)
Lemma http_sourceid_exclusive ops :
  let p := fst (id_run idpool0 ops) in
  NoDup (held p) /\ (forall x, In x (held p) -> ~ In x (free p)).
Proof.
  cbn. destruct (id_run_inv ops _ id_inv0) as [ND _].
  destruct (NoDup_app_inv _ _ ND) as (_ & Hh & Hx). split; [exact Hh|].
  intros x H1 H2. exact (Hx x H2 H1).
Qed.
