From Verif Require Import Base.Sx Model.Http.
From Coq Require Import Lia Permutation Bool.

(* proof-internal accumulator form of the line split (never executed) *)
Fixpoint split_acc (b acc : bytes) : list bytes * bytes :=
  match b with
  | [] => ([], acc)
  | c :: b' =>
      if N.eqb c NL then let '(ls, t) := split_acc b' [] in (acc :: ls, t)
      else split_acc b' (acc ++ [c])
  end.

Lemma split_acc_lines_tail b : forall acc,
  split_acc b acc = let '(ls, t) := lines_tail b in
                    match ls with [] => ([], acc ++ t) | l :: ls' => ((acc ++ l) :: ls', t) end.
Proof.
  induction b as [|c b IH]; intros acc; cbn [split_acc lines_tail].
  - rewrite app_nil_r. reflexivity.
  - destruct (N.eqb c NL).
    + rewrite IH. destruct (lines_tail b) as [ls t]. rewrite app_nil_r.
      destruct ls; reflexivity.
    + rewrite IH. destruct (lines_tail b) as [ls t].
      destruct ls; rewrite <- app_assoc; reflexivity.
Qed.

Lemma split_acc_nil b : split_acc b [] = lines_tail b.
Proof. rewrite split_acc_lines_tail. destruct (lines_tail b) as [ls t]. destruct ls; reflexivity. Qed.

Lemma scan_split rb : forall rcur eb,
  let '(evs, cur', eb') := scan rb rcur eb in
  evs = fst (split_acc rb (eb ++ rev rcur)) /\ eb' ++ cur' = snd (split_acc rb (eb ++ rev rcur)).
Proof.
  induction rb as [|c rb IH]; intros rcur eb; cbn [scan split_acc]; unfold rev_fast; rewrite <- ?rev_alt.
  - cbn. split; reflexivity.
  - destruct (N.eqb c NL) eqn:Hc.
    + specialize (IH [] []). destruct (scan rb [] []) as [[evs cur'] eb'].
      cbn [app rev] in IH. destruct IH as [IH1 IH2].
      destruct (split_acc rb []) as [ls t] eqn:Hs. cbn [fst snd] in *.
      split.
      * f_equal; [|exact IH1]. destruct eb; [reflexivity|reflexivity].
      * exact IH2.
    + specialize (IH (c :: rcur) eb). destruct (scan rb (c :: rcur) eb) as [[evs cur'] eb'].
      cbn [rev] in IH. rewrite app_assoc in IH. exact IH.
Qed.

Lemma process_chunk_false rb eb :
  process_chunk rb eb false = split_acc rb eb.
Proof.
  unfold process_chunk. pose proof (scan_split rb [] eb) as H.
  destruct (scan rb [] eb) as [[evs cur] eb']. cbn [rev] in H. rewrite app_nil_r in H.
  destruct H as [H1 H2]. destruct (split_acc rb eb) as [ls t]. cbn [fst snd] in *. subst. reflexivity.
Qed.

Lemma split_acc_app x : forall y acc,
  split_acc (x ++ y) acc =
  let '(l1, t) := split_acc x acc in let '(l2, t') := split_acc y t in (l1 ++ l2, t').
Proof.
  induction x as [|c x IH]; intros y acc; cbn [app split_acc].
  - destruct (split_acc y acc); reflexivity.
  - destruct (N.eqb c NL).
    + rewrite IH. destruct (split_acc x []) as [l1 t]. destruct (split_acc y t). reflexivity.
    + apply IH.
Qed.

Lemma bulk_loop_chunks chunks : forall eb,
  bulk_loop (map Chunk chunks) eb =
  (fst (split_acc (concat chunks) eb), snd (split_acc (concat chunks) eb), true).
Proof.
  induction chunks as [|c cs IH]; intros eb; cbn [map bulk_loop concat].
  - reflexivity.
  - rewrite process_chunk_false, split_acc_app.
    destruct (split_acc c eb) as [e1 eb1]. rewrite IH.
    destruct (split_acc (concat cs) eb1) as [e2 eb2]. reflexivity.
Qed.

Lemma process_chunk_last eb : process_chunk [] eb true = ([eb], []).
Proof. unfold process_chunk; cbn. rewrite app_nil_r. reflexivity. Qed.

Lemma process_bulk_rd_chunks chunks :
  process_bulk_rd (map Chunk chunks) = (split_body (concat chunks), true).
Proof.
  unfold process_bulk_rd, split_body. rewrite bulk_loop_chunks, split_acc_nil.
  destruct (lines_tail (concat chunks)) as [ls t]. cbn [fst snd].
  destruct t; [reflexivity|]. rewrite process_chunk_last. reflexivity.
Qed.

Lemma http_chunking chunks : process_bulk chunks = split_body (concat chunks).
Proof. unfold process_bulk. rewrite process_bulk_rd_chunks. reflexivity. Qed.

(* reads with no error are exactly a chunk list *)
Lemma no_err_chunks reads : no_err reads = true -> reads = map Chunk (chunks_of reads).
Proof.
  induction reads as [|r rs IH]; cbn; [reflexivity|].
  destruct r; cbn; [|discriminate]. intros H. f_equal. apply IH, H.
Qed.

Lemma bulk_loop_ok reads : forall eb evs eb', bulk_loop reads eb = (evs, eb', true) -> no_err reads = true.
Proof.
  induction reads as [|r rs IH]; intros eb evs eb' H; [reflexivity|].
  destruct r as [c|]; cbn [bulk_loop] in H; [|discriminate].
  destruct (process_chunk c eb false) as [e1 eb1].
  destruct (bulk_loop rs eb1) as [[e2 eb2] ok] eqn:Hl. inversion H; subst.
  cbn. eapply IH; eauto.
Qed.

Lemma http_ok_after_all_in reads evs :
  serve_bulk reads = (evs, 200) ->
  no_err reads = true /\ evs = split_body (concat (chunks_of reads)).
Proof.
  unfold serve_bulk. destruct (process_bulk_rd reads) as [e ok] eqn:Hp. intros H.
  assert (ok = true) by (destruct ok; [reflexivity|inversion H]). subst ok.
  inversion H; subst e; clear H.
  assert (Hn : no_err reads = true).
  { unfold process_bulk_rd in Hp. destruct (bulk_loop reads []) as [[e eb] ok] eqn:Hl.
    destruct ok; [eapply bulk_loop_ok; eauto|inversion Hp]. }
  split; [exact Hn|].
  rewrite (no_err_chunks _ Hn) in Hp. rewrite process_bulk_rd_chunks in Hp. congruence.
Qed.

(* an error: 400, and what was handed over are the complete lines of the bytes read before it *)
Fixpoint before_err (reads : list rd) : list bytes :=
  match reads with Chunk c :: r => c :: before_err r | _ => [] end.

Lemma bulk_loop_err reads : forall eb, no_err reads = false ->
  bulk_loop reads eb = (fst (split_acc (concat (before_err reads)) eb),
                        snd (split_acc (concat (before_err reads)) eb), false).
Proof.
  induction reads as [|r rs IH]; intros eb H; [discriminate|].
  destruct r as [c|]; cbn [bulk_loop before_err concat].
  - cbn in H. rewrite process_chunk_false, split_acc_app.
    destruct (split_acc c eb) as [e1 eb1]. rewrite (IH eb1 H).
    destruct (split_acc (concat (before_err rs)) eb1); reflexivity.
  - reflexivity.
Qed.

Lemma http_err_prefix reads :
  no_err reads = false ->
  serve_bulk reads = (fst (lines_tail (concat (before_err reads))), 400).
Proof.
  intros H. unfold serve_bulk, process_bulk_rd. rewrite (bulk_loop_err _ _ H), split_acc_nil. reflexivity.
Qed.

(* ---- the specification itself is the unique newline split -------------------------------- *)
Definition noNL (l : bytes) : Prop := ~ In NL l.

Lemma split_acc_spec b : forall acc, noNL acc ->
  let '(ls, t) := split_acc b acc in
  acc ++ b = concat (map (fun l => l ++ [NL]) ls) ++ t /\ Forall noNL ls /\ noNL t.
Proof.
  induction b as [|c b IH]; intros acc Hacc; cbn [split_acc].
  - cbn. rewrite app_nil_r. auto.
  - destruct (N.eqb c NL) eqn:Hc.
    + apply N.eqb_eq in Hc. subst c.
      specialize (IH [] (fun H => H)). destruct (split_acc b []) as [ls t].
      destruct IH as (E & F & T). cbn [map concat app] in *. split; [|split; auto].
      rewrite <- !app_assoc. cbn [app]. rewrite <- E. reflexivity.
    + apply N.eqb_neq in Hc.
      assert (Hacc' : noNL (acc ++ [c])).
      { unfold noNL. rewrite in_app_iff. cbn. intros [H|[H|[]]]; [apply Hacc, H|congruence]. }
      specialize (IH _ Hacc'). destruct (split_acc b (acc ++ [c])) as [ls t].
      rewrite <- app_assoc in IH. exact IH.
Qed.

Lemma split_body_spec b :
  exists ls t, b = concat (map (fun l => l ++ [NL]) ls) ++ t /\ Forall noNL ls /\ noNL t /\
               split_body b = ls ++ (match t with [] => [] | _ => [t] end).
Proof.
  unfold split_body. pose proof (split_acc_spec b [] (fun H => H)) as H. rewrite split_acc_nil in H.
  destruct (lines_tail b) as [ls t]. destruct H as (E & F & T).
  exists ls, t. repeat split; auto. destruct t; [rewrite app_nil_r|]; reflexivity.
Qed.

(* such a decomposition is unique, so split_body is THE newline split *)
Lemma nl_split_unique : forall ls1 t1 ls2 t2,
  Forall noNL ls1 -> noNL t1 -> Forall noNL ls2 -> noNL t2 ->
  concat (map (fun l => l ++ [NL]) ls1) ++ t1 = concat (map (fun l => l ++ [NL]) ls2) ++ t2 ->
  ls1 = ls2 /\ t1 = t2.
Proof.
  assert (Hline : forall (l1 l2 r1 r2 : bytes), noNL l1 -> noNL l2 ->
            l1 ++ NL :: r1 = l2 ++ NL :: r2 -> l1 = l2 /\ r1 = r2).
  { induction l1 as [|a l1 IH]; intros l2 r1 r2 H1 H2 E.
    - destruct l2 as [|b l2]; cbn in E; [inversion E; auto|].
      inversion E; subst. exfalso. apply H2. left; reflexivity.
    - destruct l2 as [|b l2]; cbn in E.
      + inversion E; subst. exfalso. apply H1. left; reflexivity.
      + inversion E; subst.
        destruct (IH l2 r1 r2) as [A B]; auto.
        * intros H; apply H1; right; exact H.
        * intros H; apply H2; right; exact H.
        * subst; auto. }
  assert (Htail : forall (t l r : bytes), noNL t -> t = l ++ NL :: r -> False).
  { intros t l r Ht E. apply Ht. rewrite E, in_app_iff. right; left; reflexivity. }
  induction ls1 as [|l1 ls1 IH]; intros t1 ls2 t2 F1 T1 F2 T2 E.
  - destruct ls2 as [|l2 ls2]; cbn in E; [auto|].
    exfalso. rewrite <- !app_assoc in E. cbn in E. exact (Htail _ _ _ T1 E).
  - destruct ls2 as [|l2 ls2]; cbn [map concat] in E.
    + exfalso. cbn in E. rewrite <- !app_assoc in E. cbn in E. symmetry in E. exact (Htail _ _ _ T2 E).
    + rewrite <- !app_assoc in E. cbn [app] in E.
      inversion F1; subst. inversion F2; subst.
      destruct (Hline _ _ _ _ H1 H3 E) as [A B]. subst.
      destruct (IH t1 ls2 t2) as [C D]; auto. subst; auto.
Qed.

(* ---- source ids ------------------------------------------------------------------------- *)
Definition id_inv (p : idpool) : Prop :=
  NoDup (free p ++ held p) /\ Forall (fun x => x < seq p) (free p ++ held p).

Lemma remove_nth_incl {A} k (l : list A) x : In x (remove_nth k l) -> In x l.
Proof.
  revert k; induction l as [|a l IH]; intros k H; [destruct k; exact H|].
  destruct k; cbn in *; [right; exact H|]. destruct H; [left; exact H|right; eapply IH; eauto].
Qed.

Lemma remove_nth_split {A} k (l : list A) x :
  nth_error l k = Some x -> exists a b, l = a ++ x :: b /\ remove_nth k l = a ++ b.
Proof.
  revert k; induction l as [|y l IH]; intros k H; [destruct k; discriminate|].
  destruct k; cbn in *.
  - inversion H; subst. exists [], l. auto.
  - destruct (IH _ H) as (a & b & E1 & E2). exists (y :: a), b. cbn. rewrite E1 at 1. rewrite E2. auto.
Qed.

Lemma perm_last (l h : list Z) : l <> [] ->
  Permutation (removelast l ++ h ++ [last l 0]) (l ++ h).
Proof.
  intros Hne. rewrite (app_removelast_last 0 Hne) at 3.
  rewrite <- !app_assoc. apply Permutation_app_head. cbn [app].
  apply Permutation_sym, Permutation_cons_append.
Qed.

Lemma id_step_perm p o :
  let p' := fst (id_step p o) in
  (exists extra, Permutation (free p' ++ held p') (extra ++ free p ++ held p) /\
                 ((extra = [] /\ seq p' = seq p) \/ (extra = [seq p] /\ seq p' = seq p + 1 /\ free p = []))).
Proof.
  destruct o as [|k]; cbn [id_step].
  - destruct (free p) as [|f fr] eqn:Hf; cbn [fst free held seq].
    + exists [seq p]. split; [|right; auto].
      cbn [last removelast app]. apply Permutation_sym, Permutation_cons_append.
    + exists []. split; [|left; auto]. cbn [app].
      apply (perm_last (f :: fr) (held p)). discriminate.
  - destruct (nth_error (held p) k) as [x|] eqn:Hk; cbn [fst free held seq].
    + exists []. split; [|left; auto]. cbn [app].
      destruct (remove_nth_split _ _ _ Hk) as (a & b & E1 & E2). rewrite E2, E1.
      rewrite <- app_assoc. apply Permutation_app_head. cbn [app].
      apply Permutation_middle.
    + exists []. split; [reflexivity|left; auto].
Qed.

Lemma id_step_inv p o : id_inv p -> id_inv (fst (id_step p o)).
Proof.
  intros [ND LT]. destruct (id_step_perm p o) as (extra & P & [[E S]|(E & S & F)]); subst extra.
  - split.
    + eapply Permutation_NoDup; [apply Permutation_sym, P|exact ND].
    + rewrite S. eapply Permutation_Forall; [apply Permutation_sym, P|exact LT].
  - split.
    + eapply Permutation_NoDup; [apply Permutation_sym, P|]. cbn [app]. constructor; [|exact ND].
      intros H. rewrite Forall_forall in LT. specialize (LT _ H). lia.
    + rewrite S. eapply Permutation_Forall; [apply Permutation_sym, P|]. cbn [app].
      constructor; [lia|]. eapply Forall_impl; [|exact LT]. cbn; intros; lia.
Qed.

Lemma id_run_inv ops : forall p, id_inv p -> id_inv (fst (id_run p ops)).
Proof.
  induction ops as [|o r IH]; intros p H; cbn [id_run]; [exact H|].
  pose proof (id_step_inv p o H) as H1. destruct (id_step p o) as [p1 x]. cbn [fst] in H1.
  specialize (IH p1 H1). destruct (id_run p1 r) as [p2 xs]. exact IH.
Qed.

Lemma id_inv0 : id_inv idpool0.
Proof. split; cbn; constructor. Qed.

Lemma NoDup_app_inv {A} (a b : list A) :
  NoDup (a ++ b) -> NoDup a /\ NoDup b /\ (forall x, In x a -> ~ In x b).
Proof.
  induction a as [|y a IH]; cbn; intros H.
  - repeat split; [constructor|exact H|intros x []].
  - inversion H as [|? ? Hn Hd]; subst. destruct (IH Hd) as (Ha & Hb & Hx).
    repeat split; auto.
    + constructor; auto. intros Hi. apply Hn. apply in_or_app; auto.
    + intros x [E|Hi]; [subst; intros Hi; apply Hn, in_or_app; auto|apply Hx, Hi].
Qed.

(* no two requests in progress ever hold the same source id, and no held id is in the free list *)
Lemma http_sourceid_exclusive ops :
  let p := fst (id_run idpool0 ops) in
  NoDup (held p) /\ (forall x, In x (held p) -> ~ In x (free p)).
Proof.
  cbn. destruct (id_run_inv ops _ id_inv0) as [ND _].
  destruct (NoDup_app_inv _ _ ND) as (_ & Hh & Hx). split; [exact Hh|].
  intros x H1 H2. exact (Hx x H2 H1).
Qed.

(* ---- which = 8: what a verdict of the gated histories means ---------------------------------------------- *)
Lemma http_sx_eqb_sound : forall a b, sx_eqb a b = true -> a = b.
Proof.
  fix IH 1. intros a b. destruct a as [x|x|x]; destruct b as [y|y|y]; cbn [sx_eqb]; try discriminate.
  - intros H. apply Z.eqb_eq in H. now subst.
  - revert y. induction x as [|p x IHx]; intros [|q y]; cbn; try discriminate; [reflexivity|].
    intros H. apply andb_true_iff in H. destruct H as [H1 H2]. apply N.eqb_eq in H1. subst.
    specialize (IHx y H2). now inversion IHx.
  - revert y. induction x as [|p x IHx]; intros [|q y]; try discriminate; [reflexivity|].
    intros H. apply andb_true_iff in H. destruct H as [H1 H2].
    apply IH in H1. subst. specialize (IHx y H2). now inversion IHx.
Qed.

(* what the judge of the gated histories (which = 8) accepts for one request *)
Definition gated_req_ok (r o : sx) : Prop :=
  exists gz reads parks rds evs st,
    r = SL [SZ gz; reads; SL parks] /\ as_list rd_of_sx reads = Some rds /\ o = SL [SL evs; SZ st] /\
    (st = 200 -> no_err rds = true /\ evs = map SB (split_body (concat (chunks_of rds)))) /\
    (st <> 200 -> no_err rds = false).

Lemma c11_pred_meaning reads rds o :
  as_list rd_of_sx reads = Some rds -> c11_pred reads o = true ->
  exists evs st, o = SL [SL evs; SZ st] /\
    (st = 200 -> no_err rds = true /\ evs = map SB (split_body (concat (chunks_of rds)))) /\
    (st <> 200 -> no_err rds = false).
Proof.
  intros Hr H. unfold c11_pred in H. rewrite Hr in H.
  destruct o as [?|?|[|[?|?|evs] [|[st|?|?] [|? ?]]]]; try discriminate.
  exists evs, st. split; [reflexivity|].
  destruct (Z.eqb st 200) eqn:E.
  - apply Z.eqb_eq in E. apply andb_prop in H as [H1 H2]. apply http_sx_eqb_sound in H2.
    split; [|intros; contradiction]. intros _. split; [exact H1|]. now inversion H2.
  - apply Z.eqb_neq in E. apply negb_true_iff in H. split; [intros; contradiction|]. intros _. exact H.
Qed.

Lemma gated_one_meaning r o m : gated_one r o = Some (m, true) -> gated_req_ok r o.
Proof.
  unfold gated_one.
  destruct r as [?|?|[|[gz|?|?] [|reads [|[?|?|parks] [|? ?]]]]]; try discriminate.
  destruct (gated_reads_ok gz reads && all_ints parks); [|discriminate].
  destruct (c11_model reads) as [m'|] eqn:Hm; [|discriminate].
  intros H. inversion H as [[Hm' Hp]]; subst m'; clear H.
  unfold c11_model in Hm. destruct (as_list rd_of_sx reads) as [rds|] eqn:Hr; [|discriminate].
  destruct (c11_pred_meaning _ _ _ Hr Hp) as (evs & st & Ho & H1 & H2).
  exists gz, reads, parks, rds, evs, st. auto.
Qed.

Lemma pairs_go_true f : forall rs os ms, pairs_go f rs os = Some (ms, true) ->
  Forall2 (fun r o => exists m, f r o = Some (m, true)) rs os.
Proof.
  induction rs as [|r rs IH]; intros os ms H; destruct os as [|o os]; cbn [pairs_go] in H; try discriminate.
  - constructor.
  - destruct (f r o) as [[m ok]|] eqn:Hf; [|discriminate].
    destruct (pairs_go f rs os) as [[ms' oks]|] eqn:Hg; [|discriminate].
    inversion H; subst. apply andb_prop in H2 as [-> ->].
    constructor; [exists m; exact Hf|eapply IH; exact Hg].
Qed.

(* a verdict Agree / Differ on a gated history means: whatever GOMAXPROCS, the park positions, the order in which the
   requests ran / were released and the poison steps were, every request answered 200 delivered - as the controller
   read it AFTER its gate was released - exactly the newline split of ITS OWN body, and no request whose reads all
   succeeded was answered anything but 200 *)
Lemma gated_verdict_sound case obs :
  (c11_gated_run case obs = Agree \/ exists m, c11_gated_run case obs = Differ m) ->
  exists cfg reqs steps outs,
    case = SL [SL cfg; SL reqs; SL steps] /\ obs = SL outs /\ Forall2 gated_req_ok reqs outs.
Proof.
  intros H. unfold c11_gated_run in H.
  destruct case as [?|?|[|[?|?|cfg] [|[?|?|reqs] [|[?|?|steps] [|? ?]]]]];
    try (destruct H as [H|[m H]]; discriminate).
  destruct (all_ints cfg && all_ints steps); [|destruct H as [H|[m H]]; discriminate].
  unfold pairs_run in H. destruct obs as [?|?|outs]; try (destruct H as [H|[m H]]; discriminate).
  destruct (pairs_go gated_one reqs outs) as [[ms ok]|] eqn:Hg; [|destruct H as [H|[m H]]; discriminate].
  destruct ok; [|destruct H as [H|[m H]]; discriminate].
  exists cfg, reqs, steps, outs. repeat split.
  pose proof (pairs_go_true _ _ _ _ Hg) as F. clear Hg H.
  induction F as [|r o rs os [m Hm] F IH]; constructor; [eapply gated_one_meaning; exact Hm|exact IH].
Qed.


(* ---- buffer-level machine: no request ever sees bytes another one wrote ----------------------- *)
Lemma get2_set2_same {A} (t : two A) s x : get2 (set2 t s x) s = x.
Proof. destruct s; reflexivity. Qed.
Lemma get2_set2_other {A} (t : two A) s s' x : s <> s' -> get2 (set2 t s x) s' = get2 t s'.
Proof. destruct s, s'; intros H; try reflexivity; congruence. Qed.
Lemma slot_dec (a b : slot) : a = b \/ a <> b.
Proof. destruct a, b; (left; reflexivity) || (right; discriminate). Qed.
Lemma upd_same {A} (f : nat -> A) k x : upd f k x k = x.
Proof. unfold upd. rewrite Nat.eqb_refl. reflexivity. Qed.
Lemma upd_other {A} (f : nat -> A) k x j : j <> k -> upd f k x j = f j.
Proof. unfold upd. intros H. apply Nat.eqb_neq in H. rewrite H. reflexivity. Qed.
Lemma upd_cases {A} (f : nat -> A) k x j :
  (j = k /\ upd f k x j = x) \/ (j <> k /\ upd f k x j = f j).
Proof.
  destruct (Nat.eq_dec j k) as [->|H]; [left; split; [reflexivity|apply upd_same]|right; split; [exact H|apply upd_other, H]].
Qed.
Lemma existsb_eqb_in b l : existsb (Nat.eqb b) l = true <-> In b l.
Proof.
  rewrite existsb_exists. split.
  - intros (x & Hi & E). apply Nat.eqb_eq in E. subst; exact Hi.
  - intros H; exists b; split; [exact H|apply Nat.eqb_refl].
Qed.

Definition is_pending (rs : rstate) : bool := match pend rs with Some _ => true | None => false end.
Definition pend_d (rs : rstate) : list bytes := match pend rs with Some (_, _, _, d) => [d] | None => [] end.

Record inv (progs : nat -> list op) (st : mstate) : Prop := mkInv {
  i_nodup : NoDup (pool st);
  i_lt : forall b, In b (pool st) -> (b < fresh st)%nat;
  i_own : forall r s, get2 (own (rq st r)) s = true ->
      exists b, get2 (arr (rq st r)) s = Some b /\ (b < fresh st)%nat /\ ~ In b (pool st) /\
                heap st b = get2 (loc (rq st r)) s;
  i_excl : forall r s r' s' b, get2 (own (rq st r)) s = true -> get2 (own (rq st r')) s' = true ->
      get2 (arr (rq st r)) s = Some b -> get2 (arr (rq st r')) s' = Some b -> r = r' /\ s = s';
  i_pend : forall r b off len d, pend (rq st r) = Some (b, off, len, d) ->
      exists s, get2 (own (rq st r)) s = true /\ get2 (arr (rq st r)) s = Some b /\
                view (get2 (loc (rq st r)) s) off len = d;
  i_wf : forall r, wf_from (own (rq st r)) (is_pending (rq st r)) (prog (rq st r)) = true;
  i_out : forall r, rev (outs (rq st r)) ++ pend_d (rq st r) ++ intended (loc (rq st r)) (prog (rq st r))
                    = intended (mk2 [] []) (progs r)
}.

Ltac upd_split r0 :=
  match goal with
  | H : context [upd ?f ?k ?x r0] |- _ =>
      let E := fresh "E" in let U := fresh "U" in
      destruct (upd_cases f k x r0) as [[E U]|[E U]]; rewrite ?U in *
  | |- context [upd ?f ?k ?x r0] =>
      let E := fresh "E" in let U := fresh "U" in
      destruct (upd_cases f k x r0) as [[E U]|[E U]]; rewrite ?U in *
  end.

Lemma not_pending_none rs : is_pending rs = false -> pend rs = None.
Proof. unfold is_pending. destruct (pend rs); [discriminate|reflexivity]. Qed.

Lemma inv_init progs :
  (forall r, wf_from (mk2 false false) false (progs r) = true) -> inv progs (init_st progs).
Proof.
  intros Hwf. constructor; cbn.
  - constructor.
  - intros b [].
  - intros r s H. destruct s; discriminate.
  - intros r s r' s' b H. destruct s; discriminate.
  - intros; discriminate.
  - intros r. apply Hwf.
  - intros r. reflexivity.
Qed.

Section Step.
Variable progs : nat -> list op.
Variable st : mstate.
Hypothesis I : inv progs st.
Variable r : nat.
Variable rest : list op.

Let rs := rq st r.

Lemma inv_write k s d : prog (rq st r) = OWrite s d :: rest ->
  inv progs (exec_op st r k (rq st r) (OWrite s d) rest).
Proof.
  intros Hp. pose proof (i_wf _ _ I r) as Hwf. rewrite Hp in Hwf. cbn [wf_from] in Hwf.
  apply andb_prop in Hwf as [Hwf Hrest]. apply andb_prop in Hwf as [Hnp Hown].
  apply negb_true_iff in Hnp. pose proof (not_pending_none _ Hnp) as Hpn.
  destruct (i_own _ _ I r s Hown) as (b & Harr & Hlt & Hnin & Hheap).
  pose proof (i_out _ _ I r) as Hout. rewrite Hp in Hout. unfold pend_d in Hout. rewrite Hpn in Hout.
  unfold exec_op. rewrite Harr.
  constructor; cbn [heap pool fresh rq].
  - exact (i_nodup _ _ I).
  - exact (i_lt _ _ I).
  - intros r0 s0 Ho. upd_split r0; cbn [own arr loc] in *.
    + subst r0. destruct (slot_dec s s0) as [<-|Hs].
      * exists b. rewrite get2_set2_same, upd_same. auto.
      * destruct (i_own _ _ I r s0 Ho) as (b' & A' & L' & N' & H').
        exists b'. rewrite get2_set2_other by exact Hs. repeat split; auto.
        rewrite upd_other; [exact H'|]. intros ->.
        destruct (i_excl _ _ I r s r s0 b Hown Ho Harr A') as [_ E']. auto.
    + destruct (i_own _ _ I r0 s0 Ho) as (b' & A' & L' & N' & H').
      exists b'. repeat split; auto. rewrite upd_other; [exact H'|]. intros ->.
      destruct (i_excl _ _ I r s r0 s0 b Hown Ho Harr A') as [E' _]. auto.
  - intros r0 s0 r1 s1 b0 Ho0 Ho1 A0 A1.
    upd_split r0; upd_split r1; cbn [own arr loc] in *; subst; eapply (i_excl _ _ I); eauto.
  - intros r0 b0 off len d0 Hpd. upd_split r0; cbn [pend own arr loc] in *.
    + congruence.
    + exact (i_pend _ _ I r0 _ _ _ _ Hpd).
  - intros r0. upd_split r0; [|exact (i_wf _ _ I r0)].
    unfold is_pending; cbn [pend own prog]. rewrite Hpn. exact Hrest.
  - intros r0. upd_split r0; [|exact (i_out _ _ I r0)].
    subst r0. unfold pend_d; cbn [outs pend loc prog]. rewrite Hpn. exact Hout.
Qed.

Lemma inv_in k s off len : prog (rq st r) = OIn s off len :: rest ->
  inv progs (exec_op st r k (rq st r) (OIn s off len) rest).
Proof.
  intros Hp. pose proof (i_wf _ _ I r) as Hwf. rewrite Hp in Hwf. cbn [wf_from] in Hwf.
  apply andb_prop in Hwf as [Hwf Hrest]. apply andb_prop in Hwf as [Hnp Hown].
  apply negb_true_iff in Hnp. pose proof (not_pending_none _ Hnp) as Hpn.
  destruct (i_own _ _ I r s Hown) as (b & Harr & Hlt & Hnin & Hheap).
  pose proof (i_out _ _ I r) as Hout. rewrite Hp in Hout. unfold pend_d in Hout. rewrite Hpn in Hout.
  unfold exec_op. rewrite Harr.
  constructor; cbn [heap pool fresh rq].
  - exact (i_nodup _ _ I).
  - exact (i_lt _ _ I).
  - intros r0 s0 Ho. upd_split r0; cbn [own arr loc] in *; [subst r0|]; exact (i_own _ _ I _ _ Ho).
  - intros r0 s0 r1 s1 b0 Ho0 Ho1 A0 A1.
    upd_split r0; upd_split r1; cbn [own arr loc] in *; subst; eapply (i_excl _ _ I); eauto.
  - intros r0 b0 off0 len0 d0 Hpd. upd_split r0; cbn [pend own arr loc] in *.
    + inversion Hpd; subst. exists s. rewrite <- Hheap. auto.
    + exact (i_pend _ _ I r0 _ _ _ _ Hpd).
  - intros r0. upd_split r0; [|exact (i_wf _ _ I r0)].
    unfold is_pending; cbn [pend own prog]. exact Hrest.
  - intros r0. upd_split r0; [|exact (i_out _ _ I r0)].
    subst r0. unfold pend_d; cbn [outs pend loc prog]. rewrite <- Hout. cbn [intended app].
    rewrite Hheap. reflexivity.
Qed.

Lemma inv_ret k : prog (rq st r) = ORet :: rest ->
  inv progs (exec_op st r k (rq st r) ORet rest).
Proof.
  intros Hp. pose proof (i_wf _ _ I r) as Hwf. rewrite Hp in Hwf. cbn [wf_from] in Hwf.
  apply andb_prop in Hwf as [Hpe Hrest].
  unfold is_pending in Hpe. destruct (pend (rq st r)) as [[[[b off] len] d]|] eqn:Hpd; [|discriminate].
  destruct (i_pend _ _ I r _ _ _ _ Hpd) as (s & Hown & Harr & Hview).
  destruct (i_own _ _ I r s Hown) as (b' & Harr' & Hlt & Hnin & Hheap).
  assert (b' = b) by congruence. subst b'.
  pose proof (i_out _ _ I r) as Hout. rewrite Hp in Hout. unfold pend_d in Hout. rewrite Hpd in Hout.
  unfold exec_op. rewrite Hpd.
  constructor; cbn [heap pool fresh rq].
  - exact (i_nodup _ _ I).
  - exact (i_lt _ _ I).
  - intros r0 s0 Ho. upd_split r0; cbn [own arr loc] in *; [subst r0|]; exact (i_own _ _ I _ _ Ho).
  - intros r0 s0 r1 s1 b0 Ho0 Ho1 A0 A1.
    upd_split r0; upd_split r1; cbn [own arr loc] in *; subst; eapply (i_excl _ _ I); eauto.
  - intros r0 b0 off0 len0 d0 Hpd0. upd_split r0; cbn [pend own arr loc] in *.
    + discriminate.
    + exact (i_pend _ _ I r0 _ _ _ _ Hpd0).
  - intros r0. upd_split r0; [|exact (i_wf _ _ I r0)].
    unfold is_pending; cbn [pend own prog]. exact Hrest.
  - intros r0. upd_split r0; [|exact (i_out _ _ I r0)].
    subst r0. unfold pend_d; cbn [outs pend loc prog rev]. rewrite <- Hout. cbn [intended app].
    rewrite Hheap, Hview, <- app_assoc. reflexivity.
Qed.

Lemma inv_put k s : prog (rq st r) = OPut s :: rest ->
  inv progs (exec_op st r k (rq st r) (OPut s) rest).
Proof.
  intros Hp. pose proof (i_wf _ _ I r) as Hwf. rewrite Hp in Hwf. cbn [wf_from] in Hwf.
  apply andb_prop in Hwf as [Hwf Hrest]. apply andb_prop in Hwf as [Hnp Hown].
  apply negb_true_iff in Hnp. pose proof (not_pending_none _ Hnp) as Hpn.
  destruct (i_own _ _ I r s Hown) as (b & Harr & Hlt & Hnin & Hheap).
  pose proof (i_out _ _ I r) as Hout. rewrite Hp in Hout. unfold pend_d in Hout. rewrite Hpn in Hout.
  unfold exec_op. rewrite Harr.
  constructor; cbn [heap pool fresh rq].
  - constructor; [exact Hnin|exact (i_nodup _ _ I)].
  - intros b0 [<-|Hi]; [exact Hlt|exact (i_lt _ _ I _ Hi)].
  - intros r0 s0 Ho. upd_split r0; cbn [own arr loc] in *.
    + subst r0. destruct (slot_dec s s0) as [<-|Hs].
      * rewrite get2_set2_same in Ho. discriminate.
      * rewrite get2_set2_other in Ho by exact Hs.
        destruct (i_own _ _ I r s0 Ho) as (b' & A' & L' & N' & H').
        exists b'. repeat split; auto. intros [<-|Hi]; [|exact (N' Hi)].
        destruct (i_excl _ _ I r s r s0 b Hown Ho Harr A') as [_ E']. auto.
    + destruct (i_own _ _ I r0 s0 Ho) as (b' & A' & L' & N' & H').
      exists b'. repeat split; auto. intros [<-|Hi]; [|exact (N' Hi)].
      destruct (i_excl _ _ I r s r0 s0 b Hown Ho Harr A') as [E' _]. auto.
  - assert (Hsub : forall s0, get2 (set2 (own (rq st r)) s false) s0 = true -> get2 (own (rq st r)) s0 = true).
    { intros s0. destruct (slot_dec s s0) as [<-|Hs]; [rewrite get2_set2_same; discriminate|].
      rewrite get2_set2_other by exact Hs. auto. }
    intros r0 s0 r1 s1 b0 Ho0 Ho1 A0 A1.
    upd_split r0; upd_split r1; cbn [own arr loc] in *; subst; eapply (i_excl _ _ I); eauto.
  - intros r0 b0 off0 len0 d0 Hpd0. upd_split r0; cbn [pend own arr loc] in *.
    + congruence.
    + exact (i_pend _ _ I r0 _ _ _ _ Hpd0).
  - intros r0. upd_split r0; [|exact (i_wf _ _ I r0)].
    unfold is_pending; cbn [pend own prog]. rewrite Hpn. exact Hrest.
  - intros r0. upd_split r0; [|exact (i_out _ _ I r0)].
    subst r0. unfold pend_d; cbn [outs pend loc prog]. rewrite Hpn. exact Hout.
Qed.

Lemma take_pool_spec k b pl fr :
  take_pool k st = (b, pl, fr) ->
  NoDup pl /\ (forall x, In x pl -> In x (pool st) /\ x <> b) /\ (fresh st <= fr)%nat /\ (b < fr)%nat /\
  (In b (pool st) \/ b = fresh st).
Proof.
  unfold take_pool. destruct (nth_error (pool st) k) as [x|] eqn:Hk; intros H; inversion H; subst; clear H.
  - destruct (remove_nth_split _ _ _ Hk) as (a & c & E1 & E2). rewrite E2.
    pose proof (i_nodup _ _ I) as ND. rewrite E1 in ND.
    pose proof (NoDup_remove_1 _ _ _ ND) as ND1. pose proof (NoDup_remove_2 _ _ _ ND) as ND2.
    assert (Hin : In b (pool st)) by (rewrite E1; apply in_or_app; right; left; reflexivity).
    repeat split; auto.
    + rewrite E1. apply in_app_or in H. apply in_or_app. destruct H; [left|right; right]; assumption.
    + intros ->. exact (ND2 H).
    + exact (i_lt _ _ I _ Hin).
  - repeat split; auto using (i_nodup _ _ I).
    + pose proof (i_lt _ _ I _ H). lia.
Qed.

Lemma inv_get k s : prog (rq st r) = OGet s :: rest ->
  inv progs (exec_op st r k (rq st r) (OGet s) rest).
Proof.
  intros Hp. pose proof (i_wf _ _ I r) as Hwf. rewrite Hp in Hwf. cbn [wf_from] in Hwf.
  apply andb_prop in Hwf as [Hwf Hrest]. apply andb_prop in Hwf as [Hnp Hown].
  apply negb_true_iff in Hnp. apply negb_true_iff in Hown. pose proof (not_pending_none _ Hnp) as Hpn.
  pose proof (i_out _ _ I r) as Hout. rewrite Hp in Hout. unfold pend_d in Hout. rewrite Hpn in Hout.
  unfold exec_op. destruct (take_pool k st) as [[b pl] fr] eqn:Htp.
  destruct (take_pool_spec _ _ _ _ Htp) as (ND & Hpl & Hfr & Hb & Hbsrc).
  (* nobody holds b *)
  assert (Hfree : forall r0 s0 b', get2 (own (rq st r0)) s0 = true -> get2 (arr (rq st r0)) s0 = Some b' ->
                    b' <> b /\ (b' < fr)%nat /\ ~ In b' pl /\ heap st b' = get2 (loc (rq st r0)) s0).
  { intros r0 s0 b' Ho A'. destruct (i_own _ _ I r0 s0 Ho) as (b2 & A2 & L2 & N2 & H2).
    assert (b2 = b') by congruence. subst b2. repeat split; auto.
    - intros ->. destruct Hbsrc as [Hi| ->]; [exact (N2 Hi)|lia].
    - lia.
    - intros Hi. exact (N2 (proj1 (Hpl _ Hi))). }
  constructor; cbn [heap pool fresh rq].
  - exact ND.
  - intros x Hi. destruct (Hpl _ Hi) as [Hi' _]. pose proof (i_lt _ _ I _ Hi'). lia.
  - intros r0 s0 Ho. upd_split r0; cbn [own arr loc] in *.
    + subst r0. destruct (slot_dec s s0) as [<-|Hs].
      * exists b. rewrite !get2_set2_same, upd_same. repeat split; auto.
        intros Hi. exact (proj2 (Hpl _ Hi) eq_refl).
      * rewrite get2_set2_other in Ho by exact Hs.
        destruct (i_own _ _ I r s0 Ho) as (b' & A' & _).
        destruct (Hfree r s0 b' Ho A') as (Hne & L' & N' & H').
        exists b'. rewrite !get2_set2_other by exact Hs. repeat split; auto.
        rewrite upd_other; [exact H'|exact Hne].
    + destruct (i_own _ _ I r0 s0 Ho) as (b' & A' & _).
      destruct (Hfree r0 s0 b' Ho A') as (Hne & L' & N' & H').
      exists b'. repeat split; auto. rewrite upd_other; [exact H'|exact Hne].
  - intros r0 s0 r1 s1 b0 Ho0 Ho1 A0 A1.
    assert (Hold : forall s2, s <> s2 -> get2 (set2 (own (rq st r)) s true) s2 = true ->
              get2 (set2 (arr (rq st r)) s (Some b)) s2 = Some b0 ->
              get2 (own (rq st r)) s2 = true /\ get2 (arr (rq st r)) s2 = Some b0).
    { intros s2 Hs. rewrite !get2_set2_other by exact Hs. auto. }
    upd_split r0; upd_split r1; cbn [own arr loc] in *; subst.
    + split; [reflexivity|]. destruct (slot_dec s s0) as [<-|Hs0]; destruct (slot_dec s s1) as [<-|Hs1]; [reflexivity| | |].
      * rewrite get2_set2_same in A0. inversion A0; subst b0.
        destruct (Hold _ Hs1 Ho1 A1) as [O1 A1']. destruct (Hfree _ _ _ O1 A1') as [Hne _]. congruence.
      * rewrite get2_set2_same in A1. inversion A1; subst b0.
        destruct (Hold _ Hs0 Ho0 A0) as [O0 A0']. destruct (Hfree _ _ _ O0 A0') as [Hne _]. congruence.
      * destruct (Hold _ Hs0 Ho0 A0) as [O0 A0']. destruct (Hold _ Hs1 Ho1 A1) as [O1 A1'].
        exact (proj2 (i_excl _ _ I r s0 r s1 b0 O0 O1 A0' A1')).
    + destruct (slot_dec s s0) as [<-|Hs0].
      * rewrite get2_set2_same in A0. inversion A0; subst b0.
        destruct (Hfree _ _ _ Ho1 A1) as [Hne _]. congruence.
      * destruct (Hold _ Hs0 Ho0 A0) as [O0 A0']. eapply (i_excl _ _ I); eauto.
    + destruct (slot_dec s s1) as [<-|Hs1].
      * rewrite get2_set2_same in A1. inversion A1; subst b0.
        destruct (Hfree _ _ _ Ho0 A0) as [Hne _]. congruence.
      * destruct (Hold _ Hs1 Ho1 A1) as [O1 A1']. eapply (i_excl _ _ I); eauto.
    + eapply (i_excl _ _ I); eauto.
  - intros r0 b0 off0 len0 d0 Hpd0. upd_split r0; cbn [pend own arr loc] in *.
    + congruence.
    + exact (i_pend _ _ I r0 _ _ _ _ Hpd0).
  - intros r0. upd_split r0; [|exact (i_wf _ _ I r0)].
    unfold is_pending; cbn [pend own prog]. rewrite Hpn. exact Hrest.
  - intros r0. upd_split r0; [|exact (i_out _ _ I r0)].
    subst r0. unfold pend_d; cbn [outs pend loc prog]. rewrite Hpn. exact Hout.
Qed.

End Step.

Lemma inv_step progs st x : inv progs st -> inv progs (mstep st x).
Proof.
  intros I. destruct x as [r k|f]; cbn [mstep].
  - destruct (prog (rq st r)) as [|o rest] eqn:Hp; [exact I|].
    destruct o; [apply inv_get|apply inv_write|apply inv_in|apply inv_ret|apply inv_put]; assumption.
  - constructor; cbn [heap pool fresh rq].
    + exact (i_nodup _ _ I).
    + exact (i_lt _ _ I).
    + intros r s Ho. destruct (i_own _ _ I r s Ho) as (b & A & L & N & H).
      exists b. repeat split; auto.
      destruct (existsb (Nat.eqb b) (pool st)) eqn:E; [|exact H].
      apply existsb_eqb_in in E. contradiction.
    + exact (i_excl _ _ I).
    + exact (i_pend _ _ I).
    + exact (i_wf _ _ I).
    + exact (i_out _ _ I).
Qed.

Lemma inv_run progs sch : forall st, inv progs st -> inv progs (run_sched sch st).
Proof.
  induction sch as [|x sch IH]; intros st I; [exact I|]. cbn [run_sched fold_left]. apply IH, inv_step, I.
Qed.

(* any programs that keep the discipline, any schedule, any pool behaviour, any scribbling over free buffers:
   what the controller reads when it finally looks is what the request handed over *)
Lemma pool_views_stable progs sch r :
  (forall r, wf_from (mk2 false false) false (progs r) = true) ->
  let st := run_sched sch (init_st progs) in
  prog (rq st r) = [] -> rev (outs (rq st r)) = intended (mk2 [] []) (progs r).
Proof.
  intros Hwf st Hp. pose proof (inv_run progs sch _ (inv_init progs Hwf)) as I. fold st in I.
  pose proof (i_wf _ _ I r) as W. pose proof (i_out _ _ I r) as O. rewrite Hp in W, O.
  cbn [wf_from] in W. apply negb_true_iff in W. unfold pend_d in O.
  rewrite (not_pending_none _ W) in O. cbn [intended app] in O. rewrite app_nil_r in O. exact O.
Qed.

(* ---- processBulk as a program keeps the discipline and intends the events of the value-level model ---- *)
Fixpoint body_ok (pending : bool) (p : list op) : bool :=
  match p with
  | [] => negb pending
  | OWrite _ _ :: p' => negb pending && body_ok false p'
  | OIn _ _ _ :: p' => negb pending && body_ok true p'
  | ORet :: p' => pending && body_ok false p'
  | _ => false
  end.

Lemma wf_body o q : get2 o RB = true -> get2 o EB = true ->
  forall p pending, body_ok pending p = true -> wf_from o pending (p ++ q) = wf_from o false q.
Proof.
  intros HR HE. assert (Hs : forall s, get2 o s = true) by (intros []; assumption).
  induction p as [|x p IH]; intros pending H; cbn [body_ok app] in *.
  - apply negb_true_iff in H. subst. reflexivity.
  - destruct x; try discriminate; cbn [wf_from]; apply andb_prop in H as [H1 H2]; rewrite H1, ?Hs; cbn [andb];
      apply IH, H2.
Qed.

Lemma body_ok_app p q : forall pending, body_ok pending p = true -> body_ok false q = true ->
  body_ok pending (p ++ q) = true.
Proof.
  induction p as [|x p IH]; intros pending H Hq; cbn [body_ok app] in *.
  - apply negb_true_iff in H. subst. exact Hq.
  - destruct x; try discriminate; apply andb_prop in H as [H1 H2]; rewrite H1; cbn [andb]; apply IH; assumption.
Qed.

Lemma body_ok_scan full rb : forall nlPos pos eb, body_ok false (scan_ops full rb nlPos pos eb) = true.
Proof.
  induction rb as [|c rb IH]; intros nlPos pos eb; cbn [scan_ops]; [reflexivity|].
  destruct (N.eqb c NL); [|apply IH].
  apply body_ok_app; [destruct eb; reflexivity|apply IH].
Qed.

Lemma body_ok_loop reads : forall eb, body_ok false (loop_ops false reads eb) = true.
Proof.
  induction reads as [|x rs IH]; intros eb; cbn [loop_ops app].
  - destruct eb; reflexivity.
  - destruct x as [c|]; [|reflexivity]. cbn [body_ok negb andb].
    apply body_ok_app; [apply body_ok_scan|apply IH].
Qed.

Lemma wf_bulk_ops reads : wf_from (mk2 false false) false (bulk_ops reads) = true.
Proof.
  unfold bulk_ops. cbn [wf_from get2 set2 at_rb at_eb negb andb].
  rewrite (wf_body (mk2 true true) _ eq_refl eq_refl _ _ (body_ok_loop reads [])). reflexivity.
Qed.

Fixpoint loc_after (l : two bytes) (p : list op) : two bytes :=
  match p with
  | [] => l
  | OGet s :: p' => loc_after (set2 l s []) p'
  | OWrite s d :: p' => loc_after (set2 l s d) p'
  | _ :: p' => loc_after l p'
  end.

Lemma intended_app p q : forall l, intended l (p ++ q) = intended l p ++ intended (loc_after l p) q.
Proof.
  induction p as [|x p IH]; intros l; cbn [app intended loc_after]; [reflexivity|].
  destruct x; cbn [app]; rewrite ?IH; reflexivity.
Qed.

Lemma loc_after_app p q : forall l, loc_after l (p ++ q) = loc_after (loc_after l p) q.
Proof.
  induction p as [|x p IH]; intros l; cbn [app loc_after]; [reflexivity|]. destruct x; apply IH.
Qed.

Lemma view_all l : view l 0 (length l) = l.
Proof. unfold view. cbn [skipn]. apply firstn_all. Qed.

Lemma view_snoc (pre rb' : bytes) c nlPos : (nlPos <= length pre)%nat ->
  view (pre ++ c :: rb') nlPos (S (length pre) - nlPos) = view (pre ++ c :: rb') nlPos (length pre - nlPos) ++ [c].
Proof.
  intros Hle. unfold view. rewrite skipn_app. replace (nlPos - length pre)%nat with 0%nat by lia. cbn [skipn].
  set (p2 := skipn nlPos pre).
  assert (Hl2 : length p2 = (length pre - nlPos)%nat) by apply skipn_length.
  replace (S (length pre) - nlPos)%nat with (length p2 + 1)%nat by lia. rewrite <- Hl2.
  rewrite firstn_app_2. cbn [firstn].
  rewrite firstn_app, firstn_all, Nat.sub_diag. cbn [firstn]. rewrite app_nil_r. reflexivity.
Qed.

Lemma scan_ops_spec rb : forall full pre nlPos eb l,
  full = pre ++ rb -> at_rb l = full -> (nlPos <= length pre)%nat ->
  let acc := eb ++ view full nlPos (length pre - nlPos) in
  intended l (scan_ops full rb nlPos (length pre) eb) = fst (split_acc rb acc) /\
  loc_after l (scan_ops full rb nlPos (length pre) eb) = mk2 (at_rb l) (snd (split_acc rb acc)).
Proof.
  induction rb as [|c rb IH]; intros full pre nlPos eb l Hfull Hrb Hle acc; cbn [scan_ops split_acc].
  - cbn [intended loc_after set2 fst snd]. split; reflexivity.
  - assert (Hfull' : full = (pre ++ [c]) ++ rb) by (rewrite <- app_assoc; exact Hfull).
    assert (Hlen : length (pre ++ [c]) = S (length pre)) by (rewrite app_length; cbn; lia).
    destruct (N.eqb c NL) eqn:Hc.
    + assert (Hnil : [] ++ view full (S (length pre)) (length (pre ++ [c]) - S (length pre)) = []).
      { rewrite Hlen, Nat.sub_diag. reflexivity. }
      rewrite intended_app, loc_after_app.
      destruct eb as [|e eb].
      * cbn [intended loc_after].
        destruct (IH full (pre ++ [c]) (S (length pre)) [] l Hfull' Hrb ltac:(lia)) as [I1 I2].
        cbv zeta in I1, I2. rewrite Hnil, Hlen in *.
        destruct (split_acc rb []) as [ls t]. cbn [fst snd] in *. subst acc. cbn [app get2].
        split; [f_equal; [apply (f_equal (fun x => view x nlPos (length pre - nlPos)) Hrb)|exact I1]|exact I2].
      * cbn [intended loc_after get2 set2 at_rb at_eb].
        set (l' := mk2 (at_rb l) []).
        destruct (IH full (pre ++ [c]) (S (length pre)) [] l' Hfull' Hrb ltac:(lia)) as [I1 I2].
        cbv zeta in I1, I2. rewrite Hnil, Hlen in *.
        destruct (split_acc rb []) as [ls t]. cbn [fst snd] in *. subst acc l'. cbn [app get2] in *.
        split; [f_equal; [apply view_all|exact I1]|exact I2].
    + destruct (IH full (pre ++ [c]) nlPos eb l Hfull' Hrb ltac:(lia)) as [I1 I2].
      cbv zeta in I1, I2. rewrite Hlen in *.
      assert (Hacc : eb ++ view full nlPos (S (length pre) - nlPos) = acc ++ [c]).
      { unfold acc. rewrite Hfull, view_snoc by exact Hle. rewrite app_assoc. reflexivity. }
      rewrite Hacc in *. split; assumption.
Qed.

Definition bulk_events (reads : list rd) (eb : bytes) : list bytes :=
  let '(evs, eb', ok) := bulk_loop reads eb in
  if ok then match eb' with [] => evs | _ :: _ => evs ++ [eb'] end else evs.

Lemma bulk_events_process reads : fst (process_bulk_rd reads) = bulk_events reads [].
Proof.
  unfold process_bulk_rd, bulk_events. destruct (bulk_loop reads []) as [[evs eb] ok].
  destruct ok; [|reflexivity]. destruct eb; [reflexivity|]. rewrite process_chunk_last. reflexivity.
Qed.

Lemma loop_ops_spec reads : forall eb l, at_eb l = eb ->
  intended l (loop_ops false reads eb) = bulk_events reads eb.
Proof.
  induction reads as [|x rs IH]; intros eb l Heb; cbn [loop_ops app]; unfold bulk_events; cbn [bulk_loop].
  - destruct eb; [reflexivity|]. cbn [intended get2]. rewrite Heb, view_all. reflexivity.
  - destruct x as [c|]; [|reflexivity].
    cbn [intended]. rewrite intended_app.
    destruct (scan_ops_spec c c [] 0%nat eb (set2 l RB c) eq_refl eq_refl (Nat.le_refl _)) as [S1 S2].
    cbv zeta in S1, S2. cbn [length Nat.sub] in S1, S2.
    assert (Hv : eb ++ view c 0 0 = eb) by (unfold view; cbn; apply app_nil_r).
    rewrite Hv in S1, S2. rewrite S1, S2, process_chunk_false.
    destruct (split_acc c eb) as [e1 eb1] eqn:Hs. cbn [fst snd].
    erewrite IH by reflexivity. unfold bulk_events.
    destruct (bulk_loop rs eb1) as [[e2 eb2] ok].
    destruct ok; [|reflexivity]. destruct eb2; [reflexivity|]. rewrite app_assoc. reflexivity.
Qed.

Lemma intended_bulk_ops reads : intended (mk2 [] []) (bulk_ops reads) = fst (process_bulk_rd reads).
Proof.
  unfold bulk_ops. cbn [intended set2 at_rb at_eb]. rewrite intended_app.
  erewrite loop_ops_spec by reflexivity. rewrite bulk_events_process. cbn [intended].
  apply app_nil_r.
Qed.

(* every interleaving of processBulk runs over shared pools, with a controller that reads each view as late as it
   likes: a request that has run to its end has delivered exactly the events of its own body *)
Lemma http_pool_no_alias (reads : nat -> list rd) sch r :
  let st := run_sched sch (init_st (fun r => bulk_ops (reads r))) in
  prog (rq st r) = [] -> rev (outs (rq st r)) = fst (process_bulk_rd (reads r)).
Proof.
  intros st Hp. unfold st in *.
  rewrite (pool_views_stable (fun r => bulk_ops (reads r)) sch r (fun r0 => wf_bulk_ops (reads r0)) Hp).
  apply intended_bulk_ops.
Qed.

(* ---- which = 9: the request route in front of serveBulk ---------------------------------------------------------------
   whatever the options (auth strategy / header / secrets, CORS, meta, emulate mode) are: a request that reaches
   processBulk is treated exactly as serve_bulk treats its reads, and no other request hands over anything *)
Lemma route_ingests c q : ingests c q = true -> fst (route c q) = serve_bulk (q_reads q).
Proof.
  unfold ingests, route. intros H.
  destruct (Z.eqb (q_method q) 2); [discriminate|].
  destruct (auth c q); cbn [auth_ok negb andb] in H; try discriminate.
  destruct (bulk_route c q); [|discriminate].
  destruct (Z.eqb (q_method q) 0); [|discriminate].
  destruct (serve_bulk (q_reads q)) as [evs st]. reflexivity.
Qed.

Lemma route_not_ingests c q : ingests c q = false -> fst (fst (route c q)) = [].
Proof.
  unfold ingests, route. intros H.
  destruct (Z.eqb (q_method q) 2); [reflexivity|].
  destruct (auth c q); cbn [auth_ok negb andb] in H; try reflexivity.
  destruct (bulk_route c q); [|reflexivity].
  destruct (Z.eqb (q_method q) 0); [discriminate|reflexivity].
Qed.

Lemma lookup_exists u p l s :
  lookup u l = Some s -> N_eqb_list s p = true ->
  existsb (fun np => N_eqb_list (fst np) u && N_eqb_list (snd np) p) l = true.
Proof.
  induction l as [|[a b] l IH]; cbn [lookup existsb fst snd]; [discriminate|].
  destruct (N_eqb_list a u) eqn:E.
  - intros H Hp. inversion H; subst. rewrite Hp. reflexivity.
  - intros H Hp. rewrite (IH H Hp). apply orb_true_r.
Qed.

Lemma rlookup_exists t l n :
  rlookup t l = Some n -> existsb (fun np => N_eqb_list (snd np) t) l = true.
Proof.
  induction l as [|[a b] l IH]; cbn [rlookup existsb snd]; [discriminate|].
  destruct (N_eqb_list b t) eqn:E; [reflexivity|]. intros H. exact (IH H).
Qed.

(* [auth] never says yes to a request that does not present a configured secret *)
Lemma auth_ok_authorised c q : auth_ok (auth c q) = true -> authorised c q = true.
Proof.
  unfold auth, authorised.
  destruct (Z.eqb (c_strat c) 0); [reflexivity|].
  destruct (Z.eqb (c_strat c) 1).
  - destruct (eff_cred c q) as [|u p|t|v]; cbn [auth_ok]; try discriminate.
    destruct (lookup u (c_secrets c)) as [s|] eqn:L.
    + destruct (N_eqb_list s p) eqn:E; cbn [auth_ok]; [|discriminate]. intros _. exact (lookup_exists _ _ _ _ L E).
    + destruct p; cbn [auth_ok]; discriminate.
  - destruct (bearer_token (eff_cred c q)) as [t|]; cbn [auth_ok]; [|discriminate].
    destruct (rlookup t (c_secrets c)) as [n|] eqn:L; cbn [auth_ok]; [|discriminate].
    intros _. exact (rlookup_exists _ _ _ L).
Qed.

Lemma route_unauthorised c q :
  authorised c q = false ->
  fst (fst (route c q)) = [] /\ (q_method q <> 2 -> snd (fst (route c q)) <> 200).
Proof.
  intros H.
  assert (A : auth_ok (auth c q) = false).
  { destruct (auth_ok (auth c q)) eqn:E; [|reflexivity]. rewrite (auth_ok_authorised _ _ E) in H. discriminate. }
  unfold route. destruct (Z.eqb (q_method q) 2) eqn:M.
  - apply Z.eqb_eq in M. split; [reflexivity|]. intros N. contradiction.
  - destruct (auth c q); cbn [auth_ok] in A; try discriminate; cbn [fst snd]; split; try reflexivity; intros _; discriminate.
Qed.

Lemma route_200_after_all_in c q evs st cl :
  route c q = (evs, st, cl) -> ingests c q = true -> st = 200 ->
  no_err (q_reads q) = true /\ evs = split_body (concat (chunks_of (q_reads q))).
Proof.
  intros R I S. pose proof (route_ingests _ _ I) as E. rewrite R in E. cbn [fst] in E. subst st.
  exact (http_ok_after_all_in _ _ (eq_sym E)).
Qed.

(* what the judge of the routed requests (which = 9) accepts for one request *)
Definition route_req_ok (c : rcfg) (r o : sx) : Prop :=
  exists q reads rds evs st x y z,
    req_of_sx r = Some (q, reads) /\ as_list rd_of_sx reads = Some rds /\ q_reads q = rds /\
    o = SL [SL evs; SZ st; x; y; z] /\
    (ingests c q = true ->
       (st = 200 -> no_err rds = true /\ evs = map SB (split_body (concat (chunks_of rds)))) /\
       (st <> 200 -> no_err rds = false)) /\
    (ingests c q = false ->
       evs = [] /\ (authorised c q = false -> q_method q <> 2 -> st <> 200)).

Lemma req_of_sx_reads r q reads :
  req_of_sx r = Some (q, reads) -> as_list rd_of_sx reads = Some (q_reads q).
Proof.
  unfold req_of_sx.
  destruct r as [?|?|[|[m|?|?] [|[?|path|?] [|[?|hsel|?] [|cr [|[?|origin|?] [|[?|?|[|cf [|xff [|xreal [|remote [|? ?]]]]]]
    [|[?|qv|?] [|[gz|?|?] [|reads' [|? ?]]]]]]]]]]]; try discriminate.
  destruct (cred_of_sx cr); [|discriminate].
  destruct (ipc_of_sx cf); [|discriminate]. destruct (ipc_of_sx xff); [|discriminate].
  destruct (ipc_of_sx xreal); [|discriminate]. destruct (ipc_of_sx remote); [|discriminate].
  destruct (as_list rd_of_sx reads') as [rds|] eqn:E; [|discriminate].
  destruct (Z.leb 0 m && Z.leb m 4 && gated_reads_ok gz reads'); [|discriminate].
  intros H. inversion H; subst. cbn [q_reads]. exact E.
Qed.

Lemma route_one_meaning c r o m : route_one c r o = Some (m, true) -> route_req_ok c r o.
Proof.
  unfold route_one. destruct (req_of_sx r) as [[q reads]|] eqn:Hq; [|discriminate].
  destruct (cred_ok (q_cred q)); [|discriminate].
  destruct (route c q) as [[evs0 st0] cl0].
  pose proof (req_of_sx_reads _ _ _ Hq) as Hr.
  destruct o as [?|?|[|[?|?|oevs] [|[ost|?|?] [|x [|y [|z [|? ?]]]]]]]; try discriminate.
  intros H. inversion H as [[Hm Hok]]; clear H Hm.
  exists q, reads, (q_reads q), oevs, ost, x, y, z.
  split; [exact Hq|]. split; [exact Hr|]. split; [reflexivity|]. split; [reflexivity|]. split.
  - intros I. rewrite I in Hok.
    destruct (c11_pred_meaning _ _ _ Hr Hok) as (evs & st & Ho & H1 & H2). inversion Ho; subst. split; assumption.
  - intros I. rewrite I in Hok. apply andb_prop in Hok as [Hn Hs]. split.
    + destruct oevs; [reflexivity|discriminate].
    + intros A M S. rewrite A in Hs. cbn [orb] in Hs. apply orb_prop in Hs as [Hs|Hs].
      * apply Z.eqb_eq in Hs. contradiction.
      * subst ost. discriminate.
Qed.

(* a verdict Agree / Differ on a routed history means: every request that the configuration lets through to processBulk
   (POST, bulk route of the emulate mode, a configured secret) delivered exactly the newline split of its body when it was
   answered 200 and was answered 200 unless a read failed; every other request handed over nothing, and a request without
   a configured secret was not answered 200 *)
Lemma route_verdict_sound case obs :
  (c11_route_run case obs = Agree \/ exists m, c11_route_run case obs = Differ m) ->
  exists cfg c reqs outs,
    case = SL [cfg; SL reqs] /\ cfg_of_sx cfg = Some c /\ obs = SL outs /\ Forall2 (route_req_ok c) reqs outs.
Proof.
  intros H. unfold c11_route_run in H.
  destruct case as [?|?|[|cfg [|reqs [|? ?]]]]; try (destruct H as [H|[m H]]; discriminate).
  destruct (cfg_of_sx cfg) as [c|] eqn:Hc; [|destruct H as [H|[m H]]; discriminate].
  destruct (cfg_ok c); [|destruct H as [H|[m H]]; discriminate].
  unfold pairs_run in H.
  destruct reqs as [?|?|reqs]; try (destruct H as [H|[m H]]; discriminate).
  destruct obs as [?|?|outs]; try (destruct H as [H|[m H]]; discriminate).
  destruct (pairs_go (route_one c) reqs outs) as [[ms ok]|] eqn:Hg; [|destruct H as [H|[m H]]; discriminate].
  destruct ok; [|destruct H as [H|[m H]]; discriminate].
  exists cfg, c, reqs, outs. repeat split; try assumption.
  pose proof (pairs_go_true _ _ _ _ Hg) as F. clear Hg H.
  induction F as [|r o rs os [m Hm] F IH]; constructor; [eapply route_one_meaning; exact Hm|exact IH].
Qed.

(* ---- which = 12 / 13: request headers and meta templates are arguments the delivery provably ignores ------------------- *)
Lemma map_fst_pair {A B} (l : list A) (m : B) : map fst (map (fun e => (e, m)) l) = l.
Proof. induction l as [|x l IH]; cbn [map fst]; [reflexivity|rewrite IH; reflexivity]. Qed.

(* the In calls of a request carry exactly the events of the route model, the status and the class are its *)
Lemma route_h_events render c tm h :
  (map fst (fst (fst (route_h render c tm h))), snd (fst (route_h render c tm h)), snd (route_h render c tm h)) =
  route c (h_req h).
Proof.
  unfold route_h. destruct (route c (h_req h)) as [[evs st] cl]. cbn [fst snd]. rewrite map_fst_pair. reflexivity.
Qed.

Lemma route_h_ingests render c tm h :
  ingests c (h_req h) = true ->
  (map fst (fst (fst (route_h render c tm h))), snd (fst (route_h render c tm h))) = serve_bulk (q_reads (h_req h)).
Proof.
  intros I. pose proof (route_h_events render c tm h) as E. pose proof (route_ingests _ _ I) as R.
  destruct (route c (h_req h)) as [[evs st] cl]. cbn [fst] in R. inversion E; subst. exact R.
Qed.

(* two runs of the same request line and body under different header sets, queries, framings, template sets, renderers
   (and the meta flag of the configuration) hand over the same events and are answered alike *)
Lemma route_h_independent render render' c m' tm tm' q hs hs' xq xq' fl fl' :
  let c' := mkCfg (c_mode c) (c_strat c) (c_hdr c) (c_secrets c) (c_origins c) m' in
  let a := route_h render c tm (mkHReq q hs xq fl) in
  let b := route_h render' c' tm' (mkHReq q hs' xq' fl') in
  map fst (fst (fst a)) = map fst (fst (fst b)) /\ snd (fst a) = snd (fst b) /\ snd a = snd b.
Proof.
  intros c' a b.
  pose proof (route_h_events render c tm (mkHReq q hs xq fl)) as Ea.
  pose proof (route_h_events render' c' tm' (mkHReq q hs' xq' fl')) as Eb.
  fold a in Ea. fold b in Eb. cbn [h_req] in Ea, Eb.
  assert (R : route c' q = route c q) by reflexivity.
  rewrite R, <- Ea in Eb. inversion Eb. repeat split; congruence.
Qed.

Lemma hmeta_keys render c tm h : hmeta render c tm h = [] \/ map fst (hmeta render c tm h) = map fst tm.
Proof.
  unfold hmeta. destruct (auth c (h_req h)); try (left; reflexivity).
  right. rewrite map_map. cbn [fst]. reflexivity.
Qed.

Lemma hmeta_keys_ok render c tm h login :
  auth c (h_req h) = AuthOk login -> map fst (hmeta render c tm h) = map fst tm.
Proof. intros A. unfold hmeta. rewrite A. rewrite map_map. reflexivity. Qed.

Lemma ingests_auth c q : ingests c q = true -> exists login, auth c q = AuthOk login.
Proof.
  unfold ingests. destruct (auth c q) as [l| |]; cbn [auth_ok]; intros H.
  - exists l. reflexivity.
  - rewrite andb_false_r in H. discriminate.
  - rewrite andb_false_r in H. discriminate.
Qed.

(* under every header set, template set and renderer: a 200 comes after every line of the body was handed over, and every
   In call carries one meta value per configured template *)
Lemma route_h_200 render c tm h calls st cl :
  route_h render c tm h = (calls, st, cl) -> ingests c (h_req h) = true -> st = 200 ->
  no_err (q_reads (h_req h)) = true /\
  map fst calls = split_body (concat (chunks_of (q_reads (h_req h)))) /\
  Forall (fun cm => map fst (snd cm) = map fst tm) calls.
Proof.
  intros R I S. pose proof (route_h_ingests render c tm h I) as E. rewrite R in E. cbn [fst snd] in E. subst st.
  destruct (http_ok_after_all_in _ _ (eq_sym E)) as [H1 H2]. split; [exact H1|]. split; [exact H2|].
  destruct (ingests_auth _ _ I) as [login A].
  unfold route_h in R. destruct (route c (h_req h)) as [[evs st0] cl0]. inversion R; subst.
  apply Forall_forall. intros cm Hin. apply in_map_iff in Hin as (e & <- & _). cbn [snd].
  exact (hmeta_keys_ok render c tm h login A).
Qed.

Lemma route_h_not_ingests render c tm h :
  ingests c (h_req h) = false -> fst (fst (route_h render c tm h)) = [].
Proof.
  intros I. pose proof (route_not_ingests _ _ I) as R. unfold route_h.
  destruct (route c (h_req h)) as [[evs st] cl]. cbn [fst] in *. subst evs. reflexivity.
Qed.

Lemma route_h_unauthorised render c tm h :
  authorised c (h_req h) = false ->
  fst (fst (route_h render c tm h)) = [] /\ (q_method (h_req h) <> 2 -> snd (fst (route_h render c tm h)) <> 200).
Proof.
  intros A. destruct (route_unauthorised _ _ A) as [R1 R2]. unfold route_h.
  destruct (route c (h_req h)) as [[evs st] cl]. cbn [fst snd] in *. subst evs. split; [reflexivity|exact R2].
Qed.

(* what the judges of which = 12 / 13 accept for one request *)
Definition judged (c : rcfg) (q : rreq) (rds : list rd) (evs : list sx) (st : Z) : Prop :=
  (ingests c q = true ->
     (st = 200 -> no_err rds = true /\ evs = map SB (split_body (concat (chunks_of rds)))) /\
     (st <> 200 -> no_err rds = false)) /\
  (ingests c q = false ->
     evs = [] /\ (authorised c q = false -> q_method q <> 2 -> st <> 200)).

Lemma route_obs_ok_meaning c q reads rds oevs ost :
  as_list rd_of_sx reads = Some rds -> route_obs_ok c q reads oevs ost = true ->
  exists evs, oevs = SL evs /\ judged c q rds evs ost.
Proof.
  intros Hr H. unfold route_obs_ok in H. destruct oevs as [?|?|evs]; try discriminate.
  exists evs. split; [reflexivity|]. split.
  - intros I. rewrite I in H.
    destruct (c11_pred_meaning _ _ _ Hr H) as (evs' & st & Ho & H1 & H2). inversion Ho; subst. split; assumption.
  - intros I. rewrite I in H. apply andb_prop in H as [Hn Hs]. split.
    + destruct evs; [reflexivity|discriminate].
    + intros A M S. rewrite A in Hs. cbn [orb] in Hs. apply orb_prop in Hs as [Hs|Hs].
      * apply Z.eqb_eq in Hs. contradiction.
      * subst ost. discriminate.
Qed.

Definition hroute_req_ok (c : rcfg) (r o : sx) : Prop :=
  exists rq hs xq fl q reads rds evs st x y z,
    r = SL [rq; hs; SB xq; SZ fl] /\
    req_of_sx rq = Some (q, reads) /\ as_list rd_of_sx reads = Some rds /\ q_reads q = rds /\
    o = SL [SL evs; SZ st; x; y; z] /\ judged c q rds evs st.

Lemma hroute_one_meaning c tm r o m : hroute_one c tm r o = Some (m, true) -> hroute_req_ok c r o.
Proof.
  unfold hroute_one.
  destruct r as [?|?|[|rq [|hs [|[?|xq|?] [|[fl|?|?] [|? ?]]]]]]; try discriminate.
  destruct (req_of_sx rq) as [[q reads]|] eqn:Hq; [|discriminate].
  destruct (as_list pair_of_sx hs) as [hdrs|]; [|discriminate].
  destruct (cred_ok (q_cred q) && forallb (hdr_ok c q) hdrs && Z.leb 0 fl && Z.leb fl 2); [|discriminate].
  destruct (route_h render0 c tm (mkHReq q hdrs xq fl)) as [[calls st0] cl0].
  pose proof (req_of_sx_reads _ _ _ Hq) as Hr.
  destruct o as [?|?|[|oevs [|[ost|?|?] [|x [|y [|z [|? ?]]]]]]]; try discriminate.
  intros H. inversion H as [[Hm Hok]]; clear H Hm.
  destruct (route_obs_ok_meaning _ _ _ _ _ _ Hr Hok) as (evs & -> & J).
  exists rq, hs, xq, fl, q, reads, (q_reads q), evs, ost, x, y, z.
  split; [reflexivity|]. split; [exact Hq|]. split; [exact Hr|]. split; [reflexivity|]. split; [reflexivity|exact J].
Qed.

Lemma hroute_verdict_sound case obs :
  (c11_hroute_run case obs = Agree \/ exists m, c11_hroute_run case obs = Differ m) ->
  exists cfg c tms tm reqs outs,
    case = SL [cfg; tms; SL reqs] /\ cfg_of_sx cfg = Some c /\ tmpls_of_sx tms = Some tm /\ obs = SL outs /\
    Forall2 (hroute_req_ok c) reqs outs.
Proof.
  intros H. unfold c11_hroute_run in H.
  destruct case as [?|?|[|cfg [|tms [|reqs [|? ?]]]]]; try (destruct H as [H|[m H]]; discriminate).
  destruct (cfg_of_sx cfg) as [c|] eqn:Hc; [|destruct H as [H|[m H]]; discriminate].
  destruct (tmpls_of_sx tms) as [tm|] eqn:Ht; [|destruct H as [H|[m H]]; discriminate].
  destruct (cfg_ok c && Bool.eqb (c_meta c) (negb (is_nil tm))); [|destruct H as [H|[m H]]; discriminate].
  unfold pairs_run in H.
  destruct reqs as [?|?|reqs]; try (destruct H as [H|[m H]]; discriminate).
  destruct obs as [?|?|outs]; try (destruct H as [H|[m H]]; discriminate).
  destruct (pairs_go (hroute_one c tm) reqs outs) as [[ms ok]|] eqn:Hg; [|destruct H as [H|[m H]]; discriminate].
  destruct ok; [|destruct H as [H|[m H]]; discriminate].
  exists cfg, c, tms, tm, reqs, outs. repeat split; try assumption.
  pose proof (pairs_go_true _ _ _ _ Hg) as F. clear Hg H.
  induction F as [|r o rs os [m Hm] F IH]; constructor; [eapply hroute_one_meaning; exact Hm|exact IH].
Qed.

(* the own listener: a body is a list of byte strings, no read of it fails *)
Lemma all_bytes_no_err ws : forall rds, all_bytes ws = true -> opt_map rd_of_sx ws = Some rds -> no_err rds = true.
Proof.
  induction ws as [|w ws IH]; intros rds A H; cbn [opt_map] in H.
  - inversion H. reflexivity.
  - unfold all_bytes in A. cbn [forallb] in A. apply andb_prop in A as [Aw A].
    destruct w as [?|b|?]; try discriminate. cbn [rd_of_sx] in H.
    destruct (opt_map rd_of_sx ws) as [rds'|] eqn:E; [|discriminate]. inversion H; subst.
    cbn [no_err forallb]. exact (IH rds' A eq_refl).
Qed.

Lemma wire_ingests tm target gz rds : ingests (wire_cfg tm) (wire_req target gz rds) = true.
Proof. reflexivity. Qed.

Definition hwire_req_ok (r o : sx) : Prop :=
  exists gz piece ws hs target odd rds evs x,
    r = SL [SZ gz; SZ piece; SL ws; hs; SB target; SZ odd] /\ as_list rd_of_sx (SL ws) = Some rds /\
    no_err rds = true /\ o = SL [SL evs; SZ 200; x] /\ evs = map SB (split_body (concat (chunks_of rds))).

Lemma hwire_one_meaning tm r o m : hwire_one tm r o = Some (m, true) -> hwire_req_ok r o.
Proof.
  unfold hwire_one.
  destruct r as [?|?|[|[gz|?|?] [|[piece|?|?] [|[?|?|ws] [|hs [|[?|target|?] [|[odd|?|?] [|? ?]]]]]]]]; try discriminate.
  destruct (as_list rd_of_sx (SL ws)) as [rds|] eqn:Hr; [|discriminate].
  destruct (as_list pair_of_sx hs) as [hdrs|]; [|discriminate].
  destruct ((Z.eqb gz 0 || Z.eqb gz 1) && all_bytes ws) eqn:G; [|cbn [andb]; discriminate].
  apply andb_prop in G as [_ Ab].
  cbn [andb].
  destruct (forallb _ hdrs && Z.leb 0 odd && Z.leb odd 6); [|discriminate].
  destruct (route_h render0 (wire_cfg tm) tm _) as [[calls st0] cl0].
  destruct o as [?|?|[|oevs [|[ost|?|?] [|x [|? ?]]]]]; try discriminate.
  intros H. inversion H as [[Hm Hok]]; clear H Hm.
  destruct (route_obs_ok_meaning _ _ _ _ _ _ Hr Hok) as (evs & -> & [J _]).
  specialize (J (wire_ingests tm target (Z.eqb gz 1) rds)). destruct J as [J1 J2].
  assert (N : no_err rds = true) by (exact (all_bytes_no_err ws rds Ab Hr)).
  assert (S : ost = 200).
  { destruct (Z.eq_dec ost 200) as [e|ne]; [exact e|]. rewrite (J2 ne) in N. discriminate. }
  subst ost. destruct (J1 eq_refl) as [_ Je].
  exists gz, piece, ws, hs, target, odd, rds, evs, x. repeat split; assumption.
Qed.

Lemma hwire_verdict_sound case obs :
  (c11_hwire_run case obs = Agree \/ exists m, c11_hwire_run case obs = Differ m) ->
  exists cfg tms tm reqs outs,
    case = SL [SL cfg; tms; SL reqs] /\ tmpls_of_sx tms = Some tm /\ obs = SL outs /\ Forall2 hwire_req_ok reqs outs.
Proof.
  intros H. unfold c11_hwire_run in H.
  destruct case as [?|?|[|[?|?|cfg] [|tms [|reqs [|? ?]]]]]; try (destruct H as [H|[m H]]; discriminate).
  destruct (tmpls_of_sx tms) as [tm|] eqn:Ht; [|destruct H as [H|[m H]]; discriminate].
  destruct (all_ints cfg); [|destruct H as [H|[m H]]; discriminate].
  unfold pairs_run in H.
  destruct reqs as [?|?|reqs]; try (destruct H as [H|[m H]]; discriminate).
  destruct obs as [?|?|outs]; try (destruct H as [H|[m H]]; discriminate).
  destruct (pairs_go (hwire_one tm) reqs outs) as [[ms ok]|] eqn:Hg; [|destruct H as [H|[m H]]; discriminate].
  destruct ok; [|destruct H as [H|[m H]]; discriminate].
  exists cfg, tms, tm, reqs, outs. repeat split; try assumption.
  pose proof (pairs_go_true _ _ _ _ Hg) as F. clear Hg H.
  induction F as [|r o rs os [m Hm] F IH]; constructor; [eapply hwire_one_meaning; exact Hm|exact IH].
Qed.

(* ---- source ids: density and the high-water bound (which = 14) ------------------------------------------------ *)
Definition id_inv2 (p : idpool) : Prop :=
  id_inv p /\ Forall (fun x => 0 <= x) (free p ++ held p) /\ seq p = Z.of_nat (length (free p ++ held p)).

Lemma id_step_inv2 p o : id_inv2 p -> id_inv2 (fst (id_step p o)).
Proof.
  intros (I & NN & LEN). split; [apply id_step_inv; exact I|].
  destruct (id_step_perm p o) as (extra & P & [[E S]|(E & S & F)]); subst extra; cbn [app] in P.
  - split.
    + eapply Permutation_Forall; [apply Permutation_sym, P|exact NN].
    + rewrite S, LEN. f_equal. symmetry. apply Permutation_length, P.
  - split.
    + eapply Permutation_Forall; [apply Permutation_sym, P|]. constructor; [|exact NN]. rewrite LEN. lia.
    + rewrite S, LEN. rewrite (Permutation_length P). cbn [length]. lia.
Qed.

Lemma id_run_inv2 ops : forall p, id_inv2 p -> id_inv2 (fst (id_run p ops)).
Proof.
  induction ops as [|o r IH]; intros p H; cbn [id_run]; [exact H|].
  pose proof (id_step_inv2 p o H) as H1. destruct (id_step p o) as [p1 x]. cbn [fst] in H1.
  specialize (IH p1 H1). destruct (id_run p1 r) as [p2 xs]. exact IH.
Qed.

Lemma id_inv2_0 : id_inv2 idpool0.
Proof. split; [exact id_inv0|]. split; cbn; [constructor|reflexivity]. Qed.

(* after any get/put history: the ids that exist (free or held) are pairwise different, are exactly as many as the
   counter says and lie in [0, seq): the ids handed out so far are 0 .. seq-1, each either free or held by ONE request *)
Lemma http_sourceid_dense ops :
  let p := fst (id_run idpool0 ops) in
  NoDup (free p ++ held p) /\
  (forall x, In x (free p ++ held p) -> 0 <= x < seq p) /\
  seq p = Z.of_nat (length (free p) + length (held p)).
Proof.
  cbn. destruct (id_run_inv2 ops _ id_inv2_0) as ((ND & LT) & NN & LEN).
  split; [exact ND|]. split.
  - intros x H. rewrite Forall_forall in LT, NN. split; [apply NN, H|apply LT, H].
  - rewrite LEN, app_length. reflexivity.
Qed.

(* [held_le n p ops]: during the run of ops from p never more than n requests hold an id at once *)
Fixpoint held_le (n : nat) (p : idpool) (ops : list idop) : Prop :=
  (length (held p) <= n)%nat /\
  match ops with
  | [] => True
  | o :: r => held_le n (fst (id_step p o)) r
  end.

Lemma held_le_head n p ops : held_le n p ops -> (length (held p) <= n)%nat.
Proof. destruct ops; intros [H _]; exact H. Qed.

Lemma id_run_high_water n ops : forall p,
  id_inv2 p -> seq p <= Z.of_nat n -> held_le n p ops -> seq (fst (id_run p ops)) <= Z.of_nat n.
Proof.
  induction ops as [|o r IH]; intros p I S H; cbn [id_run]; [exact S|].
  destruct H as [_ H].
  pose proof (id_step_inv2 p o I) as I1.
  assert (S1 : seq (fst (id_step p o)) <= Z.of_nat n).
  { pose proof (held_le_head _ _ _ H) as HL.
    destruct I as (_ & _ & LEN).
    destruct o as [|k]; cbn [id_step] in *.
    - destruct (free p) as [|f fr] eqn:Hf; cbn [fst free held seq] in *; [|exact S].
      rewrite app_length in HL. cbn [length app] in *. lia.
    - destruct (nth_error (held p) k); cbn [fst seq]; exact S. }
  destruct (id_step p o) as [p1 x]. cbn [fst] in *.
  specialize (IH p1 I1 S1 H). destruct (id_run p1 r) as [p2 xs]. exact IH.
Qed.

(* the high-water bound: if never more than n requests were live at once on an instance, every id that was ever handed
   out - in particular every id held now - is below n; with the density above: n requests live at once on such an
   instance hold exactly the ids 0 .. n-1 *)
Lemma http_sourceid_high_water n ops :
  held_le n idpool0 ops ->
  let p := fst (id_run idpool0 ops) in
  seq p <= Z.of_nat n /\ NoDup (held p) /\ (forall x, In x (held p) -> 0 <= x < Z.of_nat n).
Proof.
  intros H. cbn.
  pose proof (id_run_high_water n ops idpool0 id_inv2_0 ltac:(cbn; lia) H) as S.
  destruct (http_sourceid_dense ops) as (ND & R & _). cbn in ND, R.
  destruct (http_sourceid_exclusive ops) as (NDh & _). cbn in NDh.
  split; [exact S|]. split; [exact NDh|].
  intros x Hx. specialize (R x (in_or_app _ _ _ (or_intror Hx))). lia.
Qed.

(* ---- which = 14: what the burst judgement means ------------------------------------------------------------------- *)
Lemma z_nodup_sound l : z_nodup l = true -> NoDup l.
Proof.
  induction l as [|x r IH]; cbn [z_nodup]; intros H; [constructor|].
  apply andb_true_iff in H. destruct H as [H1 H2]. constructor; [|exact (IH H2)].
  intros Hin. apply negb_true_iff in H1.
  assert (E : existsb (Z.eqb x) r = true) by (apply existsb_exists; exists x; split; [exact Hin|apply Z.eqb_refl]).
  congruence.
Qed.

Lemma remove_first_perm e : forall l l', remove_first e l = Some l' -> Permutation l (e :: l').
Proof.
  induction l as [|x r IH]; cbn [remove_first]; intros l' H; [discriminate|].
  destruct (sx_eqb e x) eqn:E.
  - inversion H; subst. apply http_sx_eqb_sound in E. subst. reflexivity.
  - destruct (remove_first e r) as [r'|] eqn:R; [|discriminate]. inversion H; subst.
    rewrite (IH _ eq_refl). apply perm_swap.
Qed.

Lemma perm_match_sound : forall ex obs, perm_match ex obs = true -> Permutation ex obs.
Proof.
  induction ex as [|e r IH]; cbn [perm_match]; intros obs H.
  - destruct obs; [constructor|discriminate].
  - destruct (remove_first e obs) as [o'|] eqn:R; [|discriminate].
    rewrite (remove_first_perm _ _ _ R). constructor. exact (IH _ H).
Qed.

Lemma opt_map_z_of_sx : forall ids zs, opt_map z_of_sx ids = Some zs -> ids = map SZ zs.
Proof.
  induction ids as [|i r IH]; cbn [opt_map]; intros zs H; [inversion H; reflexivity|].
  destruct i as [z|b|l]; cbn [z_of_sx] in H; try discriminate.
  destruct (opt_map z_of_sx r) as [zr|]; [|discriminate]. inversion H; subst. cbn. f_equal. exact (IH _ eq_refl).
Qed.

(* an accepted phase observation: every request was answered 200; the source ids seen by controller.In are pairwise
   different, one per request, all in [0, hw); and the event sequences under the source ids are - up to the order of
   the ids - exactly the newline splits of the bodies: no source id carried lines of two bodies *)
Lemma burst_phase_sound hw reqs o :
  burst_phase_ok hw reqs o = true ->
  exists zs groups,
    o = SL [SL (map (fun _ => SZ 200) reqs); SL (map SZ zs); SL groups] /\
    NoDup zs /\ length zs = length reqs /\ (forall z, In z zs -> 0 <= z < hw) /\
    Permutation (map burst_expected reqs) groups.
Proof.
  unfold burst_phase_ok. intros H.
  destruct o as [?|?|[|[?|?|sts] [|[?|?|ids] [|[?|?|groups] [|? ?]]]]]; try discriminate.
  destruct (opt_map z_of_sx ids) as [zs|] eqn:Z; [|discriminate].
  repeat (apply andb_true_iff in H; destruct H as [H ?]).
  exists zs, groups. apply http_sx_eqb_sound in H. inversion H; subst.
  rewrite (opt_map_z_of_sx _ _ Z). split; [reflexivity|].
  split; [apply z_nodup_sound; assumption|]. split; [apply Nat.eqb_eq; assumption|].
  split; [|apply perm_match_sound; assumption].
  intros z Hz. match goal with F : forallb _ zs = true |- _ => rewrite forallb_forall in F; specialize (F z Hz) end.
  apply andb_true_iff in H2. lia.
Qed.
