(* The file input survives a sequence of commit notifications iff, per stream, their offsets are strictly
   increasing (no commit out of order, none twice), and then it ends up with the offset of the last commit of
   every stream.  Model: Model/StreamOffsets.v (plugin/input/file/provider.go jobProvider.commit). *)
From Verif Require Import Base.Sx Model.StreamOffsets.
From Coq Require Import Lia.

Lemma fc_get_set_same t s v : fc_get (fc_set t s v) s = v.
Proof.
  induction t as [|[k w] r IH]; cbn [fc_set fc_get].
  - rewrite Z.eqb_refl. reflexivity.
  - destruct (k =? s) eqn:E; cbn [fc_get]; rewrite E; [reflexivity|exact IH].
Qed.

Lemma fc_get_set_other t s v s' : s' <> s -> fc_get (fc_set t s v) s' = fc_get t s'.
Proof.
  intros Hne. induction t as [|[k w] r IH]; cbn [fc_set fc_get].
  - destruct (s =? s') eqn:E; [apply Z.eqb_eq in E; congruence|reflexivity].
  - destruct (k =? s) eqn:E; cbn [fc_get].
    + apply Z.eqb_eq in E. subst k. destruct (s =? s') eqn:E'; [apply Z.eqb_eq in E'; congruence|reflexivity].
    + destruct (k =? s'); [reflexivity|exact IH].
Qed.

Lemma last_cons_default (l : list Z) x d : last (x :: l) d = last l x.
Proof.
  revert x d. induction l as [|y r IH]; intros x d; [reflexivity|].
  change (last (x :: y :: r) d) with (last (y :: r) d). rewrite (IH y d), (IH y x). reflexivity.
Qed.

Lemma offs_of_cons_same s off r : offs_of s ((s, off) :: r) = off :: offs_of s r.
Proof. unfold offs_of. cbn [flat_map fst snd]. rewrite Z.eqb_refl. reflexivity. Qed.

Lemma offs_of_cons_other s s0 off r : s <> s0 -> offs_of s ((s0, off) :: r) = offs_of s r.
Proof.
  intros Hne. unfold offs_of. cbn [flat_map fst snd].
  destruct (s0 =? s) eqn:E; [apply Z.eqb_eq in E; congruence|reflexivity].
Qed.

(* the whole behaviour of a run, from any stored state *)
Lemma fc_run_spec cs : forall t,
  match fc_run t cs with
  | Some t' => forall s, incr_from (fc_get t s) (offs_of s cs) = true /\ fc_get t' s = last (offs_of s cs) (fc_get t s)
  | None => exists s, incr_from (fc_get t s) (offs_of s cs) = false
  end.
Proof.
  induction cs as [|[s0 off] r IH]; intros t; cbn [fc_run].
  - intros s. split; reflexivity.
  - unfold fc_commit. destruct (off <=? fc_get t s0) eqn:Hle.
    + exists s0. rewrite offs_of_cons_same. cbn [incr_from].
      apply Z.leb_le in Hle. destruct (fc_get t s0 <? off) eqn:Hlt; [apply Z.ltb_lt in Hlt; lia|reflexivity].
    + apply Z.leb_gt in Hle. specialize (IH (fc_set t s0 off)).
      destruct (fc_run (fc_set t s0 off) r) as [t'|].
      * intros s. destruct (Z.eq_dec s s0) as [->|Hne].
        -- destruct (IH s0) as [Hi Hl]. rewrite fc_get_set_same in Hi, Hl.
           rewrite offs_of_cons_same. cbn [incr_from]. rewrite Hi.
           split; [apply andb_true_iff; split; [apply Z.ltb_lt; exact Hle|reflexivity]|].
           rewrite last_cons_default. exact Hl.
        -- destruct (IH s) as [Hi Hl]. rewrite (fc_get_set_other _ _ _ _ Hne) in Hi, Hl.
           rewrite (offs_of_cons_other _ _ _ _ Hne). split; assumption.
      * destruct IH as [s Hs]. exists s. destruct (Z.eq_dec s s0) as [->|Hne].
        -- rewrite fc_get_set_same in Hs. rewrite offs_of_cons_same. cbn [incr_from]. rewrite Hs. apply andb_false_r.
        -- rewrite (fc_get_set_other _ _ _ _ Hne) in Hs. rewrite (offs_of_cons_other _ _ _ _ Hne). exact Hs.
Qed.

(* C02, consumer side: commit notifications whose offsets are strictly increasing per stream (positive, none repeated)
   never reach the file input's "offset corruption" panic, from an empty offsets table ... *)
Theorem file_input_accepts_increasing_commits cs :
  (forall s, incr_from 0 (offs_of s cs) = true) -> exists t, fc_run [] cs = Some t.
Proof.
  intros H. pose proof (fc_run_spec cs []) as Hs. destruct (fc_run [] cs) as [t|]; [exists t; reflexivity|].
  destruct Hs as [s Hs]. cbn [fc_get] in Hs. rewrite (H s) in Hs. discriminate.
Qed.

(* ... and ONLY those: one commit out of order or repeated, on any stream, and the file input panics *)
Theorem file_input_panics_on_any_other_order cs t :
  fc_run [] cs = Some t -> forall s, incr_from 0 (offs_of s cs) = true.
Proof.
  intros H s. pose proof (fc_run_spec cs []) as Hs. rewrite H in Hs. exact (proj1 (Hs s)).
Qed.

(* what it stores: the offset of the last commit of every stream (0 = no offset for a stream never committed) *)
Theorem file_input_stores_the_last_commit cs t :
  fc_run [] cs = Some t -> forall s, fc_get t s = last (offs_of s cs) 0.
Proof.
  intros H s. pose proof (fc_run_spec cs []) as Hs. rewrite H in Hs. exact (proj2 (Hs s)).
Qed.

(* non-vacuity: two streams, interleaved increasing commits are accepted and the last offsets stored; a repeated commit
   and a commit behind the stored offset both panic *)
Example file_input_offsets_nonvacuous :
  fc_run [] [(0, 10); (1, 5); (0, 30); (1, 40)] = Some [(0, 30); (1, 40)] /\
  fc_run [] [(0, 10); (1, 5); (0, 10)] = None /\ fc_run [] [(0, 30); (1, 5); (0, 10)] = None /\
  incr_from 0 (offs_of 0 [(0, 30); (1, 5); (0, 10)]) = false.
Proof. repeat split; vm_compute; reflexivity. Qed.
