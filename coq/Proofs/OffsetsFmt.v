(* Proofs about Model/OffsetsFmt.v: the parser reads back everything the writer prints. *)
From Verif Require Import Base.Sx Base.GoSem Model.OffsetsFmt.
From Coq Require Import Lia ZifyBool.

Definition noNL (l : bytes) : Prop := ~ In NL l.

(* ---- well-formed job tables ---------------------------------------------------------------------- *)
Definition stream_wf (so : bytes * Z) : Prop := noNL (fst so) /\ (0 <= snd so < 2 ^ 63)%Z.
Definition job_wf (j : job) : Prop :=
  noNL (jfile j) /\ (jinode j < 2 ^ 64)%N /\ (jsid j < 2 ^ 64)%N /\ (- 2 ^ 63 <= jts j < 2 ^ 63)%Z /\
  Forall stream_wf (jstreams j) /\ NoDup (map fst (jstreams j)).
(* the jobs map is keyed by source id: the ids of the jobs that are written are pairwise different *)
Definition table_wf (js : list job) : Prop :=
  Forall job_wf js /\ NoDup (map jsid (filter has_streams js)).

(* ---- byte strings -------------------------------------------------------------------------------- *)
Lemma bytes_eqb_eq a : forall b, bytes_eqb a b = true <-> a = b.
Proof.
  unfold bytes_eqb. induction a as [|x a IH]; intros [|y b]; cbn [N_eqb_list]; split; intros H;
    try reflexivity; try discriminate.
  - apply andb_true_iff in H. destruct H as [H1 H2]. apply N.eqb_eq in H1. apply IH in H2. subst. reflexivity.
  - inversion H; subst. apply andb_true_iff. split; [apply N.eqb_refl | apply IH; reflexivity].
Qed.

Lemma strip_prefix_app p : forall l, strip_prefix p (p ++ l) = Some l.
Proof. induction p as [|a p IH]; intros l; cbn [strip_prefix app]; [reflexivity|]. rewrite N.eqb_refl. apply IH. Qed.

Lemma has_prefix_app p : forall l, has_prefix (p ++ l) p = true.
Proof.
  induction p as [|a p IH]; intros l; [destruct l; reflexivity|].
  cbn [has_prefix app]. rewrite N.eqb_refl. apply IH.
Qed.

Lemma len_app {A} (a b : list A) : len (a ++ b) = len a + len b.
Proof. unfold len. rewrite app_length. lia. Qed.

Lemma len_nonneg {A} (a : list A) : 0 <= len a.
Proof. unfold len. lia. Qed.

Lemma slice_mid {A} (a b c : list A) : slice (a ++ b ++ c) (len a) (len a + len b) = Ok b.
Proof.
  unfold slice. rewrite !len_app.
  pose proof (len_nonneg a). pose proof (len_nonneg b). pose proof (len_nonneg c).
  replace ((0 <=? len a) && (len a <=? len a + len b) && (len a + len b <=? len a + (len b + len c))) with true by lia.
  unfold len. rewrite Nat2Z.id. rewrite skipn_app, skipn_all, Nat.sub_diag. cbn [skipn app].
  replace (Z.to_nat (Z.of_nat (length a) + Z.of_nat (length b) - Z.of_nat (length a))) with (length b) by lia.
  rewrite firstn_app, firstn_all, Nat.sub_diag. cbn [firstn]. rewrite app_nil_r. reflexivity.
Qed.

Lemma slice_from_app {A} (a b : list A) : slice_from (a ++ b) (len a) = Ok b.
Proof.
  pose proof (slice_mid a b []) as H. rewrite app_nil_r in H.
  unfold slice_from. rewrite len_app. exact H.
Qed.

Lemma lib_from_absent c : forall b i best, ~ In c b -> last_index_byte_from b c i best = best.
Proof.
  induction b as [|x b IH]; intros i best H; cbn [last_index_byte_from]; [reflexivity|].
  destruct (N.eqb_spec x c) as [E|E]; [exfalso; apply H; left; exact E|].
  apply IH. intros HI. apply H. right. exact HI.
Qed.

Lemma lib_from_last c b : ~ In c b -> forall a i best, last_index_byte_from (a ++ c :: b) c i best = i + len a.
Proof.
  intros Hb. induction a as [|x a IH]; intros i best.
  - cbn [app last_index_byte_from]. rewrite N.eqb_refl. rewrite lib_from_absent by exact Hb. unfold len. cbn. lia.
  - cbn [app last_index_byte_from]. rewrite IH. unfold len. cbn [length]. lia.
Qed.

Lemma last_index_byte_last c a b : ~ In c b -> last_index_byte (a ++ c :: b) c = len a.
Proof. intros H. unfold last_index_byte. rewrite lib_from_last by exact H. lia. Qed.

(* ---- decimal conversion ---------------------------------------------------------------------------- *)
Lemma digits_val_app a : forall b acc,
  digits_val (a ++ b) acc = match digits_val a acc with Some v => digits_val b v | None => None end.
Proof.
  induction a as [|c a IH]; intros b acc; cbn [app digits_val]; [reflexivity|].
  destruct (is_digit c); [apply IH | reflexivity].
Qed.

Lemma is_digit_48 d : (d < 10)%N -> is_digit (48 + d)%N = true.
Proof. intros H. unfold is_digit. lia. Qed.

Lemma dec_le_val fuel : forall n, (n < 10 ^ N.of_nat fuel)%N -> digits_val (rev (dec_le fuel n)) 0 = Some n.
Proof.
  induction fuel as [|f IH]; intros n Hn.
  - cbn in Hn. assert (n = 0%N) by lia. subst. reflexivity.
  - cbn [dec_le]. destruct (N.ltb_spec n 10) as [Hlt|Hge].
    + cbn [rev app digits_val]. rewrite is_digit_48 by exact Hlt. f_equal. lia.
    + cbn [rev]. rewrite digits_val_app.
      assert (Hpow : (10 ^ N.of_nat (S f) = 10 * 10 ^ N.of_nat f)%N).
      { rewrite Nat2N.inj_succ. apply N.pow_succ_r'. }
      assert (Hdiv : (n / 10 < 10 ^ N.of_nat f)%N).
      { apply N.div_lt_upper_bound; lia. }
      rewrite (IH _ Hdiv). cbn [digits_val].
      assert (Hm : (n mod 10 < 10)%N) by (apply N.mod_lt; lia).
      rewrite is_digit_48 by exact Hm. f_equal.
      pose proof (N.div_mod' n 10) as Hdm. clear - Hdm Hm.
      set (q := (n / 10)%N) in *. set (r := (n mod 10)%N) in *. clearbody q r. lia.
Qed.

Lemma dec_le_digits fuel : forall n, Forall (fun c => is_digit c = true) (dec_le fuel n).
Proof.
  induction fuel as [|f IH]; intros n; cbn [dec_le]; [constructor|].
  destruct (N.ltb_spec n 10) as [Hlt|Hge].
  - constructor; [apply is_digit_48; exact Hlt | constructor].
  - constructor; [apply is_digit_48; apply N.mod_lt; lia | apply IH].
Qed.

Lemma dec_N_rev n : dec_N n = rev (dec_le 20 n).
Proof. unfold dec_N. rewrite rev_append_rev, app_nil_r. reflexivity. Qed.

Lemma dec_N_val n : (n < 2 ^ 64)%N -> digits_val (dec_N n) 0 = Some n.
Proof.
  intros H. rewrite dec_N_rev. apply dec_le_val.
  eapply N.lt_trans; [exact H | reflexivity].
Qed.

Lemma dec_N_digits n : Forall (fun c => is_digit c = true) (dec_N n).
Proof.
  rewrite dec_N_rev. apply Forall_forall. intros c Hc. apply in_rev in Hc.
  pose proof (dec_le_digits 20 n) as F. rewrite Forall_forall in F. apply F. exact Hc.
Qed.

Lemma dec_N_cons n : exists c r, dec_N n = c :: r /\ is_digit c = true.
Proof.
  pose proof (dec_N_digits n) as F.
  destruct (dec_N n) as [|c r] eqn:E.
  - exfalso. rewrite dec_N_rev in E. change (dec_le 20 n) with (dec_le (S 19) n) in E. cbn [dec_le] in E.
    destruct (n <? 10)%N; cbn [rev] in E; apply app_eq_nil in E; destruct E as [_ E]; discriminate E.
  - exists c, r. split; [reflexivity|]. inversion F; assumption.
Qed.

Lemma digit_not c x : is_digit c = true -> (x < 48 \/ 57 < x)%N -> c <> x.
Proof. unfold is_digit. intros H1 H2 E. subst. lia. Qed.

Lemma dec_N_notin n x : (x < 48 \/ 57 < x)%N -> ~ In x (dec_N n).
Proof.
  intros Hx HI. pose proof (dec_N_digits n) as F. rewrite Forall_forall in F.
  apply (digit_not x x (F x HI) Hx). reflexivity.
Qed.

Lemma parse_uint64_dec n : (n < 2 ^ 64)%N -> parse_uint64 (dec_N n) = Some n.
Proof.
  intros H. destruct (dec_N_cons n) as (c & r & E & _).
  unfold parse_uint64. rewrite E. rewrite <- E. rewrite dec_N_val by exact H.
  destruct (N.ltb_spec n (2 ^ 64)); [reflexivity | lia].
Qed.

Lemma parse_int64_dec_N n : (n < 2 ^ 63)%N -> parse_int64 (dec_N n) = Some (Z.of_N n).
Proof.
  intros H. destruct (dec_N_cons n) as (c & r & E & Hc).
  unfold parse_int64. rewrite E.
  assert (H43 : N.eqb c 43 = false) by (apply N.eqb_neq; apply digit_not; [exact Hc | lia]).
  assert (H45 : N.eqb c DASH = false) by (apply N.eqb_neq; apply digit_not; [exact Hc | unfold DASH; lia]).
  rewrite H43, H45. rewrite <- E.
  rewrite parse_uint64_dec by (eapply N.lt_trans; [exact H | reflexivity]).
  destruct (N.ltb_spec n (2 ^ 63)); [reflexivity | lia].
Qed.

Lemma parse_int64_dec_Z z : (- 2 ^ 63 <= z < 2 ^ 63)%Z -> parse_int64 (dec_Z z) = Some z.
Proof.
  intros H. destruct z as [|p|p].
  - apply (parse_int64_dec_N 0). reflexivity.
  - cbn [dec_Z]. replace (Z.to_N (Z.pos p)) with (N.pos p) by reflexivity.
    rewrite parse_int64_dec_N by lia. reflexivity.
  - cbn [dec_Z]. unfold parse_int64. cbn [N.eqb DASH Pos.eqb].
    change (N.eqb DASH 43) with false. change (N.eqb DASH DASH) with true. cbv iota.
    rewrite parse_uint64_dec by lia.
    destruct (N.leb_spec (N.pos p) (2 ^ 63)); [reflexivity | lia].
Qed.

Lemma dec_Z_cons z : exists c r, dec_Z z = c :: r.
Proof.
  destruct z; cbn [dec_Z]; try (destruct (dec_N_cons (Z.to_N 0)) as (c & r & E & _); exists c, r; exact E).
  - destruct (dec_N_cons (Z.to_N (Z.pos p))) as (c & r & E & _). exists c, r. exact E.
  - eexists _, _. reflexivity.
Qed.

Lemma dec_Z_noNL z : noNL (dec_Z z).
Proof.
  unfold noNL. destruct z; cbn [dec_Z]; try (apply dec_N_notin; unfold NL; lia).
  intros [E|HI]; [discriminate E|]. revert HI. apply dec_N_notin. unfold NL. lia.
Qed.

(* ---- lines ----------------------------------------------------------------------------------------- *)
Lemma split_lines_line l : forall rest, noNL l ->
  split_lines (l ++ NL :: rest) = (l :: fst (split_lines rest), snd (split_lines rest)).
Proof.
  induction l as [|c l IH]; intros rest H.
  - cbn [app split_lines]. destruct (split_lines rest) as [ls t]. rewrite N.eqb_refl. reflexivity.
  - cbn [app split_lines]. rewrite IH by (intros HI; apply H; right; exact HI).
    destruct (N.eqb_spec c NL) as [E|E]; [exfalso; apply H; left; exact E | reflexivity].
Qed.

Lemma split_unlines ls : Forall noNL ls -> split_lines (unlines ls) = (ls, []).
Proof.
  induction 1 as [|l ls Hl _ IH]; [reflexivity|].
  unfold unlines in *. cbn [map concat]. rewrite <- app_assoc. cbn [app].
  rewrite split_lines_line by exact Hl. rewrite IH. reflexivity.
Qed.

Lemma noNL_app a b : noNL a -> noNL b -> noNL (a ++ b).
Proof. unfold noNL. intros Ha Hb HI. apply in_app_or in HI. tauto. Qed.

Lemma noNL_const (p : bytes) : forallb (fun c => negb (N.eqb c NL)) p = true -> noNL p.
Proof.
  unfold noNL. intros H HI. rewrite forallb_forall in H. specialize (H _ HI).
  rewrite N.eqb_refl in H. discriminate.
Qed.

Lemma stream_line_noNL so : stream_wf so -> noNL (stream_line so).
Proof.
  intros [Hn _]. unfold stream_line. apply noNL_app; [apply noNL_const; reflexivity|].
  apply noNL_app; [exact Hn|].
  intros [E|[E|HI]]; try discriminate. revert HI. apply dec_N_notin. unfold NL. lia.
Qed.

Lemma job_lines_noNL j : job_wf j -> Forall noNL (job_lines j).
Proof.
  intros (Hf & Hi & Hs & Ht & Hst & _). unfold job_lines.
  repeat constructor.
  - apply noNL_app; [apply noNL_const; reflexivity | exact Hf].
  - apply noNL_app; [apply noNL_const; reflexivity | apply dec_N_notin; unfold NL; lia].
  - apply noNL_app; [apply noNL_const; reflexivity | apply dec_N_notin; unfold NL; lia].
  - apply noNL_app; [apply noNL_const; reflexivity | apply dec_Z_noNL].
  - apply noNL_const. reflexivity.
  - apply Forall_forall. intros l Hl. apply in_map_iff in Hl. destruct Hl as (so & <- & Hso).
    rewrite Forall_forall in Hst. apply stream_line_noNL. apply Hst. exact Hso.
Qed.

(* ---- one stream line --------------------------------------------------------------------------------- *)
Lemma stream_entry_line acc name off :
  (0 <= off < 2 ^ 63)%Z ->
  existsb (fun kv => bytes_eqb (fst kv) name) acc = false ->
  stream_entry acc (stream_line (name, off)) = Ok ((name, off) :: acc).
Proof.
  intros Hoff Hdup. unfold stream_entry, stream_line. cbn [fst snd].
  set (d := dec_N (off_u64 off)).
  assert (Hu : off_u64 off = Z.to_N off) by (unfold off_u64; rewrite Z.mod_small by lia; reflexivity).
  assert (Hd : parse_int64 d = Some off).
  { unfold d. rewrite Hu. rewrite parse_int64_dec_N by lia. f_equal. lia. }
  assert (Hlen : len (P_IND ++ name ++ COLON :: 32%N :: d) = 4 + len name + 2 + len d).
  { rewrite !len_app. unfold len. cbn [length P_IND]. lia. }
  pose proof (len_nonneg name). pose proof (len_nonneg d).
  replace (len (P_IND ++ name ++ COLON :: 32%N :: d) <? 5) with false by lia.
  rewrite has_prefix_app. cbn [orb negb].
  assert (Hpos : last_index_byte (P_IND ++ name ++ COLON :: 32%N :: d) COLON = 4 + len name).
  { rewrite app_assoc. rewrite last_index_byte_last.
    - rewrite len_app. reflexivity.
    - intros [E|HI]; [discriminate E|]. revert HI. apply dec_N_notin. unfold COLON. lia. }
  rewrite Hpos. replace (4 + len name <? 0) with false by lia.
  change 4 with (len P_IND) at 1 2.
  change (COLON :: 32%N :: d) with ([COLON; 32%N] ++ d) at 1.
  rewrite (slice_mid P_IND name ([COLON; 32%N] ++ d)). cbn [bind].
  rewrite Hdup.
  replace (P_IND ++ name ++ COLON :: 32%N :: d) with ((P_IND ++ name ++ [COLON; 32%N]) ++ d)
    by (rewrite <- !app_assoc; reflexivity).
  replace (4 + len name + 2) with (len (P_IND ++ name ++ [COLON; 32%N]))
    by (rewrite !len_app; change (len P_IND) with 4; change (len [COLON; 32%N]) with 2; lia).
  rewrite slice_from_app. cbn [bind]. rewrite Hd. reflexivity.
Qed.

Lemma feed_streams done f sid ts : forall ss acc,
  Forall stream_wf ss -> NoDup (map fst ss) -> (forall x, In x ss -> ~ In (fst x) (map fst acc)) ->
  fold_left pstep (map stream_line ss) (PStreams done f sid ts acc) = PStreams done f sid ts (rev ss ++ acc).
Proof.
  induction ss as [|[name off] ss IH]; intros acc Hwf Hnd Hacc; [reflexivity|].
  cbn [map fold_left]. inversion Hwf as [|? ? [Hn Ho] Hwf']; subst. inversion Hnd as [|? ? Hnotin Hnd']; subst.
  cbn [fst snd] in *.
  assert (Hdup : existsb (fun kv => bytes_eqb (fst kv) name) acc = false).
  { destruct (existsb _ acc) eqn:E; [|reflexivity]. exfalso.
    apply existsb_exists in E. destruct E as (kv & Hkv & Heq). apply bytes_eqb_eq in Heq.
    apply (Hacc (name, off)); [left; reflexivity|]. cbn [fst]. rewrite <- Heq. apply in_map. exact Hkv. }
  assert (Hstep : pstep (PStreams done f sid ts acc) (stream_line (name, off)) = PStreams done f sid ts ((name, off) :: acc)).
  { pose proof (stream_entry_line acc name off Ho Hdup) as E.
    unfold pstep. unfold stream_line in *. cbn [fst snd P_IND app] in *.
    change (N.eqb 32 DASH) with false. cbv iota. rewrite E. reflexivity. }
  rewrite Hstep. rewrite IH; [cbn [rev]; rewrite <- app_assoc; reflexivity | exact Hwf' | exact Hnd' |].
  intros x Hx [E|HI]; cbn [fst] in *.
  - apply Hnotin. rewrite E. apply in_map. exact Hx.
  - apply (Hacc x); [right; exact Hx | exact HI].
Qed.

(* ---- one job block ------------------------------------------------------------------------------------ *)
Definition closable (st : pst) (d : list entry) : Prop :=
  st = PStart d \/ exists d0 f sid ts acc, st = PStreams d0 f sid ts acc /\ d = close_entry d0 f sid ts acc.

Lemma first_line_step st d f : closable st d -> pstep st (P_FILE ++ f) = PInode d f.
Proof.
  intros [->|(d0 & f0 & sid & ts & acc & -> & ->)].
  - cbn [pstep]. unfold start_line. rewrite strip_prefix_app. reflexivity.
  - unfold pstep. cbn [P_FILE app]. change (N.eqb 45 DASH) with true. cbv iota.
    unfold start_line. change (45 :: 32 :: 102 :: 105 :: 108 :: 101 :: 58 :: 32 :: f)%N with (P_FILE ++ f).
    rewrite strip_prefix_app. reflexivity.
Qed.

Lemma feed_job st d j :
  closable st d -> job_wf j -> existsb (fun e => N.eqb (esid e) (jsid j)) d = false ->
  fold_left pstep (job_lines j) st = PStreams d (jfile j) (jsid j) (Some (jts j)) (rev (jstreams j)).
Proof.
  intros Hc (Hf & Hi & Hs & Ht & Hst & Hnd) Hd. unfold job_lines. cbn [fold_left].
  rewrite (first_line_step st d _ Hc).
  cbn [pstep]. rewrite strip_prefix_app. rewrite parse_uint64_dec by exact Hi.
  cbn [pstep]. rewrite strip_prefix_app. rewrite parse_uint64_dec by exact Hs. rewrite Hd.
  cbn [pstep]. rewrite strip_prefix_app.
  destruct (dec_Z_cons (jts j)) as (c & r & E). rewrite E. rewrite <- E.
  rewrite parse_int64_dec_Z by exact Ht.
  cbn [pstep]. unfold hdr_line.
  replace P_STREAMS with (P_STREAMS ++ []) at 2 by apply app_nil_r. rewrite strip_prefix_app.
  rewrite feed_streams; [rewrite app_nil_r; reflexivity | exact Hst | exact Hnd | intros x _ []].
Qed.

Lemma feed_jobs : forall js st d,
  closable st d -> Forall job_wf js -> NoDup (map jsid js) ->
  (forall j, In j js -> existsb (fun e => N.eqb (esid e) (jsid j)) d = false) ->
  closable (fold_left pstep (flat_map job_lines js) st) (rev (map view js) ++ d).
Proof.
  induction js as [|j js IH]; intros st d Hc Hwf Hnd Hd; [exact Hc|].
  cbn [flat_map]. rewrite fold_left_app.
  inversion Hwf as [|? ? Hj Hwf']; subst. inversion Hnd as [|? ? Hnotin Hnd']; subst.
  rewrite (feed_job st d j Hc Hj (Hd j (or_introl eq_refl))).
  cbn [map rev]. rewrite <- app_assoc. cbn [app].
  apply IH; [| exact Hwf' | exact Hnd' |].
  - right. exists d, (jfile j), (jsid j), (Some (jts j)), (rev (jstreams j)). split; [reflexivity|].
    unfold close_entry, view. rewrite rev_append_rev, app_nil_r, rev_involutive. reflexivity.
  - intros j' Hj'. cbn [existsb view esid]. rewrite (Hd j' (or_intror Hj')).
    destruct (N.eqb_spec (jsid j) (jsid j')) as [E|E]; [|reflexivity].
    exfalso. apply Hnotin. rewrite E. apply in_map. exact Hj'.
Qed.

(* ---- the round trip ------------------------------------------------------------------------------------- *)
Theorem parse_print : forall js, table_wf js -> parse (print_jobs js) = Ok (expected_load js).
Proof.
  intros js [Hwf Hnd]. unfold parse, print_jobs, expected_load.
  set (js' := filter has_streams js) in *.
  assert (Hwf' : Forall job_wf js').
  { apply Forall_forall. intros j Hj. apply filter_In in Hj. rewrite Forall_forall in Hwf. apply Hwf. tauto. }
  rewrite split_unlines.
  2:{ apply Forall_forall. intros l Hl. apply in_flat_map in Hl. destruct Hl as (j & Hj & Hl).
      rewrite Forall_forall in Hwf'. pose proof (job_lines_noNL j (Hwf' j Hj)) as F.
      rewrite Forall_forall in F. apply F. exact Hl. }
  pose proof (feed_jobs js' (PStart []) [] (or_introl eq_refl) Hwf' Hnd (fun _ _ => eq_refl)) as Hc.
  rewrite app_nil_r in Hc.
  destruct Hc as [->|(d0 & f & sid & ts & acc & -> & E)]; cbn [pfinish].
  - rewrite rev_append_rev, app_nil_r, rev_involutive. reflexivity.
  - rewrite <- E. rewrite rev_append_rev, app_nil_r, rev_involutive. reflexivity.
Qed.

(* the parser never panics on what the writer prints (a corollary, stated for the record) *)
Corollary parse_print_no_panic : forall js, table_wf js -> is_panic (parse (print_jobs js)) = false.
Proof. intros js H. rewrite parse_print by exact H. reflexivity. Qed.

(* ---- names with a newline (known finding): the round trip fails ---------------------------------------- *)
(* stream "a\nb": the file does not load at all *)
Definition nl_job_unloadable : job :=
  {| jfile := [102]%N; jinode := 1%N; jsid := 1%N; jts := 0%Z; jstreams := [([97; 10; 98]%N, 7%Z)] |}.
(* stream "x: 1\n    y": the file loads, as two other streams *)
Definition nl_job_forged : job :=
  {| jfile := [102]%N; jinode := 1%N; jsid := 1%N; jts := 0%Z;
     jstreams := [([120; 58; 32; 49; 10; 32; 32; 32; 32; 121]%N, 2%Z)] |}.

Lemma parse_print_newline_refuted :
  (exists e, parse (print_jobs [nl_job_unloadable]) = Err e) /\
  parse (print_jobs [nl_job_forged]) =
    Ok [{| efile := [102]%N; esid := 1%N; ets := Some 0%Z; estreams := [([120]%N, 1%Z); ([121]%N, 2%Z)] |}] /\
  parse (print_jobs [nl_job_forged]) <> Ok (expected_load [nl_job_forged]).
Proof.
  split; [|split].
  - eexists. vm_compute. reflexivity.
  - vm_compute. reflexivity.
  - vm_compute. discriminate.
Qed.
