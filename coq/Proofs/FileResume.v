(* Proofs about Model/FileResume.v.
   (1) stream / line equality, SliceMap facts, min_off; (2) sorted contents and the next line;
   (3) flight lists; (4) the invariant [Inv] and its preservation by every admissible step;
   (5) the single-stream invariant (nothing is ever skipped); (6) the theorems.                  *)
From Verif Require Import Base.Sx Model.FileResume.
From Coq Require Import Lia ZifyBool.

(* ------------------------------------------------------------------ (1) equality, SliceMap *)
Lemma stream_eqb_eq (a b : stream) : stream_eqb a b = true <-> a = b.
Proof.
  unfold stream_eqb. revert b. induction a as [|x a IH]; intros [|y b]; cbn; split; intro H; try congruence; try discriminate.
  - apply andb_true_iff in H as [Hx Hr]. apply N.eqb_eq in Hx. apply IH in Hr. congruence.
  - inversion H; subst. apply andb_true_iff. split; [apply N.eqb_refl | now apply IH].
Qed.
Lemma stream_eqb_refl a : stream_eqb a a = true.
Proof. now apply stream_eqb_eq. Qed.
Lemma stream_eqb_neq a b : stream_eqb a b = false <-> a <> b.
Proof.
  split; intro H.
  - intro E. apply stream_eqb_eq in E. congruence.
  - destruct (stream_eqb a b) eqn:E; [apply stream_eqb_eq in E; contradiction | reflexivity].
Qed.

Lemma line_eqb_eq a b : line_eqb a b = true <-> a = b.
Proof.
  unfold line_eqb. destruct a as [i e s], b as [i' e' s']; cbn. split; intro H.
  - apply andb_true_iff in H as [H Hs]. apply andb_true_iff in H as [Hi He].
    apply Z.eqb_eq in Hi, He. apply stream_eqb_eq in Hs. congruence.
  - inversion H; subst. rewrite !Z.eqb_refl, stream_eqb_refl. reflexivity.
Qed.
Lemma mem_In l ls : mem l ls = true <-> In l ls.
Proof.
  unfold mem. rewrite existsb_exists. split.
  - intros [x [Hx He]]. apply line_eqb_eq in He. now subst.
  - intro H. exists l. split; [assumption | now apply line_eqb_eq].
Qed.
Lemma mem_false l ls : mem l ls = false <-> ~ In l ls.
Proof.
  split; intro H.
  - intro Hi. apply mem_In in Hi. congruence.
  - destruct (mem l ls) eqn:E; [apply mem_In in E; contradiction | reflexivity].
Qed.

Lemma lookup_In s o v : lookup s o = Some v -> In (s, v) o.
Proof.
  induction o as [|[k x] r IH]; cbn; [discriminate|].
  destruct (stream_eqb k s) eqn:E.
  - intro H. inversion H; subst. apply stream_eqb_eq in E. subst. now left.
  - intro H. right. now apply IH.
Qed.
Lemma In_lookup s o v : In (s, v) o -> exists v', lookup s o = Some v'.
Proof.
  induction o as [|[k x] r IH]; cbn; [contradiction|].
  intros [H|H].
  - inversion H; subst. rewrite stream_eqb_refl. eauto.
  - destruct (stream_eqb k s); eauto.
Qed.
Lemma lookup_None_notin s o : lookup s o = None -> forall v, ~ In (s, v) o.
Proof. intros H v Hi. apply In_lookup in Hi as [v' Hv]. congruence. Qed.

Lemma in_set_off s v o s' v' :
  In (s', v') (set_off s v o) -> (s' = s /\ v' = v) \/ In (s', v') o.
Proof.
  induction o as [|[k x] r IH]; cbn.
  - intros [H|[]]. inversion H. now left.
  - destruct (stream_eqb k s) eqn:E; cbn.
    + intros [H|H]; [|right; now right]. inversion H; subst. apply stream_eqb_eq in E. now left.
    + intros [H|H]; [right; now left|]. apply IH in H as [H|H]; [now left | right; now right].
Qed.
Lemma lookup_set_same s v o : lookup s (set_off s v o) = Some v.
Proof.
  induction o as [|[k x] r IH]; cbn.
  - now rewrite stream_eqb_refl.
  - destruct (stream_eqb k s) eqn:E; cbn; rewrite E; [reflexivity | assumption].
Qed.
Lemma lookup_set_other s s' v o : s' <> s -> lookup s' (set_off s v o) = lookup s' o.
Proof.
  intro Hn. induction o as [|[k x] r IH]; cbn.
  - destruct (stream_eqb s s') eqn:E; [apply stream_eqb_eq in E; congruence | reflexivity].
  - destruct (stream_eqb k s) eqn:E; cbn.
    + apply stream_eqb_eq in E. subst k.
      destruct (stream_eqb s s') eqn:E'; [apply stream_eqb_eq in E'; congruence | reflexivity].
    + destruct (stream_eqb k s'); [reflexivity | assumption].
Qed.
Lemma set_off_nonempty s v o : set_off s v o <> [].
Proof. destruct o as [|[k x] r]; cbn; [discriminate|]. destruct (stream_eqb k s); discriminate. Qed.

Lemma min_off_le o s v : In (s, v) o -> min_off o <= v.
Proof.
  induction o as [|[k x] r IH]; cbn [min_off In]; [contradiction|].
  intros [H|H]; [inversion H; subst; lia | apply IH in H; lia].
Qed.

Lemma lookup_zeroed s o v : lookup s (map (fun kv : stream * Z => (fst kv, 0)) o) = Some v -> v = 0.
Proof.
  induction o as [|[k x] r IH]; cbn; [discriminate|].
  destruct (stream_eqb k s); [intro H; now inversion H | assumption].
Qed.
Lemma in_zeroed s v o : In (s, v) (map (fun kv : stream * Z => (fst kv, 0)) o) -> v = 0.
Proof. intro H. apply in_map_iff in H as [[k x] [E _]]. cbn in E. now inversion E. Qed.

(* ------------------------------------------------------------------ (2) sorted contents *)
Lemma sorted_from_weaken lo lo' ls : lo' <= lo -> sorted_from lo ls = true -> sorted_from lo' ls = true.
Proof.
  destruct ls as [|l r]; cbn; [reflexivity|]. intros Hle H.
  apply andb_true_iff in H as [H1 H2]. apply andb_true_iff. split; [lia | assumption].
Qed.
Lemma sorted_from_gt lo ls : sorted_from lo ls = true -> forall l, In l ls -> lo < l_end l.
Proof.
  revert lo. induction ls as [|x r IH]; intros lo H l Hin; [contradiction|].
  cbn in H. apply andb_true_iff in H as [H1 H2]. destruct Hin as [->|Hin]; [lia|].
  specialize (IH _ H2 _ Hin). lia.
Qed.
Lemma top_ge lo ls : sorted_from lo ls = true -> lo <= top lo ls.
Proof.
  revert lo. induction ls as [|x r IH]; intros lo H; cbn; [lia|].
  cbn in H. apply andb_true_iff in H as [H1 H2]. specialize (IH _ H2). lia.
Qed.
Lemma top_max lo ls : sorted_from lo ls = true -> forall l, In l ls -> l_end l <= top lo ls.
Proof.
  revert lo. induction ls as [|x r IH]; intros lo H l Hin; [contradiction|].
  cbn in H. apply andb_true_iff in H as [H1 H2]. cbn [top]. destruct Hin as [->|Hin].
  - now apply top_ge.
  - now apply IH.
Qed.
Lemma sorted_from_app lo a b :
  sorted_from lo a = true -> sorted_from (top lo a) b = true -> sorted_from lo (a ++ b) = true.
Proof.
  revert lo. induction a as [|x r IH]; intros lo Ha Hb; cbn in *; [assumption|].
  apply andb_true_iff in Ha as [H1 H2]. apply andb_true_iff. split; [assumption | now apply IH].
Qed.
Lemma top_app lo a b : top lo (a ++ b) = top (top lo a) b.
Proof. revert lo. induction a as [|x r IH]; intros lo; cbn; [reflexivity | apply IH]. Qed.

(* the next line after [p] is the unique closest one *)
Lemma find_next lo c p l :
  sorted_from lo c = true -> find (fun l => p <? l_end l) c = Some l ->
  In l c /\ p < l_end l /\ forall l', In l' c -> p < l_end l' -> l' = l \/ l_end l < l_end l'.
Proof.
  revert lo. induction c as [|x r IH]; intros lo Hs Hf; [discriminate|].
  cbn in Hs, Hf. apply andb_true_iff in Hs as [H1 H2].
  destruct (p <? l_end x) eqn:E.
  - inversion Hf; subst. split; [now left|]. split; [lia|].
    intros l' [->|Hin] _; [now left|]. right. pose proof (sorted_from_gt _ _ H2 _ Hin). lia.
  - destruct (IH _ H2 Hf) as [Hi [Hp Hu]]. split; [now right|]. split; [assumption|].
    intros l' [->|Hin] Hl'; [lia | now apply Hu].
Qed.
Lemma find_none p c : find (fun l => p <? l_end l) c = None -> forall l, In l c -> l_end l <= p.
Proof.
  intros H l Hin. pose proof (find_none _ _ H _ Hin) as Hx. cbn in Hx. lia.
Qed.

(* ------------------------------------------------------------------ (3) flight lists *)
Definition fend (e : ev) : Z := l_end (e_line e).
Fixpoint incr_from (lo : Z) (zs : list Z) : Prop :=
  match zs with [] => True | z :: r => lo < z /\ incr_from z r end.

Lemma incr_from_weaken lo lo' zs : lo' <= lo -> incr_from lo zs -> incr_from lo' zs.
Proof. destruct zs; cbn; [trivial|]. intros ? [? ?]. split; [lia | assumption]. Qed.
Lemma incr_from_gt lo zs : incr_from lo zs -> forall z, In z zs -> lo < z.
Proof.
  revert lo. induction zs as [|x r IH]; intros lo H z Hin; [contradiction|].
  destruct H as [H1 H2]. destruct Hin as [->|Hin]; [assumption|]. specialize (IH _ H2 _ Hin). lia.
Qed.
Lemma incr_from_snoc lo zs z :
  incr_from lo zs -> lo < z -> (forall x, In x zs -> x < z) -> incr_from lo (zs ++ [z]).
Proof.
  revert lo. induction zs as [|x r IH]; intros lo H Hlo Hall; cbn.
  - split; [assumption | trivial].
  - destruct H as [H1 H2]. split; [assumption|]. apply IH; [assumption | apply Hall; now left | intros y Hy; apply Hall; now right].
Qed.
Lemma incr_from_mid lo a z b :
  incr_from lo (a ++ z :: b) ->
  (forall x, In x a -> x < z) /\ (forall x, In x b -> z < x) /\ incr_from lo (a ++ b).
Proof.
  revert lo. induction a as [|x r IH]; intros lo H; cbn in *.
  - destruct H as [H1 H2]. split; [intros ? []|]. split; [now apply incr_from_gt|].
    apply incr_from_weaken with z; [lia | assumption].
  - destruct H as [H1 H2]. destruct (IH _ H2) as [Ha [Hb Hc]]. split.
    + intros y [E|Hy]; [subst y|now apply Ha].
      assert (Hin : In z (r ++ z :: b)) by (apply in_or_app; right; now left).
      exact (incr_from_gt _ _ H2 _ Hin).
    + split; [assumption | split; assumption].
Qed.

Lemma nth_split {A} (l : list A) k e :
  nth_error l k = Some e -> l = firstn k l ++ e :: skipn (S k) l.
Proof.
  revert k. induction l as [|x r IH]; intros [|k] H; cbn in *; try discriminate.
  - now inversion H.
  - f_equal. now apply IH.
Qed.

(* ------------------------------------------------------------------ (4) the invariant *)
Definition live (fl : list ev) : list ev := filter (fun e => negb (e_old e)) fl.
Lemma live_app a b : live (a ++ b) = live a ++ live b.
Proof. apply filter_app. Qed.
Lemma live_In e fl : In e (live fl) <-> In e fl /\ e_old e = false.
Proof. unfold live. rewrite filter_In. now rewrite negb_true_iff. Qed.
Lemma live_cons_new e fl : e_old e = false -> live (e :: fl) = e :: live fl.
Proof. intro H. unfold live. cbn. now rewrite H. Qed.
Lemma live_cons_old e fl : e_old e = true -> live (e :: fl) = live fl.
Proof. intro H. unfold live. cbn. now rewrite H. Qed.

Definition entries_sound (st : state) (o : offsets) : Prop :=
  forall s v, In (s, v) o -> forall l, In l (content st) -> l_stream l = s -> l_end l <= v ->
    In l (ever st) \/ In l (gone st).
Definition entries_le (st : state) (o : offsets) : Prop :=
  forall s v, In (s, v) o -> v <= top 0 (content st).

Record Inv (st : state) : Prop := {
  i_sorted : sorted_from 0 (content st) = true;
  i_part : 0 <= partial st;
  i_cover : forall l, In l (content st) ->
      In l (ever st) \/ In l (gone st) \/ In l (map e_line (live (flight st))) \/
      (pos st < l_end l /\ pass_event (cur st) l = true);
  i_cur : entries_sound st (cur st);
  i_curle : entries_le st (cur st);
  i_pos : pos st <= top 0 (content st);
  i_fin : forall e, In e (live (flight st)) -> In (e_line e) (content st) /\ fend e <= pos st;
  i_fincr : incr_from 0 (map fend (live (flight st)));
  i_fdone : forall e, In e (live (flight st)) -> e_done e = true -> In (e_line e) (ever st);
  i_fpass : forall e, In e (live (flight st)) -> pass_event (cur st) (e_line e) = true;
  i_fold : forall e, In e (flight st) -> e_old e = true -> e_seq e <= ign st;
  i_nopanic : panicked st = false;
  i_disk : fresh st = true ->
      entries_sound st (loaded (disk st)) /\ entries_le st (loaded (disk st)) /\ disk st <> Some []
}.

Lemma inv_init : Inv init.
Proof.
  assert (S0 : entries_sound init []) by (intros ? ? []).
  assert (L0 : entries_le init []) by (intros ? ? []).
  constructor; cbn; try reflexivity; try lia; try (intros; contradiction); try trivial.
  intros _. split; [assumption|]. split; [assumption|discriminate].
Qed.

Lemma pass_set_same cur s v l : l_stream l = s -> pass_event (set_off s v cur) l = (v <? l_end l).
Proof. intro H. unfold pass_event. rewrite H, lookup_set_same. reflexivity. Qed.
Lemma pass_set_other cur s v l : l_stream l <> s -> pass_event (set_off s v cur) l = pass_event cur l.
Proof. intro H. unfold pass_event. now rewrite lookup_set_other. Qed.

Lemma some_inj {A} (x y : A) : Some x = Some y -> x = y.
Proof. now inversion 1. Qed.
Ltac inv_step H := unfold step in H.
Ltac mk_inv := constructor; unfold entries_sound, entries_le;
  cbn [upd content partial pos tail cur disk flight seqs last_seq ign panicked ever gone out fresh].

(* the invariant does not look at [out], [seqs], [last_seq], [tail]; of the flight list it sees the live part and
   the SeqIDs of the old events *)
Lemma inv_same_core st st' :
  Inv st ->
  content st' = content st -> partial st' = partial st -> pos st' = pos st -> cur st' = cur st ->
  disk st' = disk st -> ever st' = ever st -> gone st' = gone st -> fresh st' = fresh st ->
  panicked st' = panicked st -> live (flight st') = live (flight st) ->
  (forall e, In e (flight st') -> e_old e = true -> e_seq e <= ign st') ->
  Inv st'.
Proof.
  intros I E1 E2 E3 E4 E5 E6 E7 E8 E9 E10 Hold.
  constructor; unfold entries_sound, entries_le; rewrite ?E1, ?E2, ?E3, ?E4, ?E5, ?E6, ?E7, ?E8, ?E9, ?E10;
  [ exact (i_sorted _ I) | exact (i_part _ I) | exact (i_cover _ I) | exact (i_cur _ I) | exact (i_curle _ I)
  | exact (i_pos _ I) | exact (i_fin _ I) | exact (i_fincr _ I) | exact (i_fdone _ I) | exact (i_fpass _ I)
  | exact Hold | exact (i_nopanic _ I) | exact (i_disk _ I) ].
Qed.

(* ---- one lemma per action ---- *)
Lemma step_append st ls part st' : Inv st -> step st (AAppend ls part) = Some st' -> Inv st'.
Proof.
  intros I H. inv_step H. rewrite (i_nopanic _ I) in H; cbv beta iota zeta in H.
  destruct (sorted_from (fsize st) ls && (0 <=? part)) eqn:E; [|discriminate]. apply some_inj in H; subst st'.
  apply andb_true_iff in E as [Es Ep]. unfold fsize in Es.
  pose proof (i_part _ I) as Hp0.
  assert (Es' : sorted_from (top 0 (content st)) ls = true) by (eapply sorted_from_weaken; [|exact Es]; lia).
  assert (Hs : sorted_from 0 (content st ++ ls) = true) by (apply sorted_from_app; [apply I | exact Es']).
  assert (Htop : top 0 (content st) <= top 0 (content st ++ ls)) by (rewrite top_app; now apply top_ge).
  assert (Hnew : forall l, In l ls -> top 0 (content st) < l_end l) by (intros l Hl; exact (sorted_from_gt _ _ Es' _ Hl)).
  mk_inv.
  - exact Hs.
  - destruct ls; lia.
  - intros l Hin. apply in_app_or in Hin as [Hin|Hin]; [now apply (i_cover _ I)|].
    right; right; right. pose proof (Hnew _ Hin). pose proof (i_pos _ I). split; [lia|].
    unfold pass_event. destruct (lookup (l_stream l) (cur st)) eqn:El; [|reflexivity].
    apply lookup_In in El. pose proof (i_curle _ I _ _ El). lia.
  - intros s v Hsv l Hin Hst Hle. apply in_app_or in Hin as [Hin|Hin]; [now apply (i_cur _ I s v)|].
    pose proof (Hnew _ Hin). pose proof (i_curle _ I _ _ Hsv). lia.
  - intros s v Hsv. pose proof (i_curle _ I _ _ Hsv). lia.
  - pose proof (i_pos _ I). lia.
  - intros e He. destruct (i_fin _ I _ He) as [H1 H2]. split; [apply in_or_app; now left | assumption].
  - apply I.
  - apply I.
  - apply I.
  - apply I.
  - reflexivity.
  - intro Hf. destruct (i_disk _ I Hf) as [D1 [D2 D3]]. split; [|split; [|assumption]].
    + intros s v Hsv l Hin Hst Hle. apply in_app_or in Hin as [Hin|Hin]; [now apply (D1 s v)|].
      pose proof (Hnew _ Hin). pose proof (D2 _ _ Hsv). lia.
    + intros s v Hsv. pose proof (D2 _ _ Hsv). lia.
Qed.

Lemma step_read st st' : Inv st -> step st ARead = Some st' -> Inv st'.
Proof.
  intros I H. inv_step H. rewrite (i_nopanic _ I) in H; cbv beta iota zeta in H. unfold next_line in H.
  destruct (find (fun l => pos st <? l_end l) (content st)) as [l|] eqn:Ef; [|discriminate].
  destruct (find_next _ _ _ _ (i_sorted _ I) Ef) as [Hin [Hpl Huniq]].
  pose proof (top_max _ _ (i_sorted _ I) _ Hin) as Hletop.
  pose proof (sorted_from_gt _ _ (i_sorted _ I) _ Hin) as Hpos0.
  destruct (pass_event (cur st) l) eqn:Ep; apply some_inj in H; subst st'; mk_inv;
    rewrite ?live_app, ?(live_cons_new (mkE _ l false false) []) by reflexivity; cbn [live filter].
  - apply I.
  - apply I.
  - intros l' Hin'. destruct (i_cover _ I _ Hin') as [C|[C|[C|[C1 C2]]]].
    + now left.
    + right; now left.
    + right; right; left. rewrite map_app. apply in_or_app. now left.
    + destruct (Huniq _ Hin' C1) as [->|Hlt].
      * right; right; left. rewrite map_app. apply in_or_app. right. now left.
      * right; right; right. split; [lia | assumption].
  - exact (i_cur _ I).
  - exact (i_curle _ I).
  - exact Hletop.
  - intros e He. apply in_app_or in He as [He|[<-|[]]].
    + destruct (i_fin _ I _ He). split; [assumption | lia].
    + unfold fend; cbn. split; [assumption | lia].
  - rewrite map_app. cbn [map]. apply incr_from_snoc; [apply I | unfold fend; cbn; lia |].
    intros x Hx. apply in_map_iff in Hx as [e [<- He]]. destruct (i_fin _ I _ He). unfold fend in *; cbn. lia.
  - intros e He Hd. apply in_app_or in He as [He|[<-|[]]]; [now apply (i_fdone _ I) | cbn in Hd; discriminate].
  - intros e He. apply in_app_or in He as [He|[<-|[]]]; [now apply (i_fpass _ I) | exact Ep].
  - intros e He Ho. apply in_app_or in He as [He|[<-|[]]]; [now apply (i_fold _ I) | cbn in Ho; discriminate].
  - reflexivity.
  - exact (i_disk _ I).
  - apply I.
  - apply I.
  - intros l' Hin'. destruct (i_cover _ I _ Hin') as [C|[C|[C|[C1 C2]]]].
    + now left.
    + right; now left.
    + right; right; now left.
    + destruct (Huniq _ Hin' C1) as [->|Hlt].
      * unfold pass_event in Ep. destruct (lookup (l_stream l) (cur st)) as [z|] eqn:El; [|discriminate].
        apply lookup_In in El. assert (Hz : l_end l <= z) by lia.
        destruct (i_cur _ I _ _ El _ Hin eq_refl Hz) as [?|?]; [now left | right; now left].
      * right; right; right. split; [lia | assumption].
  - exact (i_cur _ I).
  - exact (i_curle _ I).
  - exact Hletop.
  - intros e He. destruct (i_fin _ I _ He). split; [assumption | lia].
  - apply I.
  - apply I.
  - apply I.
  - apply I.
  - reflexivity.
  - exact (i_disk _ I).
Qed.

Lemma step_readeof st st' : Inv st -> step st AReadEOF = Some st' -> Inv st'.
Proof.
  intros I H. inv_step H. rewrite (i_nopanic _ I) in H; cbv beta iota zeta in H.
  destruct (next_line st); [discriminate|]. apply some_inj in H; subst st'.
  apply (inv_same_core st); cbn [upd content partial pos tail cur disk flight ign panicked ever gone fresh];
    try reflexivity; [assumption | symmetry; apply I | exact (i_fold _ I)].
Qed.

Lemma step_readjunk st st' : Inv st -> step st AReadJunk = Some st' -> Inv st'.
Proof.
  intros I H. inv_step H. rewrite (i_nopanic _ I) in H; cbv beta iota zeta in H. apply some_inj in H; subst st'.
  apply (inv_same_core st); cbn [upd content partial pos tail cur disk flight ign panicked ever gone fresh];
    try reflexivity; [assumption | symmetry; apply I | exact (i_fold _ I)].
Qed.

Lemma in_mid {A} (a b : list A) (e e' x : A) : In x (a ++ e' :: b) -> x = e' \/ In x (a ++ e :: b).
Proof.
  intro H. apply in_app_or in H as [H|[H|H]].
  - right. apply in_or_app. now left.
  - now left.
  - right. apply in_or_app. right. now right.
Qed.
Lemma in_drop {A} (a b : list A) (e x : A) : In x (a ++ b) -> In x (a ++ e :: b).
Proof. intro H. apply in_app_or in H as [H|H]; apply in_or_app; [now left | right; now right]. Qed.

Lemma step_deliver st k st' : Inv st -> step st (ADeliver k) = Some st' -> Inv st'.
Proof.
  intros I H. inv_step H. rewrite (i_nopanic _ I) in H; cbv beta iota zeta in H.
  destruct (nth_error (flight st) k) as [e|] eqn:En; [|discriminate].
  destruct (e_done e) eqn:Ed; [discriminate|]. apply some_inj in H; subst st'.
  pose proof (nth_split _ _ _ En) as Hsp.
  remember (firstn k (flight st)) as a eqn:Ea. remember (skipn (S k) (flight st)) as b eqn:Eb. clear Ea Eb.
  assert (He : In e (flight st)) by (rewrite Hsp; apply in_or_app; right; now left).
  destruct (e_old e) eqn:Eo.
  - (* an event read before a truncation: the invariant does not see it *)
    apply (inv_same_core st); cbn [upd content partial pos tail cur disk flight ign panicked ever gone fresh]; try reflexivity; try assumption.
    + symmetry. apply I.
    + rewrite Hsp, !live_app. rewrite (live_cons_old e) by assumption. rewrite live_cons_old by reflexivity. reflexivity.
    + intros x Hx Hox. apply (in_mid _ _ e) in Hx as [->|Hx]; [cbn; now apply (i_fold _ I e) | apply (i_fold _ I); [now rewrite Hsp | assumption]].
  - remember (mkE (e_seq e) (e_line e) true false) as e' eqn:Ee'.
    assert (Hl' : e_line e' = e_line e) by now subst e'.
    assert (Ho' : e_old e' = false) by now subst e'.
    assert (Hf' : fend e' = fend e) by now subst e'.
    clear Ee'.
    assert (HL : live (flight st) = live a ++ e :: live b) by (rewrite Hsp, live_app, live_cons_new by assumption; reflexivity).
    assert (HL' : live (a ++ e' :: b) = live a ++ e' :: live b) by (rewrite live_app, live_cons_new by assumption; reflexivity).
    assert (HeL : In e (live (flight st))) by (apply live_In; auto).
    assert (Hml : map e_line (live a ++ e' :: live b) = map e_line (live (flight st)))
      by (rewrite HL; rewrite !map_app; cbn [map]; now rewrite Hl').
    assert (Hmf : map fend (live a ++ e' :: live b) = map fend (live (flight st)))
      by (rewrite HL; rewrite !map_app; cbn [map]; now rewrite Hf').
    assert (Hold : forall x, In x (live a ++ e' :: live b) -> x = e' \/ In x (live (flight st)))
      by (intros x Hx; rewrite HL; now apply in_mid).
    mk_inv; rewrite ?HL'.
    + apply I.
    + apply I.
    + intros l Hin. rewrite Hml. destruct (i_cover _ I _ Hin) as [C|[C|[C|C]]];
        [left; now right | right; now left | right; right; now left | right; right; now right].
    + intros s v Hsv l Hin Hs Hle. destruct (i_cur _ I _ _ Hsv _ Hin Hs Hle); [left; now right | now right].
    + exact (i_curle _ I).
    + apply I.
    + intros x Hx. destruct (Hold _ Hx) as [->|Hx']; [rewrite Hl', Hf'; exact (i_fin _ I _ HeL) | exact (i_fin _ I _ Hx')].
    + rewrite Hmf. apply I.
    + intros x Hx Hd. destruct (Hold _ Hx) as [->|Hx']; [rewrite Hl'; now left | right; now apply (i_fdone _ I)].
    + intros x Hx. destruct (Hold _ Hx) as [->|Hx']; [rewrite Hl'; exact (i_fpass _ I _ HeL) | exact (i_fpass _ I _ Hx')].
    + intros x Hx Hox. apply (in_mid _ _ e) in Hx as [->|Hx]; [congruence | apply (i_fold _ I); [now rewrite Hsp | assumption]].
    + reflexivity.
    + intro Hf. destruct (i_disk _ I Hf) as [D1 [D2 D3]]. split; [|split; assumption].
      intros s v Hsv l Hin Hs Hle. destruct (D1 _ _ Hsv _ Hin Hs Hle); [left; now right | now right].
Qed.

Definition st_commit (st : state) (fl : list ev) (cur' : offsets) : state :=
  upd st (content st) (partial st) (pos st) (tail st) cur' (disk st) fl (seqs st) (last_seq st) (ign st) false
      (ever st) (gone st) (out st) (fresh st).

Lemma commit_old_inv st a e b :
  Inv st -> flight st = a ++ e :: b -> e_old e = true -> Inv (st_commit st (a ++ b) (cur st)).
Proof.
  intros I Hsp Ho. apply (inv_same_core st); unfold st_commit;
    cbn [upd content partial pos tail cur disk flight ign panicked ever gone fresh]; try reflexivity; try assumption.
  - symmetry. apply I.
  - rewrite Hsp, !live_app, live_cons_old by assumption. reflexivity.
  - intros x Hx Hox. apply (i_fold _ I); [rewrite Hsp; now apply in_drop | assumption].
Qed.

Lemma commit_ign_inv st a e b :
  Inv st -> flight st = a ++ e :: b -> e_old e = false -> e_done e = true -> Inv (st_commit st (a ++ b) (cur st)).
Proof.
  intros I Hsp Ho Hd. unfold st_commit.
  assert (HL : live (flight st) = live a ++ e :: live b) by (rewrite Hsp, live_app, live_cons_new by assumption; reflexivity).
  assert (He : In e (live (flight st))) by (rewrite HL; apply in_or_app; right; now left).
  assert (Hsub : forall x, In x (live a ++ live b) -> In x (live (flight st))) by (intros x Hx; rewrite HL; now apply in_drop).
  mk_inv; rewrite ?live_app; try apply I.
  - intros l Hin. destruct (i_cover _ I _ Hin) as [C|[C|[C|C]]]; [now left | right; now left | | right; right; now right].
    rewrite HL, map_app in C. cbn [map] in C. apply in_app_or in C as [C|[C|C]].
    + right; right; left. rewrite map_app. apply in_or_app. now left.
    + left. rewrite <- C. now apply (i_fdone _ I).
    + right; right; left. rewrite map_app. apply in_or_app. now right.
  - intros x Hx. exact (i_fin _ I _ (Hsub _ Hx)).
  - pose proof (i_fincr _ I) as Hi. rewrite HL, map_app in Hi. cbn [map] in Hi.
    apply incr_from_mid in Hi as [_ [_ Hi]]. now rewrite map_app.
  - intros x Hx. exact (i_fdone _ I _ (Hsub _ Hx)).
  - intros x Hx. exact (i_fpass _ I _ (Hsub _ Hx)).
  - intros x Hx Hox. apply (i_fold _ I); [rewrite Hsp; now apply in_drop | assumption].
  - reflexivity.
Qed.

Lemma commit_set_inv st a e b :
  Inv st -> flight st = a ++ e :: b -> e_old e = false -> e_done e = true ->
  forallb (fun e' => negb (same_stream (l_stream (e_line e)) e')) a = true ->
  Inv (st_commit st (a ++ b) (set_off (l_stream (e_line e)) (l_end (e_line e)) (cur st))).
Proof.
  intros I Hsp Ho Hd Hfirst. unfold st_commit.
  set (s := l_stream (e_line e)) in *. set (v := l_end (e_line e)) in *.
  assert (HL : live (flight st) = live a ++ e :: live b) by (rewrite Hsp, live_app, live_cons_new by assumption; reflexivity).
  assert (He : In e (live (flight st))) by (rewrite HL; apply in_or_app; right; now left).
  assert (Hsub : forall x, In x (live a ++ live b) -> In x (live (flight st))) by (intros x Hx; rewrite HL; now apply in_drop).
  destruct (i_fin _ I _ He) as [Hec Hev]. unfold fend in Hev. fold v in Hev.
  pose proof (i_fincr _ I) as Hi. rewrite HL, map_app in Hi. cbn [map] in Hi.
  apply incr_from_mid in Hi as [Hbefore [Hafter Hrest]].
  assert (Hfirst' : forall x, In x (live a) -> l_stream (e_line x) <> s).
  { intros x Hx Hs. apply live_In in Hx as [Hx _]. rewrite forallb_forall in Hfirst. specialize (Hfirst _ Hx).
    unfold same_stream in Hfirst. fold s in Hfirst. rewrite Hs, stream_eqb_refl in Hfirst. discriminate. }
  assert (Hlater : forall x, In x (live a ++ live b) -> l_stream (e_line x) = s -> v < fend x).
  { intros x Hx Hs. apply in_app_or in Hx as [Hx|Hx]; [exfalso; exact (Hfirst' _ Hx Hs)|].
    apply Hafter. apply in_map_iff. eauto. }
  mk_inv; rewrite ?live_app.
  - apply I.
  - apply I.
  - intros l Hin. destruct (i_cover _ I _ Hin) as [C|[C|[C|[C1 C2]]]]; [now left | right; now left | |].
    + rewrite HL, map_app in C. cbn [map] in C. apply in_app_or in C as [C|[C|C]].
      * right; right; left. rewrite map_app. apply in_or_app. now left.
      * left. rewrite <- C. now apply (i_fdone _ I).
      * right; right; left. rewrite map_app. apply in_or_app. now right.
    + right; right; right. split; [assumption|].
      destruct (stream_eqb (l_stream l) s) eqn:Es.
      * apply stream_eqb_eq in Es. rewrite pass_set_same by assumption. lia.
      * apply stream_eqb_neq in Es. now rewrite pass_set_other.
  - intros s' v' Hsv l Hin Hs Hle. apply in_set_off in Hsv as [[-> ->]|Hsv]; [|exact (i_cur _ I _ _ Hsv _ Hin Hs Hle)].
    destruct (i_cover _ I _ Hin) as [C|[C|[C|[C1 C2]]]]; [now left | now right | | lia].
    rewrite HL in C. apply in_map_iff in C as [x [Hxl Hx]]. apply in_app_or in Hx as [Hx|[Hx|Hx]].
    + exfalso. apply (Hfirst' _ Hx). now rewrite Hxl.
    + subst x. left. rewrite <- Hxl. now apply (i_fdone _ I).
    + exfalso. assert (Hv : v < fend x) by (apply Hafter; apply in_map_iff; eauto). unfold fend in Hv. rewrite Hxl in Hv. lia.
  - intros s' v' Hsv. apply in_set_off in Hsv as [[-> ->]|Hsv]; [|exact (i_curle _ I _ _ Hsv)].
    pose proof (i_pos _ I). lia.
  - apply I.
  - intros x Hx. exact (i_fin _ I _ (Hsub _ Hx)).
  - now rewrite map_app.
  - intros x Hx. exact (i_fdone _ I _ (Hsub _ Hx)).
  - intros x Hx. destruct (stream_eqb (l_stream (e_line x)) s) eqn:Es.
    + apply stream_eqb_eq in Es. rewrite pass_set_same by assumption. pose proof (Hlater _ Hx Es). unfold fend in *. lia.
    + apply stream_eqb_neq in Es. rewrite pass_set_other by assumption. exact (i_fpass _ I _ (Hsub _ Hx)).
  - intros x Hx Hox. apply (i_fold _ I); [rewrite Hsp; now apply in_drop | assumption].
  - reflexivity.
  - exact (i_disk _ I).
Qed.

Lemma step_commit st k st' : Inv st -> step st (ACommit k) = Some st' -> Inv st'.
Proof.
  intros I H. inv_step H. rewrite (i_nopanic _ I) in H; cbv beta iota zeta in H.
  destruct (nth_error (flight st) k) as [e|] eqn:En; [|discriminate].
  destruct (e_done e && forallb (fun e' => negb (same_stream (l_stream (e_line e)) e')) (firstn k (flight st))) eqn:Ec; [|discriminate].
  apply andb_true_iff in Ec as [Hd Hfirst].
  pose proof (nth_split _ _ _ En) as Hsp.
  assert (He : In e (flight st)) by (rewrite Hsp; apply in_or_app; right; now left).
  destruct (e_old e) eqn:Eo.
  - pose proof (i_fold _ I _ He Eo) as Hq. replace (e_seq e <=? ign st) with true in H by lia.
    apply some_inj in H; subst st'. exact (commit_old_inv _ _ _ _ I Hsp Eo).
  - destruct (e_seq e <=? ign st).
    + apply some_inj in H; subst st'. exact (commit_ign_inv _ _ _ _ I Hsp Eo Hd).
    + assert (HeL : In e (live (flight st))) by (apply live_In; auto).
      pose proof (i_fpass _ I _ HeL) as Hp. unfold pass_event in Hp.
      destruct (lookup (l_stream (e_line e)) (cur st)) as [v|] eqn:El.
      * destruct (l_end (e_line e) <=? v) eqn:Ev; [lia|].
        apply some_inj in H; subst st'. exact (commit_set_inv _ _ _ _ I Hsp Eo Hd Hfirst).
      * apply some_inj in H; subst st'. exact (commit_set_inv _ _ _ _ I Hsp Eo Hd Hfirst).
Qed.

Lemma step_save st st' : Inv st -> step st ASave = Some st' -> Inv st'.
Proof.
  intros I H. inv_step H. rewrite (i_nopanic _ I) in H; cbv beta iota zeta in H. apply some_inj in H; subst st'.
  mk_inv; try apply I; try reflexivity.
  intros _. destruct (cur st) as [|kv r] eqn:Ec; cbn [loaded].
  - split; [intros ? ? []|]. split; [intros ? ? []|discriminate].
  - split; [|split; [|discriminate]].
    + pose proof (i_cur _ I) as Hc. unfold entries_sound in Hc. now rewrite Ec in Hc.
    + pose proof (i_curle _ I) as Hc. unfold entries_le in Hc. now rewrite Ec in Hc.
Qed.

Lemma skipped_In content acc d l :
  In l (skipped content acc d) <-> In l content /\ l_end l <= seek_of d /\ ~ In l acc.
Proof.
  unfold skipped. rewrite filter_In. split.
  - intros [Hin Hb]. apply andb_true_iff in Hb as [H1 H2]. apply negb_true_iff in H2. apply mem_false in H2.
    split; [assumption|]. split; [lia | assumption].
  - intros [Hin [H1 H2]]. split; [assumption|]. apply andb_true_iff. split; [lia|].
    apply negb_true_iff. now apply mem_false.
Qed.

Lemma top0_ge c : sorted_from 0 c = true -> 0 <= top 0 c.
Proof. apply top_ge. Qed.

Lemma step_crash st st' : Inv st -> fresh st = true -> step st ACrash = Some st' -> Inv st'.
Proof.
  intros I Hf H. inv_step H. rewrite (i_nopanic _ I) in H; cbv beta iota zeta in H. apply some_inj in H; subst st'.
  destruct (i_disk _ I Hf) as [D1 [D2 D3]].
  mk_inv; unfold live; cbn [filter map].
  - apply I.
  - apply I.
  - intros l Hin.
    destruct (mem l (ever st)) eqn:Em; [left; now apply mem_In|]. apply mem_false in Em.
    destruct (Z_le_gt_dec (l_end l) (seek_of (disk st))) as [Hle|Hgt].
    + right; left. apply in_or_app. left. apply skipped_In. auto.
    + destruct (pass_event (loaded (disk st)) l) eqn:Ep; [right; right; right; split; [lia | first [assumption | reflexivity]]|].
      unfold pass_event in Ep. destruct (lookup (l_stream l) (loaded (disk st))) as [z|] eqn:El; [|discriminate].
      apply lookup_In in El. assert (Hz : l_end l <= z) by lia.
      destruct (D1 _ _ El _ Hin eq_refl Hz) as [?|?]; [contradiction | right; left; apply in_or_app; now right].
  - intros s v Hsv l Hin Hs Hle. destruct (D1 _ _ Hsv _ Hin Hs Hle) as [?|?]; [now left | right; apply in_or_app; now right].
  - exact D2.
  - destruct (disk st) as [d|]; cbn [seek_of].
    + destruct d as [|[k x] r]; [exfalso; apply D3; reflexivity|]. cbn [loaded] in D2.
      assert (Hk : In (k, x) ((k, x) :: r)) by now left.
      pose proof (min_off_le _ _ _ Hk). pose proof (D2 _ _ Hk). lia.
    + apply top0_ge. apply I.
  - intros ? [].
  - cbn; trivial.
  - intros ? [].
  - intros ? [].
  - intros ? [].
  - reflexivity.
  - intros _. split; [|split; assumption].
    intros s v Hsv l Hin Hs Hle. destruct (D1 _ _ Hsv _ Hin Hs Hle) as [?|?]; [now left | right; apply in_or_app; now right].
Qed.

Lemma live_all_old fl : live (map (fun e => mkE (e_seq e) (e_line e) (e_done e) true) fl) = [].
Proof. induction fl as [|x r IH]; [reflexivity|]. cbn [map]. now rewrite live_cons_old. Qed.

Lemma step_truncate st ls part st' :
  Inv st -> trunc_safe st = true -> step st (ATruncate ls part) = Some st' -> Inv st'.
Proof.
  intros I Hsafe H. inv_step H. rewrite (i_nopanic _ I) in H; cbv beta iota zeta in H.
  destruct (sorted_from 0 ls && (0 <=? part) && (top 0 ls + part <? pos st + tail st)) eqn:E; [|discriminate].
  apply some_inj in H; subst st'. apply andb_true_iff in E as [E E3]. apply andb_true_iff in E as [E1 E2].
  mk_inv; rewrite ?live_all_old; cbn [map].
  - assumption.
  - lia.
  - intros l Hin. right; right; right. pose proof (sorted_from_gt _ _ E1 _ Hin). split; [lia|].
    unfold pass_event. destruct (lookup _ _) as [z|] eqn:El; [|reflexivity]. apply lookup_zeroed in El. lia.
  - intros s v Hsv l Hin Hs Hle. apply in_zeroed in Hsv. pose proof (sorted_from_gt _ _ E1 _ Hin). lia.
  - intros s v Hsv. apply in_zeroed in Hsv. pose proof (top0_ge _ E1). lia.
  - now apply top0_ge.
  - intros ? [].
  - cbn; trivial.
  - intros ? [].
  - intros ? [].
  - intros e He _. apply in_map_iff in He as [x [<- Hx]]. cbn.
    unfold trunc_safe in Hsafe. rewrite forallb_forall in Hsafe. specialize (Hsafe _ Hx). lia.
  - reflexivity.
  - discriminate.
Qed.

Lemma step_inv st a st' : Inv st -> adm st a = true -> step st a = Some st' -> Inv st'.
Proof.
  intros I Ha H. destruct a.
  - eapply step_append; eauto.
  - eapply step_read; eauto.
  - eapply step_readeof; eauto.
  - eapply step_readjunk; eauto.
  - eapply step_deliver; eauto.
  - eapply step_commit; eauto.
  - eapply step_save; eauto.
  - eapply step_crash; eauto.
  - eapply step_truncate; eauto.
Qed.

Lemma run_adm_inv acts : forall st st', Inv st -> run_adm st acts = Some st' -> Inv st'.
Proof.
  induction acts as [|a r IH]; intros st st' I H; cbn in H.
  - now inversion H; subst.
  - destruct (adm st a) eqn:Ea; [|discriminate]. destruct (step st a) as [st1|] eqn:Es; [|discriminate].
    eapply IH; [|exact H]. eapply step_inv; eauto.
Qed.

Lemma run_adm_app a b : forall st, run_adm st (a ++ b) = match run_adm st a with Some st1 => run_adm st1 b | None => None end.
Proof.
  induction a as [|x r IH]; intros st; cbn; [reflexivity|].
  destruct (adm st x); [|reflexivity]. destruct (step st x); [apply IH | reflexivity].
Qed.

(* ------------------------------------------------------------------ (5) restart facts, single stream *)
Lemma resume_In content d l :
  In l (resume_delivered content d) <-> In l content /\ seek_of d < l_end l /\ pass_event (loaded d) l = true.
Proof.
  unfold resume_delivered. rewrite filter_In, andb_true_iff. split; intros [H1 H2]; (split; [assumption|]).
  - destruct H2. split; [lia | assumption].
  - destruct H2. split; [lia | assumption].
Qed.

(* at any instant: a line is delivered, or was skipped by an earlier restart, or a restart now skips it,
   or a restart now hands it to the pipeline again *)
Lemma crash_cover st : Inv st -> fresh st = true -> forall l, In l (content st) ->
  In l (ever st) \/ In l (gone st) \/ In l (skipped (content st) (ever st) (disk st)) \/
  In l (resume_delivered (content st) (disk st)).
Proof.
  intros I Hf l Hin. destruct (i_disk _ I Hf) as [D1 [D2 D3]].
  destruct (mem l (ever st)) eqn:Em; [left; now apply mem_In|]. apply mem_false in Em.
  destruct (Z_le_gt_dec (l_end l) (seek_of (disk st))) as [Hle|Hgt].
  - right; right; left. apply skipped_In. auto.
  - destruct (pass_event (loaded (disk st)) l) eqn:Ep.
    + right; right; right. apply resume_In. split; [assumption|]. split; [lia | assumption].
    + unfold pass_event in Ep. destruct (lookup (l_stream l) (loaded (disk st))) as [z|] eqn:El; [|discriminate].
      apply lookup_In in El. assert (Hz : l_end l <= z) by lia.
      destruct (D1 _ _ El _ Hin eq_refl Hz) as [?|?]; [contradiction | right; now left].
Qed.

(* a skipped line belongs to a stream without a saved entry (given sound entries) *)
Lemma skipped_unsaved st : Inv st -> fresh st = true -> forall l,
  In l (skipped (content st) (ever st) (disk st)) -> ~ In l (gone st) ->
  lookup (l_stream l) (loaded (disk st)) = None /\ disk st <> None.
Proof.
  intros I Hf l Hs Hg. destruct (i_disk _ I Hf) as [D1 [D2 D3]].
  apply skipped_In in Hs as [Hin [Hle Hne]]. split.
  - destruct (lookup (l_stream l) (loaded (disk st))) as [z|] eqn:El; [|reflexivity].
    apply lookup_In in El. pose proof (min_off_le _ _ _ El) as Hm.
    assert (Hz : l_end l <= z).
    { destruct (disk st) as [d|]; cbn [seek_of loaded] in *; [lia | contradiction]. }
    destruct (D1 _ _ El _ Hin eq_refl Hz); contradiction.
  - intro Hd. rewrite Hd in Hle. cbn in Hle. pose proof (sorted_from_gt _ _ (i_sorted _ I) _ Hin). lia.
Qed.

Definition SS (s0 : stream) (st : state) : Prop :=
  (forall l, In l (content st) -> l_stream l = s0) /\
  (forall e, In e (flight st) -> l_stream (e_line e) = s0) /\
  (forall s v, In (s, v) (cur st) -> s = s0) /\
  (forall s v, In (s, v) (loaded (disk st)) -> s = s0).

Lemma ss_init s0 : SS s0 init.
Proof. repeat split; cbn; intros; contradiction. Qed.

Lemma act_single_lines s0 a : forallb (fun l => stream_eqb (l_stream l) s0) (act_lines a) = true ->
  forall l, In l (act_lines a) -> l_stream l = s0.
Proof. intros H l Hl. rewrite forallb_forall in H. apply stream_eqb_eq. now apply H. Qed.

Lemma step_ss s0 st a st' :
  Inv st -> SS s0 st -> forallb (fun l => stream_eqb (l_stream l) s0) (act_lines a) = true ->
  step st a = Some st' -> SS s0 st'.
Proof.
  intros I [S1 [S2 [S3 S4]]] Ha H. pose proof (act_single_lines _ _ Ha) as Hl. clear Ha.
  inv_step H. rewrite (i_nopanic _ I) in H; cbv beta iota zeta in H.
  destruct a; cbn [act_lines] in Hl.
  - destruct (sorted_from (fsize st) ls && (0 <=? part)); [|discriminate]. apply some_inj in H; subst st'.
    repeat split; cbn [upd content flight cur disk]; try assumption.
    intros l Hin. apply in_app_or in Hin as [?|?]; [now apply S1 | now apply Hl].
  - unfold next_line in H. destruct (find (fun l => pos st <? l_end l) (content st)) as [l|] eqn:Ef; [|discriminate].
    apply find_some in Ef as [Hin _].
    destruct (pass_event (cur st) l); apply some_inj in H; subst st';
      repeat split; cbn [upd content flight cur disk]; try assumption.
    intros e He. apply in_app_or in He as [He|[<-|[]]]; [now apply S2 | cbn; now apply S1].
  - destruct (next_line st); [discriminate|]. apply some_inj in H; subst st'. repeat split; assumption.
  - apply some_inj in H; subst st'. repeat split; assumption.
  - destruct (nth_error (flight st) k) as [e|] eqn:En; [|discriminate].
    destruct (e_done e); [discriminate|]. apply some_inj in H; subst st'.
    pose proof (nth_split _ _ _ En) as Hsp.
    repeat split; cbn [upd content flight cur disk]; try assumption.
    intros x Hx. apply in_app_or in Hx as [Hx|[<-|Hx]].
    + apply S2. rewrite Hsp. apply in_or_app. now left.
    + cbn. apply S2. rewrite Hsp. apply in_or_app. right. now left.
    + apply S2. rewrite Hsp. apply in_or_app. right. now right.
  - destruct (nth_error (flight st) k) as [e|] eqn:En; [|discriminate].
    destruct (e_done e && _); [|discriminate].
    pose proof (nth_split _ _ _ En) as Hsp.
    assert (He : In e (flight st)) by (rewrite Hsp; apply in_or_app; right; now left).
    assert (Hfl : forall x, In x (firstn k (flight st) ++ skipn (S k) (flight st)) -> l_stream (e_line x) = s0).
    { intros x Hx. apply S2. rewrite Hsp. now apply in_drop. }
    assert (Hset : forall s v, In (s, v) (set_off (l_stream (e_line e)) (l_end (e_line e)) (cur st)) -> s = s0).
    { intros s v Hsv. apply in_set_off in Hsv as [[-> _]|Hsv]; [now apply S2 | now apply (S3 s v)]. }
    destruct (e_seq e <=? ign st).
    + apply some_inj in H; subst st'. repeat split; cbn [upd content flight cur disk]; assumption.
    + destruct (lookup (l_stream (e_line e)) (cur st)) as [v|].
      * destruct (l_end (e_line e) <=? v); apply some_inj in H; subst st';
          repeat split; cbn [upd content flight cur disk]; assumption.
      * apply some_inj in H; subst st'. repeat split; cbn [upd content flight cur disk]; assumption.
  - apply some_inj in H; subst st'. repeat split; cbn [upd content flight cur disk]; try assumption.
    destruct (cur st) eqn:Ec; cbn [loaded]; [intros ? ? [] | assumption].
  - apply some_inj in H; subst st'. repeat split; cbn [upd content flight cur disk]; try assumption.
    intros ? [].
  - destruct (sorted_from 0 ls && (0 <=? part) && (top 0 ls + part <? pos st + tail st)); [|discriminate].
    apply some_inj in H; subst st'. repeat split; cbn [upd content flight cur disk]; try assumption.
    + intros e He. apply in_map_iff in He as [x [<- Hx]]. cbn. now apply S2.
    + intros s v Hsv. apply in_map_iff in Hsv as [[k x] [E Hx]]. cbn in E. inversion E; subst. now apply (S3 s x).
Qed.

Lemma nil_of_no_elem {A} (l : list A) : (forall x, ~ In x l) -> l = [].
Proof. destruct l as [|x r]; [reflexivity|]. intro H. exfalso. apply (H x). now left. Qed.

Lemma step_gone_single s0 st a st' :
  Inv st -> SS s0 st -> gone st = [] -> adm st a = true -> step st a = Some st' -> gone st' = [].
Proof.
  intros I [S1 [S2 [S3 S4]]] Hg Ha H.
  inv_step H. rewrite (i_nopanic _ I) in H; cbv beta iota zeta in H.
  destruct a.
  - destruct (sorted_from (fsize st) ls && (0 <=? part)); [|discriminate]. apply some_inj in H; now subst st'.
  - destruct (next_line st) as [l|]; [|discriminate]. destruct (pass_event (cur st) l); apply some_inj in H; now subst st'.
  - destruct (next_line st); [discriminate|]. apply some_inj in H; now subst st'.
  - apply some_inj in H; now subst st'.
  - destruct (nth_error (flight st) k) as [e|]; [|discriminate]. destruct (e_done e); [discriminate|].
    apply some_inj in H; now subst st'.
  - destruct (nth_error (flight st) k) as [e|]; [|discriminate]. destruct (e_done e && _); [|discriminate].
    destruct (e_seq e <=? ign st); [apply some_inj in H; now subst st'|].
    destruct (lookup (l_stream (e_line e)) (cur st)) as [v|];
      [destruct (l_end (e_line e) <=? v)|]; apply some_inj in H; now subst st'.
  - apply some_inj in H; now subst st'.
  - cbn in Ha. apply some_inj in H; subst st'. cbn [upd gone]. rewrite Hg, app_nil_r.
    apply nil_of_no_elem. intros l Hs.
    destruct (skipped_unsaved _ I Ha _ Hs) as [Hn Hd]; [rewrite Hg; intros []|].
    apply skipped_In in Hs as [Hin _].
    destruct (disk st) as [d|] eqn:Ed; [|congruence]. cbn [loaded] in *.
    destruct (i_disk _ I Ha) as [_ [_ D3]]. rewrite Ed in D3.
    destruct d as [|[k x] r]; [exfalso; apply D3; reflexivity|].
    assert (Hk : k = s0) by (apply (S4 k x); now left). subst k.
    rewrite <- (S1 _ Hin) in Hn. cbn in Hn. now rewrite stream_eqb_refl in Hn.
  - destruct (sorted_from 0 ls && (0 <=? part) && (top 0 ls + part <? pos st + tail st)); [|discriminate].
    apply some_inj in H; now subst st'.
Qed.

Lemma run_adm_single s0 acts : forall st st',
  Inv st -> SS s0 st -> gone st = [] -> acts_single s0 acts = true -> run_adm st acts = Some st' ->
  Inv st' /\ SS s0 st' /\ gone st' = [].
Proof.
  induction acts as [|a r IH]; intros st st' I S Hg Hs H; cbn in H.
  - apply some_inj in H; subst. auto.
  - cbn in Hs. apply andb_true_iff in Hs as [Hs1 Hs2].
    destruct (adm st a) eqn:Ea; [|discriminate]. destruct (step st a) as [st1|] eqn:Es; [|discriminate].
    eapply IH; [ | | | exact Hs2 | exact H].
    + eapply step_inv; eauto.
    + eapply step_ss; eauto.
    + eapply step_gone_single; eauto.
Qed.

(* ------------------------------------------------------------------ (6) theorems *)
Theorem no_line_lost_invariant acts st :
  run_adm init acts = Some st ->
  forall l, In l (content st) ->
    In l (ever st) \/ In l (gone st) \/ In l (map e_line (live (flight st))) \/
    (pos st < l_end l /\ pass_event (cur st) l = true).
Proof. intros H. apply (i_cover _ (run_adm_inv _ _ _ inv_init H)). Qed.

Theorem commit_never_panics acts st : run_adm init acts = Some st -> panicked st = false.
Proof. intros H. apply (i_nopanic _ (run_adm_inv _ _ _ inv_init H)). Qed.

Lemma no_loss_b_spec content a b :
  no_loss_b content a b = true <-> forall l, In l content -> In l a \/ In l b.
Proof.
  unfold no_loss_b. rewrite forallb_forall. split; intros H l Hl; specialize (H l Hl).
  - apply orb_true_iff in H as [H|H]; apply mem_In in H; auto.
  - apply orb_true_iff. destruct H as [H|H]; apply mem_In in H; auto.
Qed.

Theorem resume_no_loss_single_stream_adm s0 acts st :
  acts_single s0 acts = true -> run_adm init acts = Some st -> fresh st = true ->
  no_loss_b (content st) (ever st) (resume_delivered (content st) (disk st)) = true.
Proof.
  intros Hs H Hf. destruct (run_adm_single s0 acts _ _ inv_init (ss_init s0) eq_refl Hs H) as [I [S Hg]].
  apply no_loss_b_spec. intros l Hin.
  destruct (crash_cover _ I Hf _ Hin) as [C|[C|[C|C]]]; [now left | rewrite Hg in C; contradiction | | now right].
  exfalso. destruct (skipped_unsaved _ I Hf _ C) as [Hn Hd]; [rewrite Hg; intros []|].
  apply skipped_In in C as [_ _]. destruct S as [S1 [_ [_ S4]]].
  destruct (disk st) as [d|] eqn:Ed; [|congruence]. cbn [loaded] in *.
  destruct (i_disk _ I Hf) as [_ [_ D3]]. rewrite Ed in D3.
  destruct d as [|[k x] r]; [exfalso; apply D3; reflexivity|].
  assert (Hk : k = s0) by (apply (S4 k x); now left). subst k.
  rewrite <- (S1 _ Hin) in Hn. cbn in Hn. now rewrite stream_eqb_refl in Hn.
Qed.

(* without truncation every history is admissible *)
Lemma step_fresh st a st' :
  (match a with ATruncate _ _ => false | _ => true end) = true -> step st a = Some st' -> fresh st = true -> fresh st' = true.
Proof.
  intros Ha H Hf. unfold step in H.
  destruct (panicked st); destruct a; try discriminate;
    repeat match type of H with
           | (if ?c then _ else _) = Some _ => destruct c
           | match ?x with _ => _ end = Some _ => destruct x
           end; try discriminate; apply some_inj in H; subst st'; cbn; assumption || reflexivity.
Qed.

Lemma run_adm_no_truncate acts : forall st, fresh st = true -> no_truncate acts = true -> run_adm st acts = run st acts.
Proof.
  induction acts as [|a r IH]; intros st Hf Hn; cbn; [reflexivity|].
  cbn in Hn. apply andb_true_iff in Hn as [Hn1 Hn2].
  assert (Ha : adm st a = true) by (destruct a; cbn; try reflexivity; [assumption | discriminate]).
  rewrite Ha. destruct (step st a) as [st1|] eqn:Es; [|reflexivity].
  apply IH; [eapply step_fresh; eauto | assumption].
Qed.
Lemma run_no_truncate_fresh acts : forall st st', fresh st = true -> no_truncate acts = true -> run st acts = Some st' -> fresh st' = true.
Proof.
  induction acts as [|a r IH]; intros st st' Hf Hn H; cbn in H.
  - apply some_inj in H; now subst.
  - cbn in Hn. apply andb_true_iff in Hn as [Hn1 Hn2]. destruct (step st a) as [st1|] eqn:Es; [|discriminate].
    eapply IH; [eapply step_fresh; eauto | assumption | exact H].
Qed.

Theorem resume_no_loss_single_stream s0 acts st :
  no_truncate acts = true -> acts_single s0 acts = true -> run init acts = Some st ->
  no_loss_b (content st) (ever st) (resume_delivered (content st) (disk st)) = true.
Proof.
  intros Hn Hs H. eapply resume_no_loss_single_stream_adm; [exact Hs | | ].
  - rewrite run_adm_no_truncate; [exact H | reflexivity | exact Hn].
  - eapply run_no_truncate_fresh; [| exact Hn | exact H]. reflexivity.
Qed.

(* the restart step of the transition system hands over exactly [resume_delivered] *)
Theorem restart_reads_resume_set st st' :
  step st ACrash = Some st' ->
  content st' = content st /\ flight st' = [] /\ ever st' = ever st /\
  filter (fun l => (pos st' <? l_end l) && pass_event (cur st') l) (content st') = resume_delivered (content st) (disk st).
Proof.
  intro H. unfold step in H. destruct (panicked st); apply some_inj in H; subst st'; cbn; auto.
Qed.

(* exact side condition for several streams *)
Theorem resume_multi_stream_partial acts st :
  run_adm init acts = Some st -> fresh st = true -> gone st = [] ->
  ((forall l, In l (content st) -> ~ In l (ever st) ->
      lookup (l_stream l) (loaded (disk st)) <> None \/ seek_of (disk st) < l_end l)
   <-> no_loss_b (content st) (ever st) (resume_delivered (content st) (disk st)) = true).
Proof.
  intros H Hf Hg. pose proof (run_adm_inv _ _ _ inv_init H) as I. rewrite no_loss_b_spec. split.
  - intros Hc l Hin. destruct (crash_cover _ I Hf _ Hin) as [C|[C|[C|C]]]; [now left | rewrite Hg in C; contradiction | | now right].
    destruct (mem l (ever st)) eqn:Em; [left; now apply mem_In|]. apply mem_false in Em. exfalso.
    destruct (skipped_unsaved _ I Hf _ C) as [Hn Hd]; [rewrite Hg; intros []|].
    apply skipped_In in C as [_ [Hle _]]. destruct (Hc _ Hin Em) as [Hx|Hx]; [contradiction | lia].
  - intros Hc l Hin Hne. destruct (Hc _ Hin) as [?|Hr]; [contradiction|]. apply resume_In in Hr as [_ [Hr _]]. now right.
Qed.

(* the general statement behind it: what is neither delivered nor handed over again was skipped by a restart, and a
   line skipped now belongs to a stream without a saved entry and lies at or before the seek point *)
Theorem resume_multi_stream_lost_exactly acts st :
  run_adm init acts = Some st -> fresh st = true ->
  forall l, In l (content st) ->
    In l (ever st) \/ In l (resume_delivered (content st) (disk st)) \/ In l (gone st) \/
    (lookup (l_stream l) (loaded (disk st)) = None /\ disk st <> None /\ l_end l <= seek_of (disk st)).
Proof.
  intros H Hf l Hin. pose proof (run_adm_inv _ _ _ inv_init H) as I.
  destruct (crash_cover _ I Hf _ Hin) as [C|[C|[C|C]]]; [now left | right; right; now left | | right; now left].
  destruct (In_dec (fun a b => match Bool.bool_dec (line_eqb a b) true with
                               | left e => left (proj1 (line_eqb_eq a b) e)
                               | right n => right (fun e => n (proj2 (line_eqb_eq a b) e)) end) l (gone st)) as [Hg|Hg];
    [right; right; now left|].
  destruct (skipped_unsaved _ I Hf _ C Hg) as [Hn Hd]. apply skipped_In in C as [_ [Hle _]].
  right; right; right. auto.
Qed.

Lemma filter_all {A} (f : A -> bool) (l : list A) : (forall x, In x l -> f x = true) -> filter f l = l.
Proof.
  induction l as [|x r IH]; intro H; cbn; [reflexivity|].
  rewrite (H x) by now left. f_equal. apply IH. intros y Hy. apply H. now right.
Qed.

(* ---- truncation ---- *)
Theorem truncate_restart acts st ls part st' :
  run_adm init acts = Some st -> trunc_safe st = true -> step st (ATruncate ls part) = Some st' ->
  content st' = ls /\ pos st' = 0 /\ tail st' = 0 /\ (forall s v, In (s, v) (cur st') -> v = 0) /\
  filter (fun l => (pos st' <? l_end l) && pass_event (cur st') l) ls = ls /\
  top 0 ls + part < pos st + tail st /\
  forall acts2 st2, run_adm st' acts2 = Some st2 ->
    forall l, In l (content st2) ->
      In l (ever st2) \/ In l (gone st2) \/ In l (map e_line (live (flight st2))) \/
      (pos st2 < l_end l /\ pass_event (cur st2) l = true).
Proof.
  intros H Hfl Hs. pose proof (run_adm_inv _ _ _ inv_init H) as I.
  pose proof (step_truncate _ _ _ _ I Hfl Hs) as I'.
  unfold step in Hs. rewrite (i_nopanic _ I) in Hs; cbv beta iota zeta in Hs.
  destruct (sorted_from 0 ls && (0 <=? part) && (top 0 ls + part <? pos st + tail st)) eqn:E; [|discriminate].
  apply andb_true_iff in E as [E E3]. apply andb_true_iff in E as [E1 E2].
  assert (Hc : content st' = ls) by (apply some_inj in Hs; now subst st').
  assert (Hp : pos st' = 0) by (apply some_inj in Hs; now subst st').
  assert (Ht : tail st' = 0) by (apply some_inj in Hs; now subst st').
  assert (Hz : forall s v, In (s, v) (cur st') -> v = 0).
  { apply some_inj in Hs; subst st'. cbn. intros s v Hsv. now apply in_zeroed in Hsv. }
  repeat split; try assumption; try lia.
  - rewrite Hp. apply filter_all. intros l Hl.
    assert (Hl0 : 0 < l_end l) by (apply (sorted_from_gt _ _ E1); assumption).
    assert (Hpass : pass_event (cur st') l = true).
    { unfold pass_event. destruct (lookup _ _) as [z|] eqn:El; [|reflexivity]. apply lookup_In in El. apply Hz in El. lia. }
    rewrite Hpass. apply andb_true_iff. split; [lia | reflexivity].
  - intros acts2 st2 H2. apply (i_cover _ (run_adm_inv _ _ _ I' H2)).
Qed.

(* ---- the same facts stated directly on (content, delivered set, saved entry): the form the harness evaluates ---- *)
Lemma snap_sound_b_spec content acc o :
  snap_sound_b content acc o = true <->
  forall s v, In (s, v) o -> forall l, In l content -> l_stream l = s -> l_end l <= v -> In l acc.
Proof.
  unfold snap_sound_b. rewrite forallb_forall. split.
  - intros H s v Hsv l Hin Hs Hle. specialize (H _ Hsv). rewrite forallb_forall in H. specialize (H _ Hin).
    cbn [fst snd] in H. apply orb_true_iff in H as [H|H]; [|now apply mem_In].
    apply negb_true_iff in H. apply andb_false_iff in H as [H|H]; [apply stream_eqb_neq in H; contradiction | lia].
  - intros H [s v] Hsv. rewrite forallb_forall. intros l Hin. cbn [fst snd].
    destruct (stream_eqb (l_stream l) s) eqn:Es; [|reflexivity]. destruct (l_end l <=? v) eqn:Ev; [|reflexivity].
    apply stream_eqb_eq in Es. cbn. apply mem_In. apply (H s v); [assumption | assumption | assumption | lia].
Qed.

Theorem direct_cover content acc d :
  snap_sound_b content acc (loaded d) = true ->
  forall l, In l content ->
    In l acc \/ In l (skipped content acc d) \/ In l (resume_delivered content d).
Proof.
  intros Hs l Hin. rewrite snap_sound_b_spec in Hs.
  destruct (mem l acc) eqn:Em; [left; now apply mem_In|]. apply mem_false in Em.
  destruct (Z_le_gt_dec (l_end l) (seek_of d)) as [Hle|Hgt].
  - right; left. apply skipped_In. auto.
  - destruct (pass_event (loaded d) l) eqn:Ep.
    + right; right. apply resume_In. split; [assumption|]. split; [lia | assumption].
    + unfold pass_event in Ep. destruct (lookup (l_stream l) (loaded d)) as [z|] eqn:El; [|discriminate].
      apply lookup_In in El. assert (Hz : l_end l <= z) by lia.
      exfalso. apply Em. exact (Hs _ _ El _ Hin eq_refl Hz).
Qed.

Theorem direct_skipped_unsaved content acc d :
  sorted_from 0 content = true -> snap_sound_b content acc (loaded d) = true ->
  forall l, In l (skipped content acc d) ->
    lookup (l_stream l) (loaded d) = None /\ d <> None /\ l_end l <= seek_of d /\ ~ In l (resume_delivered content d).
Proof.
  intros Hso Hs l Hsk. rewrite snap_sound_b_spec in Hs. apply skipped_In in Hsk as [Hin [Hle Hne]].
  split; [|split; [|split; [assumption|]]].
  - destruct (lookup (l_stream l) (loaded d)) as [z|] eqn:El; [|reflexivity].
    apply lookup_In in El. pose proof (min_off_le _ _ _ El) as Hm.
    assert (Hz : l_end l <= z) by (destruct d as [o|]; cbn [seek_of loaded] in *; [lia | contradiction]).
    exfalso. apply Hne. exact (Hs _ _ El _ Hin eq_refl Hz).
  - intro Hd. subst d. cbn in Hle. pose proof (sorted_from_gt _ _ Hso _ Hin). lia.
  - intro Hr. apply resume_In in Hr as [_ [Hr _]]. lia.
Qed.

Theorem direct_single_stream content acc d s0 :
  sorted_from 0 content = true -> (forall l, In l content -> l_stream l = s0) ->
  (forall s v, In (s, v) (loaded d) -> s = s0) -> d <> Some [] ->
  snap_sound_b content acc (loaded d) = true ->
  no_loss_b content acc (resume_delivered content d) = true.
Proof.
  intros Hso Hone Hkeys Hne Hs. apply no_loss_b_spec. intros l Hin.
  destruct (direct_cover _ _ _ Hs _ Hin) as [C|[C|C]]; [now left | | now right].
  exfalso. destruct (direct_skipped_unsaved _ _ _ Hso Hs _ C) as [Hn [Hd _]].
  destruct d as [o|]; [|exfalso; apply Hd; reflexivity]. cbn [loaded] in *.
  destruct o as [|[k x] r]; [exfalso; apply Hne; reflexivity|].
  assert (Hk : k = s0) by (apply (Hkeys k x); now left). subst k.
  rewrite <- (Hone _ Hin) in Hn. cbn in Hn. now rewrite stream_eqb_refl in Hn.
Qed.

(* the interface hypothesis of the direct theorems is what the transition system guarantees at every kill instant *)
Theorem reachable_snap_sound acts st :
  run_adm init acts = Some st -> fresh st = true ->
  snap_sound_b (content st) (ever st ++ gone st) (loaded (disk st)) = true /\ disk st <> Some [] /\
  sorted_from 0 (content st) = true.
Proof.
  intros H Hf. pose proof (run_adm_inv _ _ _ inv_init H) as I. destruct (i_disk _ I Hf) as [D1 [_ D3]].
  split; [|split; [assumption | apply I]]. apply snap_sound_b_spec.
  intros s v Hsv l Hin Hs Hle. apply in_or_app. exact (D1 _ _ Hsv _ Hin Hs Hle).
Qed.

(* ---- truncation while events are in flight (repaired worker: job.lastEventSeq = SeqID of the last ACCEPTED line) ----
   [Q1] (any number of streams): every event in flight carries a SeqID <= the counter of its stream.
   [QS] (one stream): the counter of every stream is <= lastEventSeq, and only s0 has a counter.            *)
Definition Q1 (st : state) : Prop :=
  forall e, In e (flight st) -> exists n, lookup (l_stream (e_line e)) (seqs st) = Some n /\ e_seq e <= n.
Definition QS (s0 : stream) (st : state) : Prop :=
  (forall s n, lookup s (seqs st) = Some n -> n <= last_seq st) /\
  (forall s n, In (s, n) (seqs st) -> s = s0).

Lemma q1_init : Q1 init.
Proof. intros ? []. Qed.
Lemma qs_init s0 : QS s0 init.
Proof. split; [cbn; discriminate | intros ? ? []]. Qed.

Lemma step_q1 st a st' : Inv st -> Q1 st -> step st a = Some st' -> Q1 st'.
Proof.
  intros I Q H.
  inv_step H. rewrite (i_nopanic _ I) in H; cbv beta iota zeta in H.
  destruct a.
  - destruct (sorted_from (fsize st) ls && (0 <=? part)); [|discriminate]. apply some_inj in H; subst st'; unfold Q1; cbn [upd flight seqs].
    exact Q.
  - unfold next_line in H. destruct (find (fun l => pos st <? l_end l) (content st)) as [l|] eqn:Ef; [|discriminate].
    destruct (pass_event (cur st) l); apply some_inj in H; subst st'; unfold Q1; cbn [upd flight seqs]; [|exact Q].
    set (q := next_seq (l_stream l) (seqs st)).
    assert (Hq : forall n, lookup (l_stream l) (seqs st) = Some n -> n < q)
      by (intros n Hn; unfold q, next_seq; rewrite Hn; lia).
    intros e He. apply in_app_or in He as [He|[<-|[]]].
    + destruct (Q _ He) as [n [Hn Hle]].
      destruct (stream_eqb (l_stream (e_line e)) (l_stream l)) eqn:Es.
      * apply stream_eqb_eq in Es. rewrite Es in *. exists q. rewrite lookup_set_same. split; [reflexivity|].
        pose proof (Hq _ Hn). lia.
      * apply stream_eqb_neq in Es. exists n. rewrite lookup_set_other by assumption. auto.
    + cbn. exists q. rewrite lookup_set_same. split; [reflexivity | lia].
  - destruct (next_line st); [discriminate|]. apply some_inj in H; subst st'; unfold Q1; cbn [upd flight seqs]. exact Q.
  - apply some_inj in H; subst st'; unfold Q1; cbn [upd flight seqs]. exact Q.
  - destruct (nth_error (flight st) k) as [e|] eqn:En; [|discriminate].
    destruct (e_done e); [discriminate|]. apply some_inj in H; subst st'; unfold Q1; cbn [upd flight seqs].
    pose proof (nth_split _ _ _ En) as Hsp.
    intros x Hx. apply (in_mid _ _ e) in Hx as [->|Hx]; [cbn; apply Q; rewrite Hsp; apply in_or_app; right; now left|].
    apply Q. now rewrite Hsp.
  - destruct (nth_error (flight st) k) as [e|] eqn:En; [|discriminate].
    destruct (e_done e && _); [|discriminate].
    pose proof (nth_split _ _ _ En) as Hsp.
    assert (Hfl : forall x, In x (firstn k (flight st) ++ skipn (S k) (flight st)) ->
                  exists n, lookup (l_stream (e_line x)) (seqs st) = Some n /\ e_seq x <= n).
    { intros x Hx. apply Q. rewrite Hsp. now apply in_drop. }
    destruct (e_seq e <=? ign st); [apply some_inj in H; subst st'; unfold Q1; cbn [upd flight seqs]; exact Hfl|].
    destruct (lookup (l_stream (e_line e)) (cur st)) as [v|];
      [destruct (l_end (e_line e) <=? v)|]; apply some_inj in H; subst st'; unfold Q1; cbn [upd flight seqs]; exact Hfl.
  - apply some_inj in H; subst st'; unfold Q1; cbn [upd flight seqs]. exact Q.
  - apply some_inj in H; subst st'; unfold Q1; cbn [upd flight seqs]. intros ? [].
  - destruct (sorted_from 0 ls && (0 <=? part) && (top 0 ls + part <? pos st + tail st)); [|discriminate].
    apply some_inj in H; subst st'; unfold Q1; cbn [upd flight seqs].
    intros e He. apply in_map_iff in He as [x [<- Hx]]. cbn. now apply Q.
Qed.

Lemma step_qs s0 st a st' : Inv st -> SS s0 st -> QS s0 st -> step st a = Some st' -> QS s0 st'.
Proof.
  intros I [S1 [S2 [S3 S4]]] [Q2 Q3] H.
  inv_step H. rewrite (i_nopanic _ I) in H; cbv beta iota zeta in H.
  destruct a.
  - destruct (sorted_from (fsize st) ls && (0 <=? part)); [|discriminate]. apply some_inj in H; subst st'; unfold QS; cbn [upd seqs last_seq].
    split; [exact Q2 | exact Q3].
  - unfold next_line in H. destruct (find (fun l => pos st <? l_end l) (content st)) as [l|] eqn:Ef; [|discriminate].
    apply find_some in Ef as [Hin _].
    destruct (pass_event (cur st) l); apply some_inj in H; subst st'; unfold QS; cbn [upd seqs last_seq]; [|split; [exact Q2 | exact Q3]].
    set (q := next_seq (l_stream l) (seqs st)). split.
    + intros s n Hn. destruct (stream_eqb s (l_stream l)) eqn:Es.
      * apply stream_eqb_eq in Es. subst s. rewrite lookup_set_same in Hn. apply some_inj in Hn. lia.
      * apply stream_eqb_neq in Es. rewrite lookup_set_other in Hn by assumption.
        exfalso. apply Es. apply lookup_In in Hn. rewrite (Q3 _ _ Hn). symmetry. now apply S1.
    + intros s n Hsn. apply in_set_off in Hsn as [[-> _]|Hsn]; [now apply S1 | now apply (Q3 s n)].
  - destruct (next_line st); [discriminate|]. apply some_inj in H; subst st'; unfold QS; cbn [upd seqs last_seq]. split; [exact Q2 | exact Q3].
  - apply some_inj in H; subst st'; unfold QS; cbn [upd seqs last_seq]. split; [exact Q2 | exact Q3].
  - destruct (nth_error (flight st) k) as [e|] eqn:En; [|discriminate].
    destruct (e_done e); [discriminate|]. apply some_inj in H; subst st'; unfold QS; cbn [upd seqs last_seq]. split; [exact Q2 | exact Q3].
  - destruct (nth_error (flight st) k) as [e|] eqn:En; [|discriminate].
    destruct (e_done e && _); [|discriminate].
    destruct (e_seq e <=? ign st); [apply some_inj in H; subst st'; unfold QS; cbn [upd seqs last_seq]; split; [exact Q2 | exact Q3]|].
    destruct (lookup (l_stream (e_line e)) (cur st)) as [v|];
      [destruct (l_end (e_line e) <=? v)|]; apply some_inj in H; subst st'; unfold QS; cbn [upd seqs last_seq]; (split; [exact Q2 | exact Q3]).
  - apply some_inj in H; subst st'; unfold QS; cbn [upd seqs last_seq]. split; [exact Q2 | exact Q3].
  - apply some_inj in H; subst st'; unfold QS; cbn [upd seqs last_seq]. split; [cbn; discriminate | intros ? ? []].
  - destruct (sorted_from 0 ls && (0 <=? part) && (top 0 ls + part <? pos st + tail st)); [|discriminate].
    apply some_inj in H; subst st'; unfold QS; cbn [upd seqs last_seq]. split; [exact Q2 | exact Q3].
Qed.

(* any number of streams: the side condition holds as soon as the counter of every stream that has an event in flight
   is <= lastEventSeq *)
Lemma q1_trunc_safe st :
  Q1 st ->
  (forall e n, In e (flight st) -> lookup (l_stream (e_line e)) (seqs st) = Some n -> n <= last_seq st) ->
  trunc_safe st = true.
Proof.
  intros Q Hc. unfold trunc_safe. apply forallb_forall. intros e He. destruct (Q _ He) as [n [Hn Hle]].
  pose proof (Hc _ _ He Hn). lia.
Qed.
Lemma qs_trunc_safe s0 st : Q1 st -> QS s0 st -> trunc_safe st = true.
Proof. intros Q [Q2 _]. apply q1_trunc_safe; [exact Q|]. intros e n _ Hn. exact (Q2 _ _ Hn). Qed.

Lemma run_adm_q1 acts : forall st st', Inv st -> Q1 st -> run_adm st acts = Some st' -> Q1 st'.
Proof.
  induction acts as [|a r IH]; intros st st' I Q H; cbn in H.
  - apply some_inj in H; now subst.
  - destruct (adm st a) eqn:Ea; [|discriminate]. destruct (step st a) as [st1|] eqn:Es; [|discriminate].
    eapply IH; [ | | exact H]; [eapply step_inv; eauto | eapply step_q1; eauto].
Qed.

Lemma run_adm_qs s0 acts : forall st st',
  Inv st -> SS s0 st -> QS s0 st -> acts_single s0 acts = true -> run_adm st acts = Some st' -> QS s0 st'.
Proof.
  induction acts as [|a r IH]; intros st st' I S Q Hs H; cbn in H.
  - apply some_inj in H; now subst.
  - cbn in Hs. apply andb_true_iff in Hs as [Hs1 Hs2].
    destruct (adm st a) eqn:Ea; [|discriminate]. destruct (step st a) as [st1|] eqn:Es; [|discriminate].
    eapply IH; [ | | | exact Hs2 | exact H].
    + eapply step_inv; eauto.
    + eapply step_ss; eauto.
    + eapply step_qs; eauto.
Qed.

Theorem truncate_inflight_counters acts st :
  run_adm init acts = Some st ->
  (forall e n, In e (flight st) -> lookup (l_stream (e_line e)) (seqs st) = Some n -> n <= last_seq st) ->
  trunc_safe st = true.
Proof.
  intros H Hc. apply q1_trunc_safe; [|exact Hc]. exact (run_adm_q1 acts _ _ inv_init q1_init H).
Qed.

(* ONE stream per file: the side condition holds at every instant of every history, whatever is in flight and
   whatever the last line handed to the pipeline was (accepted, empty, undecodable, already committed) *)
Theorem truncate_inflight_single_stream s0 acts st :
  acts_single s0 acts = true -> run_adm init acts = Some st -> trunc_safe st = true.
Proof.
  intros Hs H. apply (qs_trunc_safe s0).
  - exact (run_adm_q1 acts _ _ inv_init q1_init H).
  - exact (run_adm_qs s0 acts _ _ inv_init (ss_init s0) (qs_init s0) Hs H).
Qed.

(* hence, with one stream per file, truncations need no side condition at all: a history restricted by the kill window
   only ([run_kill]: truncations at any instant) is admissible *)
Lemma run_kill_adm_single s0 acts : forall st st',
  Inv st -> SS s0 st -> Q1 st -> QS s0 st -> acts_single s0 acts = true ->
  run_kill st acts = Some st' -> run_adm st acts = Some st'.
Proof.
  induction acts as [|a r IH]; intros st st' I S Qa Qb Hs H; cbn in H |- *; [exact H|].
  cbn in Hs. apply andb_true_iff in Hs as [Hs1 Hs2].
  destruct (adm_kill st a) eqn:Ek; [|discriminate].
  assert (Ea : adm st a = true).
  { destruct a; cbn in Ek |- *; try reflexivity; [exact Ek | exact (qs_trunc_safe s0 _ Qa Qb)]. }
  rewrite Ea. destruct (step st a) as [st1|] eqn:Es; [|discriminate].
  apply IH; [ | | | | exact Hs2 | exact H].
  - eapply step_inv; eauto.
  - eapply step_ss; eauto.
  - eapply step_q1; eauto.
  - eapply step_qs; eauto.
Qed.

Theorem single_stream_truncations_admissible s0 acts st :
  acts_single s0 acts = true -> run_kill init acts = Some st ->
  run_adm init acts = Some st /\ panicked st = false /\
  (forall l, In l (content st) ->
     In l (ever st) \/ In l (map e_line (live (flight st))) \/ (pos st < l_end l /\ pass_event (cur st) l = true)) /\
  (fresh st = true -> no_loss_b (content st) (ever st) (resume_delivered (content st) (disk st)) = true).
Proof.
  intros Hs H.
  pose proof (run_kill_adm_single s0 acts _ _ inv_init (ss_init s0) q1_init (qs_init s0) Hs H) as Ha.
  destruct (run_adm_single s0 acts _ _ inv_init (ss_init s0) eq_refl Hs Ha) as [I [_ Hg]].
  split; [exact Ha|]. split; [apply I|]. split.
  - intros l Hin. destruct (i_cover _ I _ Hin) as [C|[C|[C|C]]]; [now left | rewrite Hg in C; contradiction | right; now left | right; now right].
  - intro Hf. exact (resume_no_loss_single_stream_adm s0 acts st Hs Ha Hf).
Qed.

(* ------------------------------------------------------------------ (7) witnesses *)
Definition sa : stream := [97%N].
Definition sb : stream := [98%N].
Definition wb1 := mkL 0 43 sb.
Definition wa1 := mkL 1 87 sa.
Definition wa2 := mkL 2 132 sa.
Definition wa3 := mkL 3 178 sa.
(* the file: one line of stream b, three of stream a; all four are read; the b line stays in flight (held by a join,
   a slow output, ...); the a lines are delivered and committed one by one, each commit followed by a save (sync mode) *)
Definition witness_multi : list act :=
  [AAppend [wb1; wa1; wa2; wa3] 0; ARead; ARead; ARead; ARead;
   ADeliver 1; ACommit 1; ASave; ADeliver 1; ACommit 1; ASave; ADeliver 1; ACommit 1; ASave].

Theorem resume_multi_stream_refuted :
  exists acts st st',
    no_truncate acts = true /\ run init acts = Some st /\
    disk st = Some [(sa, 178)] /\ ever st = [wa3; wa2; wa1] /\
    no_loss_b (content st) (ever st) (resume_delivered (content st) (disk st)) = false /\
    (* after the restart nothing is in flight, nothing is left to read, and the b line was never delivered *)
    step st ACrash = Some st' /\ flight st' = [] /\ step st' ARead = None /\
    mem wb1 (content st') = true /\ mem wb1 (ever st') = false /\ gone st' = [wb1].
Proof.
  exists witness_multi.
  destruct (run init witness_multi) as [st|] eqn:E; [|vm_compute in E; discriminate].
  destruct (step st ACrash) as [st'|] eqn:E'; [|vm_compute in E; apply some_inj in E; subst st; vm_compute in E'; discriminate].
  exists st, st'. vm_compute in E. apply some_inj in E. subst st. vm_compute in E'. apply some_inj in E'. subst st'.
  vm_compute. repeat split; reflexivity.
Qed.

(* non-vacuity material *)
Definition wl (i e : Z) := mkL i e sa.
Definition witness_single : list act :=
  [AAppend [wl 0 10; wl 1 20; wl 2 30] 4; ARead; ARead; ADeliver 0; ACommit 0; ASave; ADeliver 0; ARead; AReadEOF;
   ACrash; AAppend [wl 3 40] 0; ARead; ARead; ADeliver 1; ADeliver 0; ACommit 0; ACrash].
Definition witness_trunc : list act :=
  [AAppend [wl 0 10; wl 1 20] 5; ARead; ARead; AReadEOF; ADeliver 0; ADeliver 1; ACommit 0; ACommit 0; ASave].

(* truncation with events in flight, several streams: the last line read is of stream b (per-stream SeqID 1), four
   events of stream a (SeqIDs 1..4) are in flight; ignoreEventsLE = 1 covers only the first of them *)
Definition ta (i e : Z) := mkL i e sa.
Definition witness_trunc_inflight : list act :=
  [AAppend [ta 0 45; ta 1 88; ta 2 131; ta 3 174; mkL 4 217 sb] 0; ARead; ARead; ARead; ARead; ARead; AReadEOF;
   ATruncate [ta 5 43] 0; ARead;
   ADeliver 0; ACommit 0; ADeliver 0; ACommit 0; ADeliver 0; ACommit 0; ADeliver 0; ACommit 0;
   ADeliver 1; ACommit 1].
(* the other order: the old commits land first, then the new line is read — PassEvent rejects it *)
Definition witness_trunc_inflight_skip : list act :=
  [AAppend [ta 0 45; ta 1 88; ta 2 131; ta 3 174; mkL 4 217 sb] 0; ARead; ARead; ARead; ARead; ARead; AReadEOF;
   ATruncate [ta 5 43] 0;
   ADeliver 0; ACommit 0; ADeliver 0; ACommit 0; ADeliver 0; ACommit 0; ADeliver 0; ACommit 0; ADeliver 0; ACommit 0;
   ARead].
(* one stream, the file ends in an empty line, four events in flight at the truncation. Before the repair of the worker
   (lastEventSeq reset to 0 by the empty line) this history ended in the "offset corruption" panic; now lastEventSeq = 4
   = ignoreEventsLE covers the four old events *)
Definition witness_trunc_inflight_junk : list act :=
  [AAppend [ta 0 45; ta 1 88; ta 2 131; ta 3 174] 1; ARead; ARead; ARead; ARead; AReadJunk; AReadEOF;
   ATruncate [ta 5 43] 0; ARead;
   ADeliver 0; ACommit 0; ADeliver 0; ACommit 0; ADeliver 0; ACommit 0; ADeliver 0; ACommit 0;
   ADeliver 0; ACommit 0].
(* the other order: the old commits land before the new line is read *)
Definition witness_trunc_inflight_junk_skip : list act :=
  [AAppend [ta 0 45; ta 1 88; ta 2 131; ta 3 174] 1; ARead; ARead; ARead; ARead; AReadJunk; AReadEOF;
   ATruncate [ta 5 43] 0;
   ADeliver 0; ACommit 0; ADeliver 0; ACommit 0; ADeliver 0; ACommit 0; ADeliver 0; ACommit 0;
   ARead; ADeliver 0; ACommit 0].

Theorem truncate_inflight_refuted :
  (exists st, run init witness_trunc_inflight = Some st /\ panicked st = true) /\
  (exists st, run init witness_trunc_inflight_skip = Some st /\ panicked st = false /\
              content st = [ta 5 43] /\ flight st = [] /\ ever st = [] /\ next_line st = None /\
              cur st = [(sa, 174)] /\ pass_event (cur st) (ta 5 43) = false).
Proof.
  split.
  - destruct (run init witness_trunc_inflight) as [st|] eqn:E; [|vm_compute in E; discriminate].
    exists st. vm_compute in E. apply some_inj in E. subst st. vm_compute. split; reflexivity.
  - destruct (run init witness_trunc_inflight_skip) as [st|] eqn:E; [|vm_compute in E; discriminate].
    exists st. vm_compute in E. apply some_inj in E. subst st. vm_compute. repeat split; reflexivity.
Qed.

(* REPAIRED (worker.go: a line the pipeline does not accept keeps job.lastEventSeq): the single-stream history with an
   empty last line is now admissible (run_adm = run), ignoreEventsLE = 4, nothing panics, the new line (ends at byte 43)
   is read, delivered and its offset committed; nothing is left in flight or unread — in both orders *)
Theorem truncate_inflight_blank_line_repaired :
  acts_single sa witness_trunc_inflight_junk = true /\ acts_single sa witness_trunc_inflight_junk_skip = true /\
  (exists st, run init witness_trunc_inflight_junk = Some st /\ run_adm init witness_trunc_inflight_junk = Some st /\
              panicked st = false /\ ign st = 4 /\ content st = [ta 5 43] /\ ever st = [ta 5 43] /\
              out st = [ta 5 43; ta 3 174; ta 2 131; ta 1 88; ta 0 45] /\
              flight st = [] /\ next_line st = None /\ cur st = [(sa, 43)]) /\
  (exists st, run init witness_trunc_inflight_junk_skip = Some st /\ run_adm init witness_trunc_inflight_junk_skip = Some st /\
              panicked st = false /\ ign st = 4 /\ content st = [ta 5 43] /\ ever st = [ta 5 43] /\
              out st = [ta 5 43; ta 3 174; ta 2 131; ta 1 88; ta 0 45] /\
              flight st = [] /\ next_line st = None /\ cur st = [(sa, 43)]).
Proof.
  split; [vm_compute; reflexivity|]. split; [vm_compute; reflexivity|]. split.
  - destruct (run init witness_trunc_inflight_junk) as [st|] eqn:E; [|vm_compute in E; discriminate].
    exists st. vm_compute in E. apply some_inj in E. subst st. vm_compute. repeat split; reflexivity.
  - destruct (run init witness_trunc_inflight_junk_skip) as [st|] eqn:E; [|vm_compute in E; discriminate].
    exists st. vm_compute in E. apply some_inj in E. subst st. vm_compute. repeat split; reflexivity.
Qed.
