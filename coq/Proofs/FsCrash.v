(* Proofs about Model/FsCrash.v: a protocol accepted by [protocol_safe] keeps the offsets file a complete
   old or new snapshot at every crash point, under every pattern of failing calls. *)
From Verif Require Import Base.Sx Base.GoSem Model.FsCrash.
From Coq Require Import Lia.

Lemma beqb_eq a : forall b, bytes_eqb a b = true <-> a = b.
Proof.
  unfold bytes_eqb. induction a as [|x a IH]; intros [|y b]; cbn [N_eqb_list]; split; intros H;
    try reflexivity; try discriminate.
  - apply andb_true_iff in H. destruct H as [H1 H2]. apply N.eqb_eq in H1. apply IH in H2. subst. reflexivity.
  - inversion H; subst. apply andb_true_iff. split; [apply N.eqb_refl | apply IH; reflexivity].
Qed.

Lemma good_inode_spec new s :
  good_inode new s = true <-> vol s = new /\ dur s = new /\ ws_failed s = false.
Proof.
  unfold good_inode. rewrite !andb_true_iff, !beqb_eq, negb_true_iff. tauto.
Qed.

(* ---- the invariant behind [bad]: once cur is re-bound, the inode is exactly the new snapshot, durably -- *)
Definition inv (new : bytes) (s : fs) : Prop :=
  bad s = false -> cur_new s = true -> vol s = new /\ dur s = new.

Lemma inv_step new s e : inv new s -> inv new (fs_step new s e).
Proof.
  unfold inv, fs_step. intros I.
  destruct e as [op ok n]; cbn [eop eok part]. destruct ok, op; cbn [bad cur_new vol dur]; intros Hb Hc;
    try (apply orb_false_iff in Hb; destruct Hb as [Hb1 Hb2]);
    try (rewrite Hc in *; discriminate);
    try (apply I; assumption).
  - (* sync ok *) destruct (I Hb Hc) as [V _]. split; exact V.
  - (* rename ok *) apply negb_false_iff in Hb2. apply good_inode_spec in Hb2. tauto.
Qed.

Lemma inv_states new : forall evs s, inv new s -> Forall (inv new) (states new s evs).
Proof.
  induction evs as [|e evs IH]; intros s I; cbn [states]; constructor; auto.
  apply IH. apply inv_step. exact I.
Qed.

Lemma inv_fs0 new : inv new fs0.
Proof. unfold inv. cbn. discriminate. Qed.

Lemma in_states_prefix new : forall pre post s, In (fs_run new s pre) (states new s (pre ++ post)).
Proof.
  induction pre as [|e pre IH]; intros post s.
  - cbn [fs_run fold_left app]. destruct post; cbn [states]; left; reflexivity.
  - cbn [app states]. right. apply IH.
Qed.

(* ---- abstraction relation --------------------------------------------------------------------------- *)
Definition vrel (new : bytes) (v : vabs) (b : bytes) : Prop :=
  match v with VEmpty => b = [] | VFull => b = new | VOther => True end.

Record R (new : bytes) (s : fs) (a : afs) : Prop := {
  R_open : fd_open s = a_open a;
  R_tmp : tmp_bound s = a_tmp a;
  R_cur : cur_new s = a_cur a;
  R_wsf : ws_failed s = a_wsf a;
  R_vol : vrel new (a_vol a) (vol s);
  R_dur : a_durfull a = true -> dur s = new;
  R_bad : a_bad a = false -> bad s = false
}.

Lemma R0 new : R new fs0 afs0.
Proof. constructor; cbn; auto; discriminate. Qed.

Lemma R_precond new s a op : R new s a -> precond s op = aprecond a op.
Proof. intros [Ho Ht _ _ _ _ _]. destruct op; cbn; congruence. Qed.

Definition dev_ok (d : option nat) : bool := match d with None => true | Some _ => false end.

Lemma R_step new s a op d : R new s a -> R new (fs_step new s (mk_ev s op d)) (astep a op (dev_ok d)).
Proof.
  intros HR. pose proof (R_precond new s a op HR) as HP.
  destruct HR as [Ho Ht Hc Hw Hv Hd Hb].
  unfold mk_ev, astep, fs_step.
  destruct d as [n|]; cbn [dev_ok eop eok part andb].
  - (* the device fails the call *)
    destruct op; constructor; cbn; try assumption; try reflexivity; try congruence.
    + (* write: bad *) rewrite Hc. intros H. apply orb_false_iff in H. destruct H as [H1 H2].
      rewrite (Hb H1), H2. reflexivity.
  - rewrite <- HP. destruct (precond s op) eqn:EP.
    + destruct op; constructor; cbn; try assumption; try reflexivity; try congruence.
      * (* open: bad *) rewrite Hc. intros H. apply orb_false_iff in H. destruct H as [H1 H2]. rewrite (Hb H1), H2. reflexivity.
      * (* write: vol *) destruct (a_vol a); cbn in *; [rewrite Hv; reflexivity | exact I | exact I].
      * (* write: bad *) rewrite Hc. intros H. apply orb_false_iff in H. destruct H as [H1 H2]. rewrite (Hb H1), H2. reflexivity.
      * (* sync: dur *) intros H. destruct (a_vol a); cbn in *; try discriminate. exact Hv.
      * (* rename: bad *) intros H. apply orb_false_iff in H. destruct H as [H1 H2].
        apply negb_false_iff in H2. apply andb_true_iff in H2. destruct H2 as [H2 H4].
        apply andb_true_iff in H2. destruct H2 as [H2 H3].
        rewrite (Hb H1). cbn [orb]. apply negb_false_iff. apply good_inode_spec.
        destruct (a_vol a); cbn in *; try discriminate.
        apply negb_true_iff in H4. split; [exact Hv|]. split; [apply Hd; exact H3 | congruence].
    + destruct op; cbn in EP; try discriminate; constructor; cbn; try assumption; try reflexivity; try congruence.
      * (* write on a closed descriptor: vol unchanged, abstract says VOther *)
        rewrite Hc. intros H. apply orb_false_iff in H. destruct H as [H1 H2]. rewrite (Hb H1), H2. reflexivity.
Qed.

(* ---- soundness of the decision procedure -------------------------------------------------------------- *)
Definition not_bad (s : fs) : Prop := bad s = false.

Lemma acheck_cleanup_sound new : forall cl o s a,
  R new s a -> acheck_cleanup cl a = true -> Forall not_bad (states new s (run_cleanup new cl o s)).
Proof.
  induction cl as [|op cl IH]; intros o s a HR HC; cbn [acheck_cleanup] in HC;
    apply andb_true_iff in HC; destruct HC as [HB HC]; apply negb_true_iff in HB.
  - cbn [run_cleanup states]. constructor; [apply (R_bad _ _ _ HR HB) | constructor].
  - cbn [run_cleanup]. destruct (next o) as [d o'] eqn:En. cbn [states].
    constructor; [apply (R_bad _ _ _ HR HB)|].
    apply andb_true_iff in HC. destruct HC as [HC1 HC2].
    pose proof (R_step new s a op d HR) as HR'.
    eapply IH; [exact HR'|]. destruct d; [exact HC2 | exact HC1].
Qed.

Lemma astep_no_precond a op : aprecond a op = false -> astep a op true = astep a op false.
Proof. intros H. unfold astep. rewrite H. reflexivity. Qed.

Lemma acheck_sound new : forall p o s a,
  R new s a -> acheck p a = true -> Forall not_bad (states new s (run_proto new p o s)).
Proof.
  induction p as [|[op h] p IH]; intros o s a HR HC; cbn [acheck] in HC;
    apply andb_true_iff in HC; destruct HC as [HB HC]; apply negb_true_iff in HB.
  - cbn [run_proto states]. constructor; [apply (R_bad _ _ _ HR HB) | constructor].
  - cbn [run_proto]. destruct (next o) as [d o'] eqn:En. cbn [states].
    constructor; [apply (R_bad _ _ _ HR HB)|].
    pose proof (R_step new s a op d HR) as HR'.
    pose proof (R_precond new s a op HR) as HP.
    assert (Hfail : forall a', a' = astep a op false ->
              match h with None => acheck p a' | Some cl => acheck_cleanup cl a' end = true).
    { intros a' ->. destruct (aprecond a op); [apply andb_true_iff in HC; destruct HC as [_ HC]|]; exact HC. }
    destruct d as [n|]; cbn [mk_ev eok dev_ok] in *.
    + (* device failure *)
      specialize (Hfail _ eq_refl). destruct h as [cl|].
      * eapply acheck_cleanup_sound; eassumption.
      * eapply IH; eassumption.
    + rewrite HP in HR' |- *. destruct (aprecond a op) eqn:EP.
      * apply andb_true_iff in HC. destruct HC as [HC _]. eapply IH; eassumption.
      * rewrite (astep_no_precond a op EP) in HR'. specialize (Hfail _ eq_refl). destruct h as [cl|].
        -- eapply acheck_cleanup_sound; eassumption.
        -- eapply IH; eassumption.
Qed.

(* the all-success run *)
Lemma cleanup_ok_R new : forall cl s a, R new s a ->
  R new (fs_run new s (run_cleanup new cl [] s)) (fold_left (fun a op => astep a op true) cl a).
Proof.
  induction cl as [|op cl IH]; intros s a HR; [exact HR|].
  cbn [run_cleanup next fs_run fold_left]. apply IH. apply (R_step new s a op None HR).
Qed.

Lemma afinal_ok_R new : forall p s a, R new s a -> R new (fs_run new s (run_proto new p [] s)) (afinal_ok p a).
Proof.
  induction p as [|[op h] p IH]; intros s a HR; [exact HR|].
  cbn [run_proto next afinal_ok]. pose proof (R_step new s a op None HR) as HR'. cbn [dev_ok] in HR'.
  pose proof (R_precond new s a op HR) as HP. cbn [mk_ev eok] in *. rewrite HP in HR' |- *.
  destruct (aprecond a op) eqn:EP; cbn [fs_run fold_left].
  - apply IH. exact HR'.
  - rewrite (astep_no_precond a op EP) in HR'. destruct h as [cl|].
    + apply cleanup_ok_R. exact HR'.
    + apply IH. exact HR'.
Qed.

(* ---- the property, semantically ------------------------------------------------------------------------ *)
(* what [cur] holds — for a reader now, and after a power loss — is the complete old or the complete new
   snapshot *)
Definition state_safe (old new : bytes) (s : fs) : Prop :=
  (reader_sees old s = old \/ reader_sees old s = new) /\
  (forall c, after_crash old s c -> c = old \/ c = new).

Definition crash_safe (p : protocol) : Prop :=
  forall (old new : bytes) (o : oracle),
    let evs := run_proto new p o fs0 in
    (* every crash point, every pattern of failing calls *)
    Forall (state_safe old new) (states new fs0 evs) /\
    (* a rename only ever happens after an un-failed write and fsync made exactly the new snapshot durable *)
    (forall pre e post, evs = pre ++ e :: post -> eop e = OpRename -> eok e = true ->
       let s := fs_run new fs0 pre in ws_failed s = false /\ vol s = new /\ dur s = new) /\
    (* and when no call fails the new snapshot is in place *)
    (o = [] -> reader_sees old (fs_run new fs0 evs) = new).

Lemma not_bad_safe old new s : inv new s -> not_bad s -> state_safe old new s.
Proof.
  unfold inv, not_bad, state_safe, reader_sees, after_crash. intros I HB.
  destruct (cur_new s) eqn:EC.
  - destruct (I HB eq_refl) as [V D]. split; [right; exact V|].
    intros c [Hc|[_ [Hc|Hc]]]; [left; exact Hc | right; congruence | exfalso; congruence].
  - split; [left; reflexivity|]. intros c [Hc|[Hc _]]; [left; exact Hc | discriminate].
Qed.

Theorem protocol_safe_sound : forall p, protocol_safe p = true -> crash_safe p.
Proof.
  intros p HP. unfold protocol_safe in HP. apply andb_true_iff in HP. destruct HP as [HC HF].
  intros old new o evs.
  pose proof (acheck_sound new p o fs0 afs0 (R0 new) HC) as HNB. fold evs in HNB.
  pose proof (inv_states new evs fs0 (inv_fs0 new)) as HI.
  split; [|split].
  - rewrite Forall_forall in *. intros s Hs. apply not_bad_safe; [apply HI | apply HNB]; exact Hs.
  - intros pre e post E Hop Hok s.
    assert (Hin : In (fs_run new fs0 (pre ++ [e])) (states new fs0 evs)).
    { rewrite E. replace (pre ++ e :: post) with ((pre ++ [e]) ++ post) by (rewrite <- app_assoc; reflexivity).
      apply in_states_prefix. }
    rewrite Forall_forall in HNB. specialize (HNB _ Hin). unfold not_bad in HNB.
    unfold fs_run in HNB. rewrite fold_left_app in HNB. cbn [fold_left] in HNB. fold (fs_run new fs0 pre) in HNB. fold s in HNB.
    unfold fs_step in HNB. rewrite Hok, Hop in HNB. cbn [bad] in HNB.
    apply orb_false_iff in HNB. destruct HNB as [_ HG]. apply negb_false_iff in HG.
    apply good_inode_spec in HG. tauto.
  - intros ->. subst evs.
    pose proof (afinal_ok_R new p fs0 afs0 (R0 new)) as HR.
    assert (Hc : cur_new (fs_run new fs0 (run_proto new p [] fs0)) = true) by (rewrite (R_cur _ _ _ HR); exact HF).
    assert (Hin : In (fs_run new fs0 (run_proto new p [] fs0)) (states new fs0 (run_proto new p [] fs0))).
    { pose proof (in_states_prefix new (run_proto new p [] fs0) [] fs0) as H. rewrite app_nil_r in H. exact H. }
    rewrite Forall_forall in HNB, HI. specialize (HNB _ Hin). specialize (HI _ Hin).
    unfold reader_sees. rewrite Hc. apply (HI HNB Hc).
Qed.

(* ---- the protocols before the repairs are NOT crash safe --------------------------------------------- *)
(* offsetDB.save: the write fails having transferred nothing, the rename still happens: an empty file
   replaces the good one *)
Lemma legacy_filed_refuted : ~ crash_safe legacy_filed_protocol.
Proof.
  intros H. specialize (H [9%N] [1%N; 2%N] [None; Some 0%nat]). cbv zeta in H. destruct H as [H _].
  rewrite Forall_forall in H.
  specialize (H {| fd_open := false; tmp_bound := false; vol := []; dur := []; cur_new := true; ws_failed := true; bad := true |}).
  destruct H as [[H|H] _]; [|discriminate H|discriminate H].
  vm_compute. tauto.
Qed.

(* Offset.Save: every call succeeds, but nothing was fsynced before the rename: after a power loss the
   file may hold anything *)
Lemma legacy_generic_refuted : ~ crash_safe legacy_generic_protocol.
Proof.
  intros H. specialize (H [9%N] [1%N; 2%N] []). cbv zeta in H. destruct H as [H _].
  rewrite Forall_forall in H.
  specialize (H {| fd_open := false; tmp_bound := false; vol := [1%N; 2%N]; dur := []; cur_new := true; ws_failed := false; bad := true |}).
  destruct H as [_ H]; [vm_compute; tauto|].
  destruct (H [7%N]) as [E|E]; [|discriminate E|discriminate E].
  right. split; [reflexivity|]. right. discriminate.
Qed.

(* a protocol that renames BEFORE the fsync (the mutation the check must catch) *)
Definition rename_before_sync_protocol : protocol :=
  [(OpOpen, Some []); (OpWrite, Some [OpRemove; OpClose]); (OpRename, Some [OpClose]);
   (OpSync, Some [OpClose]); (OpClose, None)].
Lemma rename_before_sync_refuted : ~ crash_safe rename_before_sync_protocol.
Proof.
  intros H. specialize (H [9%N] [1%N; 2%N] []). cbv zeta in H. destruct H as [H _].
  rewrite Forall_forall in H.
  specialize (H {| fd_open := true; tmp_bound := false; vol := [1%N; 2%N]; dur := []; cur_new := true; ws_failed := false; bad := true |}).
  destruct H as [_ H]; [vm_compute; tauto|].
  destruct (H [7%N]) as [E|E]; [|discriminate E|discriminate E].
  right. split; [reflexivity|]. right. discriminate.
Qed.

(* ---- observed traces: the executable predicate the harness evaluates means the same thing ------------ *)
Lemma trace_safe_sound old new evs :
  trace_safe new evs = true ->
  state_safe old new (fs_run new fs0 evs).
Proof.
  unfold trace_safe. intros H. apply negb_true_iff in H.
  apply not_bad_safe; [|exact H].
  pose proof (inv_states new evs fs0 (inv_fs0 new)) as HI. rewrite Forall_forall in HI. apply HI.
  pose proof (in_states_prefix new evs [] fs0) as Hin. rewrite app_nil_r in Hin. exact Hin.
Qed.

Lemma bad_sticky new s e : bad s = true -> bad (fs_step new s e) = true.
Proof.
  intros H. unfold fs_step. destruct e as [op ok n]; cbn [eop eok part].
  destruct ok, op; cbn [bad]; rewrite ?H; try reflexivity; exact H.
Qed.

(* [trace_safe] of the whole trace covers every prefix (every crash point) *)
Lemma trace_safe_prefix new pre post : trace_safe new (pre ++ post) = true -> trace_safe new pre = true.
Proof.
  unfold trace_safe, fs_run. rewrite fold_left_app. intros H. apply negb_true_iff in H. apply negb_true_iff.
  destruct (bad (fold_left (fs_step new) pre fs0)) eqn:E; [|reflexivity].
  exfalso. revert H. generalize (fold_left (fs_step new) pre fs0) E. clear.
  induction post as [|e post IH]; intros s E H; cbn [fold_left] in H; [congruence|].
  eapply IH; [|exact H]. apply bad_sticky. exact E.
Qed.

(* ---- recovery: what is LOADED after a crash ------------------------------------------------------------- *)
Lemma kill_dir_crash_dir old s tmp : crash_dir old s {| dcur := dcur (kill_dir old s); dtmp := tmp |}.
Proof.
  unfold crash_dir, kill_dir. cbn [dcur]. destruct (cur_new s) eqn:EC; [|left; reflexivity].
  right. split; [reflexivity|]. exists (vol s). split; [reflexivity|].
  destruct (bytes_eqb (vol s) (dur s)) eqn:E.
  - left. apply beqb_eq. exact E.
  - right. intros H. apply beqb_eq in H. congruence.
Qed.

(* for a protocol accepted by the decision procedure: at every crash point, under every pattern of failing
   calls, whatever the temp name holds, a loader that reads only the committed file yields the state committed
   before the save (the empty state when there was no offsets file yet) or the complete new one *)
Theorem load_after_crash : forall p, protocol_safe p = true ->
  forall (A : Type) (decode : bytes -> A) (empty : A) (old : option bytes) (new : bytes) (o : oracle),
    Forall (fun s => forall d, crash_dir old s d ->
                       load_dir decode empty d = load_old decode empty old \/ load_dir decode empty d = decode new)
           (states new fs0 (run_proto new p o fs0)).
Proof.
  intros p HP A decode empty old new o. unfold protocol_safe in HP. apply andb_true_iff in HP. destruct HP as [HC _].
  pose proof (acheck_sound new p o fs0 afs0 (R0 new) HC) as HNB.
  pose proof (inv_states new (run_proto new p o fs0) fs0 (inv_fs0 new)) as HI.
  rewrite Forall_forall in *. intros s Hs d Hd.
  specialize (HNB s Hs). specialize (HI s Hs). unfold not_bad in HNB. unfold inv in HI.
  unfold load_dir, load_old. destruct Hd as [Hd | [Hc [c [Hd Hcd]]]].
  - left. rewrite Hd. reflexivity.
  - right. rewrite Hd. destruct (HI HNB Hc) as [V D]. destruct Hcd as [Hcd|Hcd]; [congruence | exfalso; congruence].
Qed.

Lemma before_op_prefix op : forall l, exists post, l = before_op op l ++ post.
Proof.
  induction l as [|e l [post IH]]; [exists []; reflexivity|]. cbn [before_op].
  destruct (fsop_eqb (eop e) op); [exists (e :: l); reflexivity|].
  exists post. cbn [app]. rewrite <- IH. reflexivity.
Qed.

Lemma crash_evs_prefix p new cp :
  exists post, run_proto new p (crash_oracle p new cp) fs0 = crash_evs p new cp ++ post.
Proof.
  destruct cp as [|cut| |]; unfold crash_evs; cbv zeta.
  - eexists. reflexivity.
  - eexists. symmetry. apply firstn_skipn.
  - cbn [crash_oracle]. apply before_op_prefix.
  - cbn [crash_oracle]. exists []. rewrite app_nil_r. reflexivity.
Qed.

Lemma crash_state_in_states p new cp :
  In (crash_state p new cp) (states new fs0 (run_proto new p (crash_oracle p new cp) fs0)).
Proof.
  destruct (crash_evs_prefix p new cp) as [post E]. rewrite E. apply in_states_prefix.
Qed.

(* ... in particular at the crash points the harness realises on the real code, with anything under the temp name *)
Theorem crash_point_recovery : forall p, protocol_safe p = true ->
  forall (A : Type) (decode : bytes -> A) (empty : A) (old : option bytes) (new : bytes) (cp : crashpt) (tmp : option bytes),
    let d := {| dcur := dcur (kill_dir old (crash_state p new cp)); dtmp := tmp |} in
    load_dir decode empty d = load_old decode empty old \/ load_dir decode empty d = decode new.
Proof.
  intros p HP A decode empty old new cp tmp d.
  pose proof (load_after_crash p HP A decode empty old new (crash_oracle p new cp)) as H.
  rewrite Forall_forall in H. apply (H _ (crash_state_in_states p new cp)). apply kill_dir_crash_dir.
Qed.

(* a loader that falls back to the temp file when the offsets file is missing: the very first save is killed
   after one byte of the two-byte snapshot reached the temp file; the restart loads that byte *)
Lemma fallback_load_refuted :
  protocol_safe tmp_sync_rename_protocol = true /\
  exists (new : bytes) (cp : crashpt),
    let d := kill_dir None (crash_state tmp_sync_rename_protocol new cp) in
    load_dir_fallback (@Some bytes) None d <> load_old (@Some bytes) None None /\
    load_dir_fallback (@Some bytes) None d <> Some new /\
    load_dir (@Some bytes) None d = None.
Proof.
  split; [reflexivity|]. exists [1%N; 2%N], (CWrite 1). cbv zeta.
  assert (E : kill_dir None (crash_state tmp_sync_rename_protocol [1%N; 2%N] (CWrite 1)) = {| dcur := None; dtmp := Some [1%N] |})
    by (vm_compute; reflexivity).
  rewrite E. cbn. repeat split; discriminate.
Qed.

Lemma load_old_id (old : option bytes) : load_old (@Some bytes) None old = old.
Proof. destruct old; reflexivity. Qed.

(* the raw loader (Offset.Load hands the file's bytes to the callback): the value IS the byte string *)
Theorem load_after_crash_raw : forall p, protocol_safe p = true ->
  forall (old : option bytes) (new : bytes) (o : oracle),
    Forall (fun s => forall d, crash_dir old s d ->
                       load_dir (@Some bytes) None d = old \/ load_dir (@Some bytes) None d = Some new)
           (states new fs0 (run_proto new p o fs0)).
Proof.
  intros p HP old new o. pose proof (load_after_crash p HP (option bytes) (@Some bytes) None old new o) as H.
  rewrite load_old_id in H. exact H.
Qed.
