(* NO-WEDGE theorem of the stream protocol (Model/Stream.v = pipeline/stream.go + the charged list of
   pipeline/streamer.go): from EVERY reachable state some schedule of processor / heartbeat steps alone
   (no new event is put) drains every stream completely, without passing through a Panicf.

   Proof: a variant function [M] (sum over the stream table of a per-stream rank [m]) and a progress
   lemma: in every state that satisfies the inductive invariant [Inv] of Proofs/Stream.v, either every
   stream has rank 0 (and then the state is [drained]) or some internal label is enabled whose step
   strictly decreases [M].  The steps chosen are the ones the Go code performs: joinStream pops the LAST
   charged stream, attach, get (regular or time-out event), commit of the last taken event, leave,
   tryDetach, makeCharged after a non-empty detach, and tryUnblock's time-out for a blocked owner. *)
From Verif Require Import Base.Sx Model.Stream Proofs.Stream Proofs.StreamTheorems.
From Coq Require Import Lia ZifyBool Bool List ZArith Arith.
Import ListNotations.
Local Open Scope Z_scope.

Definition internal (l : slabel) : Prop := match l with SPut _ _ _ => False | _ => True end.

Definition drained (t : sst) : Prop :=
  scrashed t = false /\ charged t = [] /\
  forall i, let st := sti t i in
    q st = [] /\ att st = false /\ det st = false /\ blk st = false /\ popped st = false /\ pend st = false /\
    own st = false /\ away st = scommit st.

(* ------------------------------------------------------------------------------------------- *)
(* the variant                                                                                   *)

(* 1 when the event taken last is not committed yet *)
Definition ne01 (st : stream) : nat := if away st =? scommit st then 0%nat else 1%nat.

(* number of internal steps the schedule below still needs for this stream *)
Definition m (st : stream) : nat :=
  let len := length (q st) in
  if att st then
    if det st then ((match q st with [] => 1 | _ :: _ => 2 * len + 6 end) + ne01 st)%nat
    else (2 * len + 2 + ne01 st + (if blk st then 3 else 0))%nat
  else match q st with
       | [] => 0%nat
       | _ :: _ => (2 * len + (if popped st then 3 else if pend st then 5 else 4))%nat
       end.

Fixpoint msum (l : list stream) : nat :=
  match l with [] => 0%nat | x :: r => (m x + msum r)%nat end.

Definition M (t : sst) : nat := msum (streams t).

Lemma m_stream0 : m stream0 = 0%nat.
Proof. reflexivity. Qed.

Lemma msum_set i : forall l x, (msum (set_s l i x) + m (get_s l i) = msum l + m x)%nat.
Proof.
  induction i as [|i IH]; intros l x; rewrite get_s_nth; destruct l as [|y r]; cbn [set_s nth msum].
  - rewrite m_stream0. lia.
  - lia.
  - assert (H := IH [] x). rewrite get_s_nil in H. cbn [msum] in H. rewrite m_stream0 in *. lia.
  - assert (H := IH r x). rewrite get_s_nth in H. lia.
Qed.

Lemma msum_zero_or l : (forall i, m (get_s l i) = 0%nat) \/ exists i, (m (get_s l i) > 0)%nat.
Proof.
  induction l as [|y r IH].
  - left. intros i. rewrite get_s_nil. exact m_stream0.
  - destruct (m y) as [|k] eqn:Ey.
    + destruct IH as [Hz|(i & Hi)].
      * left. intros i. rewrite get_s_nth. destruct i as [|i]; cbn [nth]; [exact Ey|].
        rewrite <- get_s_nth. apply Hz.
      * right. exists (S i). rewrite get_s_nth. cbn [nth]. rewrite <- get_s_nth. exact Hi.
    + right. exists O. rewrite get_s_nth. cbn [nth]. lia.
Qed.

(* ------------------------------------------------------------------------------------------- *)
(* progress: one enabled internal step that decreases the variant                               *)

Definition prog (t : sst) : Prop :=
  exists l t', internal l /\ sstep t l = Some t' /\ (M t' < M t)%nat.

Lemma prog_intro t l i x t' :
  internal l -> sstep t l = Some t' -> streams t' = set_s (streams t) i x ->
  (m x < m (sti t i))%nat -> prog t.
Proof.
  intros Hi Hs Hst Hm. exists l, t'. split; [exact Hi|]. split; [exact Hs|].
  unfold M. rewrite Hst. assert (H := msum_set i (streams t) x). fold (sti t i) in H. lia.
Qed.

Ltac d_fields := cbn [q cur away scommit att det blk popped pend own] in *.

(* name the fields of stream [i] *)
Ltac d_open t i Est :=
  remember (sti t i) as st eqn:Est;
  destruct st as [q0 cur0 aw0 com0 at0 de0 bl0 po0 pe0 ow0]; d_fields; subst.

(* reduce [sstep t l] (label on stream [Z.of_nat i]) down to the guards on the named fields *)
Ltac d_step t i Hcr Est :=
  unfold sstep; rewrite Hcr; cbn [label_stream];
  replace (Z.of_nat i <? 0) with false by lia; cbv zeta;
  rewrite ?Nat2Z.id; fold (sti t i); rewrite <- ?Est;
  cbn [q cur away scommit att det blk popped pend own negb andb orb].

Ltac d_streams := cbn [streams upd_stream]; rewrite ?Nat2Z.id; reflexivity.

Ltac d_meas Est :=
  rewrite <- ?Est; unfold m, ne01, mk, set_pend, set_own;
  cbn [q cur away scommit att det blk popped pend own length];
  repeat match goal with |- context[?a =? ?b] => destruct (Z.eqb_spec a b) end; try lia.

(* commit of the event taken last (by its owner, or by the output while the stream is detaching) *)
Lemma pr_commit t i :
  scrashed t = false -> att (sti t i) = true -> scommit (sti t i) < away (sti t i) -> prog t.
Proof.
  intros Hcr Ha Hlt. d_open t i Est.
  eapply (prog_intro t (SCommit (Z.of_nat i) aw0) i); [exact I| | |].
  - d_step t i Hcr Est. replace (com0 <=? aw0) with true by lia. replace (aw0 <=? aw0) with true by lia.
    cbn [andb]. reflexivity.
  - d_streams.
  - destruct de0, bl0, q0; d_meas Est.
Qed.

(* tryDetach of a detaching stream whose last taken event is committed *)
Lemma pr_detach t i :
  scrashed t = false -> att (sti t i) = true -> det (sti t i) = true ->
  away (sti t i) = scommit (sti t i) -> prog t.
Proof.
  intros Hcr Ha Hd Hac. d_open t i Est. destruct q0 as [|x r].
  - eapply (prog_intro t (SDetach (Z.of_nat i) false) i); [exact I| | |].
    + d_step t i Hcr Est. rewrite Z.eqb_refl. cbn [andb Bool.eqb]. reflexivity.
    + d_streams.
    + d_meas Est.
  - eapply (prog_intro t (SDetach (Z.of_nat i) true) i); [exact I| | |].
    + d_step t i Hcr Est. rewrite Z.eqb_refl. cbn [andb Bool.eqb]. reflexivity.
    + d_streams.
    + destruct po0; d_meas Est.
Qed.

(* makeCharged after a non-empty tryDetach (or a put into an idle stream) *)
Lemma pr_charge t i :
  scrashed t = false -> att (sti t i) = false -> pend (sti t i) = true -> popped (sti t i) = false ->
  q (sti t i) <> [] -> ~ In (Z.of_nat i) (charged t) -> prog t.
Proof.
  intros Hcr Ha Hp Hpo Hq Hnc. d_open t i Est. destruct q0 as [|x r]; [congruence|].
  eapply (prog_intro t (SCharge (Z.of_nat i)) i); [exact I| | |].
  - d_step t i Hcr Est. rewrite (not_In_existsb _ _ Hnc). cbn [negb andb]. reflexivity.
  - d_streams.
  - d_meas Est.
Qed.

(* joinStream: pop the last charged stream *)
Lemma pr_pop t : Inv t -> charged t <> [] -> prog t.
Proof.
  intros HI Hne. destruct (rev (charged t)) as [|s r] eqn:E.
  { exfalso. apply Hne. rewrite <- (rev_involutive (charged t)), E. reflexivity. }
  assert (Hin : In s (charged t)) by (apply in_rev; rewrite E; left; reflexivity).
  assert (H0 := I_pos _ HI s Hin). assert (Hcr := I_cr _ HI).
  destruct (i_ch _ _ _ (I_s _ HI s H0) Hin) as (Ha & Hq & Hpo & Hpe).
  unfold sget in *. fold (sti t (Z.to_nat s)) in *.
  remember (Z.to_nat s) as i eqn:Ei. d_open t i Est. destruct q0 as [|x r0]; [congruence|].
  eapply (prog_intro t (SPop s) (Z.to_nat s)); [exact I| | |].
  - unfold sstep. rewrite Hcr. cbn [label_stream]. replace (s <? 0) with false by lia.
    rewrite E, Z.eqb_refl. reflexivity.
  - cbn [streams]. reflexivity.
  - fold (sti t (Z.to_nat s)). d_meas Est.
Qed.

(* attach after the pop *)
Lemma pr_attach t i :
  scrashed t = false -> popped (sti t i) = true -> att (sti t i) = false -> det (sti t i) = false ->
  q (sti t i) <> [] -> away (sti t i) = scommit (sti t i) -> prog t.
Proof.
  intros Hcr Hp Ha Hd Hq Hac. d_open t i Est. destruct q0 as [|x r]; [congruence|].
  eapply (prog_intro t (SAttach (Z.of_nat i)) i); [exact I| | |].
  - d_step t i Hcr Est. reflexivity.
  - d_streams.
  - d_meas Est.
Qed.

(* tryUnblock (heartbeat): the time-out event for a blocked owner *)
Lemma pr_timeout t i :
  scrashed t = false -> blk (sti t i) = true -> att (sti t i) = true -> det (sti t i) = false ->
  q (sti t i) = [] -> away (sti t i) = scommit (sti t i) -> prog t.
Proof.
  intros Hcr Hb Ha Hd Hq Hac. d_open t i Est.
  eapply (prog_intro t (STimeout (Z.of_nat i) com0) i); [exact I| | |].
  - d_step t i Hcr Est. rewrite !Z.eqb_refl. cbn [negb]. reflexivity.
  - d_streams.
  - d_meas Est.
Qed.

(* the owner takes the next regular event *)
Lemma pr_get_regular t i r :
  scrashed t = false -> att (sti t i) = true -> own (sti t i) = true -> det (sti t i) = false ->
  blk (sti t i) = false -> 0 <= away (sti t i) -> q (sti t i) = (away (sti t i) + 1) :: r -> prog t.
Proof.
  intros Hcr Ha Ho Hd Hb H0 Hq. d_open t i Est.
  eapply (prog_intro t (SGet (Z.of_nat i) (aw0 + 1) 0) i); [exact I| | |].
  - d_step t i Hcr Est. replace (aw0 + 1 <? 0) with false by lia.
    change (0 =? 3) with false. cbv iota. rewrite Z.eqb_refl. reflexivity.
  - d_streams.
  - d_meas Est.
Qed.

(* the owner takes the time-out event *)
Lemma pr_get_marker t i r :
  scrashed t = false -> att (sti t i) = true -> own (sti t i) = true -> det (sti t i) = false ->
  blk (sti t i) = false -> 0 <= scommit (sti t i) -> q (sti t i) = (- scommit (sti t i) - 1) :: r -> prog t.
Proof.
  intros Hcr Ha Ho Hd Hb H0 Hq. d_open t i Est.
  eapply (prog_intro t (SGet (Z.of_nat i) com0 3) i); [exact I| | |].
  - d_step t i Hcr Est. replace (com0 <? 0) with false by lia.
    change (3 =? 3) with true. cbv iota. rewrite Z.eqb_refl. reflexivity.
  - d_streams.
  - d_meas Est.
Qed.

(* instantGet finds the stream empty: leave *)
Lemma pr_leave t i :
  scrashed t = false -> att (sti t i) = true -> own (sti t i) = true -> det (sti t i) = false ->
  q (sti t i) = [] -> away (sti t i) = scommit (sti t i) -> prog t.
Proof.
  intros Hcr Ha Ho Hd Hq Hac. d_open t i Est.
  eapply (prog_intro t (SLeave (Z.of_nat i)) i); [exact I| | |].
  - d_step t i Hcr Est. reflexivity.
  - d_streams.
  - destruct bl0; d_meas Est.
Qed.

(* PROGRESS: in a state satisfying the invariant, a stream of non-zero rank means some internal step is
   enabled (for this stream, or the pop of the last charged one) and decreases the variant *)
Lemma progress t i : Inv t -> (m (sti t i) > 0)%nat -> prog t.
Proof.
  intros HI Hm. assert (Hcr := I_cr _ HI). assert (Hs := Inv_nat t i HI). fold (sti t i) in Hs.
  destruct Hs as [c0 ca ac hq hch hun hna hpop hpend hown hatt hdet hblk htk].
  destruct (att (sti t i)) eqn:Ea.
  - destruct (hatt eq_refl) as [Ho|Hd].
    + destruct (hown Ho) as (_ & Hd). destruct (blk (sti t i)) eqn:Eb.
      * destruct (hblk eq_refl) as (_ & Hq & Hac). exact (pr_timeout t i Hcr Eb Ea Hd Hq Hac).
      * destruct (q (sti t i)) as [|x r] eqn:Eq.
        -- destruct (Z.eq_dec (away (sti t i)) (scommit (sti t i))) as [Hac|Hac].
           ++ exact (pr_leave t i Hcr Ea Ho Hd Eq Hac).
           ++ apply (pr_commit t i Hcr Ea). lia.
        -- destruct hq as [hq|(hq & _ & Hac & _)].
           ++ symmetry in hq. apply range_cons_inv in hq. destruct hq as (Hx & _ & _). subst x.
              apply (pr_get_regular t i r Hcr Ea Ho Hd Eb); [lia|exact Eq].
           ++ injection hq as Hx _. subst x.
              apply (pr_get_marker t i r Hcr Ea Ho Hd Eb); [lia|exact Eq].
    + destruct (Z.eq_dec (away (sti t i)) (scommit (sti t i))) as [Hac|Hac].
      * exact (pr_detach t i Hcr Ea Hd Hac).
      * apply (pr_commit t i Hcr Ea). lia.
  - destruct (hna eq_refl) as (Hd & Ho & Hb & Hac). destruct (q (sti t i)) as [|x r] eqn:Eq.
    + exfalso. unfold m in Hm. rewrite Ea, Eq in Hm. lia.
    + destruct (hun eq_refl ltac:(discriminate)) as [Hc|[Hp|Hp]].
      * apply (pr_pop t HI). intros E. rewrite E in Hc. exact Hc.
      * apply (pr_attach t i Hcr Hp Ea Hd); [rewrite Eq; discriminate|exact Hac].
      * apply (pr_charge t i Hcr Ea Hp).
        -- destruct (popped (sti t i)) eqn:Epo; [|reflexivity]. destruct (hpop eq_refl) as (_ & _ & ?). congruence.
        -- rewrite Eq; discriminate.
        -- intros Hc. destruct (hch Hc) as (_ & _ & _ & ?). congruence.
Qed.

(* rank 0 everywhere + invariant = drained *)
Lemma m_zero st : m st = 0%nat -> att st = false /\ q st = [].
Proof.
  unfold m, ne01. destruct (att st), (det st), (q st) as [|x r], (blk st), (popped st), (pend st);
    cbn [length]; intros H; try lia; auto.
Qed.

Lemma zero_drained t : Inv t -> (forall i, m (sti t i) = 0%nat) -> drained t.
Proof.
  intros HI Hz. split; [exact (I_cr _ HI)|]. split.
  - destruct (charged t) as [|s r] eqn:E; [reflexivity|exfalso].
    assert (Hin : In s (charged t)) by (rewrite E; left; reflexivity).
    assert (H0 := I_pos _ HI s Hin). destruct (i_ch _ _ _ (I_s _ HI s H0) Hin) as (_ & Hq & _).
    destruct (m_zero _ (Hz (Z.to_nat s))) as (_ & Hq'). unfold sget in Hq. unfold sti in Hq'. congruence.
  - intros i st. assert (Hs := Inv_nat t i HI). fold (sti t i) in Hs. fold st in Hs.
    destruct (m_zero _ (Hz i)) as (Ha & Hq). fold st in Ha, Hq.
    destruct Hs as [c0 ca ac hq hch hun hna hpop hpend hown hatt hdet hblk htk].
    destruct (hna Ha) as (Hd & Ho & Hb & Hac).
    repeat split; try assumption.
    + destruct (popped st) eqn:E; [|reflexivity]. destruct (hpop eq_refl) as (_ & ? & _). congruence.
    + destruct (pend st) eqn:E; [|reflexivity]. destruct (hpend eq_refl) as (_ & ?). congruence.
Qed.

(* the drain, from any state satisfying the invariant, in at most [M t] internal steps *)
Lemma drain_from n : forall t, (M t <= n)%nat -> Inv t ->
  exists ls' t', Forall internal ls' /\ srun t ls' = Some t' /\ drained t' /\ (length ls' <= n)%nat.
Proof.
  induction n as [|n IH]; intros t Hn HI; destruct (msum_zero_or (streams t)) as [Hz|(i & Hi)].
  - exists [], t. split; [constructor|]. split; [reflexivity|]. split; [exact (zero_drained t HI Hz)|cbn; lia].
  - destruct (progress t i HI Hi) as (l & t1 & _ & _ & Hlt). lia.
  - exists [], t. split; [constructor|]. split; [reflexivity|]. split; [exact (zero_drained t HI Hz)|cbn; lia].
  - destruct (progress t i HI Hi) as (l & t1 & Hint & Hst & Hlt).
    destruct (IH t1 ltac:(lia) (Inv_step _ _ _ HI Hst)) as (ls' & t' & HF & Hr & Hd & Hlen).
    exists (l :: ls'), t'. split; [constructor; assumption|]. split; [cbn [srun]; rewrite Hst; exact Hr|].
    split; [exact Hd|cbn [length]; lia].
Qed.

(* ---- NO-WEDGE ---------------------------------------------------------------------------------- *)
Theorem stream_can_always_drain :
  forall ls t, srun sinit ls = Some t ->
  exists ls' t', Forall internal ls' /\ srun t ls' = Some t' /\ drained t'.
Proof.
  intros ls t Hr. destruct (drain_from (M t) t (le_n _) (Inv_reach _ _ Hr)) as (ls' & t' & HF & Hr' & Hd & _).
  exists ls', t'. auto.
Qed.

(* the same with the bound: the drain needs at most [M t] steps, i.e. at most
   2 * (events waiting) + 6 per stream (+1 for an uncommitted event) *)
Theorem stream_can_always_drain_bounded :
  forall ls t, srun sinit ls = Some t ->
  exists ls' t', Forall internal ls' /\ srun t ls' = Some t' /\ drained t' /\ (length ls' <= M t)%nat.
Proof. intros ls t Hr. exact (drain_from (M t) t (le_n _) (Inv_reach _ _ Hr)). Qed.

(* and the progress form: a reachable state is drained, or an internal step is enabled that does not
   crash and brings the state strictly closer to drained *)
Theorem stream_drained_or_progress :
  forall ls t, srun sinit ls = Some t ->
  drained t \/ exists l t', internal l /\ sstep t l = Some t' /\ scrashed t' = false /\ (M t' < M t)%nat.
Proof.
  intros ls t Hr. assert (HI := Inv_reach _ _ Hr).
  destruct (msum_zero_or (streams t)) as [Hz|(i & Hi)]; [left; exact (zero_drained t HI Hz)|right].
  destruct (progress t i HI Hi) as (l & t1 & Hint & Hst & Hlt). exists l, t1.
  split; [exact Hint|]. split; [exact Hst|]. split; [exact (I_cr _ (Inv_step _ _ _ HI Hst))|exact Hlt].
Qed.

(* ---- non-vacuity ------------------------------------------------------------------------------- *)
(* stream 0: its owner took event 1, it was committed (a multi-line action holds it) and the owner is
   blocked in blockGet; stream 1: charged, two events queued, no processor yet *)
Definition wedge_candidate : list slabel :=
  [ SPut 0 1 0; SCharge 0; SPop 0; SAttach 0; SGet 0 1 0; SCommit 0 1; SBlock 0;
    SPut 1 1 0; SCharge 1; SPut 1 2 0 ].

Definition wedge_drain : list slabel :=
  [ SPop 1; SAttach 1; SGet 1 1 0; SGet 1 2 0; SCommit 1 2; SLeave 1; SDetach 1 false;
    STimeout 0 1; SGet 0 1 3; SLeave 0; SDetach 0 false ].

Example stream_drain_nonvacuous :
  exists t, srun sinit wedge_candidate = Some t /\
    length (streams t) = 2%nat /\
    blk (sti t 0) = true /\ own (sti t 0) = true /\
    charged t = [1] /\ q (sti t 1) = [1; 2] /\ att (sti t 1) = false /\
    ~ drained t /\
    exists t', Forall internal wedge_drain /\ srun t wedge_drain = Some t' /\ drained t' /\
      rev (taken t') = [(0, 1); (1, 1); (1, 2)] /\ timeouts t' = [(0, 1)].
Proof.
  eexists. split; [vm_compute; reflexivity|].
  split; [vm_compute; reflexivity|]. split; [vm_compute; reflexivity|]. split; [vm_compute; reflexivity|].
  split; [vm_compute; reflexivity|]. split; [vm_compute; reflexivity|]. split; [vm_compute; reflexivity|].
  split; [intros (_ & Hc & _); vm_compute in Hc; discriminate Hc|].
  eexists. split; [repeat constructor|]. split; [vm_compute; reflexivity|].
  split; [|split; vm_compute; reflexivity].
  split; [vm_compute; reflexivity|]. split; [vm_compute; reflexivity|].
  intros i. destruct i as [|[|i]]; [vm_compute; repeat split; reflexivity..|].
  unfold sti. cbn [streams]. rewrite get_s_nth. cbn [nth].
  destruct i; vm_compute; repeat split; reflexivity.
Qed.

Print Assumptions stream_can_always_drain.
Print Assumptions stream_drained_or_progress.
