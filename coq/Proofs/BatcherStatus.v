(* C08 / C09 — the status a worker reads back from commitBatch (pipeline/batch.go work(): `switch status`) is always one of
   MaxSizeExceeded (1), TimeoutExceeded (2), InDeadQueue (3): the `default: logger.Panic("unreachable")` arm is never taken,
   for every interleaving the batcher LTS allows.  Invariant: every sealed batch in flight carries status 1 or 2 (the Seal
   guard), the retry frame's give-up is the only writer of 3 (bemptied). *)
From Verif Require Import Base.Sx Model.Batcher Proofs.Batcher.
From Coq Require Import Lia ZifyBool Bool List ZArith.
Import ListNotations.
Local Open Scope Z_scope.

Definition inv_status (s : st) : Prop := forall b, In b (flight s) -> bstatus b = 1 \/ bstatus b = 2.

Lemma bstatus_set_stage g b : bstatus (set_stage g b) = bstatus b. Proof. reflexivity. Qed.

Lemma inv_status_step c s l s' : inv_status s -> step c s l = Some s' -> inv_status s'.
Proof.
  intros I H. unfold inv_status in *.
  destruct l; step_inv H;
    try solve [ assumption
              | intros x Hx; apply In_upd_bat in Hx; destruct Hx as [Hx|[b0 [Hf ->]]];
                [auto| cbn [bstatus set_stage]; apply I; exact (proj1 (find_bat_In _ _ _ Hf))]
              | intros x Hx; apply In_del_bat in Hx; auto ].
  - (* Seal *)
    intros x Hx. apply in_app_or in Hx. destruct Hx as [Hx|[<-|[]]]; [auto|]. cbn [bstatus].
    match goal with Hg : (if size_ready _ _ _ then _ else _) = true |- _ =>
      destruct (size_ready c n bytes); apply Z.eqb_eq in Hg; [left|right]; exact Hg end.
  - (* GiveUp: the batch keeps the status it was sealed with (the emptied flag carries InDeadQueue) *)
    intros x Hx. apply In_upd_bat in Hx. destruct Hx as [Hx|[b0 [Hf ->]]]; [auto|].
    cbn [bstatus]. apply I. match goal with Hq : find_bat _ _ = Some b |- _ => exact (proj1 (find_bat_In _ _ _ Hq)) end.
Qed.

Lemma inv_status_init c : inv_status (init c).
Proof. intros b []. Qed.

Lemma inv_status_reach c ls s : run c (init c) ls = Some s -> inv_status s.
Proof. exact (run_invariant c inv_status (inv_status_step c) ls _ _ (inv_status_init c)). Qed.

(* the status commitBatch returns (label CommitEnd) in any reachable state *)
Theorem commit_status_known c ls s seq status s' :
  run c (init c) ls = Some s -> step c s (LCommitEnd seq status) = Some s' ->
  status = 1 \/ status = 2 \/ status = 3.
Proof.
  intros Hr H. pose proof (inv_status_reach _ _ _ Hr) as I.
  step_inv H.
  match goal with Hf : find_bat _ _ = Some ?b |- _ =>
    destruct (I b (proj1 (find_bat_In _ _ _ Hf))) as [E|E]; destruct (bemptied b); lia end.
Qed.

(* ... and 3 (InDeadQueue) only for a batch the retry frame gave up with a dead queue *)
Theorem commit_status_dead_queue_only c ls s seq s' :
  run c (init c) ls = Some s -> step c s (LCommitEnd seq 3) = Some s' ->
  exists b, find_bat (flight s) seq = Some b /\ bemptied b = true.
Proof.
  intros Hr H. pose proof (inv_status_reach _ _ _ Hr) as I.
  step_inv H.
  match goal with Hf : find_bat _ _ = Some ?b |- _ =>
    exists b; split; [reflexivity|];
    destruct (I b (proj1 (find_bat_In _ _ _ Hf))) as [E|E]; destruct (bemptied b); [reflexivity|lia|reflexivity|lia] end.
Qed.
