(* Proofs about Model/Stream.v (pipeline/stream.go + the charged list of pipeline/streamer.go):
   one inductive invariant [Inv] over every stream of the state, preserved by every enabled label. *)
From Verif Require Import Base.Sx Model.Stream.
From Coq Require Import Lia ZifyBool Bool List ZArith.
Import ListNotations.
Local Open Scope Z_scope.

(* generic: an invariant preserved by every enabled step holds in every reachable state *)
Lemma srun_invariant (P : sst -> Prop) :
  (forall t l t', P t -> sstep t l = Some t' -> P t') ->
  forall ls t t', P t -> srun t ls = Some t' -> P t'.
Proof.
  intros Hstep ls. induction ls as [|l r IH]; intros t t' Ht Hr; cbn [srun] in Hr.
  - inversion Hr; subst; exact Ht.
  - destruct (sstep t l) as [t1|] eqn:E; [|discriminate]. eapply IH; [eapply Hstep; eauto|exact Hr].
Qed.

Lemma srun_app ls1 ls2 t :
  srun t (ls1 ++ ls2) = match srun t ls1 with Some t1 => srun t1 ls2 | None => None end.
Proof.
  revert t. induction ls1 as [|l r IH]; intros t; cbn [srun app]; [reflexivity|].
  destruct (sstep t l); [apply IH|reflexivity].
Qed.

(* ------------------------------------------------------------------------------------------- *)
(* the stream table                                                                              *)

Lemma get_s_nth l i : get_s l i = nth i l stream0.
Proof. destruct l; reflexivity. Qed.

Lemma get_s_nil i : get_s [] i = stream0.
Proof. rewrite get_s_nth. destruct i; reflexivity. Qed.

Lemma get_set_s l i x j : get_s (set_s l i x) j = if Nat.eqb i j then x else get_s l j.
Proof.
  rewrite !get_s_nth. revert l j. induction i as [|i IH]; intros l j.
  - destruct l, j; cbn [set_s nth Nat.eqb]; try reflexivity. destruct j; reflexivity.
  - destruct l, j; cbn [set_s nth Nat.eqb]; try reflexivity.
    + rewrite IH. destruct (Nat.eqb i j); [reflexivity|destruct j; reflexivity].
    + apply IH.
Qed.

Lemma get_set_same l i x : get_s (set_s l i x) i = x.
Proof. rewrite get_set_s, Nat.eqb_refl. reflexivity. Qed.

Lemma get_set_other l i x j : i <> j -> get_s (set_s l i x) j = get_s l j.
Proof. intros H. rewrite get_set_s. apply Nat.eqb_neq in H. rewrite H. reflexivity. Qed.

(* ------------------------------------------------------------------------------------------- *)
(* [range a b] = a, a+1, ..., b                                                                  *)

Definition range (a b : Z) : list Z := map (fun k => a + Z.of_nat k) (seq 0 (Z.to_nat (b - a + 1))).

Lemma range_empty a b : b < a -> range a b = [].
Proof. intros H. unfold range. replace (Z.to_nat (b - a + 1)) with O by lia. reflexivity. Qed.

Lemma range_cons a b : a <= b -> range a b = a :: range (a + 1) b.
Proof.
  intros H. unfold range. replace (Z.to_nat (b - a + 1)) with (S (Z.to_nat (b - (a + 1) + 1))) by lia.
  cbn [seq map]. f_equal; [lia|]. rewrite <- seq_shift, map_map. apply map_ext. intros k. lia.
Qed.

Lemma range_snoc a b : a <= b + 1 -> range a (b + 1) = range a b ++ [b + 1].
Proof.
  intros H. unfold range. replace (Z.to_nat (b + 1 - a + 1)) with (S (Z.to_nat (b - a + 1))) by lia.
  rewrite seq_S, map_app. cbn [map]. f_equal. f_equal. lia.
Qed.

Lemma range_nil_inv a b : range a b = [] -> b < a.
Proof. intros H. destruct (Z_lt_le_dec b a) as [L|L]; [exact L|]. rewrite range_cons in H by exact L. discriminate. Qed.

Lemma range_cons_inv a b x r : range a b = x :: r -> x = a /\ r = range (a + 1) b /\ a <= b.
Proof.
  intros H. destruct (Z_lt_le_dec b a) as [L|L]; [rewrite range_empty in H by exact L; discriminate|].
  rewrite range_cons in H by exact L. inversion H; subst. auto.
Qed.

Lemma range_In a b x : In x (range a b) <-> a <= x <= b.
Proof.
  unfold range. rewrite in_map_iff. split.
  - intros (k & <- & Hk). apply in_seq in Hk. lia.
  - intros Hx. exists (Z.to_nat (x - a)). split; [lia|]. apply in_seq. lia.
Qed.

(* ------------------------------------------------------------------------------------------- *)
(* list helpers                                                                                  *)

Lemma NoDup_snoc {A} (l : list A) x : NoDup l -> ~ In x l -> NoDup (l ++ [x]).
Proof.
  intros Hn Hx. induction Hn as [|y l Hy Hn IH]; cbn [app]; [constructor; [intros []|constructor]|].
  constructor.
  - rewrite in_app_iff. cbn [In]. intros [H|[H|[]]]; [exact (Hy H)|subst; apply Hx; left; reflexivity].
  - apply IH. intros H; apply Hx; right; exact H.
Qed.

Lemma NoDup_snoc_inv {A} (l : list A) x : NoDup (l ++ [x]) -> NoDup l /\ ~ In x l.
Proof.
  intros H. apply NoDup_remove in H. rewrite app_nil_r in H. exact H.
Qed.

Lemma existsb_eqb_false s l : existsb (Z.eqb s) l = false -> ~ In s l.
Proof.
  intros H Hin. assert (E : existsb (Z.eqb s) l = true) by (apply existsb_exists; exists s; split; [exact Hin|apply Z.eqb_refl]).
  congruence.
Qed.

Lemma rev_eq_cons {A} (l : list A) x r : rev l = x :: r -> l = rev r ++ [x].
Proof. intros H. rewrite <- (rev_involutive l), H. reflexivity. Qed.

(* the seqs taken from stream [i], newest first *)
Definition tk_of (i : Z) (tk : list (Z * Z)) : list Z := map snd (filter (fun p => fst p =? i) tk).

Lemma tk_of_cons_same i x tk : tk_of i ((i, x) :: tk) = x :: tk_of i tk.
Proof. unfold tk_of. cbn [filter fst]. rewrite Z.eqb_refl. reflexivity. Qed.

Lemma tk_of_cons_other i j x tk : j <> i -> tk_of i ((j, x) :: tk) = tk_of i tk.
Proof. intros H. unfold tk_of. cbn [filter fst]. apply Z.eqb_neq in H. rewrite H. reflexivity. Qed.

Lemma filter_rev {A} (f : A -> bool) l : filter f (rev l) = rev (filter f l).
Proof.
  induction l as [|x r IH]; [reflexivity|]. cbn [rev filter]. rewrite filter_app, IH. cbn [filter].
  destruct (f x); [reflexivity|apply app_nil_r].
Qed.

Lemma tk_of_rev i tk : tk_of i (rev tk) = rev (tk_of i tk).
Proof. unfold tk_of. rewrite filter_rev, map_rev. reflexivity. Qed.

(* ------------------------------------------------------------------------------------------- *)
(* the per-stream invariant.  [c] = "the stream's id is in the charged list",
   [tk] = the seqs of the regular events taken from it so far, newest first.                     *)

Record sinv (c : Prop) (tk : list Z) (st : stream) : Prop := {
  i_c0 : 0 <= scommit st;
  i_ca : scommit st <= away st;
  i_ac : away st <= cur st;
  (* queue = [pending time-out marker] ++ the seqs put and not yet taken *)
  i_q : q st = range (away st + 1) (cur st) \/
        (q st = (- scommit st - 1) :: range (away st + 1) (cur st) /\
         own st = true /\ away st = scommit st /\ blk st = false);
  i_ch : c -> att st = false /\ q st <> [] /\ popped st = false /\ pend st = false;
  i_un : att st = false -> q st <> [] -> c \/ popped st = true \/ pend st = true;
  i_na : att st = false -> det st = false /\ own st = false /\ blk st = false /\ away st = scommit st;
  i_pop : popped st = true -> att st = false /\ q st <> [] /\ pend st = false;
  i_pend : pend st = true -> att st = false /\ q st <> [];
  i_own : own st = true -> att st = true /\ det st = false;
  i_att : att st = true -> own st = true \/ det st = true;
  i_det : det st = true -> att st = true /\ own st = false /\ blk st = false;
  i_blk : blk st = true -> own st = true /\ q st = [] /\ away st = scommit st;
  i_tk : tk = rev (range 1 (away st))
}.

Lemma sinv_iff c c' tk st : (c <-> c') -> sinv c tk st -> sinv c' tk st.
Proof. intros Hc []. constructor; try assumption; tauto. Qed.

Lemma sinv_stream0 : sinv False [] stream0.
Proof.
  constructor; cbn [q cur away scommit att det blk popped pend own stream0]; try lia; try discriminate; try tauto.
Qed.

Definition sget (t : sst) (i : Z) : stream := get_s (streams t) (Z.to_nat i).

Record Inv (t : sst) : Prop := {
  I_cr : scrashed t = false;
  I_nd : NoDup (charged t);
  I_pos : forall j, In j (charged t) -> 0 <= j;
  I_s : forall i, 0 <= i -> sinv (In i (charged t)) (tk_of i (taken t)) (sget t i)
}.

Lemma Inv_init : Inv sinit.
Proof.
  constructor; cbn [sinit scrashed charged taken]; [reflexivity|constructor|intros j []|].
  intros i Hi. unfold sget. cbn [sinit streams]. rewrite get_s_nil. exact sinv_stream0.
Qed.

(* frame: a step that rewrites stream [s] only *)
Lemma Inv_upd t s x ch' tk' tm' :
  Inv t -> 0 <= s ->
  NoDup ch' -> (forall j, In j ch' -> 0 <= j) ->
  (forall j, j <> s -> (In j ch' <-> In j (charged t))) ->
  (forall j, j <> s -> tk_of j tk' = tk_of j (taken t)) ->
  sinv (In s ch') (tk_of s tk') x ->
  Inv {| streams := set_s (streams t) (Z.to_nat s) x; charged := ch'; scrashed := scrashed t; taken := tk'; timeouts := tm' |}.
Proof.
  intros HI Hs Hnd Hpos Hch Htk Hx. constructor; cbn [scrashed charged taken streams]; try assumption.
  - exact (I_cr _ HI).
  - intros i Hi. unfold sget. cbn [streams]. destruct (Z.eq_dec s i) as [->|Hne].
    + rewrite get_set_same. exact Hx.
    + rewrite get_set_other by lia. rewrite Htk by congruence.
      eapply sinv_iff; [|exact (I_s _ HI i Hi)]. symmetry. apply Hch. congruence.
Qed.

(* the common case: the charged list and the history of taken events are unchanged *)
Lemma Inv_upd_stream t s x :
  Inv t -> 0 <= s -> sinv (In s (charged t)) (tk_of s (taken t)) x -> Inv (upd_stream t s x).
Proof.
  intros HI Hs Hx. unfold upd_stream. apply Inv_upd; try assumption; try tauto.
  - exact (I_nd _ HI).
  - exact (I_pos _ HI).
Qed.
