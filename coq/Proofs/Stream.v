(* Proofs about Model/Stream.v (pipeline/stream.go + the charged list of pipeline/streamer.go):
   one inductive invariant [Inv] over every stream of the state, preserved by every enabled label. *)
From Verif Require Import Base.Sx Model.Stream.
From Coq Require Import Lia ZifyBool Bool List ZArith FinFun.
Import ListNotations.
Local Open Scope Z_scope.

(* generic: an invariant preserved by every enabled step holds in every reachable state *)
Lemma srun_invariant (P : sst -> Prop) :
  (forall t l t', P t -> sstep t l = Some t' -> P t') ->
  forall ls t t', P t -> srun t ls = Some t' -> P t'.
Proof.
  intros Hstep ls. induction ls as [|l r IH]; intros t t' Ht Hr; cbn [srun] in Hr.
  - inversion Hr; subst; exact Ht.
  - destruct (sstep t l) as [t1|] eqn:E; [|discriminate]. eapply IH; [eapply Hstep; eauto|exact Hr].
Qed.

Lemma srun_app ls1 ls2 t :
  srun t (ls1 ++ ls2) = match srun t ls1 with Some t1 => srun t1 ls2 | None => None end.
Proof.
  revert t. induction ls1 as [|l r IH]; intros t; cbn [srun app]; [reflexivity|].
  destruct (sstep t l); [apply IH|reflexivity].
Qed.

(* ------------------------------------------------------------------------------------------- *)
(* the stream table                                                                              *)

Lemma get_s_nth l i : get_s l i = nth i l stream0.
Proof. destruct l; reflexivity. Qed.

Lemma get_s_nil i : get_s [] i = stream0.
Proof. rewrite get_s_nth. destruct i; reflexivity. Qed.

Lemma get_set_s l i x j : get_s (set_s l i x) j = if Nat.eqb i j then x else get_s l j.
Proof.
  rewrite !get_s_nth. revert l j. induction i as [|i IH]; intros l j.
  - destruct l, j; cbn [set_s nth Nat.eqb]; try reflexivity. destruct j; reflexivity.
  - destruct l, j; cbn [set_s nth Nat.eqb]; try reflexivity.
    + rewrite IH. destruct (Nat.eqb i j); [reflexivity|destruct j; reflexivity].
    + apply IH.
Qed.

Lemma get_set_same l i x : get_s (set_s l i x) i = x.
Proof. rewrite get_set_s, Nat.eqb_refl. reflexivity. Qed.

Lemma get_set_other l i x j : i <> j -> get_s (set_s l i x) j = get_s l j.
Proof. intros H. rewrite get_set_s. apply Nat.eqb_neq in H. rewrite H. reflexivity. Qed.

(* ------------------------------------------------------------------------------------------- *)
(* [range a b] = a, a+1, ..., b                                                                  *)

Definition range (a b : Z) : list Z := map (fun k => a + Z.of_nat k) (seq 0 (Z.to_nat (b - a + 1))).

Lemma range_empty a b : b < a -> range a b = [].
Proof. intros H. unfold range. replace (Z.to_nat (b - a + 1)) with O by lia. reflexivity. Qed.

Lemma range_cons a b : a <= b -> range a b = a :: range (a + 1) b.
Proof.
  intros H. unfold range. replace (Z.to_nat (b - a + 1)) with (S (Z.to_nat (b - (a + 1) + 1))) by lia.
  cbn [seq map]. f_equal; [lia|]. rewrite <- seq_shift, map_map. apply map_ext. intros k. lia.
Qed.

Lemma range_snoc a b : a <= b + 1 -> range a (b + 1) = range a b ++ [b + 1].
Proof.
  intros H. unfold range. replace (Z.to_nat (b + 1 - a + 1)) with (S (Z.to_nat (b - a + 1))) by lia.
  rewrite seq_S, map_app. cbn [map]. f_equal. f_equal. lia.
Qed.

Lemma range_nil_inv a b : range a b = [] -> b < a.
Proof. intros H. destruct (Z_lt_le_dec b a) as [L|L]; [exact L|]. rewrite range_cons in H by exact L. discriminate. Qed.

Lemma range_cons_inv a b x r : range a b = x :: r -> x = a /\ r = range (a + 1) b /\ a <= b.
Proof.
  intros H. destruct (Z_lt_le_dec b a) as [L|L]; [rewrite range_empty in H by exact L; discriminate|].
  rewrite range_cons in H by exact L. inversion H; subst. auto.
Qed.

Lemma range_In a b x : In x (range a b) <-> a <= x <= b.
Proof.
  unfold range. rewrite in_map_iff. split.
  - intros (k & <- & Hk). apply in_seq in Hk. lia.
  - intros Hx. exists (Z.to_nat (x - a)). split; [lia|]. apply in_seq. lia.
Qed.

(* ------------------------------------------------------------------------------------------- *)
(* list helpers                                                                                  *)

Lemma NoDup_snoc {A} (l : list A) x : NoDup l -> ~ In x l -> NoDup (l ++ [x]).
Proof.
  intros Hn Hx. induction Hn as [|y l Hy Hn IH]; cbn [app]; [constructor; [intros []|constructor]|].
  constructor.
  - rewrite in_app_iff. cbn [In]. intros [H|[H|[]]]; [exact (Hy H)|subst; apply Hx; left; reflexivity].
  - apply IH. intros H; apply Hx; right; exact H.
Qed.

Lemma NoDup_snoc_inv {A} (l : list A) x : NoDup (l ++ [x]) -> NoDup l /\ ~ In x l.
Proof.
  intros H. apply NoDup_remove in H. rewrite app_nil_r in H. exact H.
Qed.

Lemma existsb_eqb_false s l : existsb (Z.eqb s) l = false -> ~ In s l.
Proof.
  intros H Hin. assert (E : existsb (Z.eqb s) l = true) by (apply existsb_exists; exists s; split; [exact Hin|apply Z.eqb_refl]).
  congruence.
Qed.

Lemma rev_eq_cons {A} (l : list A) x r : rev l = x :: r -> l = rev r ++ [x].
Proof. intros H. rewrite <- (rev_involutive l), H. reflexivity. Qed.

(* the seqs taken from stream [i], newest first *)
Definition tk_of (i : Z) (tk : list (Z * Z)) : list Z := map snd (filter (fun p => fst p =? i) tk).

Lemma tk_of_cons_same i x tk : tk_of i ((i, x) :: tk) = x :: tk_of i tk.
Proof. unfold tk_of. cbn [filter fst]. rewrite Z.eqb_refl. reflexivity. Qed.

Lemma tk_of_cons_other i j x tk : j <> i -> tk_of i ((j, x) :: tk) = tk_of i tk.
Proof. intros H. unfold tk_of. cbn [filter fst]. apply Z.eqb_neq in H. rewrite H. reflexivity. Qed.

Lemma filter_rev {A} (f : A -> bool) l : filter f (rev l) = rev (filter f l).
Proof.
  induction l as [|x r IH]; [reflexivity|]. cbn [rev filter]. rewrite filter_app, IH. cbn [filter].
  destruct (f x); [reflexivity|apply app_nil_r].
Qed.

Lemma tk_of_rev i tk : tk_of i (rev tk) = rev (tk_of i tk).
Proof. unfold tk_of. rewrite filter_rev, map_rev. reflexivity. Qed.

(* ------------------------------------------------------------------------------------------- *)
(* the per-stream invariant.  [c] = "the stream's id is in the charged list",
   [tk] = the seqs of the regular events taken from it so far, newest first.                     *)

Record sinv (c : Prop) (tk : list Z) (st : stream) : Prop := {
  i_c0 : 0 <= scommit st;
  i_ca : scommit st <= away st;
  i_ac : away st <= cur st;
  (* queue = [pending time-out marker] ++ the seqs put and not yet taken *)
  i_q : q st = range (away st + 1) (cur st) \/
        (q st = (- scommit st - 1) :: range (away st + 1) (cur st) /\
         own st = true /\ away st = scommit st /\ blk st = false);
  i_ch : c -> att st = false /\ q st <> [] /\ popped st = false /\ pend st = false;
  i_un : att st = false -> q st <> [] -> c \/ popped st = true \/ pend st = true;
  i_na : att st = false -> det st = false /\ own st = false /\ blk st = false /\ away st = scommit st;
  i_pop : popped st = true -> att st = false /\ q st <> [] /\ pend st = false;
  i_pend : pend st = true -> att st = false /\ q st <> [];
  i_own : own st = true -> att st = true /\ det st = false;
  i_att : att st = true -> own st = true \/ det st = true;
  i_det : det st = true -> att st = true /\ own st = false /\ blk st = false;
  i_blk : blk st = true -> own st = true /\ q st = [] /\ away st = scommit st;
  i_tk : tk = rev (range 1 (away st))
}.

Lemma sinv_iff c c' tk st : (c <-> c') -> sinv c tk st -> sinv c' tk st.
Proof. intros Hc []. constructor; try assumption; tauto. Qed.

Lemma sinv_stream0 : sinv False [] stream0.
Proof.
  constructor; cbn [q cur away scommit att det blk popped pend own stream0]; try lia; try discriminate; try tauto.
Qed.

Definition sget (t : sst) (i : Z) : stream := get_s (streams t) (Z.to_nat i).

Record Inv (t : sst) : Prop := {
  I_cr : scrashed t = false;
  I_nd : NoDup (charged t);
  I_pos : forall j, In j (charged t) -> 0 <= j;
  I_s : forall i, 0 <= i -> sinv (In i (charged t)) (tk_of i (taken t)) (sget t i)
}.

Lemma Inv_init : Inv sinit.
Proof.
  constructor; cbn [sinit scrashed charged taken]; [reflexivity|constructor|intros j []|].
  intros i Hi. unfold sget. cbn [sinit streams]. rewrite get_s_nil. exact sinv_stream0.
Qed.

(* frame: a step that rewrites stream [s] only *)
Lemma Inv_upd t s x ch' cr' tk' tm' :
  Inv t -> 0 <= s -> cr' = false ->
  NoDup ch' -> (forall j, In j ch' -> 0 <= j) ->
  (forall j, j <> s -> (In j ch' <-> In j (charged t))) ->
  (forall j, j <> s -> tk_of j tk' = tk_of j (taken t)) ->
  sinv (In s ch') (tk_of s tk') x ->
  Inv {| streams := set_s (streams t) (Z.to_nat s) x; charged := ch'; scrashed := cr'; taken := tk'; timeouts := tm' |}.
Proof.
  intros HI Hs Hcr Hnd Hpos Hch Htk Hx. constructor; cbn [scrashed charged taken streams]; try assumption.
  intros i Hi. unfold sget. cbn [streams]. destruct (Z.eq_dec s i) as [->|Hne].
  - rewrite get_set_same. exact Hx.
  - rewrite get_set_other by lia. rewrite Htk by congruence.
    eapply sinv_iff; [|exact (I_s _ HI i Hi)]. symmetry. apply Hch. congruence.
Qed.

(* the common case: the charged list and the history of taken events are unchanged *)
Lemma Inv_upd_stream t s x :
  Inv t -> 0 <= s -> sinv (In s (charged t)) (tk_of s (taken t)) x -> Inv (upd_stream t s x).
Proof.
  intros HI Hs Hx. unfold upd_stream. apply Inv_upd; try assumption; try tauto.
  - exact (I_cr _ HI).
  - exact (I_nd _ HI).
  - exact (I_pos _ HI).
Qed.

(* ------------------------------------------------------------------------------------------- *)
(* inversion of [sstep] and the case analysis on one stream's flags                              *)

Ltac s_bnorm :=
  repeat match goal with
  | H : _ && _ = true |- _ => apply andb_true_iff in H; destruct H
  | H : _ || _ = false |- _ => apply orb_false_iff in H; destruct H
  | H : negb _ = true |- _ => apply negb_true_iff in H
  | H : negb _ = false |- _ => apply negb_false_iff in H
  | H : (_ =? _) = true |- _ => apply Z.eqb_eq in H
  | H : (_ =? _) = false |- _ => apply Z.eqb_neq in H
  | H : (_ <? _) = true |- _ => apply Z.ltb_lt in H
  | H : (_ <? _) = false |- _ => apply Z.ltb_ge in H
  | H : (_ <=? _) = true |- _ => apply Z.leb_le in H
  | H : (_ <=? _) = false |- _ => apply Z.leb_gt in H
  | H : Bool.eqb _ _ = true |- _ => apply Bool.eqb_prop in H
  | H : true = false |- _ => discriminate H
  | H : false = true |- _ => discriminate H
  end.

Ltac s_split H :=
  repeat match type of H with
  | (if ?c then _ else _) = Some _ => destruct c eqn:?; try discriminate H
  | match ?x with _ => _ end = Some _ => destruct x eqn:?; try discriminate H
  end; try discriminate H.

Ltac s_hsimp :=
  repeat match goal with
  | H : ?a = ?a -> _ |- _ => specialize (H eq_refl)
  | H : ?P -> _, H' : ?P |- _ => specialize (H H')
  | H : true = false -> _ |- _ => clear H
  | H : false = true -> _ |- _ => clear H
  | H : ([] <> []) -> _ |- _ => clear H
  | H : (_ :: _ <> []) -> _ |- _ => specialize (H ltac:(discriminate))
  | H : _ /\ _ |- _ => destruct H
  | H : true = false |- _ => discriminate H
  | H : false = true |- _ => discriminate H
  | H : [] <> [] |- _ => exfalso; apply H; reflexivity
  | H : _ :: _ = [] |- _ => discriminate H
  | H : [] = _ :: _ |- _ => discriminate H
  | H : [] = range _ _ |- _ => symmetry in H; apply range_nil_inv in H
  | H : _ :: _ = range _ _ |- _ => symmetry in H; apply range_cons_inv in H; destruct H as (? & ? & ?)
  | H : _ :: _ = _ :: _ |- _ => injection H as ? ?
  | H : _ \/ _ |- _ => destruct H
  end.

Ltac s_zlia := match goal with
  | |- (_ <= _)%Z => lia | |- (_ < _)%Z => lia | |- @eq Z _ _ => lia | |- (_ <= _ <= _)%Z => lia end.
Ltac s_leaf1 := first [assumption | reflexivity | discriminate | s_zlia | congruence | tauto ].
Ltac s_leaf := cbn [app] in *; try solve [ s_leaf1 | repeat split; s_leaf1 ].


Definition keep (P : Prop) : Prop := P.

(* open the stream [s] of the label: its invariant, its queue and its s_flags by cases *)
Ltac s_open HI t s :=
  let Hs := fresh "Hs" in
  assert (Hs := I_s _ HI s ltac:(lia));
  let st := fresh "st" in let Est := fresh "Est" in
  remember (sget t s) as st eqn:Est in *; clear Est;
  destruct Hs as [c0 ca ac hq hch hun hna hpop hpend hown hatt hdet hblk htk].

Ltac s_start HI H t s :=
  unfold sstep in H; cbn [label_stream] in H; cbv zeta in H; fold (sget t s) in H;
  destruct (scrashed t) eqn:Ecr; [discriminate|]; destruct (s <? 0) eqn:Es; [discriminate|]; s_bnorm;
  s_open HI t s.

Ltac s_qcases st H :=
  let qs := fresh "qs" in
  remember (q st) as qs eqn:Eq in *; destruct qs as [|qx qr]; cbv iota in H.

Ltac s_flag1 f st :=
  let b := fresh "b" in let E := fresh "E" in remember (f st) as b eqn:E in *; destruct b; s_hsimp.
Ltac s_flags st :=
  s_flag1 att st; s_flag1 det st; s_flag1 own st; s_flag1 blk st; s_flag1 popped st; s_flag1 pend st.

Ltac s_norm_goal := unfold mk, set_pend, set_own; cbn [q cur away scommit att det blk popped pend own].
Ltac s_assert_q Hq' := match goal with |- sinv _ _ ?x =>
  let T := eval cbn [q cur away scommit att det blk popped pend own] in
    (q x = range (away x + 1) (cur x) \/
     (q x = (- scommit x - 1) :: range (away x + 1) (cur x) /\ own x = true /\ away x = scommit x /\ blk x = false)) in
  assert (Hq' : keep T); [unfold keep|] end.
Ltac s_auto_q hq :=
  first [ exact hq
        | destruct hq as [hq|(hq & ? & ? & ?)]; [left|right; repeat split]; solve [assumption|reflexivity|congruence|discriminate] ].
Ltac s_finish Hq' :=
  constructor; cbn [q cur away scommit att det blk popped pend own negb]; intros;
  first [exact Hq' | s_hsimp; s_leaf].
Ltac s_absurd_case st := exfalso; s_flags st; cbn [orb andb negb] in *; try discriminate; try congruence; try lia.

Ltac s_crash_case st := match goal with |- Inv (crash _) => s_absurd_case st | _ => idtac end.

Lemma Inv_step t l t' : Inv t -> sstep t l = Some t' -> Inv t'.
Proof.
  intros HI H. destruct l as [s seq kind|s|s|s|s seq kind|s|s ne|s seq|s|s seq].
  - (* SPut *)
    s_start HI H t s. s_qcases st H. all: s_split H; s_bnorm; injection H as <-.
    all: apply Inv_upd_stream; [exact HI|lia|]; s_norm_goal; s_assert_q Hq'.
    1,3: rewrite ?app_comm_cons; subst seq; rewrite range_snoc by lia; destruct hq as [hq|(hq & ? & ? & ?)];
      [left; rewrite <- hq; reflexivity|right; repeat split; try assumption; try discriminate hq; rewrite hq; reflexivity].
    all: s_flags st; s_finish Hq'.
  - (* SCharge *)
    s_start HI H t s. s_qcases st H. all: s_split H; s_bnorm; try discriminate; injection H as <-.
    match goal with Hx : existsb _ _ = false |- _ => apply existsb_eqb_false in Hx; rename Hx into Hnc end.
    apply Inv_upd; [exact HI|lia|reflexivity|apply NoDup_snoc; [exact (I_nd _ HI)|exact Hnc]| | |reflexivity|].
    + intros j Hj. apply in_app_iff in Hj. destruct Hj as [Hj|[<-|[]]]; [exact (I_pos _ HI j Hj)|lia].
    + intros j Hj. rewrite in_app_iff. cbn [In]. intuition congruence.
    + assert (Hc' : In s (charged t ++ [s])) by (apply in_app_iff; right; left; reflexivity).
      s_norm_goal. s_assert_q Hq'; [s_auto_q hq|]. s_flags st; s_finish Hq'.
  - (* SPop *)
    s_start HI H t s. s_split H; s_bnorm; injection H as <-. subst z.
    match goal with Hx : rev (charged t) = _ |- _ => apply rev_eq_cons in Hx; rename Hx into Hch end.
    assert (Hnd := I_nd _ HI). rewrite Hch in Hnd. apply NoDup_snoc_inv in Hnd. destruct Hnd as [Hnd Hnc'].
    assert (Hc : In s (charged t)) by (rewrite Hch; apply in_app_iff; right; left; reflexivity).
    apply Inv_upd; [exact HI|lia|reflexivity|exact Hnd| | |reflexivity|].
    + intros j Hj. apply (I_pos _ HI). rewrite Hch. apply in_app_iff. left; exact Hj.
    + intros j Hj. rewrite Hch, in_app_iff. cbn [In]. intuition congruence.
    + s_norm_goal. s_assert_q Hq'; [s_auto_q hq|]. s_qcases st Ecr. all: s_flags st; s_finish Hq'.
  - (* SAttach *)
    s_start HI H t s. s_qcases st H. all: s_split H; s_bnorm; injection H as <-.
    all: s_crash_case st.
    apply Inv_upd_stream; [exact HI|lia|]; s_norm_goal; s_assert_q Hq'; [s_auto_q hq|]. s_flags st; s_finish Hq'.
  - (* SGet *)
    s_start HI H t s. s_qcases st H. all: s_split H; s_bnorm; injection H as <-.
    all: s_crash_case st.
    + (* a time-out event *)
      apply Inv_upd; [exact HI|lia|reflexivity|exact (I_nd _ HI)|exact (I_pos _ HI)|tauto|reflexivity|]. s_norm_goal.
      assert (seq = away st /\ qr = range (seq + 1) (cur st)) as [Hseq Hqr].
      { destruct hq as [hq|(hq & ? & ? & ?)].
        - symmetry in hq. apply range_cons_inv in hq. lia.
        - injection hq as Hx Hr. split; [lia|]. rewrite Hr. f_equal. lia. }
      s_assert_q Hq'; [left; exact Hqr|]. rewrite Hseq in *. s_flags st; s_finish Hq'.
    + (* a regular event *)
      apply Inv_upd; [exact HI|lia|reflexivity|exact (I_nd _ HI)|exact (I_pos _ HI)|tauto| |].
      { intros j Hj. apply tk_of_cons_other. congruence. }
      rewrite tk_of_cons_same. s_norm_goal.
      assert (seq = away st + 1 /\ qr = range (seq + 1) (cur st)) as [Hseq Hqr].
      { destruct hq as [hq|(hq & ? & ? & ?)].
        - symmetry in hq. apply range_cons_inv in hq. destruct hq as (Hx & Hr & _). split; [lia|]. rewrite Hr. f_equal. lia.
        - injection hq as Hx Hr. lia. }
      s_assert_q Hq'; [left; exact Hqr|].
      assert (Htk' : seq :: tk_of s (taken t) = rev (range 1 seq)).
      { rewrite htk, Hseq, range_snoc by lia. rewrite rev_app_distr. reflexivity. }
      s_flags st; s_finish Hq'.
  - (* SLeave *)
    s_start HI H t s. s_qcases st H. all: s_split H; s_bnorm; injection H as <-.
    all: s_crash_case st.
    apply Inv_upd_stream; [exact HI|lia|]; s_norm_goal; s_assert_q Hq'; [s_auto_q hq|]. s_flags st; s_finish Hq'.
  - (* SDetach *)
    s_start HI H t s. s_split H; s_bnorm; injection H as <-.
    apply Inv_upd_stream; [exact HI|lia|]; s_norm_goal; s_assert_q Hq'; [s_auto_q hq|]. s_qcases st Ecr. all: s_flags st; s_finish Hq'.
  - (* SCommit *)
    s_start HI H t s. s_split H; s_bnorm; injection H as <-.
    apply Inv_upd_stream; [exact HI|lia|]; s_norm_goal; s_assert_q Hq'.
    { destruct hq as [hq|(hq & ? & ? & ?)]; [left; exact hq|right]. replace seq with (scommit st) by lia. auto. }
    s_qcases st Ecr. all: s_flags st; s_finish Hq'.
  - (* SBlock *)
    s_start HI H t s. s_qcases st H. all: s_split H; s_bnorm; injection H as <-.
    apply Inv_upd_stream; [exact HI|lia|]; s_norm_goal; s_assert_q Hq'; [s_auto_q hq|]. s_flags st; s_finish Hq'.
  - (* STimeout *)
    s_start HI H t s. s_qcases st H. all: s_split H; s_bnorm; injection H as <-.
    all: s_crash_case st.
    apply Inv_upd; [exact HI|lia|reflexivity|exact (I_nd _ HI)|exact (I_pos _ HI)|tauto|reflexivity|]. s_norm_goal. s_assert_q Hq'.
    { destruct (hblk eq_refl) as (? & _ & ?). destruct hq as [hq|(hq & _)]; [|discriminate].
      right. symmetry in hq. apply range_nil_inv in hq. rewrite range_empty by lia. subst seq. auto. }
    s_flags st; s_finish Hq'.
Qed.

Lemma Inv_reach ls t : srun sinit ls = Some t -> Inv t.
Proof. intros Hr. exact (srun_invariant Inv Inv_step ls _ _ Inv_init Hr). Qed.

(* the invariant of the stream with table index [i] *)
Lemma Inv_nat t (i : nat) :
  Inv t -> sinv (In (Z.of_nat i) (charged t)) (tk_of (Z.of_nat i) (taken t)) (get_s (streams t) i).
Proof.
  intros HI. assert (H := I_s _ HI (Z.of_nat i) ltac:(lia)). unfold sget in H. rewrite Nat2Z.id in H. exact H.
Qed.

Lemma not_In_existsb s l : ~ In s l -> existsb (Z.eqb s) l = false.
Proof.
  intros H. destruct (existsb (Z.eqb s) l) eqn:E; [|reflexivity]. exfalso. apply existsb_exists in E.
  destruct E as (x & Hx & Hs). apply Z.eqb_eq in Hs. subst. exact (H Hx).
Qed.

Lemma range_length a b : length (range a b) = Z.to_nat (b - a + 1).
Proof. unfold range. rewrite map_length, seq_length. reflexivity. Qed.

Lemma range_NoDup a b : NoDup (range a b).
Proof.
  unfold range. apply FinFun.Injective_map_NoDup; [intros x y Hxy; lia|apply seq_NoDup].
Qed.

(* ------------------------------------------------------------------------------------------- *)
(* a stream stays attached until a tryDetach succeeds, and that needs awaySeq = commitSeq        *)

Lemma att_lost_step t l t' i :
  0 <= i -> sstep t l = Some t' -> att (sget t i) = true -> att (sget t' i) = false ->
  exists b, l = SDetach i b /\ det (sget t i) = true /\ away (sget t i) = scommit (sget t i).
Proof.
  intros Hi H Ha Hb. unfold sstep in H. unfold sget in *.
  destruct (scrashed t) eqn:Ecr; [discriminate|]. destruct (label_stream l <? 0) eqn:Es; [discriminate|].
  destruct l as [s seq kind|s|s|s|s seq kind|s|s ne|s seq|s|s seq]; cbn [label_stream] in Es; cbv zeta in H;
    s_split H; s_bnorm; injection H as <-;
    cbn [upd_stream crash streams] in Hb; try congruence;
    (destruct (Z.eq_dec s i) as [->|Hne];
     [rewrite get_set_same in Hb; unfold mk, set_pend, set_own in Hb; cbn [att] in Hb; try congruence
     |rewrite get_set_other in Hb by lia; congruence]).
  exists ne. auto.
Qed.

Lemma att_lost_run ls : forall t t' i,
  0 <= i -> srun t ls = Some t' -> att (sget t i) = true -> att (sget t' i) = false ->
  exists la b lb tm, ls = la ++ SDetach i b :: lb /\ srun t la = Some tm /\
    att (sget tm i) = true /\ det (sget tm i) = true /\ away (sget tm i) = scommit (sget tm i).
Proof.
  induction ls as [|l r IH]; intros t t' i Hi Hr Ha Hb; cbn [srun] in Hr.
  - inversion Hr; subst. congruence.
  - destruct (sstep t l) as [t1|] eqn:E; [|discriminate].
    destruct (att (sget t1 i)) eqn:Ea1.
    + destruct (IH t1 t' i Hi Hr Ea1 Hb) as (la & b & lb & tm & -> & Hla & Hm).
      exists (l :: la), b, lb, tm. split; [reflexivity|]. split; [cbn [srun]; rewrite E; exact Hla|exact Hm].
    + destruct (att_lost_step t l t1 i Hi E Ha Ea1) as (b & -> & Hd & Hac).
      exists [], b, r, t. split; [reflexivity|]. split; [reflexivity|]. auto.
Qed.
