(* The standard event pool (eventPool of pipeline/event.go): invariants of [sstep]. *)
From Verif Require Import Base.Sx Model.Pool Proofs.Pool.
From Coq Require Import Lia ZifyBool Bool List ZArith.
Import ListNotations.
Local Open Scope Z_scope.

Lemma srun_invariant (c : pcfg) (P : sst -> Prop) :
  (forall s l s', P s -> sstep c s l = Some s' -> P s') ->
  forall ls s s', P s -> srun c s ls = Some s' -> P s'.
Proof.
  intros Hstep ls. induction ls as [|l r IH]; intros s s' Hs Hr; cbn [srun] in Hr.
  - inversion Hr; subst; exact Hs.
  - destruct (sstep c s l) as [s1|] eqn:E; [|discriminate]. eapply IH; [eapply Hstep; eauto|exact Hr].
Qed.

Lemma srun_app c ls1 ls2 s s1 s2 :
  srun c s ls1 = Some s1 -> srun c s1 ls2 = Some s2 -> srun c s (ls1 ++ ls2) = Some s2.
Proof.
  revert s. induction ls1 as [|l r IH]; intros s H1 H2; cbn [srun app] in *.
  - inversion H1; subst. exact H2.
  - destruct (sstep c s l); [|discriminate]. exact (IH _ H1 H2).
Qed.

(* who is in the middle of an operation on slot x *)
Definition own_g (x : Z) (p : gpc) : bool := match p with GTook x' | GTaken x' => x =? x' | _ => false end.
Definition own_b (x : Z) (p : bpc) : bool := match p with BWon y | BPut y => x =? y | _ => false end.

Lemma gwake_idle : gwake GIdle = GIdle. Proof. reflexivity. Qed.
Lemma gwake_took p x : gwake p = GTook x -> p = GTook x. Proof. destruct p; cbn; congruence. Qed.
Lemma gwake_taken p x : gwake p = GTaken x -> p = GTaken x. Proof. destruct p; cbn; congruence. Qed.
Lemma own_g_gwake x p : own_g x (gwake p) = own_g x p. Proof. destruct p; reflexivity. Qed.

(* normal form of states after a step: everything in terms of fget/fset on the old state's components *)
Ltac sst_unfold :=
  unfold gpc_of, bpc_of, slot_of, sset_g, sset_b, sset_slot, sset_lock, sset_waiters, sset_inuse, sset_holders,
         sset_tick, sset_pend, sbcast, sbroadcast in *;
  cbn [s_slots s_getc s_backc s_inuse s_waiters s_lock s_gthr s_bthr s_holders s_pdec s_pbc s_tick supd] in *.

Ltac sst_get :=
  repeat (rewrite fget_fset in * || rewrite (fget_fmapv GIdle gwake) in * by reflexivity).

Ltac eqb_cases :=
  repeat match goal with
  | |- context [?a =? ?b] => destruct (Z.eqb_spec a b); subst
  | H : context [?a =? ?b] |- _ => destruct (Z.eqb_spec a b); subst
  end.

(* ---- group A: the two-flag protocol of a slot --------------------------------------------------- *)
Record sinvA (s : sst) : Prop := {
  a_took  : forall g x, gpc_of s g = GTook x -> f1 (slot_of s x) = false /\ f2 (slot_of s x) = true /\ sev (slot_of s x) <> None;
  a_taken : forall g x, gpc_of s g = GTaken x -> f1 (slot_of s x) = false /\ f2 (slot_of s x) = true /\ sev (slot_of s x) = None;
  a_won   : forall e y, bpc_of s e = BWon y -> f1 (slot_of s y) = false /\ f2 (slot_of s y) = true /\ sev (slot_of s y) = None;
  a_put   : forall e y, bpc_of s e = BPut y -> f1 (slot_of s y) = false /\ f2 (slot_of s y) = true /\ sev (slot_of s y) = Some e;
  a_ug    : forall x g g', own_g x (gpc_of s g) = true -> own_g x (gpc_of s g') = true -> g = g';
  a_ub    : forall x e e', own_b x (bpc_of s e) = true -> own_b x (bpc_of s e') = true -> e = e';
  a_gb    : forall x g e, own_g x (gpc_of s g) = true -> own_b x (bpc_of s e) = true -> False;
  a_f1    : forall x, f1 (slot_of s x) = true -> f2 (slot_of s x) = true /\ sev (slot_of s x) <> None;
  a_f2    : forall x, f2 (slot_of s x) = false -> sev (slot_of s x) = None
}.

Lemma slot_init n x :
  fget slot0 x (init_slots n) = if (0 <=? x) && (x <? Z.of_nat n) then {| f1 := true; f2 := true; sev := Some x |} else slot0.
Proof.
  induction n as [|k IH]; cbn [init_slots fget].
  - replace ((0 <=? x) && (x <? Z.of_nat 0)) with false by lia. reflexivity.
  - destruct (Z.eqb_spec x (Z.of_nat k)) as [->|Hne].
    + replace ((0 <=? Z.of_nat k) && (Z.of_nat k <? Z.of_nat (S k))) with true by lia. reflexivity.
    + rewrite IH. destruct ((0 <=? x) && (x <? Z.of_nat k)) eqn:E1, ((0 <=? x) && (x <? Z.of_nat (S k))) eqn:E2; try reflexivity; lia.
Qed.

Lemma sinvA_init c : sinvA (sinit c).
Proof.
  split; unfold gpc_of, bpc_of, slot_of, sinit; cbn [s_gthr s_bthr s_slots fget own_g own_b]; try discriminate.
  - intros x. rewrite slot_init. destruct ((0 <=? x) && (x <? _)); cbn; [split; [reflexivity|discriminate]|discriminate].
  - intros x. rewrite slot_init. destruct ((0 <=? x) && (x <? _)); cbn; [discriminate|reflexivity].
Qed.

(* the invariant only concerns (slots, getter pcs, backer pcs) *)
Section GroupA.
  Variables (s : sst).
  Hypothesis HA : sinvA s.

  Let sl := s_slots s. Let gt := s_gthr s. Let bt := s_bthr s.

  Lemma no_owner_g_f1 x : f1 (slot_of s x) = true -> forall g, own_g x (gpc_of s g) = false.
  Proof.
    intros Hf g. destruct (gpc_of s g) eqn:E; cbn [own_g]; try reflexivity; eqb_cases; try reflexivity.
    - destruct (a_took s HA g _ E) as (H1 & _). congruence.
    - destruct (a_taken s HA g _ E) as (H1 & _). congruence.
  Qed.
  Lemma no_owner_b_f1 x : f1 (slot_of s x) = true -> forall e, own_b x (bpc_of s e) = false.
  Proof.
    intros Hf e. destruct (bpc_of s e) eqn:E; cbn [own_b]; try reflexivity; eqb_cases; try reflexivity.
    - destruct (a_won s HA e _ E) as (H1 & _). congruence.
    - destruct (a_put s HA e _ E) as (H1 & _). congruence.
  Qed.
  Lemma no_owner_g_f2 x : f2 (slot_of s x) = false -> forall g, own_g x (gpc_of s g) = false.
  Proof.
    intros Hf g. destruct (gpc_of s g) eqn:E; cbn [own_g]; try reflexivity; eqb_cases; try reflexivity.
    - destruct (a_took s HA g _ E) as (_ & H1 & _). congruence.
    - destruct (a_taken s HA g _ E) as (_ & H1 & _). congruence.
  Qed.
  Lemma no_owner_b_f2 x : f2 (slot_of s x) = false -> forall e, own_b x (bpc_of s e) = false.
  Proof.
    intros Hf e. destruct (bpc_of s e) eqn:E; cbn [own_b]; try reflexivity; eqb_cases; try reflexivity.
    - destruct (a_won s HA e _ E) as (_ & H1 & _). congruence.
    - destruct (a_put s HA e _ E) as (_ & H1 & _). congruence.
  Qed.
  Lemma sole_owner_g x g : own_g x (gpc_of s g) = true ->
    (forall g', g' <> g -> own_g x (gpc_of s g') = false) /\ (forall e, own_b x (bpc_of s e) = false).
  Proof.
    intros Ho. split.
    - intros g' Hne. destruct (own_g x (gpc_of s g')) eqn:E; [|reflexivity]. exfalso. apply Hne. exact (a_ug s HA x g' g E Ho).
    - intros e. destruct (own_b x (bpc_of s e)) eqn:E; [|reflexivity]. exfalso. exact (a_gb s HA x g e Ho E).
  Qed.
  Lemma sole_owner_b x e : own_b x (bpc_of s e) = true ->
    (forall e', e' <> e -> own_b x (bpc_of s e') = false) /\ (forall g, own_g x (gpc_of s g) = false).
  Proof.
    intros Ho. split.
    - intros e' Hne. destruct (own_b x (bpc_of s e')) eqn:E; [|reflexivity]. exfalso. apply Hne. exact (a_ub s HA x e' e E Ho).
    - intros g. destruct (own_g x (gpc_of s g)) eqn:E; [|reflexivity]. exfalso. exact (a_gb s HA x g e E Ho).
  Qed.
End GroupA.

(* use "nobody (else) owns slot x" facts against a hypothesis that says somebody does *)
Ltac kill_owner :=
  match goal with
  | Hno : forall g, own_g ?x (fget GIdle g ?gt) = false, Hp : fget GIdle ?g' ?gt = ?p |- _ =>
      let F := fresh in pose proof (Hno g') as F; rewrite Hp in F; cbn [own_g] in F; rewrite ?Z.eqb_refl in F; discriminate F
  | Hno : forall g, g <> ?g0 -> own_g ?x (fget GIdle g ?gt) = false, Hp : fget GIdle ?g' ?gt = ?p, Hne : ?g' <> ?g0 |- _ =>
      let F := fresh in pose proof (Hno g' Hne) as F; rewrite Hp in F; cbn [own_g] in F; rewrite ?Z.eqb_refl in F; discriminate F
  | Hno : forall e, own_b ?x (fget BIdle e ?bt) = false, Hp : fget BIdle ?e' ?bt = ?p |- _ =>
      let F := fresh in pose proof (Hno e') as F; rewrite Hp in F; cbn [own_b] in F; rewrite ?Z.eqb_refl in F; discriminate F
  | Hno : forall e, e <> ?e0 -> own_b ?x (fget BIdle e ?bt) = false, Hp : fget BIdle ?e' ?bt = ?p, Hne : ?e' <> ?e0 |- _ =>
      let F := fresh in pose proof (Hno e' Hne) as F; rewrite Hp in F; cbn [own_b] in F; rewrite ?Z.eqb_refl in F; discriminate F
  end.


Lemma sinvA_step c s l s' : sinvA s -> sstep c s l = Some s' -> sinvA s'.
Proof.
  intros HA H.
  destruct l; unfold sstep in H; step_split H; inversion H; subst; clear H; bnorm; subst; try exact HA.
  all: pose proof HA as [Htook Htaken Hwon Hput Hug Hub Hgb Hf1 Hf2].
  all: match goal with
       | E : gpc_of ?s ?g = GSpin ?x, F : true = f1 (slot_of ?s ?x) |- _ =>
           symmetry in F; pose proof (no_owner_g_f1 s HA x F) as Hnog; pose proof (no_owner_b_f1 s HA x F) as Hnob;
           destruct (Hf1 x F) as [Hxf2 Hxsev]
       | E : gpc_of ?s ?g = GTook ?x |- _ =>
           let Ho := fresh in assert (Ho : own_g x (gpc_of s g) = true) by (rewrite E; cbn [own_g]; apply Z.eqb_refl);
           destruct (sole_owner_g s HA x g Ho) as [Hnog Hnob]; destruct (Htook g x E) as (Hxf1 & Hxf2 & Hxsev)
       | E : gpc_of ?s ?g = GTaken ?x |- _ =>
           let Ho := fresh in assert (Ho : own_g x (gpc_of s g) = true) by (rewrite E; cbn [own_g]; apply Z.eqb_refl);
           destruct (sole_owner_g s HA x g Ho) as [Hnog Hnob]; destruct (Htaken g x E) as (Hxf1 & Hxf2 & Hxsev)
       | E : bpc_of ?s ?e = BSpin ?y, F : true = negb (f2 (slot_of ?s ?y)) |- _ =>
           symmetry in F; apply negb_true_iff in F;
           pose proof (no_owner_g_f2 s HA y F) as Hnog; pose proof (no_owner_b_f2 s HA y F) as Hnob; pose proof (Hf2 y F) as Hxsev;
           assert (Hxf1 : f1 (slot_of s y) = false) by (destruct (f1 (slot_of s y)) eqn:Ef; [destruct (Hf1 y Ef); congruence|reflexivity])
       | E : bpc_of ?s ?e = BWon ?y |- _ =>
           let Ho := fresh in assert (Ho : own_b y (bpc_of s e) = true) by (rewrite E; cbn [own_b]; apply Z.eqb_refl);
           destruct (sole_owner_b s HA y e Ho) as [Hnob Hnog]; destruct (Hwon e y E) as (Hxf1 & Hxf2 & Hxsev)
       | E : bpc_of ?s ?e = BPut ?y |- _ =>
           let Ho := fresh in assert (Ho : own_b y (bpc_of s e) = true) by (rewrite E; cbn [own_b]; apply Z.eqb_refl);
           destruct (sole_owner_b s HA y e Ho) as [Hnob Hnog]; destruct (Hput e y E) as (Hxf1 & Hxf2 & Hxsev)
       | _ => idtac
       end.
  all: clear HA; sst_unfold.
  all: split; intros; sst_unfold; sst_get; eqb_cases; cbn [f1 f2 sev own_g own_b] in *;
       rewrite ?own_g_gwake in *;
       try match goal with H : gwake _ = GTook _ |- _ => apply gwake_took in H end;
       try match goal with H : gwake _ = GTaken _ |- _ => apply gwake_taken in H end;
       try solve [ eauto | discriminate | congruence | kill_owner | intuition congruence ].
  all: try solve [ match goal with H : ?p = _ |- _ => inversion H; subst end; cbn [f1 f2 sev] in *; intuition congruence ].
  all: bnorm; subst; exfalso;
       try match goal with
       | Hno : forall g, own_g ?x (fget GIdle g ?gt) = false, H : own_g ?x (fget GIdle ?g0 ?gt) = true |- _ =>
           rewrite (Hno g0) in H; discriminate H
       | Hno : forall g, g <> ?g1 -> own_g ?x (fget GIdle g ?gt) = false, H : own_g ?x (fget GIdle ?g0 ?gt) = true, n : ?g0 <> ?g1 |- _ =>
           rewrite (Hno g0 n) in H; discriminate H
       | Hno : forall e, own_b ?x (fget BIdle e ?bt) = false, H : own_b ?x (fget BIdle ?e0 ?bt) = true |- _ =>
           rewrite (Hno e0) in H; discriminate H
       | Hno : forall e, e <> ?e1 -> own_b ?x (fget BIdle e ?bt) = false, H : own_b ?x (fget BIdle ?e0 ?bt) = true, n : ?e0 <> ?e1 |- _ =>
           rewrite (Hno e0 n) in H; discriminate H
       end.
  Unshelve. all: exact 0.
Qed.

(* ---- group B: where the event objects are ------------------------------------------------------- *)
Definition transit (p : bpc) : bool := match p with BSpin _ | BWon _ => true | _ => false end.

Record sinvB (c : pcfg) (s : sst) : Prop := {
  b_u1 : forall x x' e, sev (slot_of s x) = Some e -> sev (slot_of s x') = Some e -> x = x';
  b_u2 : forall x e, sev (slot_of s x) = Some e -> ~ In e (s_holders s) /\ transit (bpc_of s e) = false;
  b_nd : NoDup (s_holders s);
  b_hidle : forall e, In e (s_holders s) -> bpc_of s e = BIdle;
  b_rs : forall x e, sev (slot_of s x) = Some e -> 0 <= e < cap c;
  b_rh : forall e, In e (s_holders s) -> 0 <= e < cap c;
  b_rb : forall e, bpc_of s e <> BIdle -> 0 <= e < cap c;
  b_ndb : NoDup (keys (s_bthr s))
}.

Lemma sinvB_init c : sinvB c (sinit c).
Proof.
  split; unfold gpc_of, bpc_of, slot_of, sinit; cbn [s_gthr s_bthr s_slots s_holders fget In keys map].
  - intros x x' e. rewrite !slot_init. destruct ((0 <=? x) && (x <? _)); destruct ((0 <=? x') && (x' <? _)); cbn [sev slot0]; congruence.
  - intros x e. rewrite slot_init. destruct ((0 <=? x) && (x <? _)); cbn [sev transit slot0]; [tauto|discriminate].
  - constructor.
  - tauto.
  - intros x e. rewrite slot_init. destruct ((0 <=? x) && (x <? _)) eqn:E; cbn [sev slot0]; [|discriminate]. intros H; inversion H; subst. lia.
  - tauto.
  - congruence.
  - constructor.
Qed.

Lemma sinvB_step c s l s' : sinvA s -> sinvB c s -> sstep c s l = Some s' -> sinvB c s'.
Proof.
  intros HA HB H.
  destruct l; unfold sstep in H; step_split H; inversion H; subst; clear H; bnorm; subst; try exact HB.
  all: pose proof HB as [Hu1 Hu2 Hnd Hhid Hrs Hrh Hrb Hndb].
  all: split; intros; sst_unfold; sst_get; eqb_cases; cbn [f1 f2 sev transit In] in *;
       try solve [ eauto | discriminate | congruence | apply NoDup_fset; assumption | intuition congruence ].
  all: try match goal with H : Some _ = Some _ |- _ => inversion H; subst; clear H end.
  all: try match goal with H : In ?e (rem1 ?e _) |- _ => exfalso; exact (NoDup_rem1_notin _ _ Hnd H) end.
  all: repeat match goal with H : In _ (rem1 _ _) |- _ => apply In_rem1 in H end.
  all: repeat match goal with
       | H : sev (fget slot0 ?x _) = Some ?e |- _ =>
           lazymatch goal with
           | _ : transit (fget BIdle e _) = false |- _ => fail
           | _ => let F1 := fresh "Fni" in let F2 := fresh "Ftr" in destruct (Hu2 x e H) as [F1 F2]; pose proof (Hrs x e H)
           end
       | H : In ?e (s_holders _) |- _ =>
           lazymatch goal with
           | _ : fget BIdle e _ = BIdle |- _ => fail
           | _ => pose proof (Hhid e H); pose proof (Hrh e H)
           end
       end.
  all: try solve [ repeat split;
                   try match goal with |- ~ In _ _ => intros Hin; try (apply In_rem1 in Hin); try (pose proof (Hhid _ Hin)) end;
                   try match goal with Hb : fget BIdle ?e ?bt = _ |- _ => let Hb' := fresh in pose proof Hb as Hb'; rewrite Hb' in * end;
                   cbn [transit] in *;
                   solve [ assumption | congruence | discriminate | tauto | lia | apply NoDup_rem1; assumption
                         | constructor; assumption | apply Hrb; congruence | eauto ] ].
  - split; [intros [->|Hin]; [exact (n (Hu1 x x0 e H Heqo))|exact (Fni Hin)]|exact Ftr].
  - destruct H as [<-|Hin]; [|exact (Hhid e Hin)].
    destruct (fget BIdle z (s_bthr s)) as [|y|y|y] eqn:Eb; [reflexivity|cbn in Ftr; discriminate|cbn in Ftr; discriminate|].
    exfalso. destruct (a_put s HA z y Eb) as (_ & _ & Hs). pose proof (Hu1 y x0 z Hs Heqo) as ->.
    apply (a_gb s HA x0 g z); unfold gpc_of, bpc_of; [rewrite Heqg0|rewrite Eb]; cbn; apply Z.eqb_refl.
  - destruct H as [<-|Hin]; [exact H0|exact (Hrh e Hin)].
Qed.
