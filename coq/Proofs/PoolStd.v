(* The standard event pool (eventPool of pipeline/event.go): invariants of [sstep]. *)
From Verif Require Import Base.Sx Model.Pool Proofs.Pool.
From Coq Require Import Lia ZifyBool Bool List ZArith.
Import ListNotations.
Local Open Scope Z_scope.

Lemma srun_invariant (c : pcfg) (P : sst -> Prop) :
  (forall s l s', P s -> sstep c s l = Some s' -> P s') ->
  forall ls s s', P s -> srun c s ls = Some s' -> P s'.
Proof.
  intros Hstep ls. induction ls as [|l r IH]; intros s s' Hs Hr; cbn [srun] in Hr.
  - inversion Hr; subst; exact Hs.
  - destruct (sstep c s l) as [s1|] eqn:E; [|discriminate]. eapply IH; [eapply Hstep; eauto|exact Hr].
Qed.

Lemma srun_app c ls1 ls2 s s1 s2 :
  srun c s ls1 = Some s1 -> srun c s1 ls2 = Some s2 -> srun c s (ls1 ++ ls2) = Some s2.
Proof.
  revert s. induction ls1 as [|l r IH]; intros s H1 H2; cbn [srun app] in *.
  - inversion H1; subst. exact H2.
  - destruct (sstep c s l); [|discriminate]. exact (IH _ H1 H2).
Qed.

(* who is in the middle of an operation on slot x *)
Definition own_g (x : Z) (p : gpc) : bool := match p with GTook x' | GTaken x' => x =? x' | _ => false end.
Definition own_b (x : Z) (p : bpc) : bool := match p with BWon y | BPut y => x =? y | _ => false end.

Lemma gwake_idle : gwake GIdle = GIdle. Proof. reflexivity. Qed.
Lemma gwake_took p x : gwake p = GTook x -> p = GTook x. Proof. destruct p; cbn; congruence. Qed.
Lemma gwake_taken p x : gwake p = GTaken x -> p = GTaken x. Proof. destruct p; cbn; congruence. Qed.
Lemma own_g_gwake x p : own_g x (gwake p) = own_g x p. Proof. destruct p; reflexivity. Qed.

(* normal form of states after a step: everything in terms of fget/fset on the old state's components *)
Ltac sst_unfold :=
  unfold gpc_of, bpc_of, slot_of, sset_g, sset_b, sset_slot, sset_lock, sset_waiters, sset_inuse, sset_holders,
         sset_tick, sset_pend, sbcast, sbroadcast in *;
  cbn [s_slots s_getc s_backc s_inuse s_waiters s_lock s_gthr s_bthr s_holders s_pdec s_pbc s_tick supd] in *.

Ltac sst_get :=
  repeat (rewrite fget_fset in * || rewrite (fget_fmapv GIdle gwake) in * by reflexivity).

Ltac eqb_cases :=
  repeat match goal with
  | |- context [?a =? ?b] => destruct (Z.eqb_spec a b); subst
  | H : context [?a =? ?b] |- _ => destruct (Z.eqb_spec a b); subst
  end.

(* ---- group A: the two-flag protocol of a slot --------------------------------------------------- *)
Record sinvA (s : sst) : Prop := {
  a_took  : forall g x, gpc_of s g = GTook x -> f1 (slot_of s x) = false /\ f2 (slot_of s x) = true /\ sev (slot_of s x) <> None;
  a_taken : forall g x, gpc_of s g = GTaken x -> f1 (slot_of s x) = false /\ f2 (slot_of s x) = true /\ sev (slot_of s x) = None;
  a_won   : forall e y, bpc_of s e = BWon y -> f1 (slot_of s y) = false /\ f2 (slot_of s y) = true /\ sev (slot_of s y) = None;
  a_put   : forall e y, bpc_of s e = BPut y -> f1 (slot_of s y) = false /\ f2 (slot_of s y) = true /\ sev (slot_of s y) = Some e;
  a_ug    : forall x g g', own_g x (gpc_of s g) = true -> own_g x (gpc_of s g') = true -> g = g';
  a_ub    : forall x e e', own_b x (bpc_of s e) = true -> own_b x (bpc_of s e') = true -> e = e';
  a_gb    : forall x g e, own_g x (gpc_of s g) = true -> own_b x (bpc_of s e) = true -> False;
  a_f1    : forall x, f1 (slot_of s x) = true -> f2 (slot_of s x) = true /\ sev (slot_of s x) <> None;
  a_f2    : forall x, f2 (slot_of s x) = false -> sev (slot_of s x) = None
}.

Lemma slot_init n x :
  fget slot0 x (init_slots n) = if (0 <=? x) && (x <? Z.of_nat n) then {| f1 := true; f2 := true; sev := Some x |} else slot0.
Proof.
  induction n as [|k IH]; cbn [init_slots fget].
  - replace ((0 <=? x) && (x <? Z.of_nat 0)) with false by lia. reflexivity.
  - destruct (Z.eqb_spec x (Z.of_nat k)) as [->|Hne].
    + replace ((0 <=? Z.of_nat k) && (Z.of_nat k <? Z.of_nat (S k))) with true by lia. reflexivity.
    + rewrite IH. destruct ((0 <=? x) && (x <? Z.of_nat k)) eqn:E1, ((0 <=? x) && (x <? Z.of_nat (S k))) eqn:E2; try reflexivity; lia.
Qed.

Lemma sinvA_init c : sinvA (sinit c).
Proof.
  split; unfold gpc_of, bpc_of, slot_of, sinit; cbn [s_gthr s_bthr s_slots fget own_g own_b]; try discriminate.
  - intros x. rewrite slot_init. destruct ((0 <=? x) && (x <? _)); cbn; [split; [reflexivity|discriminate]|discriminate].
  - intros x. rewrite slot_init. destruct ((0 <=? x) && (x <? _)); cbn; [discriminate|reflexivity].
Qed.

(* the invariant only concerns (slots, getter pcs, backer pcs) *)
Section GroupA.
  Variables (s : sst).
  Hypothesis HA : sinvA s.

  Let sl := s_slots s. Let gt := s_gthr s. Let bt := s_bthr s.

  Lemma no_owner_g_f1 x : f1 (slot_of s x) = true -> forall g, own_g x (gpc_of s g) = false.
  Proof.
    intros Hf g. destruct (gpc_of s g) eqn:E; cbn [own_g]; try reflexivity; eqb_cases; try reflexivity.
    - destruct (a_took s HA g _ E) as (H1 & _). congruence.
    - destruct (a_taken s HA g _ E) as (H1 & _). congruence.
  Qed.
  Lemma no_owner_b_f1 x : f1 (slot_of s x) = true -> forall e, own_b x (bpc_of s e) = false.
  Proof.
    intros Hf e. destruct (bpc_of s e) eqn:E; cbn [own_b]; try reflexivity; eqb_cases; try reflexivity.
    - destruct (a_won s HA e _ E) as (H1 & _). congruence.
    - destruct (a_put s HA e _ E) as (H1 & _). congruence.
  Qed.
  Lemma no_owner_g_f2 x : f2 (slot_of s x) = false -> forall g, own_g x (gpc_of s g) = false.
  Proof.
    intros Hf g. destruct (gpc_of s g) eqn:E; cbn [own_g]; try reflexivity; eqb_cases; try reflexivity.
    - destruct (a_took s HA g _ E) as (_ & H1 & _). congruence.
    - destruct (a_taken s HA g _ E) as (_ & H1 & _). congruence.
  Qed.
  Lemma no_owner_b_f2 x : f2 (slot_of s x) = false -> forall e, own_b x (bpc_of s e) = false.
  Proof.
    intros Hf e. destruct (bpc_of s e) eqn:E; cbn [own_b]; try reflexivity; eqb_cases; try reflexivity.
    - destruct (a_won s HA e _ E) as (_ & H1 & _). congruence.
    - destruct (a_put s HA e _ E) as (_ & H1 & _). congruence.
  Qed.
  Lemma sole_owner_g x g : own_g x (gpc_of s g) = true ->
    (forall g', g' <> g -> own_g x (gpc_of s g') = false) /\ (forall e, own_b x (bpc_of s e) = false).
  Proof.
    intros Ho. split.
    - intros g' Hne. destruct (own_g x (gpc_of s g')) eqn:E; [|reflexivity]. exfalso. apply Hne. exact (a_ug s HA x g' g E Ho).
    - intros e. destruct (own_b x (bpc_of s e)) eqn:E; [|reflexivity]. exfalso. exact (a_gb s HA x g e Ho E).
  Qed.
  Lemma sole_owner_b x e : own_b x (bpc_of s e) = true ->
    (forall e', e' <> e -> own_b x (bpc_of s e') = false) /\ (forall g, own_g x (gpc_of s g) = false).
  Proof.
    intros Ho. split.
    - intros e' Hne. destruct (own_b x (bpc_of s e')) eqn:E; [|reflexivity]. exfalso. apply Hne. exact (a_ub s HA x e' e E Ho).
    - intros g. destruct (own_g x (gpc_of s g)) eqn:E; [|reflexivity]. exfalso. exact (a_gb s HA x g e E Ho).
  Qed.
End GroupA.

(* use "nobody (else) owns slot x" facts against a hypothesis that says somebody does *)
Ltac kill_owner :=
  match goal with
  | Hno : forall g, own_g ?x (fget GIdle g ?gt) = false, Hp : fget GIdle ?g' ?gt = ?p |- _ =>
      let F := fresh in pose proof (Hno g') as F; rewrite Hp in F; cbn [own_g] in F; rewrite ?Z.eqb_refl in F; discriminate F
  | Hno : forall g, g <> ?g0 -> own_g ?x (fget GIdle g ?gt) = false, Hp : fget GIdle ?g' ?gt = ?p, Hne : ?g' <> ?g0 |- _ =>
      let F := fresh in pose proof (Hno g' Hne) as F; rewrite Hp in F; cbn [own_g] in F; rewrite ?Z.eqb_refl in F; discriminate F
  | Hno : forall e, own_b ?x (fget BIdle e ?bt) = false, Hp : fget BIdle ?e' ?bt = ?p |- _ =>
      let F := fresh in pose proof (Hno e') as F; rewrite Hp in F; cbn [own_b] in F; rewrite ?Z.eqb_refl in F; discriminate F
  | Hno : forall e, e <> ?e0 -> own_b ?x (fget BIdle e ?bt) = false, Hp : fget BIdle ?e' ?bt = ?p, Hne : ?e' <> ?e0 |- _ =>
      let F := fresh in pose proof (Hno e' Hne) as F; rewrite Hp in F; cbn [own_b] in F; rewrite ?Z.eqb_refl in F; discriminate F
  end.


Lemma sinvA_step c s l s' : sinvA s -> sstep c s l = Some s' -> sinvA s'.
Proof.
  intros HA H.
  destruct l; unfold sstep in H; step_split H; inversion H; subst; clear H; bnorm; subst; try exact HA.
  all: pose proof HA as [Htook Htaken Hwon Hput Hug Hub Hgb Hf1 Hf2].
  all: match goal with
       | E : gpc_of ?s ?g = GSpin ?x, F : true = f1 (slot_of ?s ?x) |- _ =>
           symmetry in F; pose proof (no_owner_g_f1 s HA x F) as Hnog; pose proof (no_owner_b_f1 s HA x F) as Hnob;
           destruct (Hf1 x F) as [Hxf2 Hxsev]
       | E : gpc_of ?s ?g = GTook ?x |- _ =>
           let Ho := fresh in assert (Ho : own_g x (gpc_of s g) = true) by (rewrite E; cbn [own_g]; apply Z.eqb_refl);
           destruct (sole_owner_g s HA x g Ho) as [Hnog Hnob]; destruct (Htook g x E) as (Hxf1 & Hxf2 & Hxsev)
       | E : gpc_of ?s ?g = GTaken ?x |- _ =>
           let Ho := fresh in assert (Ho : own_g x (gpc_of s g) = true) by (rewrite E; cbn [own_g]; apply Z.eqb_refl);
           destruct (sole_owner_g s HA x g Ho) as [Hnog Hnob]; destruct (Htaken g x E) as (Hxf1 & Hxf2 & Hxsev)
       | E : bpc_of ?s ?e = BSpin ?y, F : true = negb (f2 (slot_of ?s ?y)) |- _ =>
           symmetry in F; apply negb_true_iff in F;
           pose proof (no_owner_g_f2 s HA y F) as Hnog; pose proof (no_owner_b_f2 s HA y F) as Hnob; pose proof (Hf2 y F) as Hxsev;
           assert (Hxf1 : f1 (slot_of s y) = false) by (destruct (f1 (slot_of s y)) eqn:Ef; [destruct (Hf1 y Ef); congruence|reflexivity])
       | E : bpc_of ?s ?e = BWon ?y |- _ =>
           let Ho := fresh in assert (Ho : own_b y (bpc_of s e) = true) by (rewrite E; cbn [own_b]; apply Z.eqb_refl);
           destruct (sole_owner_b s HA y e Ho) as [Hnob Hnog]; destruct (Hwon e y E) as (Hxf1 & Hxf2 & Hxsev)
       | E : bpc_of ?s ?e = BPut ?y |- _ =>
           let Ho := fresh in assert (Ho : own_b y (bpc_of s e) = true) by (rewrite E; cbn [own_b]; apply Z.eqb_refl);
           destruct (sole_owner_b s HA y e Ho) as [Hnob Hnog]; destruct (Hput e y E) as (Hxf1 & Hxf2 & Hxsev)
       | _ => idtac
       end.
  all: clear HA; sst_unfold.
  all: split; intros; sst_unfold; sst_get; eqb_cases; cbn [f1 f2 sev own_g own_b] in *;
       rewrite ?own_g_gwake in *;
       try match goal with H : gwake _ = GTook _ |- _ => apply gwake_took in H end;
       try match goal with H : gwake _ = GTaken _ |- _ => apply gwake_taken in H end;
       try solve [ eauto | discriminate | congruence | kill_owner | intuition congruence ].
  all: try solve [ match goal with H : ?p = _ |- _ => inversion H; subst end; cbn [f1 f2 sev] in *; intuition congruence ].
  all: bnorm; subst; exfalso;
       try match goal with
       | Hno : forall g, own_g ?x (fget GIdle g ?gt) = false, H : own_g ?x (fget GIdle ?g0 ?gt) = true |- _ =>
           rewrite (Hno g0) in H; discriminate H
       | Hno : forall g, g <> ?g1 -> own_g ?x (fget GIdle g ?gt) = false, H : own_g ?x (fget GIdle ?g0 ?gt) = true, n : ?g0 <> ?g1 |- _ =>
           rewrite (Hno g0 n) in H; discriminate H
       | Hno : forall e, own_b ?x (fget BIdle e ?bt) = false, H : own_b ?x (fget BIdle ?e0 ?bt) = true |- _ =>
           rewrite (Hno e0) in H; discriminate H
       | Hno : forall e, e <> ?e1 -> own_b ?x (fget BIdle e ?bt) = false, H : own_b ?x (fget BIdle ?e0 ?bt) = true, n : ?e0 <> ?e1 |- _ =>
           rewrite (Hno e0 n) in H; discriminate H
       end.
  Unshelve. all: exact 0.
Qed.

(* ---- group B: where the event objects are ------------------------------------------------------- *)
Definition transit (p : bpc) : bool := match p with BSpin _ | BWon _ => true | _ => false end.

Record sinvB (c : pcfg) (s : sst) : Prop := {
  b_u1 : forall x x' e, sev (slot_of s x) = Some e -> sev (slot_of s x') = Some e -> x = x';
  b_u2 : forall x e, sev (slot_of s x) = Some e -> ~ In e (s_holders s) /\ transit (bpc_of s e) = false;
  b_nd : NoDup (s_holders s);
  b_hidle : forall e, In e (s_holders s) -> bpc_of s e = BIdle;
  b_rs : forall x e, sev (slot_of s x) = Some e -> 0 <= e < cap c;
  b_rh : forall e, In e (s_holders s) -> 0 <= e < cap c;
  b_rb : forall e, bpc_of s e <> BIdle -> 0 <= e < cap c;
  b_ndb : NoDup (keys (s_bthr s))
}.

Lemma sinvB_init c : sinvB c (sinit c).
Proof.
  split; unfold gpc_of, bpc_of, slot_of, sinit; cbn [s_gthr s_bthr s_slots s_holders fget In keys map].
  - intros x x' e. rewrite !slot_init. destruct ((0 <=? x) && (x <? _)); destruct ((0 <=? x') && (x' <? _)); cbn [sev slot0]; congruence.
  - intros x e. rewrite slot_init. destruct ((0 <=? x) && (x <? _)); cbn [sev transit slot0]; [tauto|discriminate].
  - constructor.
  - tauto.
  - intros x e. rewrite slot_init. destruct ((0 <=? x) && (x <? _)) eqn:E; cbn [sev slot0]; [|discriminate]. intros H; inversion H; subst. lia.
  - tauto.
  - congruence.
  - constructor.
Qed.

Lemma sinvB_step c s l s' : sinvA s -> sinvB c s -> sstep c s l = Some s' -> sinvB c s'.
Proof.
  intros HA HB H.
  destruct l; unfold sstep in H; step_split H; inversion H; subst; clear H; bnorm; subst; try exact HB.
  all: pose proof HB as [Hu1 Hu2 Hnd Hhid Hrs Hrh Hrb Hndb].
  all: split; intros; sst_unfold; sst_get; eqb_cases; cbn [f1 f2 sev transit In] in *;
       try solve [ eauto | discriminate | congruence | apply NoDup_fset; assumption | intuition congruence ].
  all: try match goal with H : Some _ = Some _ |- _ => inversion H; subst; clear H end.
  all: try match goal with H : In ?e (rem1 ?e _) |- _ => exfalso; exact (NoDup_rem1_notin _ _ Hnd H) end.
  all: repeat match goal with H : In _ (rem1 _ _) |- _ => apply In_rem1 in H end.
  all: repeat match goal with
       | H : sev (fget slot0 ?x _) = Some ?e |- _ =>
           lazymatch goal with
           | _ : transit (fget BIdle e _) = false |- _ => fail
           | _ => let F1 := fresh "Fni" in let F2 := fresh "Ftr" in destruct (Hu2 x e H) as [F1 F2]; pose proof (Hrs x e H)
           end
       | H : In ?e (s_holders _) |- _ =>
           lazymatch goal with
           | _ : fget BIdle e _ = BIdle |- _ => fail
           | _ => pose proof (Hhid e H); pose proof (Hrh e H)
           end
       end.
  all: try solve [ repeat split;
                   try match goal with |- ~ In _ _ => intros Hin; try (apply In_rem1 in Hin); try (pose proof (Hhid _ Hin)) end;
                   try match goal with Hb : fget BIdle ?e ?bt = _ |- _ => let Hb' := fresh in pose proof Hb as Hb'; rewrite Hb' in * end;
                   cbn [transit] in *;
                   solve [ assumption | congruence | discriminate | tauto | lia | apply NoDup_rem1; assumption
                         | constructor; assumption | apply Hrb; congruence | eauto ] ].
  - split; [intros [->|Hin]; [exact (n (Hu1 x x0 e H Heqo))|exact (Fni Hin)]|exact Ftr].
  - destruct H as [<-|Hin]; [|exact (Hhid e Hin)].
    destruct (fget BIdle z (s_bthr s)) as [|y|y|y] eqn:Eb; [reflexivity|cbn in Ftr; discriminate|cbn in Ftr; discriminate|].
    exfalso. destruct (a_put s HA z y Eb) as (_ & _ & Hs). pose proof (Hu1 y x0 z Hs Heqo) as ->.
    apply (a_gb s HA x0 g z); unfold gpc_of, bpc_of; [rewrite Heqg0|rewrite Eb]; cbn; apply Z.eqb_refl.
  - destruct H as [<-|Hin]; [exact H0|exact (Hrh e Hin)].
Qed.

(* ---- group C: the counters ------------------------------------------------------------------------ *)
Definition gwaiting (p : gpc) : bool :=
  match p with GWaiting _ | GLocked _ | GSleep _ | GWoken _ | GReady _ | GUnlocked _ => true | _ => false end.
Definition gmid (p : gpc) : bool := match p with GTaken _ | GF2 => true | _ => false end.
Definition bmid (p : bpc) : bool := match p with BSpin _ | BWon _ | BPut _ => true | _ => false end.
Lemma gwaiting_gwake p : gwaiting (gwake p) = gwaiting p. Proof. destruct p; reflexivity. Qed.
Lemma gmid_gwake p : gmid (gwake p) = gmid p. Proof. destruct p; reflexivity. Qed.

Record sinvC (s : sst) : Prop := {
  c_ndg : NoDup (keys (s_gthr s));
  c_ndb : NoDup (keys (s_bthr s));
  c_waiters : s_waiters s = fcnt gwaiting (s_gthr s);
  (* inUseEvents = objects out of the pool - getters that have the object but not yet counted it
                   + back() calls that have not yet decremented *)
  c_inuse : s_inuse s = len (s_holders s) - fcnt gmid (s_gthr s) + fcnt bmid (s_bthr s) + s_pdec s;
  c_pd : 0 <= s_pdec s;
  c_pb : 0 <= s_pbc s
}.

Lemma sinvC_init c : sinvC (sinit c).
Proof. split; cbn; try constructor; try reflexivity; lia. Qed.

Lemma sinvC_step c s l s' : sinvC s -> sstep c s l = Some s' -> sinvC s'.
Proof.
  intros [Hg Hb Hw Hin Hpd Hpb] H.
  destruct l; unfold sstep in H; step_split H; inversion H; subst; clear H; bnorm; subst;
    try (split; assumption).
  all: split; sst_unfold; rewrite ?keys_fmapv; try apply NoDup_fset; try assumption; try lia.
  all: rewrite ?(fcnt_fset GIdle gwaiting _ _ _ Hg), ?(fcnt_fset GIdle gmid _ _ _ Hg), ?(fcnt_fset BIdle bmid _ _ _ Hb) by reflexivity;
       rewrite ?fcnt_fmapv, ?(fcnt_ext _ _ _ gwaiting_gwake), ?(fcnt_ext _ _ _ gmid_gwake);
       repeat match goal with E : fget _ _ _ = _ |- _ => rewrite E end;
       cbn [gwaiting gmid bmid b2z]; rewrite ?len_cons; try (rewrite len_rem1 by assumption); try lia.
Qed.

(* ---- all invariants together ---------------------------------------------------------------------- *)
Definition sinv (c : pcfg) (s : sst) : Prop := sinvA s /\ sinvB c s /\ sinvC s.

Lemma sinv_init c : sinv c (sinit c).
Proof. split; [apply sinvA_init|split; [apply sinvB_init|apply sinvC_init]]. Qed.

Lemma sinv_step c s l s' : sinv c s -> sstep c s l = Some s' -> sinv c s'.
Proof.
  intros (HA & HB & HC) H. split; [exact (sinvA_step c s l s' HA H)|split; [exact (sinvB_step c s l s' HA HB H)|exact (sinvC_step c s l s' HC H)]].
Qed.

Lemma sinv_run c ls s s' : sinv c s -> srun c s ls = Some s' -> sinv c s'.
Proof. apply srun_invariant. intros; eapply sinv_step; eauto. Qed.

Lemma sinv_reach c ls s : srun c (sinit c) ls = Some s -> sinv c s.
Proof. apply sinv_run. apply sinv_init. Qed.

(* C05: holders + events inside back() that are not yet in a slot never exceed the capacity *)
Lemma transit_keys_In (m : list (Z * bpc)) e :
  In e (keys (filter (fun kv => transit (snd kv)) m)) -> exists p, In (e, p) m /\ transit p = true.
Proof.
  induction m as [|[k v] r IH]; cbn [filter keys map snd]; [cbn; tauto|].
  destruct (transit v) eqn:E; cbn [keys map fst In].
  - intros [<-|H]; [exists v; split; [left; reflexivity|exact E]|]. destruct (IH H) as [p [Hp Ht]]. exists p. split; [right; exact Hp|exact Ht].
  - intros H. destruct (IH H) as [p [Hp Ht]]. exists p. split; [right; exact Hp|exact Ht].
Qed.

Lemma NoDup_keys_filter {V} (P : Z * V -> bool) (m : list (Z * V)) : NoDup (keys m) -> NoDup (keys (filter P m)).
Proof.
  induction m as [|[k v] r IH]; cbn [filter keys map fst]; [trivial|]. intros H. inversion H as [|a b Hni Hr]; subst.
  destruct (P (k, v)); [|exact (IH Hr)]. cbn [keys map fst]. constructor; [|exact (IH Hr)].
  intros Hin. apply Hni. clear - Hin. induction r as [|[k' v'] r IH]; cbn [filter keys map fst In] in *; [tauto|].
  destruct (P (k', v')); cbn [keys map fst In] in *; [destruct Hin as [H|H]; [left; exact H|right; exact (IH H)]|right; exact (IH Hin)].
Qed.

Lemma fcnt_keys_filter {V} (P : V -> bool) (m : list (Z * V)) :
  fcnt P m = len (keys (filter (fun kv => P (snd kv)) m)).
Proof. unfold fcnt, len, keys. rewrite map_length. reflexivity. Qed.

Lemma NoDup_app_intro (l l' : list Z) : NoDup l -> NoDup l' -> (forall x, In x l -> ~ In x l') -> NoDup (l ++ l').
Proof.
  induction l as [|a r IH]; cbn [app]; [auto|]. intros H H' Hd. inversion H as [|a0 b Hni Hr]; subst. constructor.
  - rewrite in_app_iff. intros [Hin|Hin]; [exact (Hni Hin)|exact (Hd a (or_introl eq_refl) Hin)].
  - apply IH; [exact Hr|exact H'|]. intros x Hx. apply Hd. right. exact Hx.
Qed.

Lemma std_held_le_capacity c s : 0 <= cap c -> sinv c s -> len (s_holders s) + fcnt transit (s_bthr s) <= cap c.
Proof.
  intros Hc (HA & HB & HC). rewrite fcnt_keys_filter.
  set (tr := keys (filter (fun kv => transit (snd kv)) (s_bthr s))).
  assert (Hlen : len (s_holders s ++ tr) = len (s_holders s) + len tr) by (unfold len; rewrite app_length; lia).
  rewrite <- Hlen.
  assert (Htr : forall e, In e tr -> transit (bpc_of s e) = true).
  { intros e He. destruct (transit_keys_In _ _ He) as [p [Hp Ht]]. unfold bpc_of. rewrite (fget_In BIdle e p _ (c_ndb s HC) Hp). exact Ht. }
  apply NoDup_range_len; [exact Hc| |].
  - apply NoDup_app_intro; [exact (b_nd c s HB)|apply NoDup_keys_filter; exact (c_ndb s HC)|].
    intros e Hh Ht. specialize (Htr e Ht). rewrite (b_hidle c s HB e Hh) in Htr. discriminate.
  - intros e He. apply in_app_iff in He. destruct He as [He|He]; [exact (b_rh c s HB e He)|].
    apply (b_rb c s HB). specialize (Htr e He). intros E. rewrite E in Htr. discriminate.
Qed.

(* C05: quiescence => counters are zero *)
Definition squiescent (s : sst) : Prop :=
  (forall g, gpc_of s g = GIdle) /\ (forall e, bpc_of s e = BIdle) /\ s_holders s = [] /\ s_pdec s = 0.

Lemma std_quiescent_zero c s : sinv c s -> squiescent s -> s_inuse s = 0 /\ s_waiters s = 0.
Proof.
  intros (_ & _ & HC) (Hg & Hb & Hh & Hp). destruct HC as [Hng Hnb Hw Hin _ _].
  rewrite Hin, Hw, Hh, Hp.
  rewrite (fcnt_zero GIdle gwaiting _ Hng eq_refl), (fcnt_zero GIdle gmid _ Hng eq_refl), (fcnt_zero BIdle bmid _ Hnb eq_refl).
  - split; reflexivity.
  - intros k. unfold bpc_of in Hb. rewrite Hb. reflexivity.
  - intros k. unfold gpc_of in Hg. rewrite Hg. reflexivity.
  - intros k. unfold gpc_of in Hg. rewrite Hg. reflexivity.
Qed.

Lemma std_sleeper_counted c s g x : sinv c s -> gpc_of s g = GSleep x -> 1 <= s_waiters s.
Proof.
  intros (_ & _ & HC) Hg. rewrite (c_waiters s HC). apply (fcnt_pos GIdle gwaiting g); [reflexivity|].
  unfold gpc_of in Hg. rewrite Hg. reflexivity.
Qed.

(* ---- C05: no event object is handed out twice / returned twice ------------------------------------ *)
(* per object e: "taken out of a slot" and "back() begun" alternate; [out] = e is currently held *)
Fixpoint alt (e : Z) (out : bool) (ls : list slabel) : bool :=
  match ls with
  | [] => true
  | STake _ _ e' :: r => if e' =? e then negb out && alt e true r else alt e out r
  | SBClaim e' _ :: r => if e' =? e then out && alt e false r else alt e out r
  | _ :: r => alt e out r
  end.

Lemma step_holders c s l s1 :
  sinv c s -> sstep c s l = Some s1 ->
  match l with
  | STake _ _ e' => ~ In e' (s_holders s) /\ s_holders s1 = e' :: s_holders s
  | SBClaim e' _ => In e' (s_holders s) /\ s_holders s1 = rem1 e' (s_holders s)
  | _ => s_holders s1 = s_holders s
  end.
Proof.
  intros (HA & HB & HC) H.
  destruct l; unfold sstep in H; step_split H; inversion H; subst; clear H; bnorm; subst; sst_unfold; try reflexivity.
  - split; [|reflexivity]. exact (proj1 (b_u2 c s HB _ _ Heqo)).
  - split; [assumption|reflexivity].
Qed.

Lemma mem_z_rem1_other e e' l : e <> e' -> mem_z e (rem1 e' l) = mem_z e l.
Proof.
  intros Hne. induction l as [|y r IH]; cbn [rem1 mem_z]; [reflexivity|].
  destruct (e' =? y) eqn:E.
  - apply Z.eqb_eq in E; subst. replace (e =? y) with false by lia. reflexivity.
  - cbn [mem_z]. rewrite IH. reflexivity.
Qed.

Lemma std_alternation c e ls : forall s s', sinv c s -> srun c s ls = Some s' -> alt e (mem_z e (s_holders s)) ls = true.
Proof.
  induction ls as [|l r IH]; intros s s' Hs Hr; cbn [srun] in Hr; [reflexivity|].
  destruct (sstep c s l) as [s1|] eqn:E; [|discriminate].
  pose proof (sinv_step c s l s1 Hs E) as Hs1. specialize (IH s1 s' Hs1 Hr).
  pose proof (step_holders c s l s1 Hs E) as Hh.
  destruct l; cbn [alt]; try (rewrite <- Hh; exact IH).
  - (* STake *) destruct Hh as [Hni Heq]. rewrite Heq in IH. cbn [mem_z] in IH. destruct (Z.eqb_spec e0 e) as [->|Hne].
    + rewrite Z.eqb_refl in IH. cbn [orb] in IH. rewrite IH.
      destruct (mem_z e (s_holders s)) eqn:Em; [apply mem_z_In in Em; contradiction|reflexivity].
    + replace (e =? e0) with false in IH by lia. exact IH.
  - (* SBClaim *) destruct Hh as [Hin Heq]. rewrite Heq in IH. destruct (Z.eqb_spec e0 e) as [->|Hne].
    + destruct Hs as (_ & HB & _).
      replace (mem_z e (rem1 e (s_holders s))) with false in IH.
      * rewrite IH. apply mem_z_In in Hin. rewrite Hin. reflexivity.
      * symmetry. destruct (mem_z e (rem1 e (s_holders s))) eqn:Em; [|reflexivity].
        apply mem_z_In in Em. exfalso. exact (NoDup_rem1_notin _ _ (b_nd c s HB) Em).
    + rewrite mem_z_rem1_other in IH by congruence. exact IH.
Qed.

(* ---- C04 (pool clause): a sleeping getter of the standard pool is woken within one heartbeat -------- *)
Definition s_nonenv (ls : list slabel) : Prop := forallb (fun l => negb (s_env l)) ls = true.
Definition s_ticks (ls : list slabel) : nat := length (filter s_is_tickw ls).

Section StdLive.
  Variable c : pcfg.
  Hypothesis Htick : tickc c true true = true.

  Lemma gpc_sset_tick s t g : gpc_of (sset_tick s t) g = gpc_of s g. Proof. reflexivity. Qed.
  Lemma gpc_sbcast s g : gpc_of (sbcast s) g = gwake (gpc_of s g).
  Proof. unfold gpc_of, sbcast, sbroadcast. cbn [s_gthr supd]. apply fget_fmapv. reflexivity. Qed.

  Lemma std_tick_from_idle s g x :
    s_tick s = TIdle -> gpc_of s g = GSleep x -> 1 <= s_waiters s -> avail c (s_inuse s) (cap c) = true ->
    exists s', srun c s [STickW (s_waiters s); STickA true; STickFire] = Some s' /\ gpc_of s' g = GWoken x.
  Proof.
    intros Ht Hg Hw Ha. eexists. split.
    - cbn [srun sstep]. rewrite Ht, Z.eqb_refl. cbn [sset_tick supd s_tick s_inuse]. rewrite Ha. cbn [Bool.eqb].
      cbn [sset_tick supd s_tick s_inuse]. replace (0 <? s_waiters s) with true by lia. rewrite Htick. reflexivity.
    - rewrite gpc_sset_tick, gpc_sbcast. unfold gpc_of in *. cbn [s_gthr supd sset_tick]. rewrite Hg. reflexivity.
  Qed.

  Lemma std_no_stuck_waiter s g x :
    gpc_of s g = GSleep x -> 1 <= s_waiters s -> avail c (s_inuse s) (cap c) = true ->
    exists ls s', s_nonenv ls /\ (s_ticks ls <= 1)%nat /\ srun c s ls = Some s' /\ gpc_of s' g = GWoken x.
  Proof.
    intros Hg Hw Ha.
    assert (Hfull : forall s0, s_tick s0 = TIdle -> s_gthr s0 = s_gthr s -> s_inuse s0 = s_inuse s -> s_waiters s0 = s_waiters s ->
              exists s', srun c s0 [STickW (s_waiters s0); STickA true; STickFire] = Some s' /\ gpc_of s' g = GWoken x).
    { intros s0 Ht0 Hthr Hin0 Hw0. apply (std_tick_from_idle s0 g x Ht0).
      - unfold gpc_of in *. rewrite Hthr. exact Hg.
      - lia.
      - rewrite Hin0. exact Ha. }
    assert (Hw' : gpc_of (sset_tick (sbcast s) TFired) g = GWoken x).
    { rewrite gpc_sset_tick, gpc_sbcast, Hg. reflexivity. }
    destruct (s_tick s) as [|w|w a|] eqn:Ht.
    - destruct (Hfull s Ht eq_refl eq_refl eq_refl) as [s' [Hr Hp]].
      exists [STickW (s_waiters s); STickA true; STickFire], s'. repeat split; [cbn; lia|exact Hr|exact Hp].
    - destruct (tickc c (0 <? w) true) eqn:Ec.
      + exists [STickA true; STickFire]. eexists. repeat split; [cbn; lia| |exact Hw'].
        cbn [srun sstep]. rewrite Ht, Ha. cbn [Bool.eqb sset_tick supd s_tick]. rewrite Ec. reflexivity.
      + destruct (Hfull (sset_tick s TIdle) eq_refl eq_refl eq_refl eq_refl) as [s' [Hr Hp]].
        exists ([STickA true; STickEnd] ++ [STickW (s_waiters (sset_tick s TIdle)); STickA true; STickFire]), s'.
        repeat split; [cbn; lia| |exact Hp].
        eapply srun_app; [|exact Hr].
        cbn [srun sstep]. rewrite Ht, Ha. cbn [Bool.eqb sset_tick supd s_tick]. rewrite Ec. reflexivity.
    - destruct (tickc c (0 <? w) a) eqn:Ec.
      + exists [STickFire]. eexists. repeat split; [cbn; lia| |exact Hw'].
        cbn [srun sstep]. rewrite Ht, Ec. reflexivity.
      + destruct (Hfull (sset_tick s TIdle) eq_refl eq_refl eq_refl eq_refl) as [s' [Hr Hp]].
        exists ([STickEnd] ++ [STickW (s_waiters (sset_tick s TIdle)); STickA true; STickFire]), s'.
        repeat split; [cbn; lia| |exact Hp].
        eapply srun_app; [|exact Hr]. cbn [srun sstep]. rewrite Ht, Ec. reflexivity.
    - destruct (Hfull (sset_tick s TIdle) eq_refl eq_refl eq_refl eq_refl) as [s' [Hr Hp]].
      exists ([STickEnd] ++ [STickW (s_waiters (sset_tick s TIdle)); STickA true; STickFire]), s'.
      repeat split; [cbn; lia| |exact Hp].
      eapply srun_app; [|exact Hr]. cbn [srun sstep]. rewrite Ht. reflexivity.
  Qed.
End StdLive.

(* A.4: the getter that owns ticket x can take the slot as soon as free1[x] is set *)
Lemma std_getter_enabled c s g x :
  gpc_of s g = GSpin x -> f1 (slot_of s x) = true -> exists s', sstep c s (SCas g x true) = Some s' /\ gpc_of s' g = GTook x.
Proof.
  intros Hg Hf. unfold sstep. rewrite Hg, Hf, Z.eqb_refl. cbn [andb Bool.eqb]. eexists. split; [reflexivity|].
  unfold gpc_of, sset_g. cbn [s_gthr supd]. rewrite fget_fset, Z.eqb_refl. reflexivity.
Qed.
