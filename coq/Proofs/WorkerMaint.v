(* Proofs about the histories with maintenance of Model/Worker.v (h_pass, h_maint, h_step, h_run).
   The invariant [HInv] ties the job state after ANY history of appends, worker passes, maintenance ticks and
   renames to the ideal byte machine [irun] of Proofs/Worker.v run over the bytes consumed so far; the theorems
   follow from it the way worker_general follows from rounds_sim. *)
From Verif Require Import Base.Sx Base.GoSem Model.Worker Proofs.Worker.
From Coq Require Import Lia ZifyBool.

(* ---------------------------------------------------------------- reads, drop, take *)
(* the pieces a pass reads concatenate to what is behind the read position *)
Definition rd_sound (rd : nat -> bytes -> list bytes) : Prop := forall n b, concat (rd n b) = b.

Lemma chunk_go_concat n : (0 < n)%nat -> forall b k rc, (0 < k)%nat ->
  concat (chunk_go n k rc b) = rev rc ++ b.
Proof.
  intros Hn. induction b as [|x b IH]; intros k rc Hk.
  - cbn [chunk_go]. destruct rc as [|y rc]; [reflexivity|].
    cbn [concat]. rewrite rev_fast_rev. reflexivity.
  - destruct k as [|[|k']]; cbn [chunk_go]; [lia| |].
    + cbn [concat]. rewrite rev_fast_rev, (IH n [] Hn). cbn [rev app]. rewrite <- app_assoc. reflexivity.
    + rewrite IH by lia. cbn [rev]. rewrite <- app_assoc. reflexivity.
Qed.

(* the read shape of an os.File (bufsz-sized pieces + remainder) is one sound way to read *)
Theorem chunks_concat n b : (0 < n)%nat -> concat (chunks n b) = b.
Proof. intros Hn. unfold chunks. rewrite chunk_go_concat by assumption. reflexivity. Qed.

Lemma len_drop k (b : bytes) : 0 <= k <= len b -> len (drop k b) = len b - k.
Proof. intros H. unfold drop, len in *. rewrite skipn_length. lia. Qed.

Lemma drop_app_le k (f a : bytes) : 0 <= k <= len f -> drop k (f ++ a) = drop k f ++ a.
Proof.
  intros H. unfold drop. rewrite skipn_app.
  replace (Z.to_nat k - length f)%nat with 0%nat by (unfold len in *; lia). reflexivity.
Qed.

Lemma skipn_skipn_add {A} y : forall x (l : list A), skipn x (skipn y l) = skipn (x + y) l.
Proof.
  induction y as [|y IH]; intros x l.
  - rewrite Nat.add_0_r. reflexivity.
  - rewrite Nat.add_succ_r. destruct l as [|a l]; [rewrite !skipn_nil; reflexivity|]. cbn [skipn]. apply IH.
Qed.

Lemma drop_split o (f b rest : bytes) : 0 <= o -> drop o f = b ++ rest -> drop (o + len b) f = rest.
Proof.
  unfold drop. intros Ho H.
  replace (Z.to_nat (o + len b)) with (length b + Z.to_nat o)%nat by (unfold len; lia).
  rewrite <- skipn_skipn_add, H, skipn_app, skipn_all, Nat.sub_diag. reflexivity.
Qed.

Lemma drop_beyond k (b : bytes) : len b <= k -> drop k b = [].
Proof. intros H. unfold drop. apply skipn_all2. unfold len in *. lia. Qed.

Lemma take_app_len (b rest : bytes) : take (len b) (b ++ rest) = b.
Proof.
  unfold take. replace (Z.to_nat (len b)) with (length b) by (unfold len; lia).
  rewrite firstn_app, firstn_all, Nat.sub_diag. cbn [firstn]. apply app_nil_r.
Qed.

Lemma appended_app ops1 ops2 : appended (ops1 ++ ops2) = appended ops1 ++ appended ops2.
Proof.
  induction ops1 as [|op r IH]; [reflexivity|].
  destruct op; cbn [app appended]; rewrite IH; try reflexivity. apply app_assoc.
Qed.

Lemma h_run_app c rd ops1 : forall hs ops2,
  h_run c rd hs (ops1 ++ ops2) =
  let '(e1, h1) := h_run c rd hs ops1 in let '(e2, h2) := h_run c rd h1 ops2 in (e1 ++ e2, h2).
Proof.
  induction ops1 as [|op r IH]; intros hs ops2; cbn [app h_run].
  - destruct (h_run c rd hs ops2). reflexivity.
  - destruct (h_step c rd op hs) as [[x e0] h0]. rewrite IH.
    destruct (h_run c rd h0 r) as [e1 h1]. destruct (h_run c rd h1 ops2) as [e2 h2].
    rewrite app_assoc. reflexivity.
Qed.

(* histories in which the writer never truncates the file *)
Definition no_trunc (ops : list hop) : Prop :=
  Forall (fun op => match op with HTrunc _ => False | _ => True end) ops.

(* ---------------------------------------------------------------- the invariant *)
Section Hist.
Variable c : wcfg.
Variable rd : nat -> bytes -> list bytes.
Hypothesis Hm : 0 <= wmax c.
Hypothesis Hrd : rd_sound rd.
Variable o : Z.            (* the job's start offset *)
Variable sk0 : bool.       (* its initial shouldSkip *)

Definition i0 : ist := {| ipos := o; irp := []; isk := sk0 |}.

(* b = the bytes consumed so far (from offset o), rest = written but not yet read *)
Definition HInv (E : list emit) (hs : hst) : Prop :=
  0 <= o /\ o <= len (h_file hs) /\
  exists b rest E' i,
    drop o (h_file hs) = b ++ rest /\ cur (h_job hs) = o + len b /\
    irun c i0 b = (E', i) /\ Forall2 (emitR c) E E' /\ WRel c (h_job hs) i.

Lemma HInv_ext E hs hs1 : h_job hs1 = h_job hs -> h_file hs1 = h_file hs -> HInv E hs -> HInv E hs1.
Proof. intros Hj Hf H. unfold HInv in *. rewrite Hj, Hf. exact H. Qed.

Lemma HInv_le E hs : HInv E hs -> cur (h_job hs) <= len (h_file hs).
Proof.
  intros (Ho & Hof & b & rest & E' & i & Hd & Hc & _).
  assert (Hlen : len (h_file hs) - o = len b + len rest).
  { rewrite <- (len_drop o (h_file hs)) by lia. rewrite Hd. apply len_app. }
  pose proof (len_nonneg rest). lia.
Qed.

(* without a truncation the position is never behind the end: the truncation check of a write notification is void *)
Lemma h_untrunc_id E hs : HInv E hs -> h_untrunc hs = hs.
Proof.
  intros HI. unfold h_untrunc. pose proof (HInv_le E hs HI) as H.
  replace (cur (h_job hs) >? len (h_file hs)) with false by lia. reflexivity.
Qed.

(* a worker pass reads everything behind the position; the truncation branch is not taken *)
Lemma h_pass_inv E hs n es hs' : HInv E hs -> h_pass c rd n hs = (es, hs') ->
  HInv (E ++ es) hs' /\ h_file hs' = h_file hs /\ cur (h_job hs') = len (h_file hs')
  /\ h_deleted hs' = h_deleted hs /\ h_moved hs' = h_moved hs /\ h_done hs' = true.
Proof.
  intros (Ho & Hof & b & rest & E' & i & Hd & Hc & Hi & HF & W) Hp.
  unfold h_pass in Hp.
  assert (Hav : drop (cur (h_job hs)) (h_file hs) = rest) by (rewrite Hc; apply drop_split; assumption).
  rewrite Hav in Hp.
  destruct (round c (h_job hs) (rd n rest)) as [es1 st1] eqn:Hr.
  destruct (irun c i rest) as [e2 i2] eqn:Hi2.
  pose proof (round_sim c Hm (h_job hs) (rd n rest) i W es1 st1 e2 i2 Hr) as Hs.
  rewrite Hrd in Hs. specialize (Hs Hi2). destruct Hs as [HF2 W2].
  assert (Hlen : len (h_file hs) - o = len b + len rest).
  { rewrite <- (len_drop o (h_file hs)) by lia. rewrite Hd. apply len_app. }
  assert (Hpos : cur st1 = len (h_file hs)).
  { destruct W2 as [_ Wp2 _]. destruct W as [_ Wp _]. rewrite <- Wp2.
    pose proof (irun_pos c rest i) as P. rewrite Hi2 in P. cbn [snd] in P. clear - Hc Wp Wp2 Hlen P. lia. }
  assert (Hg : (cur st1 >? len (h_file hs)) = false) by (clear - Hpos; lia). rewrite Hg in Hp.
  inversion Hp; subst es hs'; clear Hp. cbn [h_job h_file h_deleted h_moved h_done].
  split; [|repeat split; try reflexivity; exact Hpos].
  split; [exact Ho|]. split; [exact Hof|].
  exists (b ++ rest), [], (E' ++ e2), i2. cbn [h_job h_file]. repeat split.
  - rewrite app_nil_r. exact Hd.
  - rewrite len_app. clear - Hpos Hlen. lia.
  - rewrite irun_app, Hi. cbv beta iota. rewrite Hi2. reflexivity.
  - apply Forall2_app; assumption.
  - destruct W2; assumption.
  - destruct W2; assumption.
  - destruct W2; assumption.
Qed.

Lemma h_step_inv E hs op r es hs' : HInv E hs ->
  match op with HTrunc _ => False | _ => True end ->
  h_step c rd op hs = (r, es, hs') ->
  HInv (E ++ es) hs'
  /\ h_file hs' = h_file hs ++ appended [op].
Proof.
  intros HI Hop Hs. destruct op as [a|n|n|k| |n|n]; cbn [h_step appended] in *; try rewrite !app_nil_r.
  - (* append *)
    inversion Hs; subst r es hs'; clear Hs. rewrite app_nil_r. cbn [h_file]. split; [|reflexivity].
    destruct HI as (Ho & Hof & b & rest & E' & i & Hd & Hc & Hi & HF & W).
    split; [exact Ho|]. cbn [h_file h_job]. split; [rewrite len_app; pose proof (len_nonneg a); lia|].
    exists b, (rest ++ a), E', i. repeat split; try assumption.
    + rewrite drop_app_le by lia. rewrite Hd. symmetry. apply app_assoc.
    + destruct W; assumption.
    + destruct W; assumption.
    + destruct W; assumption.
  - (* pass *)
    destruct (h_deleted hs).
    + inversion Hs; subst r es hs'. rewrite app_nil_r. split; [exact HI|reflexivity].
    + destruct (h_pass c rd n hs) as [es1 hs1] eqn:Hp. inversion Hs; subst r es hs'; clear Hs.
      destruct (h_pass_inv E hs n es1 hs1 HI Hp) as (H1 & H2 & _). split; assumption.
  - (* maintenance tick *)
    destruct (h_deleted hs).
    + inversion Hs; subst r es hs'. rewrite app_nil_r. split; [exact HI|reflexivity].
    + unfold h_maint in Hs. destruct (negb (h_done hs)).
      * inversion Hs; subst r es hs'. rewrite app_nil_r. split; [exact HI|reflexivity].
      * destruct (negb (len (h_file hs) =? cur (h_job hs))).
        -- destruct (h_pass c rd n hs) as [es1 hs1] eqn:Hp. inversion Hs; subst r es hs'; clear Hs.
           destruct (h_pass_inv E hs n es1 hs1 HI Hp) as (H1 & H2 & _). split; assumption.
        -- destruct (h_moved hs); inversion Hs; subst r es hs'; rewrite app_nil_r.
           ++ split; [|reflexivity]. apply (HInv_ext E hs); [reflexivity|reflexivity|exact HI].
           ++ split; [exact HI|reflexivity].
  - contradiction.
  - (* rename / rotation *)
    inversion Hs; subst r es hs'. rewrite app_nil_r. split; [|reflexivity].
    apply (HInv_ext E hs); [reflexivity|reflexivity|exact HI].
  - (* write notification: the truncation check is void, then a pass *)
    destruct (h_deleted hs).
    + inversion Hs; subst r es hs'. rewrite app_nil_r. split; [exact HI|reflexivity].
    + rewrite (h_untrunc_id E hs HI) in Hs.
      destruct (h_pass c rd n hs) as [es1 hs1] eqn:Hp. inversion Hs; subst r es hs'; clear Hs.
      destruct (h_pass_inv E hs n es1 hs1 HI Hp) as (H1 & H2 & _). split; assumption.
  - (* maintenance tick with remove_after expired *)
    destruct (h_deleted hs).
    + inversion Hs; subst r es hs'. rewrite app_nil_r. split; [exact HI|reflexivity].
    + unfold h_maint_exp in Hs. destruct (negb (h_done hs)).
      * inversion Hs; subst r es hs'. rewrite app_nil_r. split; [exact HI|reflexivity].
      * destruct (negb (len (h_file hs) =? cur (h_job hs))).
        -- destruct (h_pass c rd n hs) as [es1 hs1] eqn:Hp. inversion Hs; subst r es hs'; clear Hs.
           destruct (h_pass_inv E hs n es1 hs1 HI Hp) as (H1 & H2 & _). split; assumption.
        -- inversion Hs; subst r es hs'; rewrite app_nil_r.
           split; [|reflexivity]. apply (HInv_ext E hs); [reflexivity|reflexivity|exact HI].
Qed.

Lemma h_run_inv : forall ops E0 hs, HInv E0 hs -> no_trunc ops ->
  HInv (E0 ++ fst (h_run c rd hs ops)) (snd (h_run c rd hs ops))
  /\ h_file (snd (h_run c rd hs ops)) = h_file hs ++ appended ops.
Proof.
  induction ops as [|op r IH]; intros E0 hs HI Hn.
  - cbn [h_run fst snd appended]. rewrite !app_nil_r. split; [exact HI|reflexivity].
  - inversion Hn as [|x l Hop Hr]; subst x l. cbn [h_run].
    destruct (h_step c rd op hs) as [[x e1] h1] eqn:Hs.
    destruct (h_step_inv E0 hs op x e1 h1 HI Hop Hs) as [HI1 Hf1].
    destruct (IH (E0 ++ e1) h1 HI1 Hr) as [HI2 Hf2].
    destruct (h_run c rd h1 r) as [e2 h2]. cbn [fst snd] in *.
    split; [rewrite app_assoc; exact HI2|].
    rewrite Hf2, Hf1. change (op :: r) with ([op] ++ r). rewrite appended_app. symmetry. apply app_assoc.
Qed.

Lemma HInv_start fc0 d0 dl mv : 0 <= o <= len fc0 ->
  HInv [] {| h_job := st_at o sk0; h_done := d0; h_deleted := dl; h_moved := mv; h_file := fc0 |}.
Proof.
  intros H. split; [lia|]. split; [cbn [h_file]; lia|].
  exists [], (drop o fc0), [], i0. cbn [h_file h_job st_at cur]. repeat split.
  - rewrite len_nil. lia.
  - constructor.
  - left. reflexivity.
Qed.

(* what the invariant says about the observable state *)
Lemma HInv_final E hs : HInv E hs ->
  let b := take (cur (h_job hs) - o) (drop o (h_file hs)) in
  o <= cur (h_job hs) <= len (h_file hs)
  /\ Forall2 (emitR c) E (spec_emits c sk0 o b)
  /\ skip (h_job hs) = sk0 && negb (has_line b)
  /\ accR c (snd (split_lines b)) (tail (h_job hs)).
Proof.
  intros (Ho & Hof & b & rest & E' & i & Hd & Hc & Hi & HF & [Wa Wp Ws]).
  assert (Hlen : len (h_file hs) - o = len b + len rest).
  { rewrite <- (len_drop o (h_file hs)) by lia. rewrite Hd. apply len_app. }
  cbv zeta. replace (cur (h_job hs) - o) with (len b) by lia. rewrite Hd, take_app_len.
  pose proof (irun_spec c b i0 (Forall_nil _)) as Hspec. unfold i0 in Hspec, Hi.
  cbn [ipos irp isk rev app] in Hspec. rewrite len_nil, Z.sub_0_r in Hspec.
  rewrite Hspec in Hi. inversion Hi; subst E' i; clear Hi. cbn [ipos irp isk] in *.
  rewrite rev_involutive in Wa.
  split; [pose proof (len_nonneg b); pose proof (len_nonneg rest); lia|].
  split; [exact HF|]. split; [symmetry; exact Ws|exact Wa].
Qed.

(* ---------------------------------------------------------------- the theorems *)
Definition h_start (fc0 : bytes) (d0 : bool) : hst :=
  {| h_job := st_at o sk0; h_done := d0; h_deleted := false; h_moved := false; h_file := fc0 |}.

(* after ANY history of appends, passes, ticks and renames: what was delivered is the spec of the bytes consumed,
   the position is the number of bytes consumed, the tail is the unterminated remainder of the bytes consumed *)
Theorem hist_general fc0 d0 ops : 0 <= o <= len fc0 -> no_trunc ops ->
  let '(E, hs) := h_run c rd (h_start fc0 d0) ops in
  let b := take (cur (h_job hs) - o) (drop o (h_file hs)) in
  h_file hs = fc0 ++ appended ops
  /\ o <= cur (h_job hs) <= len (h_file hs)
  /\ Forall2 (emitR c) E (spec_emits c sk0 o b)
  /\ skip (h_job hs) = sk0 && negb (has_line b)
  /\ accR c (snd (split_lines b)) (tail (h_job hs)).
Proof.
  intros Ho Hn.
  destruct (h_run_inv ops [] (h_start fc0 d0) (HInv_start fc0 d0 false false Ho) Hn) as [HI Hf].
  destruct (h_run c rd (h_start fc0 d0) ops) as [E hs]. cbn [fst snd app h_start h_file] in *.
  split; [exact Hf|]. exact (HInv_final E hs HI).
Qed.

Lemma take_all_drop (f : bytes) : 0 <= o <= len f -> take (len f - o) (drop o f) = drop o f.
Proof.
  intros H. rewrite <- (len_drop o f) by lia.
  pose proof (take_app_len (drop o f) []) as T. rewrite app_nil_r in T. exact T.
Qed.

(* a history that ends with a worker pass: every line written at any time is delivered once, whole, in order,
   with its end offset; ticks anywhere in between change nothing *)
Theorem hist_every_line_once fc0 d0 ops n : 0 <= o <= len fc0 -> no_trunc ops ->
  let '(E, hs) := h_run c rd (h_start fc0 d0) (ops ++ [HPass n]) in
  h_deleted hs = false ->
  let b := drop o (fc0 ++ appended ops) in
  h_file hs = fc0 ++ appended ops
  /\ cur (h_job hs) = len (fc0 ++ appended ops)
  /\ Forall2 (emitR c) E (spec_emits c sk0 o b)
  /\ skip (h_job hs) = sk0 && negb (has_line b)
  /\ accR c (snd (split_lines b)) (tail (h_job hs)).
Proof.
  intros Ho Hn. rewrite h_run_app.
  destruct (h_run_inv ops [] (h_start fc0 d0) (HInv_start fc0 d0 false false Ho) Hn) as [HI Hf].
  destruct (h_run c rd (h_start fc0 d0) ops) as [E1 h1]. cbn [fst snd app h_start h_file] in *.
  cbn [h_run h_step]. destruct (h_deleted h1) eqn:Hdel.
  - rewrite app_nil_r. intros Hx. congruence.
  - destruct (h_pass c rd n h1) as [es h2] eqn:Hp. rewrite app_nil_r. intros _.
    destruct (h_pass_inv E1 h1 n es h2 HI Hp) as (HI2 & Hf2 & Hc2 & _).
    assert (Hb : 0 <= o <= len (h_file h2)) by (destruct HI2 as (? & ? & _); split; assumption).
    pose proof (HInv_final _ _ HI2) as HF. cbv zeta in HF.
    rewrite Hc2, take_all_drop in HF by exact Hb. rewrite Hf2, Hf in *.
    cbv zeta. split; [reflexivity|]. split; [exact Hc2|]. tauto.
Qed.

(* the same when the last reader is a maintenance tick on an idle (done) job: it resumes the job when the file
   grew, so nothing written stays unread behind an idle job that still exists *)
Theorem hist_tick_reads_all fc0 d0 ops n : 0 <= o <= len fc0 -> no_trunc ops ->
  h_done (snd (h_run c rd (h_start fc0 d0) ops)) = true ->
  let '(E, hs) := h_run c rd (h_start fc0 d0) (ops ++ [HMaint n]) in
  h_deleted hs = false ->
  let b := drop o (fc0 ++ appended ops) in
  h_file hs = fc0 ++ appended ops
  /\ cur (h_job hs) = len (fc0 ++ appended ops)
  /\ Forall2 (emitR c) E (spec_emits c sk0 o b)
  /\ skip (h_job hs) = sk0 && negb (has_line b)
  /\ accR c (snd (split_lines b)) (tail (h_job hs)).
Proof.
  intros Ho Hn Hdone. rewrite h_run_app.
  destruct (h_run_inv ops [] (h_start fc0 d0) (HInv_start fc0 d0 false false Ho) Hn) as [HI Hf].
  destruct (h_run c rd (h_start fc0 d0) ops) as [E1 h1]. cbn [fst snd app h_start h_file] in *.
  cbn [h_run h_step]. destruct (h_deleted h1) eqn:Hdel.
  - rewrite app_nil_r. intros Hx. congruence.
  - unfold h_maint. rewrite Hdone. cbn [negb].
    destruct (len (h_file h1) =? cur (h_job h1)) eqn:Heq; cbn [negb].
    + destruct (h_moved h1).
      * rewrite app_nil_r. cbn [h_deleted]. intros Hx. discriminate.
      * rewrite app_nil_r. intros _.
        assert (Hb : 0 <= o <= len (h_file h1)) by (destruct HI as (? & ? & _); split; assumption).
        pose proof (HInv_final _ _ HI) as HF. cbv zeta in HF.
        assert (Hc : cur (h_job h1) = len (h_file h1)) by (clear - Heq; lia).
        rewrite Hc, take_all_drop in HF by exact Hb. rewrite Hf in *.
        cbv zeta. split; [reflexivity|]. split; [exact Hc|]. tauto.
    + destruct (h_pass c rd n h1) as [es h2] eqn:Hp. rewrite app_nil_r. intros _.
      destruct (h_pass_inv E1 h1 n es h2 HI Hp) as (HI2 & Hf2 & Hc2 & _).
      assert (Hb : 0 <= o <= len (h_file h2)) by (destruct HI2 as (? & ? & _); split; assumption).
      pose proof (HInv_final _ _ HI2) as HF. cbv zeta in HF.
      rewrite Hc2, take_all_drop in HF by exact Hb. rewrite Hf2, Hf in *.
      cbv zeta. split; [reflexivity|]. split; [exact Hc2|]. tauto.
Qed.

(* a tick on an idle job whose file is unchanged and still in place (the re-open + seek of maintenanceJob) delivers
   nothing and changes nothing: position, held-back tail and shouldSkip are those of before *)
Theorem maint_idle_changes_nothing hs n :
  h_done hs = true -> h_deleted hs = false -> h_moved hs = false -> len (h_file hs) = cur (h_job hs) ->
  h_step c rd (HMaint n) hs = (Some 4, [], hs).
Proof.
  intros Hd Hx Hv Hl. cbn [h_step]. rewrite Hx. unfold h_maint. rewrite Hd, Hv, Hl, Z.eqb_refl. reflexivity.
Qed.

(* truncation below the read position: the next pass (by notification or by a tick) delivers nothing and restarts
   the job at offset 0 WITHOUT the tail held back from the old content *)
Theorem hist_truncation_restarts hs n : h_deleted hs = false -> len (h_file hs) < cur (h_job hs) ->
  let hs' := {| h_job := st_at 0 (skip (h_job hs)); h_done := true; h_deleted := false; h_moved := h_moved hs;
                h_file := h_file hs |} in
  h_step c rd (HPass n) hs = (None, [], hs')
  /\ (h_done hs = true -> h_step c rd (HMaint n) hs = (Some 2, [], hs')).
Proof.
  intros Hx Hl.
  assert (Hp : h_pass c rd n hs =
               ([], {| h_job := st_at 0 (skip (h_job hs)); h_done := true; h_deleted := false; h_moved := h_moved hs;
                       h_file := h_file hs |})).
  { unfold h_pass. rewrite drop_beyond by lia.
    destruct (round c (h_job hs) (rd n [])) as [es st1] eqn:Hr.
    set (i := {| ipos := cur (h_job hs); irp := rev (tail (h_job hs)); isk := skip (h_job hs) |}).
    assert (W : WRel c (h_job hs) i).
    { constructor; unfold i; cbn [ipos irp isk]; [left; symmetry; apply rev_involutive|reflexivity|reflexivity]. }
    pose proof (round_sim c Hm (h_job hs) (rd n []) i W es st1 [] i Hr) as Hs.
    rewrite Hrd in Hs. destruct (Hs eq_refl) as [HF [_ Wp Ws]].
    inversion HF; subst es. unfold i in Wp, Ws. cbn [ipos isk] in Wp, Ws.
    replace (cur st1 >? len (h_file hs)) with true by lia.
    rewrite Hx, <- Ws. reflexivity. }
  cbv zeta. split.
  - cbn [h_step]. rewrite Hx, Hp. reflexivity.
  - intros Hd. cbn [h_step]. rewrite Hx. unfold h_maint. rewrite Hd. cbn [negb].
    replace (len (h_file hs) =? cur (h_job hs)) with false by lia. cbn [negb]. rewrite Hp. reflexivity.
Qed.

(* a write notification on a file that was not truncated below the read position is a plain pass *)
Theorem notify_is_pass hs n : cur (h_job hs) <= len (h_file hs) ->
  h_step c rd (HNotify n) hs = h_step c rd (HPass n) hs.
Proof.
  intros H. cbn [h_step]. unfold h_untrunc.
  replace (cur (h_job hs) >? len (h_file hs)) with false by lia. reflexivity.
Qed.

(* remove_after expired: the tick deletes an idle job (and removes its file) whether or not a tail is held back;
   a job that is not done, or whose file changed size, is treated as by the ordinary tick *)
Theorem maint_exp_removes_idle hs n :
  h_done hs = true -> h_deleted hs = false -> len (h_file hs) = cur (h_job hs) ->
  h_step c rd (HMaintExp n) hs =
  (Some 3, [], {| h_job := h_job hs; h_done := true; h_deleted := true; h_moved := h_moved hs; h_file := h_file hs |}).
Proof.
  intros Hd Hx Hl. cbn [h_step]. rewrite Hx. unfold h_maint_exp. rewrite Hd, Hl, Z.eqb_refl. reflexivity.
Qed.

Theorem maint_exp_reads_first hs n :
  h_deleted hs = false -> (h_done hs = false \/ len (h_file hs) <> cur (h_job hs)) ->
  h_step c rd (HMaintExp n) hs = h_step c rd (HMaint n) hs.
Proof.
  intros Hx H. cbn [h_step]. rewrite Hx. unfold h_maint_exp, h_maint.
  destruct (h_done hs); cbn [negb]; [|reflexivity].
  destruct H as [H|H]; [discriminate|].
  replace (len (h_file hs) =? cur (h_job hs)) with false by lia. reflexivity.
Qed.

End Hist.

(* truncation below the read position seen by a WRITE NOTIFICATION (refreshFile -> checkFileWasTruncated): the job
   restarts at 0 without the old tail and the same pass already delivers the new content: the specification of the
   whole file from offset 0 *)
Lemma drop_zero (f : bytes) : drop 0 f = f.
Proof. reflexivity. Qed.

Theorem hist_truncation_notify_rereads c rd hs n : 0 <= wmax c -> rd_sound rd ->
  h_deleted hs = false -> len (h_file hs) < cur (h_job hs) ->
  let '(r, E, hs') := h_step c rd (HNotify n) hs in
  let sk := skip (h_job hs) in
  r = None /\ h_file hs' = h_file hs /\ h_done hs' = true
  /\ cur (h_job hs') = len (h_file hs)
  /\ Forall2 (emitR c) E (spec_emits c sk 0 (h_file hs))
  /\ skip (h_job hs') = sk && negb (has_line (h_file hs))
  /\ accR c (snd (split_lines (h_file hs))) (tail (h_job hs')).
Proof.
  intros Hm Hrd Hx Hl. cbn [h_step]. rewrite Hx. unfold h_untrunc.
  replace (cur (h_job hs) >? len (h_file hs)) with true by lia.
  set (sk := skip (h_job hs)).
  set (hs1 := {| h_job := {| cur := 0; tail := []; skip := sk |}; h_done := h_done hs; h_deleted := h_deleted hs;
                 h_moved := h_moved hs; h_file := h_file hs |}).
  assert (H0 : 0 <= 0 <= len (h_file hs)) by (pose proof (len_nonneg (h_file hs)); lia).
  pose proof (HInv_start c 0 sk (h_file hs) (h_done hs) (h_deleted hs) (h_moved hs) H0) as HI.
  change {| h_job := st_at 0 sk; h_done := h_done hs; h_deleted := h_deleted hs; h_moved := h_moved hs; h_file := h_file hs |}
    with hs1 in HI.
  destruct (h_pass c rd n hs1) as [es hs'] eqn:Hp.
  destruct (h_pass_inv c rd Hm Hrd 0 sk [] hs1 n es hs' HI Hp) as (HI' & Hf & Hc & _ & _ & Hd).
  cbn [app] in HI'. pose proof (HInv_final c 0 sk es hs' HI') as HF. cbv zeta in HF.
  rewrite Hf in *. cbn [hs1 h_file] in *. rewrite Hc, drop_zero, Z.sub_0_r in HF.
  assert (Ht : take (len (h_file hs)) (h_file hs) = h_file hs).
  { pose proof (take_app_len (h_file hs) []) as T. rewrite app_nil_r in T. exact T. }
  rewrite Ht in HF. destruct HF as (_ & H2 & H3 & H4).
  split; [reflexivity|]. split; [reflexivity|]. split; [exact Hd|]. split; [exact Hc|]. split; [exact H2|]. split; assumption.
Qed.

(* ---------------------------------------------------------------- compressed (lz4) jobs *)
(* the skip loop stops at a position L that is not behind the minimum saved offset m, and what it leaves to the pass is
   exactly the content from L on - provided m lies inside the content *)
Lemma lz4_skip_spec n m : 1 <= n -> forall fuel pre rest,
  (length rest < fuel)%nat -> len pre <= Z.max 0 m -> m <= len pre + len rest ->
  exists pre' rest', lz4_skip fuel n m (len pre) rest = (len pre', rest')
                     /\ pre ++ rest = pre' ++ rest' /\ len pre' <= Z.max 0 m.
Proof.
  intros Hn. induction fuel as [|f IH]; intros pre rest Hf Hp Hm; [inversion Hf|].
  cbn [lz4_skip]. destruct (len pre + n <? m) eqn:Hlt.
  - assert (Hfit : (n <=? len rest) = true) by lia. rewrite Hfit.
    assert (Hsplit : rest = take n rest ++ drop n rest) by (unfold take, drop; symmetry; apply firstn_skipn).
    assert (Hlt_ : len (take n rest) = n).
    { unfold take. rewrite len_firstn. rewrite Z2Nat.id by lia. lia. }
    assert (Hld : len (drop n rest) = len rest - n) by (apply len_drop; pose proof (len_nonneg rest); lia).
    specialize (IH (pre ++ take n rest) (drop n rest)).
    rewrite len_app, Hlt_ in IH.
    destruct IH as (pre' & rest' & H1 & H2 & H3).
    + assert (Hlr : (length (drop n rest) < length rest)%nat).
      { unfold drop. rewrite skipn_length. unfold len in Hfit. lia. }
      lia.
    + lia.
    + lia.
    + exists pre', rest'. split; [exact H1|]. split; [|exact H3].
      rewrite <- H2, <- app_assoc, <- Hsplit. reflexivity.
  - exists pre, rest. repeat split. exact Hp.
Qed.

Lemma split_tail_nil_right a b : snd (split_lines (a ++ b)) = [] -> snd (split_lines b) = [].
Proof.
  intros H. rewrite split_lines_app in H. cbn [snd] in H.
  destruct (split_lines_spec a) as (_ & _ & Hna). set (t := snd (split_lines a)) in *.
  destruct (split_lines_spec b) as (Hb & Hlb & Hnb).
  destruct (fst (split_lines b)) as [|l ls] eqn:Hfl.
  - (* b has no newline: t ++ b has none either, its remainder is all of it *)
    cbn [concat app] in Hb.
    assert (Hnn : noNL (t ++ b)) by (rewrite Hb at 1; apply noNL_app; assumption).
    rewrite (split_lines_nonl _ Hnn) in H. cbn [snd] in H.
    apply app_eq_nil in H. destruct H as [_ H]. rewrite H. reflexivity.
  - (* b = l0 ++ NL :: more: the remainder of t ++ b is the remainder of b *)
    inversion Hlb as [|? ? H1 H2]; subst. destruct H1 as [l0 [-> Hl0]].
    rewrite Hb in H at 1. cbn [concat] in H. rewrite <- !app_assoc in H. cbn [app] in H.
    rewrite app_assoc in H.
    rewrite (split_lines_nonl_app (t ++ l0) _ (noNL_app _ _ Hna Hl0)) in H. cbn [snd] in H.
    rewrite (split_lines_of_lines ls _ H2 Hnb) in H. cbn [snd] in H. exact H.
Qed.

Lemma filter_with_off_le (m : Z) ls : forall base, base + len (concat ls) <= m ->
  filter (fun e : emit => m <? fst e) (with_off base ls) = [].
Proof.
  induction ls as [|l ls IH]; intros base H; cbn [with_off filter]; [reflexivity|].
  cbn [concat] in H. rewrite len_app in H. pose proof (len_nonneg (concat ls)). cbn [fst].
  replace (m <? base + len l) with false by lia. apply IH. lia.
Qed.

Lemma filter_with_off_gt (m : Z) ls : Forall is_line ls -> forall base, m <= base ->
  filter (fun e : emit => m <? fst e) (with_off base ls) = with_off base ls.
Proof.
  intros Hl. induction Hl as [|l ls [l0 [-> _]] _ IH]; intros base H; cbn [with_off filter]; [reflexivity|].
  cbn [fst]. rewrite len_app. pose proof (len_nonneg l0). change (len [NL]) with 1.
  replace (m <? base + (len l0 + 1)) with true by lia. f_equal. apply IH. lia.
Qed.

(* resume of a compressed job: the pass starts at ANY position L = len pre1 that is not behind the saved offset
   m = len (pre1 ++ pre2), m a line end of the file. What it hands over with an offset behind m is exactly the list of
   the lines of the whole file that end behind m, each with its offset in the decompressed stream; together with the
   lines up to m (delivered before the restart) this is the line list of the whole file. Every split into reads. *)
Theorem lz4_resume_exact pre1 pre2 b reads :
  snd (split_lines (pre1 ++ pre2)) = [] -> concat reads = pre2 ++ b ->
  let m := len (pre1 ++ pre2) in
  let E := fst (round nolimit (st_at (len pre1) false) reads) in
  filter (fun e : emit => m <? fst e) E = with_off m (fst (split_lines b))
  /\ with_off 0 (fst (split_lines (pre1 ++ pre2 ++ b)))
     = with_off 0 (fst (split_lines (pre1 ++ pre2))) ++ with_off m (fst (split_lines b)).
Proof.
  intros Hend Hreads m E.
  assert (H2 : snd (split_lines pre2) = []) by (apply (split_tail_nil_right pre1); exact Hend).
  pose proof (worker_offsets_exact (len pre1) [reads]) as HW. cbv zeta in HW.
  unfold flat in HW. cbn [map concat] in HW. rewrite app_nil_r, Hreads in HW.
  cbn [rounds] in HW. destruct (round nolimit (st_at (len pre1) false) reads) as [es st] eqn:Hr.
  cbn [app] in HW. rewrite app_nil_r in HW. inversion HW as [[He Hs]]; clear HW.
  subst E. cbn [fst]. rewrite He.
  destruct (split_lines_spec pre2) as (Hp2 & Hl2 & _). rewrite H2, app_nil_r in Hp2.
  destruct (split_lines_spec b) as (_ & Hlb & _).
  assert (Hm : m = len pre1 + len (concat (fst (split_lines pre2)))) by (unfold m; rewrite len_app, <- Hp2; reflexivity).
  split.
  - rewrite split_lines_app, H2. cbn [fst app]. rewrite with_off_app, filter_app.
    rewrite (filter_with_off_le m) by lia. cbn [app]. rewrite <- Hm.
    apply filter_with_off_gt; [exact Hlb|lia].
  - rewrite app_assoc, split_lines_app, Hend. cbn [fst app]. rewrite with_off_app. f_equal. f_equal.
    destruct (split_lines_spec (pre1 ++ pre2)) as (Hpp & _ & _). rewrite Hend, app_nil_r in Hpp.
    unfold m. rewrite Hpp at 2. lia.
Qed.

(* the model of the pass (skip loop included) on a file whose saved offset m is a line end inside the content *)
Theorem lz4_pass_exact n content offs (o : Z) :
  (0 < n)%nat -> let m := min_list o offs in
  0 <= m <= len content -> snd (split_lines (take m content)) = [] ->
  let k := {| z_cfg := nolimit; z_offs := o :: offs; z_frames := [content]; z_n := n |} in
  let '(L, es, st) := z_pass k in
  0 <= L <= m
  /\ filter (fun e : emit => m <? fst e) es = with_off m (fst (split_lines (drop m content)))
  /\ with_off 0 (fst (split_lines content))
     = with_off 0 (fst (split_lines (take m content))) ++ with_off m (fst (split_lines (drop m content))).
Proof.
  intros Hn m Hm Hend k. unfold z_pass, z_content, z_min. cbn [k z_frames z_offs z_cfg z_n concat].
  rewrite app_nil_r. fold m.
  destruct (lz4_skip_spec (Z.of_nat n) m ltac:(lia) (S (length content)) [] content) as (pre' & rest' & Hsk & Hsp & Hle).
  - lia.
  - rewrite len_nil. lia.
  - rewrite len_nil. lia.
  - rewrite len_nil in Hsk. rewrite Hsk. cbn [app] in Hsp.
    destruct (round nolimit {| cur := len pre'; tail := []; skip := false |} (chunks n rest')) as [es st] eqn:Hr.
    assert (HL : len pre' <= m) by lia.
    (* content = pre' ++ pre2 ++ b with pre' ++ pre2 = take m content *)
    assert (Hc : content = take m content ++ drop m content) by (unfold take, drop; symmetry; apply firstn_skipn).
    assert (Htk : len (take m content) = m) by (unfold take; rewrite len_firstn, Z2Nat.id by lia; lia).
    set (pre2 := drop (len pre') (take m content)).
    assert (Hpre : take m content = pre' ++ pre2).
    { unfold pre2, take, drop. rewrite <- (firstn_skipn (Z.to_nat (len pre')) (firstn (Z.to_nat m) content)) at 1.
      f_equal. rewrite firstn_firstn. replace (Init.Nat.min (Z.to_nat (len pre')) (Z.to_nat m)) with (Z.to_nat (len pre')) by lia.
      rewrite Hsp. unfold len. rewrite Nat2Z.id. rewrite firstn_app, Nat.sub_diag, firstn_all. cbn [firstn]. apply app_nil_r. }
    assert (Hrest : rest' = pre2 ++ drop m content).
    { apply (app_inv_head pre'). rewrite <- Hsp, app_assoc, <- Hpre. exact Hc. }
    pose proof (lz4_resume_exact pre' pre2 (drop m content) (chunks n rest')) as HT.
    rewrite <- Hpre in HT. specialize (HT Hend). rewrite chunks_concat in HT by exact Hn. specialize (HT Hrest).
    cbv zeta in HT. rewrite Htk in HT. unfold st_at in HT. rewrite Hr in HT. cbn [fst] in HT.
    destruct HT as [HT1 HT2]. rewrite app_assoc, <- Hpre, <- Hc in HT2.
    split; [pose proof (len_nonneg pre'); lia|]. split; [exact HT1|exact HT2].
Qed.

(* no size limit: exact equality — whatever ticks and renames are interleaved, a history that ends with a pass
   has delivered exactly the complete lines of everything written, each with its end offset; the tail is exactly
   the unterminated remainder *)
Theorem hist_offsets_exact rd o fc0 d0 ops n : rd_sound rd -> 0 <= o <= len fc0 -> no_trunc ops ->
  let '(E, hs) := h_run nolimit rd (h_start o false fc0 d0) (ops ++ [HPass n]) in
  h_deleted hs = false ->
  let b := drop o (fc0 ++ appended ops) in
  E = with_off o (fst (split_lines b))
  /\ h_job hs = {| cur := len (fc0 ++ appended ops); tail := snd (split_lines b); skip := false |}.
Proof.
  intros Hrd Ho Hn.
  pose proof (hist_every_line_once nolimit rd (Z.le_refl 0) Hrd o false fc0 d0 ops n Ho Hn) as H.
  destruct (h_run nolimit rd (h_start o false fc0 d0) (ops ++ [HPass n])) as [E hs].
  intros Hx. specialize (H Hx). cbv zeta in *. destruct H as (_ & Hc & HF & Hs & Ha).
  apply Forall2_emitR_eq in HF; [|reflexivity].
  unfold spec_emits in HF. rewrite size_filter_nolimit in HF by reflexivity. cbn [drop_first] in HF.
  split; [exact HF|].
  destruct Ha as [Ha|[Ha|Ha]]; [|destruct Ha as [Hy _]; discriminate|destruct Ha as [Hy _]; discriminate].
  destruct (h_job hs) as [cu tl_ skp]. cbn [cur tail skip andb] in *. subst. reflexivity.
Qed.

(* the boolean relations the history predicate [hpred] evaluates (delivered vs. specification, saved tail vs. true
   remainder) hold after every truncation-free history of the model *)
Theorem hist_pred_holds c rd o sk0 fc0 d0 ops : 0 <= wmax c -> rd_sound rd -> 0 <= o <= len fc0 -> no_trunc ops ->
  let '(E, hs) := h_run c rd (h_start o sk0 fc0 d0) ops in
  let b := take (cur (h_job hs) - o) (drop o (h_file hs)) in
  forall2b (emit_okb c) (map (fun e => (e, None)) E) (spec_emits c sk0 o b) = true
  /\ tail_relb c (tail (h_job hs)) (snd (split_lines b)) = true
  /\ cur (h_job hs) = o + len b.
Proof.
  intros Hm Hrd Ho Hn. pose proof (hist_general c rd Hm Hrd o sk0 fc0 d0 ops Ho Hn) as H.
  destruct (h_run c rd (h_start o sk0 fc0 d0) ops) as [E hs]. cbv zeta in *.
  destruct H as (Hf & Hc & HF & _ & Ha).
  split; [|split; [apply tail_relb_complete; exact Ha|]].
  - induction HF as [|[o1 d1] [o2 d2] l l' [H1 H2] _ IH]; [reflexivity|].
    cbn [map forall2b emit_okb fst snd] in *. subst o2.
    rewrite Z.eqb_refl, (data_relb_complete _ _ _ H2), IH. reflexivity.
  - assert (Hl : len (drop o (h_file hs)) = len (h_file hs) - o) by (apply len_drop; lia).
    unfold take. rewrite len_firstn. lia.
Qed.

