(* Proofs about Model/K8sMultiline.v: the line-end test reads the JSON string tokens correctly, the
   state machine never panics, and on time-out free input every step is the function [k_spec] of
   the chunks of the current line (in-order concatenation, exact size rule, lines independent). *)
From Verif Require Import Base.Sx Base.GoSem Model.Join Model.K8sMultiline.
From Coq Require Import Lia ZifyBool.

(* ---- lengths, slices --------------------------------------------------------------------------- *)
Lemma klen_app : forall {A} (a b : list A), len (a ++ b) = len a + len b.
Proof. intros. unfold len. rewrite app_length. lia. Qed.
Lemma klen_cons : forall {A} (x : A) l, len (x :: l) = 1 + len l.
Proof. intros. unfold len. cbn [length]. lia. Qed.
Lemma klen_nonneg : forall {A} (l : list A), 0 <= len l.
Proof. intros. unfold len. lia. Qed.
Lemma klen_firstn : forall {A} n (l : list A), (n <= length l)%nat -> len (firstn n l) = Z.of_nat n.
Proof. intros. unfold len. rewrite firstn_length. lia. Qed.

Lemma frag_decomp : forall (f : bytes), 2 <= len f -> exists q B z, f = q :: B ++ [z] /\ body f = B.
Proof.
  intros f H. destruct f as [|q tl]; [unfold len in H; cbn in H; lia|].
  destruct (exists_last (l := tl)) as [B [z Hz]].
  { intro E; subst tl. unfold len in H; cbn in H; lia. }
  exists q, B, z. subst tl. split; [reflexivity|]. unfold body. cbn [tl]. apply removelast_last.
Qed.

Lemma body_len : forall f, 2 <= len f -> len (body f) = len f - 2.
Proof.
  intros f H. destruct (frag_decomp f H) as [q [B [z [Hf Hb]]]]. rewrite Hb, Hf.
  rewrite klen_cons, klen_app. unfold len. cbn [length]. lia.
Qed.

Lemma slice_body : forall f, 2 <= len f -> slice f 1 (len f - 1) = Ok (body f).
Proof.
  intros f H. destruct (frag_decomp f H) as [q [B [z [Hf Hb]]]]. rewrite Hb. subst f.
  unfold slice. rewrite klen_cons, klen_app.
  assert (Hz : len [z] = 1) by reflexivity. rewrite Hz.
  pose proof (klen_nonneg B).
  replace ((0 <=? 1) && (1 <=? 1 + (len B + 1) - 1) && (1 + (len B + 1) - 1 <=? 1 + (len B + 1))) with true by lia.
  f_equal. change (Z.to_nat 1) with 1%nat. cbn [skipn].
  replace (Z.to_nat (1 + (len B + 1) - 1 - 1)) with (length B) by (unfold len; lia).
  rewrite firstn_app, Nat.sub_diag, firstn_all. cbn. apply app_nil_r.
Qed.

(* the cut: fragment[1 : 1+k] is the first k bytes of the body *)
Lemma slice_body_prefix : forall f k, 2 <= len f -> 0 <= k <= len f - 2 ->
  slice f 1 (1 + k) = Ok (firstn (Z.to_nat k) (body f)).
Proof.
  intros f k H Hk. destruct (frag_decomp f H) as [q [B [z [Hf Hb]]]]. rewrite Hb. subst f.
  unfold slice. rewrite klen_cons, klen_app in *.
  assert (Hz : len [z] = 1) by reflexivity. rewrite Hz in *.
  replace ((0 <=? 1) && (1 <=? 1 + k) && (1 + k <=? 1 + (len B + 1))) with true by lia.
  f_equal. change (Z.to_nat 1) with 1%nat. cbn [skipn].
  replace (1 + k - 1) with k by lia.
  rewrite firstn_app. replace (Z.to_nat k - length B)%nat with 0%nat by (unfold len in *; lia).
  cbn. apply app_nil_r.
Qed.

Lemma slice_to_one : forall (tl : bytes), slice_to (QUOTE :: tl) 1 = Ok [QUOTE].
Proof.
  intros. unfold slice_to, slice. rewrite klen_cons. pose proof (klen_nonneg tl).
  replace ((0 <=? 0) && (0 <=? 1) && (1 <=? 1 + len tl)) with true by lia. reflexivity.
Qed.

(* ---- the cut at max_event_size: escapedCutKeep ---------------------------------------------------- *)
Lemma slice_to_firstn : forall (s : bytes) (k : nat), (k <= length s)%nat ->
  slice_to s (Z.of_nat k) = Ok (firstn k s).
Proof.
  intros s k H. unfold slice_to, slice.
  replace ((0 <=? 0) && (0 <=? Z.of_nat k) && (Z.of_nat k <=? len s)) with true by (unfold len; lia).
  change (Z.to_nat 0) with 0%nat. cbn [skipn]. replace (Z.to_nat (Z.of_nat k - 0)) with k by lia. reflexivity.
Qed.

(* a well-tokenised prefix can be dropped *)
Lemma esc_wf_app : forall a b, esc_wf a = true -> esc_wf (a ++ b) = esc_wf b.
Proof.
  intros a. remember (length a) as n eqn:Hn. revert a Hn.
  induction n as [n IH] using lt_wf_ind. intros a Hn b H.
  destruct a as [|ch r]; [reflexivity|]. cbn [app esc_wf] in *.
  destruct (N.eqb ch BSLASH).
  - destruct r as [|e r1]; [discriminate|]. cbn [app]. destruct (N.eqb e CH_u).
    + destruct r1 as [|h1 [|h2 [|h3 [|h4 r2]]]]; try discriminate. cbn [app].
      destruct (is_hex h1 && is_hex h2 && is_hex h3 && is_hex h4); [|discriminate]. cbn [andb] in *.
      apply (IH (length r2)); [subst n; cbn [length]; lia|reflexivity|exact H].
    + destruct (is_simple_esc e); [|discriminate]. cbn [andb] in *.
      apply (IH (length r1)); [subst n; cbn [length]; lia|reflexivity|exact H].
  - destruct (plain_ok ch); [|discriminate]. cbn [andb] in *.
    apply (IH (length r)); [subst n; cbn [length]; lia|reflexivity|exact H].
Qed.

Lemma esc_wf_cat : forall a b, esc_wf a = true -> esc_wf b = true -> esc_wf (a ++ b) = true.
Proof. intros a b Ha Hb. rewrite esc_wf_app by exact Ha. exact Hb. Qed.

Lemma esc_wf_nlesc : esc_wf NLESC = true.
Proof. reflexivity. Qed.

Lemma klen_skipn : forall {A} n (l : list A), (n <= length l)%nat -> len (skipn n l) = len l - Z.of_nat n.
Proof. intros. unfold len. rewrite skipn_length. lia. Qed.

(* the loop, from any position i with the view [rest] = s[i:], limit - i bytes of budget left and at
   least that many bytes in the view: it returns i + m where the m bytes are whole tokens, m is within
   the budget, fewer than 6 bytes of budget are left unused, and NO longer prefix within the budget
   ends on a token boundary *)
Lemma cut_loop_ok : forall fuel rest i limit,
  0 <= limit - i <= len rest -> (Z.to_nat (limit - i) < fuel)%nat ->
  exists m : nat,
    cut_loop fuel rest i limit = Ok (i + Z.of_nat m) /\
    i + Z.of_nat m <= limit /\ limit - (i + Z.of_nat m) < 6 /\
    (esc_wf rest = true -> esc_wf (firstn m rest) = true) /\
    (forall k, (m < k)%nat -> i + Z.of_nat k <= limit -> esc_wf (firstn k rest) = false).
Proof.
  induction fuel as [|f IH]; intros rest i limit Hb Hf; [lia|].
  cbn [cut_loop]. destruct (i <? limit) eqn:Hlt.
  2:{ exists 0%nat. split; [f_equal; lia|]. split; [lia|]. split; [lia|]. split; [reflexivity|].
      intros k Hk Hk'. lia. }
  destruct rest as [|ch r]; [unfold len in Hb; cbn [length] in Hb; lia|].
  rewrite klen_cons in Hb.
  destruct (N.eqb ch BSLASH) eqn:Hbs; cbn [negb].
  - (* a backslash: an escape sequence of n bytes starts here *)
    destruct r as [|e r1].
    + (* the string ends with it: n = 2 can not fit *)
      unfold len in Hb. cbn [length] in Hb.
      replace (i + 2 >? limit) with true by lia.
      exists 0%nat. split; [f_equal; lia|]. split; [lia|]. split; [lia|]. split; [reflexivity|].
      intros k Hk Hk'. destruct k as [|k]; [lia|]. cbn [firstn esc_wf]. rewrite Hbs.
      destruct k; reflexivity.
    + rewrite klen_cons in Hb. destruct (N.eqb e CH_u) eqn:Hu.
      * (* \uXXXX *)
        destruct (i + 6 >? limit) eqn:Hn.
        -- exists 0%nat. split; [f_equal; lia|]. split; [lia|]. split; [lia|]. split; [reflexivity|].
           intros k Hk Hk'.
           destruct k as [|[|[|[|[|[|k]]]]]]; try lia;
             destruct r1 as [|h1 [|h2 [|h3 [|h4 r2]]]];
             cbn [firstn esc_wf]; rewrite ?Hbs, ?Hu; reflexivity.
        -- destruct r1 as [|h1 [|h2 [|h3 [|h4 r2]]]];
             try (unfold len in Hb; cbn [length] in Hb; lia).
           change (Z.to_nat 6) with 6%nat. cbn [skipn].
           rewrite !klen_cons in Hb.
           destruct (IH r2 (i + 6) limit) as [m [Hr [Hle [Hmax [Hwf Hlong]]]]]; [lia|lia|].
           exists (6 + m)%nat. split; [rewrite Hr; f_equal; lia|].
           split; [lia|]. split; [lia|]. split.
           ++ intro H. cbn [Nat.add firstn esc_wf] in *. rewrite Hbs, Hu in *.
              destruct (is_hex h1 && is_hex h2 && is_hex h3 && is_hex h4); [|discriminate].
              cbn [andb] in *. apply Hwf. exact H.
           ++ intros k Hk Hk'.
              destruct k as [|[|[|[|[|[|k]]]]]]; try lia.
              cbn [firstn esc_wf]. rewrite Hbs, Hu, (Hlong k) by lia. apply andb_false_r.
      * (* a two-byte escape *)
        destruct (i + 2 >? limit) eqn:Hn.
        -- exists 0%nat. split; [f_equal; lia|]. split; [lia|]. split; [lia|]. split; [reflexivity|].
           intros k Hk Hk'. destruct k as [|[|k]]; try lia. cbn [firstn esc_wf]. rewrite Hbs. reflexivity.
        -- change (Z.to_nat 2) with 2%nat. cbn [skipn].
           destruct (IH r1 (i + 2) limit) as [m [Hr [Hle [Hmax [Hwf Hlong]]]]]; [lia|lia|].
           exists (2 + m)%nat. split; [rewrite Hr; f_equal; lia|].
           split; [lia|]. split; [lia|]. split.
           ++ intro H. cbn [Nat.add firstn esc_wf] in *. rewrite Hbs, Hu in *.
              destruct (is_simple_esc e); [|discriminate]. cbn [andb] in *. apply Hwf. exact H.
           ++ intros k Hk Hk'. destruct k as [|[|k]]; try lia.
              cbn [firstn esc_wf]. rewrite Hbs, Hu, (Hlong k) by lia. apply andb_false_r.
  - (* an ordinary byte *)
    destruct (IH r (i + 1) limit) as [m [Hr [Hle [Hmax [Hwf Hlong]]]]]; [lia|lia|].
    exists (S m). split; [rewrite Hr; f_equal; lia|].
    split; [lia|]. split; [lia|]. split.
    + intro H. cbn [firstn esc_wf] in *. rewrite Hbs in *.
      destruct (plain_ok ch); [|discriminate]. cbn [andb] in *. apply Hwf. exact H.
    + intros k Hk Hk'. destruct k as [|k]; [lia|].
      cbn [firstn esc_wf]. rewrite Hbs, (Hlong k) by lia. apply andb_false_r.
Qed.

(* escapedCutKeep is total; what it returns *)
Lemma escaped_cut_keep_ok : forall s limit,
  exists k : nat,
    escaped_cut_keep s limit = Ok (Z.of_nat k) /\ (k <= length s)%nat /\
    (0 <= limit -> Z.of_nat k <= limit) /\
    (0 <= limit <= len s -> limit - Z.of_nat k < 6) /\
    (esc_wf s = true -> esc_wf (firstn k s) = true) /\
    (forall j, (k < j)%nat -> Z.of_nat j <= limit -> Z.of_nat j <= len s -> esc_wf (firstn j s) = false).
Proof.
  intros s limit. unfold escaped_cut_keep.
  destruct (limit >=? len s) eqn:Hge.
  - exists (length s). split; [reflexivity|]. split; [lia|]. split; [unfold len in *; lia|].
    split; [unfold len in *; lia|]. split; [intros H; rewrite firstn_all; exact H|].
    intros j Hj _ Hj'. unfold len in *. lia.
  - destruct (limit <? 0) eqn:Hneg.
    + exists 0%nat. split; [reflexivity|]. split; [lia|]. split; [lia|]. split; [lia|].
      split; [reflexivity|]. intros j Hj Hj' _. lia.
    + destruct (cut_loop_ok (S (Z.to_nat limit)) s 0 limit) as [m [Hr [Hle [Hmax [Hwf Hlong]]]]]; [lia|lia|].
      exists m. rewrite Hr. cbn [Z.add] in *. split; [reflexivity|]. split; [unfold len in *; lia|].
      split; [lia|]. split; [lia|]. split; [exact Hwf|].
      intros j Hj Hj' _. apply Hlong; lia.
Qed.

Lemma cut_keep_spec : forall s limit,
  escaped_cut_keep s limit = Ok (Z.of_nat (cut_keep s limit)) /\ (cut_keep s limit <= length s)%nat.
Proof.
  intros s limit. destruct (escaped_cut_keep_ok s limit) as [k [Hk [Hle _]]].
  unfold cut_keep. rewrite Hk, Nat2Z.id. split; [reflexivity|exact Hle].
Qed.

(* the cut never keeps more than the byte limit (what the code before the repair kept) ... *)
Theorem k8s_cut_keep_le : forall s limit,
  exists k, escaped_cut_keep s limit = Ok k /\ 0 <= k <= len s /\ (0 <= limit -> k <= Z.min limit (len s)).
Proof.
  intros s limit. destruct (escaped_cut_keep_ok s limit) as [k [Hk [Hle [Hlim _]]]].
  exists (Z.of_nat k). split; [exact Hk|]. unfold len. split; [lia|]. intro H. specialize (Hlim H). lia.
Qed.

(* ... never splits a token of a well-tokenised body, for every limit ... *)
Theorem k8s_cut_keep_tokens : forall s limit k,
  escaped_cut_keep s limit = Ok k -> esc_wf s = true -> esc_wf (firstn (Z.to_nat k) s) = true.
Proof.
  intros s limit k Hk H. destruct (escaped_cut_keep_ok s limit) as [k' [Hk' [_ [_ [_ [Hwf _]]]]]].
  rewrite Hk in Hk'. inversion Hk'; subst k. rewrite Nat2Z.id. apply Hwf. exact H.
Qed.

(* ... and keeps the LONGEST prefix within the limit that ends on a token boundary: fewer than 6 bytes
   (one \uXXXX sequence) of the budget stay unused, and no longer prefix within the limit is well
   tokenised *)
Theorem k8s_cut_keep_maximal : forall s limit k,
  escaped_cut_keep s limit = Ok k -> 0 <= limit <= len s ->
  limit - k < 6 /\ forall j, k < j <= limit -> esc_wf (firstn (Z.to_nat j) s) = false.
Proof.
  intros s limit k Hk Hl. destruct (escaped_cut_keep_ok s limit) as [k' [Hk' [_ [_ [Hmax [_ Hlong]]]]]].
  rewrite Hk in Hk'. inversion Hk'; subst k. split; [apply Hmax; exact Hl|].
  intros j Hj. apply Hlong; lia.
Qed.

(* ---- the line-end test -------------------------------------------------------------------------- *)
Fixpoint lead_bs (l : bytes) : nat :=
  match l with c :: r => if N.eqb c BSLASH then S (lead_bs r) else O | [] => O end.
Fixpoint par (k : nat) : bool := match k with O => false | S k' => negb (par k') end.

Lemma odd_par : forall k, Z.odd (Z.of_nat k) = par k.
Proof.
  induction k as [|k IH]; [reflexivity|].
  rewrite Nat2Z.inj_succ, Z.odd_succ, <- Z.negb_odd, IH. reflexivity.
Qed.

Lemma esc_scan_app : forall a b e l,
  esc_scan (a ++ b) e l = esc_scan b (fst (esc_scan a e l)) (snd (esc_scan a e l)).
Proof.
  induction a as [|c a IH]; intros b e l; [reflexivity|].
  cbn [app esc_scan]. destruct e; [apply IH|]. destruct (N.eqb c BSLASH); apply IH.
Qed.

(* after any prefix read from a non-escape state, "inside an escape" = odd number of trailing backslashes *)
Lemma esc_state : forall P l, fst (esc_scan P false l) = par (lead_bs (rev P)).
Proof.
  intros P. induction P as [|c P IH] using rev_ind; intros l; [reflexivity|].
  rewrite esc_scan_app, rev_app_distr. cbn [rev app lead_bs].
  rewrite IH. cbn [esc_scan].
  destruct (par (lead_bs (rev P))) eqn:E; destruct (N.eqb c BSLASH); cbn [fst par]; rewrite ?E; reflexivity.
Qed.

Lemma esc_last_not_n : forall P c e l, N.eqb c CH_n = false -> snd (esc_scan (P ++ [c]) e l) = false.
Proof.
  intros P c e l Hc. rewrite esc_scan_app. cbn [esc_scan].
  destruct (fst (esc_scan P e l)); cbn [snd]; [exact Hc|]. destruct (N.eqb c BSLASH); reflexivity.
Qed.

Lemma esc_last_n : forall P, snd (esc_scan (P ++ [CH_n]) false false) = par (lead_bs (rev P)).
Proof.
  intros P. rewrite esc_scan_app, esc_state. cbn [esc_scan].
  destruct (par (lead_bs (rev P))); reflexivity.
Qed.

Lemma idx_cons_app : forall (q : byte) (P t : bytes) j c,
  nth_error P j = Some c -> idx (q :: P ++ t) (Z.of_nat (S j)) = Ok c.
Proof.
  intros q P t j c H. unfold idx.
  assert (Hj : (j < length P)%nat) by (apply nth_error_Some; congruence).
  rewrite klen_cons, klen_app. pose proof (klen_nonneg t).
  replace ((0 <=? Z.of_nat (S j)) && (Z.of_nat (S j) <? 1 + (len P + len t))) with true by (unfold len; lia).
  rewrite Nat2Z.id. cbn [nth_error]. rewrite nth_error_app1 by exact Hj. rewrite H. reflexivity.
Qed.

Lemma firstn_S_nth : forall (P : bytes) j c, nth_error P j = Some c -> firstn (S j) P = firstn j P ++ [c].
Proof.
  induction P as [|x P IH]; intros j c H; destruct j; cbn in *; try discriminate.
  - inversion H; reflexivity.
  - f_equal. apply IH. exact H.
Qed.

Lemma count_slashes_spec : forall (q : byte) (P t : bytes) j fuel acc,
  (j <= length P)%nat -> (j < fuel)%nat ->
  count_slashes fuel (q :: P ++ t) (Z.of_nat j) acc = Ok (acc + Z.of_nat (lead_bs (rev (firstn j P)))).
Proof.
  intros q P t. induction j as [|j IH]; intros fuel acc Hj Hf; (destruct fuel as [|fuel]; [lia|]).
  - cbn [count_slashes]. cbn. f_equal. lia.
  - cbn [count_slashes]. replace (Z.of_nat (S j) >? 0) with true by lia.
    destruct (nth_error P j) as [c|] eqn:Ec; [|apply nth_error_None in Ec; lia].
    rewrite (idx_cons_app q P t j c Ec). cbn [bind].
    rewrite (firstn_S_nth P j c Ec), rev_app_distr. cbn [rev app lead_bs].
    destruct (N.eqb c BSLASH).
    + replace (Z.of_nat (S j) - 1) with (Z.of_nat j) by lia.
      rewrite IH by lia. f_equal. lia.
    + f_equal. cbn. lia.
Qed.

Theorem is_line_end_spec : forall f, 2 <= len f -> is_line_end f = Ok (ends_nl f).
Proof.
  intros f H. destruct (frag_decomp f H) as [q [B [z [Hf Hb]]]].
  unfold ends_nl. rewrite Hb. subst f. unfold is_line_end.
  rewrite klen_cons, klen_app. assert (Hz : len [z] = 1) by reflexivity. rewrite Hz.
  replace (1 + (len B + 1) - 2) with (len B) by lia.
  destruct (len B <? 2) eqn:Hsmall.
  - (* fewer than two bytes inside the quotes: no escape pair fits *)
    destruct B as [|b1 [|b2 B']]; [reflexivity| |unfold len in Hsmall; cbn [length] in Hsmall; lia].
    cbn [esc_scan]. destruct (N.eqb b1 BSLASH); reflexivity.
  - destruct (exists_last (l := B)) as [P [c HB]].
    { intro E; subst B. cbn in Hsmall. discriminate. }
    subst B. rewrite klen_app in *. assert (Hc1 : len [c] = 1) by reflexivity. rewrite Hc1 in *.
    assert (Hidx : idx (q :: (P ++ [c]) ++ [z]) (len P + 1) = Ok c).
    { rewrite <- app_assoc. cbn [app].
      replace (len P + 1) with (Z.of_nat (S (length P))) by (unfold len; lia).
      replace (q :: P ++ [c; z]) with (q :: (P ++ [c]) ++ [z]) by (rewrite <- app_assoc; reflexivity).
      apply idx_cons_app. rewrite nth_error_app2 by lia. rewrite Nat.sub_diag. reflexivity. }
    rewrite Hidx. cbn [bind].
    destruct (N.eqb c CH_n) eqn:Hc; cbn [negb].
    + apply N.eqb_eq in Hc. subst c. rewrite esc_last_n.
      replace (len P + 1 - 1) with (Z.of_nat (length P)) by (unfold len; lia).
      rewrite <- app_assoc. cbn [app].
      rewrite count_slashes_spec by (unfold len in *; lia).
      cbn [bind]. rewrite firstn_all. cbn [Z.add]. rewrite odd_par. reflexivity.
    + rewrite esc_last_not_n by exact Hc. reflexivity.
Qed.

(* stated on the tokens: a fragment "…<odd number of backslashes>n" ends the line, a literal
   backslash followed by n (an even, non-zero number of backslashes before the n) does not *)
Corollary ends_nl_tokens : forall (P : bytes),
  ends_nl (QUOTE :: (P ++ [CH_n]) ++ [QUOTE]) = par (lead_bs (rev P)).
Proof.
  intros P. unfold ends_nl, body. cbn [tl]. rewrite removelast_last. apply esc_last_n.
Qed.

(* ---- first_unfit along a growing line ----------------------------------------------------------- *)
Definition grow (fs : list bytes) : Z := fold_right (fun f a => len f - 2 + a) 0 fs.

Lemma bodies_app : forall a b, bodies (a ++ b) = bodies a ++ bodies b.
Proof. intros. unfold bodies. rewrite map_app, concat_app. reflexivity. Qed.

Lemma bodies_one : forall f, bodies [f] = body f.
Proof. intros. unfold bodies. cbn. apply app_nil_r. Qed.

Lemma grow_bodies : forall fs, Forall (fun f => 2 <= len f) fs -> len (bodies fs) = grow fs.
Proof.
  induction fs as [|f r IH]; intro H; [reflexivity|]. inversion H; subst.
  change (bodies (f :: r)) with (body f ++ bodies r). rewrite klen_app, body_len, IH by assumption.
  reflexivity.
Qed.

Lemma first_unfit_snoc_none : forall max fs pre f,
  first_unfit max pre fs = None ->
  first_unfit max pre (fs ++ [f]) =
    if (max =? 0) || (pre + grow fs + len f <? max) then None else Some (fs, f).
Proof.
  induction fs as [|g r IH]; intros pre f H.
  - cbn [app first_unfit grow fold_right]. replace (pre + 0 + len f) with (pre + len f) by lia.
    destruct ((max =? 0) || (pre + len f <? max)); reflexivity.
  - cbn [app first_unfit] in *. destruct ((max =? 0) || (pre + len g <? max)); [|discriminate].
    destruct (first_unfit max (pre + len g - 2) r) as [[p u]|] eqn:E; [discriminate|].
    rewrite (IH _ f E). cbn [grow fold_right]. fold (grow r).
    replace (pre + len g - 2 + grow r + len f) with (pre + (len g - 2 + grow r) + len f) by lia.
    destruct ((max =? 0) || (pre + (len g - 2 + grow r) + len f <? max)); reflexivity.
Qed.

Lemma first_unfit_snoc_some : forall max fs pre f pu,
  first_unfit max pre fs = Some pu -> first_unfit max pre (fs ++ [f]) = Some pu.
Proof.
  induction fs as [|g r IH]; intros pre f pu H; [discriminate|].
  cbn [app first_unfit] in *. destruct ((max =? 0) || (pre + len g <? max)); [|exact H].
  destruct (first_unfit max (pre + len g - 2) r) as [[p u]|] eqn:E; [|discriminate].
  rewrite (IH _ f _ E). exact H.
Qed.

Lemma first_unfit_some_max : forall max fs pre pu, first_unfit max pre fs = Some pu -> max <> 0.
Proof.
  induction fs as [|g r IH]; intros pre pu H; [discriminate|].
  cbn [first_unfit] in H. destruct ((max =? 0) || (pre + len g <? max)) eqn:Hf.
  - destruct (first_unfit max (pre + len g - 2) r) as [[p u]|] eqn:E; [|discriminate]. eapply IH; exact E.
  - lia.
Qed.

Lemma sum_sizes_snoc : forall h f sz, sum_sizes (h ++ [(f, sz)]) = sum_sizes h + sz.
Proof.
  induction h as [|x h IH]; intros; cbn [app sum_sizes fold_right snd]; [lia|].
  fold (sum_sizes (h ++ [(f, sz)])). fold (sum_sizes h). rewrite IH. lia.
Qed.

(* ---- the state against the chunks of the current line ------------------------------------------- *)
Definition kinv (c : kcfg) (st : kstate) (hist : list (bytes * Z)) : Prop :=
  Forall (fun f => 2 <= len f) (map fst hist) /\ esize st = sum_sizes hist /\
  match first_unfit (kmax c) 1 (map fst hist) with
  | None => skipNext st = false /\ cutOff st = false /\ ebuf st = QUOTE :: bodies (map fst hist)
  | Some (p, u) =>
      skipNext st = true /\
      if kcut c
      then cutOff st = true /\ ebuf st = QUOTE :: cut_body (kmax c) p u
      else cutOff st = false /\ exists tl, ebuf st = QUOTE :: tl
  end.

Lemma kinv_init : forall c,
  kinv c {| ebuf := [QUOTE]; esize := 0; skipNext := false; cutOff := false |} [].
Proof. intros c. unfold kinv. cbn. repeat split; constructor. Qed.

Definition step_term (c : kcfg) (hist : list (bytes * Z)) (f : bytes) (sz : Z) : bool :=
  ends_nl f || (opt_is_none (first_unfit (kmax c) 1 (map fst hist)) &&
                (sum_sizes hist + sz + lookahead >? ksplit c)).
Definition step_inc (c : kcfg) (hist : list (bytes * Z)) (f : bytes) : Z :=
  if opt_is_none (first_unfit (kmax c) 1 (map fst hist)) &&
     negb (opt_is_none (first_unfit (kmax c) 1 (map fst hist ++ [f]))) then 1 else 0.

Lemma k_reset_quote : forall tl e s co,
  k_reset {| ebuf := QUOTE :: tl; esize := e; skipNext := s; cutOff := co |}
  = Ok {| ebuf := [QUOTE]; esize := 0; skipNext := s; cutOff := false |}.
Proof. intros. unfold k_reset. cbn [ebuf skipNext]. rewrite slice_to_one. reflexivity. Qed.

Lemma k_step_spec : forall c st hist f sz,
  konly c = false -> kinv c st hist -> 2 <= len f ->
  exists st',
    k_do c st (KChunk f sz) =
      Ok (st', if step_term c hist f sz then final_step c (map fst hist) f
               else (ACollapse, step_inc c hist f, None, false)) /\
    kinv c st' (if step_term c hist f sz then [] else hist ++ [(f, sz)]).
Proof.
  intros c st hist f sz Ho [Hfs [He Hinv]] Hf.
  assert (Hfs' : Forall (fun f => 2 <= len f) (map fst (hist ++ [(f, sz)]))).
  { rewrite map_app. apply Forall_app. split; [exact Hfs|]. constructor; [exact Hf|constructor]. }
  assert (Hnz : Nat.eqb (length f) 0 = false) by (unfold len in Hf; lia).
  unfold k_do. rewrite Ho, Hnz, (is_line_end_spec f Hf). cbn [bind].
  unfold step_term, step_inc. rewrite He.
  destruct st as [eb es sk co]. cbn [ebuf esize skipNext cutOff] in *.
  destruct (first_unfit (kmax c) 1 (map fst hist)) as [[p u]|] eqn:Eu; cbn [opt_is_none].
  - (* an earlier chunk of the line did not fit: skipping until the line ends *)
    pose proof (first_unfit_some_max _ _ _ _ Eu) as Hmax.
    destruct Hinv as [Hsk Hc]. subst sk. cbn [andb]. rewrite orb_false_r.
    destruct (ends_nl f) eqn:Hend; cbn [negb andb].
    + (* the line ends *)
      unfold final_step. rewrite Eu. rewrite Hend.
      destruct (kcut c) eqn:Hcut.
      * destruct Hc as [Hco Heb]. subst co. cbn [negb andb]. rewrite orb_true_r.
        subst eb. rewrite k_reset_quote. cbn [bind].
        eexists. split; [reflexivity|]. apply kinv_init.
      * destruct Hc as [Hco [tl Heb]]. subst co eb. cbn [negb andb]. rewrite k_reset_quote. cbn [bind].
        eexists. split; [reflexivity|]. apply kinv_init.
    + (* still inside the oversize line: nothing is appended any more *)
      assert (Hkeep : kinv c {| ebuf := eb; esize := sum_sizes hist + sz; skipNext := true; cutOff := co |}
                           (hist ++ [(f, sz)])).
      { unfold kinv. cbn [ebuf esize skipNext cutOff].
        split; [exact Hfs'|]. split; [symmetry; apply sum_sizes_snoc|].
        rewrite map_app. cbn [map fst]. rewrite (first_unfit_snoc_some _ _ _ f _ Eu).
        split; [reflexivity|exact Hc]. }
      destruct (sum_sizes hist + sz + lookahead >? ksplit c) eqn:Hsp; cbn [negb andb].
      * eexists. split; [reflexivity|]. exact Hkeep.
      * replace (kmax c =? 0) with false by lia. cbn [orb].
        eexists. split; [reflexivity|]. exact Hkeep.
  - (* everything so far fitted: the buffer is the concatenation of the bodies *)
    destruct Hinv as [Hsk [Hco Heb]]. subst sk co. cbn [negb andb]. rewrite orb_false_r.
    assert (Hlb : len eb = 1 + grow (map fst hist)).
    { rewrite Heb, klen_cons, (grow_bodies _ Hfs). reflexivity. }
    rewrite (first_unfit_snoc_none _ _ _ f Eu).
    destruct (ends_nl f || (sum_sizes hist + sz + lookahead >? ksplit c)) eqn:Hterm.
    + (* the line ends here (escaped newline, or split_event_size reached) *)
      replace (negb (ends_nl f) && negb (sum_sizes hist + sz + lookahead >? ksplit c)) with false
        by (destruct (ends_nl f), (sum_sizes hist + sz + lookahead >? ksplit c); cbn in *; congruence).
      unfold final_step. rewrite Eu.
      destruct (bodies (map fst hist)) as [|b0 bs] eqn:Eb.
      * replace (len eb >? 1) with false by (rewrite Heb; reflexivity).
        rewrite Heb, k_reset_quote. cbn [bind]. eexists. split; [reflexivity|]. apply kinv_init.
      * replace (len eb >? 1) with true by (rewrite Heb, !klen_cons; pose proof (klen_nonneg bs); lia).
        rewrite (slice_body f Hf). cbn [bind]. rewrite Heb, k_reset_quote. cbn [bind].
        eexists. split; [reflexivity|]. apply kinv_init.
    + (* a partial chunk *)
      replace (negb (ends_nl f) && negb (sum_sizes hist + sz + lookahead >? ksplit c)) with true
        by (destruct (ends_nl f), (sum_sizes hist + sz + lookahead >? ksplit c); cbn in *; congruence).
      rewrite Hlb.
      destruct ((kmax c =? 0) || (1 + grow (map fst hist) + len f <? kmax c)) eqn:Hfit; cbn [opt_is_none negb].
      * (* it fits: appended *)
        rewrite (slice_body f Hf). cbn [bind]. eexists. split; [reflexivity|].
        unfold kinv. cbn [ebuf esize skipNext cutOff]. split; [exact Hfs'|].
        split; [symmetry; apply sum_sizes_snoc|].
        rewrite map_app. cbn [map fst]. rewrite (first_unfit_snoc_none _ _ _ f Eu), Hfit.
        repeat split. rewrite Heb, bodies_app, bodies_one. reflexivity.
      * (* it does not fit: the first oversize chunk of the line *)
        assert (Hsnoc : first_unfit (kmax c) 1 (map fst (hist ++ [(f, sz)])) = Some (map fst hist, f)).
        { rewrite map_app. cbn [map fst]. rewrite (first_unfit_snoc_none _ _ _ f Eu), Hfit. reflexivity. }
        destruct (kcut c) eqn:Hcut.
        -- (* cut off: keep the whole tokens that still fit *)
           rewrite (slice_body f Hf). cbn [bind].
           replace (len (body f) - (1 + grow (map fst hist) + len f - kmax c))
             with (kmax c - 3 - len (bodies (map fst hist)))
             by (rewrite (body_len f Hf), (grow_bodies _ Hfs); lia).
           destruct (cut_keep_spec (body f) (kmax c - 3 - len (bodies (map fst hist)))) as [Hk Hle].
           rewrite Hk. cbn [bind]. rewrite (slice_to_firstn _ _ Hle). cbn [bind].
           eexists. split; [reflexivity|].
           unfold kinv. cbn [ebuf esize skipNext cutOff]. split; [exact Hfs'|].
           split; [symmetry; apply sum_sizes_snoc|]. rewrite Hsnoc, Hcut.
           repeat split. unfold cut_body. rewrite Heb. reflexivity.
        -- (* discard the whole line *)
           eexists. split; [reflexivity|].
           unfold kinv. cbn [ebuf esize skipNext cutOff]. split; [exact Hfs'|].
           split; [symmetry; apply sum_sizes_snoc|]. rewrite Hsnoc, Hcut.
           repeat split. subst eb. eauto.
Qed.

(* ---- time-out free input: every step is k_spec of the current line ------------------------------ *)
Lemma k_run_spec : forall c, konly c = false ->
  forall xs hist st, kinv c st hist -> no_timeout xs = true -> forallb frag_ok xs = true ->
  exists st', k_run c st xs = (k_spec c hist xs, Ok st').
Proof.
  intros c Ho. induction xs as [|x r IH]; intros hist st Hinv Hnt Hok.
  - exists st. reflexivity.
  - cbn [no_timeout forallb] in Hnt, Hok. apply andb_true_iff in Hnt. apply andb_true_iff in Hok.
    destruct Hnt as [Hx Hnt], Hok as [Hfx Hok]. destruct x as [|f sz]; [discriminate|].
    cbn [frag_ok] in Hfx. assert (Hf : 2 <= len f) by lia.
    destruct (k_step_spec c st hist f sz Ho Hinv Hf) as [st1 [Hdo Hinv1]].
    cbn [k_run k_spec]. rewrite Hdo. fold (step_term c hist f sz). fold (step_inc c hist f).
    destruct (step_term c hist f sz).
    + destruct (IH [] st1 Hinv1 Hnt Hok) as [st' Hr]. rewrite Hr. exists st'. reflexivity.
    + destruct (IH _ st1 Hinv1 Hnt Hok) as [st' Hr]. rewrite Hr. exists st'. reflexivity.
Qed.

(* every max_event_size (the cut treats a negative remainder as "keep nothing") *)
Theorem k8s_steps_are_spec : forall c xs,
  konly c = false -> no_timeout xs = true -> forallb frag_ok xs = true ->
  exists st, k_run c kstate0 xs = (k_spec c [] xs, Ok st).
Proof.
  intros c xs Ho Hnt Hok. apply (k_run_spec c Ho xs [] kstate0); try assumption.
  apply kinv_init.
Qed.

(* a line whose chunks all fit and which is not split: one event, the in-order concatenation *)
Theorem k8s_concat : forall c fs g,
  first_unfit (kmax c) 1 fs = None ->
  final_step c fs g =
    match bodies fs with
    | [] => (APass, 0, Some g, false)
    | _ :: _ => (APass, 0, Some (QUOTE :: bodies fs ++ body g ++ [QUOTE]), false)
    end.
Proof. intros c fs g H. unfold final_step. rewrite H. reflexivity. Qed.

Lemma quoted_id : forall g, 2 <= len g -> hd QUOTE g = QUOTE -> last g QUOTE = QUOTE ->
  QUOTE :: body g ++ [QUOTE] = g.
Proof.
  intros g Hg Hh Hl. destruct (frag_decomp g Hg) as [q [B [z [Hf Hb]]]]. rewrite Hb. subst g.
  cbn [hd] in Hh. subst q. rewrite app_comm_cons, last_last in Hl. subst z. reflexivity.
Qed.

(* with max_event_size = 0 nothing is ever oversize *)
Lemma first_unfit_zero : forall fs pre, first_unfit 0 pre fs = None.
Proof. induction fs as [|f r IH]; intros pre; [reflexivity|]. cbn [first_unfit]. cbn. rewrite IH. reflexivity. Qed.

Lemma body_quoted : forall x, body (QUOTE :: x ++ [QUOTE]) = x.
Proof. intros. unfold body. cbn [tl]. apply removelast_last. Qed.

(* ---- conservation (max_event_size = 0, no time-out): bytes out + bytes still buffered = bytes in -- *)
Fixpoint k_pending (c : kcfg) (hist : list (bytes * Z)) (xs : list kin) : list (bytes * Z) :=
  match xs with
  | [] => hist
  | KTimeout :: _ => hist
  | KChunk f sz :: r =>
      if ends_nl f || (opt_is_none (first_unfit (kmax c) 1 (map fst hist)) &&
                       (sum_sizes hist + sz + lookahead >? ksplit c))
      then k_pending c [] r else k_pending c (hist ++ [(f, sz)]) r
  end.

Lemma k_out_bytes_cons : forall o os,
  k_out_bytes (o :: os) = (match snd (fst o) with Some l => body l | None => [] end) ++ k_out_bytes os.
Proof. reflexivity. Qed.

Theorem k8s_conservation : forall c, kmax c = 0 ->
  forall xs hist, no_timeout xs = true ->
  k_out_bytes (k_spec c hist xs) ++ bodies (map fst (k_pending c hist xs))
    = bodies (map fst hist) ++ k_in_bytes xs.
Proof.
  intros c Hz. induction xs as [|x r IH]; intros hist Hnt.
  - cbn. rewrite app_nil_r. reflexivity.
  - cbn [no_timeout forallb] in Hnt. apply andb_true_iff in Hnt. destruct Hnt as [Hx Hnt].
    destruct x as [|f sz]; [discriminate|].
    cbn [k_spec k_pending]. rewrite Hz, first_unfit_zero. cbn [opt_is_none andb].
    change (k_in_bytes (KChunk f sz :: r)) with (body f ++ k_in_bytes r).
    destruct (ends_nl f || (sum_sizes hist + sz + lookahead >? ksplit c)).
    + rewrite k_out_bytes_cons, <- app_assoc, (IH [] Hnt). cbn [map bodies concat app].
      unfold final_step. rewrite Hz, first_unfit_zero.
      destruct (bodies (map fst hist)) as [|b0 bs] eqn:Eb; cbn [snd fst].
      * reflexivity.
      * rewrite (app_assoc (b0 :: bs) (body f) [QUOTE]), body_quoted, <- app_assoc. reflexivity.
    + rewrite k_out_bytes_cons. cbn [snd fst app]. rewrite (IH _ Hnt).
      rewrite map_app, bodies_app. cbn [map fst]. rewrite bodies_one, <- app_assoc. reflexivity.
Qed.

Theorem k8s_conservation_top : forall c, kmax c = 0 ->
  forall xs, no_timeout xs = true ->
  k_out_bytes (k_spec c [] xs) ++ bodies (map fst (k_pending c [] xs)) = k_in_bytes xs.
Proof. intros c Hz xs Hnt. exact (k8s_conservation c Hz xs [] Hnt). Qed.

(* ---- never panics: every configuration with max_event_size 0 or >= 4, every state reachable, ----
   ---- time-outs anywhere, every fragment that is at least the two quotes                       ---- *)
Definition kj (st : kstate) : Prop := exists tl, ebuf st = QUOTE :: tl.

Lemma kj_init : kj kstate0.
Proof. exists []. reflexivity. Qed.

Lemma k_do_total : forall c st x, kj st -> frag_ok x = true ->
  exists st' o, k_do c st x = Ok (st', o) /\ kj st'.
Proof.
  intros c st x [tl Heb] Hx. destruct st as [eb es sk co]. cbn [ebuf] in *. subst eb.
  assert (Hr : forall e s co', kj {| ebuf := [QUOTE]; esize := e; skipNext := s; cutOff := co' |})
    by (intros; exists []; reflexivity).
  destruct x as [|f sz].
  - cbn [k_do]. rewrite k_reset_quote. cbn [bind ebuf esize cutOff]. eexists _, _. split; [reflexivity|]. apply Hr.
  - cbn [frag_ok] in Hx. assert (Hf : 2 <= len f) by lia.
    assert (Hnz : Nat.eqb (length f) 0 = false) by (unfold len in Hf; lia).
    assert (Hq : forall e s co', kj {| ebuf := QUOTE :: tl; esize := e; skipNext := s; cutOff := co' |})
      by (intros; eexists; reflexivity).
    unfold k_do. destruct (konly c).
    { eexists _, _. split; [reflexivity|]. apply Hq. }
    rewrite Hnz, (is_line_end_spec f Hf). cbn [bind ebuf esize skipNext cutOff].
    destruct (negb (ends_nl f) && negb (es + sz + lookahead >? ksplit c)).
    + destruct ((kmax c =? 0) || (negb sk && (len (QUOTE :: tl) + len f <? kmax c))).
      * rewrite (slice_body f Hf). cbn [bind]. eexists _, _. split; [reflexivity|].
        eexists. reflexivity.
      * destruct (negb sk).
        -- destruct (kcut c).
           ++ rewrite (slice_body f Hf). cbn [bind].
              destruct (cut_keep_spec (body f) (len (body f) - (len (QUOTE :: tl) + len f - kmax c))) as [Hk Hle].
              rewrite Hk. cbn [bind]. rewrite (slice_to_firstn _ _ Hle). cbn [bind].
              eexists _, _. split; [reflexivity|]. eexists. reflexivity.
           ++ eexists _, _. split; [reflexivity|]. apply Hq.
        -- eexists _, _. split; [reflexivity|]. apply Hq.
    + destruct (sk && negb (ends_nl f)).
      * eexists _, _. split; [reflexivity|]. apply Hq.
      * destruct (sk && negb co).
        -- rewrite k_reset_quote. cbn [bind]. eexists _, _. split; [reflexivity|]. apply Hr.
        -- destruct ((len (QUOTE :: tl) >? 1) || co).
           ++ destruct (negb co).
              ** rewrite (slice_body f Hf). cbn [bind]. rewrite k_reset_quote. cbn [bind].
                 eexists _, _. split; [reflexivity|]. apply Hr.
              ** rewrite k_reset_quote. cbn [bind].
                 eexists _, _. split; [reflexivity|]. apply Hr.
           ++ rewrite k_reset_quote. cbn [bind].
              eexists _, _. split; [reflexivity|]. apply Hr.
Qed.

(* every configuration: any max_event_size (also 1..3 and negative values: the cut then keeps nothing) *)
Theorem k8s_total : forall c xs, forallb frag_ok xs = true ->
  is_ok (snd (k_run c kstate0 xs)) = true /\ length (fst (k_run c kstate0 xs)) = length xs.
Proof.
  intros c xs. assert (G : forall xs st, kj st -> forallb frag_ok xs = true ->
     is_ok (snd (k_run c st xs)) = true /\ length (fst (k_run c st xs)) = length xs).
  { clear xs. induction xs as [|x r IH]; intros st Hj Hok; [split; reflexivity|].
    cbn [forallb] in Hok. apply andb_true_iff in Hok. destruct Hok as [Hx Hok].
    destruct (k_do_total c st x Hj Hx) as [st' [o [Hdo Hj']]].
    cbn [k_run]. rewrite Hdo. destruct (IH st' Hj' Hok) as [H1 H2].
    destruct (k_run c st' r) as [os f]. cbn [fst snd length] in *. split; [exact H1|lia]. }
  intro Hok. apply G; [apply kj_init|exact Hok].
Qed.

(* ---- the cut event ----------------------------------------------------------------------------------- *)
Lemma first_unfit_split : forall max fs pre p u,
  first_unfit max pre fs = Some (p, u) ->
  exists rest, fs = p ++ u :: rest /\ (pre + grow p + len u <? max) = false.
Proof.
  induction fs as [|g r IH]; intros pre p u H; [discriminate|].
  cbn [first_unfit] in H. destruct ((max =? 0) || (pre + len g <? max)) eqn:Hf.
  - destruct (first_unfit max (pre + len g - 2) r) as [[p' u']|] eqn:E; [|discriminate].
    inversion H; subst p u. destruct (IH _ _ _ E) as [rest [Hr Hu]].
    exists rest. split; [rewrite Hr; reflexivity|]. cbn [grow fold_right]. fold (grow p'). lia.
  - inversion H; subst p u. exists r. split; [reflexivity|]. cbn [grow fold_right]. lia.
Qed.

(* what the passed event of an oversize line carries when cut_off_event_by_limit is on: the bodies of
   the chunks that fitted and the longest run of whole tokens of the first chunk that did not, within
   max_event_size - 3 bytes in all.  It is a PREFIX of the line (nothing after the cut is glued on),
   never longer than the byte limit the code before the repair cut at, and shorter than that by less
   than one \uXXXX sequence *)
Theorem k8s_cut_event : forall c fs g p u,
  Forall (fun f => 2 <= len f) fs ->
  first_unfit (kmax c) 1 fs = Some (p, u) -> kcut c = true ->
  final_step c fs g =
    (APass, 0, Some (QUOTE :: cut_body (kmax c) p u ++ (if ends_nl g then NLESC else []) ++ [QUOTE]), kfield c) /\
  (exists rest, bodies fs = cut_body (kmax c) p u ++ rest) /\
  len (bodies p) <= len (cut_body (kmax c) p u) <= Z.max (len (bodies p)) (kmax c - 3) /\
  (len (bodies p) <= kmax c - 3 -> kmax c - 3 - len (cut_body (kmax c) p u) < 6).
Proof.
  intros c fs g p u Hfs Hu Hcut.
  destruct (first_unfit_split _ _ _ _ _ Hu) as [rest [Hsplit Hnofit]].
  assert (Hp : Forall (fun f => 2 <= len f) p /\ 2 <= len u).
  { subst fs. apply Forall_app in Hfs. destruct Hfs as [H1 H2]. inversion H2; subst. split; assumption. }
  destruct Hp as [Hp Hlu].
  destruct (escaped_cut_keep_ok (body u) (kmax c - 3 - len (bodies p)))
    as [k [Hk [Hkle [Hklim [Hkmax _]]]]].
  assert (Hck : cut_keep (body u) (kmax c - 3 - len (bodies p)) = k).
  { unfold cut_keep. rewrite Hk. apply Nat2Z.id. }
  assert (Hlen : len (cut_body (kmax c) p u) = len (bodies p) + Z.of_nat k).
  { unfold cut_body. rewrite Hck, klen_app, klen_firstn by exact Hkle. reflexivity. }
  split; [unfold final_step; rewrite Hu, Hcut; reflexivity|]. split.
  - exists (skipn k (body u) ++ bodies rest). subst fs.
    rewrite bodies_app. change (bodies (u :: rest)) with (body u ++ bodies rest).
    unfold cut_body. rewrite Hck, <- app_assoc. f_equal.
    rewrite app_assoc, firstn_skipn. reflexivity.
  - rewrite Hlen. pose proof (klen_nonneg (bodies p)). split.
    + destruct (Z_le_gt_dec 0 (kmax c - 3 - len (bodies p))) as [Hpos|Hneg].
      * specialize (Hklim Hpos). lia.
      * (* a negative limit keeps nothing *)
        assert (k = 0%nat).
        { unfold escaped_cut_keep in Hk.
          replace (kmax c - 3 - len (bodies p) >=? len (body u)) with false in Hk
            by (pose proof (klen_nonneg (body u)); lia).
          replace (kmax c - 3 - len (bodies p) <? 0) with true in Hk by lia.
          inversion Hk. lia. }
        lia.
    + intro Hb. rewrite (grow_bodies _ Hp) in *. pose proof (body_len u Hlu).
      assert (Hin : 0 <= kmax c - 3 - grow p <= len (body u)) by lia. specialize (Hkmax Hin). lia.
Qed.

(* ---- every passed log is a valid escaped JSON string when every fragment is ------------------------- *)
Definition kw (st : kstate) : Prop := exists b, ebuf st = QUOTE :: b /\ esc_wf b = true.

Lemma body_quoted' : forall b x, body ((QUOTE :: b) ++ x ++ [QUOTE]) = b ++ x.
Proof.
  intros. cbn [app]. rewrite app_assoc. unfold body. cbn [tl]. apply removelast_last.
Qed.

Lemma k_do_wf : forall c st x, kw st -> frag_ok x = true -> frag_wf x = true ->
  exists st' o, k_do c st x = Ok (st', o) /\ kw st' /\ step_wf o = true.
Proof.
  intros c st x [b [Heb Hwb]] Hx Hwx. destruct st as [eb es sk co]. cbn [ebuf] in *. subst eb.
  assert (Hr : forall e s co', kw {| ebuf := [QUOTE]; esize := e; skipNext := s; cutOff := co' |})
    by (intros; exists []; split; reflexivity).
  assert (Hq : forall e s co', kw {| ebuf := QUOTE :: b; esize := e; skipNext := s; cutOff := co' |})
    by (intros; exists b; split; [reflexivity|exact Hwb]).
  destruct x as [|f sz].
  - cbn [k_do]. rewrite k_reset_quote. cbn [bind ebuf esize cutOff]. eexists _, _. split; [reflexivity|]. split; [apply Hr|reflexivity].
  - cbn [frag_ok frag_wf] in Hx, Hwx. assert (Hf : 2 <= len f) by lia.
    assert (Hnz : Nat.eqb (length f) 0 = false) by (unfold len in Hf; lia).
    unfold k_do. destruct (konly c).
    { eexists _, _. split; [reflexivity|]. split; [apply Hq|exact Hwx]. }
    rewrite Hnz, (is_line_end_spec f Hf). cbn [bind ebuf esize skipNext cutOff].
    destruct (negb (ends_nl f) && negb (es + sz + lookahead >? ksplit c)).
    + destruct ((kmax c =? 0) || (negb sk && (len (QUOTE :: b) + len f <? kmax c))).
      * rewrite (slice_body f Hf). cbn [bind]. eexists _, _. split; [reflexivity|]. split; [|reflexivity].
        exists (b ++ body f). split; [reflexivity|]. apply esc_wf_cat; assumption.
      * destruct (negb sk).
        -- destruct (kcut c).
           ++ rewrite (slice_body f Hf). cbn [bind].
              destruct (escaped_cut_keep_ok (body f) (len (body f) - (len (QUOTE :: b) + len f - kmax c)))
                as [k [Hk [Hle [_ [_ [Hwf _]]]]]].
              rewrite Hk. cbn [bind]. rewrite (slice_to_firstn _ _ Hle). cbn [bind].
              eexists _, _. split; [reflexivity|]. split; [|reflexivity].
              exists (b ++ firstn k (body f)). split; [reflexivity|].
              apply esc_wf_cat; [exact Hwb|apply Hwf; exact Hwx].
           ++ eexists _, _. split; [reflexivity|]. split; [apply Hq|reflexivity].
        -- eexists _, _. split; [reflexivity|]. split; [apply Hq|reflexivity].
    + destruct (sk && negb (ends_nl f)).
      * eexists _, _. split; [reflexivity|]. split; [apply Hq|reflexivity].
      * destruct (sk && negb co).
        -- rewrite k_reset_quote. cbn [bind]. eexists _, _. split; [reflexivity|]. split; [apply Hr|reflexivity].
        -- destruct ((len (QUOTE :: b) >? 1) || co).
           ++ destruct (negb co).
              ** (* the joined line *)
                 rewrite (slice_body f Hf). cbn [bind]. rewrite k_reset_quote. cbn [bind].
                 eexists _, _. split; [reflexivity|]. split; [apply Hr|].
                 unfold step_wf. cbn [fst snd]. rewrite body_quoted'. apply esc_wf_cat; assumption.
              ** (* the cut line *)
                 rewrite k_reset_quote. cbn [bind].
                 eexists _, _. split; [reflexivity|]. split; [apply Hr|].
                 unfold step_wf. cbn [fst snd]. rewrite body_quoted'.
                 apply esc_wf_cat; [exact Hwb|]. destruct (ends_nl f); reflexivity.
           ++ (* nothing buffered: the event is passed untouched *)
              rewrite k_reset_quote. cbn [bind].
              eexists _, _. split; [reflexivity|]. split; [apply Hr|exact Hwx].
Qed.

(* end to end, every configuration, time-outs anywhere, only_node or not: when every fragment is a
   valid escaped JSON string, the log field of every passed event is one too — the joined event (a
   concatenation of valid bodies), the cut event (whole tokens only, then the token \n) and the event
   passed untouched *)
Theorem k8s_cut_event_wf : forall c xs,
  forallb frag_ok xs = true -> forallb frag_wf xs = true ->
  forallb step_wf (fst (k_run c kstate0 xs)) = true.
Proof.
  intros c xs. assert (G : forall xs st, kw st -> forallb frag_ok xs = true -> forallb frag_wf xs = true ->
     forallb step_wf (fst (k_run c st xs)) = true).
  { clear xs. induction xs as [|x r IH]; intros st Hj Hok Hwf; [reflexivity|].
    cbn [forallb] in Hok, Hwf. apply andb_true_iff in Hok. apply andb_true_iff in Hwf.
    destruct Hok as [Hx Hok], Hwf as [Hwx Hwf].
    destruct (k_do_wf c st x Hj Hx Hwx) as [st' [o [Hdo [Hj' Ho]]]].
    cbn [k_run]. rewrite Hdo. specialize (IH st' Hj' Hok Hwf).
    destruct (k_run c st' r) as [os f]. cbn [fst forallb] in *. rewrite Ho, IH. reflexivity. }
  apply G. exists []. split; reflexivity.
Qed.

(* the flush-on-time-out clause does NOT hold for this action: the time-out branch only resets the
   buffer (the code says "todo: do same logic as in join plugin here to send not full logs") *)
Definition k8s_timeout_witness : list kin :=
  [KChunk [34; 97; 98; 34]%N 10; KTimeout; KChunk [34; 99; 92; 110; 34]%N 10].

Theorem k8s_timeout_flush_refuted :
  exists c xs, kmax c = 0 /\ forallb frag_ok xs = true /\
    is_ok (snd (k_run c kstate0 xs)) = true /\
    k_out_bytes (fst (k_run c kstate0 xs)) <> k_in_bytes xs /\
    k_in_bytes xs = [97; 98; 99; 92; 110]%N /\ k_out_bytes (fst (k_run c kstate0 xs)) = [99; 92; 110]%N.
Proof.
  exists {| kmax := 0; ksplit := 524288; kcut := false; kfield := false; konly := false |}, k8s_timeout_witness.
  vm_compute. repeat split; try reflexivity. intro H; discriminate H.
Qed.

(* what a time-out does instead: everything buffered is dropped - and since /repo 2e55483 skipNextEvent is cleared
   too: whatever the state was, the state after a time-out is the initial one *)
Theorem k8s_timeout_drops : forall c tl e s co,
  k_do c {| ebuf := QUOTE :: tl; esize := e; skipNext := s; cutOff := co |} KTimeout
  = Ok ({| ebuf := [QUOTE]; esize := 0; skipNext := false; cutOff := false |}, (ADiscard, 0, None, false)).
Proof. intros. cbn [k_do]. rewrite k_reset_quote. reflexivity. Qed.

(* ---- after a time-out the action is as good as new (k_spec_t) --------------------------------------
   A time-out ends the action's claim on the stream (it is not busy any more, the processor may take the next event
   from any other stream), so the steps that follow must be those of a fresh action.  True of the repaired code for
   EVERY configuration and EVERY placement of time-outs: the time-out step re-establishes the invariant of the
   empty line (kinv c st' []), whatever the line that timed out had done (also: exceeded max_event_size). *)
Lemma kinv_quote : forall c st hist, kinv c st hist -> exists tl, ebuf st = QUOTE :: tl.
Proof.
  intros c st hist [_ [_ Hst]].
  destruct (first_unfit (kmax c) 1 (map fst hist)) as [[p u]|].
  - destruct Hst as [_ Hc]. destruct (kcut c).
    + destruct Hc as [_ He]. eexists. exact He.
    + destruct Hc as [_ He]. exact He.
  - destruct Hst as [_ [_ He]]. eexists. exact He.
Qed.

Lemma k_run_spec_t : forall c, konly c = false ->
  forall xs hist st, kinv c st hist -> forallb frag_ok xs = true ->
  exists st', k_run c st xs = (k_spec_t c hist xs, Ok st').
Proof.
  intros c Ho. induction xs as [|x r IH]; intros hist st Hinv Hok.
  - exists st. reflexivity.
  - cbn [forallb] in Hok. apply andb_true_iff in Hok. destruct Hok as [Hfx Hok].
    destruct x as [|f sz].
    + (* time-out: buffer, size, skipNext and cutOff are all reset: the invariant of the empty line *)
      destruct (kinv_quote c st hist Hinv) as [tl He].
      destruct st as [eb es sk co]. cbn [ebuf] in He. subst eb.
      cbn [k_run k_spec_t]. rewrite k8s_timeout_drops.
      destruct (IH [] _ (kinv_init c) Hok) as [st' Hr]. rewrite Hr. exists st'. reflexivity.
    + cbn [frag_ok] in Hfx. assert (Hf : 2 <= len f) by lia.
      destruct (k_step_spec c st hist f sz Ho Hinv Hf) as [st1 [Hdo Hinv1]].
      cbn [k_run k_spec_t]. rewrite Hdo. fold (step_term c hist f sz). fold (step_inc c hist f).
      destruct (step_term c hist f sz).
      * destruct (IH [] st1 Hinv1 Hok) as [st' Hr]. rewrite Hr. exists st'. reflexivity.
      * destruct (IH _ st1 Hinv1 Hok) as [st' Hr]. rewrite Hr. exists st'. reflexivity.
Qed.

Theorem k8s_timeout_fresh : forall c xs,
  konly c = false -> forallb frag_ok xs = true ->
  exists st, k_run c kstate0 xs = (k_spec_t c [] xs, Ok st).
Proof.
  intros c xs Ho Hok. apply (k_run_spec_t c Ho xs [] kstate0); try assumption.
  apply kinv_init.
Qed.

(* k_spec_t is k_spec between time-outs: what follows a time-out is specified exactly like a sequence given to an
   action that has just been started *)
Theorem k_spec_t_restart : forall c hist xs ys,
  no_timeout xs = true ->
  k_spec_t c hist (xs ++ KTimeout :: ys) = k_spec c hist xs ++ (ADiscard, 0, None, false) :: k_spec_t c [] ys.
Proof.
  intros c hist xs. revert hist. induction xs as [|x r IH]; intros hist ys Hnt; [reflexivity|].
  cbn [no_timeout forallb] in Hnt. apply andb_true_iff in Hnt. destruct Hnt as [Hx Hnt].
  destruct x as [|f sz]; [discriminate|].
  cbn [app k_spec_t k_spec].
  destruct (ends_nl f || (opt_is_none (first_unfit (kmax c) 1 (map fst hist)) &&
                          (sum_sizes hist + sz + lookahead >? ksplit c))).
  - rewrite (IH [] ys Hnt). reflexivity.
  - rewrite (IH _ ys Hnt). reflexivity.
Qed.

(* the behaviour BEFORE the repair is excluded.  The witness of the former finding C15-k8s-timeout-keeps-skip:
   max_event_size 9; "0123456789" (does not fit: the rest of its line is to be skipped), time-out, "ok\n" (a complete
   line), "next\n".  The old code kept skipNextEvent across the time-out and answered Collapse, Discard, DISCARD, Pass
   (the line "ok" was lost); now the steps are those of k_spec_t: Collapse, Discard, Pass, Pass, both lines untouched *)
Definition k8s_fresh_witness : list kin :=
  [KChunk [34; 48; 49; 50; 51; 52; 53; 54; 55; 56; 57; 34]%N 50; KTimeout;
   KChunk [34; 111; 107; 92; 110; 34]%N 43; KChunk [34; 110; 101; 120; 116; 92; 110; 34]%N 45].
Definition k8s_fresh_cfg : kcfg := {| kmax := 9; ksplit := 524288; kcut := false; kfield := false; konly := false |}.

Example k8s_timeout_old_keeps_skip_excluded :
  konly k8s_fresh_cfg = false /\ forallb frag_ok k8s_fresh_witness = true /\
  k_run k8s_fresh_cfg kstate0 k8s_fresh_witness = (k_spec_t k8s_fresh_cfg [] k8s_fresh_witness, Ok kstate0) /\
  fst (k_run k8s_fresh_cfg kstate0 k8s_fresh_witness) =
    [(ACollapse, 1, None, false); (ADiscard, 0, None, false);
     (APass, 0, Some [34; 111; 107; 92; 110; 34]%N, false);
     (APass, 0, Some [34; 110; 101; 120; 116; 92; 110; 34]%N, false)] /\
  map (fun o : kstep => fst (fst (fst o))) (fst (k_run k8s_fresh_cfg kstate0 k8s_fresh_witness))
    <> [ACollapse; ADiscard; ADiscard; APass].
Proof. vm_compute. repeat split; try reflexivity. intro H; discriminate H. Qed.

(* ---- the raw text behind the escaped fragment: insane-json's escaper is an oracle ----------------- *)
Definition last_is_nl (raw : bytes) : bool :=
  match rev raw with c :: _ => N.eqb c 10%N | [] => false end.

Section RawLevel.
  Variable escaped : bytes -> bytes.       (* AppendEscapedString of a string node holding [raw] *)
  Hypothesis escaped_quoted : forall raw, 2 <= len (escaped raw).
  Hypothesis escaped_newline : forall raw, ends_nl (escaped raw) = last_is_nl raw.

  Theorem line_end_raw : forall raw, is_line_end (escaped raw) = Ok (last_is_nl raw).
  Proof. intros raw. rewrite is_line_end_spec by apply escaped_quoted. rewrite escaped_newline. reflexivity. Qed.
End RawLevel.
