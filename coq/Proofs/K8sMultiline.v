(* Proofs about Model/K8sMultiline.v: the line-end test reads the JSON string tokens correctly, the
   state machine never panics, and on time-out free input every step is the function [k_spec] of
   the chunks of the current line (in-order concatenation, exact size rule, lines independent). *)
From Verif Require Import Base.Sx Base.GoSem Model.Join Model.K8sMultiline.
From Coq Require Import Lia ZifyBool.

(* ---- lengths, slices --------------------------------------------------------------------------- *)
Lemma klen_app : forall {A} (a b : list A), len (a ++ b) = len a + len b.
Proof. intros. unfold len. rewrite app_length. lia. Qed.
Lemma klen_cons : forall {A} (x : A) l, len (x :: l) = 1 + len l.
Proof. intros. unfold len. cbn [length]. lia. Qed.
Lemma klen_nonneg : forall {A} (l : list A), 0 <= len l.
Proof. intros. unfold len. lia. Qed.
Lemma klen_firstn : forall {A} n (l : list A), (n <= length l)%nat -> len (firstn n l) = Z.of_nat n.
Proof. intros. unfold len. rewrite firstn_length. lia. Qed.

Lemma frag_decomp : forall (f : bytes), 2 <= len f -> exists q B z, f = q :: B ++ [z] /\ body f = B.
Proof.
  intros f H. destruct f as [|q tl]; [unfold len in H; cbn in H; lia|].
  destruct (exists_last (l := tl)) as [B [z Hz]].
  { intro E; subst tl. unfold len in H; cbn in H; lia. }
  exists q, B, z. subst tl. split; [reflexivity|]. unfold body. cbn [tl]. apply removelast_last.
Qed.

Lemma body_len : forall f, 2 <= len f -> len (body f) = len f - 2.
Proof.
  intros f H. destruct (frag_decomp f H) as [q [B [z [Hf Hb]]]]. rewrite Hb, Hf.
  rewrite klen_cons, klen_app. unfold len. cbn [length]. lia.
Qed.

Lemma slice_body : forall f, 2 <= len f -> slice f 1 (len f - 1) = Ok (body f).
Proof.
  intros f H. destruct (frag_decomp f H) as [q [B [z [Hf Hb]]]]. rewrite Hb. subst f.
  unfold slice. rewrite klen_cons, klen_app.
  assert (Hz : len [z] = 1) by reflexivity. rewrite Hz.
  pose proof (klen_nonneg B).
  replace ((0 <=? 1) && (1 <=? 1 + (len B + 1) - 1) && (1 + (len B + 1) - 1 <=? 1 + (len B + 1))) with true by lia.
  f_equal. change (Z.to_nat 1) with 1%nat. cbn [skipn].
  replace (Z.to_nat (1 + (len B + 1) - 1 - 1)) with (length B) by (unfold len; lia).
  rewrite firstn_app, Nat.sub_diag, firstn_all. cbn. apply app_nil_r.
Qed.

(* the cut: fragment[1 : 1+k] is the first k bytes of the body *)
Lemma slice_body_prefix : forall f k, 2 <= len f -> 0 <= k <= len f - 2 ->
  slice f 1 (1 + k) = Ok (firstn (Z.to_nat k) (body f)).
Proof.
  intros f k H Hk. destruct (frag_decomp f H) as [q [B [z [Hf Hb]]]]. rewrite Hb. subst f.
  unfold slice. rewrite klen_cons, klen_app in *.
  assert (Hz : len [z] = 1) by reflexivity. rewrite Hz in *.
  replace ((0 <=? 1) && (1 <=? 1 + k) && (1 + k <=? 1 + (len B + 1))) with true by lia.
  f_equal. change (Z.to_nat 1) with 1%nat. cbn [skipn].
  replace (1 + k - 1) with k by lia.
  rewrite firstn_app. replace (Z.to_nat k - length B)%nat with 0%nat by (unfold len in *; lia).
  cbn. apply app_nil_r.
Qed.

Lemma slice_to_one : forall (tl : bytes), slice_to (QUOTE :: tl) 1 = Ok [QUOTE].
Proof.
  intros. unfold slice_to, slice. rewrite klen_cons. pose proof (klen_nonneg tl).
  replace ((0 <=? 0) && (0 <=? 1) && (1 <=? 1 + len tl)) with true by lia. reflexivity.
Qed.

(* ---- the line-end test -------------------------------------------------------------------------- *)
Fixpoint lead_bs (l : bytes) : nat :=
  match l with c :: r => if N.eqb c BSLASH then S (lead_bs r) else O | [] => O end.
Fixpoint par (k : nat) : bool := match k with O => false | S k' => negb (par k') end.

Lemma odd_par : forall k, Z.odd (Z.of_nat k) = par k.
Proof.
  induction k as [|k IH]; [reflexivity|].
  rewrite Nat2Z.inj_succ, Z.odd_succ, <- Z.negb_odd, IH. reflexivity.
Qed.

Lemma esc_scan_app : forall a b e l,
  esc_scan (a ++ b) e l = esc_scan b (fst (esc_scan a e l)) (snd (esc_scan a e l)).
Proof.
  induction a as [|c a IH]; intros b e l; [reflexivity|].
  cbn [app esc_scan]. destruct e; [apply IH|]. destruct (N.eqb c BSLASH); apply IH.
Qed.

(* after any prefix read from a non-escape state, "inside an escape" = odd number of trailing backslashes *)
Lemma esc_state : forall P l, fst (esc_scan P false l) = par (lead_bs (rev P)).
Proof.
  intros P. induction P as [|c P IH] using rev_ind; intros l; [reflexivity|].
  rewrite esc_scan_app, rev_app_distr. cbn [rev app lead_bs].
  rewrite IH. cbn [esc_scan].
  destruct (par (lead_bs (rev P))) eqn:E; destruct (N.eqb c BSLASH); cbn [fst par]; rewrite ?E; reflexivity.
Qed.

Lemma esc_last_not_n : forall P c e l, N.eqb c CH_n = false -> snd (esc_scan (P ++ [c]) e l) = false.
Proof.
  intros P c e l Hc. rewrite esc_scan_app. cbn [esc_scan].
  destruct (fst (esc_scan P e l)); cbn [snd]; [exact Hc|]. destruct (N.eqb c BSLASH); reflexivity.
Qed.

Lemma esc_last_n : forall P, snd (esc_scan (P ++ [CH_n]) false false) = par (lead_bs (rev P)).
Proof.
  intros P. rewrite esc_scan_app, esc_state. cbn [esc_scan].
  destruct (par (lead_bs (rev P))); reflexivity.
Qed.

Lemma idx_cons_app : forall (q : byte) (P t : bytes) j c,
  nth_error P j = Some c -> idx (q :: P ++ t) (Z.of_nat (S j)) = Ok c.
Proof.
  intros q P t j c H. unfold idx.
  assert (Hj : (j < length P)%nat) by (apply nth_error_Some; congruence).
  rewrite klen_cons, klen_app. pose proof (klen_nonneg t).
  replace ((0 <=? Z.of_nat (S j)) && (Z.of_nat (S j) <? 1 + (len P + len t))) with true by (unfold len; lia).
  rewrite Nat2Z.id. cbn [nth_error]. rewrite nth_error_app1 by exact Hj. rewrite H. reflexivity.
Qed.

Lemma firstn_S_nth : forall (P : bytes) j c, nth_error P j = Some c -> firstn (S j) P = firstn j P ++ [c].
Proof.
  induction P as [|x P IH]; intros j c H; destruct j; cbn in *; try discriminate.
  - inversion H; reflexivity.
  - f_equal. apply IH. exact H.
Qed.

Lemma count_slashes_spec : forall (q : byte) (P t : bytes) j fuel acc,
  (j <= length P)%nat -> (j < fuel)%nat ->
  count_slashes fuel (q :: P ++ t) (Z.of_nat j) acc = Ok (acc + Z.of_nat (lead_bs (rev (firstn j P)))).
Proof.
  intros q P t. induction j as [|j IH]; intros fuel acc Hj Hf; (destruct fuel as [|fuel]; [lia|]).
  - cbn [count_slashes]. cbn. f_equal. lia.
  - cbn [count_slashes]. replace (Z.of_nat (S j) >? 0) with true by lia.
    destruct (nth_error P j) as [c|] eqn:Ec; [|apply nth_error_None in Ec; lia].
    rewrite (idx_cons_app q P t j c Ec). cbn [bind].
    rewrite (firstn_S_nth P j c Ec), rev_app_distr. cbn [rev app lead_bs].
    destruct (N.eqb c BSLASH).
    + replace (Z.of_nat (S j) - 1) with (Z.of_nat j) by lia.
      rewrite IH by lia. f_equal. lia.
    + f_equal. cbn. lia.
Qed.

Theorem is_line_end_spec : forall f, 2 <= len f -> is_line_end f = Ok (ends_nl f).
Proof.
  intros f H. destruct (frag_decomp f H) as [q [B [z [Hf Hb]]]].
  unfold ends_nl. rewrite Hb. subst f. unfold is_line_end.
  rewrite klen_cons, klen_app. assert (Hz : len [z] = 1) by reflexivity. rewrite Hz.
  replace (1 + (len B + 1) - 2) with (len B) by lia.
  destruct (len B <? 2) eqn:Hsmall.
  - (* fewer than two bytes inside the quotes: no escape pair fits *)
    destruct B as [|b1 [|b2 B']]; [reflexivity| |unfold len in Hsmall; cbn [length] in Hsmall; lia].
    cbn [esc_scan]. destruct (N.eqb b1 BSLASH); reflexivity.
  - destruct (exists_last (l := B)) as [P [c HB]].
    { intro E; subst B. cbn in Hsmall. discriminate. }
    subst B. rewrite klen_app in *. assert (Hc1 : len [c] = 1) by reflexivity. rewrite Hc1 in *.
    assert (Hidx : idx (q :: (P ++ [c]) ++ [z]) (len P + 1) = Ok c).
    { rewrite <- app_assoc. cbn [app].
      replace (len P + 1) with (Z.of_nat (S (length P))) by (unfold len; lia).
      replace (q :: P ++ [c; z]) with (q :: (P ++ [c]) ++ [z]) by (rewrite <- app_assoc; reflexivity).
      apply idx_cons_app. rewrite nth_error_app2 by lia. rewrite Nat.sub_diag. reflexivity. }
    rewrite Hidx. cbn [bind].
    destruct (N.eqb c CH_n) eqn:Hc; cbn [negb].
    + apply N.eqb_eq in Hc. subst c. rewrite esc_last_n.
      replace (len P + 1 - 1) with (Z.of_nat (length P)) by (unfold len; lia).
      rewrite <- app_assoc. cbn [app].
      rewrite count_slashes_spec by (unfold len in *; lia).
      cbn [bind]. rewrite firstn_all. cbn [Z.add]. rewrite odd_par. reflexivity.
    + rewrite esc_last_not_n by exact Hc. reflexivity.
Qed.

(* stated on the tokens: a fragment "…<odd number of backslashes>n" ends the line, a literal
   backslash followed by n (an even, non-zero number of backslashes before the n) does not *)
Corollary ends_nl_tokens : forall (P : bytes),
  ends_nl (QUOTE :: (P ++ [CH_n]) ++ [QUOTE]) = par (lead_bs (rev P)).
Proof.
  intros P. unfold ends_nl, body. cbn [tl]. rewrite removelast_last. apply esc_last_n.
Qed.

(* ---- first_unfit along a growing line ----------------------------------------------------------- *)
Definition grow (fs : list bytes) : Z := fold_right (fun f a => len f - 2 + a) 0 fs.

Lemma bodies_app : forall a b, bodies (a ++ b) = bodies a ++ bodies b.
Proof. intros. unfold bodies. rewrite map_app, concat_app. reflexivity. Qed.

Lemma bodies_one : forall f, bodies [f] = body f.
Proof. intros. unfold bodies. cbn. apply app_nil_r. Qed.

Lemma grow_bodies : forall fs, Forall (fun f => 2 <= len f) fs -> len (bodies fs) = grow fs.
Proof.
  induction fs as [|f r IH]; intro H; [reflexivity|]. inversion H; subst.
  change (bodies (f :: r)) with (body f ++ bodies r). rewrite klen_app, body_len, IH by assumption.
  reflexivity.
Qed.

Lemma first_unfit_snoc_none : forall max fs pre f,
  first_unfit max pre fs = None ->
  first_unfit max pre (fs ++ [f]) =
    if (max =? 0) || (pre + grow fs + len f <? max) then None else Some (fs, f).
Proof.
  induction fs as [|g r IH]; intros pre f H.
  - cbn [app first_unfit grow fold_right]. replace (pre + 0 + len f) with (pre + len f) by lia.
    destruct ((max =? 0) || (pre + len f <? max)); reflexivity.
  - cbn [app first_unfit] in *. destruct ((max =? 0) || (pre + len g <? max)); [|discriminate].
    destruct (first_unfit max (pre + len g - 2) r) as [[p u]|] eqn:E; [discriminate|].
    rewrite (IH _ f E). cbn [grow fold_right]. fold (grow r).
    replace (pre + len g - 2 + grow r + len f) with (pre + (len g - 2 + grow r) + len f) by lia.
    destruct ((max =? 0) || (pre + (len g - 2 + grow r) + len f <? max)); reflexivity.
Qed.

Lemma first_unfit_snoc_some : forall max fs pre f pu,
  first_unfit max pre fs = Some pu -> first_unfit max pre (fs ++ [f]) = Some pu.
Proof.
  induction fs as [|g r IH]; intros pre f pu H; [discriminate|].
  cbn [app first_unfit] in *. destruct ((max =? 0) || (pre + len g <? max)); [|exact H].
  destruct (first_unfit max (pre + len g - 2) r) as [[p u]|] eqn:E; [|discriminate].
  rewrite (IH _ f _ E). exact H.
Qed.

Lemma first_unfit_some_max : forall max fs pre pu, first_unfit max pre fs = Some pu -> max <> 0.
Proof.
  induction fs as [|g r IH]; intros pre pu H; [discriminate|].
  cbn [first_unfit] in H. destruct ((max =? 0) || (pre + len g <? max)) eqn:Hf.
  - destruct (first_unfit max (pre + len g - 2) r) as [[p u]|] eqn:E; [|discriminate]. eapply IH; exact E.
  - lia.
Qed.

Lemma sum_sizes_snoc : forall h f sz, sum_sizes (h ++ [(f, sz)]) = sum_sizes h + sz.
Proof.
  induction h as [|x h IH]; intros; cbn [app sum_sizes fold_right snd]; [lia|].
  fold (sum_sizes (h ++ [(f, sz)])). fold (sum_sizes h). rewrite IH. lia.
Qed.

(* ---- the state against the chunks of the current line ------------------------------------------- *)
Definition kinv (c : kcfg) (st : kstate) (hist : list (bytes * Z)) : Prop :=
  Forall (fun f => 2 <= len f) (map fst hist) /\ esize st = sum_sizes hist /\
  match first_unfit (kmax c) 1 (map fst hist) with
  | None => skipNext st = false /\ cutOff st = false /\ ebuf st = QUOTE :: bodies (map fst hist) /\
            (kmax c <> 0 -> len (ebuf st) <= kmax c - 3)
  | Some (p, u) =>
      skipNext st = true /\
      if kcut c
      then cutOff st = true /\ len (ebuf st) = kmax c - 2 /\
           ebuf st = QUOTE :: firstn (Z.to_nat (kmax c - 3)) (bodies (p ++ [u]))
      else cutOff st = false /\ exists tl, ebuf st = QUOTE :: tl
  end.

Lemma kinv_init : forall c, kmax_ok c = true ->
  kinv c {| ebuf := [QUOTE]; esize := 0; skipNext := false; cutOff := false |} [].
Proof.
  intros c Hm. unfold kinv. cbn. repeat split; try constructor.
  intro Hz. unfold kmax_ok in Hm. unfold len. cbn. lia.
Qed.

Definition step_term (c : kcfg) (hist : list (bytes * Z)) (f : bytes) (sz : Z) : bool :=
  ends_nl f || (opt_is_none (first_unfit (kmax c) 1 (map fst hist)) &&
                (sum_sizes hist + sz + lookahead >? ksplit c)).
Definition step_inc (c : kcfg) (hist : list (bytes * Z)) (f : bytes) : Z :=
  if opt_is_none (first_unfit (kmax c) 1 (map fst hist)) &&
     negb (opt_is_none (first_unfit (kmax c) 1 (map fst hist ++ [f]))) then 1 else 0.

Lemma k_reset_quote : forall tl e s co,
  k_reset {| ebuf := QUOTE :: tl; esize := e; skipNext := s; cutOff := co |}
  = Ok {| ebuf := [QUOTE]; esize := 0; skipNext := s; cutOff := false |}.
Proof. intros. unfold k_reset. cbn [ebuf skipNext]. rewrite slice_to_one. reflexivity. Qed.

Lemma firstn_bodies_cut : forall (a b : bytes) n,
  (length a <= n)%nat -> firstn n (a ++ b) = a ++ firstn (n - length a) b.
Proof.
  intros a b n H. rewrite firstn_app. rewrite firstn_all2 by exact H. reflexivity.
Qed.

Lemma k_step_spec : forall c st hist f sz,
  kmax_ok c = true -> konly c = false -> kinv c st hist -> 2 <= len f ->
  exists st',
    k_do c st (KChunk f sz) =
      Ok (st', if step_term c hist f sz then final_step c (map fst hist) f
               else (ACollapse, step_inc c hist f, None, false)) /\
    kinv c st' (if step_term c hist f sz then [] else hist ++ [(f, sz)]).
Proof.
  intros c st hist f sz Hm Ho [Hfs [He Hinv]] Hf.
  assert (Hfs' : Forall (fun f => 2 <= len f) (map fst (hist ++ [(f, sz)]))).
  { rewrite map_app. apply Forall_app. split; [exact Hfs|]. constructor; [exact Hf|constructor]. }
  assert (Hnz : Nat.eqb (length f) 0 = false) by (unfold len in Hf; lia).
  unfold k_do. rewrite Ho, Hnz, (is_line_end_spec f Hf). cbn [bind].
  unfold step_term, step_inc. rewrite He.
  destruct st as [eb es sk co]. cbn [ebuf esize skipNext cutOff] in *.
  destruct (first_unfit (kmax c) 1 (map fst hist)) as [[p u]|] eqn:Eu; cbn [opt_is_none].
  - (* an earlier chunk of the line did not fit: skipping until the line ends *)
    pose proof (first_unfit_some_max _ _ _ _ Eu) as Hmax.
    destruct Hinv as [Hsk Hc]. subst sk. cbn [andb]. rewrite orb_false_r.
    destruct (ends_nl f) eqn:Hend; cbn [negb andb].
    + (* the line ends *)
      unfold final_step. rewrite Eu. rewrite Hend.
      destruct (kcut c) eqn:Hcut.
      * destruct Hc as [Hco [Hlen Heb]]. subst co. cbn [negb andb].
        replace (len eb >? 1) with true by (unfold kmax_ok in Hm; lia).
        clear Hlen. subst eb. rewrite k_reset_quote. cbn [bind].
        eexists. split; [reflexivity|]. apply kinv_init. exact Hm.
      * destruct Hc as [Hco [tl Heb]]. subst co eb. cbn [negb andb]. rewrite k_reset_quote. cbn [bind].
        eexists. split; [reflexivity|]. apply kinv_init. exact Hm.
    + (* still inside the oversize line *)
      assert (Hkeep : forall eb' co',
                (if kcut c then co' = true /\ len eb' = kmax c - 2 /\
                                eb' = QUOTE :: firstn (Z.to_nat (kmax c - 3)) (bodies (p ++ [u]))
                 else co' = false /\ exists tl, eb' = QUOTE :: tl) ->
                kinv c {| ebuf := eb'; esize := sum_sizes hist + sz; skipNext := true; cutOff := co' |}
                     (hist ++ [(f, sz)])).
      { intros eb' co' H. unfold kinv. cbn [ebuf esize skipNext cutOff].
        split; [exact Hfs'|]. split; [symmetry; apply sum_sizes_snoc|].
        rewrite map_app. cbn [map fst]. rewrite (first_unfit_snoc_some _ _ _ f _ Eu).
        split; [reflexivity|exact H]. }
      destruct (sum_sizes hist + sz + lookahead >? ksplit c) eqn:Hsp; cbn [negb andb].
      * eexists. split; [reflexivity|]. apply Hkeep. exact Hc.
      * destruct (kcut c) eqn:Hcut.
        -- destruct Hc as [Hco [Hlen Heb]].
           replace ((kmax c =? 0) || (len eb + len f <? kmax c)) with false by lia.
           eexists. split; [reflexivity|]. apply Hkeep. auto.
        -- destruct Hc as [Hco [tl Heb]].
           destruct ((kmax c =? 0) || (len eb + len f <? kmax c)).
           ++ rewrite (slice_body f Hf). cbn [bind]. eexists. split; [reflexivity|].
              apply Hkeep. split; [exact Hco|]. subst eb. eexists. reflexivity.
           ++ eexists. split; [reflexivity|]. apply Hkeep. split; [exact Hco|]. eauto.
  - (* everything so far fitted: the buffer is the concatenation of the bodies *)
    destruct Hinv as [Hsk [Hco [Heb Hbound]]]. subst sk co. cbn [negb andb].
    assert (Hlb : len eb = 1 + grow (map fst hist)).
    { rewrite Heb, klen_cons, (grow_bodies _ Hfs). reflexivity. }
    rewrite (first_unfit_snoc_none _ _ _ f Eu).
    destruct (ends_nl f || (sum_sizes hist + sz + lookahead >? ksplit c)) eqn:Hterm.
    + (* the line ends here (escaped newline, or split_event_size reached) *)
      replace (negb (ends_nl f) && negb (sum_sizes hist + sz + lookahead >? ksplit c)) with false
        by (destruct (ends_nl f), (sum_sizes hist + sz + lookahead >? ksplit c); cbn in *; congruence).
      unfold final_step. rewrite Eu.
      destruct (bodies (map fst hist)) as [|b0 bs] eqn:Eb.
      * replace (len eb >? 1) with false by (rewrite Heb; reflexivity).
        rewrite Heb, k_reset_quote. cbn [bind]. eexists. split; [reflexivity|]. apply kinv_init. exact Hm.
      * replace (len eb >? 1) with true by (rewrite Heb, !klen_cons; pose proof (klen_nonneg bs); lia).
        rewrite (slice_body f Hf). cbn [bind]. rewrite Heb, k_reset_quote. cbn [bind].
        eexists. split; [reflexivity|]. apply kinv_init. exact Hm.
    + (* a partial chunk *)
      replace (negb (ends_nl f) && negb (sum_sizes hist + sz + lookahead >? ksplit c)) with true
        by (destruct (ends_nl f), (sum_sizes hist + sz + lookahead >? ksplit c); cbn in *; congruence).
      rewrite Hlb.
      destruct ((kmax c =? 0) || (1 + grow (map fst hist) + len f <? kmax c)) eqn:Hfit; cbn [opt_is_none negb].
      * (* it fits: appended *)
        rewrite (slice_body f Hf). cbn [bind]. eexists. split; [reflexivity|].
        unfold kinv. cbn [ebuf esize skipNext cutOff]. split; [exact Hfs'|].
        split; [symmetry; apply sum_sizes_snoc|].
        rewrite map_app. cbn [map fst]. rewrite (first_unfit_snoc_none _ _ _ f Eu), Hfit.
        repeat split.
        -- rewrite Heb, bodies_app, bodies_one. reflexivity.
        -- intro Hz. rewrite klen_app, Hlb, (body_len f Hf). lia.
      * (* it does not fit: the first oversize chunk of the line *)
        assert (Hmax : kmax c <> 0) by lia. specialize (Hbound Hmax).
        assert (Hsnoc : first_unfit (kmax c) 1 (map fst (hist ++ [(f, sz)])) = Some (map fst hist, f)).
        { rewrite map_app. cbn [map fst]. rewrite (first_unfit_snoc_none _ _ _ f Eu), Hfit. reflexivity. }
        destruct (kcut c) eqn:Hcut.
        -- (* cut off: keep what still fits *)
           replace (len f - 1 - (1 + grow (map fst hist) + len f - kmax c))
             with (1 + (kmax c - 3 - grow (map fst hist))) by lia.
           rewrite (slice_body_prefix f _ Hf) by lia. cbn [bind].
           eexists. split; [reflexivity|].
           unfold kinv. cbn [ebuf esize skipNext cutOff]. split; [exact Hfs'|].
           split; [symmetry; apply sum_sizes_snoc|]. rewrite Hsnoc, Hcut.
           assert (Hgl : Z.of_nat (length (bodies (map fst hist))) = grow (map fst hist)).
           { rewrite <- (grow_bodies _ Hfs). reflexivity. }
           repeat split.
           ++ rewrite klen_app, Hlb, klen_firstn; [lia|].
              pose proof (body_len f Hf) as Hbl. unfold len in *. lia.
           ++ rewrite Heb, bodies_app, bodies_one. cbn [app]. f_equal.
              rewrite firstn_bodies_cut by lia. f_equal. f_equal. lia.
        -- (* discard the whole line *)
           eexists. split; [reflexivity|].
           unfold kinv. cbn [ebuf esize skipNext cutOff]. split; [exact Hfs'|].
           split; [symmetry; apply sum_sizes_snoc|]. rewrite Hsnoc, Hcut.
           repeat split. subst eb. eauto.
Qed.

(* ---- time-out free input: every step is k_spec of the current line ------------------------------ *)
Lemma k_run_spec : forall c, kmax_ok c = true -> konly c = false ->
  forall xs hist st, kinv c st hist -> no_timeout xs = true -> forallb frag_ok xs = true ->
  exists st', k_run c st xs = (k_spec c hist xs, Ok st').
Proof.
  intros c Hm Ho. induction xs as [|x r IH]; intros hist st Hinv Hnt Hok.
  - exists st. reflexivity.
  - cbn [no_timeout forallb] in Hnt, Hok. apply andb_true_iff in Hnt. apply andb_true_iff in Hok.
    destruct Hnt as [Hx Hnt], Hok as [Hfx Hok]. destruct x as [|f sz]; [discriminate|].
    cbn [frag_ok] in Hfx. assert (Hf : 2 <= len f) by lia.
    destruct (k_step_spec c st hist f sz Hm Ho Hinv Hf) as [st1 [Hdo Hinv1]].
    cbn [k_run k_spec]. rewrite Hdo. fold (step_term c hist f sz). fold (step_inc c hist f).
    destruct (step_term c hist f sz).
    + destruct (IH [] st1 Hinv1 Hnt Hok) as [st' Hr]. rewrite Hr. exists st'. reflexivity.
    + destruct (IH _ st1 Hinv1 Hnt Hok) as [st' Hr]. rewrite Hr. exists st'. reflexivity.
Qed.

Theorem k8s_steps_are_spec : forall c xs,
  kmax_ok c = true -> konly c = false -> no_timeout xs = true -> forallb frag_ok xs = true ->
  exists st, k_run c kstate0 xs = (k_spec c [] xs, Ok st).
Proof.
  intros c xs Hm Ho Hnt Hok. apply (k_run_spec c Hm Ho xs [] kstate0); try assumption.
  apply kinv_init. exact Hm.
Qed.

(* a line whose chunks all fit and which is not split: one event, the in-order concatenation *)
Theorem k8s_concat : forall c fs g,
  first_unfit (kmax c) 1 fs = None ->
  final_step c fs g =
    match bodies fs with
    | [] => (APass, 0, Some g, false)
    | _ :: _ => (APass, 0, Some (QUOTE :: bodies fs ++ body g ++ [QUOTE]), false)
    end.
Proof. intros c fs g H. unfold final_step. rewrite H. reflexivity. Qed.

Lemma quoted_id : forall g, 2 <= len g -> hd QUOTE g = QUOTE -> last g QUOTE = QUOTE ->
  QUOTE :: body g ++ [QUOTE] = g.
Proof.
  intros g Hg Hh Hl. destruct (frag_decomp g Hg) as [q [B [z [Hf Hb]]]]. rewrite Hb. subst g.
  cbn [hd] in Hh. subst q. rewrite app_comm_cons, last_last in Hl. subst z. reflexivity.
Qed.

(* with max_event_size = 0 nothing is ever oversize *)
Lemma first_unfit_zero : forall fs pre, first_unfit 0 pre fs = None.
Proof. induction fs as [|f r IH]; intros pre; [reflexivity|]. cbn [first_unfit]. cbn. rewrite IH. reflexivity. Qed.

Lemma body_quoted : forall x, body (QUOTE :: x ++ [QUOTE]) = x.
Proof. intros. unfold body. cbn [tl]. apply removelast_last. Qed.

(* ---- conservation (max_event_size = 0, no time-out): bytes out + bytes still buffered = bytes in -- *)
Fixpoint k_pending (c : kcfg) (hist : list (bytes * Z)) (xs : list kin) : list (bytes * Z) :=
  match xs with
  | [] => hist
  | KTimeout :: _ => hist
  | KChunk f sz :: r =>
      if ends_nl f || (opt_is_none (first_unfit (kmax c) 1 (map fst hist)) &&
                       (sum_sizes hist + sz + lookahead >? ksplit c))
      then k_pending c [] r else k_pending c (hist ++ [(f, sz)]) r
  end.

Lemma k_out_bytes_cons : forall o os,
  k_out_bytes (o :: os) = (match snd (fst o) with Some l => body l | None => [] end) ++ k_out_bytes os.
Proof. reflexivity. Qed.

Theorem k8s_conservation : forall c, kmax c = 0 ->
  forall xs hist, no_timeout xs = true ->
  k_out_bytes (k_spec c hist xs) ++ bodies (map fst (k_pending c hist xs))
    = bodies (map fst hist) ++ k_in_bytes xs.
Proof.
  intros c Hz. induction xs as [|x r IH]; intros hist Hnt.
  - cbn. rewrite app_nil_r. reflexivity.
  - cbn [no_timeout forallb] in Hnt. apply andb_true_iff in Hnt. destruct Hnt as [Hx Hnt].
    destruct x as [|f sz]; [discriminate|].
    cbn [k_spec k_pending]. rewrite Hz, first_unfit_zero. cbn [opt_is_none andb].
    change (k_in_bytes (KChunk f sz :: r)) with (body f ++ k_in_bytes r).
    destruct (ends_nl f || (sum_sizes hist + sz + lookahead >? ksplit c)).
    + rewrite k_out_bytes_cons, <- app_assoc, (IH [] Hnt). cbn [map bodies concat app].
      unfold final_step. rewrite Hz, first_unfit_zero.
      destruct (bodies (map fst hist)) as [|b0 bs] eqn:Eb; cbn [snd fst].
      * reflexivity.
      * rewrite (app_assoc (b0 :: bs) (body f) [QUOTE]), body_quoted, <- app_assoc. reflexivity.
    + rewrite k_out_bytes_cons. cbn [snd fst app]. rewrite (IH _ Hnt).
      rewrite map_app, bodies_app. cbn [map fst]. rewrite bodies_one, <- app_assoc. reflexivity.
Qed.

Theorem k8s_conservation_top : forall c, kmax c = 0 ->
  forall xs, no_timeout xs = true ->
  k_out_bytes (k_spec c [] xs) ++ bodies (map fst (k_pending c [] xs)) = k_in_bytes xs.
Proof. intros c Hz xs Hnt. exact (k8s_conservation c Hz xs [] Hnt). Qed.

(* ---- never panics: every configuration with max_event_size 0 or >= 4, every state reachable, ----
   ---- time-outs anywhere, every fragment that is at least the two quotes                       ---- *)
Definition kj (c : kcfg) (st : kstate) : Prop :=
  (exists tl, ebuf st = QUOTE :: tl) /\
  (kmax c <> 0 -> skipNext st = false -> len (ebuf st) <= kmax c - 3).

Lemma kj_init : forall c, kmax_ok c = true -> kj c kstate0.
Proof.
  intros c Hm. split; [exists []; reflexivity|]. intros Hz _. unfold kmax_ok in Hm. cbn. lia.
Qed.

Lemma kj_reset : forall c (tl : bytes) e s co, kmax_ok c = true ->
  kj c {| ebuf := [QUOTE]; esize := e; skipNext := s; cutOff := co |}.
Proof.
  intros c tl e s co Hm. split; [exists []; reflexivity|]. intros Hz _. unfold kmax_ok in Hm. cbn. lia.
Qed.

Lemma k_do_total : forall c st x, kmax_ok c = true -> kj c st -> frag_ok x = true ->
  exists st' o, k_do c st x = Ok (st', o) /\ kj c st'.
Proof.
  intros c st x Hm [[tl Heb] Hb] Hx. destruct st as [eb es sk co]. cbn [ebuf skipNext] in *. subst eb.
  destruct x as [|f sz].
  - cbn [k_do]. rewrite k_reset_quote. cbn [bind]. eexists _, _. split; [reflexivity|].
    apply (kj_reset c [] _ _ _ Hm).
  - cbn [frag_ok] in Hx. assert (Hf : 2 <= len f) by lia.
    assert (Hnz : Nat.eqb (length f) 0 = false) by (unfold len in Hf; lia).
    assert (Hq : exists tl', QUOTE :: tl = QUOTE :: tl') by eauto.
    unfold k_do. destruct (konly c).
    { eexists _, _. split; [reflexivity|]. split; [exact Hq|exact Hb]. }
    rewrite Hnz, (is_line_end_spec f Hf). cbn [bind ebuf esize skipNext cutOff].
    destruct (negb (ends_nl f) && negb (es + sz + lookahead >? ksplit c)).
    + destruct ((kmax c =? 0) || (len (QUOTE :: tl) + len f <? kmax c)) eqn:Hfit.
      * rewrite (slice_body f Hf). cbn [bind]. eexists _, _. split; [reflexivity|].
        split; [cbn [ebuf]; eexists; reflexivity|]. cbn [ebuf skipNext]. intros Hz Hs.
        rewrite klen_app, (body_len f Hf). lia.
      * destruct (negb sk) eqn:Hsk.
        -- destruct (kcut c).
           ++ assert (Hmax : kmax c <> 0) by lia.
              assert (Hs : sk = false) by (destruct sk; [discriminate|reflexivity]).
              specialize (Hb Hmax Hs).
              replace (len f - 1 - (len (QUOTE :: tl) + len f - kmax c))
                with (1 + (kmax c - len (QUOTE :: tl) - 2)) by lia.
              rewrite (slice_body_prefix f _ Hf) by lia. cbn [bind].
              eexists _, _. split; [reflexivity|]. split; [cbn [ebuf]; eexists; reflexivity|].
              cbn [skipNext]. intros _ Hd. discriminate.
           ++ eexists _, _. split; [reflexivity|]. split; [exact Hq|]. cbn [skipNext]. intros _ Hd. discriminate.
        -- eexists _, _. split; [reflexivity|]. split; [exact Hq|exact Hb].
    + destruct (sk && negb (ends_nl f)).
      * eexists _, _. split; [reflexivity|]. split; [exact Hq|]. cbn [skipNext]. intros _ Hd. discriminate.
      * destruct (sk && negb co).
        -- rewrite k_reset_quote. cbn [bind]. eexists _, _. split; [reflexivity|]. apply (kj_reset c [] _ _ _ Hm).
        -- destruct (len (QUOTE :: tl) >? 1).
           ++ destruct (negb co).
              ** rewrite (slice_body f Hf). cbn [bind]. rewrite k_reset_quote. cbn [bind].
                 eexists _, _. split; [reflexivity|]. apply (kj_reset c [] _ _ _ Hm).
              ** rewrite k_reset_quote. cbn [bind].
                 eexists _, _. split; [reflexivity|]. apply (kj_reset c [] _ _ _ Hm).
           ++ rewrite k_reset_quote. cbn [bind].
              eexists _, _. split; [reflexivity|]. apply (kj_reset c [] _ _ _ Hm).
Qed.

Theorem k8s_total : forall c xs, kmax_ok c = true -> forallb frag_ok xs = true ->
  is_ok (snd (k_run c kstate0 xs)) = true /\ length (fst (k_run c kstate0 xs)) = length xs.
Proof.
  intros c xs Hm. assert (G : forall xs st, kj c st -> forallb frag_ok xs = true ->
     is_ok (snd (k_run c st xs)) = true /\ length (fst (k_run c st xs)) = length xs).
  { clear xs. induction xs as [|x r IH]; intros st Hj Hok; [split; reflexivity|].
    cbn [forallb] in Hok. apply andb_true_iff in Hok. destruct Hok as [Hx Hok].
    destruct (k_do_total c st x Hm Hj Hx) as [st' [o [Hdo Hj']]].
    cbn [k_run]. rewrite Hdo. destruct (IH st' Hj' Hok) as [H1 H2].
    destruct (k_run c st' r) as [os f]. cbn [fst snd length] in *. split; [exact H1|lia]. }
  intro Hok. apply G; [apply kj_init; exact Hm|exact Hok].
Qed.

(* the flush-on-time-out clause does NOT hold for this action: the time-out branch only resets the
   buffer (the code says "todo: do same logic as in join plugin here to send not full logs") *)
Definition k8s_timeout_witness : list kin :=
  [KChunk [34; 97; 98; 34]%N 10; KTimeout; KChunk [34; 99; 92; 110; 34]%N 10].

Theorem k8s_timeout_flush_refuted :
  exists c xs, kmax c = 0 /\ forallb frag_ok xs = true /\
    is_ok (snd (k_run c kstate0 xs)) = true /\
    k_out_bytes (fst (k_run c kstate0 xs)) <> k_in_bytes xs /\
    k_in_bytes xs = [97; 98; 99; 92; 110]%N /\ k_out_bytes (fst (k_run c kstate0 xs)) = [99; 92; 110]%N.
Proof.
  exists {| kmax := 0; ksplit := 524288; kcut := false; kfield := false; konly := false |}, k8s_timeout_witness.
  vm_compute. repeat split; try reflexivity. intro H; discriminate H.
Qed.

(* what a time-out does instead: everything buffered is dropped, skipNextEvent survives *)
Theorem k8s_timeout_drops : forall c tl e s co,
  k_do c {| ebuf := QUOTE :: tl; esize := e; skipNext := s; cutOff := co |} KTimeout
  = Ok ({| ebuf := [QUOTE]; esize := 0; skipNext := s; cutOff := false |}, (ADiscard, 0, None, false)).
Proof. intros. cbn [k_do]. rewrite k_reset_quote. reflexivity. Qed.

(* ---- the raw text behind the escaped fragment: insane-json's escaper is an oracle ----------------- *)
Definition last_is_nl (raw : bytes) : bool :=
  match rev raw with c :: _ => N.eqb c 10%N | [] => false end.

Section RawLevel.
  Variable escaped : bytes -> bytes.       (* AppendEscapedString of a string node holding [raw] *)
  Hypothesis escaped_quoted : forall raw, 2 <= len (escaped raw).
  Hypothesis escaped_newline : forall raw, ends_nl (escaped raw) = last_is_nl raw.

  Theorem line_end_raw : forall raw, is_line_end (escaped raw) = Ok (last_is_nl raw).
  Proof. intros raw. rewrite is_line_end_spec by apply escaped_quoted. rewrite escaped_newline. reflexivity. Qed.
End RawLevel.
