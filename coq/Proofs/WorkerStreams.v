(* Proofs about the streams sub-model of Model/Worker.v (which = 9 | 10): the "already delivered" filter of the file input
   (Plugin.PassEvent, the CRI short-cut of Pipeline.In) behind the worker. Everything is stated for EVERY decoder function
   [dc] (what the pipeline's decoder and stream_field make of the accepted bytes), every table of saved stream offsets,
   every configuration; the worker side comes from worker_general (Proofs/Worker.v). *)
From Verif Require Import Base.Sx Base.GoSem Model.Worker Proofs.Worker Proofs.WorkerMaint.
From Coq Require Import Lia ZifyBool.

Definition passed (sv : saved) (e : sevent) : bool := pass_event sv (ev_stream e) (ev_off e).
Definition of_stream (s : bytes) (e : sevent) : bool := bytes_eqb (ev_stream e) s.

(* ---------------------------------------------------------------- list facts *)
Lemma filter_flat_map {A B} (f : B -> bool) (g : A -> list B) l :
  filter f (flat_map g l) = flat_map (fun x => filter f (g x)) l.
Proof.
  induction l as [|a l IH]; [reflexivity|]. cbn [flat_map]. rewrite filter_app, IH. reflexivity.
Qed.

Lemma filter_comm {A} (f g : A -> bool) l : filter f (filter g l) = filter g (filter f l).
Proof.
  induction l as [|a l IH]; [reflexivity|]. cbn [filter].
  destruct (g a) eqn:Hg, (f a) eqn:Hf; cbn [filter]; rewrite ?Hg, ?Hf, IH; reflexivity.
Qed.

Lemma filter_ext_on {A} (f g : A -> bool) (h : A -> bool) l :
  (forall a, h a = true -> f a = g a) -> filter f (filter h l) = filter g (filter h l).
Proof.
  intros H. induction l as [|a l IH]; [reflexivity|]. cbn [filter].
  destruct (h a) eqn:Hh; [|exact IH]. cbn [filter]. rewrite (H a Hh), IH. reflexivity.
Qed.

(* ---------------------------------------------------------------- the filter *)
(* what the short-cut of Pipeline.In drops, PassEvent would have dropped as well: it is an optimisation, never a decision *)
Lemma shortcut_implies_not_passed sv s off : in_shortcut sv s off = true -> pass_event sv s off = false.
Proof.
  unfold in_shortcut, pass_event, above. destruct (saved_get sv s) as [o|]; [|discriminate]. intros H. lia.
Qed.

(* PassEvent's rule: a stream without a saved offset passes everything; with the saved offset o exactly the offsets ABOVE o -
   the line that ends AT o (the last line committed for the stream) does not pass *)
Theorem pass_event_rule sv s off :
  pass_event sv s off = match saved_get sv s with None => true | Some o => o <? off end.
Proof. reflexivity. Qed.

Theorem pass_event_at_saved_offset sv s o : saved_get sv s = Some o ->
  pass_event sv s o = false /\ (forall off, pass_event sv s off = true <-> o < off).
Proof.
  intros H. unfold pass_event, above. rewrite H. split; [lia|]. intros off. lia.
Qed.

Lemma sdeliver1_filter dc sc sv c e : sdeliver1 dc sc sv c e = filter (passed sv) (sdecoded1 dc c e).
Proof.
  unfold sdeliver1, sdecoded1. destruct (check_input c (snd e)) as [[out cf] ok]. destruct ok; [|reflexivity].
  destruct (dc out) as [[[s p] partial]|]; [|reflexivity].
  cbn [filter]. unfold passed at 1. cbn [ev_stream ev_off fst snd].
  destruct (sc && negb partial && in_shortcut sv s (fst e)) eqn:H.
  - apply andb_prop in H. destruct H as [_ H]. rewrite (shortcut_implies_not_passed _ _ _ H). reflexivity.
  - destruct (pass_event sv s (fst e)); reflexivity.
Qed.

(* what is delivered = the accepted, decodable lines that PassEvent's rule selects, in their order; the short-cut of In
   (sc) makes no difference *)
Theorem sdeliver_filter dc sc sv c es : sdeliver dc sc sv c es = filter (passed sv) (sdecoded dc c es).
Proof.
  unfold sdeliver, sdecoded. rewrite filter_flat_map.
  induction es as [|e es IH]; [reflexivity|]. cbn [flat_map]. rewrite sdeliver1_filter, IH. reflexivity.
Qed.

Theorem sdeliver_shortcut_irrelevant dc sc sc' sv c es : sdeliver dc sc sv c es = sdeliver dc sc' sv c es.
Proof. rewrite !sdeliver_filter. reflexivity. Qed.

(* per stream: the delivered events of stream s = the lines of s that end above saved(s) (all of them when s has no saved
   offset), in order *)
Theorem sdeliver_per_stream dc sc sv c es s :
  filter (of_stream s) (sdeliver dc sc sv c es)
  = filter (fun e => above (saved_get sv s) (ev_off e)) (filter (of_stream s) (sdecoded dc c es)).
Proof.
  rewrite sdeliver_filter, filter_comm.
  apply filter_ext_on. intros e H. unfold of_stream in H. apply bytes_eqb_eq in H.
  unfold passed, pass_event. rewrite H. reflexivity.
Qed.

(* the saved offsets after truncateJob (all 0): every line passes again *)
Lemma saved_get_zero sv s : saved_get (saved_zero sv) s = match saved_get sv s with Some _ => Some 0 | None => None end.
Proof.
  induction sv as [|[n o] sv IH]; [reflexivity|]. cbn [saved_zero map saved_get fst].
  destruct (bytes_eqb n s); [reflexivity|]. exact IH.
Qed.

Theorem saved_zero_passes sv s off : 0 < off ->
  pass_event (saved_zero sv) s off = true /\ in_shortcut (saved_zero sv) s off = false.
Proof.
  intros H. unfold pass_event, in_shortcut, above. rewrite saved_get_zero.
  destruct (saved_get sv s); split; try reflexivity; lia.
Qed.

(* ---------------------------------------------------------------- behind the worker *)
Lemma sdecoded_emitR dc c E E' : 0 <= wmax c -> Forall2 (emitR c) E E' -> sdecoded dc c E = sdecoded dc c E'.
Proof.
  intros Hm H. induction H as [|[o d] [o' d'] l l' [H1 H2] _ IH]; [reflexivity|].
  unfold sdecoded in *. cbn [flat_map]. rewrite IH. f_equal.
  unfold sdecoded1. cbn [fst snd] in *. subst o'. rewrite (dataR_check_input c d d' Hm H2). reflexivity.
Qed.

(* every configuration, every start offset, every pass / read structure: the accepted and decoded lines behind the worker
   are those of the specification (the complete lines of the content with their end offsets, size rule applied) *)
Theorem worker_decoded dc c o sk0 rs : 0 <= wmax c ->
  sdecoded dc c (fst (rounds c (st_at o sk0) rs)) = sdecoded dc c (spec_emits c sk0 o (flat rs)).
Proof.
  intros Hm. pose proof (worker_general c o sk0 rs Hm) as H. cbv zeta in H.
  destruct (rounds c (st_at o sk0) rs) as [E st']. destruct H as [HF _]. cbn [fst].
  apply sdecoded_emitR; assumption.
Qed.

(* the property clause of the streams sub-model: what reaches the output for stream s, whatever the reads, passes, saved
   offsets, decoder and short-cut setting: the lines of s in the content that end above saved(s), in order *)
Theorem worker_stream_events dc sc sv c o sk0 rs s : 0 <= wmax c ->
  filter (of_stream s) (sdeliver dc sc sv c (fst (rounds c (st_at o sk0) rs)))
  = filter (fun e => above (saved_get sv s) (ev_off e))
           (filter (of_stream s) (sdecoded dc c (spec_emits c sk0 o (flat rs)))).
Proof.
  intros Hm. etransitivity; [apply sdeliver_per_stream|]. rewrite (worker_decoded dc c o sk0 rs Hm). reflexivity.
Qed.

Theorem worker_events_filtered dc sc sv c o sk0 rs : 0 <= wmax c ->
  sdeliver dc sc sv c (fst (rounds c (st_at o sk0) rs)) = filter (passed sv) (sdecoded dc c (spec_emits c sk0 o (flat rs))).
Proof. intros Hm. rewrite sdeliver_filter. rewrite (worker_decoded dc c o sk0 rs Hm). reflexivity. Qed.

(* ---------------------------------------------------------------- each line once: the offsets are strictly increasing *)
Fixpoint asc (b : Z) (l : list Z) : Prop := match l with [] => True | x :: r => b < x /\ asc x r end.

Lemma asc_weaken b b' l : b' <= b -> asc b l -> asc b' l.
Proof. destruct l as [|x r]; [trivial|]. cbn [asc]. intros H [H1 H2]. split; [lia|exact H2]. Qed.

Lemma asc_tl b l : asc b l -> asc b (tl l).
Proof.
  destruct l as [|x r]; [trivial|]. cbn [asc tl]. intros [H1 H2]. apply (asc_weaken x); [lia|exact H2].
Qed.

Lemma asc_filter {A} (f : A -> bool) (g : A -> Z) : forall l b, asc b (map g l) -> asc b (map g (filter f l)).
Proof.
  induction l as [|a l IH]; intros b H; [exact H|]. cbn [map asc filter] in *. destruct H as [H1 H2].
  destruct (f a); cbn [map asc].
  - split; [exact H1|apply IH; exact H2].
  - apply IH. apply (asc_weaken (g a)); [lia|exact H2].
Qed.

Lemma is_line_len l : is_line l -> 0 < len l.
Proof. intros [l0 [H _]]. subst. unfold len. rewrite app_length. cbn [length]. lia. Qed.

Lemma asc_with_off ls : Forall is_line ls -> forall base, asc base (map fst (with_off base ls)).
Proof.
  induction 1 as [|l ls Hl _ IH]; intros base; [exact I|]. cbn [with_off map fst asc].
  split; [pose proof (is_line_len l Hl); lia|apply IH].
Qed.

Lemma asc_spec_emits c sk0 o b : asc o (map fst (spec_emits c sk0 o b)).
Proof.
  unfold spec_emits, size_filter. apply asc_filter.
  pose proof (asc_with_off _ (proj1 (proj2 (split_lines_spec b))) o) as H.
  destruct sk0; cbn [drop_first]; [|exact H].
  destruct (with_off o (fst (split_lines b))) as [|e r]; [exact I|]. cbn [tl map asc] in *.
  destruct H as [H1 H2]. apply (asc_weaken (fst e)); [lia|exact H2].
Qed.

Lemma asc_sdecoded dc c : forall es b, asc b (map fst es) -> asc b (map ev_off (sdecoded dc c es)).
Proof.
  induction es as [|e es IH]; intros b H; [exact I|]. cbn [map asc] in H. destruct H as [H1 H2].
  unfold sdecoded. cbn [flat_map]. fold (sdecoded dc c es).
  unfold sdecoded1. destruct (check_input c (snd e)) as [[out cf] ok].
  assert (Hr : asc b (map ev_off (sdecoded dc c es))) by (apply IH; apply (asc_weaken (fst e)); [lia|exact H2]).
  destruct ok; [|exact Hr]. destruct (dc out) as [[[s p] partial]|]; [|exact Hr].
  cbn [app map asc ev_off fst]. split; [exact H1|apply IH; exact H2].
Qed.

(* every event behind the specification's lines carries another, larger offset than the one before it: a line is
   delivered at most once, and the order of the events is the order of the file *)
Theorem delivered_offsets_increase dc sc sv c o sk0 rs : 0 <= wmax c ->
  asc o (map ev_off (sdeliver dc sc sv c (fst (rounds c (st_at o sk0) rs)))).
Proof.
  intros Hm. rewrite (worker_events_filtered dc sc sv c o sk0 rs Hm). apply asc_filter.
  apply asc_sdecoded. apply asc_spec_emits.
Qed.

(* ---------------------------------------------------------------- the timing of Commit does not matter *)
(* two tables decide alike above the offset b *)
Definition same_above (b : Z) (sv sv' : saved) : Prop :=
  forall s off, b < off -> pass_event sv' s off = pass_event sv s off /\ in_shortcut sv' s off = in_shortcut sv s off.

Lemma saved_get_set sv s o s2 :
  saved_get (saved_set sv s o) s2 = if bytes_eqb s s2 then Some o else saved_get sv s2.
Proof.
  induction sv as [|[n x] sv IH]; cbn [saved_set saved_get].
  - reflexivity.
  - destruct (bytes_eqb n s) eqn:Hn; cbn [saved_get].
    + apply bytes_eqb_eq in Hn. subst n. destruct (bytes_eqb s s2); reflexivity.
    + destruct (bytes_eqb n s2) eqn:Hn2; [|exact IH].
      apply bytes_eqb_eq in Hn2. subst n. destruct (bytes_eqb s s2) eqn:H; [|reflexivity].
      apply bytes_eqb_eq in H. subst s2. rewrite bytes_eqb_refl in Hn. discriminate.
Qed.

Lemma same_above_commit b sv sv' s o : same_above b sv sv' -> b < o -> pass_event sv s o = true ->
  same_above o sv (saved_set sv' s o).
Proof.
  intros HS Hb Hp s2 off Ho. unfold pass_event, in_shortcut, above. rewrite saved_get_set.
  destruct (bytes_eqb s s2) eqn:E.
  - apply bytes_eqb_eq in E. subst s2. unfold pass_event, above in Hp.
    destruct (saved_get sv s) as [x|]; split; lia.
  - destruct (HS s2 off ltac:(lia)) as [H1 H2]. unfold pass_event, in_shortcut, above in H1, H2. split; assumption.
Qed.

Lemma sdeliver1_same b sv sv' dc sc c e : same_above b sv sv' -> b < fst e ->
  sdeliver1 dc sc sv' c e = sdeliver1 dc sc sv c e.
Proof.
  intros HS Hb. unfold sdeliver1. destruct (check_input c (snd e)) as [[out cf] ok]. destruct ok; [|reflexivity].
  destruct (dc out) as [[[s p] partial]|]; [|reflexivity].
  destruct (HS s (fst e) Hb) as [H1 H2]. rewrite H1, H2. reflexivity.
Qed.

Lemma sdeliver1_shape dc sc sv c e :
  sdeliver1 dc sc sv c e = [] \/ exists s p, sdeliver1 dc sc sv c e = [(fst e, s, p)] /\ pass_event sv s (fst e) = true.
Proof.
  unfold sdeliver1. destruct (check_input c (snd e)) as [[out cf] ok]. destruct ok; [|left; reflexivity].
  destruct (dc out) as [[[s p] partial]|]; [|left; reflexivity].
  destruct (sc && negb partial && in_shortcut sv s (fst e)); [left; reflexivity|].
  destruct (pass_event sv s (fst e)) eqn:H; [|left; reflexivity].
  right. exists s, p. split; [reflexivity|exact H].
Qed.

Lemma sdeliver_upd_same dc sc c : forall es b sv sv', asc b (map fst es) -> same_above b sv sv' ->
  sdeliver_upd dc sc sv' c es = sdeliver dc sc sv c es.
Proof.
  induction es as [|e es IH]; intros b sv sv' Ha HS; [reflexivity|].
  cbn [map asc] in Ha. destruct Ha as [Hb Ha].
  cbn [sdeliver_upd]. unfold sdeliver. cbn [flat_map]. fold (sdeliver dc sc sv c es).
  rewrite (sdeliver1_same b sv sv' dc sc c e HS Hb). f_equal.
  destruct (sdeliver1_shape dc sc sv c e) as [H|[s [p [H Hp]]]]; rewrite H; cbn [commit_all fold_left ev_stream ev_off fst snd].
  - apply (IH (fst e)); [exact Ha|]. intros s off Ho. apply HS. lia.
  - apply (IH (fst e)); [exact Ha|]. apply (same_above_commit b); assumption.
Qed.

(* committing every delivered event at once (jobProvider.commit moves the saved offset of the event's stream before the
   next line is handed over) and never committing during the pass give the same events: whenever the commits of a pass
   arrive, the decisions are those of the table the job was resumed with *)
Theorem commit_timing_irrelevant dc sc sv c o sk0 b :
  sdeliver_upd dc sc sv c (spec_emits c sk0 o b) = sdeliver dc sc sv c (spec_emits c sk0 o b).
Proof.
  apply (sdeliver_upd_same dc sc c _ o); [apply asc_spec_emits|]. intros s off _. split; reflexivity.
Qed.

(* ---------------------------------------------------------------- whatever was read again: nothing that was committed *)
(* no delivered event ends at or below the saved offset of its stream - for ANY list of (offset, data) the worker may hand
   over (a compressed job re-reads from a read buffer boundary in front of the smallest saved offset) *)
Theorem sdeliver_all_passed dc sc sv c es : Forall (fun e => passed sv e = true) (sdeliver dc sc sv c es).
Proof.
  rewrite sdeliver_filter. apply Forall_forall. intros e H. apply filter_In in H. exact (proj2 H).
Qed.

Lemma sdeliver_filter_off dc sc sv c m es :
  filter (fun e => m <? ev_off e) (sdeliver dc sc sv c es) = sdeliver dc sc sv c (filter (fun e : emit => m <? fst e) es).
Proof.
  unfold sdeliver. induction es as [|e es IH]; [reflexivity|]. cbn [flat_map filter]. rewrite filter_app, IH.
  destruct (sdeliver1_shape dc sc sv c e) as [H|[s [p [H _]]]]; rewrite H; cbn [filter ev_off fst app];
    destruct (m <? fst e); cbn [flat_map app]; rewrite ?H; reflexivity.
Qed.

(* the compressed pass (skip loop + reads of the buffer size) of a job resumed from the saved offsets sv whose minimum m is a
   line end of the content: behind m exactly what PassEvent's rule selects from the lines of the content behind m *)
Theorem lz4_stream_events dc sc (sv : saved) n content offs (o : Z) :
  (0 < n)%nat -> map snd sv = o :: offs -> let m := min_list o offs in
  0 <= m <= len content -> snd (split_lines (take m content)) = [] ->
  let k := {| z_cfg := nolimit; z_offs := map snd sv; z_frames := [content]; z_n := n |} in
  let '(L, es, st) := z_pass k in
  filter (fun e => m <? ev_off e) (sdeliver dc sc sv nolimit es)
  = filter (passed sv) (sdecoded dc nolimit (with_off m (fst (split_lines (drop m content))))).
Proof.
  intros Hn Hsv m Hm Hend k. unfold k. rewrite Hsv.
  pose proof (lz4_pass_exact n content offs o Hn) as H. cbv zeta in H. specialize (H Hm Hend).
  destruct (z_pass {| z_cfg := nolimit; z_offs := o :: offs; z_frames := [content]; z_n := n |}) as [[L es] st].
  destruct H as [_ [H _]]. rewrite sdeliver_filter_off. unfold m. rewrite H. apply sdeliver_filter.
Qed.

(* ---------------------------------------------------------------- the model satisfies the predicate of the check *)
Lemma rounds_snoc c : forall rs st r,
  rounds c st (rs ++ [r]) = let '(E, st1) := rounds c st rs in let '(e, st2) := round c st1 r in (E ++ e, st2).
Proof.
  induction rs as [|a rs IH]; intros st r; cbn [rounds app].
  - destruct (round c st r) as [e s1]. rewrite app_nil_r. reflexivity.
  - destruct (round c st a) as [e1 s1]. rewrite IH. destruct (rounds c s1 rs) as [E s2].
    destruct (round c s2 r) as [e s3]. rewrite app_assoc. reflexivity.
Qed.

Lemma flat_snoc rs r : flat (rs ++ [r]) = flat rs ++ concat r.
Proof. unfold flat. rewrite map_app, concat_app. cbn [map concat]. rewrite app_nil_r. reflexivity. Qed.

Lemma sevent_roundtrip evs : opt_map sevent_of_sx (map sx_of_sevent evs) = Some evs.
Proof.
  induction evs as [|[[o s] p] evs IH]; [reflexivity|]. cbn [map opt_map sx_of_sevent sevent_of_sx]. rewrite IH. reflexivity.
Qed.

Lemma sevent_eqb_refl_list l : forall2b sevent_eqb l l = true.
Proof.
  induction l as [|[[o s] p] l IH]; [reflexivity|]. cbn [forall2b sevent_eqb].
  rewrite Z.eqb_refl, !bytes_eqb_refl, IH. reflexivity.
Qed.

Lemma as_bool_of_bool b : as_bool (of_bool b) = Some b.
Proof. destruct b; reflexivity. Qed.

Lemma drop_all_app (f a : bytes) : drop (len f) (f ++ a) = a.
Proof.
  unfold drop, len. rewrite Nat2Z.id, skipn_app, skipn_all, Nat.sub_diag. reflexivity.
Qed.

Lemma sdeliver_app dc sc sv c E1 E2 : sdeliver dc sc sv c (E1 ++ E2) = sdeliver dc sc sv c E1 ++ sdeliver dc sc sv c E2.
Proof. unfold sdeliver. apply flat_map_app. Qed.

(* every run of the streams model of a plain file - any decoder, saved offsets whose minimum p0 lies inside what the file
   holds when the job is added, any appends and read buffer sizes - satisfies the predicate the correspondence check
   applies to the implementation's observable *)
Theorem streams_pred_holds dc sc c sv p0 : 0 <= wmax c -> forall rl file st E rs,
  0 <= p0 <= len file -> Forall (fun r : bytes * nat => (0 < snd r)%nat) rl ->
  rounds c (st_at p0 false) rs = (E, st) -> flat rs = drop p0 file ->
  s_pred dc sc c p0 sv file (sdeliver dc sc sv c E) rl (map sx_of_spass (s_trace dc sc c st sv file rl)) = true.
Proof.
  intros Hm. induction rl as [|[a n] rl IH]; intros file st E rs Hp Hn Hr Hf; [reflexivity|].
  inversion Hn as [|x y Hn1 Hn2]; subst. cbn [snd] in Hn1.
  pose proof (worker_general c p0 false rs Hm) as G0. cbv zeta in G0. rewrite Hr, Hf in G0.
  destruct G0 as [_ [Hc0 _]]. rewrite len_drop in Hc0 by lia.
  assert (Hcur : cur st = len file) by lia.
  cbn [s_trace]. rewrite Hcur, drop_all_app.
  destruct (round c st (chunks n a)) as [es st1] eqn:Hrd.
  assert (Hr' : rounds c (st_at p0 false) (rs ++ [chunks n a]) = (E ++ es, st1)).
  { rewrite rounds_snoc, Hr, Hrd. reflexivity. }
  assert (Hf' : flat (rs ++ [chunks n a]) = drop p0 (file ++ a)).
  { rewrite flat_snoc, Hf, chunks_concat by assumption. symmetry. apply drop_app_le. lia. }
  pose proof (worker_general c p0 false (rs ++ [chunks n a]) Hm) as G. cbv zeta in G. rewrite Hr', Hf' in G.
  destruct G as [HF [Hc [Hs Ha]]].
  assert (Hlen : len (file ++ a) = len file + len a) by apply len_app.
  pose proof (len_nonneg a) as Hna.
  rewrite len_drop in Hc by lia.
  assert (Hc1 : cur st1 = len (file ++ a)) by lia.
  replace (cur st1 >? len (file ++ a)) with false by lia.
  cbn [map sx_of_spass s_pred]. rewrite sevent_roundtrip, !as_bool_of_bool.
  cbn [andb] in Hs. rewrite Hs.
  replace (len (file ++ a) <? p0) with false by lia.
  rewrite <- sdeliver_app.
  assert (Heq : forall2b sevent_eqb (sdeliver dc sc sv c (E ++ es))
                  (filter (fun e => pass_event sv (ev_stream e) (ev_off e))
                          (sdecoded dc c (spec_emits c false p0 (drop p0 (file ++ a))))) = true).
  { rewrite sdeliver_filter, (sdecoded_emitR dc c _ _ Hm HF). apply sevent_eqb_refl_list. }
  rewrite Heq, Hc1, !Z.eqb_refl, (tail_relb_complete _ _ _ Ha). cbn [andb].
  apply (IH (file ++ a) st1 (E ++ es) (rs ++ [chunks n a])); try assumption. lia.
Qed.

(* a pass sees the file only as a whole: what was there before and what the round appends may be regrouped *)
Lemma s_trace_regroup dc sc c st sv f1 f2 a n rl :
  s_trace dc sc c st sv (f1 ++ f2) ((a, n) :: rl) = s_trace dc sc c st sv f1 ((f2 ++ a, n) :: rl).
Proof. cbn [s_trace]. rewrite <- app_assoc. reflexivity. Qed.

Lemma s_pred_regroup dc sc c p0 sv f1 f2 got a n rl obs :
  s_pred dc sc c p0 sv (f1 ++ f2) got ((a, n) :: rl) obs = s_pred dc sc c p0 sv f1 got ((f2 ++ a, n) :: rl) obs.
Proof. destruct obs as [|o obs]; [reflexivity|]. cbn [s_pred]. rewrite <- app_assoc. reflexivity. Qed.

(* from the start of a case: the job is at the smallest saved offset with an empty tail, nothing behind it is read yet *)
Corollary streams_model_satisfies_pred dc sc c sv pre rl : 0 <= wmax c ->
  0 <= s_start sv <= len pre -> Forall (fun r : bytes * nat => (0 < snd r)%nat) rl ->
  s_pred dc sc c (s_start sv) sv pre [] rl
         (map sx_of_spass (s_trace dc sc c {| cur := s_start sv; tail := []; skip := false |} sv pre rl)) = true.
Proof.
  intros Hm Hp Hn. destruct rl as [|[a n] rl]; [reflexivity|].
  set (p0 := s_start sv) in *.
  assert (Hpre : pre = take p0 pre ++ drop p0 pre) by (unfold take, drop; symmetry; apply firstn_skipn).
  assert (Hl : len (take p0 pre) = p0) by (unfold take; rewrite len_firstn, Z2Nat.id by lia; lia).
  remember (take p0 pre) as f1 eqn:Ef1. remember (drop p0 pre) as f2 eqn:Ef2. clear Ef1 Ef2.
  rewrite Hpre. rewrite s_trace_regroup, s_pred_regroup.
  inversion Hn as [|x y Hn1 Hn2]; subst x y.
  apply (streams_pred_holds dc sc c sv p0 Hm ((f2 ++ a, n) :: rl) f1 (st_at p0 false) [] []).
  - lia.
  - constructor; assumption.
  - reflexivity.
  - rewrite <- Hl at 1. unfold flat, drop, len. rewrite Nat2Z.id, skipn_all. reflexivity.
Qed.
