(* Action chains (Model/DoIf.v chain_step / chain_run = processor.doActions over the actions of a
   pipeline): which actions an event enters depends on the selectors only through their decisions,
   so the refinement check = eval lifts to whole chains; for actions that are not in the middle of a
   sequence the entered bit is exactly "the event got this far and the selector holds". *)
From Verif Require Import Base.Sx Base.GoSem Base.Json Model.DoIf Proofs.DoIf.
From Coq Require Import Lia ZifyBool.

Lemma chain_step_ext dec1 dec2 acts : forall sts,
  (forall a, In a acts -> sel_dec dec1 a = sel_dec dec2 a) ->
  chain_step dec1 acts sts = chain_step dec2 acts sts.
Proof.
  induction acts as [|a ar IH]; intros sts H; [reflexivity|].
  destruct sts as [|s sr]; [reflexivity|]. cbn [chain_step].
  rewrite (H a (or_introl eq_refl)).
  assert (IH' : chain_step dec1 ar sr = chain_step dec2 ar sr).
  { apply IH. intros b Hb. apply H. right. exact Hb. }
  rewrite IH'. reflexivity.
Qed.

Lemma chain_run_ext {E} (dec1 dec2 : E -> node -> bool) acts evs : forall sts,
  (forall e, In e evs -> forall a, In a acts -> sel_dec (dec1 e) a = sel_dec (dec2 e) a) ->
  chain_run dec1 acts sts evs = chain_run dec2 acts sts evs.
Proof.
  induction evs as [|e r IH]; intros sts H; [reflexivity|]. cbn [chain_run].
  rewrite (chain_step_ext (dec1 e) (dec2 e) acts sts (H e (or_introl eq_refl))).
  destruct (chain_step (dec2 e) acts sts) as [[bs o] sts']. f_equal.
  apply IH. intros e' He'. apply H. right. exact He'.
Qed.

Section Chain.
  Variable lower : bytes -> bytes.
  Variable re_match : bytes -> bytes -> bool.
  Variable go_contains_any : bytes -> bytes -> bool.
  Variable parse_time : bytes -> bytes -> option Z.
  Variable as_int : bytes -> Z.
  Variable re_ok : bytes -> bool.

  Notation checkM := (check lower re_match go_contains_any parse_time as_int).
  Notation evalM := (eval lower re_match go_contains_any parse_time as_int).

  (* every selector of the chain is accepted by the constructors and meets the side conditions of
     check_eq_eval on this event *)
  Definition chain_ok (acts : list cact) (e : json) : Prop :=
    forall a n, In a acts -> ca_sel a = Some n ->
      wfb re_ok n = true /\ lower_hyp lower n e = true /\ cont_ok lower re_match go_contains_any n e = true.

  (* which actions every event of the stream enters, and which events reach the output, computed
     with the code's short-cuts in every selector, is what the documented meaning of the selectors
     gives — through pass / break / discard / collapse results and busy actions alike *)
  Theorem chain_check_eq_eval acts sts (evs : list (json * Z)) :
    (forall e, In e evs -> chain_ok acts (fst e)) ->
    chain_run (fun e n => checkM n (fst e) (snd e)) acts sts evs
    = chain_run (fun e n => evalM n (fst e) (snd e)) acts sts evs.
  Proof.
    intros H. apply chain_run_ext. intros e He a Ha. unfold sel_dec.
    destruct (ca_sel a) as [n|] eqn:Es; [|reflexivity].
    destruct (H e He a n Ha Es) as [Hw [Hl Hc]].
    apply (check_eq_eval lower re_match go_contains_any parse_time as_int re_ok); assumption.
  Qed.
End Chain.

(* ---- no action in the middle of a sequence: the entered bits are the documented ones ---------- *)
Definition results_of (acts : list cact) (sts : list cst) : list ares :=
  map (fun p => script_at (ca_script (fst p)) (cs_pos (snd p))) (combine acts sts).

Lemma chain_step_free dec acts : forall sts,
  length sts = length acts ->
  forallb (fun s => negb (cs_busy s)) sts = true ->
  fst (fst (chain_step dec acts sts)) = chain_spec_free dec acts (results_of acts sts).
Proof.
  induction acts as [|a ar IH]; intros sts Hl Hb; [destruct sts; reflexivity|].
  destruct sts as [|s sr]; [discriminate Hl|].
  cbn [forallb] in Hb. apply andb_true_iff in Hb. destruct Hb as [Hs Hr].
  apply negb_true_iff in Hs. injection Hl as Hl.
  unfold results_of. cbn [combine map fst snd chain_step chain_spec_free]. rewrite Hs. cbn [orb].
  specialize (IH sr Hl Hr). unfold results_of in IH.
  destruct (sel_dec dec a).
  - destruct (script_at (ca_script a) (cs_pos s)); try reflexivity.
    destruct (chain_step dec ar sr) as [[bs o] sr']. cbn [fst] in IH |- *. rewrite IH. reflexivity.
  - destruct (chain_step dec ar sr) as [[bs o] sr']. cbn [fst] in IH |- *. rewrite IH. reflexivity.
Qed.

Definition is_pass (r : ares) : bool := match r with RPass => true | _ => false end.
(* the event gets past an action iff it does not enter it or the action passes it on *)
Definition gets_past (dec : node -> bool) (p : cact * ares) : bool := negb (sel_dec dec (fst p)) || is_pass (snd p).

Lemma nth_error_map_false {A} (l : list A) i b :
  nth_error (map (fun _ => false) l) i = Some b -> b = false.
Proof.
  revert i. induction l as [|x r IH]; intros [|i] H; cbn in H; try discriminate.
  - injection H as <-. reflexivity.
  - apply (IH i H).
Qed.

Theorem chain_spec_free_nth dec : forall acts rs i a r,
  nth_error acts i = Some a -> nth_error rs i = Some r ->
  nth_error (chain_spec_free dec acts rs) i
  = Some (sel_dec dec a && forallb (gets_past dec) (firstn i (combine acts rs))).
Proof.
  induction acts as [|a0 ar IH]; intros rs i a r Ha Hr; [destruct i; discriminate Ha|].
  destruct rs as [|r0 rr]; [destruct i; discriminate Hr|].
  destruct i as [|i].
  - cbn in Ha, Hr. injection Ha as ->. cbn [chain_spec_free firstn forallb]. rewrite andb_true_r.
    destruct (sel_dec dec a); [destruct r0|]; reflexivity.
  - cbn [nth_error] in Ha, Hr. cbn [chain_spec_free combine firstn forallb]. unfold gets_past at 1. cbn [fst snd].
    destruct (sel_dec dec a0) eqn:E0; cbn [negb orb].
    + destruct r0; cbn [is_pass andb nth_error].
      * apply (IH rr i a r Ha Hr).
      * rewrite andb_false_r.
        destruct (nth_error (map (fun _ => false) ar) i) as [b|] eqn:En.
        -- rewrite (nth_error_map_false ar i b En). reflexivity.
        -- exfalso. apply nth_error_None in En. rewrite map_length in En.
           assert (i < length ar)%nat by (apply nth_error_Some; rewrite Ha; discriminate). lia.
      * rewrite andb_false_r.
        destruct (nth_error (map (fun _ => false) ar) i) as [b|] eqn:En.
        -- rewrite (nth_error_map_false ar i b En). reflexivity.
        -- exfalso. apply nth_error_None in En. rewrite map_length in En.
           assert (i < length ar)%nat by (apply nth_error_Some; rewrite Ha; discriminate). lia.
      * rewrite andb_false_r.
        destruct (nth_error (map (fun _ => false) ar) i) as [b|] eqn:En.
        -- rewrite (nth_error_map_false ar i b En). reflexivity.
        -- exfalso. apply nth_error_None in En. rewrite map_length in En.
           assert (i < length ar)%nat by (apply nth_error_Some; rewrite Ha; discriminate). lia.
    + cbn [andb nth_error]. apply (IH rr i a r Ha Hr).
Qed.

(* whether action i is applied to an event is exactly the documented meaning of its selector (and of
   the results of the actions before it), whenever no action is in the middle of a sequence *)
Theorem chain_entered_exact dec acts sts i a s :
  length sts = length acts ->
  forallb (fun s => negb (cs_busy s)) sts = true ->
  nth_error acts i = Some a -> nth_error sts i = Some s ->
  nth_error (fst (fst (chain_step dec acts sts))) i
  = Some (sel_dec dec a && forallb (gets_past dec) (firstn i (combine acts (results_of acts sts)))).
Proof.
  intros Hl Hb Ha Hs. rewrite (chain_step_free dec acts sts Hl Hb).
  apply (chain_spec_free_nth dec acts (results_of acts sts) i a (script_at (ca_script a) (cs_pos s))); [exact Ha|].
  unfold results_of. rewrite nth_error_map.
  assert (Hc : nth_error (combine acts sts) i = Some (a, s)).
  { clear Hb. revert sts i Hl Ha Hs. induction acts as [|a0 ar IH]; intros [|s0 sr] [|i] Hl Ha Hs; try discriminate.
    - cbn in Ha, Hs. injection Ha as ->. injection Hs as ->. reflexivity.
    - cbn [combine nth_error] in *. injection Hl as Hl. apply (IH sr i Hl Ha Hs). }
  rewrite Hc. reflexivity.
Qed.

(* ... and an action in the middle of a sequence (busy) is entered by the next event of the stream
   that reaches it, whatever its selector says: the join protocol, as coded *)
Theorem chain_busy_entered dec a ar s sr :
  cs_busy s = true -> hd_error (fst (fst (chain_step dec (a :: ar) (s :: sr)))) = Some true.
Proof.
  intros Hb. cbn [chain_step]. rewrite Hb. cbn [orb].
  destruct (script_at (ca_script a) (cs_pos s)); try reflexivity.
  destruct (chain_step dec ar sr) as [[bs o] sr']. reflexivity.
Qed.
