(* Proofs about Pipeline.In with the resolved decoder (Model/Decoders/PipeIn.v). *)
From Verif Require Import Base.Sx Base.GoSem Model.Decoders.Common Model.Decoders.Cri Model.Decoders.Postgres
  Model.Decoders.Nginx Model.Decoders.Syslog Model.Decoders.SyslogRfc3164 Model.Decoders.SyslogRfc5424
  Model.Decoders.Csv Model.Decoders.JsonCut Model.Decoders.ToJson Model.Decoders.Select Model.Decoders.PipeIn
  Proofs.Decoders.Common Proofs.Decoders.Cri Proofs.Decoders.Postgres Proofs.Decoders.Nginx
  Proofs.Decoders.SyslogRfc3164 Proofs.Decoders.SyslogRfc5424 Proofs.Decoders.Csv Proofs.Decoders.Select.
From Coq Require Import Lia.

Lemma bind_ok_total {A B} (r : res A) (f : A -> B) p :
  (forall q, r <> Panic q) -> (x <- r ;; Ok (f x)) <> Panic p.
Proof. intros H. destruct r as [a|e|q]; cbn [bind]; [discriminate|discriminate|exfalso; exact (H q eq_refl)]. Qed.

Lemma event_has_a_byte : forall data, not_an_event data = false -> 1 <= len data.
Proof. intros [|c r] H; [discriminate|]. rewrite len_cons. pose proof (len_nonneg r). lia. Qed.

Lemma two_bytes_are_an_event : forall data, 2 <= len data -> not_an_event data = false.
Proof.
  intros [|a [|b r]] H; [rewrite len_nil in H; lia|rewrite len_cons, len_nil in H; lia|reflexivity].
Qed.

(* the decoder switch never panics on a line that passed checkInputBytes, for any type the switch knows
   (RAW's bytes[:len(bytes)-1] needs the one byte checkInputBytes guarantees) *)
Lemma pipe_decode_total : forall t ps data p,
  in_route t <> RUnknown -> 1 <= len data -> pipe_decode t ps data <> Panic p.
Proof.
  intros t ps data p Hr Hlen. unfold pipe_decode.
  destruct (Z.eqb_spec t 3) as [_|N3].
  { unfold slice_to. step_slice m. discriminate. }
  destruct (Z.eqb_spec t 4) as [_|N4]; [apply bind_ok_total; intros q; apply decode_cri_total|].
  destruct (Z.eqb_spec t 5) as [_|N5]; [apply bind_ok_total; intros q; apply decode_postgres_total|].
  destruct (Z.eqb_spec t 6) as [_|N6]; [apply bind_ok_total; intros q; apply decode_nginx_total|].
  destruct (Z.eqb_spec t 8) as [_|N8]; [apply bind_ok_total; intros q; apply decode_s3164_total|].
  destruct (Z.eqb_spec t 9) as [_|N9]; [apply bind_ok_total; intros q; apply decode_s5424_total|].
  destruct (Z.eqb_spec t 10) as [_|N10]; [apply bind_ok_total; intros q; apply decode_csv_mode_total|].
  destruct (Z.eqb_spec t 2) as [_|N2]; cbn [orb]; [discriminate|].
  destruct (Z.eqb_spec t 7) as [_|N7]; [discriminate|].
  exfalso. apply Hr. unfold in_route, has_decoder_object.
  repeat match goal with H : t <> ?k |- _ => apply Z.eqb_neq in H; rewrite H; clear H end. reflexivity.
Qed.

(* "never crashes the process", at the level of Pipeline.In: for every configured decoder name, every list of suggested
   types, every judgement of the constructors on the params (pok), every params value and every line - once the pipeline
   has started, In does not panic: not in checkInputBytes, not in the switch (no "unknown decoder", no RAW slice out of
   range), not in any of the six hand-written scanners.  (JSON / protobuf decoding proper is library code: Ok opaque.) *)
Theorem pipe_in_total : forall pok name suggested st ps data p,
  pipe_resolve pok name suggested = Some st ->
  pipe_in (ps_type st) ps data <> Panic p.
Proof.
  intros pok name ss st ps data p H. destruct (resolve_safe pok name ss st H) as (Hr & _ & _).
  unfold pipe_in. destruct (not_an_event data) eqn:E; [discriminate|].
  apply pipe_decode_total; [exact Hr|exact (event_has_a_byte data E)].
Qed.

(* the RAW decoder: the event's message is the line without its LAST BYTE, whatever that byte is *)
Theorem pipe_in_raw : forall ps msg c,
  not_an_event (msg ++ [c]) = false -> pipe_in 3 ps (msg ++ [c]) = Ok (SL [SB msg]).
Proof.
  intros ps msg c H. unfold pipe_in. rewrite H. unfold pipe_decode. cbn [Z.eqb Pos.eqb].
  replace (len (msg ++ [c]) - 1) with (len msg) by (rewrite len_app, len_cons, len_nil; lia).
  rewrite slice_to_app. reflexivity.
Qed.

(* a well-formed CRI line handed to a CRI pipeline yields exactly its fields *)
Theorem pipe_in_cri_faithful : forall ps time stream t0 tag log,
  index_byte time SP = -1 -> index_byte stream SP = -1 -> len stream = 6 ->
  index_byte (t0 :: tag) SP = -1 ->
  pipe_in 4 ps (cri_line time stream (t0 :: tag) log) =
  Ok (sx_cri {| cri_time := time; cri_stream := stream; cri_partial := beq t0 80%N;
                cri_log := if beq t0 80%N then removelast log else log |}).
Proof.
  intros ps time stream t0 tag log H1 H2 H3 H4. unfold pipe_in.
  assert (not_an_event (cri_line time stream (t0 :: tag) log) = false) as ->.
  { apply two_bytes_are_an_event. unfold cri_line.
    rewrite len_app, len_cons, len_app. pose proof (len_nonneg time).
    pose proof (len_nonneg (SP :: (t0 :: tag) ++ SP :: log)). lia. }
  unfold pipe_decode. cbn [Z.eqb Pos.eqb].
  rewrite (decode_cri_faithful time stream t0 tag log H1 H2 H3 H4). reflexivity.
Qed.

(* a refused line and a line that is not an event leave no event behind and never reach the decoder's output:
   the item of the run is (0) - or (4), a Fatal log entry, under is_strict - and nothing else *)
Theorem pipe_item_refused : forall strict t ps meta data e,
  pipe_in t ps data = Err e ->
  pipe_item strict t ps meta data = Some (SL [SZ 0]) \/ pipe_item strict t ps meta data = Some (SL [SZ 4]).
Proof.
  intros strict t ps meta data e H. unfold pipe_item. rewrite H.
  destruct ((negb (e =? 0) && strict) || ((t =? 10) && (e =? 5))); [right|left]; reflexivity.
Qed.
