From Verif Require Import Base.Sx Base.GoSem Model.Decoders.Common Model.Decoders.Syslog Model.Decoders.SyslogRfc3164
  Proofs.Decoders.Common Proofs.Decoders.Syslog.
From Coq Require Import Lia ZifyBool.

Lemma s3164_validate_timestamp_spec ts :
  match s3164_validate_timestamp ts with
  | Ok true => STAMP_LEN + 1 <= len ts
  | Ok false => True
  | Err _ => False
  | Panic _ => False
  end.
Proof.
  unfold s3164_validate_timestamp, STAMP_LEN.
  destruct (len ts <? 15 + 1) eqn:Hl; [exact I|].
  step_idx c3. step_idx c6. step_idx c9. step_idx c12. step_idx c15.
  destruct (negb _); [exact I|].
  step_idx c0. step_idx c1. step_idx c2.
  destruct (_ || _); [exact I|].
  step_idx c4. step_idx c5.
  destruct (negb _); [exact I|].
  step_slice hh. step_slice mm. step_slice ss.
  destruct (negb _); [exact I|]. lia.
Qed.

Theorem decode_s3164_total : forall fac_str sev_str data p, decode_s3164 fac_str sev_str data <> Panic p.
Proof.
  intros fs ss data0 p. unfold decode_s3164.
  set (data := trim_nl data0). clearbody data. clear data0.
  destruct (len data =? 0) eqn:H0; [discriminate|].
  pose proof (syslog_parse_priority_spec data) as HP.
  destruct (syslog_parse_priority data) as [[pri offset]|e|q]; cbn [bind]; [|discriminate|contradiction].
  destruct HP as (HP1 & HP2 & HP3).
  unfold slice_from, slice_to. step_slice priority. step_slice d1.
  pose proof (s3164_validate_timestamp_spec d1) as HT.
  destruct (s3164_validate_timestamp d1) as [[|]|e|q]; cbn [bind negb]; try contradiction; [|discriminate].
  unfold STAMP_LEN in *.
  step_slice ts. step_slice d2.
  name_index_byte off2. destruct (off2 <? 0) eqn:Ho2; [discriminate|].
  step_slice host. step_slice d3. clear Hoff2 Noff2.
  pose proof (index_any_bounds d3 [91%N; 58%N; SP]) as Ba.
  set (off3 := index_any d3 [91%N; 58%N; SP]) in *.
  destruct (off3 <? 0) eqn:Ho3; [discriminate|].
  step_slice appn. step_slice d4.
  step_idx c0.
  assert (Hmsg : forall procid d q,
    (data1 <- (if 0 <? len d then c <- idx d 0 ;; (if beq c SP then slice d 1 (len d) else Ok d) else Ok d) ;;
     Ok {| s3_pri := priority; s3_fac := facility_of pri fs; s3_sev := severity_of pri ss; s3_ts := ts;
           s3_host := host; s3_app := appn; s3_procid := procid; s3_msg := data1 |}) <> Panic q).
  { intros procid d q. destruct (0 <? len d) eqn:Hd; [|discriminate].
    step_idx c. destruct (beq c SP); [|discriminate]. step_slice m. discriminate. }
  destruct (beq c0 91%N) eqn:Hc0.
  - name_index_byte off4.
    destruct ((off4 <? 0) || (len d4 <=? off4 + 1)) eqn:Ho4; [discriminate|].
    step_idx c. destruct (negb (beq c 58%N)); [discriminate|].
    assert (off4 <> 0).
    { intros E. specialize (Hoff4 ltac:(lia)). rewrite E in Hoff4. rewrite Hoff4 in Ec0.
      injection Ec0 as <-. discriminate Hc0. }
    step_slice procid. step_slice d5. apply Hmsg.
  - step_slice d5. apply Hmsg.
Qed.
