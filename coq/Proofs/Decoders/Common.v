(* Lemmas about Base/GoSem.v and Model/Decoders/Common.v used by every scanner proof, and the
   tactics that discharge the bounds of a [slice] / [idx] by [lia]. *)
From Verif Require Import Base.Sx Base.GoSem Model.Decoders.Common.
From Coq Require Import Lia ZifyBool.

Lemma len_nonneg {A} (l : list A) : 0 <= len l.
Proof. unfold len. lia. Qed.

Lemma len_nil {A} : len (@nil A) = 0.
Proof. reflexivity. Qed.

Lemma len_cons {A} (x : A) l : len (x :: l) = len l + 1.
Proof. unfold len. cbn [length]. lia. Qed.

Lemma len_app {A} (a b : list A) : len (a ++ b) = len a + len b.
Proof. unfold len. rewrite app_length. lia. Qed.

Lemma len_zero_nil {A} (l : list A) : len l = 0 -> l = [].
Proof. destruct l; [reflexivity|]. rewrite len_cons. pose proof (len_nonneg l). lia. Qed.

(* ---- slice / idx --------------------------------------------------------------------------- *)
Lemma slice_ok {A} (l : list A) lo hi :
  0 <= lo <= hi -> hi <= len l ->
  slice l lo hi = Ok (firstn (Z.to_nat (hi - lo)) (skipn (Z.to_nat lo) l)).
Proof.
  intros H1 H2. unfold slice.
  replace ((0 <=? lo) && (lo <=? hi) && (hi <=? len l)) with true by lia. reflexivity.
Qed.

Lemma slice_ok_ex {A} (l : list A) lo hi :
  0 <= lo <= hi -> hi <= len l -> exists r, slice l lo hi = Ok r /\ len r = hi - lo.
Proof.
  intros H1 H2. eexists. split. { apply slice_ok; assumption. }
  unfold len in *. rewrite firstn_length, skipn_length. lia.
Qed.

Lemma slice_not_err {A} (l : list A) lo hi e : slice l lo hi <> Err e.
Proof. unfold slice. destruct (_ && _); discriminate. Qed.

Lemma slice_inv {A} (l : list A) lo hi r :
  slice l lo hi = Ok r -> 0 <= lo <= hi /\ hi <= len l /\ len r = hi - lo /\
                          r = firstn (Z.to_nat (hi - lo)) (skipn (Z.to_nat lo) l).
Proof.
  unfold slice. destruct ((0 <=? lo) && (lo <=? hi) && (hi <=? len l)) eqn:E; [|discriminate].
  intros H. injection H as <-. repeat split; try lia.
  unfold len in *. rewrite firstn_length, skipn_length. lia.
Qed.

Lemma idx_ok_ex {A} (l : list A) i : 0 <= i < len l -> exists x, idx l i = Ok x.
Proof.
  intros H. unfold idx. replace ((0 <=? i) && (i <? len l)) with true by lia.
  destruct (nth_error l (Z.to_nat i)) eqn:E; [eauto|].
  apply nth_error_None in E. unfold len in H. lia.
Qed.

Lemma idx_inv {A} (l : list A) i x : idx l i = Ok x -> 0 <= i < len l /\ nth_error l (Z.to_nat i) = Some x.
Proof.
  unfold idx. destruct ((0 <=? i) && (i <? len l)) eqn:E; [|discriminate].
  destruct (nth_error l (Z.to_nat i)); [|discriminate]. intros H; injection H as <-. split; [lia|reflexivity].
Qed.

Lemma idx_not_err {A} (l : list A) i e : idx l i <> Err e.
Proof. unfold idx. destruct (_ && _); [destruct (nth_error _ _)|]; discriminate. Qed.

Lemma idx_cons_0 {A} (x : A) l : idx (x :: l) 0 = Ok x.
Proof. unfold idx. rewrite len_cons. pose proof (len_nonneg l). replace ((0 <=? 0) && (0 <? len l + 1)) with true by lia. reflexivity. Qed.

Lemma idx_cons_S {A} (x : A) l i : 0 < i -> idx (x :: l) i = idx l (i - 1).
Proof.
  intros H. unfold idx. rewrite len_cons.
  destruct ((0 <=? i) && (i <? len l + 1)) eqn:E1; destruct ((0 <=? i - 1) && (i - 1 <? len l)) eqn:E2; try lia; [|reflexivity].
  replace (Z.to_nat i) with (S (Z.to_nat (i - 1))) by lia. reflexivity.
Qed.

(* ---- index_byte ---------------------------------------------------------------------------- *)
Lemma index_byte_from_bounds l c : forall i, index_byte_from l c i = -1 \/ i <= index_byte_from l c i < i + len l.
Proof.
  induction l as [|x l IH]; intros i; cbn [index_byte_from]; [left; reflexivity|].
  rewrite len_cons. pose proof (len_nonneg l). destruct (N.eqb x c); [right; lia|].
  destruct (IH (i + 1)) as [->|H']; [left; reflexivity|right; lia].
Qed.

Lemma index_byte_bounds l c : -1 <= index_byte l c < len l.
Proof. unfold index_byte. pose proof (len_nonneg l). destruct (index_byte_from_bounds l c 0); lia. Qed.

Lemma index_byte_from_shift l c : forall i, 0 <= i ->
  index_byte_from l c i = if index_byte_from l c 0 =? -1 then -1 else index_byte_from l c 0 + i.
Proof.
  induction l as [|x l IH]; intros i Hi; cbn [index_byte_from]; [reflexivity|].
  destruct (N.eqb x c); [cbn; lia|].
  rewrite (IH (i + 1)) by lia. cbn [Z.add]. rewrite (IH 1) by lia.
  pose proof (index_byte_from_bounds l c 0) as B. pose proof (len_nonneg l).
  destruct (index_byte_from l c 0 =? -1) eqn:E; [reflexivity|].
  destruct (index_byte_from l c 0 + 1 =? -1) eqn:F; lia.
Qed.

Lemma index_byte_cons x l c :
  index_byte (x :: l) c = if N.eqb x c then 0 else (if index_byte l c <? 0 then -1 else index_byte l c + 1).
Proof.
  unfold index_byte. cbn [index_byte_from]. destruct (N.eqb x c); [reflexivity|].
  cbn [Z.add]. rewrite (index_byte_from_shift l c 1) by lia.
  pose proof (index_byte_from_bounds l c 0) as B. pose proof (len_nonneg l).
  destruct (index_byte_from l c 0 =? -1) eqn:E; destruct (index_byte_from l c 0 <? 0) eqn:F; lia.
Qed.

Lemma index_byte_nil c : index_byte [] c = -1.
Proof. reflexivity. Qed.

Lemma index_byte_hit l c : 0 <= index_byte l c -> idx l (index_byte l c) = Ok c.
Proof.
  induction l as [|x l IH]; [rewrite index_byte_nil; lia|].
  rewrite index_byte_cons. destruct (N.eqb x c) eqn:E.
  - intros _. apply N.eqb_eq in E. subst. apply idx_cons_0.
  - destruct (index_byte l c <? 0) eqn:F; [lia|]. intros _.
    rewrite idx_cons_S by lia. replace (index_byte l c + 1 - 1) with (index_byte l c) by lia. apply IH. lia.
Qed.

(* no occurrence before the hit *)
Lemma index_byte_before l c : forall i x, 0 <= i -> (i < index_byte l c \/ index_byte l c < 0) -> idx l i = Ok x -> x <> c.
Proof.
  induction l as [|y l IH]; intros i x Hi Hlt Hx.
  - apply idx_inv in Hx. destruct Hx as [Hx _]. change (len (@nil byte)) with 0 in Hx. lia.
  - rewrite index_byte_cons in Hlt. destruct (N.eqb y c) eqn:E; [lia|].
    destruct (Z.eq_dec i 0) as [->|Hn].
    + rewrite idx_cons_0 in Hx. injection Hx as <-. apply N.eqb_neq. exact E.
    + rewrite idx_cons_S in Hx by lia. apply (IH (i - 1) x); [lia| |exact Hx].
      destruct (index_byte l c <? 0) eqn:F; lia.
Qed.

Lemma index_byte_app_notin a c b :
  index_byte a c = -1 -> index_byte (a ++ c :: b) c = len a.
Proof.
  induction a as [|x a IH]; intros H.
  - cbn [app]. rewrite index_byte_cons, N.eqb_refl. reflexivity.
  - cbn [app]. rewrite index_byte_cons in *. rewrite len_cons. destruct (N.eqb x c); [lia|].
    destruct (index_byte a c <? 0) eqn:F.
    + assert (index_byte a c = -1) by (pose proof (index_byte_bounds a c); lia).
      rewrite IH by assumption. pose proof (len_nonneg a). destruct (len a <? 0) eqn:G; lia.
    + lia.
Qed.

(* ---- slices of concatenations (faithfulness proofs) ---------------------------------------- *)
Lemma slice_to_app {A} (a b : list A) : slice_to (a ++ b) (len a) = Ok a.
Proof.
  unfold slice_to. rewrite slice_ok; [|pose proof (len_nonneg a); lia|rewrite len_app; pose proof (len_nonneg b); lia].
  cbn [Z.to_nat skipn]. replace (len a - 0) with (len a) by lia. unfold len. rewrite Nat2Z.id.
  rewrite firstn_app, Nat.sub_diag, firstn_all. cbn [firstn]. rewrite app_nil_r. reflexivity.
Qed.

Lemma slice_from_app {A} (a b : list A) : slice_from (a ++ b) (len a) = Ok b.
Proof.
  unfold slice_from. rewrite slice_ok; [|pose proof (len_nonneg a); rewrite len_app; pose proof (len_nonneg b); lia|lia].
  rewrite len_app. replace (len a + len b - len a) with (len b) by lia. unfold len. rewrite !Nat2Z.id.
  rewrite skipn_app, Nat.sub_diag, skipn_all. cbn [skipn app]. rewrite firstn_all. reflexivity.
Qed.

Lemma slice_from_app_cons {A} (a : list A) x b : slice_from (a ++ x :: b) (len a + 1) = Ok b.
Proof.
  replace (a ++ x :: b) with ((a ++ [x]) ++ b) by (rewrite <- app_assoc; reflexivity).
  replace (len a + 1) with (len (a ++ [x])) by (rewrite len_app; reflexivity).
  apply slice_from_app.
Qed.

Lemma slice_all {A} (l : list A) : slice_to l (len l) = Ok l.
Proof. pose proof (slice_to_app l []) as H. rewrite app_nil_r in H. exact H. Qed.

Lemma slice_from_0 {A} (l : list A) : slice_from l 0 = Ok l.
Proof. pose proof (slice_from_app [] l) as H. exact H. Qed.

(* ---- the bounds tactics -------------------------------------------------------------------- *)
(* one fact [0 <= len l] per list in the context *)
Ltac pose_lens :=
  repeat match goal with
         | l : bytes |- _ =>
             lazymatch goal with
             | _ : 0 <= len l |- _ => fail
             | _ => pose proof (len_nonneg l)
             end
         | l : list _ |- _ =>
             lazymatch goal with
             | _ : 0 <= len l |- _ => fail
             | _ => pose proof (len_nonneg l)
             end
         end.

(* name an [index_byte l c] of the goal, keeping its range and the byte found there *)
Ltac name_index_byte pos :=
  match goal with
  | |- context [index_byte ?l ?c] =>
      let B := fresh "B" pos in let H := fresh "H" pos in let N := fresh "N" pos in
      pose proof (index_byte_bounds l c) as B;
      pose proof (index_byte_hit l c) as H;
      pose proof (index_byte_before l c) as N;
      set (pos := index_byte l c) in *
  end.

(* resolve the next [slice] / [idx] whose bounds follow by lia from the context *)
Ltac step_slice r :=
  match goal with
  | |- context [slice ?l ?lo ?hi] =>
      let E := fresh "E" r in let L := fresh "L" r in
      destruct (slice_ok_ex l lo hi) as (r & E & L); [ pose_lens; lia | pose_lens; lia | rewrite E; cbn [bind] ]
  end.
Ltac step_idx x :=
  match goal with
  | |- context [idx ?l ?i] =>
      let E := fresh "E" x in
      destruct (idx_ok_ex l i) as (x & E); [ pose_lens; lia | rewrite E; cbn [bind] ]
  end.

(* ---- more slices of concatenations (faithfulness of postgres / csv) ------------------------- *)
Lemma slice_cons_S {A} (x : A) l lo hi : 0 <= lo -> slice (x :: l) (lo + 1) (hi + 1) = slice l lo hi.
Proof.
  intros H. unfold slice. rewrite len_cons.
  replace ((0 <=? lo + 1) && (lo + 1 <=? hi + 1) && (hi + 1 <=? len l + 1))
    with ((0 <=? lo) && (lo <=? hi) && (hi <=? len l)) by lia.
  destruct (_ && _); [|reflexivity].
  replace (hi + 1 - (lo + 1)) with (hi - lo) by lia.
  replace (Z.to_nat (lo + 1)) with (S (Z.to_nat lo)) by lia. reflexivity.
Qed.

Lemma slice_mid {A} (a b c : list A) : slice (a ++ b ++ c) (len a) (len a + len b) = Ok b.
Proof.
  pose proof (len_nonneg a). pose proof (len_nonneg b). pose proof (len_nonneg c).
  rewrite slice_ok; [|lia|rewrite !len_app; lia].
  replace (len a + len b - len a) with (len b) by lia. unfold len. rewrite !Nat2Z.id.
  rewrite skipn_app, Nat.sub_diag, skipn_all. cbn [skipn app].
  rewrite firstn_app, Nat.sub_diag, firstn_all. cbn [firstn]. rewrite app_nil_r. reflexivity.
Qed.

Lemma index_byte_app_skip a b c :
  index_byte a c = -1 ->
  index_byte (a ++ b) c = if index_byte b c <? 0 then -1 else len a + index_byte b c.
Proof.
  induction a as [|x a IH]; intros H.
  - cbn [app]. change (len (@nil byte)) with 0. pose proof (index_byte_bounds b c). destruct (index_byte b c <? 0) eqn:E; lia.
  - cbn [app]. rewrite index_byte_cons in *. rewrite len_cons. destruct (N.eqb x c); [lia|].
    pose proof (index_byte_bounds a c). destruct (index_byte a c <? 0) eqn:F; [|lia].
    rewrite IH by lia. pose proof (index_byte_bounds b c). pose proof (len_nonneg a).
    destruct (index_byte b c <? 0) eqn:G; [reflexivity|].
    destruct (len a + index_byte b c <? 0) eqn:G2; lia.
Qed.
