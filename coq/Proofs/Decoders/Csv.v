From Verif Require Import Base.Sx Base.GoSem Model.Decoders.Common Model.Decoders.Csv Proofs.Decoders.Common.
From Coq Require Import Lia ZifyBool.

(* fieldIndexes are ascending and end at len(recordBuffer) *)
Fixpoint asc_to (lo : Z) (idxs : list Z) (hi : Z) : Prop :=
  match idxs with [] => lo <= hi | i :: r => lo <= i /\ asc_to i r hi end.

Lemma asc_to_mono idxs : forall lo hi hi', asc_to lo idxs hi -> hi <= hi' -> asc_to lo idxs hi'.
Proof.
  induction idxs as [|i r IH]; cbn [asc_to]; intros lo hi hi' H Hh; [lia|].
  destruct H as [H1 H2]. split; [exact H1|]. eapply IH; eassumption.
Qed.

Lemma asc_to_snoc idxs : forall lo hi hi', asc_to lo idxs hi -> hi <= hi' -> asc_to lo (idxs ++ [hi']) hi'.
Proof.
  induction idxs as [|i r IH]; cbn [asc_to app]; intros lo hi hi' H Hh; [lia|].
  destruct H as [H1 H2]. split; [exact H1|]. eapply IH; eassumption.
Qed.

Lemma cut_fields_total str : forall idxs pre p,
  0 <= pre -> asc_to pre idxs (len str) -> cut_fields str pre idxs <> Panic p.
Proof.
  induction idxs as [|i r IH]; intros pre p Hp H; cbn [cut_fields]; [discriminate|].
  cbn [asc_to] in H. destruct H as [H1 H2].
  assert (i <= len str).
  { clear - H2. revert i H2. induction r as [|j r IHr]; cbn [asc_to]; intros i H; [exact H|].
    destruct H as [Ha Hb]. apply IHr in Hb. lia. }
  step_slice f.
  destruct (cut_fields str i r) as [fs|e|q] eqn:E; cbn [bind]; try discriminate.
  exfalso. apply (IH i q); [lia|exact H2|exact E].
Qed.

Lemma csv_loop_spec trim_space delim : forall fuel quoted data rb idxs,
  len data < Z.of_nat fuel -> asc_to 0 idxs (len rb) ->
  match csv_loop trim_space delim fuel quoted data rb idxs with
  | Ok (rb', idxs') => asc_to 0 idxs' (len rb')
  | Err _ => True
  | Panic _ => False
  end.
Proof.
  induction fuel as [|f IH]; intros quoted data rb idxs Hf Ha; cbn [csv_loop].
  - pose proof (len_nonneg data). lia.
  - destruct quoted.
    + name_index_byte i. destruct (i <? 0) eqn:Hlt; [exact I|].
      unfold slice_to, slice_from. step_slice pre. step_slice d1.
      assert (Ha' : asc_to 0 idxs (len (rb ++ pre))).
      { eapply asc_to_mono; [exact Ha|]. rewrite len_app. pose proof (len_nonneg pre). lia. }
      destruct (len d1 =? 0) eqn:H0.
      { eapply asc_to_snoc; [exact Ha'|lia]. }
      step_idx rn.
      destruct (beq rn QUOTE).
      { step_slice d2. apply IH; [lia|]. eapply asc_to_mono; [exact Ha'|]. rewrite (len_app (rb ++ pre)). pose proof (len_nonneg [QUOTE]). lia. }
      destruct (beq rn delim).
      { step_slice d2. apply IH; [lia|]. eapply asc_to_snoc; [exact Ha'|lia]. }
      destruct ((len d1 =? 1) && beq rn NL); [|exact I].
      eapply asc_to_snoc; [exact Ha'|lia].
    + assert (exists isq, (if len data =? 0 then Ok false else c <- idx data 0 ;; Ok (beq c QUOTE)) = Ok isq
                          /\ (isq = true -> 0 < len data)) as (isq & -> & Hq).
      { destruct (len data =? 0) eqn:H0; [eexists; split; [reflexivity|discriminate]|].
        step_idx c. eexists; split; [reflexivity|]. pose_lens. lia. }
      cbn [bind]. destruct isq; cbn [negb].
      * specialize (Hq eq_refl). unfold slice_from. step_slice d. apply IH; [lia|exact Ha].
      * name_index_byte i.
        assert (exists field, (if 0 <=? i then slice_to data i else Ok (trim_space data)) = Ok field) as (field & ->).
        { destruct (0 <=? i) eqn:Hlt; [|eauto]. unfold slice_to. step_slice fl. eauto. }
        cbn [bind]. destruct (0 <=? index_byte field QUOTE); [exact I|].
        assert (Ha' : asc_to 0 (idxs ++ [len (rb ++ field)]) (len (rb ++ field))).
        { eapply asc_to_snoc; [exact Ha|]. rewrite len_app. pose proof (len_nonneg field). lia. }
        destruct (0 <=? i) eqn:Hlt; [|exact Ha'].
        unfold slice_from. step_slice d. apply IH; [lia|exact Ha'].
Qed.

Theorem decode_csv_total : forall trim_space delim data p, decode_csv trim_space delim data <> Panic p.
Proof.
  intros trim_space delim data p. unfold decode_csv.
  destruct (len data =? 0) eqn:H0; [discriminate|].
  assert (exists d, (if 2 <=? len data then
               c1 <- idx data (len data - 2) ;; c2 <- idx data (len data - 1) ;;
               if beq c1 13%N && beq c2 NL then pre <- slice_to data (len data - 2) ;; Ok (pre ++ [NL])
               else Ok data
             else Ok data) = Ok d) as (d & ->).
  { destruct (2 <=? len data) eqn:H2; [|eauto]. step_idx c1. step_idx c2.
    destruct (beq c1 13%N && beq c2 NL); [|eauto]. unfold slice_to. step_slice pre. eauto. }
  cbn [bind].
  pose proof (csv_loop_spec trim_space delim (S (length d)) false d [] [] ltac:(unfold len; lia) ltac:(cbn; lia)) as HL.
  destruct (csv_loop trim_space delim (S (length d)) false d [] []) as [[rb idxs]|e|q]; cbn [bind]; [|discriminate|contradiction].
  apply cut_fields_total; [lia|exact HL].
Qed.

Theorem decode_csv_checked_total : forall trim_space delim ncols cm data p,
  decode_csv_checked trim_space delim ncols cm data <> Panic p.
Proof.
  intros. unfold decode_csv_checked.
  destruct (decode_csv trim_space delim data) as [row|e|q] eqn:E; cbn [bind]; [|discriminate|].
  - destruct (_ && _); discriminate.
  - exfalso. exact (decode_csv_total _ _ _ _ E).
Qed.

(* all three modes of invalid_line_mode ("fatal" ends in the distinguished error 5, never in a Panic) *)
Theorem decode_csv_mode_total : forall trim_space delim ncols mode data p,
  decode_csv_mode trim_space delim ncols mode data <> Panic p.
Proof.
  intros. unfold decode_csv_mode.
  destruct (decode_csv trim_space delim data) as [row|e|q] eqn:E; cbn [bind]; [|discriminate|].
  - destruct (_ && _); [|discriminate]. destruct (mode =? 2); [discriminate|]. destruct (mode =? 1); discriminate.
  - exfalso. exact (decode_csv_total _ _ _ _ E).
Qed.

(* modes "default" / "continue" (and every unknown word) are the two-mode function the other theorems speak about;
   "fatal" differs from "default" only in the error it ends with *)
Lemma decode_csv_mode_checked : forall trim_space delim ncols mode data,
  mode <> 2 ->
  decode_csv_mode trim_space delim ncols mode data = decode_csv_checked trim_space delim ncols (mode =? 1) data.
Proof.
  intros trim_space delim ncols mode data Hm. unfold decode_csv_mode, decode_csv_checked.
  destruct (decode_csv trim_space delim data) as [row|e|q]; cbn [bind]; try reflexivity.
  destruct (Z.eqb_spec mode 2) as [->|_]; [contradiction|].
  destruct (negb (ncols =? 0) && negb (len row =? ncols)); cbn [andb]; [|reflexivity].
  destruct (mode =? 1); reflexivity.
Qed.

(* ---- faithfulness: unquoted fields ----------------------------------------------------------- *)
Definition csv_field_ok (delim : byte) (f : bytes) : Prop :=
  index_byte f delim = -1 /\ index_byte f QUOTE = -1 /\ index_byte f NL = -1.

(* fieldIndexes of consecutive fields starting at [base] *)
Fixpoint ends (base : Z) (fs : list bytes) : list Z :=
  match fs with [] => [] | f :: r => (base + len f) :: ends (base + len f) r end.

Lemma cut_fields_concat : forall fs pre,
  cut_fields (pre ++ concat fs) (len pre) (ends (len pre) fs) = Ok fs.
Proof.
  induction fs as [|f r IH]; intros pre; cbn [concat ends cut_fields]; [reflexivity|].
  rewrite slice_mid. cbn [bind].
  replace (pre ++ f ++ concat r) with ((pre ++ f) ++ concat r) by (rewrite app_assoc; reflexivity).
  replace (len pre + len f) with (len (pre ++ f)) by (rewrite len_app; reflexivity).
  rewrite IH. reflexivity.
Qed.

Lemma first_byte_not_quote f c rest delim :
  delim <> QUOTE -> index_byte f QUOTE = -1 -> idx (f ++ delim :: rest) 0 = Ok c -> beq c QUOTE = false.
Proof.
  intros Hd Hf Hc. destruct f as [|x f].
  - cbn [app] in Hc. rewrite idx_cons_0 in Hc. injection Hc as <-. apply N.eqb_neq. exact Hd.
  - cbn [app] in Hc. rewrite idx_cons_0 in Hc. injection Hc as <-.
    rewrite index_byte_cons in Hf. unfold beq. destruct (N.eqb x QUOTE); [lia|reflexivity].
Qed.

Lemma csv_line_nonempty_tail delim g r f : csv_line delim (f :: g :: r) = f ++ delim :: csv_line delim (g :: r).
Proof. reflexivity. Qed.

Lemma csv_loop_fields trim_space delim : delim <> QUOTE ->
  forall fs fuel rb idxs,
  fs <> [] -> Forall (csv_field_ok delim) fs -> trim_space (last fs []) = last fs [] ->
  len (csv_line delim fs) < Z.of_nat fuel ->
  csv_loop trim_space delim fuel false (csv_line delim fs) rb idxs =
  Ok (rb ++ concat fs, idxs ++ ends (len rb) fs).
Proof.
  intros Hd. induction fs as [|f r IH]; intros fuel rb idxs Hne Hok Htrim Hfuel; [congruence|].
  inversion Hok as [|? ? [Hf1 [Hf2 Hf3]] Hok']; subst.
  destruct fuel as [|fuel]; [pose proof (len_nonneg (csv_line delim (f :: r))); lia|].
  destruct r as [|g r].
  - (* the last field *)
    cbn [csv_line last] in *. cbn [csv_loop].
    assert (Hq : (if len f =? 0 then Ok false else c <- idx f 0 ;; Ok (beq c QUOTE)) = Ok false).
    { destruct (len f =? 0) eqn:E0; [reflexivity|].
      destruct f as [|x f']; [discriminate E0|]. rewrite idx_cons_0. cbn [bind].
      rewrite index_byte_cons in Hf2. unfold beq. destruct (N.eqb x QUOTE); [lia|reflexivity]. }
    rewrite Hq. cbn [bind negb].
    rewrite Hf1. cbn [Z.leb]. replace (0 <=? -1) with false by reflexivity. cbn [bind].
    rewrite Htrim, Hf2. replace (0 <=? -1) with false by reflexivity.
    cbn [concat ends]. rewrite app_nil_r, len_app. reflexivity.
  - rewrite csv_line_nonempty_tail in *. set (rest := csv_line delim (g :: r)) in *.
    cbn [csv_loop].
    pose proof (len_nonneg f) as Lf. pose proof (len_nonneg rest) as Lr.
    rewrite len_app, len_cons in Hfuel |- *.
    replace (len f + (len rest + 1) =? 0) with false by lia.
    destruct (idx_ok_ex (f ++ delim :: rest) 0) as (c & Ec); [rewrite len_app, len_cons; lia|].
    rewrite Ec. cbn [bind]. rewrite (first_byte_not_quote f c rest delim Hd Hf2 Ec). cbn [negb].
    rewrite (index_byte_app_notin f delim rest Hf1).
    replace (0 <=? len f) with true by lia.
    rewrite slice_to_app. cbn [bind]. rewrite Hf2. replace (0 <=? -1) with false by reflexivity.
    rewrite slice_from_app_cons. cbn [bind].
    rewrite IH; [|discriminate|exact Hok'|exact Htrim|lia].
    cbn [concat ends]. rewrite len_app, <- !app_assoc. reflexivity.
Qed.

Lemma csv_line_no_nl delim : delim <> NL -> forall fs, Forall (csv_field_ok delim) fs ->
  index_byte (csv_line delim fs) NL = -1.
Proof.
  intros Hd. induction fs as [|f r IH]; intros Hok; [reflexivity|].
  inversion Hok as [|? ? [Hf1 [Hf2 Hf3]] Hok']; subst.
  destruct r as [|g r]; [exact Hf3|].
  rewrite csv_line_nonempty_tail. rewrite (index_byte_app_skip f _ NL Hf3), index_byte_cons.
  replace (N.eqb delim NL) with false by (symmetry; apply N.eqb_neq; exact Hd).
  rewrite (IH Hok'). reflexivity.
Qed.

(* a record of unquoted fields that contain no delimiter, quote or newline (the last one not
   ending or starting in white space) decodes to exactly those fields *)
Theorem decode_csv_faithful : forall trim_space delim fs,
  delim <> QUOTE -> delim <> NL ->
  Forall (csv_field_ok delim) fs -> csv_line delim fs <> [] ->
  trim_space (last fs []) = last fs [] ->
  decode_csv trim_space delim (csv_line delim fs) = Ok fs.
Proof.
  intros trim_space delim fs Hd1 Hd2 Hok Hne Htrim. unfold decode_csv.
  set (line := csv_line delim fs) in *.
  assert (Hfs : fs <> []) by (intros ->; apply Hne; reflexivity).
  pose proof (len_nonneg line) as Ll.
  destruct (len line =? 0) eqn:E0.
  { exfalso. apply Hne. apply len_zero_nil. lia. }
  assert (Hcr : (if 2 <=? len line then
               c1 <- idx line (len line - 2) ;; c2 <- idx line (len line - 1) ;;
               if beq c1 13%N && beq c2 NL then pre <- slice_to line (len line - 2) ;; Ok (pre ++ [NL])
               else Ok line
             else Ok line) = Ok line).
  { destruct (2 <=? len line) eqn:E2; [|reflexivity].
    destruct (idx_ok_ex line (len line - 2)) as (c1 & ->); [lia|]. cbn [bind].
    destruct (idx_ok_ex line (len line - 1)) as (c2 & Ec2); [lia|]. rewrite Ec2. cbn [bind].
    pose proof (index_byte_before line NL (len line - 1) c2 ltac:(lia)
                  ltac:(right; unfold line; rewrite (csv_line_no_nl delim Hd2 fs Hok); lia) Ec2) as Hc2.
    replace (beq c2 NL) with false by (symmetry; apply N.eqb_neq; exact Hc2).
    rewrite andb_false_r. reflexivity. }
  rewrite Hcr. cbn [bind].
  unfold line. rewrite (csv_loop_fields trim_space delim Hd1 fs _ [] [] Hfs Hok Htrim) by (unfold len; lia).
  cbn [bind app]. change (len (@nil byte)) with 0.
  exact (cut_fields_concat fs []).
Qed.
