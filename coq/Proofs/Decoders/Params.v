(* Proofs about the parameter checks of the decoder constructors (Model/Decoders/Params.v): what a constructor accepts
   satisfies the hypotheses under which the decoders' theorems are stated. *)
From Verif Require Import Base.Sx Base.GoSem Model.Decoders.Common Model.Decoders.ToJson Model.Decoders.Params Model.Decoders.Csv
  Proofs.Decoders.JsonCut Proofs.Decoders.Csv.
From Coq Require Import Lia.

Lemma map_set_forall {V} (P : bytes * V -> Prop) : forall (m : list (bytes * V)) k v,
  Forall P m -> P (k, v) -> Forall P (map_set m k v).
Proof.
  induction m as [|[k' v'] r IH]; intros k v Hm Hkv; cbn [map_set].
  - constructor; [exact Hkv|constructor].
  - inversion Hm as [|? ? Hh Ht]; subst.
    destruct (bytes_cmp k k'); [constructor; assumption|constructor; assumption|].
    constructor; [exact Hh|apply IH; assumption].
Qed.

Lemma json_limits_nonneg : forall entries ls,
  json_limits entries = Ok ls -> Forall (fun kv => 0 <= snd kv) ls.
Proof.
  induction entries as [|e r IH]; intros ls H; cbn [json_limits] in H.
  - inversion H; constructor.
  - destruct e as [z|b|[|[z|k|l] [|v [|x t]]]]; try discriminate.
    destruct (any_to_int v) as [n|]; [|discriminate].
    destruct (Z.ltb_spec n 0) as [Hn|Hn]; [discriminate|].
    destruct (json_limits r) as [rest|e|p]; cbn [bind] in H; try discriminate.
    inversion H; subst. apply map_set_forall; [apply IH; reflexivity|exact Hn].
Qed.

(* the assumption "json_max_fields_size limits are >= 0" of c12_json_cut_total, as a theorem about the constructor:
   whatever extractJsonParams accepts - ints, float64s, json.Numbers - has no negative limit *)
Theorem json_params_nonneg : forall ps ls,
  json_params ps = Ok ls -> Forall (fun kv => 0 <= snd kv) ls.
Proof.
  intros ps ls H. unfold json_params in H.
  destruct (par_get ps K_json_max_fields_size) as [v|]; [|inversion H; constructor].
  destruct (as_tagged 4 v) as [entries|]; [|discriminate].
  exact (json_limits_nonneg entries ls H).
Qed.

(* the hypotheses "delimiter <> QUOTE", "delimiter <> NL" of c12_csv_faithful hold for every csv decoder that can be built *)
Theorem csv_params_delim : forall ps c,
  csv_params ps = Ok c ->
  cc_delim c <> 0%N /\ cc_delim c <> QUOTE /\ cc_delim c <> 13%N /\ cc_delim c <> NL.
Proof.
  intros ps c H. unfold csv_params in H.
  destruct (match par_get ps K_columns with None => _ | Some _ => _ end) as [cols|e|p]; cbn [bind] in H; try discriminate.
  destruct (match par_get ps K_prefix with None => _ | Some _ => _ end) as [prefix|e|p]; cbn [bind] in H; try discriminate.
  destruct (match par_get ps K_invalid_line_mode with None => _ | Some _ => _ end) as [mode|e|p]; cbn [bind] in H; try discriminate.
  destruct (par_get ps K_delimiter) as [v|]; cbn [bind] in H.
  - destruct (any_string v) as [[|d [|d2 r]]|]; cbn [bind] in H; try discriminate.
    destruct (valid_delim_byte d) eqn:Ev; cbn [bind] in H; [|discriminate].
    inversion H; subst; cbn [cc_delim]. unfold valid_delim_byte, beq in Ev.
    repeat (apply Bool.andb_true_iff in Ev as [Ev ?]).
    repeat match goal with X : negb (N.eqb _ _) = true |- _ => apply Bool.negb_true_iff, N.eqb_neq in X end.
    auto.
  - inversion H; subst; cbn [cc_delim]. unfold QUOTE, NL. repeat split; discriminate.
Qed.

(* so c12_csv_faithful needs no hypothesis on the delimiter of a decoder that was built from Params *)
Theorem csv_built_faithful : forall ps c trim_space fields,
  csv_params ps = Ok c ->
  Forall (fun f => index_byte f (cc_delim c) = -1 /\ index_byte f QUOTE = -1 /\ index_byte f NL = -1) fields ->
  csv_line (cc_delim c) fields <> [] ->
  trim_space (last fields []) = last fields [] ->
  decode_csv trim_space (cc_delim c) (csv_line (cc_delim c) fields) = Ok fields.
Proof.
  intros ps c trim_space fields Hc Hf Hne Ht.
  destruct (csv_params_delim ps c Hc) as (_ & Hq & _ & Hn).
  exact (decode_csv_faithful trim_space (cc_delim c) fields Hq Hn Hf Hne Ht).
Qed.

(* the two syslog formats a decoder can be built with are "number" and "string" *)
Theorem syslog_params_formats : forall ps ff sf,
  syslog_params ps = Ok (ff, sf) ->
  (ff = K_number \/ ff = K_string) /\ (sf = K_number \/ sf = K_string).
Proof.
  assert (Hf : forall ps key e1 e2 f, syslog_format ps key e1 e2 = Ok f -> f = K_number \/ f = K_string).
  { intros ps key e1 e2 f H. unfold syslog_format in H.
    destruct (par_get ps key) as [v|]; [|inversion H; auto].
    destruct (any_string v) as [s|]; [|discriminate].
    destruct (bytes_eqb s K_number) eqn:E1; cbn [orb] in H.
    - inversion H; subst. left. apply Proofs.Decoders.JsonCut.bytes_eqb_iff. exact E1.
    - destruct (bytes_eqb s K_string) eqn:E2; [|discriminate].
      inversion H; subst. right. apply Proofs.Decoders.JsonCut.bytes_eqb_iff. exact E2. }
  intros ps ff sf H. unfold syslog_params in H.
  destruct (syslog_format ps K_syslog_facility_format 1 2) as [f|e|p] eqn:E1; cbn [bind] in H; try discriminate.
  destruct (syslog_format ps K_syslog_severity_format 3 4) as [s|e|p] eqn:E2; cbn [bind] in H; try discriminate.
  inversion H; subst. split; [exact (Hf _ _ _ _ _ E1)|exact (Hf _ _ _ _ _ E2)].
Qed.

(* no parameter check panics, whatever the Params hold *)
Theorem params_total : forall kind ps c h m, params_model kind ps c h = Some m -> is_bad_obs m = false.
Proof.
  intros kind ps c h m H. unfold params_model in H.
  repeat match type of H with (if ?b then _ else _) = _ => destruct b end; try discriminate;
    inversion H; subst; clear H.
  - assert (forall p, json_params ps <> Panic p) as Hn.
    { intros p. unfold json_params. destruct (par_get ps K_json_max_fields_size) as [v|]; [|discriminate].
      destruct (as_tagged 4 v) as [entries|]; [|discriminate].
      induction entries as [|e r IH]; cbn [json_limits]; [discriminate|].
      destruct e as [z|b|[|[z|k|l] [|v0 [|x t]]]]; try discriminate.
      destruct (any_to_int v0) as [n|]; [|discriminate]. destruct (n <? 0); [discriminate|].
      destruct (json_limits r) as [rest|e|q]; cbn [bind]; try discriminate. exact IH. }
    destruct (json_params ps) as [ls|e|p]; [reflexivity|reflexivity|exfalso; exact (Hn p eq_refl)].
  - unfold nginx_params. destruct (par_get ps K_nginx_with_custom_fields) as [v|]; [|reflexivity].
    destruct (any_bool v); reflexivity.
  - unfold syslog_params, syslog_format.
    destruct (par_get ps K_syslog_facility_format) as [v|]; cbn [bind].
    + destruct (any_string v) as [s|]; [|reflexivity]. destruct (_ || _); cbn [bind]; [|reflexivity].
      destruct (par_get ps K_syslog_severity_format) as [w|]; cbn [bind]; [|reflexivity].
      destruct (any_string w) as [s2|]; [|reflexivity]. destruct (_ || _); reflexivity.
    + destruct (par_get ps K_syslog_severity_format) as [w|]; cbn [bind]; [|reflexivity].
      destruct (any_string w) as [s2|]; [|reflexivity]. destruct (_ || _); reflexivity.
  - assert (forall vs p, csv_columns vs <> Panic p) as Hc.
    { induction vs as [|v r IH]; intros p; cbn [csv_columns]; [discriminate|].
      destruct (any_string v); [|discriminate]. destruct (csv_columns r) as [x|e|q] eqn:E; cbn [bind]; try discriminate.
      exfalso. exact (IH q eq_refl). }
    unfold csv_params.
    destruct (par_get ps K_columns) as [v|].
    + destruct (as_tagged 3 v) as [vs|]; cbn [bind]; [|reflexivity].
      pose proof (Hc vs) as Hv. destruct (csv_columns vs) as [cols|e|p]; cbn [bind]; [|reflexivity|exfalso; exact (Hv p eq_refl)].
      destruct (par_get ps K_prefix) as [v1|]; [destruct (any_string v1)|]; cbn [bind]; try reflexivity;
      (destruct (par_get ps K_invalid_line_mode) as [w|]; [destruct (any_string w)|]; cbn [bind]; try reflexivity;
       (destruct (par_get ps K_delimiter) as [u|]; [destruct (any_string u) as [[|d [|d2 r]]|]|]; cbn [bind]; try reflexivity;
        destruct (valid_delim_byte d); reflexivity)).
    + cbn [bind].
      destruct (par_get ps K_prefix) as [v|]; [destruct (any_string v)|]; cbn [bind]; try reflexivity;
      (destruct (par_get ps K_invalid_line_mode) as [w|]; [destruct (any_string w)|]; cbn [bind]; try reflexivity;
       (destruct (par_get ps K_delimiter) as [u|]; [destruct (any_string u) as [[|d [|d2 r]]|]|]; cbn [bind]; try reflexivity;
        destruct (valid_delim_byte d); reflexivity)).
  - unfold proto_params.
    destruct (par_get ps K_proto_file) as [f|]; [|reflexivity]. destruct (any_string f); [|reflexivity].
    destruct (par_get ps K_proto_message) as [mm|]; [|reflexivity]. destruct (any_string mm); [|reflexivity].
    destruct (par_get ps K_proto_import_paths) as [v|].
    + destruct (as_tagged 3 v) as [vs|]; [|reflexivity].
      destruct (all_strings vs), c, h; reflexivity.
    + destruct c, h; reflexivity.
Qed.
