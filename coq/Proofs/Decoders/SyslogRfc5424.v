From Verif Require Import Base.Sx Base.GoSem Model.Decoders.Common Model.Decoders.Syslog Model.Decoders.SyslogRfc5424
  Proofs.Decoders.Common Proofs.Decoders.Syslog.
From Coq Require Import Lia ZifyBool.

Lemma read_until_spec data :
  match read_until_sp_or_nil data with
  | Ok (o, true) => (o = 0 /\ 2 <= len data) \/ (0 < o < len data)
  | Ok (_, false) => True
  | _ => False
  end.
Proof.
  unfold read_until_sp_or_nil. destruct (len data <? 2) eqn:Hl; [exact I|].
  step_idx c0. step_idx c1.
  destruct (beq c0 DASH && beq c1 SP); [left; lia|].
  name_index_byte offset. destruct (0 <? offset) eqn:Ho; [right; lia|exact I].
Qed.

Lemma s5424_field_total data e p : s5424_field data e <> Panic p.
Proof.
  unfold s5424_field. pose proof (read_until_spec data) as H.
  destruct (read_until_sp_or_nil data) as [[o [|]]|e'|q]; cbn [bind negb]; try contradiction; try discriminate.
  unfold slice_from, slice_to.
  destruct (o =? 0) eqn:Ho.
  - step_slice d. discriminate.
  - step_slice v. step_slice d. discriminate.
Qed.

Lemma count_digits_bounds l : 0 <= count_digits l <= len l.
Proof.
  induction l as [|c l IH]; cbn [count_digits]; [unfold len; cbn; lia|].
  rewrite len_cons. destruct (is_digit c); lia.
Qed.

Lemma s5424_validate_timestamp_total ts p : s5424_validate_timestamp ts <> Panic p.
Proof.
  unfold s5424_validate_timestamp.
  destruct (len ts <? 20) eqn:Hl; [discriminate|].
  step_idx c4. step_idx c7. step_idx c10. step_idx c13. step_idx c16.
  destruct (negb _); [discriminate|].
  unfold slice_to, slice_from. step_slice y. step_slice mo. step_slice d.
  destruct (negb _); [discriminate|].
  step_slice hh. step_slice mi. step_slice ss.
  destruct (negb _); [discriminate|].
  step_slice ts1.
  assert (Htz : forall t q,
    (z <- (if 0 <? len t then c0 <- idx t 0 ;; Ok (beq c0 90%N) else Ok false) ;;
     if z then Ok true else
     if len t <? 6 then Ok false else
     c0 <- idx t 0 ;; c3 <- idx t 3 ;;
     if negb ((beq c0 43%N || beq c0 DASH) && beq c3 COLON) then Ok false else
     hh <- slice t 1 3 ;; mm <- slice t 4 6 ;;
     if negb (check_number hh 0 23 && check_number mm 0 59) then Ok false else Ok true) <> Panic q).
  { intros t q. destruct (0 <? len t) eqn:H0.
    - step_idx c0. destruct (beq c0 90%N); [discriminate|].
      destruct (len t <? 6) eqn:H6; [discriminate|].
      step_idx c3.
      destruct (negb _); [discriminate|].
      step_slice h2. step_slice m2. destruct (negb _); discriminate.
    - cbn [bind]. replace (len t <? 6) with true by lia. discriminate. }
  destruct (2 <=? len ts1) eqn:H2.
  - step_idx c0. step_idx c1.
    destruct (beq c0 46%N && is_digit c1); [|cbn [bind]; apply Htz].
    step_slice r2. pose proof (count_digits_bounds r2) as Bc.
    destruct (7 <? 2 + count_digits r2) eqn:H7; [discriminate|].
    step_slice t. apply Htz.
  - cbn [bind]. apply Htz.
Qed.

Lemma sd_params_loop_spec : forall r data i sI sV inside pid params,
  len r + i = len data -> 0 <= i -> 0 <= sI <= i -> 0 <= sV <= i ->
  match sd_params_loop r data i sI sV inside pid params with
  | Ok (Some (j, _)) => i <= j < len data
  | Ok None => True
  | Err _ => True
  | Panic _ => False
  end.
Proof.
  induction r as [|b r IH]; intros data i sI sV inside pid params Hlen Hi HsI HsV; cbn [sd_params_loop]; [exact I|].
  rewrite len_cons in Hlen. pose proof (len_nonneg r) as Hr.
  assert (Hrec : forall sI' sV' inside' pid' params', 0 <= sI' <= i + 1 -> 0 <= sV' <= i + 1 ->
     match sd_params_loop r data (i + 1) sI' sV' inside' pid' params' with
     | Ok (Some (j, _)) => i <= j < len data
     | Ok None => True
     | Err _ => True
     | Panic _ => False
     end).
  { intros sI' sV' inside' pid' params' H1 H2.
    specialize (IH data (i + 1) sI' sV' inside' pid' params' ltac:(lia) ltac:(lia) H1 H2).
    destruct (sd_params_loop r data (i + 1) sI' sV' inside' pid' params') as [[[j ?]|]|?|?]; try exact IH. lia. }
  destruct (beq b 93%N).
  { destruct (i =? 0) eqn:E0; [exact I|]. step_idx c. destruct (negb (beq c QUOTE)); [exact I|]. lia. }
  destruct (beq b SP && negb inside). { apply Hrec; lia. }
  destruct (beq b 61%N && negb inside).
  { destruct (i + 1 <? len data) eqn:E1.
    - step_idx c. destruct (negb (beq c QUOTE)); [exact I|]. step_slice pid'. apply Hrec; lia.
    - cbn [bind]. step_slice pid'. apply Hrec; lia. }
  destruct (beq b QUOTE).
  { assert (Hq : forall esc,
      match (if esc : bool then sd_params_loop r data (i + 1) sI sV inside pid params
             else if inside then
               v <- slice data sV i ;;
               sd_params_loop r data (i + 1) sI sV false pid (map_set params pid v)
             else sd_params_loop r data (i + 1) sI (i + 1) true pid params) with
      | Ok (Some (j, _)) => i <= j < len data
      | Ok None => True
      | Err _ => True
      | Panic _ => False
      end).
    { intros [|]; [apply Hrec; lia|]. destruct inside; [|apply Hrec; lia].
      step_slice v. apply Hrec; lia. }
    destruct (0 <? i) eqn:E0.
    - step_idx c. exact (Hq (beq c 92%N)).
    - cbn [bind]. exact (Hq false). }
  apply Hrec; lia.
Qed.

Lemma sd_loop_spec : forall fuel data offset wasOpen sd,
  len data < Z.of_nat fuel -> 0 <= offset ->
  match sd_loop fuel data offset wasOpen sd with
  | Ok (_, o, _) => 0 <= o
  | Err _ => True
  | Panic _ => False
  end.
Proof.
  induction fuel as [|f IH]; intros data offset wasOpen sd Hf Ho; cbn [sd_loop].
  - pose proof (len_nonneg data). lia.
  - destruct (len data <=? 0) eqn:H0; [exact Ho|].
    step_idx c. destruct (negb (beq c 91%N)); [exact Ho|].
    unfold slice_from, slice_to. step_slice d1.
    name_index_byte i. destruct (i <? 2) eqn:Hi2; [exact I|].
    step_slice sdID. step_slice d2.
    pose proof (sd_params_loop_spec d2 d2 0 0 0 false [] [] ltac:(lia) ltac:(lia) ltac:(lia) ltac:(lia)) as HP.
    destruct (sd_params_loop d2 d2 0 0 0 false [] []) as [[[j params]|]|e|q]; cbn [bind]; try exact I; try contradiction.
    step_slice d3. apply IH; lia.
Qed.

Lemma parse_sd_spec data :
  match parse_sd data with
  | Ok (_, o) => 0 <= o
  | Err _ => True
  | Panic _ => False
  end.
Proof.
  unfold parse_sd.
  assert (Hloop :
    match (' (sd, offset, wasOpen) <- sd_loop (S (length data)) data 0 false [] ;;
           if negb wasOpen then Err E_SD else Ok (sd, offset)) with
    | Ok (_, o) => 0 <= o | Err _ => True | Panic _ => False end).
  { pose proof (sd_loop_spec (S (length data)) data 0 false [] ltac:(unfold len; lia) ltac:(lia)) as H.
    destruct (sd_loop (S (length data)) data 0 false []) as [[[sd o] w]|e|q]; cbn [bind]; try exact H.
    destruct (negb w); [exact I|exact H]. }
  destruct (0 <? len data) eqn:H0; [|cbn [bind]; exact Hloop].
  step_idx c0. destruct (beq c0 DASH); [|exact Hloop].
  destruct (len data =? 1) eqn:H1; cbn [bind]; [lia|].
  step_idx c1. destruct (beq c1 SP); [lia|exact I].
Qed.

Theorem decode_s5424_total : forall fac_str sev_str data p, decode_s5424 fac_str sev_str data <> Panic p.
Proof.
  intros fs ss data0 p. unfold decode_s5424.
  set (data := trim_nl data0). clearbody data. clear data0.
  destruct (len data =? 0) eqn:H0; [discriminate|].
  pose proof (syslog_parse_priority_spec data) as HP.
  destruct (syslog_parse_priority data) as [[pri offset]|e|q]; cbn [bind]; [|discriminate|contradiction].
  destruct HP as (HP1 & HP2 & HP3).
  unfold slice_from, slice_to. step_slice priority. step_slice d1.
  name_index_byte off1. destruct (off1 <=? 0) eqn:Ho1; [discriminate|].
  step_slice ver. destruct (atoi ver); [|discriminate].
  step_slice d2. clear Hoff1 Noff1.
  pose proof (read_until_spec d2) as HR.
  destruct (read_until_sp_or_nil d2) as [[o [|]]|e|q]; cbn [bind negb]; try contradiction; try discriminate.
  (* the four header fields, the structured data and the message, for any timestamp / rest *)
  assert (Htail : forall ts d q,
    (' (host, data1) <- s5424_field d E_FORMAT ;;
     ' (app, data2) <- s5424_field data1 E_FORMAT ;;
     ' (procid, data3) <- s5424_field data2 E_FORMAT ;;
     ' (msgid, data4) <- s5424_field data3 E_FORMAT ;;
     ' (sd, offset0) <- parse_sd data4 ;;
     (if len data4 <=? offset0
      then Ok {| s5_pri := priority; s5_fac := facility_of pri fs; s5_sev := severity_of pri ss; s5_ver := ver;
                 s5_ts := ts; s5_host := host; s5_app := app; s5_procid := procid; s5_msgid := msgid;
                 s5_msg := []; s5_sd := sd |}
      else
        data5 <- slice data4 (offset0 + 1) (len data4) ;;
        data6 <- (if 0 <? len data5 then c <- idx data5 0 ;; (if beq c SP then slice data5 1 (len data5) else Ok data5)
                  else Ok data5) ;;
        data7 <- (if 2 <? len data6 then pre <- slice data6 0 3 ;;
                                        (if bytes_eqb pre BOM then slice data6 3 (len data6) else Ok data6)
                  else Ok data6) ;;
        Ok {| s5_pri := priority; s5_fac := facility_of pri fs; s5_sev := severity_of pri ss; s5_ver := ver;
              s5_ts := ts; s5_host := host; s5_app := app; s5_procid := procid; s5_msgid := msgid;
              s5_msg := data7; s5_sd := sd |})) <> Panic q).
  { intros ts d q.
    destruct (s5424_field d E_FORMAT) as [[host a1]|e|q'] eqn:F1; cbn [bind]; [|discriminate|exfalso; exact (s5424_field_total _ _ _ F1)].
    destruct (s5424_field a1 E_FORMAT) as [[appn a2]|e|q'] eqn:F2; cbn [bind]; [|discriminate|exfalso; exact (s5424_field_total _ _ _ F2)].
    destruct (s5424_field a2 E_FORMAT) as [[procid a3]|e|q'] eqn:F3; cbn [bind]; [|discriminate|exfalso; exact (s5424_field_total _ _ _ F3)].
    destruct (s5424_field a3 E_FORMAT) as [[msgid a4]|e|q'] eqn:F4; cbn [bind]; [|discriminate|exfalso; exact (s5424_field_total _ _ _ F4)].
    pose proof (parse_sd_spec a4) as HS.
    destruct (parse_sd a4) as [[sd o4]|e|q']; cbn [bind]; [|discriminate|contradiction].
    destruct (len a4 <=? o4) eqn:H4; [discriminate|].
    step_slice a5.
    assert (exists a6, (if 0 <? len a5 then c <- idx a5 0 ;; (if beq c SP then slice a5 1 (len a5) else Ok a5) else Ok a5) = Ok a6)
      as (a6 & ->).
    { destruct (0 <? len a5) eqn:H5; [|eauto]. step_idx c. destruct (beq c SP); [|eauto]. step_slice m. eauto. }
    cbn [bind].
    destruct (2 <? len a6) eqn:H6; [|discriminate].
    step_slice pre. destruct (bytes_eqb pre BOM); [|discriminate]. step_slice m. discriminate. }
  destruct (o =? 0) eqn:Eo.
  - step_slice d3. apply Htail.
  - step_slice ts.
    destruct (s5424_validate_timestamp ts) as [[|]|e|q] eqn:EV; cbn [bind negb]; try discriminate.
    + step_slice d3. apply Htail.
    + exfalso. exact (s5424_validate_timestamp_total _ _ EV).
Qed.
