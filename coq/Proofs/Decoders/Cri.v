From Verif Require Import Base.Sx Base.GoSem Model.Decoders.Common Model.Decoders.Cri Proofs.Decoders.Common.
From Coq Require Import Lia ZifyBool.

(* the stream loop never panics and never runs out of fuel: every iteration consumes >= 1 byte *)
Lemma cri_stream_loop_total : forall fuel stream data p,
  len data < Z.of_nat fuel -> cri_stream_loop fuel stream data <> Panic p.
Proof.
  induction fuel as [|f IH]; intros stream data p Hf; cbn [cri_stream_loop].
  - pose proof (len_nonneg data). lia.
  - destruct (len stream =? 6); [discriminate|].
    name_index_byte pos. destruct (pos <? 0) eqn:Hp; [discriminate|].
    unfold slice_to, slice_from. step_slice s. step_slice d.
    apply IH. lia.
Qed.

Theorem decode_cri_total : forall data p, decode_cri data <> Panic p.
Proof.
  intros data p. unfold decode_cri.
  name_index_byte pos. destruct (pos <? 0) eqn:Hp; [discriminate|].
  unfold slice_to, slice_from. step_slice time. step_slice d1.
  destruct (cri_stream_loop (S (length d1)) [] d1) as [[stream d2]|e|q] eqn:EL; cbn [bind]; [|discriminate|].
  2:{ exfalso. apply (cri_stream_loop_total (S (length d1)) [] d1 q); [unfold len; lia|exact EL]. }
  name_index_byte pos2. destruct (pos2 <? 0) eqn:Hp2; [discriminate|].
  step_slice tags. step_slice d3.
  destruct (len tags =? 0) eqn:Ht; [discriminate|].
  step_idx t0.
  destruct (beq t0 80%N && (0 <? len d3)) eqn:Hc.
  - step_slice lg. discriminate.
  - cbn [bind]. discriminate.
Qed.

(* ---- faithfulness ---------------------------------------------------------------------------- *)
Lemma slice_to_removelast (l : bytes) : 0 < len l -> slice_to l (len l - 1) = Ok (removelast l).
Proof.
  intros H. destruct (@exists_last _ l) as (l' & x & ->).
  { intros ->. unfold len in H. cbn in H. lia. }
  rewrite removelast_last. rewrite len_app. change (len [x]) with 1.
  replace (len l' + 1 - 1) with (len l') by lia. apply slice_to_app.
Qed.

(* a line assembled from a space-free time, a space-free 6-byte stream name (stdout / stderr),
   a non-empty space-free tag and any log content decodes to exactly those fields; a partial line
   (tag starting with P) loses its last byte, which is the newline the file input leaves there *)
Theorem decode_cri_faithful : forall time stream t0 tag log,
  index_byte time SP = -1 -> index_byte stream SP = -1 -> len stream = 6 ->
  index_byte (t0 :: tag) SP = -1 ->
  decode_cri (cri_line time stream (t0 :: tag) log) =
  Ok {| cri_time := time; cri_stream := stream; cri_partial := beq t0 80%N;
        cri_log := if beq t0 80%N then removelast log else log |}.
Proof.
  intros time stream t0 tag log Ht Hs Hs6 Hg. unfold decode_cri, cri_line.
  rewrite (index_byte_app_notin time SP _ Ht).
  pose proof (len_nonneg time). replace (len time <? 0) with false by lia.
  rewrite slice_to_app. cbn [bind]. rewrite slice_from_app_cons. cbn [bind].
  (* first iteration of the loop finds the stream *)
  cbn [cri_stream_loop]. change (len (@nil byte)) with 0. cbn [Z.eqb].
  rewrite (index_byte_app_notin stream SP _ Hs). replace (len stream <? 0) with false by lia.
  rewrite slice_to_app. cbn [bind]. rewrite slice_from_app_cons. cbn [bind].
  destruct (length (stream ++ SP :: (t0 :: tag) ++ SP :: log)) as [|n]; cbn [cri_stream_loop];
    rewrite Hs6; cbn [Z.eqb Pos.eqb bind].
  - (* tags *)
    rewrite (index_byte_app_notin (t0 :: tag) SP _ Hg).
    pose proof (len_nonneg (t0 :: tag)). replace (len (t0 :: tag) <? 0) with false by lia.
    rewrite slice_to_app. cbn [bind]. rewrite slice_from_app_cons. cbn [bind].
    rewrite len_cons. pose proof (len_nonneg tag). replace (len tag + 1 =? 0) with false by lia.
    rewrite idx_cons_0. cbn [bind].
    destruct (beq t0 80%N) eqn:Hp; cbn [andb].
    + destruct (0 <? len log) eqn:Hl.
      * rewrite slice_to_removelast by lia. reflexivity.
      * assert (log = []) as -> by (apply len_zero_nil; pose proof (len_nonneg log); lia). reflexivity.
    + reflexivity.
  - rewrite (index_byte_app_notin (t0 :: tag) SP _ Hg).
    pose proof (len_nonneg (t0 :: tag)). replace (len (t0 :: tag) <? 0) with false by lia.
    rewrite slice_to_app. cbn [bind]. rewrite slice_from_app_cons. cbn [bind].
    rewrite len_cons. pose proof (len_nonneg tag). replace (len tag + 1 =? 0) with false by lia.
    rewrite idx_cons_0. cbn [bind].
    destruct (beq t0 80%N) eqn:Hp; cbn [andb].
    + destruct (0 <? len log) eqn:Hl.
      * rewrite slice_to_removelast by lia. reflexivity.
      * assert (log = []) as -> by (apply len_zero_nil; pose proof (len_nonneg log); lia). reflexivity.
    + reflexivity.
Qed.
