From Verif Require Import Base.Sx Base.GoSem Model.Decoders.Common Model.Decoders.Nginx Proofs.Decoders.Common.
From Coq Require Import Lia ZifyBool.

(* ---- spaceSplit: strictly ascending positions of spaces inside the input -------------------- *)
Fixpoint asc_from (lo : Z) (l : list Z) : Prop :=
  match l with [] => True | e :: r => lo <= e /\ asc_from (e + 1) r end.

Lemma asc_from_weaken l : forall lo lo', lo' <= lo -> asc_from lo l -> asc_from lo' l.
Proof. destruct l; cbn; [trivial|]. intros lo lo' H [H1 H2]. split; [lia|exact H2]. Qed.

Lemma space_split_asc b : forall i limit, asc_from i (space_split_from b i limit).
Proof.
  induction b as [|c b IH]; intros i limit; destruct limit as [|k]; cbn [space_split_from asc_from]; trivial.
  destruct (beq c SP).
  - cbn [asc_from]. split; [lia|apply IH].
  - apply (asc_from_weaken _ (i + 1)); [lia|apply IH].
Qed.

Lemma space_split_in b : forall i limit,
  Forall (fun e => i <= e < i + len b /\ idx b (e - i) = Ok SP) (space_split_from b i limit).
Proof.
  induction b as [|c b IH]; intros i limit; destruct limit as [|k]; cbn [space_split_from]; try constructor.
  destruct (beq c SP) eqn:E.
  - constructor.
    + rewrite len_cons. pose proof (len_nonneg b). split; [lia|].
      replace (i - i) with 0 by lia. rewrite idx_cons_0. apply N.eqb_eq in E. congruence.
    + eapply Forall_impl; [|apply IH]. cbn beta. intros e [H1 H2]. rewrite len_cons. split; [lia|].
      rewrite idx_cons_S by lia. replace (e - i - 1) with (e - (i + 1)) by lia. exact H2.
  - eapply Forall_impl; [|apply IH]. cbn beta. intros e [H1 H2]. rewrite len_cons. split; [lia|].
    rewrite idx_cons_S by lia. replace (e - i - 1) with (e - (i + 1)) by lia. exact H2.
Qed.

Lemma idx_1 {A} (a b : A) r : idx (a :: b :: r) 1 = Ok b.
Proof. rewrite idx_cons_S by lia. apply idx_cons_0. Qed.
Lemma idx_2 {A} (a b c : A) r : idx (a :: b :: c :: r) 2 = Ok c.
Proof. rewrite idx_cons_S by lia. apply idx_1. Qed.
Lemma idx_3 {A} (a b c d : A) r : idx (a :: b :: c :: d :: r) 3 = Ok d.
Proof. rewrite idx_cons_S by lia. apply idx_2. Qed.
Lemma idx_4 {A} (a b c d e : A) r : idx (a :: b :: c :: d :: e :: r) 4 = Ok e.
Proof. rewrite idx_cons_S by lia. apply idx_3. Qed.

(* ---- pid#tid loop ---------------------------------------------------------------------------- *)
Lemma ng_pid_loop_total : forall n data i pidc pid tid p,
  0 <= i -> i + Z.of_nat n <= len data -> ng_pid_loop n data i pidc pid tid <> Panic p.
Proof.
  induction n as [|k IH]; intros data i pidc pid tid p Hi Hn; cbn [ng_pid_loop]; [discriminate|].
  step_idx c.
  destruct (beq c 35%N); [apply IH; lia|].
  destruct (beq c 58%N); [discriminate|].
  destruct pidc; apply IH; lia.
Qed.

(* ---- bytes.LastIndex ------------------------------------------------------------------------- *)
Lemma has_prefix_len l : forall p, has_prefix l p = true -> len p <= len l.
Proof.
  induction l as [|x l IH]; intros p; destruct p as [|y p]; cbn [has_prefix]; intros H.
  - lia.
  - discriminate.
  - rewrite len_nil. apply len_nonneg.
  - apply andb_true_iff in H. destruct H as [_ H]. apply IH in H. rewrite !len_cons. lia.
Qed.

Lemma last_index_sub_from_bounds needle l : forall i best,
  last_index_sub_from l needle i best = best \/
  (i <= last_index_sub_from l needle i best /\ last_index_sub_from l needle i best + len needle <= i + len l).
Proof.
  induction l as [|x l IH]; intros i best; cbn [last_index_sub_from].
  - destruct (has_prefix [] needle) eqn:E; [|left; reflexivity].
    right. apply has_prefix_len in E. lia.
  - rewrite len_cons. destruct (has_prefix (x :: l) needle) eqn:E.
    + apply has_prefix_len in E. rewrite len_cons in E.
      destruct (IH (i + 1) i) as [->|H]; right; lia.
    + destruct (IH (i + 1) best) as [->|H]; [left; reflexivity|right; lia].
Qed.

Lemma last_index_sub_bounds l needle :
  last_index_sub l needle = -1 \/ (0 <= last_index_sub l needle /\ last_index_sub l needle + len needle <= len l).
Proof. unfold last_index_sub. destruct (last_index_sub_from_bounds needle l 0 (-1)); [left|right]; lia. Qed.

(* ---- extractCustomFields --------------------------------------------------------------------- *)
Lemma ng_fields_loop_total only_letters : forall fuel data fields p,
  len data < Z.of_nat fuel -> ng_fields_loop only_letters fuel data fields <> Panic p.
Proof.
  induction fuel as [|f IH]; intros data fields p Hf; cbn [ng_fields_loop].
  - pose proof (len_nonneg data). lia.
  - destruct (len data <=? 0); [discriminate|].
    pose proof (last_index_sub_bounds data [44%N; SP]) as Bs.
    change (len [44%N; SP]) with 2 in Bs.
    set (sepIdx := last_index_sub data [44%N; SP]) in *.
    destruct (sepIdx =? -1) eqn:Es; [discriminate|].
    unfold slice_from, slice_to. step_slice field.
    name_index_byte i. destruct (i =? -1) eqn:Ei; [discriminate|].
    step_slice key.
    destruct (negb (only_letters key)); [discriminate|].
    step_slice rest.
    destruct (1 <? len rest) eqn:Er.
    + step_slice v. step_slice data'. apply IH. lia.
    + cbn [bind]. step_slice data'. apply IH. lia.
Qed.

Lemma ng_extract_total only_letters wc data p : ng_extract only_letters wc data <> Panic p.
Proof.
  unfold ng_extract. destruct (negb wc); [discriminate|].
  apply ng_fields_loop_total. unfold len. lia.
Qed.

(* ---- Decode ---------------------------------------------------------------------------------- *)
Theorem decode_nginx_total : forall only_letters with_custom data p,
  decode_nginx only_letters with_custom data <> Panic p.
Proof.
  intros only_letters wc data0 p. unfold decode_nginx.
  set (data := trim_nl data0). clearbody data. clear data0.
  pose proof (space_split_asc data 0 5) as Hasc. pose proof (space_split_in data 0 5) as Hin.
  fold (space_split data 5) in Hasc, Hin.
  destruct (space_split data 5) as [|s0 [|s1 [|s2 [|s3 rest]]]]; try (cbn; discriminate).
  rewrite !len_cons. pose proof (len_nonneg rest) as Hrest.
  replace (len rest + 1 + 1 + 1 + 1 <? 4) with false by lia.
  rewrite idx_1, idx_2, idx_3. cbn [bind].
  cbn [asc_from] in Hasc. destruct Hasc as (A0 & A1 & A2 & A3 & A4).
  inversion Hin as [|? ? I0 Hin1]; subst. inversion Hin1 as [|? ? I1 Hin2]; subst.
  inversion Hin2 as [|? ? I2 Hin3]; subst. inversion Hin3 as [|? ? I3 Hin4]; subst.
  cbn beta in I0, I1, I2, I3. rewrite Z.sub_0_r in *.
  destruct I1 as [I1 _]. destruct I2 as [I2 _]. destruct I3 as [I3 J3]. clear I0 Hin Hin1 Hin2 Hin3.
  unfold slice_to, slice_from. step_slice time.
  destruct (s2 - s1 <? 4) eqn:Hl; [discriminate|].
  step_slice level.
  destruct (ng_pid_loop (Z.to_nat (s3 - (s2 + 1))) data (s2 + 1) false [] []) as [[[[pidc tidc] pid] tid]|e|q] eqn:EP;
    cbn [bind]; [|discriminate|].
  2:{ exfalso. apply (ng_pid_loop_total _ _ _ _ _ _ q) in EP; [exact EP|lia|lia]. }
  destruct (negb (pidc && tidc)); [discriminate|].
  destruct (len data <=? s3 + 1) eqn:Hd; [discriminate|].
  assert (Hplain : forall q,
    (rest0 <- slice data (s3 + 1) (len data) ;;
     ' (msg, fs) <- ng_extract only_letters wc rest0 ;;
     Ok {| ng_time := time; ng_level := level; ng_pid := rev' pid; ng_tid := rev' tid;
           ng_cid := []; ng_msg := msg; ng_fields := fs |}) <> Panic q).
  { intros q. step_slice r0.
    destruct (ng_extract only_letters wc r0) as [[msg fs]|e|q'] eqn:EX; cbn [bind]; try discriminate.
    exfalso. exact (ng_extract_total _ _ _ _ EX). }
  destruct (4 <? len rest + 1 + 1 + 1 + 1) eqn:H4; [|apply Hplain].
  step_idx c.
  destruct (beq c 42%N) eqn:Hc; [|apply Hplain].
  destruct rest as [|s4 rest']; [rewrite len_nil in H4; lia|].
  rewrite idx_4. cbn [bind].
  cbn [asc_from] in A4. destruct A4 as [A4 _].
  inversion Hin4 as [|? ? I4 _]; subst. cbn beta in I4. rewrite Z.sub_0_r in I4. destruct I4 as [I4 J4].
  assert (s4 <> s3 + 1).
  { intros ->. rewrite J4 in Ec. injection Ec as <-. discriminate Hc. }
  step_slice cid.
  destruct (s4 + 1 <? len data) eqn:H5; [|discriminate].
  step_slice r1.
  destruct (ng_extract only_letters wc r1) as [[msg fs]|e|q'] eqn:EX; cbn [bind]; try discriminate.
  exfalso. exact (ng_extract_total _ _ _ _ EX).
Qed.
