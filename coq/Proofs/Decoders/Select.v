(* Proofs about the decoder selection (Model/Decoders/Select.v): whatever name is configured and whatever is suggested,
   a pipeline that starts runs a decoder the switch of In knows, and when the switch goes through p.decoder that
   decoder exists and has the pipeline's type. *)
From Verif Require Import Base.Sx Base.GoSem Model.Decoders.Common Model.Decoders.ToJson Model.Decoders.Select.
From Coq Require Import Lia.

(* decoder object and type agree, a type without an object is one of the four In handles itself *)
Definition ps_wf (st : pstate) : Prop :=
  (has_decoder_object (ps_type st) = true /\ ps_dec st = NewDec (ps_type st)) \/
  (has_decoder_object (ps_type st) = false /\ ps_dec st = NewNil /\
   (ps_type st = 3 \/ ps_type st = 4 \/ ps_type st = 5 \/ ps_type st = 1)).

Lemma decoder_new_wf : forall pok t b,
  decoder_new pok t <> NewErr ->
  ps_wf {| ps_type := t; ps_dec := decoder_new pok t; ps_params := b |}.
Proof.
  intros pok t b Hne. unfold ps_wf, decoder_new in *. cbn [ps_type ps_dec].
  destruct (has_decoder_object t) eqn:Ho.
  - left. split; [reflexivity|]. destruct (pok t); [reflexivity|contradiction].
  - right. split; [reflexivity|].
    destruct (Z.eqb_spec t 3) as [->|H3]; cbn [orb]; [auto|].
    destruct (Z.eqb_spec t 4) as [->|H4]; cbn [orb]; [auto|].
    destruct (Z.eqb_spec t 5) as [->|H5]; cbn [orb]; [auto 6|].
    destruct (Z.eqb_spec t 1) as [->|H1]; cbn [orb]; [auto 6|contradiction].
Qed.

Lemma pipe_new_wf : forall pok name st, pipe_new pok name = Some st -> ps_wf st.
Proof.
  intros pok name st H. unfold pipe_new in H.
  destruct (type_from_string name =? 0); [discriminate|].
  destruct (decoder_new pok (type_from_string name)) eqn:E; try discriminate;
    inversion H; subst; rewrite <- E; apply decoder_new_wf; rewrite E; discriminate.
Qed.

Lemma pipe_suggest_wf : forall pok st s st', ps_wf st -> pipe_suggest pok st s = Some st' -> ps_wf st'.
Proof.
  intros pok st s st' Hwf H. unfold pipe_suggest in H.
  destruct (negb (ps_type st =? 1) || (s =? 0)); [inversion H; subst; exact Hwf|].
  destruct (decoder_new pok s) eqn:E; try discriminate;
    inversion H; subst; rewrite <- E; apply decoder_new_wf; rewrite E; discriminate.
Qed.

Lemma pipe_suggest_all_wf : forall pok ss st st', ps_wf st -> pipe_suggest_all pok st ss = Some st' -> ps_wf st'.
Proof.
  induction ss as [|s r IH]; intros st st' Hwf H; cbn [pipe_suggest_all] in H.
  - inversion H; subst; exact Hwf.
  - destruct (pipe_suggest pok st s) as [st1|] eqn:E; [|discriminate].
    exact (IH st1 st' (pipe_suggest_wf pok st s st1 Hwf E) H).
Qed.

Lemma pipe_start_wf : forall st, ps_wf st -> ps_wf (pipe_start st) /\ ps_type (pipe_start st) <> 1.
Proof.
  intros st Hwf. unfold pipe_start. destruct (Z.eqb_spec (ps_type st) 1) as [E|E].
  - split; [left; split; reflexivity|cbn; lia].
  - split; [exact Hwf|exact E].
Qed.

(* THE clause "Pipeline.In selects the decoder": for every configured name, every list of suggestions and every
   judgement of the constructors on the params, if the pipeline starts at all (no Fatal) then the switch of In does not
   reach its default (logger.Panic "unknown decoder"), the type is not AUTO any more, and when the switch calls
   p.decoder.DecodeToJson that decoder is not nil and is of the pipeline's type *)
Theorem resolve_safe : forall pok name suggested st,
  pipe_resolve pok name suggested = Some st ->
  in_route (ps_type st) <> RUnknown /\ ps_type st <> 1 /\
  (in_route (ps_type st) = RDecoder -> ps_dec st = NewDec (ps_type st)).
Proof.
  intros pok name ss st H. unfold pipe_resolve in H.
  destruct (pipe_new pok name) as [st0|] eqn:E0; [|discriminate].
  destruct (pipe_suggest_all pok st0 ss) as [st1|] eqn:E1; [|discriminate].
  inversion H; subst st; clear H.
  destruct (pipe_start_wf st1 (pipe_suggest_all_wf pok ss st0 st1 (pipe_new_wf pok name st0 E0) E1)) as [Hwf Hne].
  set (st := pipe_start st1) in *. clearbody st. unfold in_route.
  destruct Hwf as [[Ho Hd]|[Ho [Hd Ht]]]; rewrite Ho; cbv beta iota.
  - split; [discriminate|]. split; [exact Hne|]. intros _. exact Hd.
  - split; [|split; [exact Hne|]].
    + destruct Ht as [E|[E|[E|E]]]; rewrite E in *; cbn; first [discriminate | exfalso; apply Hne; reflexivity].
    + destruct Ht as [E|[E|[E|E]]]; rewrite E in *; cbn; first [discriminate | exfalso; apply Hne; reflexivity].
Qed.

(* a suggestion reaches only a pipeline configured as "auto", and only the first one that is a type counts *)
Theorem suggest_only_auto : forall pok st s, ps_type st <> 1 -> pipe_suggest pok st s = Some st.
Proof.
  intros pok st s H. unfold pipe_suggest. destruct (Z.eqb_spec (ps_type st) 1); [contradiction|reflexivity].
Qed.

(* the name table: every type 1..10 has a name that TypeFromString takes back to it; anything else is NO or a type *)
Theorem type_name_roundtrip : forall t, 1 <= t <= 10 -> type_from_string (type_name t) = t.
Proof.
  intros t H.
  assert (t = 1 \/ t = 2 \/ t = 3 \/ t = 4 \/ t = 5 \/ t = 6 \/ t = 7 \/ t = 8 \/ t = 9 \/ t = 10) as Hc by lia.
  repeat (destruct Hc as [->|Hc]; [reflexivity|]). subst. reflexivity.
Qed.

Theorem type_from_string_range : forall s, 0 <= type_from_string s <= 10.
Proof.
  intros s. unfold type_from_string, type_names.
  cbn [lookup_name]. repeat (match goal with |- context [if ?c then _ else _] => destruct c end; [lia|]). lia.
Qed.
