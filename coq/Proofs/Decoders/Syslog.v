From Verif Require Import Base.Sx Base.GoSem Model.Decoders.Common Model.Decoders.Syslog Proofs.Decoders.Common.
From Coq Require Import Lia ZifyBool.

(* never panics; on success the offset of '>' is inside the data, so data[1:offset] and
   data[offset+1:] are in range *)
Lemma syslog_parse_priority_spec data :
  match syslog_parse_priority data with
  | Ok (p, offset) => 2 <= offset <= 4 /\ offset < len data /\ 0 <= p <= 191
  | Err _ => True
  | Panic _ => False
  end.
Proof.
  unfold syslog_parse_priority.
  destruct (len data <? 3) eqn:Hl; [exact I|].
  step_idx c0. destruct (negb (beq c0 60%N)); [exact I|].
  name_index_byte offset. destruct ((offset <? 2) || (4 <? offset)) eqn:Ho; [exact I|].
  step_slice num.
  destruct (atoi num) as [v|] eqn:Ea; [|exact I].
  destruct (191 <? v) eqn:Hv; [exact I|].
  assert (0 <= v).
  { clear - Ea. unfold atoi in Ea. destruct num as [|c r]; [discriminate|].
    assert (G : forall l x y, 0 <= x -> atoi_from l x = Some y -> 0 <= y).
    { induction l as [|d l IH]; cbn [atoi_from]; intros x y Hx H.
      - injection H as <-. exact Hx.
      - destruct (is_digit d) eqn:Hd; [|discriminate]. apply IH in H; [exact H|].
        unfold is_digit in Hd. lia. }
    eapply G; [|exact Ea]. lia. }
  lia.
Qed.

Lemma index_any_bounds l cs : -1 <= index_any l cs < len l.
Proof.
  unfold index_any.
  assert (G : forall i, index_any_from l cs i = -1 \/ i <= index_any_from l cs i < i + len l).
  { induction l as [|x l IH]; intros i; cbn [index_any_from]; [left; reflexivity|].
    rewrite len_cons. pose proof (len_nonneg l). destruct (mem_byte x cs); [right; lia|].
    destruct (IH (i + 1)) as [->|H']; [left; reflexivity|right; lia]. }
  pose proof (len_nonneg l). destruct (G 0); lia.
Qed.
