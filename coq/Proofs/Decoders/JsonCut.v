From Verif Require Import Base.Sx Base.GoSem Model.Decoders.Common Model.Decoders.JsonCut Proofs.Decoders.Common.
From Coq Require Import Lia ZifyBool.

(* with a non-negative limit (negative ones are rejected when the decoder is built) and the value
   reported by gjson lying inside the document, the cut never slices out of range *)
Theorem json_cut_total : forall data index strlen limit p,
  0 <= limit -> 0 <= index -> index + strlen + 1 <= len data ->
  json_cut data index strlen limit <> Panic p.
Proof.
  intros data index strlen limit p Hl Hi Hin. unfold json_cut, json_cut_pos.
  destruct (strlen <=? limit) eqn:E; [discriminate|].
  unfold json_cut_at, slice_to, slice_from. cbn [fst snd].
  step_slice a. step_slice b. discriminate.
Qed.

(* a string value without escape sequences (raw text = unescaped text, so len(Str) = len raw):
   exactly the bytes beyond the limit are removed, everything else is preserved *)
Theorem json_cut_spec : forall pre s post limit,
  0 <= limit < len s ->
  json_cut (pre ++ QUOTE :: s ++ QUOTE :: post) (len pre) (len s) limit =
  Ok (pre ++ QUOTE :: firstn (Z.to_nat limit) s ++ QUOTE :: post).
Proof.
  intros pre s post limit Hl. unfold json_cut, json_cut_pos.
  replace (len s <=? limit) with false by lia. unfold json_cut_at. cbn [fst snd].
  set (n := Z.to_nat limit).
  assert (E1 : pre ++ QUOTE :: s ++ QUOTE :: post = (pre ++ QUOTE :: firstn n s) ++ (skipn n s ++ QUOTE :: post)).
  { rewrite <- app_assoc. cbn [app]. f_equal. f_equal. rewrite app_assoc. f_equal. symmetry. apply firstn_skipn. }
  assert (Hl1 : len (firstn n s) = limit).
  { unfold n, len in *. rewrite firstn_length. lia. }
  pose proof (len_nonneg pre).
  rewrite E1 at 1.
  replace (len pre + limit + 1) with (len (pre ++ QUOTE :: firstn n s)) by (rewrite len_app, len_cons; lia).
  rewrite slice_to_app. cbn [bind].
  replace (pre ++ QUOTE :: s ++ QUOTE :: post) with ((pre ++ QUOTE :: s) ++ (QUOTE :: post))
    by (rewrite <- !app_assoc; reflexivity).
  replace (len pre + len s + 1) with (len (pre ++ QUOTE :: s)) by (rewrite len_app, len_cons; lia).
  rewrite slice_from_app. cbn [bind]. rewrite <- !app_assoc. reflexivity.
Qed.

Corollary json_cut_keeps_framing : forall pre s post limit,
  0 <= limit < len s ->
  exists out, json_cut (pre ++ QUOTE :: s ++ QUOTE :: post) (len pre) (len s) limit = Ok out /\
              cut_keeps_framing pre s post out.
Proof.
  intros pre s post limit Hl. eexists. split; [apply json_cut_spec; exact Hl|].
  exists (Z.to_nat limit). reflexivity.
Qed.

(* with an escape sequence the unescaped length is shorter than the raw text and the cut, computed
   from the unescaped length, lands inside the raw text:  {"a":"a\""}  limit 1  ->  {"a":"a""} *)
Definition esc_pre : bytes := [123; 34; 97; 34; 58]%N.      (* {"a": *)
Definition esc_raw : bytes := [97; 92; 34]%N.               (* a\"  (unescaped: a", 2 bytes) *)
Definition esc_post : bytes := [125]%N.                     (* } *)

Theorem json_cut_escaped_refuted :
  exists pre raw post strlen limit out,
    strlen < len raw /\ 0 <= limit < strlen /\
    json_cut (pre ++ QUOTE :: raw ++ QUOTE :: post) (len pre) strlen limit = Ok out /\
    ~ cut_keeps_framing pre raw post out.
Proof.
  exists esc_pre, esc_raw, esc_post, 2, 1. eexists. split; [vm_compute; reflexivity|].
  split; [lia|]. split; [vm_compute; reflexivity|].
  intros [k Hk]. destruct k as [|[|[|k]]]; vm_compute in Hk; discriminate Hk.
Qed.
