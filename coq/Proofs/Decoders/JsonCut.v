(* json_max_fields_size (decoder/json.go cutFieldsBySize as repaired by ed38629): the cut never slices
   out of range, shortens exactly the named string to the longest prefix of its escaped text that fits
   the limit and splits no escape sequence, and touches nothing else. *)
From Verif Require Import Base.Sx Base.GoSem Model.Decoders.Common Model.Decoders.JsonCut Proofs.Decoders.Common.
From Coq Require Import Lia ZifyBool Permutation Sorted.

(* ---- valid escaped content: induction principle following esc_valid's own recursion ------------- *)
Definition ordinary (c : byte) : Prop :=
  beq c QUOTE = false /\ (c <? 32)%N = false /\ beq c BSLASH = false.

Lemma hex_ordinary h : is_hex h = true -> ordinary h.
Proof. intros H. unfold ordinary, is_hex, beq, QUOTE, BSLASH in *. lia. Qed.

Lemma beq_eq a b : beq a b = true -> a = b.
Proof. apply N.eqb_eq. Qed.

Lemma esc_valid_ord c r : ordinary c -> esc_valid (c :: r) = esc_valid r.
Proof. intros (H1 & H2 & H3). cbn [esc_valid]. rewrite H1, H2, H3. reflexivity. Qed.

Lemma esc_valid_simple e r :
  beq e LOWER_U = false -> esc_valid (BSLASH :: e :: r) = is_simple_escape e && esc_valid r.
Proof. intros H. cbn [esc_valid]. rewrite H. reflexivity. Qed.

Lemma esc_valid_uni h1 h2 h3 h4 r :
  esc_valid (BSLASH :: LOWER_U :: h1 :: h2 :: h3 :: h4 :: r) =
  is_hex h1 && is_hex h2 && is_hex h3 && is_hex h4 && esc_valid r.
Proof. reflexivity. Qed.

Lemma esc_valid_induction (P : bytes -> Prop)
  (Hnil : P [])
  (Hord : forall c r, ordinary c -> esc_valid r = true -> P r -> P (c :: r))
  (Hesc : forall e r, beq e LOWER_U = false -> is_simple_escape e = true -> esc_valid r = true -> P r ->
                      P (BSLASH :: e :: r))
  (Huni : forall h1 h2 h3 h4 r, is_hex h1 = true -> is_hex h2 = true -> is_hex h3 = true -> is_hex h4 = true ->
                                esc_valid r = true -> P r -> P (BSLASH :: LOWER_U :: h1 :: h2 :: h3 :: h4 :: r)) :
  forall l, esc_valid l = true -> P l.
Proof.
  assert (G : forall n l, (length l <= n)%nat -> esc_valid l = true -> P l).
  { induction n as [|n IH]; intros l Hn Hv.
    - destruct l; [exact Hnil|cbn [length] in Hn; lia].
    - destruct l as [|c r]; [exact Hnil|]. cbn [length] in Hn. cbn [esc_valid] in Hv.
      destruct (beq c QUOTE) eqn:Eq; [discriminate|].
      destruct (c <? 32)%N eqn:Ec; [discriminate|].
      destruct (beq c BSLASH) eqn:Eb.
      + apply beq_eq in Eb. subst c. destruct r as [|e r1]; [discriminate|]. cbn [length] in Hn.
        destruct (beq e LOWER_U) eqn:Eu.
        * apply beq_eq in Eu. subst e.
          destruct r1 as [|h1 [|h2 [|h3 [|h4 r2]]]]; try discriminate. cbn [length] in Hn.
          apply andb_prop in Hv. destruct Hv as [Hv Hr]. apply andb_prop in Hv. destruct Hv as [Hv H4].
          apply andb_prop in Hv. destruct Hv as [Hv H3]. apply andb_prop in Hv. destruct Hv as [H1 H2].
          apply Huni; try assumption. apply IH; [lia|assumption].
        * apply andb_prop in Hv. destruct Hv as [Hs Hr]. apply Hesc; try assumption. apply IH; [lia|assumption].
      + apply Hord; [repeat split; assumption|assumption|]. apply IH; [lia|assumption]. }
  intros l. apply (G (length l)). lia.
Qed.

(* a prefix that ends inside an escape sequence is not valid escaped content *)
Lemma esc_valid_lone_bslash : esc_valid [BSLASH] = false.
Proof. reflexivity. Qed.

Lemma esc_valid_cut_uni h1 h2 h3 h4 r k :
  (1 <= k <= 5)%nat -> esc_valid (firstn k (BSLASH :: LOWER_U :: h1 :: h2 :: h3 :: h4 :: r)) = false.
Proof.
  intros H. destruct k as [|[|[|[|[|[|k]]]]]]; try lia; reflexivity.
Qed.

(* ---- len(v.Raw) - 2: the scan finds the closing quote of a valid string --------------------------- *)
Lemma json_raw_len_valid raw : esc_valid raw = true ->
  forall rest i, json_raw_len (raw ++ QUOTE :: rest) i = Some (i + len raw).
Proof.
  intros Hv. pattern raw. revert raw Hv. apply esc_valid_induction.
  - intros rest i. cbn. f_equal. change (len (@nil byte)) with 0. lia.
  - intros c r (H1 & H2 & H3) _ IH rest i. cbn [app json_raw_len]. rewrite H1, H3.
    rewrite IH, len_cons. f_equal. lia.
  - intros e r _ _ _ IH rest i. cbn [app json_raw_len]. change (beq BSLASH QUOTE) with false.
    change (beq BSLASH BSLASH) with true. cbn match. rewrite IH, !len_cons. f_equal. lia.
  - intros h1 h2 h3 h4 r H1 H2 H3 H4 _ IH rest i.
    apply hex_ordinary in H1, H2, H3, H4.
    destruct H1 as (A1 & _ & B1), H2 as (A2 & _ & B2), H3 as (A3 & _ & B3), H4 as (A4 & _ & B4).
    cbn [app json_raw_len]. change (beq BSLASH QUOTE) with false. change (beq BSLASH BSLASH) with true. cbn match.
    rewrite A1, B1, A2, B2, A3, B3, A4, B4, IH, !len_cons. f_equal. lia.
Qed.

(* whatever the document: a reported length lies inside it and a quote stands there *)
Lemma json_raw_len_bounds : forall l i n, json_raw_len l i = Some n -> i <= n /\ n - i + 1 <= len l.
Proof.
  assert (G : forall m l, (length l <= m)%nat -> forall i n, json_raw_len l i = Some n -> i <= n /\ n - i + 1 <= len l).
  { induction m as [|m IH]; intros l Hm i n H.
    - destruct l; [discriminate|cbn [length] in Hm; lia].
    - destruct l as [|c r]; [discriminate|]. cbn [length] in Hm. cbn [json_raw_len] in H. rewrite len_cons.
      pose proof (len_nonneg r). destruct (beq c QUOTE).
      + injection H as <-. lia.
      + destruct (beq c BSLASH).
        * destruct r as [|e r']; [discriminate|]. cbn [length] in Hm. rewrite len_cons.
          apply IH in H; [|lia]. lia.
        * apply IH in H; [|lia]. lia. }
  intros l. apply (G (length l)). lia.
Qed.

(* ---- jsonCutKeep ----------------------------------------------------------------------------------- *)
(* for ANY content (valid or not): no index out of range, and the result lies between i and limit *)
Lemma json_cut_keep_from_total : forall rest i limit,
  i <= limit <= i + len rest -> exists k, json_cut_keep_from rest i limit = Ok k /\ i <= k <= limit.
Proof.
  assert (G : forall m rest, (length rest <= m)%nat -> forall i limit,
    i <= limit <= i + len rest -> exists k, json_cut_keep_from rest i limit = Ok k /\ i <= k <= limit).
  { induction m as [|m IH]; intros rest Hm i limit H.
    - destruct rest; [|cbn [length] in Hm; lia]. change (len (@nil byte)) with 0 in H.
      exists limit. cbn [json_cut_keep_from]. unfold json_keep_end. replace (limit <=? i) with true by lia. split; [reflexivity|lia].
    - destruct rest as [|c r].
      { change (len (@nil byte)) with 0 in H.
        exists limit. cbn [json_cut_keep_from]. unfold json_keep_end. replace (limit <=? i) with true by lia. split; [reflexivity|lia]. }
      cbn [length] in Hm. rewrite len_cons in H. pose proof (len_nonneg r) as Lr. cbn [json_cut_keep_from].
      destruct (limit <=? i) eqn:E0; [exists limit; split; [reflexivity|lia]|].
      destruct (negb (beq c BSLASH)).
      { destruct (IH r ltac:(lia) (i + 1) limit ltac:(lia)) as (k & Ek & Hk). exists k. split; [exact Ek|lia]. }
      destruct r as [|u r1].
      { change (len (@nil byte)) with 0 in H. replace (limit <? i + 2) with true by lia. exists i. split; [reflexivity|lia]. }
      cbn [length] in Hm. rewrite len_cons in H. pose proof (len_nonneg r1) as Lr1.
      destruct (beq u LOWER_U).
      + destruct (limit <? i + 6) eqn:E6; [exists i; split; [reflexivity|lia]|].
        destruct r1 as [|x1 [|x2 [|x3 [|x4 r2]]]]; try (rewrite ?len_cons in H; change (len (@nil byte)) with 0 in H; lia).
        cbn [length] in Hm. rewrite !len_cons in H.
        destruct (IH r2 ltac:(lia) (i + 6) limit ltac:(lia)) as (k & Ek & Hk). exists k. split; [exact Ek|lia].
      + destruct (limit <? i + 2) eqn:E2; [exists i; split; [reflexivity|lia]|].
        destruct (IH r1 ltac:(lia) (i + 2) limit ltac:(lia)) as (k & Ek & Hk). exists k. split; [exact Ek|lia]. }
  intros rest. apply (G (length rest)). lia.
Qed.

Lemma json_cut_keep_total content limit : 0 <= limit ->
  exists k, json_cut_keep content limit = Ok k /\ 0 <= k <= limit /\ k <= len content.
Proof.
  intros Hl. unfold json_cut_keep. pose proof (len_nonneg content).
  destruct (len content <=? limit) eqn:E; [exists (len content); split; [reflexivity|lia]|].
  destruct (json_cut_keep_from_total content 0 limit ltac:(lia)) as (k & Ek & Hk).
  exists k. split; [exact Ek|lia].
Qed.

(* for valid escaped content: the loop stops at the last escape-sequence boundary that fits.
   m = limit - i is what is left of the limit at rest = content[i:] *)
Lemma json_cut_keep_from_valid raw : esc_valid raw = true ->
  forall i limit, i <= limit < i + len raw ->
  exists k : nat,
    json_cut_keep_from raw i limit = Ok (i + Z.of_nat k) /\
    Z.of_nat k <= limit - i /\ limit - i - 6 < Z.of_nat k /\
    esc_valid (firstn k raw) = true /\
    (forall k' : nat, Z.of_nat k < Z.of_nat k' <= limit - i -> esc_valid (firstn k' raw) = false).
Proof.
  intros Hv. pattern raw. revert raw Hv. apply esc_valid_induction.
  - intros i limit H. change (len (@nil byte)) with 0 in H. lia.
  - intros c r Hc _ IH i limit H. rewrite len_cons in H. cbn [json_cut_keep_from].
    destruct (limit <=? i) eqn:E0.
    { exists 0%nat. split; [f_equal; lia|]. repeat split; try lia. all: intros k' Hk'; lia. }
    destruct Hc as (H1 & H2 & H3). rewrite H3. cbn [negb].
    destruct (IH (i + 1) limit ltac:(lia)) as (k & Ek & Hk1 & Hk2 & Hk3 & Hk4).
    exists (S k). split; [rewrite Ek; f_equal; lia|]. split; [lia|]. split; [lia|]. split.
    + cbn [firstn]. rewrite esc_valid_ord by (repeat split; assumption). exact Hk3.
    + intros k' Hk'. destruct k' as [|k']; [lia|]. cbn [firstn]. rewrite esc_valid_ord by (repeat split; assumption).
      apply Hk4. lia.
  - intros e r He Hs _ IH i limit H. rewrite !len_cons in H. cbn [json_cut_keep_from].
    destruct (limit <=? i) eqn:E0.
    { exists 0%nat. split; [f_equal; lia|]. repeat split; try lia. all: intros k' Hk'; lia. }
    change (beq BSLASH BSLASH) with true. cbn [negb]. rewrite He.
    destruct (limit <? i + 2) eqn:E2.
    { exists 0%nat. split; [f_equal; lia|]. repeat split; try lia.
      all: intros k' Hk'; assert (k' = 1%nat) by lia; subst k'; reflexivity. }
    destruct (IH (i + 2) limit ltac:(lia)) as (k & Ek & Hk1 & Hk2 & Hk3 & Hk4).
    exists (S (S k)). split; [rewrite Ek; f_equal; lia|]. split; [lia|]. split; [lia|]. split.
    + cbn [firstn]. rewrite esc_valid_simple, Hs by assumption. exact Hk3.
    + intros k' Hk'. destruct k' as [|[|k']]; [lia|lia|]. cbn [firstn]. rewrite esc_valid_simple, Hs by assumption.
      apply Hk4. lia.
  - intros h1 h2 h3 h4 r H1 H2 H3 H4 _ IH i limit H. rewrite !len_cons in H. cbn [json_cut_keep_from].
    destruct (limit <=? i) eqn:E0.
    { exists 0%nat. split; [f_equal; lia|]. repeat split; try lia. all: intros k' Hk'; lia. }
    change (beq BSLASH BSLASH) with true. cbn [negb]. change (beq LOWER_U LOWER_U) with true. cbn match.
    destruct (limit <? i + 6) eqn:E6.
    { exists 0%nat. split; [f_equal; lia|]. repeat split; try lia.
      all: intros k' Hk'; apply esc_valid_cut_uni; lia. }
    destruct (IH (i + 6) limit ltac:(lia)) as (k & Ek & Hk1 & Hk2 & Hk3 & Hk4).
    exists (6 + k)%nat. split; [rewrite Ek; f_equal; lia|]. split; [lia|]. split; [lia|]. split.
    + cbn [firstn plus]. rewrite esc_valid_uni, H1, H2, H3, H4. exact Hk3.
    + intros k' Hk'. destruct k' as [|[|[|[|[|[|k']]]]]]; try lia. cbn [firstn].
      rewrite esc_valid_uni, H1, H2, H3, H4. apply Hk4. lia.
Qed.

(* ---- the document  pre "raw" post ------------------------------------------------------------------ *)
Lemma skipn_len_app {A} (a b : list A) : skipn (Z.to_nat (len a)) (a ++ b) = b.
Proof. unfold len. rewrite Nat2Z.id, skipn_app, Nat.sub_diag, skipn_all. reflexivity. Qed.

Lemma json_raw_len_at_doc pre raw post : esc_valid raw = true ->
  json_raw_len_at (pre ++ QUOTE :: raw ++ QUOTE :: post) (len pre) = Some (len raw).
Proof.
  intros Hv. unfold json_raw_len_at. rewrite len_app, len_cons, skipn_len_app.
  pose proof (len_nonneg pre). pose proof (len_nonneg (raw ++ QUOTE :: post)).
  replace ((0 <=? len pre) && (len pre <? len pre + (len (raw ++ QUOTE :: post) + 1))) with true by lia.
  change (beq QUOTE QUOTE) with true. cbn match. rewrite json_raw_len_valid by exact Hv. f_equal; lia.
Qed.

Lemma slice_content {A} (pre : list A) x raw rest :
  slice (pre ++ x :: raw ++ rest) (len pre + 1) (len pre + 1 + len raw) = Ok raw.
Proof.
  replace (pre ++ x :: raw ++ rest) with ((pre ++ [x]) ++ raw ++ rest) by (rewrite <- app_assoc; reflexivity).
  replace (len pre + 1) with (len (pre ++ [x])) by (rewrite len_app; reflexivity).
  apply slice_mid.
Qed.

Lemma json_cut_at_doc pre raw post (k : nat) : (k <= length raw)%nat ->
  json_cut_at (pre ++ QUOTE :: raw ++ QUOTE :: post) (len pre + Z.of_nat k + 1, len pre + len raw) =
  Ok (pre ++ QUOTE :: firstn k raw ++ QUOTE :: post).
Proof.
  intros Hk. unfold json_cut_at. cbn [fst snd].
  assert (E1 : pre ++ QUOTE :: raw ++ QUOTE :: post = (pre ++ QUOTE :: firstn k raw) ++ (skipn k raw ++ QUOTE :: post)).
  { rewrite <- app_assoc. cbn [app]. f_equal. f_equal. rewrite app_assoc. f_equal. symmetry. apply firstn_skipn. }
  assert (Hl1 : len (firstn k raw) = Z.of_nat k).
  { unfold len. rewrite firstn_length. lia. }
  pose proof (len_nonneg pre).
  rewrite E1 at 1.
  replace (len pre + Z.of_nat k + 1) with (len (pre ++ QUOTE :: firstn k raw)) by (rewrite len_app, len_cons; lia).
  rewrite slice_to_app. cbn [bind].
  replace (pre ++ QUOTE :: raw ++ QUOTE :: post) with ((pre ++ QUOTE :: raw) ++ (QUOTE :: post))
    by (rewrite <- !app_assoc; reflexivity).
  replace (len pre + len raw + 1) with (len (pre ++ QUOTE :: raw)) by (rewrite len_app, len_cons; lia).
  rewrite slice_from_app. cbn [bind]. rewrite <- !app_assoc. reflexivity.
Qed.

(* ---- how much is kept ------------------------------------------------------------------------------ *)
Lemma json_kept_keep raw strlen limit : 0 <= limit -> limit < strlen ->
  json_cut_keep raw limit = Ok (Z.of_nat (json_kept raw strlen limit)).
Proof.
  intros Hl Hs. unfold json_kept. replace (strlen <=? limit) with false by lia.
  destruct (json_cut_keep_total raw limit Hl) as (k & Ek & Hk). rewrite Ek. f_equal. lia.
Qed.

Theorem json_kept_spec : forall raw strlen limit,
  esc_valid raw = true -> 0 <= limit ->
  let k := json_kept raw strlen limit in
  (k <= length raw)%nat /\
  esc_valid (firstn k raw) = true /\
  (strlen <= limit -> k = length raw) /\
  (limit < strlen ->
     Z.of_nat k <= limit /\
     (forall k' : nat, (k < k' <= length raw)%nat -> Z.of_nat k' <= limit -> esc_valid (firstn k' raw) = false) /\
     (limit <= len raw -> limit - 6 < Z.of_nat k) /\
     (limit <= len raw -> esc_valid (firstn (Z.to_nat limit) raw) = true -> Z.of_nat k = limit)).
Proof.
  intros raw strlen limit Hv Hl k. unfold k, json_kept.
  destruct (strlen <=? limit) eqn:Es.
  { rewrite firstn_all. repeat split; try lia; try assumption. }
  unfold json_cut_keep. destruct (len raw <=? limit) eqn:El.
  { unfold len. rewrite Nat2Z.id, firstn_all. unfold len in El.
    repeat split; try lia; try assumption. all: intros; lia. }
  destruct (json_cut_keep_from_valid raw Hv 0 limit ltac:(lia)) as (k0 & Ek & Hk1 & Hk2 & Hk3 & Hk4).
  rewrite Ek. replace (Z.to_nat (0 + Z.of_nat k0)) with k0 by lia. unfold len in El.
  assert (Hmax : forall k' : nat, (k0 < k' <= length raw)%nat -> Z.of_nat k' <= limit -> esc_valid (firstn k' raw) = false).
  { intros k' Hk' Hk'l. apply Hk4. lia. }
  split; [lia|]. split; [exact Hk3|]. split; [lia|]. intros _.
  split; [lia|]. split; [exact Hmax|]. split; [intros _; lia|].
  intros Hlr Hvl. destruct (Z.eq_dec (Z.of_nat k0) limit) as [E|N]; [exact E|].
  rewrite (Hmax (Z.to_nat limit)) in Hvl; [discriminate|unfold len in Hlr; lia|lia].
Qed.

Lemma json_cut_pos_doc pre raw post strlen limit : esc_valid raw = true -> 0 <= limit ->
  json_cut_pos (pre ++ QUOTE :: raw ++ QUOTE :: post) (len pre) strlen limit =
  Ok (if strlen <=? limit then None
      else Some (len pre + Z.of_nat (json_kept raw strlen limit) + 1, len pre + len raw)).
Proof.
  intros Hv Hl. unfold json_cut_pos. destruct (strlen <=? limit) eqn:Es; [reflexivity|].
  rewrite json_raw_len_at_doc by exact Hv.
  rewrite slice_content. cbn [bind]. rewrite (json_kept_keep raw strlen limit) by lia. reflexivity.
Qed.

(* ---- one path --------------------------------------------------------------------------------------- *)
Theorem json_cut_doc : forall pre raw post strlen limit,
  esc_valid raw = true -> 0 <= limit ->
  json_cut (pre ++ QUOTE :: raw ++ QUOTE :: post) (len pre) strlen limit =
  Ok (pre ++ QUOTE :: firstn (json_kept raw strlen limit) raw ++ QUOTE :: post).
Proof.
  intros pre raw post strlen limit Hv Hl. unfold json_cut. rewrite json_cut_pos_doc by assumption. cbn [bind].
  pose proof (json_kept_spec raw strlen limit Hv Hl) as (Hk & _ & Hfit & _).
  destruct (strlen <=? limit) eqn:Es.
  - rewrite Hfit by lia. rewrite firstn_all. reflexivity.
  - apply json_cut_at_doc. exact Hk.
Qed.

Theorem json_cut_spec : forall pre raw post strlen limit,
  esc_valid raw = true -> 0 <= limit ->
  exists k : nat,
    json_cut (pre ++ QUOTE :: raw ++ QUOTE :: post) (len pre) strlen limit =
      Ok (pre ++ QUOTE :: firstn k raw ++ QUOTE :: post) /\
    (k <= length raw)%nat /\
    esc_valid (firstn k raw) = true /\
    (strlen <= limit -> k = length raw) /\
    (limit < strlen ->
       Z.of_nat k <= limit /\
       (forall k' : nat, (k < k' <= length raw)%nat -> Z.of_nat k' <= limit -> esc_valid (firstn k' raw) = false) /\
       (limit <= len raw -> limit - 6 < Z.of_nat k) /\
       (limit <= len raw -> esc_valid (firstn (Z.to_nat limit) raw) = true -> Z.of_nat k = limit)).
Proof.
  intros pre raw post strlen limit Hv Hl. exists (json_kept raw strlen limit).
  split; [apply json_cut_doc; assumption|]. apply json_kept_spec; assumption.
Qed.

Corollary json_cut_keeps_framing : forall pre raw post strlen limit,
  esc_valid raw = true -> 0 <= limit ->
  exists out, json_cut (pre ++ QUOTE :: raw ++ QUOTE :: post) (len pre) strlen limit = Ok out /\
              cut_keeps_framing pre raw post out.
Proof.
  intros pre raw post strlen limit Hv Hl. eexists. split; [apply json_cut_doc; assumption|].
  eexists. reflexivity.
Qed.

(* ---- totality: any document, any oracle values that point at a terminated string ------------------ *)
Lemma json_raw_len_at_inv data index n : json_raw_len_at data index = Some n ->
  0 <= index /\ 0 <= n /\ index + n + 2 <= len data.
Proof.
  unfold json_raw_len_at. destruct ((0 <=? index) && (index <? len data)) eqn:E; [|discriminate].
  destruct (skipn (Z.to_nat index) data) as [|q tail] eqn:Es; [discriminate|].
  destruct (beq q QUOTE); [|discriminate]. intros H. apply json_raw_len_bounds in H.
  assert (L : len (q :: tail) = len data - index).
  { rewrite <- Es. unfold len. rewrite skipn_length. unfold len in E. lia. }
  rewrite len_cons in L. lia.
Qed.

Lemma json_cut_pos_total data index strlen limit : 0 <= limit -> json_raw_len_at data index <> None ->
  exists r, json_cut_pos data index strlen limit = Ok r /\
            match r with Some (s, e) => 0 <= s <= e + 1 /\ e + 1 <= len data | None => True end.
Proof.
  intros Hl Hr. unfold json_cut_pos. destruct (strlen <=? limit); [exists None; split; [reflexivity|exact I]|].
  destruct (json_raw_len_at data index) as [n|] eqn:En; [|congruence].
  apply json_raw_len_at_inv in En. destruct En as (H0 & Hn & Hd).
  step_slice content. destruct (json_cut_keep_total content limit Hl) as (k & Ek & Hk). rewrite Ek. cbn [bind].
  eexists. split; [reflexivity|]. cbn beta iota. lia.
Qed.

Theorem json_cut_total : forall data index strlen limit p,
  0 <= limit -> json_raw_len_at data index <> None ->
  json_cut data index strlen limit <> Panic p.
Proof.
  intros data index strlen limit p Hl Hr. unfold json_cut.
  destruct (json_cut_pos_total data index strlen limit Hl Hr) as (r & Er & Hb). rewrite Er. cbn [bind].
  destruct r as [[s e]|]; [|discriminate].
  unfold json_cut_at, slice_to, slice_from. cbn [fst snd].
  step_slice a. step_slice b. discriminate.
Qed.

(* ---- several paths ---------------------------------------------------------------------------------- *)
(* the cut positions of the fields in document order *)
Fixpoint jf_poss (at_ : Z) (fs : list jfield) : list (Z * Z) :=
  match fs with
  | [] => []
  | (raw, post, strlen, limit) :: r =>
      (if strlen <=? limit then [] else [(at_ + Z.of_nat (json_kept raw strlen limit) + 1, at_ + len raw)])
      ++ jf_poss (at_ + len raw + 2 + len post) r
  end.

Definition pos_list (data : bytes) (x : Z * Z * Z) : list (Z * Z) :=
  let '(index, strlen, limit) := x in
  match json_cut_pos data index strlen limit with Ok (Some p) => [p] | _ => [] end.

Lemma jf_doc_cons raw post strlen limit r :
  jf_doc ((raw, post, strlen, limit) :: r) = QUOTE :: raw ++ QUOTE :: post ++ jf_doc r.
Proof. reflexivity. Qed.

Lemma jf_cut_cons raw post strlen limit r :
  jf_cut ((raw, post, strlen, limit) :: r) =
  QUOTE :: firstn (json_kept raw strlen limit) raw ++ QUOTE :: post ++ jf_cut r.
Proof. reflexivity. Qed.

(* every position is found on the original document *)
Lemma json_find_each : forall fs pre data, data = pre ++ jf_doc fs -> Forall jf_ok fs ->
  (forall x, In x (jf_found (len pre) fs) ->
     exists p, (let '(index, strlen, limit) := x in json_cut_pos data index strlen limit) = Ok p) /\
  flat_map (pos_list data) (jf_found (len pre) fs) = jf_poss (len pre) fs.
Proof.
  induction fs as [|[[[raw post] strlen] limit] r IH]; intros pre data Hd Hok.
  - split; [intros x []|reflexivity].
  - inversion Hok as [|f r' Hf Hr]; subst f r'. unfold jf_ok in Hf. destruct Hf as [Hv Hl].
    rewrite jf_doc_cons in Hd.
    assert (E1 : json_cut_pos data (len pre) strlen limit =
                 Ok (if strlen <=? limit then None
                     else Some (len pre + Z.of_nat (json_kept raw strlen limit) + 1, len pre + len raw))).
    { rewrite Hd. apply json_cut_pos_doc; assumption. }
    set (pre' := pre ++ QUOTE :: raw ++ QUOTE :: post).
    assert (Hd' : data = pre' ++ jf_doc r).
    { rewrite Hd. unfold pre'. rewrite <- !app_assoc. cbn [app]. rewrite <- !app_assoc. reflexivity. }
    assert (Hl' : len pre' = len pre + len raw + 2 + len post).
    { unfold pre'. rewrite len_app, len_cons, len_app, len_cons. lia. }
    destruct (IH pre' data Hd' Hr) as [IH1 IH2]. rewrite Hl' in IH1, IH2.
    cbn [jf_found jf_poss flat_map]. split.
    + intros x [<-|Hx]; [eexists; exact E1|apply IH1; exact Hx].
    + rewrite IH2. f_equal. unfold pos_list. rewrite E1. destruct (strlen <=? limit); reflexivity.
Qed.

Lemma json_find_all_ok data : forall found,
  (forall x, In x found ->
     exists p, (let '(index, strlen, limit) := x in json_cut_pos data index strlen limit) = Ok p) ->
  json_find_all data found = Ok (flat_map (pos_list data) found).
Proof.
  induction found as [|[[index strlen] limit] r IH]; intros H; [reflexivity|].
  destruct (H (index, strlen, limit) (or_introl eq_refl)) as [p Ep]. cbn beta iota in Ep.
  cbn [json_find_all flat_map]. unfold pos_list at 1. rewrite Ep. cbn [bind].
  rewrite IH by (intros x Hx; apply H; right; exact Hx). cbn [bind]. destruct p; reflexivity.
Qed.

(* sorting: a permutation of a list with strictly ascending starts sorts to its reverse *)
Definition pos_ge (a b : Z * Z) : Prop := fst b <= fst a.
Definition pos_gt (a b : Z * Z) : Prop := fst b < fst a.
Definition pos_lt (a b : Z * Z) : Prop := fst a < fst b.

Lemma insert_desc_perm p l : Permutation (insert_desc p l) (p :: l).
Proof.
  induction l as [|q r IH]; [reflexivity|]. cbn [insert_desc]. destruct (fst q <? fst p); [reflexivity|].
  rewrite IH. apply perm_swap.
Qed.

Lemma sort_desc_perm l : Permutation (sort_desc l) l.
Proof.
  induction l as [|p r IH]; [reflexivity|]. unfold sort_desc in *. cbn [fold_right].
  rewrite insert_desc_perm. apply perm_skip. exact IH.
Qed.

Lemma insert_desc_sorted p l : StronglySorted pos_ge l -> StronglySorted pos_ge (insert_desc p l).
Proof.
  induction l as [|q r IH]; intros Hs; cbn [insert_desc].
  - constructor; constructor.
  - inversion Hs as [|q' r' Hr Hq]; subst q' r'. destruct (fst q <? fst p) eqn:E.
    + constructor; [exact Hs|]. constructor; [unfold pos_ge; lia|].
      eapply Forall_impl; [|exact Hq]. unfold pos_ge. intros x Hx. lia.
    + constructor; [apply IH; exact Hr|].
      eapply Permutation_Forall; [symmetry; apply insert_desc_perm|].
      constructor; [unfold pos_ge; lia|exact Hq].
Qed.

Lemma sort_desc_sorted l : StronglySorted pos_ge (sort_desc l).
Proof.
  induction l as [|p r IH]; [constructor|]. unfold sort_desc in *. cbn [fold_right].
  apply insert_desc_sorted. exact IH.
Qed.

Lemma sorted_unique : forall l1 l2, Permutation l1 l2 ->
  StronglySorted pos_ge l1 -> StronglySorted pos_gt l2 -> l1 = l2.
Proof.
  induction l1 as [|a l1 IH]; intros l2 Hp H1 H2.
  - apply Permutation_nil in Hp. subst. reflexivity.
  - destruct l2 as [|b l2]; [symmetry in Hp; apply Permutation_nil in Hp; discriminate|].
    inversion H1 as [|a' l1' S1 F1]; subst a' l1'. inversion H2 as [|b' l2' S2 F2]; subst b' l2'.
    assert (E : a = b).
    { assert (Ia : In a (b :: l2)) by (eapply Permutation_in; [exact Hp|left; reflexivity]).
      assert (Ib : In b (a :: l1)) by (eapply Permutation_in; [symmetry; exact Hp|left; reflexivity]).
      destruct Ia as [->|Ia]; [reflexivity|]. destruct Ib as [->|Ib]; [reflexivity|].
      rewrite Forall_forall in F1, F2. specialize (F1 b Ib). specialize (F2 a Ia).
      unfold pos_ge, pos_gt in *. lia. }
    subst b. f_equal. apply IH; [eapply Permutation_cons_inv; exact Hp|exact S1|exact S2].
Qed.

Lemma rev_sorted l : StronglySorted pos_lt l -> StronglySorted pos_gt (rev l).
Proof.
  induction l as [|a l IH]; intros H; [constructor|]. inversion H as [|a' l' S F]; subst a' l'.
  cbn [rev]. specialize (IH S). clear H S.
  induction (rev l) as [|x r IHr] eqn:Er in IH, F |- *.
  - constructor; constructor.
  - assert (Fr : Forall (pos_lt a) (x :: r)).
    { rewrite <- Er. eapply Permutation_Forall; [apply Permutation_rev|exact F]. }
    clear F Er. revert IH Fr. generalize (x :: r). clear.
    induction l as [|y l IHl]; intros S F; [constructor; constructor|].
    inversion S as [|y' l' S' F']; subst y' l'. inversion F as [|y' l' Fy Fl]; subst y' l'.
    cbn [app]. constructor; [apply IHl; assumption|].
    apply Forall_app. split; [exact F'|]. constructor; [unfold pos_gt, pos_lt in *; lia|constructor].
Qed.

Lemma sort_desc_of_perm l asc : Permutation l asc -> StronglySorted pos_lt asc -> sort_desc l = rev asc.
Proof.
  intros Hp Hs. apply sorted_unique; [|apply sort_desc_sorted|apply rev_sorted; exact Hs].
  rewrite sort_desc_perm, Hp. apply Permutation_rev.
Qed.

(* the positions of the fields are strictly ascending *)
Lemma jf_poss_after : forall fs at_, Forall jf_ok fs -> Forall (fun p => at_ < fst p) (jf_poss at_ fs).
Proof.
  induction fs as [|[[[raw post] strlen] limit] r IH]; intros at_ Hok; [constructor|].
  inversion Hok as [|f r' Hf Hr]; subst f r'. unfold jf_ok in Hf. destruct Hf as [Hv Hl]. cbn [jf_poss]. apply Forall_app. split.
  - destruct (strlen <=? limit); constructor; [cbn [fst]; lia|constructor].
  - eapply Forall_impl; [|apply IH; exact Hr]. cbn beta. intros p Hp.
    pose proof (len_nonneg raw). pose proof (len_nonneg post). lia.
Qed.

Lemma jf_poss_sorted : forall fs at_, Forall jf_ok fs -> StronglySorted pos_lt (jf_poss at_ fs).
Proof.
  induction fs as [|[[[raw post] strlen] limit] r IH]; intros at_ Hok; [constructor|].
  inversion Hok as [|f r' Hf Hr]; subst f r'. unfold jf_ok in Hf. destruct Hf as [Hv Hl]. cbn [jf_poss].
  destruct (strlen <=? limit); cbn [app]; [apply IH; exact Hr|].
  constructor; [apply IH; exact Hr|].
  eapply Forall_impl; [|apply jf_poss_after; exact Hr]. cbn beta. unfold pos_lt. cbn [fst]. intros p Hp.
  pose proof (json_kept_spec raw strlen limit Hv Hl) as (Hk & _). pose proof (len_nonneg post). unfold len in *. lia.
Qed.

Lemma json_cut_all_app : forall a b data,
  json_cut_all data (a ++ b) = (d <- json_cut_all data a ;; json_cut_all d b).
Proof.
  induction a as [|p a IH]; intros b data; [reflexivity|]. cbn [app json_cut_all].
  destruct (json_cut_at data p); cbn [bind]; [apply IH|reflexivity|reflexivity].
Qed.

(* cutting from the last position to the first: no cut moves a position that is still to be cut *)
Lemma json_cut_all_doc : forall fs pre, Forall jf_ok fs ->
  json_cut_all (pre ++ jf_doc fs) (rev (jf_poss (len pre) fs)) = Ok (pre ++ jf_cut fs).
Proof.
  induction fs as [|[[[raw post] strlen] limit] r IH]; intros pre Hok; [reflexivity|].
  inversion Hok as [|f r' Hf Hr]; subst f r'. unfold jf_ok in Hf. destruct Hf as [Hv Hl].
  cbn [jf_poss]. rewrite rev_app_distr, json_cut_all_app, jf_doc_cons, jf_cut_cons.
  set (pre' := pre ++ QUOTE :: raw ++ QUOTE :: post).
  assert (Hl' : len pre' = len pre + len raw + 2 + len post).
  { unfold pre'. rewrite len_app, len_cons, len_app, len_cons. lia. }
  replace (pre ++ QUOTE :: raw ++ QUOTE :: post ++ jf_doc r) with (pre' ++ jf_doc r)
    by (unfold pre'; rewrite <- !app_assoc; cbn [app]; rewrite <- !app_assoc; reflexivity).
  rewrite <- Hl', IH by exact Hr. cbn [bind].
  replace (pre' ++ jf_cut r) with (pre ++ QUOTE :: raw ++ QUOTE :: (post ++ jf_cut r))
    by (unfold pre'; rewrite <- !app_assoc; cbn [app]; rewrite <- !app_assoc; reflexivity).
  pose proof (json_kept_spec raw strlen limit Hv Hl) as (Hk & _ & Hfit & _).
  destruct (strlen <=? limit) eqn:Es; cbn [rev app json_cut_all].
  - rewrite Hfit by lia. rewrite firstn_all. reflexivity.
  - rewrite json_cut_at_doc by exact Hk. reflexivity.
Qed.

(* gjson's answers arrive in the (random) iteration order of a Go map: any permutation *)
Theorem json_cut_many_spec : forall pre fs found,
  Forall jf_ok fs -> Permutation found (jf_found (len pre) fs) ->
  json_cut_many (pre ++ jf_doc fs) found = Ok (pre ++ jf_cut fs).
Proof.
  intros pre fs found Hok Hp. unfold json_cut_many.
  destruct (json_find_each fs pre _ eq_refl Hok) as [Heach Hflat].
  rewrite json_find_all_ok by (intros x Hx; apply Heach; eapply Permutation_in; [exact Hp|exact Hx]).
  cbn [bind]. rewrite (sort_desc_of_perm _ (jf_poss (len pre) fs)).
  - apply json_cut_all_doc. exact Hok.
  - rewrite <- Hflat. apply Permutation_flat_map. exact Hp.
  - apply jf_poss_sorted. exact Hok.
Qed.

(* ---- the runner's predicate (json_cut_framed) says what the theorems say --------------------------- *)
Lemma strip_prefix_iff : forall p l r, strip_prefix p l = Some r <-> l = p ++ r.
Proof.
  induction p as [|a p IH]; intros l r; cbn [strip_prefix app].
  - split; [intros H; injection H as ->; reflexivity|intros ->; reflexivity].
  - destruct l as [|b l]; [split; discriminate|]. destruct (beq a b) eqn:E.
    + apply beq_eq in E. subst b. rewrite IH. split; [intros ->; reflexivity|intros H; injection H as ->; reflexivity].
    + split; [discriminate|]. intros H. injection H as <- _. unfold beq in E. rewrite N.eqb_refl in E. discriminate.
Qed.

Lemma strip_prefix_app p r : strip_prefix p (p ++ r) = Some r.
Proof. apply strip_prefix_iff. reflexivity. Qed.

Lemma field_framed_iff (K : bytes -> bool) post : forall raw out,
  field_framed K post raw out = true <->
  exists (k : nat) out', out = firstn k raw ++ QUOTE :: post ++ out' /\ K out' = true.
Proof.
  induction raw as [|c raw IH]; intros out.
  - cbn [field_framed]. rewrite Bool.orb_false_r. split.
    + destruct (strip_prefix (QUOTE :: post) out) as [o|] eqn:E; [|discriminate]. intros HK.
      apply strip_prefix_iff in E. exists 0%nat, o. split; [exact E|exact HK].
    + intros (k & o & -> & HK). rewrite firstn_nil. cbn [app].
      change (QUOTE :: post ++ o) with ((QUOTE :: post) ++ o). rewrite strip_prefix_app. exact HK.
  - cbn [field_framed]. rewrite Bool.orb_true_iff. split.
    + intros [H|H].
      * destruct (strip_prefix (QUOTE :: post) out) as [o|] eqn:E; [|discriminate].
        apply strip_prefix_iff in E. exists 0%nat, o. split; [exact E|exact H].
      * destruct out as [|d out]; [discriminate|]. apply andb_prop in H. destruct H as [Hc H].
        apply beq_eq in Hc. subst d. apply IH in H. destruct H as (k & o & -> & HK).
        exists (S k), o. split; [reflexivity|exact HK].
    + intros (k & o & -> & HK). destruct k as [|k].
      * left. cbn [firstn app]. change (QUOTE :: post ++ o) with ((QUOTE :: post) ++ o).
        rewrite strip_prefix_app. exact HK.
      * right. cbn [firstn app]. unfold beq at 1. rewrite N.eqb_refl. cbn [andb]. apply IH.
        exists k, o. split; [reflexivity|exact HK].
Qed.

Theorem fields_framed_iff : forall fs out,
  fields_framed fs out = true <-> exists ks, length ks = length fs /\ out = cut_doc fs ks.
Proof.
  induction fs as [|[raw post] r IH]; intros out.
  - cbn [fields_framed]. split.
    + destruct out; [|discriminate]. intros _. exists []. split; reflexivity.
    + intros (ks & _ & ->). destruct ks; reflexivity.
  - cbn [fields_framed]. split.
    + destruct out as [|q out]; [discriminate|]. intros H. apply andb_prop in H. destruct H as [Hq H].
      apply beq_eq in Hq. subst q. apply field_framed_iff in H. destruct H as (k & o & -> & HK).
      apply IH in HK. destruct HK as (ks & Hl & ->). exists (k :: ks). split; [cbn [length]; lia|].
      reflexivity.
    + intros (ks & Hl & ->). destruct ks as [|k ks]; [discriminate|]. cbn [cut_doc].
      change (beq QUOTE QUOTE) with true. cbn [andb]. apply field_framed_iff.
      exists k, (cut_doc r ks). split; [reflexivity|].
      apply IH. exists ks. split; [cbn [length] in Hl; lia|reflexivity].
Qed.

(* the named strings the runner finds in  pre ++ jf_doc fs  are the fields of fs *)
Fixpoint jf_strs (at_ : Z) (fs : list jfield) : list (Z * Z) :=
  match fs with
  | [] => []
  | (raw, post, _, _) :: r => (at_, len raw) :: jf_strs (at_ + len raw + 2 + len post) r
  end.

Lemma json_named_doc : forall fs pre data, data = pre ++ jf_doc fs -> Forall jf_ok fs ->
  json_named_strings data (jf_found (len pre) fs) = Some (jf_strs (len pre) fs).
Proof.
  induction fs as [|[[[raw post] strlen] limit] r IH]; intros pre data Hd Hok; [reflexivity|].
  inversion Hok as [|f r' Hf Hr]; subst f r'. unfold jf_ok in Hf. destruct Hf as [Hv Hl].
  rewrite jf_doc_cons in Hd.
  set (pre' := pre ++ QUOTE :: raw ++ QUOTE :: post).
  assert (Hd' : data = pre' ++ jf_doc r).
  { rewrite Hd. unfold pre'. rewrite <- !app_assoc. cbn [app]. rewrite <- !app_assoc. reflexivity. }
  assert (Hl' : len pre' = len pre + len raw + 2 + len post).
  { unfold pre'. rewrite len_app, len_cons, len_app, len_cons. lia. }
  specialize (IH pre' data Hd' Hr). rewrite Hl' in IH.
  unfold json_named_strings in *. cbn [jf_found jf_strs fold_right]. rewrite IH.
  replace (json_raw_len_at data (len pre)) with (Some (len raw)) by (rewrite Hd; symmetry; apply json_raw_len_at_doc; exact Hv).
  f_equal. destruct r as [|[[[raw2 post2] s2] l2] r2]; [reflexivity|]. cbn [jf_strs insert_asc fst].
  pose proof (len_nonneg raw). pose proof (len_nonneg post).
  replace (len pre <? len pre + len raw + 2 + len post) with true by lia. reflexivity.
Qed.

Lemma split_fields_doc : forall fs x at_,
  split_fields (x ++ jf_doc fs) at_ (jf_strs (at_ + len x) fs) = Some (x, jf_pairs fs).
Proof.
  induction fs as [|[[[raw post] strlen] limit] r IH]; intros x at_.
  - cbn. rewrite app_nil_r. reflexivity.
  - rewrite jf_doc_cons. cbn [jf_strs split_fields jf_pairs map].
    pose proof (len_nonneg x). pose proof (len_nonneg raw). pose proof (len_nonneg post). pose proof (len_nonneg (jf_doc r)).
    replace ((at_ <=? at_ + len x) && (0 <=? len raw) &&
             (at_ + len x - at_ + len raw + 2 <=? len (x ++ QUOTE :: raw ++ QUOTE :: post ++ jf_doc r))) with true
      by (rewrite len_app, len_cons, len_app, len_cons, len_app; lia).
    replace (Z.to_nat (at_ + len x - at_)) with (length x) by (unfold len; lia).
    replace (Z.to_nat (len raw)) with (length raw) by (unfold len; lia).
    rewrite firstn_app, Nat.sub_diag, firstn_all. cbn [firstn]. rewrite app_nil_r.
    replace (skipn (S (length x)) (x ++ QUOTE :: raw ++ QUOTE :: post ++ jf_doc r)) with (raw ++ QUOTE :: post ++ jf_doc r).
    2:{ replace (S (length x)) with (length (x ++ [QUOTE])) by (rewrite app_length; cbn [length]; lia).
        replace (x ++ QUOTE :: raw ++ QUOTE :: post ++ jf_doc r) with ((x ++ [QUOTE]) ++ raw ++ QUOTE :: post ++ jf_doc r)
          by (rewrite <- app_assoc; reflexivity).
        rewrite skipn_app, Nat.sub_diag, skipn_all. reflexivity. }
    rewrite firstn_app, Nat.sub_diag, firstn_all. cbn [firstn]. rewrite app_nil_r.
    replace (skipn (S (S (length x)) + length raw) (x ++ QUOTE :: raw ++ QUOTE :: post ++ jf_doc r)) with (post ++ jf_doc r).
    2:{ replace (S (S (length x)) + length raw)%nat with (length (x ++ QUOTE :: raw ++ [QUOTE]))
          by (rewrite app_length; cbn [length]; rewrite app_length; cbn [length]; lia).
        replace (x ++ QUOTE :: raw ++ QUOTE :: post ++ jf_doc r) with ((x ++ QUOTE :: raw ++ [QUOTE]) ++ post ++ jf_doc r)
          by (rewrite <- !app_assoc; cbn [app]; rewrite <- !app_assoc; reflexivity).
        rewrite skipn_app, Nat.sub_diag, skipn_all. reflexivity. }
    replace (at_ + len x + len raw + 2 + len post) with ((at_ + len x + len raw + 2) + len post) by lia.
    rewrite IH. reflexivity.
Qed.

Theorem json_cut_framed_doc : forall pre fs out, Forall jf_ok fs ->
  (json_cut_framed (pre ++ jf_doc fs) (jf_found (len pre) fs) out = Some true <->
   exists ks, length ks = length fs /\ out = pre ++ cut_doc (jf_pairs fs) ks).
Proof.
  intros pre fs out Hok. unfold json_cut_framed.
  rewrite (json_named_doc fs pre _ eq_refl Hok).
  pose proof (split_fields_doc fs pre 0) as Hs. cbn [Z.add] in Hs. rewrite Hs. split.
  - intros H. injection H as H. destruct (strip_prefix pre out) as [o|] eqn:E; [|discriminate].
    apply strip_prefix_iff in E. apply fields_framed_iff in H. destruct H as (ks & Hl & ->).
    exists ks. split; [unfold jf_pairs in Hl; rewrite map_length in Hl; exact Hl|exact E].
  - intros (ks & Hl & ->). rewrite strip_prefix_app. f_equal.
    apply fields_framed_iff. exists ks. split; [unfold jf_pairs; rewrite map_length; exact Hl|reflexivity].
Qed.

Lemma jf_cut_is_cut_doc : forall fs,
  jf_cut fs = cut_doc (jf_pairs fs) (map (fun '(raw, _, strlen, limit) => json_kept raw strlen limit) fs).
Proof.
  induction fs as [|[[[raw post] strlen] limit] r IH]; [reflexivity|].
  rewrite jf_cut_cons. cbn [jf_pairs map cut_doc]. f_equal. f_equal. f_equal. f_equal. exact IH.
Qed.

(* what the model computes passes the runner's predicate *)
Corollary json_cut_many_framed : forall pre fs, Forall jf_ok fs ->
  json_cut_framed (pre ++ jf_doc fs) (jf_found (len pre) fs) (pre ++ jf_cut fs) = Some true.
Proof.
  intros pre fs Hok. apply json_cut_framed_doc; [exact Hok|].
  eexists. split; [|rewrite jf_cut_is_cut_doc; reflexivity]. rewrite map_length. reflexivity.
Qed.

(* ---- two paths that resolve to the SAME string (e.g. a and \a): the positions overlap --------------- *)
(* {"a":"0123456789","z":"tail"} with limits 3 and 5 on the one string: both positions are computed on
   the original document, the second cut removes the closing quote and what follows it *)
(* (last section of the file: String is imported only for the literals below) *)
From Coq Require Import Strings.String.
Local Open Scope string_scope.
Definition alias_pre : bytes := bs "{""a"":".
Definition alias_raw : bytes := bs "0123456789".
Definition alias_post : bytes := bs ",""z"":""tail""}".
Local Close Scope string_scope.
Local Open Scope Z_scope.

Theorem json_cut_many_aliased_refuted :
  exists pre raw post strlen l1 l2 out,
    esc_valid raw = true /\ 0 <= l1 /\ 0 <= l2 /\
    json_cut_many (pre ++ QUOTE :: raw ++ QUOTE :: post) [(len pre, strlen, l1); (len pre, strlen, l2)] = Ok out /\
    ~ cut_keeps_framing pre raw post out.
Proof.
  exists alias_pre, alias_raw, alias_post, 10, 3, 5. eexists.
  split; [reflexivity|]. split; [lia|]. split; [lia|]. split; [vm_compute; reflexivity|].
  intros [k Hk]. do 11 (try destruct k as [|k]); vm_compute in Hk; discriminate Hk.
Qed.
